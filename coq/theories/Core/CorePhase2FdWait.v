(* CorePhase2FdWait.v -- the kernel waits: what the state invariant (CoreInv) and the
   kernel semantics give at the point where the TWait event is emitted (codes 201,
   1104), at the return of the wait (202, 203) and after the returned batch has
   been turned into the dispatch list (establishes the dispatch invariant M). *)
From Coq Require Import List ZArith Bool Lia.
From Ivv Require Import Core.Kernel Core.CoreTypes Core.CoreFd Core.CoreModel Core.Monitors Core.GuardMon Core.CoreSpec
  Core.CoreInvBase Core.CoreInvDefs Core.CoreInvFd Core.CoreInvPoll Core.CoreInvReg Core.CoreInvObj Core.CoreInvLoop
  Core.CoreInvWait.
From Ivv Require Import Core.CorePhase2FdBase Core.CorePhase2FdMon Core.CorePhase2FdStep.
From Ivv Require Import Core.CoreRel Core.CorePhase2FdInv Core.CorePhase2FdLoop.
Import ListNotations.
Local Open Scope Z_scope.

(* ---------- tracker vs model ---------- *)
Lemma wanted_of_bands : forall b s i, J b s -> inr16 i -> wanted_of (mst s) i = bands_of (fdt s i).
Proof.
  intros b s i Jh I0. pose proof (j_ag _ _ Jh) as A. unfold wanted_of, bands_of.
  rewrite (ag_fh0 _ _ A i I0), (ag_fh1 _ _ A i I0), (ag_fh2 _ _ A i I0). reflexivity.
Qed.

Lemma bands_of_has : forall f,
  has (bands_of f) M_IN = is_some (h_in f) /\ has (bands_of f) M_OUT = is_some (h_out f) /\
  has (bands_of f) M_ERR = is_some (h_err f).
Proof. intros f. unfold bands_of. destruct (h_in f), (h_out f), (h_err f); repeat split; reflexivity. Qed.

(* ---------- the user descriptors at a wait ---------- *)
Definition UOpen (s : core) : Prop :=
  forall i, 0 <= i < 16 -> registered (fdt s i) = true ->
  exists v, k_open (kern s) (100 + i) = Some v /\ vkind v = K_SCRIPTED.

Lemma UOpen_of_Inv : forall s, InvW s -> KX (kern s) -> UOpen s.
Proof.
  intros s I [[_ KU] _] i R RG. pose proof (CoreInvDefs.iw_fd _ I) as FI.
  assert (L : live s (-1) i) by (apply live_none; split; [lia|exact RG]).
  pose proof (fv_open _ _ FI i L) as O. rewrite (fv_user _ _ FI i R) in O.
  destruct (k_open (kern s) (100 + i)) as [v|] eqn:E; [|contradiction]. exists v. split; [reflexivity|].
  apply k_open_get in E. destruct E as [G _]. apply (KU i v R G).
Qed.

Definition UEnt (s : core) : Prop :=
  NoDup (map en_fd (ep (kern s))) /\
  (forall e, In e (ep (kern s)) -> 100 <= en_fd e < 116 ->
     en_data e = en_fd e - 100 /\ registered (fdt s (en_fd e - 100)) = true /\ bands_of (fdt s (en_fd e - 100)) <> 0 /\
     en_events e = epoll_mask (bands_of (fdt s (en_fd e - 100))) /\ en_enabled e = true) /\
  (forall i, 0 <= i < 16 -> registered (fdt s i) = true -> bands_of (fdt s i) <> 0 ->
     exists e, In e (ep (kern s)) /\ en_fd e = 100 + i).

Lemma regb_bands : forall s k, InvW s -> is_epoll s = true -> notify s = [] -> registered (fdt s k) = true ->
  regb (fdt s k) = bands_of (fdt s k).
Proof.
  intros s k I E N RG. destruct (CoreInvDefs.iw_sync _ I k RG) as (W & S & _). rewrite <- W.
  destruct (Z.eq_dec (regb (fdt s k)) (wanted (fdt s k))) as [Q|Q]; [exact Q|].
  apply (proj2 (S E)) in Q. rewrite N in Q. destruct Q.
Qed.

Lemma UEnt_of_Inv : forall s, InvW s -> KX (kern s) -> is_epoll s = true -> notify s = [] -> UEnt s.
Proof.
  intros s I [_ KE0] E N. pose proof (CoreInvDefs.iw_fd _ I) as FI. split; [apply (fv_nodup _ _ FI)|]. split.
  - intros e I0 R. destruct (fv_ent _ _ FI e I0) as [(L & F & NZ & EV)|[(D & _ & _ & _ & G)|(D & _ & _ & G)]]; try lia.
    apply live_none in L. destruct L as [L RG].
    assert (DU : en_data e < 16).
    { destruct (Z_lt_le_dec (en_data e) 16) as [Q|Q]; [exact Q|].
      pose proof (fv_dyn _ _ FI (en_data e) Q ltac:(apply live_none; tauto)). lia. }
    assert (DE : en_data e = en_fd e - 100) by (rewrite F, (fv_user _ _ FI (en_data e)) by lia; lia).
    rewrite <- DE. pose proof (regb_bands s (en_data e) I E N RG) as RB. rewrite RB in NZ, EV.
    split; [reflexivity|]. split; [exact RG|]. split; [exact NZ|]. split; [exact EV|apply (KE0 e I0)].
  - intros i R RG NZ. assert (L : live s (-1) i) by (apply live_none; split; [lia|exact RG]).
    pose proof (regb_bands s i I E N RG) as RB.
    destruct (fv_has _ _ FI E i L ltac:(rewrite RB; exact NZ)) as (e & I0 & F & _).
    exists e. split; [exact I0|]. rewrite F. apply (fv_user _ _ FI i R).
Qed.

(* codes 201 and 1104 under the epoll back ends *)
Lemma wait_interest_epoll : forall s, J true s -> UEnt s ->
  list_eqb3 (user_interest (interest_of (kern s))) (expected_interest (mst s) false) = true /\
  stale_at (mst s) (interest_of (kern s)) = false.
Proof.
  intros s Jh (ND & A & B). pose proof (j_ag _ _ Jh) as AG.
  assert (AF : forall i, 0 <= i < 16 -> a_fd (mst s) i = registered (fdt s i)) by (intros i R; apply (ag_fd _ _ AG); exact R).
  assert (WB : forall i, 0 <= i < 16 -> wanted_of (mst s) i = bands_of (fdt s i)) by (intros i R; apply (wanted_of_bands true); assumption).
  split.
  - unfold interest_of, expected_interest.
    rewrite (interest_eq (ep (kern s)) (fun i => a_fd (mst s) i && negb (wanted_of (mst s) i =? 0))
                         (fun i => epoll_mask (wanted_of (mst s) i)) ND).
    + apply list_eqb3_refl.
    + intros e I0 R. destruct (A e I0 R) as (_ & RG & NZ & EV & EN).
      rewrite AF, WB by lia. rewrite RG. split; [|split; assumption].
      cbn [andb]. apply negb_true_iff. apply Z.eqb_neq. exact NZ.
    + intros i R P. apply andb_true_iff in P. destruct P as [P1 P2]. rewrite AF in P1 by assumption.
      apply negb_true_iff in P2. apply Z.eqb_neq in P2. rewrite WB in P2 by assumption. apply B; assumption.
  - unfold stale_at, interest_of. apply not_true_is_false. intros H. apply existsb_exists in H.
    destruct H as (x & I0 & H). apply in_map_iff in I0. destruct I0 as (e & <- & I0). cbn [fst] in H.
    apply (proj1 (In_sort_ents _ _)) in I0.
    apply andb_true_iff in H. destruct H as [H H3]. apply andb_true_iff in H. destruct H as [H1 H2].
    apply Z.leb_le in H1. apply Z.ltb_lt in H2.
    destruct (A e I0 (conj H1 H2)) as (_ & RG & _). rewrite AF, RG in H3 by lia. discriminate H3.
Qed.

(* ---------- poll back ends ---------- *)
Definition UPoll (s : core) : Prop :=
  NoDup (map fst (pfds s)) /\
  (forall p, In p (pfds s) -> 100 <= fst p < 116 ->
     registered (fdt s (fst p - 100)) = true /\ bands_of (fdt s (fst p - 100)) <> 0 /\
     snd p = poll_mask (bands_of (fdt s (fst p - 100)))) /\
  (forall i, 0 <= i < 16 -> registered (fdt s i) = true -> bands_of (fdt s i) <> 0 ->
     exists p, In p (pfds s) /\ fst p = 100 + i) /\
  length (pfds s) = length (pkeys s) /\
  (forall n d, nth_error (pkeys s) n = Some d ->
     0 <= d <= 32 /\ registered (fdt s d) = true /\
     exists ev, nth_error (pfds s) n = Some (fdnum (fdt s d), ev) /\
                (d < 16 -> fdnum (fdt s d) = 100 + d /\ ev = poll_mask (bands_of (fdt s d))) /\
                (16 <= d -> 1000 <= fdnum (fdt s d))).

Lemma UPoll_of_Inv : forall s, InvW s -> is_epoll s = false -> UPoll s.
Proof.
  intros s I E. pose proof (CoreInvDefs.iw_fd _ I) as FI.
  assert (KEY : forall n d, nth_error (pkeys s) n = Some d ->
     0 <= d <= 32 /\ registered (fdt s d) = true /\
     exists ev, nth_error (pfds s) n = Some (fdnum (fdt s d), ev) /\
                (d < 16 -> fdnum (fdt s d) = 100 + d /\ ev = poll_mask (bands_of (fdt s d))) /\
                (16 <= d -> 1000 <= fdnum (fdt s d))).
  { intros n d H. destruct (fv_pkey _ _ FI n d H) as (L & PX & ev & PF).
    pose proof L as L0. apply live_none in L0. destruct L0 as [RD RG].
    split; [exact RD|]. split; [exact RG|]. exists ev. split; [exact PF|]. split.
    - intros DU. split; [apply (fv_user _ _ FI); lia|].
      destruct (CoreInvDefs.iw_sync _ I d RG) as (W & _ & S). destruct (S E) as [S1 S2].
      rewrite <- W. rewrite PX, Nat2Z.id in S2. apply (S2 _ PF). lia.
    - intros DR. apply (fv_dyn _ _ FI d DR L). }
  assert (ENT : forall p, In p (pfds s) -> exists n d, nth_error (pkeys s) n = Some d /\ nth_error (pfds s) n = Some p).
  { intros p H. apply In_nth_error in H. destruct H as [n H].
    pose proof (nth_error_lt _ _ _ _ H) as LT. rewrite (fv_plen _ _ FI) in LT.
    destruct (nth_error_ex _ (pkeys s) n LT) as [d D]. exists n, d. auto. }
  split; [|split; [|split; [|split; [apply (fv_plen _ _ FI)|exact KEY]]]].
  - apply NoDup_nth_error. intros n m LT EQ. rewrite map_length in LT.
    rewrite !nth_error_map in EQ.
    destruct (nth_error (pfds s) n) as [p|] eqn:PN; [|apply nth_error_None in PN; lia].
    destruct (nth_error (pfds s) m) as [q|] eqn:PM; [|discriminate EQ]. cbn [option_map] in EQ. inversion EQ as [FQ].
    pose proof (nth_error_lt _ _ _ _ PN) as L1. pose proof (nth_error_lt _ _ _ _ PM) as L2.
    rewrite (fv_plen _ _ FI) in L1, L2.
    destruct (nth_error_ex _ (pkeys s) n L1) as [d1 D1]. destruct (nth_error_ex _ (pkeys s) m L2) as [d2 D2].
    destruct (fv_pkey _ _ FI n d1 D1) as (LV1 & _ & e1 & P1). destruct (fv_pkey _ _ FI m d2 D2) as (LV2 & _ & e2 & P2).
    rewrite PN in P1. rewrite PM in P2. inversion P1; inversion P2; subst p q. cbn [fst] in FQ.
    pose proof (fv_inj _ _ FI d1 d2 LV1 LV2 FQ). subst d2. eapply pkeys_pos_inj; eassumption.
  - intros p H R. destruct (ENT p H) as (n & d & D & PN).
    destruct (KEY n d D) as (RD & RG & ev & PF & KU & KR). rewrite PN in PF. inversion PF; subst p. cbn [fst snd] in *.
    assert (DU : d < 16) by (destruct (Z_lt_le_dec d 16); [assumption|specialize (KR ltac:(assumption)); lia]).
    destruct (KU DU) as [F EV]. rewrite F. replace (100 + d - 100) with d by lia.
    split; [exact RG|]. split; [|exact EV].
    destruct (fv_pkey _ _ FI n d D) as (_ & PX & _).
    destruct (CoreInvDefs.iw_sync _ I d RG) as (W & _ & S). destruct (S E) as [S1 _]. rewrite <- W. apply S1. lia.
  - intros i R RG NZ. assert (L : live s (-1) i) by (apply live_none; split; [lia|exact RG]).
    destruct (CoreInvDefs.iw_sync _ I i RG) as (W & _ & S). destruct (S E) as [S1 _].
    assert (PX : pidx (fdt s i) <> -1) by (apply S1; rewrite W; exact NZ).
    destruct (fv_pidx _ _ FI E i L) as [Q|(Q1 & Q2)]; [contradiction|].
    destruct (KEY _ _ Q2) as (_ & _ & ev & PF & KU & _). destruct (KU ltac:(lia)) as [F _].
    exists (fdnum (fdt s i), ev). split; [eapply nth_error_In; exact PF|cbn [fst]; exact F].
Qed.

Definition mk_ent (x : Z * Z) : epent := {| en_fd := fst x; en_events := snd x; en_data := 0; en_enabled := true |}.

Lemma interest_of_pfds_eq : forall p,
  interest_of_pfds p = map (fun e => (en_fd e, en_events e, en_enabled e)) (sort_ents (map mk_ent p)).
Proof.
  intros p. unfold interest_of_pfds. fold mk_ent. apply map_ext_in. intros e H.
  apply (proj1 (In_sort_ents _ _)) in H. apply in_map_iff in H. destruct H as (x & <- & _). reflexivity.
Qed.

Lemma wait_interest_poll : forall s, J true s -> UPoll s ->
  list_eqb3 (user_interest (interest_of_pfds (pfds s))) (expected_interest (mst s) true) = true /\
  stale_at (mst s) (interest_of_pfds (pfds s)) = false.
Proof.
  intros s Jh (ND & A & B & _). pose proof (j_ag _ _ Jh) as AG.
  assert (AF : forall i, 0 <= i < 16 -> a_fd (mst s) i = registered (fdt s i)) by (intros i R; apply (ag_fd _ _ AG); exact R).
  assert (WB : forall i, 0 <= i < 16 -> wanted_of (mst s) i = bands_of (fdt s i)) by (intros i R; apply (wanted_of_bands true); assumption).
  rewrite interest_of_pfds_eq.
  assert (ND' : NoDup (map en_fd (map mk_ent (pfds s)))) by (rewrite map_map; exact ND).
  split.
  - unfold expected_interest.
    rewrite (interest_eq (map mk_ent (pfds s)) (fun i => a_fd (mst s) i && negb (wanted_of (mst s) i =? 0))
                         (fun i => poll_mask (wanted_of (mst s) i)) ND').
    + apply list_eqb3_refl.
    + intros e I0 R. apply in_map_iff in I0. destruct I0 as (p & <- & I0). cbn [mk_ent en_fd en_events en_enabled] in *.
      destruct (A p I0 R) as (RG & NZ & EV). rewrite AF, WB by lia. rewrite RG. split; [|split; [exact EV|reflexivity]].
      cbn [andb]. apply negb_true_iff. apply Z.eqb_neq. exact NZ.
    + intros i R P. apply andb_true_iff in P. destruct P as [P1 P2]. rewrite AF in P1 by assumption.
      apply negb_true_iff in P2. apply Z.eqb_neq in P2. rewrite WB in P2 by assumption.
      destruct (B i R P1 P2) as (p & I0 & F). exists (mk_ent p). split; [apply in_map; exact I0|exact F].
  - unfold stale_at. apply not_true_is_false. intros H. apply existsb_exists in H.
    destruct H as (x & I0 & H). apply in_map_iff in I0. destruct I0 as (e & <- & I0). cbn [fst] in H.
    apply (proj1 (In_sort_ents _ _)) in I0. apply in_map_iff in I0. destruct I0 as (p & <- & I0). cbn [mk_ent en_fd] in H.
    apply andb_true_iff in H. destruct H as [H H3]. apply andb_true_iff in H. destruct H as [H1 H2].
    apply Z.leb_le in H1. apply Z.ltb_lt in H2.
    destruct (A p I0 (conj H1 H2)) as (RG & _). rewrite AF, RG in H3 by lia. discriminate H3.
Qed.

(* ---------- reported bits and bands ---------- *)
Definition rbits (c ev : Z) : Z :=
  bits4 (has c B_IN && has ev B_IN) (has c B_OUT && has ev B_OUT) (has c B_HUP) (has c B_ERR).

Lemma ready_bits_eq : forall k e, ep_ready_bits k e = if negb (en_enabled e) then 0 else rbits (k_cond k (en_fd e)) (en_events e).
Proof. reflexivity. Qed.

Lemma band_holds_sound : forall b c ev, band_holds b (rbits c ev) = true -> band_holds b c = true.
Proof.
  intros b c ev. unfold rbits, band_holds.
  destruct (bits4_has (has c B_IN && has ev B_IN) (has c B_OUT && has ev B_OUT) (has c B_HUP) (has c B_ERR)) as (A & B & C & D & _).
  rewrite A, B, C, D. destruct (b =? 0); [|destruct (b =? 1)];
    destruct (has c B_IN), (has c B_OUT), (has c B_HUP), (has c B_ERR), (has ev B_IN), (has ev B_OUT); cbn; congruence.
Qed.

Lemma band_holds_complete : forall b c ev, band_holds b c = true ->
  (b = 0 -> has ev B_IN = true) -> (b = 1 -> has ev B_OUT = true) -> band_holds b (rbits c ev) = true.
Proof.
  intros b c ev. unfold rbits, band_holds.
  destruct (bits4_has (has c B_IN && has ev B_IN) (has c B_OUT && has ev B_OUT) (has c B_HUP) (has c B_ERR)) as (A & B & C & D & _).
  rewrite A, B, C, D. destruct (Z.eqb_spec b 0) as [E0|N0]; [|destruct (Z.eqb_spec b 1) as [E1|N1]]; intros H H0 H1.
  - rewrite (H0 E0). destruct (has c B_IN), (has c B_HUP), (has c B_ERR); cbn in *; congruence.
  - rewrite (H1 E1). destruct (has c B_OUT), (has c B_HUP), (has c B_ERR); cbn in *; congruence.
  - exact H.
Qed.

Lemma band_holds_nonzero : forall b r, band_holds b r = true -> r <> 0.
Proof. intros b r H E. subst r. unfold band_holds in H. cbn in H. destruct (b =? 0); [discriminate|destruct (b =? 1); discriminate]. Qed.

Lemma vfds_same : forall kx k, vfds kx = vfds k ->
  (forall fd, k_get kx fd = k_get k fd) /\ (forall fd, k_open kx fd = k_open k fd) /\ ground kx = ground k.
Proof.
  intros kx k E.
  assert (G : forall fd, k_get kx fd = k_get k fd) by (intros; unfold k_get; rewrite E; reflexivity).
  assert (O : forall fd, k_open kx fd = k_open k fd) by (intros; unfold k_open; rewrite G; reflexivity).
  split; [exact G|]. split; [exact O|]. unfold ground. apply flat_map_ext. intros fd. rewrite O. reflexivity.
Qed.

(* the condition the kernel evaluates for a registered user descriptor is the logged ground truth *)
Lemma user_cond : forall s kx i, UOpen s -> vfds kx = vfds (kern s) -> 0 <= i < 16 -> registered (fdt s i) = true ->
  k_cond kx (100 + i) = gnd_of (ground (kern s)) i /\ k_open kx (100 + i) <> None.
Proof.
  intros s kx i UO E R RG. destruct (UO i R RG) as (v & O & K).
  destruct (vfds_same kx (kern s) E) as (_ & OO & GG). rewrite <- GG.
  rewrite <- OO in O. split; [symmetry; apply (gnd_cond kx i v R O K)|congruence].
Qed.

Lemma rw_in : forall m g i b, In (i, b) (ready_wanted m g) <->
  0 <= i < 16 /\ a_fd m i = true /\ 0 <= b <= 2 /\ a_fh m i b <> None /\ band_holds b (gnd_of g i) = true.
Proof.
  intros m g i b. unfold ready_wanted. rewrite in_flat_map. split.
  - intros (x & I0 & H). unfold objs in I0. apply In_zseq in I0. destruct (a_fd m x) eqn:AF; [|destruct H].
    apply in_flat_map in H. destruct H as (y & I1 & H). destruct (a_fh m x y) as [h|] eqn:AH; [|destruct H].
    destruct (band_holds y (gnd_of g x)) eqn:BH; [|destruct H]. destruct H as [H|[]]. inversion H; subst x y.
    split; [lia|]. split; [exact AF|]. split; [cbn [In] in I1; lia|]. split; [congruence|exact BH].
  - intros (R & AF & B & AH & BH). exists i. split; [apply In_zseq; lia|]. rewrite AF. apply in_flat_map.
    exists b. split; [cbn [In]; lia|]. destruct (a_fh m i b); [|contradiction]. rewrite BH. left. reflexivity.
Qed.

Lemma afh_hnd : forall b0 s i b, J b0 s -> 0 <= i < 16 -> 0 <= b <= 2 -> a_fh (mst s) i b = hnd (fdt s i) b.
Proof.
  intros b0 s i b Jh R B. pose proof (j_ag _ _ Jh) as A.
  assert (HB : b = 0 \/ b = 1 \/ b = 2) by lia. destruct HB as [->|[->| ->]]; unfold hnd; cbn.
  - apply (ag_fh0 _ _ A i R).
  - apply (ag_fh1 _ _ A i R).
  - apply (ag_fh2 _ _ A i R).
Qed.

Lemma hnd_bands : forall f b, 0 <= b <= 2 -> hnd f b <> None -> has (bands_of f) (bbit b) = true.
Proof.
  intros f b B H. destruct (bands_of_has f) as (A1 & A2 & A3).
  assert (HB : b = 0 \/ b = 1 \/ b = 2) by lia. destruct HB as [->|[->| ->]]; unfold hnd, bbit in *; cbn in *.
  - rewrite A1. destruct (h_in f); [reflexivity|contradiction].
  - rewrite A2. destruct (h_out f); [reflexivity|contradiction].
  - rewrite A3. destruct (h_err f); [reflexivity|contradiction].
Qed.

Lemma has_nonzero : forall x b, has x b = true -> x <> 0.
Proof. intros x b H E. subst x. unfold has in H. rewrite Z.land_0_l in H. discriminate H. Qed.

(* a wanted ready descriptor has a ready interest entry (epoll) *)
Lemma rw_entry_epoll : forall s kx i b, J true s -> UEnt s -> UOpen s -> vfds kx = vfds (kern s) ->
  In (i, b) (ready_wanted (mst s) (ground (kern s))) ->
  exists e, In e (ep (kern s)) /\ en_fd e = 100 + i /\ en_data e = i /\ band_holds b (ep_ready_bits kx e) = true.
Proof.
  intros s kx i b Jh (ND & A & B) UO E H. apply rw_in in H. destruct H as (R & AF & BB & AH & BH).
  rewrite (ag_fd _ _ (j_ag _ _ Jh) i R) in AF. rewrite (afh_hnd true s i b Jh R BB) in AH.
  pose proof (hnd_bands _ _ BB AH) as HBD.
  destruct (B i R AF (has_nonzero _ _ HBD)) as (e & I0 & F).
  destruct (A e I0 ltac:(lia)) as (D & _ & _ & EV & EN). replace (en_fd e - 100) with i in * by lia.
  exists e. split; [exact I0|]. split; [exact F|]. split; [exact D|].
  rewrite ready_bits_eq, EN. cbn [negb]. rewrite F. destruct (user_cond s kx i UO E R AF) as [C _]. rewrite C.
  apply band_holds_complete; [exact BH| |]; intros ->; rewrite EV; destruct (epoll_mask_has (bands_of (fdt s i))) as (M1 & M2 & _).
  - rewrite M1. exact HBD.
  - rewrite M2. exact HBD.
Qed.

(* ---------- k_epoll_sleep ---------- *)
Lemma sleep_scan : forall k maxev timeout rot k1 evs, KX k -> k_epoll_sleep k maxev timeout rot = WReady k1 evs ->
  exists order, (forall e, In e order <-> In e (ep k)) /\ vfds k1 = vfds k /\ ep k1 = ep k /\ clock k <= clock k1 /\
    ((evs = ep_scan k order (Z.to_nat maxev) /\ clock k1 = clock k) \/
     (ep_scan k order (Z.to_nat maxev) = [] /\ exists kx, vfds kx = vfds k /\ evs = ep_scan kx order (Z.to_nat maxev))).
Proof.
  intros k maxev timeout rot k1 evs [V E] H. unfold k_epoll_sleep in H.
  assert (D : forall k0 rep, ep k0 = ep k -> disable_oneshot (ep k0) rep = ep k).
  { intros k0 rep Q. rewrite Q. apply disable_oneshot_id. intros e I0. apply E. assumption. }
  set (order := rotate _ (sort_ents (ep k))) in H.
  exists order. split.
  { intros e. unfold order. rewrite In_rotate_iff. apply In_sort_ents. }
  destruct (ep_scan k order (Z.to_nat maxev)) as [|ev0 evs0] eqn:SC.
  - destruct (timeout =? 0).
    + inversion H; subst. split; [reflexivity|]. split; [reflexivity|]. split; [lia|]. left. split; reflexivity.
    + set (wake := ep_wake _ _ _) in H. destruct (wake <? 0); [discriminate H|].
      set (kx := if clock k <? wake then k_set_clock k wake else k) in H.
      assert (E1 : ep kx = ep k) by (unfold kx; destruct (clock k <? wake); reflexivity).
      assert (V1 : vfds kx = vfds k) by (unfold kx; destruct (clock k <? wake); reflexivity).
      assert (C1 : clock k <= clock kx) by (unfold kx; destruct (Z.ltb_spec (clock k) wake); cbn [clock k_set_clock]; lia).
      inversion H; subst. cbn [vfds ep clock k_set_ep]. rewrite (D kx _ E1).
      split; [exact V1|]. split; [reflexivity|]. split; [exact C1|]. right. split; [reflexivity|]. exists kx. split; [exact V1|reflexivity].
  - inversion H; subst. cbn [vfds ep clock k_set_ep]. rewrite (D k _ eq_refl).
    split; [reflexivity|]. split; [reflexivity|]. split; [lia|]. left. split; reflexivity.
Qed.

(* codes 202 and 203 under the epoll back ends; s is the state in which the TWait event has just been logged *)
Lemma ret_conds_epoll : forall s maxev timeout rot k1 evs, J true s -> UEnt s -> UOpen s -> KX (kern s) ->
  1 <= maxev -> w_gnd (mst s) = ground (kern s) -> w_call (mst s) < 2 -> w_max (mst s) = maxev ->
  k_epoll_sleep (kern s) maxev timeout rot = WReady k1 evs ->
  cond202 (mst s) (clock k1) = true /\
  cond203 (mst s) (Z.of_nat (length evs)) (map (fun e => fst (fst e)) evs) = true.
Proof.
  intros s maxev timeout rot k1 evs Jh UE UO KX0 MX WG WC WM SL.
  destruct (sleep_scan _ _ _ _ _ _ KX0 SL) as (order & ORD & V1 & E1 & C1 & SC).
  assert (FIRST : forall i b, In (i, b) (ready_wanted (mst s) (ground (kern s))) ->
            exists e, In e order /\ en_fd e = 100 + i /\ ep_ready_bits (kern s) e <> 0 /\
                      evs = ep_scan (kern s) order (Z.to_nat maxev) /\ clock k1 = clock (kern s)).
  { intros i b H. destruct (rw_entry_epoll s (kern s) i b Jh UE UO eq_refl H) as (e & I0 & F & _ & BH).
    pose proof (band_holds_nonzero _ _ BH) as NZ. apply ORD in I0.
    exists e. split; [exact I0|]. split; [exact F|]. split; [exact NZ|].
    destruct SC as [SC|[SC _]]; [exact SC|]. exfalso.
    apply (ep_scan_nonempty (kern s) order (Z.to_nat maxev) e I0 NZ); [lia|exact SC]. }
  split.
  - unfold cond202. rewrite WG. destruct (ready_wanted (mst s) (ground (kern s))) as [|[i b] rest] eqn:RW.
    + rewrite andb_false_r. reflexivity.
    + destruct (FIRST i b (or_introl eq_refl)) as (e & _ & _ & _ & _ & CK).
      rewrite (ag_clk _ _ (j_ag _ _ Jh)), CK, Z.ltb_irrefl. reflexivity.
  - unfold cond203. rewrite WG.
    destruct (filter _ (ready_wanted (mst s) (ground (kern s)))) as [|[i b] rest] eqn:FL; [reflexivity|].
    assert (IN : In (i, b) (filter (fun p => negb (mem_z (100 + fst p) (map (fun e => fst (fst e)) evs)))
                                   (ready_wanted (mst s) (ground (kern s))))) by (rewrite FL; left; reflexivity).
    apply filter_In in IN. destruct IN as [IN NM]. cbn [fst] in NM. apply negb_true_iff in NM.
    destruct (FIRST i b IN) as (e & I0 & F & NZ & EV & _).
    apply andb_true_iff. split; [apply negb_true_iff; apply Z.leb_gt; exact WC|].
    apply Z.leb_le. rewrite WM.
    destruct (ep_scan_complete (kern s) order (Z.to_nat maxev) e I0 NZ) as [H|H]; rewrite <- EV in H.
    + exfalso. apply mem_z_false in NM. apply NM. apply in_map_iff.
      exists (en_fd e, ep_ready_bits (kern s) e, en_data e). split; [cbn [fst]; exact F|exact H].
    + rewrite H. lia.
Qed.

(* ---------- iv_fd_make_ready / activate ---------- *)
Definition bit3 (x : Z) : Prop := x = M_IN \/ x = M_OUT \/ x = M_ERR.

Lemma bit3_bbit : forall b, bit3 (bbit b).
Proof. intros b. unfold bit3, bbit. destruct (b =? 0); [auto|destruct (b =? 1); auto]. Qed.

(* only `ready` and the dispatch list change *)
Record ActFr (s s' : core) : Prop := {
  af_kern : kern s' = kern s;
  af_trace : trace s' = trace s;
  af_handled : handled s' = handled s;
  af_fd : forall i, registered (fdt s' i) = registered (fdt s i) /\ h_in (fdt s' i) = h_in (fdt s i) /\
                    h_out (fdt s' i) = h_out (fdt s i) /\ h_err (fdt s' i) = h_err (fdt s i) /\
                    fdnum (fdt s' i) = fdnum (fdt s i);
  af_act : forall i, In i (active s) -> In i (active s') }.

Lemma ActFr_refl : forall s, ActFr s s.
Proof. intros; constructor; auto. Qed.
Lemma ActFr_trans : forall a b c, ActFr a b -> ActFr b c -> ActFr a c.
Proof.
  intros a b c [A1 A2 A3 A4 A5] [B1 B2 B3 B4 B5]. constructor; try congruence; auto.
  intros i. destruct (A4 i) as (P1 & P2 & P3 & P4 & P5), (B4 i) as (Q1 & Q2 & Q3 & Q4 & Q5). repeat split; congruence.
Qed.

Section Ready.
Variable OKB : Z -> Z -> Prop.

Definition RJ (s : core) : Prop :=
  NoDup (active s) /\ forall i x, In i (active s) -> bit3 x -> has (ready (fdt s i)) x = true -> OKB i x.
Definition EA (s : core) (d x : Z) : Prop := In d (active s) /\ has (ready (fdt s d)) x = true.

Lemma make_ready_eff : forall s d bands, bit3 bands ->
  let s' := make_ready s d bands in
  ActFr s s' /\
  (RJ s -> OKB d bands -> RJ s') /\
  (forall i x, EA s i x -> EA s' i x) /\ EA s' d bands.
Proof.
  intros s d bands B3 s'. unfold s', make_ready, getfd, RJ, EA. cbv zeta.
  assert (HB : forall x, bit3 x -> has bands x = true -> x = bands).
  { intros x [->|[->| ->]] H; destruct B3 as [->|[->| ->]]; try reflexivity; discriminate H. }
  assert (HS : has bands bands = true) by (destruct B3 as [->|[->| ->]]; reflexivity).
  destruct (mem_z d (active s)) eqn:MZ.
  - apply mem_z_In in MZ. split; [|split; [|split]].
    + constructor; sp; auto. intros i. unfold upd. destruct (i =? d) eqn:Q; [apply Z.eqb_eq in Q; subst|]; repeat split; reflexivity.
    + intros [ND RJ0] OK. split; [exact ND|]. sp. intros i x I0 X H. unfold upd in H.
      destruct (Z.eq_dec i d) as [->|N]; [rewrite Z.eqb_refl in H|rewrite (proj2 (Z.eqb_neq i d) N) in H; eauto].
      cbn [ready fd_with_ready fd_with_bands] in H.
      rewrite has_lor in H. apply orb_true_iff in H. destruct H as [H|H]; [eauto|].
      rewrite (HB x X H). exact OK.
    + intros i x [I0 H]. split; [exact I0|]. sp. unfold upd. destruct (Z.eqb_spec i d) as [->|N]; [|exact H].
      cbn [ready fd_with_ready fd_with_bands]. rewrite has_lor, H. reflexivity.
    + split; [exact MZ|]. sp. unfold upd. rewrite Z.eqb_refl. cbn [ready fd_with_ready fd_with_bands].
      rewrite has_lor, HS. apply orb_true_r.
  - apply mem_z_false in MZ. split; [|split; [|split]].
    + constructor; sp; auto.
      * intros i. unfold upd. destruct (i =? d) eqn:Q; [apply Z.eqb_eq in Q; subst; rewrite Z.eqb_refl|]; repeat split; reflexivity.
      * intros i I0. apply in_or_app. left. exact I0.
    + intros [ND RJ0] OK. sp. split.
      * apply NoDup_app_iff. split; [exact ND|]. split; [constructor; [intros []|constructor]|].
        intros x I1 [<-|[]]. exact (MZ I1).
      * intros i x I0 X H. sp. unfold upd in H. destruct (Z.eq_dec i d) as [->|N].
        -- rewrite !Z.eqb_refl in H. cbn [ready fd_with_ready fd_with_bands] in H.
           rewrite has_lor in H. apply orb_true_iff in H. destruct H as [H|H]; [discriminate H|].
           rewrite (HB x X H). exact OK.
        -- apply in_app_or in I0. destruct I0 as [I0|[I0|[]]]; [|congruence].
           rewrite !(proj2 (Z.eqb_neq i d) N) in H. eauto.
    + intros i x [I0 H]. sp. split; [apply in_or_app; left; exact I0|].
      assert (N : i <> d) by (intros ->; exact (MZ I0)). unfold upd. destruct (Z.eqb_spec i d); [contradiction|exact H].
    + sp. split; [apply in_or_app; right; left; reflexivity|]. unfold upd. rewrite !Z.eqb_refl.
      cbn [ready fd_with_ready fd_with_bands]. rewrite has_lor, HS. apply orb_true_r.
Qed.

Lemma activate_eff : forall s d bits,
  let s' := activate s d bits in
  ActFr s s' /\
  (RJ s -> (forall b, 0 <= b <= 2 -> band_holds b bits = true -> OKB d (bbit b)) -> RJ s') /\
  (forall i x, EA s i x -> EA s' i x) /\
  (forall b, 0 <= b <= 2 -> band_holds b bits = true -> EA s' d (bbit b)).
Proof.
  intros s d bits s'. unfold s', activate.
  set (he := has bits B_HUP || has bits B_ERR).
  assert (H0 : band_holds 0 bits = (has bits B_IN || he)) by reflexivity.
  assert (H1 : band_holds 1 bits = (has bits B_OUT || he)) by reflexivity.
  assert (H2 : band_holds 2 bits = he) by reflexivity.
  set (s1 := if has bits B_IN || he then make_ready s d M_IN else s).
  set (s2 := if has bits B_OUT || he then make_ready s1 d M_OUT else s1).
  assert (S1 : ActFr s s1 /\ (RJ s -> (band_holds 0 bits = true -> OKB d M_IN) -> RJ s1) /\
               (forall i x, EA s i x -> EA s1 i x) /\ (band_holds 0 bits = true -> EA s1 d M_IN)).
  { unfold s1. rewrite H0. destruct (has bits B_IN || he).
    - destruct (make_ready_eff s d M_IN (or_introl eq_refl)) as (A & B & C & D).
      split; [exact A|]. split; [intros R OK; apply B; [exact R|apply OK; reflexivity]|]. split; [exact C|intros _; exact D].
    - split; [apply ActFr_refl|]. split; [auto|]. split; [auto|discriminate]. }
  assert (S2 : ActFr s1 s2 /\ (RJ s1 -> (band_holds 1 bits = true -> OKB d M_OUT) -> RJ s2) /\
               (forall i x, EA s1 i x -> EA s2 i x) /\ (band_holds 1 bits = true -> EA s2 d M_OUT)).
  { unfold s2. rewrite H1. destruct (has bits B_OUT || he).
    - destruct (make_ready_eff s1 d M_OUT (or_intror (or_introl eq_refl))) as (A & B & C & D).
      split; [exact A|]. split; [intros R OK; apply B; [exact R|apply OK; reflexivity]|]. split; [exact C|intros _; exact D].
    - split; [apply ActFr_refl|]. split; [auto|]. split; [auto|discriminate]. }
  assert (S3 : ActFr s2 (if he then make_ready s2 d M_ERR else s2) /\
               (RJ s2 -> (band_holds 2 bits = true -> OKB d M_ERR) -> RJ (if he then make_ready s2 d M_ERR else s2)) /\
               (forall i x, EA s2 i x -> EA (if he then make_ready s2 d M_ERR else s2) i x) /\
               (band_holds 2 bits = true -> EA (if he then make_ready s2 d M_ERR else s2) d M_ERR)).
  { rewrite H2. destruct he.
    - destruct (make_ready_eff s2 d M_ERR (or_intror (or_intror eq_refl))) as (A & B & C & D).
      split; [exact A|]. split; [intros R OK; apply B; [exact R|apply OK; reflexivity]|]. split; [exact C|intros _; exact D].
    - split; [apply ActFr_refl|]. split; [auto|]. split; [auto|discriminate]. }
  destruct S1 as (A1 & B1 & C1 & D1), S2 as (A2 & B2 & C2 & D2), S3 as (A3 & B3 & C3 & D3).
  split; [eapply ActFr_trans; [exact A1|eapply ActFr_trans; eassumption]|]. split; [|split].
  - intros R OK. apply B3; [apply B2; [apply B1; [exact R|]|]|].
    + intros H. apply (OK 0); [lia|exact H].
    + intros H. apply (OK 1); [lia|exact H].
    + intros H. apply (OK 2); [lia|exact H].
  - intros i x H. auto.
  - intros b B H. assert (HB : b = 0 \/ b = 1 \/ b = 2) by lia. destruct HB as [->|[->| ->]]; cbn [bbit Z.eqb Pos.eqb].
    + apply C3, C2, D1. exact H.
    + apply C3, D2. exact H.
    + apply D3. exact H.
Qed.

Lemma process_eff : forall evs s re tm, RJ s ->
  (forall fd bits data, In (fd, bits, data) evs -> forall b, 0 <= b <= 2 -> band_holds b bits = true -> OKB data (bbit b)) ->
  let s' := fst (fst (epoll_process s evs re tm)) in
  ActFr s s' /\ RJ s' /\ (forall i x, EA s i x -> EA s' i x) /\
  (forall fd bits data, In (fd, bits, data) evs -> 0 <= data ->
     forall b, 0 <= b <= 2 -> band_holds b bits = true -> EA s' data (bbit b)).
Proof.
  induction evs as [|[[fd bits] data] evs IH]; intros s re tm R OK; cbn [epoll_process].
  - cbn [fst]. split; [apply ActFr_refl|]. split; [exact R|]. split; [auto|]. intros ? ? ? [].
  - assert (OKT : forall fd0 bits0 data0, In (fd0, bits0, data0) evs -> forall b, 0 <= b <= 2 -> band_holds b bits0 = true -> OKB data0 (bbit b))
      by (intros fd0 bits0 data0 I0 b B H; apply (OK fd0 bits0 data0); [right; exact I0|exact B|exact H]).
    assert (SKIP : forall re' tm', (0 <= data -> False) ->
       let s' := fst (fst (epoll_process s evs re' tm')) in
       ActFr s s' /\ RJ s' /\ (forall i x, EA s i x -> EA s' i x) /\
       (forall fd0 bits0 data0, In (fd0, bits0, data0) ((fd, bits, data) :: evs) -> 0 <= data0 ->
          forall b, 0 <= b <= 2 -> band_holds b bits0 = true -> EA s' data0 (bbit b))).
    { intros re' tm' NEG. destruct (IH s re' tm' R OKT) as (A & B & C & D). cbv zeta.
      split; [exact A|]. split; [exact B|]. split; [exact C|].
      intros fd0 bits0 data0 [E|I0]; [inversion E; subst; intros P; destruct (NEG P)|apply (D fd0 bits0 data0 I0)]. }
    destruct (Z.eqb_spec data (-1)) as [D1|D1]; [apply SKIP; lia|].
    destruct ((data =? -2) && (method s =? M_ET)) eqn:D2.
    { apply SKIP. apply andb_true_iff in D2. destruct D2 as [D2 _]. apply Z.eqb_eq in D2. lia. }
    destruct (activate_eff s data bits) as (A1 & B1 & C1 & D1').
    assert (R1 : RJ (activate s data bits)) by (apply B1; [exact R|]; intros b B H; apply (OK fd bits data); [left; reflexivity|assumption|assumption]).
    destruct (IH (activate s data bits) re tm R1 OKT) as (A & B & C & D). cbv zeta.
    split; [eapply ActFr_trans; eassumption|]. split; [exact B|]. split; [intros i x H; apply C, C1; exact H|].
    intros fd0 bits0 data0 [E|I0]; [inversion E; subst; intros _ b BB H; apply C, D1'; assumption|apply (D fd0 bits0 data0 I0)].
Qed.

Lemma poll_activate_eff : forall keys revs s, RJ s ->
  (forall n d r, nth_error keys n = Some d -> nth_error revs n = Some r ->
     forall b, 0 <= b <= 2 -> band_holds b r = true -> OKB d (bbit b)) ->
  let s' := poll_activate s keys revs in
  ActFr s s' /\ RJ s' /\ (forall i x, EA s i x -> EA s' i x) /\
  (forall n d r, nth_error keys n = Some d -> nth_error revs n = Some r ->
     forall b, 0 <= b <= 2 -> band_holds b r = true -> EA s' d (bbit b)).
Proof.
  induction keys as [|k keys IH]; intros revs s R OK; cbn [poll_activate].
  - split; [apply ActFr_refl|]. split; [exact R|]. split; [auto|]. intros [|n] d r H; discriminate H.
  - destruct revs as [|r0 revs].
    + split; [apply ActFr_refl|]. split; [exact R|]. split; [auto|]. intros [|n] d r _ H; discriminate H.
    + destruct (activate_eff s k r0) as (A1 & B1 & C1 & D1).
      assert (R1 : RJ (activate s k r0)) by (apply B1; [exact R|]; intros b B H; apply (OK O k r0); try reflexivity; assumption).
      destruct (IH revs (activate s k r0) R1) as (A & B & C & D).
      { intros n d r H1 H2. apply (OK (S n) d r); assumption. }
      cbv zeta. split; [eapply ActFr_trans; eassumption|]. split; [exact B|]. split; [intros i x H; apply C, C1; exact H|].
      intros [|n] d r H1 H2 b BB H.
      * cbn [nth_error] in H1, H2. inversion H1; inversion H2; subst. apply C, D1; assumption.
      * apply (D n d r); assumption.
Qed.

End Ready.

(* ---------- from the returned batch to the dispatch invariant ---------- *)
Definition OKG (g : list (Z * Z)) (i x : Z) : Prop :=
  0 <= i < 16 -> forall b, bbit b = x -> band_holds b (gnd_of g i) = true.

Lemma bbit_holds : forall b b' c, 0 <= b <= 2 -> bbit b' = bbit b -> band_holds b' c = band_holds b c.
Proof.
  intros b b' c B E. assert (HB : b = 0 \/ b = 1 \/ b = 2) by lia.
  unfold bbit, band_holds in *. destruct HB as [->|[->| ->]]; cbn in E |- *;
    destruct (b' =? 0); try discriminate E; try reflexivity; destruct (b' =? 1); try discriminate E; reflexivity.
Qed.

Lemma M_of_RJ : forall s g, RJ (OKG g) s -> w_gnd (mst s) = g -> called (mst s) = [] ->
  (forall i b, In (i, b) (expect (mst s)) ->
     0 <= i < 16 /\ 0 <= b <= 2 /\ registered (fdt s i) = true /\ hnd (fdt s i) b <> None /\ EA s i (bbit b)) ->
  M (0, []) s.
Proof.
  intros s g [ND R] W C E.
  assert (SL : forall i b, slot (0, []) s i b <-> In i (active s)) by (intros i b; unfold slot; cbn [fst snd In]; tauto).
  constructor.
  - exact ND.
  - intros i b S RG H. apply SL in S. rewrite W. apply (R i (bbit b) S (bit3_bbit b) H RG b eq_refl).
  - intros i b H. rewrite C in H. destruct H.
  - intros i b H. destruct (E i b H) as (A1 & A2 & A3 & A4 & A5 & A6). splits; try assumption; try lia.
    apply SL. exact A5.
Qed.

Lemma evs_src : forall k maxev timeout rot k1 evs, KX k -> k_epoll_sleep k maxev timeout rot = WReady k1 evs ->
  exists kx, vfds kx = vfds k /\
    forall ev, In ev evs -> exists e, In e (ep k) /\ ev = (en_fd e, ep_ready_bits kx e, en_data e).
Proof.
  intros k maxev timeout rot k1 evs K H. destruct (sleep_scan _ _ _ _ _ _ K H) as (order & ORD & _ & _ & _ & SC).
  destruct SC as [[E _]|[_ (kx & V & E)]].
  - exists k. split; [reflexivity|]. intros ev I0. rewrite E in I0. apply In_ep_scan in I0.
    destruct I0 as (e & I1 & Q). exists e. split; [apply ORD; exact I1|exact Q].
  - exists kx. split; [exact V|]. intros ev I0. rewrite E in I0. apply In_ep_scan in I0.
    destruct I0 as (e & I1 & Q). exists e. split; [apply ORD; exact I1|exact Q].
Qed.

(* soundness of a reported entry: its bits are justified by the logged ground truth *)
Lemma entry_sound : forall s kx e b, J true s -> UF s -> UOpen s -> vfds kx = vfds (kern s) -> In e (ep (kern s)) ->
  0 <= b <= 2 -> band_holds b (ep_ready_bits kx e) = true -> OKG (ground (kern s)) (en_data e) (bbit b).
Proof.
  intros s kx e b Jh U UO V I0 B H R b' EB. rewrite (bbit_holds b b' _ B EB).
  destruct (fi_ep s (-1) (j_fd _ _ Jh) e I0) as [D|[(D & _)|(OK & F & _)]]; try lia.
  destruct OK as [_ RG]. specialize (RG ltac:(lia)).
  rewrite ready_bits_eq in H. destruct (en_enabled e); cbn [negb] in H.
  - apply band_holds_sound in H. rewrite F, (U _ R) in H.
    destruct (user_cond s kx (en_data e) UO V R RG) as [C _]. rewrite <- C. exact H.
  - exfalso. unfold band_holds in H. cbn in H. destruct (b =? 0); [discriminate|destruct (b =? 1); discriminate].
Qed.

Section Wait2.
Variable sc : scenario.
Hypothesis WF : wf_scenario sc.

Notation Y := (Y sc).
Notation PostY := (PostY sc).
Notation G2 := (G2 sc).

(* what the processing of a returned batch needs to know *)
Definition RetOk (s : core) (evs : list (Z * Z * Z)) : Prop :=
  Y true s /\ active s = [] /\ called (mst s) = [] /\ (forall ev, In ev evs -> EvOk s ev) /\
  (forall fd bits data, In (fd, bits, data) evs -> forall b, 0 <= b <= 2 -> band_holds b bits = true ->
     OKG (w_gnd (mst s)) data (bbit b)) /\
  (forall i b, In (i, b) (expect (mst s)) ->
     0 <= i < 16 /\ 0 <= b <= 2 /\ registered (fdt s i) = true /\ hnd (fdt s i) b <> None /\
     exists fd bits, In (fd, bits, i) evs /\ band_holds b bits = true).

Definition Ready0 (s : core) : Prop := Y true s /\ M (0, []) s.

Lemma Ready0_idle : forall s, Y true s -> active s = [] -> expect (mst s) = [] -> Ready0 s.
Proof.
  intros s H A E. split; [exact H|]. constructor.
  - rewrite A. constructor.
  - intros i b [S|(_ & _ & [])]. rewrite A in S. destruct S.
  - intros i b _ [S|(_ & _ & [])]. rewrite A in S. destruct S.
  - intros i b HI. rewrite E in HI. destruct HI.
Qed.

Lemma Y_invalidate : forall s, Y true s -> Y true (invalidate_now s) /\ mst (invalidate_now s) = mst s.
Proof.
  intros s H. destruct (J_invalidate true s (y_j _ _ _ H)) as (J1 & _ & M1 & _).
  split; [apply (Y_step sc true s _ H J1); reflexivity|exact M1].
Qed.

Lemma process_M : forall s evs, RetOk s evs ->
  Ready0 (fst (fst (epoll_process (invalidate_now s) evs false false))).
Proof.
  intros s evs (H & A & C & OK & P1 & P2).
  destruct (Y_invalidate s H) as [H1 M1]. set (s1 := invalidate_now s) in *.
  assert (OK1 : forall ev, In ev evs -> EvOk s1 ev) by (intros ev I0; exact (OK ev I0)).
  destruct (epoll_process_post evs s1 false false (y_j _ _ _ H1) OK1) as [J2 _].
  assert (R1 : RJ (OKG (w_gnd (mst s))) s1).
  { split; [change (active s1) with (active s); rewrite A; constructor|].
    intros i x I0. change (active s1) with (active s) in I0. rewrite A in I0. destruct I0. }
  destruct (process_eff (OKG (w_gnd (mst s))) evs s1 false false R1 P1) as (AF & R2 & _ & E2).
  set (s2 := fst (fst (epoll_process s1 evs false false))) in *.
  assert (T2 : mst s2 = mst s) by (rewrite <- M1; apply mst_trace; apply (af_trace _ _ AF)).
  split.
  - destruct H1 as [_ K U G]. constructor; [exact J2|rewrite (af_kern _ _ AF); exact K| |].
    + intros i R. destruct (af_fd _ _ AF i) as (_ & _ & _ & _ & F). rewrite F. apply U. exact R.
    + apply (G2_trace sc s1); [apply (af_trace _ _ AF)|exact G].
  - apply (M_of_RJ s2 (w_gnd (mst s))); [exact R2|rewrite T2; reflexivity|rewrite T2; exact C|].
    intros i b HI. rewrite T2 in HI. destruct (P2 i b HI) as (R & B & RG & HN & fd & bits & I0 & BH).
    destruct (af_fd _ _ AF i) as (F1 & F2 & F3 & F4 & _).
    split; [exact R|]. split; [exact B|]. split; [rewrite F1; exact RG|]. split.
    + unfold hnd in *. rewrite F2, F3, F4. exact HN.
    + apply (E2 fd bits i I0); [lia|exact B|exact BH].
Qed.

(* ---------- entering a wait ---------- *)
Lemma wait_enter_Y : forall b s, Y b s -> PostY b s (wait_enter sc s).
Proof.
  intros b s H. unfold wait_enter.
  destruct (sc_limit sc <? nwait (kern s) + 1).
  - cbn [PostY halt]. apply G2_sil; [exact I|apply H].
  - set (s1 := set_kern s _).
    assert (J1 : J b s1) by (apply J_set_kern_plain; [apply H|apply ksame_set_nwait]).
    assert (Y1 : Y b s1).
    { destruct H as [_ K U G]. constructor; [exact J1|apply KX_set_nwait; exact K|exact U|].
      apply (G2_trace sc s); [reflexivity|exact G]. }
    eapply PostY_base; [apply (MF_same s s1); reflexivity|apply (Fr_plain s s1); reflexivity|].
    apply run_acts_Y; [exact Y1|]. eapply Forall_impl; [|apply (wf_waits sc WF)]. apply wait_action_wf.
Qed.

Record WP (s : core) : Prop := {
  wp_inv : InvW s;
  wp_y : Y true s;
  wp_act : active s = [];
  wp_exp : expect (mst s) = [];
  wp_quit : quit s = false }.

Lemma MF_idle : forall s s', MF s s' -> active s = [] -> expect (mst s) = [] -> active s' = [] /\ expect (mst s') = [].
Proof.
  intros s s' F A E. split.
  - destruct (active s') as [|x l] eqn:Q; [reflexivity|]. pose proof (mf_act _ _ F x ltac:(rewrite Q; left; reflexivity)) as H.
    rewrite A in H. destruct H.
  - destruct (expect (mst s')) as [|[i b] l] eqn:Q; [reflexivity|].
    destruct (mf_e _ _ F i b ltac:(rewrite Q; left; reflexivity)) as [H _]. rewrite E in H. destruct H.
Qed.

Lemma wait_enter_W : forall s, WP s ->
  match wait_enter sc s with
  | R s1 => WP s1 /\ KO s s1
  | Halt s1 => G2 s1
  end.
Proof.
  intros s [I H A E Q].
  pose proof (wait_enter_ok sc WF s I) as P1.
  pose proof (wait_enter_post sc WF true s (y_j _ _ _ H)) as P2.
  pose proof (wait_enter_Y true s H) as P3.
  destruct (wait_enter sc s) as [s1|s1]; cbn [okr PostY] in *; [|exact P3].
  destruct P1 as (I1 & K1 & _). destruct P2 as (_ & _ & Q1). destruct P3 as (Y1 & M1 & _).
  destruct (MF_idle s s1 M1 A E) as [A1 E1].
  split; [constructor; try assumption; congruence|exact K1].
Qed.

Lemma EvOk_of_sleep : forall s maxev timeout rot k1 evs, J true s ->
  k_epoll_sleep (kern s) maxev timeout rot = WReady k1 evs -> forall ev, In ev evs ->
  snd ev = -1 \/ (snd ev = -2 /\ method s = M_ET) \/ okk s (-1) (snd ev).
Proof.
  intros s maxev timeout rot k1 evs Jh SL ev I0.
  pose proof (epoll_sleep_spec (kern s) maxev timeout rot) as KS. rewrite SL in KS. destruct KS as (_ & _ & _ & K4).
  destruct (K4 ev I0) as (e & He & ED). rewrite ED.
  destruct (fi_ep s (-1) (j_fd _ _ Jh) e He) as [D|[(D & D1 & _)|(D & _)]]; [left; exact D|right; left; auto|right; right; exact D].
Qed.

(* ---------- epoll_wait / epoll_pwait2 ---------- *)
Definition WOut (w : wres) : Prop :=
  match w with
  | WR s' evs => RetOk s' evs
  | WE s' => Y true s' /\ active s' = [] /\ expect (mst s') = []
  | WH r => match r with Halt s' => G2 s' | R _ => False end
  end.

Lemma Y_ret_none : forall s k1, Y true s -> flt k1 = flt (kern s) -> clock (kern s) <= clock k1 -> ep k1 = ep (kern s) ->
  KX k1 -> active s = [] -> expect (mst s) = [] ->
  let s' := emit (set_kern s k1) (TRet None [] (clock k1)) in
  Y true s' /\ active s' = [] /\ expect (mst s') = [].
Proof.
  intros s k1 H F C E K A X s'.
  assert (J1 : J true s').
  { apply (J_ret true s k1 None [] (y_j _ _ _ H) F C). intros e' He'. exists e'. rewrite <- E. auto. }
  assert (TV : tv (mst s') = tv (mst s)).
  { unfold s'. rewrite mst_emit. change (mst (set_kern s k1)) with (mst s). apply sil_tv. exact I. }
  destruct (tv_fields _ _ TV) as (_ & _ & T3).
  split; [|split; [exact A|rewrite T3; exact X]].
  destruct H as [_ _ U G]. constructor; [exact J1|exact K|exact U|].
  apply G2_sil; [exact I|]. apply (G2_trace sc s); [reflexivity|exact G].
Qed.

Lemma Y_ret_none0 : forall s, Y true s -> active s = [] -> expect (mst s) = [] ->
  let s' := emit s (TRet None [] (clock (kern s))) in
  Y true s' /\ active s' = [] /\ expect (mst s') = [].
Proof.
  intros s H A X s'.
  destruct (Y_ret_none s (kern s) H eq_refl ltac:(lia) eq_refl (y_kx _ _ _ H) A X) as (Y1 & A1 & X1).
  assert (J1 : J true s') by (apply (J_irr true _ s' (y_j _ _ _ Y1)); reflexivity).
  split; [|split; [exact A|exact X1]].
  destruct Y1 as [_ K U G]. constructor; [exact J1|exact K|exact U|exact G].
Qed.

Lemma do_epoll_wait_W : forall s call maxev timeout, WP s -> is_epoll s = true -> notify s = [] -> 1 <= maxev ->
  (call = 0 \/ call = 1) -> WOut (do_epoll_wait sc s call maxev timeout).
Proof.
  intros s call maxev timeout W IE NT MX CL. unfold do_epoll_wait.
  pose proof (wait_enter_W s W) as P.
  destruct (wait_enter sc s) as [s1|s1]; [|exact P].
  destruct P as ([I1 Y1 A1 E1 Q1] & K1).
  assert (IE1 : is_epoll s1 = true) by (unfold is_epoll in *; rewrite (ko_method _ _ K1); exact IE).
  assert (NT1 : notify s1 = []) by (rewrite (ko_notify _ _ K1); exact NT).
  pose proof (UEnt_of_Inv s1 I1 (y_kx _ _ _ Y1) IE1 NT1) as UE.
  pose proof (UOpen_of_Inv s1 I1 (y_kx _ _ _ Y1)) as UO.
  set (n := nwait (kern s1)).
  set (e2 := TWait n call maxev timeout (interest_of (kern s1)) (ground (kern s1))).
  set (s2 := emit s1 e2).
  assert (J2 : J true s2) by (apply J_wait_event; [apply Y1|exact Q1]).
  destruct (wait_interest_epoll s1 (y_j _ _ _ Y1) UE) as [L201 L1104].
  assert (NP : (2 <=? call) = false) by (destruct CL as [-> | ->]; reflexivity).
  assert (G2' : G2 s2).
  { apply G2_emit; [apply Y1| |].
    - apply good2_TWait; [apply Y1|exact E1|rewrite NP; exact L201].
    - intros n0 c mx t i gd E. inversion E; subst. exact L1104. }
  assert (TV2 : tv (mst s2) = (ground (kern s1), [], [])) by (unfold s2; rewrite mst_emit; apply tv_TWait).
  unfold tv in TV2. injection TV2 as T1 T2 T3.
  assert (WC : w_call (mst s2) = call /\ w_max (mst s2) = maxev) by (unfold s2; rewrite mst_emit; apply wcall_TWait).
  assert (Y2 : Y true s2) by (destruct Y1 as [_ K U _]; constructor; assumption).
  change (kern s2) with (kern s1).
  destruct (mem_z n (eintr_waits (flt (kern s1)))).
  - (* EINTR *)
    destruct (Z.ltb_spec 0 timeout).
    + apply (Y_ret_none s2 (k_set_clock (kern s2) (clock (kern s2) + timeout / 2)) Y2); try reflexivity; try assumption.
      * cbn [clock k_set_clock]. pose proof (Z.div_pos timeout 2). lia.
      * apply KX_set_clock. apply Y2.
    + apply (Y_ret_none0 s2 Y2); assumption.
  - destruct (k_epoll_sleep (kern s1) maxev timeout (sc_rot sc n)) as [k1 evs|k1| |] eqn:SL.
    + pose proof (epoll_sleep_spec (kern s1) maxev timeout (sc_rot sc n)) as KS. rewrite SL in KS.
      destruct KS as (KS1 & KS2 & KS3 & KS4).
      pose proof (epoll_sleep_KX (kern s1) maxev timeout (sc_rot sc n) (y_kx _ _ _ Y1)) as KK. rewrite SL in KK.
      destruct KK as (KX1 & _ & _).
      set (fds := map (fun e => fst (fst e)) evs).
      set (e3 := TRet (Some (Z.of_nat (length evs))) fds (clock k1)).
      set (s3 := emit (set_kern s2 k1) e3).
      assert (J3 : J true s3) by (apply (J_ret true s2 k1 _ _ J2); assumption).
      destruct (ret_conds_epoll s2 maxev timeout (sc_rot sc n) k1 evs J2 UE UO (y_kx _ _ _ Y1) MX T1
                  ltac:(rewrite (proj1 WC); destruct CL; lia) (proj2 WC) SL) as [C202 C203].
      assert (G3 : G2 s3).
      { apply G2_emit; [apply (G2_trace sc s2); [reflexivity|exact G2']| |intros; discriminate].
        change (mst (set_kern s2 k1)) with (mst s2). apply good2_TRet_some; [apply G2'|exact C202|exact C203]. }
      assert (TV3 : tv (mst s3) = (w_gnd (mst s2), [], filter (fun p => mem_z (100 + fst p) fds) (ready_wanted (mst s2) (w_gnd (mst s2)))))
        by (unfold s3; rewrite mst_emit; apply tv_TRet_some).
      unfold tv in TV3. injection TV3 as U1 U2 U3. rewrite T1 in U1, U3.
      destruct (evs_src _ _ _ _ _ _ (y_kx _ _ _ Y1) SL) as (kx & VX & SRC).
      cbn [WOut]. split; [|split; [exact A1|split; [exact U2|split; [|split]]]].
      * destruct Y1 as [_ _ U _]. constructor; [exact J3|exact KX1|exact U|exact G3].
      * intros ev I0. exact (EvOk_of_sleep s2 _ _ _ _ _ J2 SL ev I0).
      * intros fd bits data I0 b B BH. rewrite U1. destruct (SRC _ I0) as (e & IE0 & Q). inversion Q; subst.
        apply (entry_sound s2 kx e b J2 (y_uf _ _ _ Y2) UO VX IE0 B BH).
      * intros i b HI. rewrite U3 in HI. apply filter_In in HI. destruct HI as [HI RP]. cbn [fst] in RP.
        pose proof HI as HI'. apply rw_in in HI'. destruct HI' as (R & AF & B & AH & _).
        rewrite (ag_fd _ _ (j_ag _ _ J2) i R) in AF. rewrite (afh_hnd true s2 i b J2 R B) in AH.
        split; [exact R|]. split; [exact B|]. split; [exact AF|]. split; [exact AH|].
        apply mem_z_In in RP. apply in_map_iff in RP. destruct RP as (ev & F & I0).
        destruct (SRC _ I0) as (e & IE0 & Q).
        destruct (rw_entry_epoll s2 kx i b J2 UE UO VX HI) as (e' & I2 & F' & D' & BH).
        assert (EE : e' = e).
        { destruct UE as (ND & _). eapply nodup_fd_eq; [exact ND|exact I2|exact IE0|]. rewrite F'. subst ev. simpl in F. symmetry. exact F. }
        subst e'. exists (en_fd e), (ep_ready_bits kx e). split; [rewrite <- D', <- Q; exact I0|exact BH].
    + pose proof (epoll_sleep_spec (kern s1) maxev timeout (sc_rot sc n)) as KS. rewrite SL in KS. destruct KS.
    + cbn [WOut halt]. apply G2_sil; [exact I|exact G2'].
    + pose proof (epoll_sleep_spec (kern s1) maxev timeout (sc_rot sc n)) as KS. rewrite SL in KS. destruct KS.
Qed.

Lemma WP_st0 : forall s s', WP s -> ST0 s s' -> J true s' -> InvW s' -> quit s' = quit s -> WP s'.
Proof.
  intros s s' [I H A E Q] S J1 I1 Q1.
  destruct (MF_idle s s' (MF_ST0 s s' S) A E) as [A1 E1].
  constructor; try assumption; [|congruence].
  destruct H as [_ K U G]. constructor; [exact J1|apply (s0_kx _ _ S); exact K|apply (ST0_UF s s' S U)|].
  apply (TrExt_G2 sc s s' (s0_tr _ _ S) G).
Qed.

Lemma WP_to_relative : forall s abs, WP s -> WP (fst (to_relative s abs)) /\ KO s (fst (to_relative s abs)).
Proof.
  intros s abs W. destruct (to_relative_step s abs (wp_inv _ W)) as (I1 & K1 & _).
  destruct (to_relative_post true s abs (y_j _ _ _ (wp_y _ W))) as (J1 & _ & Q1).
  split; [apply (WP_st0 s _ W (to_relative_st0 s abs) J1 I1 Q1)|exact K1].
Qed.

Lemma WP_to_msec : forall s abs, WP s -> WP (fst (to_msec s abs)) /\ KO s (fst (to_msec s abs)).
Proof.
  intros s abs W. destruct (to_msec_step s abs (wp_inv _ W)) as (I1 & K1 & _).
  destruct (to_msec_post true s abs (y_j _ _ _ (wp_y _ W))) as (J1 & _ & Q1).
  split; [apply (WP_st0 s _ W (to_msec_st0 s abs) J1 I1 Q1)|exact K1].
Qed.

Lemma WP_set_epoll : forall s, WP s -> WP (set_epoll s (epfd s) (tfd s) false).
Proof.
  intros s W. pose proof (wp_inv _ W) as I0. apply (WP_st0 s _ W (ST0_set_epoll s _ _ _)).
  - apply (J_irr true s _ (y_j _ _ _ (wp_y _ W))); reflexivity.
  - apply (InvW_coresame s); [cs_refl|apply (ms_nobad _ (iw_misc _ I0))|exact I0].
  - reflexivity.
Qed.

Lemma epoll_wait_m_W : forall s abs maxev, WP s -> is_epoll s = true -> notify s = [] -> 1 <= maxev ->
  WOut (epoll_wait_m sc s abs maxev).
Proof.
  intros s abs maxev W IE NT MX. unfold epoll_wait_m.
  assert (VIA : forall s0, WP s0 -> is_epoll s0 = true -> notify s0 = [] ->
     WOut (let '(s1, ms) := to_msec s0 abs in do_epoll_wait sc s1 0 maxev (if ms <? 0 then -1 else ms * 1000000))).
  { intros s0 W0 IE0 NT0. destruct (WP_to_msec s0 abs W0) as [W1 K1].
    destruct (to_msec s0 abs) as [s1 ms]. cbn [fst] in W1, K1.
    apply do_epoll_wait_W; [exact W1| | |exact MX|left; reflexivity].
    - unfold is_epoll in *. rewrite (ko_method _ _ K1). exact IE0.
    - rewrite (ko_notify _ _ K1). exact NT0. }
  destruct (pwait2 s); [|apply VIA; assumption].
  destruct (WP_to_relative s abs W) as [W1 K1].
  destruct (to_relative s abs) as [s1 rel]. cbn [fst] in W1, K1.
  assert (IE1 : is_epoll s1 = true) by (unfold is_epoll in *; rewrite (ko_method _ _ K1); exact IE).
  assert (NT1 : notify s1 = []) by (rewrite (ko_notify _ _ K1); exact NT).
  destruct (no_pwait2 (flt (kern s1)) || perm_pwait2 (flt (kern s1))).
  - apply VIA; [apply WP_set_epoll; exact W1|exact IE1|exact NT1].
  - apply do_epoll_wait_W; [exact W1|exact IE1|exact NT1|exact MX|right; reflexivity].
Qed.

(* ---------- iv_fd_epoll_poll ---------- *)
Definition PollOut (r : res) : Prop := match r with R s' => Ready0 s' | Halt s' => G2 s' end.

Lemma numfds_nonneg : forall s, InvW s -> 0 <= numfds s.
Proof. intros s I. rewrite (ac_numfds _ (iw_acct _ I)). apply cntf_nonneg. Qed.

Lemma Ready0_MF : forall s s', M (0, []) s -> Y true s' -> MF s s' -> Ready0 s'.
Proof. intros s s' M0 Y1 F. split; [exact Y1|eapply M_MF; eassumption]. Qed.

Lemma epoll_poll_W : forall s abs, WP s -> is_epoll s = true -> PollOut (fst (epoll_poll sc s abs)).
Proof.
  intros s abs W IE. pose proof W as [I0 H A E Q]. pose proof (y_j _ _ _ H) as Jh. unfold epoll_poll.
  destruct (flush_pending_ok (S (length (notify s))) s I0 IE ltac:(lia)) as (s1 & F1 & I1 & N1 & _ & RS1 & _).
  pose proof (J_inner_res s _ _ Jh (flush_pending_res (S (length (notify s))) s (j_fd _ _ Jh) IE)) as P.
  pose proof (flush_pending_st0 (S (length (notify s))) s) as S1.
  rewrite F1 in *. cbn [res_state] in S1.
  destruct P as (J1 & _ & E1); [intros s1' (A0 & B0 & _); split; [apply Inner_W; exact A0|exact B0]|].
  assert (Q1 : quit s1 = quit s) by (destruct E1 as (A0 & _); apply (sm_quit _ _ (in_same _ _ A0))).
  assert (W1 : WP s1) by (apply (WP_st0 s s1 W S1 J1 I1 Q1)).
  assert (IE1 : is_epoll s1 = true) by (rewrite (restsame_epoll _ _ RS1); exact IE).
  set (maxev := if method s =? M_ET then numfds s + 1 else if numfds s =? 0 then 1 else numfds s).
  assert (MX : 1 <= maxev).
  { pose proof (numfds_nonneg s I0). unfold maxev. destruct (method s =? M_ET); [lia|].
    destruct (Z.eqb_spec (numfds s) 0); lia. }
  pose proof (epoll_wait_m_W s1 abs maxev W1 IE1 N1 MX) as WO.
  destruct (epoll_wait_m sc s1 abs maxev) as [s2 evs|s2|r]; cbn [WOut] in WO.
  - pose proof (process_M s2 evs WO) as R4.
    destruct (epoll_process (invalidate_now s2) evs false false) as [[s4 run_events] tmr]. cbn [fst] in R4. cbn [fst].
    destruct R4 as [Y4 M4].
    assert (PR : match (if tmr then match k_read (kern s4) (tfd s4) 8 with
                                    | (k1, inl _) => R (set_kern s4 k1)
                                    | (k1, inr _) => halt (set_kern s4 k1) TFatal
                                    end else R s4) with
                 | R s5 => Ready0 s5 | Halt s5 => G2 s5 end).
    { destruct tmr; [|split; assumption].
      pose proof (ksame_read (kern s4) (tfd s4) 8) as KS.
      pose proof (KX_read (kern s4) (tfd s4) 8 (y_kx _ _ _ Y4)) as KR.
      destruct (k_read (kern s4) (tfd s4) 8) as [k1 [x|e]]; cbn [fst] in KS, KR.
      - apply (Ready0_MF s4); [exact M4| |apply MF_same; reflexivity].
        destruct Y4 as [J4 _ U G]. constructor; [apply J_set_kern_plain; assumption|exact KR|exact U|].
        apply (G2_trace sc s4); [reflexivity|exact G].
      - cbn [halt]. apply G2_sil; [exact I|]. apply (G2_trace sc s4); [reflexivity|apply Y4]. }
    destruct (if tmr then _ else R s4) as [s5|s5]; cbn [bind PollOut]; [|exact PR].
    destruct PR as [Y5 M5]. destruct run_events; [|split; assumption].
    pose proof (run_pending_events_Y sc WF s5 Y5) as PE.
    destruct (run_pending_events sc s5) as [s6|s6]; cbn [PostY PollOut] in *; [|exact PE].
    destruct PE as (Y6 & F6 & _). apply (Ready0_MF s5); assumption.
  - cbn [fst PollOut]. destruct WO as (Y2 & A2 & E2). destruct (Y_invalidate s2 Y2) as [Y3 M3].
    apply Ready0_idle; [exact Y3|exact A2|rewrite M3; exact E2].
  - cbn [fst PollOut]. destruct r; [contradiction|exact WO].
Qed.

(* ---------- poll / ppoll ---------- *)
Lemma poll_revents_eq : forall k fd ev, k_open k fd <> None -> poll_revents k fd ev = rbits (k_cond k fd) ev.
Proof. intros k fd ev O. unfold poll_revents. destruct (k_open k fd); [reflexivity|contradiction]. Qed.

Lemma band_holds_nval : forall b, band_holds b P_NVAL = false.
Proof. intros b. unfold band_holds. cbn. destruct (b =? 0); [reflexivity|destruct (b =? 1); reflexivity]. Qed.

Lemma poll_sleep_scan : forall k pf timeout k1 revs, k_poll_sleep k pf timeout = PReady k1 revs ->
  exists kx, vfds kx = vfds k /\ revs = poll_eval kx pf /\
             (0 < count_nonzero (poll_eval k pf) -> clock k1 = clock k).
Proof.
  intros k pf timeout k1 revs H. unfold k_poll_sleep in H.
  destruct (Z.ltb_spec 0 (count_nonzero (poll_eval k pf))) as [P|NP]; cbn [orb] in H.
  - inversion H; subst. exists k1. auto.
  - destruct (timeout =? 0).
    + inversion H; subst. exists k1. split; [reflexivity|]. split; [reflexivity|lia].
    + destruct (timeout <? 0); [discriminate H|]. inversion H; subst.
      exists (k_set_clock k (clock k + timeout)). split; [reflexivity|]. split; [reflexivity|lia].
Qed.

Lemma count_nonzero_pos : forall l n r, nth_error l n = Some r -> r <> 0 -> 0 < count_nonzero l.
Proof.
  intros l n r H NZ. unfold count_nonzero.
  assert (I0 : In r (filter (fun x => negb (x =? 0)) l)).
  { apply filter_In. split; [eapply nth_error_In; exact H|]. apply negb_true_iff. apply Z.eqb_neq. exact NZ. }
  destruct (filter (fun x => negb (x =? 0)) l); [destruct I0|cbn [length]; lia].
Qed.

Lemma reported_in : forall p revs n x r, nth_error p n = Some x -> nth_error revs n = Some r -> r <> 0 ->
  In (fst x) (reported_pfds p revs).
Proof.
  induction p as [|y p IH]; intros revs n x r H1 H2 NZ; [destruct n; discriminate H1|].
  destruct revs as [|r0 revs]; [destruct n; discriminate H2|]. cbn [reported_pfds].
  destruct n as [|n]; cbn [nth_error] in H1, H2.
  - inversion H1; inversion H2; subst. destruct (Z.eqb_spec r 0); [contradiction|left; reflexivity].
  - destruct (r0 =? 0); [|right]; eapply IH; eassumption.
Qed.

Lemma nth_poll_eval : forall k pf n x, nth_error pf n = Some x ->
  nth_error (poll_eval k pf) n = Some (poll_revents k (fst x) (snd x)).
Proof. intros k pf n x H. unfold poll_eval. rewrite nth_error_map, H. reflexivity. Qed.

(* a wanted ready descriptor has a slot with non-zero revents (poll) *)
Lemma rw_entry_poll : forall s kx i b, J true s -> UPoll s -> UOpen s -> vfds kx = vfds (kern s) ->
  In (i, b) (ready_wanted (mst s) (ground (kern s))) ->
  exists n ev, nth_error (pkeys s) n = Some i /\ nth_error (pfds s) n = Some (100 + i, ev) /\
               band_holds b (poll_revents kx (100 + i) ev) = true.
Proof.
  intros s kx i b Jh (ND & A & B & LEN & KEY) UO E H. apply rw_in in H. destruct H as (R & AF & BB & AH & BH).
  rewrite (ag_fd _ _ (j_ag _ _ Jh) i R) in AF. rewrite (afh_hnd true s i b Jh R BB) in AH.
  pose proof (hnd_bands _ _ BB AH) as HBD.
  destruct (B i R AF (has_nonzero _ _ HBD)) as (p & I0 & F).
  destruct (A p I0 ltac:(lia)) as (_ & _ & EV). replace (fst p - 100) with i in * by lia.
  apply In_nth_error in I0. destruct I0 as [n PN].
  pose proof (nth_error_lt _ _ _ _ PN) as LT. rewrite LEN in LT.
  destruct (nth_error_ex _ (pkeys s) n LT) as [d D].
  destruct (KEY n d D) as (RD & RG & ev & PF & KU & KR). rewrite PN in PF. inversion PF as [PE].
  assert (DI : d = i).
  { destruct (Z_lt_le_dec d 16) as [Q|Q]; [destruct (KU Q) as [FD _]|specialize (KR Q)]; rewrite PE in F; cbn [fst] in F; lia. }
  subst d. exists n, (snd p). split; [exact D|]. split; [rewrite PN; destruct p; cbn [fst snd] in *; subst; reflexivity|].
  destruct (user_cond s kx i UO E R AF) as [C O]. rewrite (poll_revents_eq _ _ _ O), C.
  apply band_holds_complete; [exact BH| |]; intros ->; rewrite EV; destruct (poll_mask_has (bands_of (fdt s i))) as (M1 & M2).
  - rewrite M1. exact HBD.
  - rewrite M2. exact HBD.
Qed.

Lemma ret_conds_poll : forall s timeout k1 revs, J true s -> UPoll s -> UOpen s ->
  w_gnd (mst s) = ground (kern s) ->
  k_poll_sleep (kern s) (pfds s) timeout = PReady k1 revs ->
  cond202 (mst s) (clock k1) = true /\
  cond203 (mst s) (count_nonzero revs) (reported_pfds (pfds s) revs) = true.
Proof.
  intros s timeout k1 revs Jh UP UO WG SL.
  destruct (poll_sleep_scan _ _ _ _ _ SL) as (kx & VX & RV & CK).
  split.
  - unfold cond202. rewrite WG. destruct (ready_wanted (mst s) (ground (kern s))) as [|[i b] rest] eqn:RW.
    + rewrite andb_false_r. reflexivity.
    + destruct (rw_entry_poll s (kern s) i b Jh UP UO eq_refl ltac:(rewrite RW; left; reflexivity)) as (n & ev & _ & PF & BH).
      pose proof (nth_poll_eval (kern s) (pfds s) n _ PF) as NE. cbn [fst snd] in NE.
      pose proof (count_nonzero_pos _ _ _ NE (band_holds_nonzero _ _ BH)) as P.
      rewrite (ag_clk _ _ (j_ag _ _ Jh)), (CK P), Z.ltb_irrefl. reflexivity.
  - unfold cond203. rewrite WG.
    destruct (filter _ (ready_wanted (mst s) (ground (kern s)))) as [|[i b] rest] eqn:FL; [reflexivity|]. exfalso.
    assert (IN : In (i, b) (filter (fun p => negb (mem_z (100 + fst p) (reported_pfds (pfds s) revs)))
                                   (ready_wanted (mst s) (ground (kern s))))) by (rewrite FL; left; reflexivity).
    apply filter_In in IN. destruct IN as [IN NM]. cbn [fst] in NM. apply negb_true_iff in NM. apply mem_z_false in NM.
    destruct (rw_entry_poll s kx i b Jh UP UO VX IN) as (n & ev & _ & PF & BH).
    pose proof (nth_poll_eval kx (pfds s) n _ PF) as NE. cbn [fst snd] in NE. rewrite <- RV in NE.
    apply NM. apply (reported_in (pfds s) revs n (100 + i, ev) _ PF NE (band_holds_nonzero _ _ BH)).
Qed.

Lemma do_poll_wait_W : forall s call timeout, WP s -> is_epoll s = false -> (call = 2 \/ call = 3) ->
  PollOut (fst (do_poll_wait sc s call timeout)).
Proof.
  intros s call timeout W IE CL. unfold do_poll_wait.
  pose proof (wait_enter_W s W) as P.
  destruct (wait_enter sc s) as [s1|s1]; [|exact P].
  destruct P as ([I1 Y1 A1 E1 Q1] & K1).
  assert (IE1 : is_epoll s1 = false) by (unfold is_epoll in *; rewrite (ko_method _ _ K1); exact IE).
  pose proof (UPoll_of_Inv s1 I1 IE1) as UP.
  pose proof (UOpen_of_Inv s1 I1 (y_kx _ _ _ Y1)) as UO.
  set (n := nwait (kern s1)).
  set (e2 := TWait n call (Z.of_nat (length (pfds s1))) timeout (interest_of_pfds (pfds s1)) (ground (kern s1))).
  set (s2 := emit s1 e2).
  assert (J2 : J true s2) by (apply J_wait_event; [apply Y1|exact Q1]).
  destruct (wait_interest_poll s1 (y_j _ _ _ Y1) UP) as [L201 L1104].
  assert (NP : (2 <=? call) = true) by (destruct CL as [-> | ->]; reflexivity).
  assert (G2' : G2 s2).
  { apply G2_emit; [apply Y1| |].
    - apply good2_TWait; [apply Y1|exact E1|rewrite NP; exact L201].
    - intros n0 c mx t i gd E. inversion E; subst. exact L1104. }
  assert (TV2 : tv (mst s2) = (ground (kern s1), [], [])) by (unfold s2; rewrite mst_emit; apply tv_TWait).
  unfold tv in TV2. injection TV2 as T1 T2 T3.
  assert (Y2 : Y true s2) by (destruct Y1 as [_ K U _]; constructor; assumption).
  change (kern s2) with (kern s1). change (pfds s2) with (pfds s1).
  destruct (mem_z n (eintr_waits (flt (kern s1)))).
  - cbn [fst PollOut].
    assert (FIN : forall s3, Y true s3 /\ active s3 = [] /\ expect (mst s3) = [] -> Ready0 (invalidate_now s3)).
    { intros s3 (Y3 & A3 & E3). destruct (Y_invalidate s3 Y3) as [Y4 M4].
      apply Ready0_idle; [exact Y4|exact A3|rewrite M4; exact E3]. }
    destruct (Z.ltb_spec 0 timeout).
    + apply FIN.
      apply (Y_ret_none s2 (k_set_clock (kern s2) (clock (kern s2) + timeout / 2)) Y2); try reflexivity; try assumption.
      * cbn [clock k_set_clock]. pose proof (Z.div_pos timeout 2). lia.
      * apply KX_set_clock. apply Y2.
    + apply FIN. apply (Y_ret_none0 s2 Y2); assumption.
  - destruct (k_poll_sleep (kern s1) (pfds s1) timeout) as [k1 revs|] eqn:SL; cbn [fst PollOut].
    + pose proof (poll_sleep_spec (kern s1) (pfds s1) timeout) as KS. rewrite SL in KS. destruct KS as (KS1 & KS2 & KS3).
      pose proof (poll_sleep_KX (kern s1) (pfds s1) timeout (y_kx _ _ _ Y1)) as KK. rewrite SL in KK. destruct KK as (KX1 & _).
      set (fds := reported_pfds (pfds s1) revs).
      set (e3 := TRet (Some (count_nonzero revs)) fds (clock k1)).
      set (s3 := emit (set_kern s2 k1) e3).
      assert (J3 : J true s3).
      { apply (J_ret true s2 k1 _ _ J2); try assumption. change (kern s2) with (kern s1). rewrite KS3.
        intros e' He'. exists e'. auto. }
      destruct (ret_conds_poll s2 timeout k1 revs J2 UP UO T1 SL) as [C202 C203].
      assert (G3 : G2 s3).
      { apply G2_emit; [apply (G2_trace sc s2); [reflexivity|exact G2']| |intros; discriminate].
        change (mst (set_kern s2 k1)) with (mst s2). apply good2_TRet_some; [apply G2'|exact C202|exact C203]. }
      assert (TV3 : tv (mst s3) = (w_gnd (mst s2), [], filter (fun p => mem_z (100 + fst p) fds) (ready_wanted (mst s2) (w_gnd (mst s2)))))
        by (unfold s3; rewrite mst_emit; apply tv_TRet_some).
      unfold tv in TV3. injection TV3 as U1 U2 U3. rewrite T1 in U1, U3.
      destruct (poll_sleep_scan _ _ _ _ _ SL) as (kx & VX & RV & _).
      assert (Y3 : Y true s3) by (destruct Y1 as [_ _ U _]; constructor; [exact J3|exact KX1|exact U|exact G3]).
      destruct (Y_invalidate s3 Y3) as [Y4 M4]. set (s4 := invalidate_now s3) in *.
      change (pkeys s4) with (pkeys s1).
      destruct UP as (UP1 & UP2 & UP3 & LEN & KEY).
      assert (OKK : forall k, In k (pkeys s1) -> okk s4 (-1) k).
      { intros k H. apply In_nth_error in H. destruct H as [p H]. apply (fi_pkeys _ (-1) (j_fd _ _ (y_j _ _ _ Y4)) p k). exact H. }
      destruct (poll_activate_post (pkeys s1) revs s4 (y_j _ _ _ Y4) OKK) as [J5 _].
      assert (R4 : RJ (OKG (ground (kern s1))) s4).
      { split; [change (active s4) with (active s1); rewrite A1; constructor|].
        intros i x I0. change (active s4) with (active s1) in I0. rewrite A1 in I0. destruct I0. }
      assert (REV : forall m d r, nth_error (pkeys s1) m = Some d -> nth_error revs m = Some r ->
                exists ev, nth_error (pfds s1) m = Some (fdnum (fdt s1 d), ev) /\ r = poll_revents kx (fdnum (fdt s1 d)) ev).
      { intros m d r H1 H2. destruct (KEY m d H1) as (_ & _ & ev & PF & _). exists ev. split; [exact PF|].
        rewrite RV, (nth_poll_eval kx (pfds s1) m _ PF) in H2. inversion H2. reflexivity. }
      destruct (poll_activate_eff (OKG (ground (kern s1))) (pkeys s1) revs s4 R4) as (AF & R5 & _ & E5).
      { intros m d r H1 H2 b B BH R b' EB. rewrite (bbit_holds b b' _ B EB).
        destruct (REV m d r H1 H2) as (ev & PF & RE). destruct (KEY m d H1) as (_ & RG & ev' & PF' & KU & _).
        destruct (KU ltac:(lia)) as [FD _]. rewrite FD in RE.
        destruct (user_cond s2 kx d UO VX R RG) as [C O]. rewrite RE, (poll_revents_eq _ _ _ O) in BH.
        apply band_holds_sound in BH. change (kern s2) with (kern s1) in C. rewrite <- C. exact BH. }
      change (pkeys s3) with (pkeys s1).
      set (s5 := poll_activate s4 (pkeys s1) revs) in *.
      assert (T5 : mst s5 = mst s3) by (rewrite <- M4; apply mst_trace; apply (af_trace _ _ AF)).
      split.
      * destruct Y4 as [_ K U G]. constructor; [exact J5|rewrite (af_kern _ _ AF); exact K| |].
        -- intros i R. destruct (af_fd _ _ AF i) as (_ & _ & _ & _ & F). rewrite F. apply U. exact R.
        -- apply (G2_trace sc s4); [apply (af_trace _ _ AF)|exact G].
      * apply (M_of_RJ s5 (ground (kern s1))); [exact R5|rewrite T5; exact U1|rewrite T5; exact U2|].
        intros i b HI. rewrite T5, U3 in HI. apply filter_In in HI. destruct HI as [HI _].
        pose proof HI as HI'. apply rw_in in HI'. destruct HI' as (R & AFD & B & AH & _).
        rewrite (ag_fd _ _ (j_ag _ _ J2) i R) in AFD. rewrite (afh_hnd true s2 i b J2 R B) in AH.
        destruct (af_fd _ _ AF i) as (F1 & F2 & F3 & F4 & _).
        split; [exact R|]. split; [exact B|]. split; [rewrite F1; exact AFD|]. split; [unfold hnd in *; rewrite F2, F3, F4; exact AH|].
        destruct (rw_entry_poll s2 kx i b J2 (conj UP1 (conj UP2 (conj UP3 (conj LEN KEY)))) UO VX HI) as (m & ev & PK & PF & BH).
        apply (E5 m i (poll_revents kx (100 + i) ev)); [exact PK| |exact B|exact BH].
        rewrite RV. apply (nth_poll_eval kx (pfds s1) m _ PF).
    + cbn [halt]. apply G2_sil; [exact I|exact G2'].
Qed.

Lemma poll_poll_W : forall s abs, WP s -> is_epoll s = false -> PollOut (fst (poll_poll sc s abs)).
Proof.
  intros s abs W IE. unfold poll_poll.
  assert (VIA : forall s0, WP s0 -> is_epoll s0 = false ->
     PollOut (fst (let '(s1, ms) := to_msec s0 abs in do_poll_wait sc s1 2 (if ms <? 0 then -1 else ms * 1000000)))).
  { intros s0 W0 IE0. destruct (WP_to_msec s0 abs W0) as [W1 K1].
    destruct (to_msec s0 abs) as [s1 ms]. cbn [fst] in W1, K1.
    apply do_poll_wait_W; [exact W1| |left; reflexivity].
    unfold is_epoll in *. rewrite (ko_method _ _ K1). exact IE0. }
  destruct (Z.eqb_spec (method s) M_PP) as [MP|NMP]; [|apply VIA; assumption].
  destruct (WP_to_relative s abs W) as [W1 K1].
  destruct (to_relative s abs) as [s1 rel]. cbn [fst] in W1, K1.
  assert (IE1 : is_epoll s1 = false) by (unfold is_epoll in *; rewrite (ko_method _ _ K1); exact IE).
  destruct (no_ppoll (flt (kern s1))).
  - apply VIA; [|reflexivity].
    pose proof W1 as [I1 H1 A1 E1 Q1].
    destruct (J_invalidate true s1 (y_j _ _ _ H1)) as (J2 & _ & _ & Q2).
    assert (IE2 : is_epoll (invalidate_now s1) = false) by exact IE1.
    apply (WP_st0 s1 _ W1).
    + eapply ST0_trans; [apply invalidate_st0|apply ST0_set_method].
    + apply J_set_method_poll; [exact J2|exact IE2|reflexivity].
    + apply InvW_set_method; [apply InvW_invalidate; exact I1| |unfold M_PO; lia].
      change (is_epoll (invalidate_now s1)) with (is_epoll s1). rewrite IE1. reflexivity.
    + exact Q2.
  - apply do_poll_wait_W; [exact W1|exact IE1|right; reflexivity].
Qed.

Lemma m_poll_W : forall s abs, WP s -> PollOut (fst (m_poll sc s abs)).
Proof.
  intros s abs W. unfold m_poll. destruct (is_epoll s) eqn:IE; [apply epoll_poll_W|apply poll_poll_W]; assumption.
Qed.

(* ---------- iv_fd_poll_and_run and iv_main ---------- *)
Hypothesis DA : forall s a, InvW s -> wf_action a -> okr (StepW s) (do_action s a).

Definition IdleOut (r : res) : Prop :=
  match r with R s' => Y true s' /\ active s' = [] /\ expect (mst s') = [] | Halt s' => G2 s' end.

Lemma M_idle_expect : forall s, M (0, []) s -> active s = [] -> expect (mst s) = [].
Proof.
  intros s M0 A. destruct (expect (mst s)) as [|[i b] l] eqn:Q; [reflexivity|].
  destruct (m_e _ _ M0 i b ltac:(rewrite Q; left; reflexivity)) as (_ & _ & _ & _ & _ & [S|(_ & _ & [])]).
  rewrite A in S. destruct S.
Qed.

Lemma dispatch_W : forall s, Ready0 s -> IdleOut (dispatch_active sc (S (length (active s))) s).
Proof.
  intros s [H M0]. pose proof (dispatch_active_Y sc WF (S (length (active s))) s H M0) as P.
  destruct (dispatch_active sc (S (length (active s))) s) as [s'|s']; cbn [IdleOut]; [|exact P].
  destruct P as (Y' & M' & A'). split; [exact Y'|]. split; [exact A'|apply M_idle_expect; assumption].
Qed.

Lemma poll_and_run_W : forall s abs, WP s -> IdleOut (fst (poll_and_run sc s abs)).
Proof.
  intros s abs W. unfold poll_and_run.
  assert (MP : forall s0 abs0, WP s0 -> PollOut (fst (m_poll sc s0 abs0))) by (intros; apply m_poll_W; assumption).
  assert (FIN : forall r, PollOut r -> IdleOut (bind r (fun s0 => dispatch_active sc (S (length (active s0))) s0))).
  { intros r P. destruct r as [s1|s1]; cbn [bind PollOut] in *; [apply dispatch_W; exact P|exact P]. }
  match goal with |- IdleOut (fst (let '(r, rt) := ?X in (bind r _, rt))) =>
    assert (PX : PollOut (fst X)); [|destruct X as [r rt]; cbn [fst] in *; apply FIN; exact PX] end.
  destruct (Z.eqb_spec (method s) M_ET) as [ME|NME]; [|apply MP; exact W].
  pose proof W as [I0 H A E Q].
  pose proof (timeout_check_ok sc WF DA s abs I0 ME) as T1.
  pose proof (timeout_check_post s abs (y_j _ _ _ H) ME) as T2.
  pose proof (timeout_check_st0 s abs) as T3.
  destruct (timeout_check s abs) as [[s1|s1] b]; cbn [fst okr PostQ res_state] in *.
  - destruct T1 as (I1 & _). destruct T2 as (J1 & _ & Q1).
    assert (W1 : WP s1) by (apply (WP_st0 s s1 W T3 J1 I1 Q1)).
    destruct b; [|apply MP; exact W1].
    pose proof (MP s1 None W1) as P. destruct (m_poll sc s1 None) as [r rt]. cbn [fst] in *.
    destruct r as [s2|s2]; cbn [bind PollOut] in *; [|exact P].
    destruct rt; [|exact P]. destruct P as [Y2 M2].
    apply (Ready0_MF s2); [exact M2| |apply MF_same; reflexivity].
    apply (Y_step sc true s2 _ Y2); try reflexivity. apply J_set_last_abs. apply Y2.
  - cbn [PollOut]. apply (TrExt_G2 sc s s1 (s0_tr _ _ T3)). apply H.
Qed.

Let Hh := wf_handlers sc WF.

Lemma main_loop_W : forall fuel s rt, LoopInv s -> Y true s -> expect (mst s) = [] ->
  IdleOut (main_loop sc fuel s rt).
Proof.
  induction fuel as [|fuel IH]; intros s rt L H E; cbn [main_loop].
  - cbn [IdleOut halt]. apply G2_sil; [exact I|apply H].
  - pose proof L as (I0 & Q0 & T0 & A0).
    (* timers *)
    assert (P1 : match (if rt then run_timers sc s else R s) with
                 | R s1 => LoopInv s1 /\ Y true s1 /\ expect (mst s1) = []
                 | Halt s1 => G2 s1 end).
    { destruct rt; [|auto].
      pose proof (run_timers_ok sc Hh DA s I0 Q0) as R1. pose proof (run_timers_Y sc WF s H) as R2.
      destruct (run_timers sc s) as [s1|s1]; cbn [okr PostY] in *; [|exact R2].
      destruct R2 as (Y1 & M1 & _). destruct (LoopInv_Ph sc WF DA s s1 L R1) as [L1 _].
      split; [exact L1|]. split; [exact Y1|apply (MF_idle s s1 M1 A0 E)]. }
    destruct (if rt then run_timers sc s else R s) as [s1|s1]; cbn [bind IdleOut]; [|exact P1].
    destruct P1 as (L1 & Y1 & E1). pose proof L1 as (I1 & Q1 & T1 & A1).
    (* tasks *)
    pose proof (run_tasks_ok sc Hh DA s1 I1 Q1) as R1.
    pose proof (run_tasks_Y sc WF s1 Y1 (proj1 (proj2 Q1))) as R2.
    destruct (run_tasks sc s1) as [s2|s2]; cbn [okr PostTY bind IdleOut] in *; [|exact R2].
    destruct R2 as (Y2 & M2 & _). destruct (LoopInv_Ph sc WF DA s1 s2 L1 R1) as [L2 _].
    destruct (MF_idle s1 s2 M2 A1 E1) as [A2 E2].
    destruct (quit s2 || (numobjs s2 =? 0)) eqn:QN; [cbn [IdleOut]; auto|].
    apply orb_false_iff in QN. destruct QN as [Q2 _].
    set (abs := match tasks s2 with _ :: _ => Some 0 | [] => soonest_timeout s2 end).
    assert (W2 : WP s2) by (constructor; [apply L2|exact Y2|exact A2|exact E2|exact Q2]).
    pose proof (poll_and_run_W s2 abs W2) as P3.
    pose proof (poll_and_run_ok sc WF DA s2 abs L2) as P4.
    destruct (poll_and_run sc s2 abs) as [r rt']. cbn [fst] in P3, P4.
    destruct r as [s3|s3]; cbn [bind IdleOut okr] in *; [|exact P3].
    destruct P3 as (Y3 & A3 & E3). destruct P4 as (L3 & _).
    apply IH; assumption.
Qed.

End Wait2.
