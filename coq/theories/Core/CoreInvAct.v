(* CoreInvAct.v -- tasks, events, raw events, kernel-side actions; do_action,
   run_acts, run_script preserve InvW and satisfy the frame relation Fr. *)
From Coq Require Import List ZArith Bool Lia.
From Ivv Require Import Core.Kernel Core.CoreTypes Core.CoreFd Core.CoreModel Core.CoreSpec
  Core.CoreInvBase Core.CoreInvDefs Core.CoreInvFd Core.CoreInvPoll Core.CoreInvReg Core.CoreInvObj.
From Ivv Require Timer.HeapModel Timer.HeapSpec.
Import ListNotations.
Local Open Scope Z_scope.

(* ---------- the task measure ---------- *)
Definition tf (s : core) (k : Z) : bool := negb (mem_z k (curl s)) && negb (tepoch s k =? epoch s).
Lemma tcount_cntf : forall s, Z.of_nat (tcount s) = cntf (tf s) (zseq 0 17).
Proof. reflexivity. Qed.

Lemma task_reg_split : forall s k, task_registered s k = false -> ~ In k (tasks s) /\ ~ In k (curl s).
Proof.
  intros s k H. unfold task_registered in H. apply orb_false_iff in H. destruct H as [A B].
  split; [apply memz_nIn; assumption|]. unfold curl. destruct (cur s); [apply memz_nIn; assumption|tauto].
Qed.
Lemma task_reg_in : forall s k, task_registered s k = true -> In k (tasks s ++ curl s).
Proof.
  intros s k H. unfold task_registered in H. apply orb_true_iff in H. apply in_app_iff.
  destruct H as [A|B]; [left; apply memz_In; assumption|right].
  unfold curl. destruct (cur s); [apply memz_In; assumption|discriminate].
Qed.

(* everything but tasks / cur / epoch / tepoch / numobjs is unchanged *)
Lemma InvW_tasks : forall s s', InvW s -> fdcs s s' -> trace s' = trace s -> heap s' = heap s ->
  ev_pending s' = ev_pending s -> ev_batch s' = ev_batch s -> ev_count s' = ev_count s ->
  ev_reg s' = ev_reg s -> use_raw s' = use_raw s ->
  TaskInv s' ->
  numobjs s' - Z.of_nat (length (tasks s' ++ curl s')) = numobjs s - Z.of_nat (length (tasks s ++ curl s)) ->
  InvW s'.
Proof.
  intros s s' I CS TR HP E1 E2 E3 E4 E5 TI NO.
  apply (InvW_fdcs s s'); try assumption.
  - rewrite TR. apply (ms_nobad _ (iw_misc _ I)).
  - rewrite HP. apply (iw_heap _ I).
  - pose proof (iw_ev _ I) as [A B C D E F G]. constructor; unfold is_epoll;
      rewrite ?E1, ?E2, ?E3, ?E4, ?E5, ?(fc_rr _ _ CS), ?(fc_ar _ _ CS), ?(fc_method _ _ CS); assumption.
  - pose proof (iw_acct _ I) as [A B]. constructor.
    + rewrite (fc_numfds _ _ CS), (fc_fdt _ _ CS). assumption.
    + rewrite (fc_numfds _ _ CS), HP, E3, (fc_ar _ _ CS). lia.
Qed.

Lemma NoDup_mid : forall (a b : list Z) x, NoDup (a ++ b) -> ~ In x (a ++ b) -> NoDup ((a ++ [x]) ++ b).
Proof.
  intros a b x ND NI. rewrite <- app_assoc. cbn [app].
  apply (NoDup_Add (Add_app x a b)). tauto.
Qed.
Lemma NoDup_snoc2 : forall (a b : list Z) x, NoDup (a ++ b) -> ~ In x (a ++ b) -> NoDup (a ++ b ++ [x]).
Proof.
  intros a b x ND NI. rewrite app_assoc.
  pose proof (NoDup_Add (Add_app x (a ++ b) [])) as H. rewrite app_nil_r in H. apply H. tauto.
Qed.

Lemma task_register_ok : forall s k, InvW s -> 0 <= k <= 16 -> task_registered s k = false ->
  StepW s (task_register s k).
Proof.
  intros s k I K T. destruct (task_reg_split s k T) as [NT NC]. pose proof (iw_task _ I) as [TR TN].
  assert (NI : ~ In k (tasks s ++ curl s)) by (rewrite in_app_iff; tauto).
  assert (ND1 : NoDup ((tasks s ++ [k]) ++ curl s)) by (apply NoDup_mid; assumption).
  assert (RG : forall l, (forall x, In x l -> In x (tasks s ++ curl s) \/ x = k) -> forall x, In x l -> 0 <= x <= 16).
  { intros l H x Hx. destruct (H x Hx) as [Q| ->]; [apply TR; assumption|assumption]. }
  assert (CS : forall t c0, fdcs s (set_tasks (set_numobjs s (numobjs s + 1)) t c0)) by (intros; fc_refl).
  assert (TOT : forall t c0, (forall x, In x (t ++ match c0 with Some c => c | None => [] end) ->
                                  In x (tasks s ++ curl s) \/ x = k) ->
                 NoDup (t ++ match c0 with Some c => c | None => [] end) ->
                 Z.of_nat (length (t ++ match c0 with Some c => c | None => [] end)) =
                   Z.of_nat (length (tasks s ++ curl s)) + 1 ->
                 InvW (set_tasks (set_numobjs s (numobjs s + 1)) t c0)).
  { intros t c0 H1 H2 H3. eapply InvW_tasks; [exact I|apply CS|reflexivity..| |].
    - constructor; unfold curl; sp; [apply RG; assumption|assumption].
    - unfold curl at 1. sp. lia. }
  assert (FRT : forall t, Fr s (set_tasks (set_numobjs s (numobjs s + 1)) t (cur s))).
  { intros t. constructor; sp; try reflexivity; try lia; try tauto. }
  unfold task_register. sp. unfold curl in *. destruct (cur s) as [c|] eqn:C.
  - destruct (Z.eqb_spec (tepoch s k) (epoch s)) as [EQ|NE].
    + split; [|apply FRT]. apply TOT.
      * intros x Hx. rewrite !in_app_iff in *. cbn [In] in Hx. intuition congruence.
      * exact ND1.
      * rewrite !app_length. cbn [length]. lia.
    + split.
      * apply TOT.
        -- intros x Hx. rewrite !in_app_iff in *. cbn [In] in Hx. intuition congruence.
        -- apply NoDup_snoc2; assumption.
        -- rewrite !app_length. cbn [length]. lia.
      * constructor; sp; try reflexivity; try lia; try tauto; [|congruence].
        set (s' := set_tasks (set_numobjs s (numobjs s + 1)) (tasks s) (Some (c ++ [k]))).
        assert (CL : curl s = c) by (unfold curl; rewrite C; reflexivity).
        assert (CL' : curl s' = c ++ [k]) by reflexivity.
        unfold tmeasure. rewrite CL', CL, app_length. cbn [length].
        assert (Q : cntf (tf s) (zseq 0 17) = cntf (tf s') (zseq 0 17) + 1).
        { apply (cntf_flip (tf s') (tf s) _ k); [apply NoDup_zseq|apply In_zseq'; lia| | |].
          - unfold tf. rewrite CL', memz_app. cbn. rewrite Z.eqb_refl, orb_true_r. reflexivity.
          - unfold tf. rewrite CL. apply memz_nIn in NC. rewrite NC. cbn. apply Z.eqb_neq in NE.
            rewrite NE. reflexivity.
          - intros x N. unfold tf. rewrite CL', CL, memz_app. cbn. apply Z.eqb_neq in N. rewrite N. cbn.
            rewrite orb_false_r. reflexivity. }
        rewrite <- !tcount_cntf in Q. lia.
  - split; [|apply FRT]. apply TOT.
    + intros x Hx. rewrite !in_app_iff in *. cbn [In] in Hx. intuition congruence.
    + exact ND1.
    + rewrite !app_length. cbn [length]. lia.
Qed.

Lemma NoDup_app_r : forall (a b : list Z), NoDup (a ++ b) -> NoDup b.
Proof. induction a as [|x a IH]; intros b H; [exact H|]. inversion H; subst. apply IH. assumption. Qed.

Lemma memz_remz_other : forall x k l, x <> k -> mem_z x (remove_z k l) = mem_z x l.
Proof.
  intros x k l N. destruct (mem_z x l) eqn:M.
  - apply memz_In. apply In_remz. apply memz_In in M. tauto.
  - apply memz_nIn. apply memz_nIn in M. rewrite In_remz. tauto.
Qed.

Lemma task_unregister_ok : forall s k, InvW s -> 0 <= k <= 16 -> task_registered s k = true ->
  StepW s (task_unregister s k).
Proof.
  intros s k I K T. pose proof (task_reg_in s k T) as IN. pose proof (iw_task _ I) as [TR TN].
  unfold task_unregister. sp.
  set (c' := match cur s with Some c => Some (remove_z k c) | None => None end).
  set (s' := set_tasks (set_numobjs s (numobjs s - 1)) (remove_z k (tasks s)) c').
  assert (CL : curl s' = remove_z k (curl s)).
  { unfold curl. subst s' c'. sp. destruct (cur s); reflexivity. }
  assert (APP : tasks s' ++ curl s' = remove_z k (tasks s ++ curl s)) by (rewrite CL, remz_app; reflexivity).
  split.
  - eapply InvW_tasks; [exact I|fc_refl|reflexivity..| |].
    + constructor; rewrite APP.
      * intros x Hx. apply In_remz in Hx. apply TR. tauto.
      * apply NoDup_remz. assumption.
    + rewrite APP. pose proof (remz_length_nodup k _ TN IN). subst s'. sp. lia.
  - constructor; try reflexivity; try (subst s'; sp; lia); try (subst s'; sp; tauto).
    + (* measure *)
      unfold tmeasure. rewrite CL.
      destruct (in_dec Z.eq_dec k (curl s)) as [IC|NIC].
      * assert (NDc : NoDup (curl s)) by (eapply NoDup_app_r; eassumption).
        pose proof (remz_length_nodup k _ NDc IC) as LEN.
        assert (Q : cntf (tf s') (zseq 0 17) <= cntf (tf s) (zseq 0 17) + 1).
        { assert (OTH : forall x, x <> k -> tf s x = tf s' x).
          { intros x N. unfold tf. rewrite CL, memz_remz_other by assumption. reflexivity. }
          destruct (tf s' k) eqn:TK.
          - assert (tf s k = false) by (unfold tf; apply memz_In in IC; rewrite IC; reflexivity).
            rewrite (cntf_flip (tf s) (tf s') _ k); try assumption; [lia|apply NoDup_zseq|apply In_zseq'; lia].
          - assert (cntf (tf s') (zseq 0 17) <= cntf (tf s) (zseq 0 17)); [|lia].
            apply cntf_le. intros x _ H. destruct (Z.eq_dec x k) as [->|N]; [congruence|]. rewrite OTH; assumption. }
        rewrite <- !tcount_cntf in Q. lia.
      * rewrite (remz_notin _ _ NIC).
        assert (Q : tcount s' = tcount s).
        { unfold tcount. rewrite CL, (remz_notin _ _ NIC). reflexivity. }
        rewrite Q. lia.
    + subst s' c'. sp. intros H. rewrite H. reflexivity.
Qed.

Lemma task_fresh_ok : forall s j, InvW s -> StepW s (set_epoch s (epoch s) (upd (tepoch s) j (epoch s))).
Proof.
  intros s j I. set (s' := set_epoch s (epoch s) (upd (tepoch s) j (epoch s))). split.
  - apply (InvW_coresame s s'); [cs_refl|apply (ms_nobad _ (iw_misc _ I))|exact I].
  - constructor; try reflexivity; try (subst s'; sp; lia); try (subst s'; sp; tauto).
    unfold tmeasure. change (curl s') with (curl s).
    assert (Q : cntf (tf s') (zseq 0 17) <= cntf (tf s) (zseq 0 17)).
    { apply cntf_le. intros x _. unfold tf. change (curl s') with (curl s). subst s'. sp. unfold upd.
      destruct (Z.eqb_spec x j) as [->|N]; [rewrite Z.eqb_refl, andb_false_r; discriminate|tauto]. }
    rewrite <- !tcount_cntf in Q. lia.
Qed.

