(* CorePhase2FdStep.v -- unconditional structural facts about the operations of the
   model that the dispatch clauses (codes 204 303 304) and the kernel-semantics
   clauses (201-203) need and that neither Rel (CoreRel) nor Inv (CoreInv) records:
   * KX: scripted descriptors stay scripted, every interest entry stays enabled;
   * ST0 / ST: which operations can change `ready`, `active`, `handled`, the
     user-visible part of a descriptor object, and which events they emit. *)
From Coq Require Import List ZArith Bool Lia.
From Ivv Require Import Core.Kernel Core.CoreTypes Core.CoreFd Core.CoreModel Core.Monitors Core.CoreSpec
  Core.CoreRelBase Core.CoreInvBase Core.CorePhase2FdBase Core.CorePhase2FdMon.
From Ivv Require Timer.HeapModel.
Import ListNotations.
Local Open Scope Z_scope.

(* ---------- the kernel ---------- *)
Definition KV (k : kernel) : Prop :=
  1000 <= next_fd k /\ (forall i v, 0 <= i < 16 -> k_get k (100 + i) = Some v -> vkind v = K_SCRIPTED).
Definition KE (k : kernel) : Prop :=
  forall e, In e (ep k) -> en_enabled e = true /\ has (en_events e) E_ONESHOT = false.
Definition KX (k : kernel) : Prop := KV k /\ KE k.

Lemma KV_put : forall k fd v, KV k -> (100 <= fd < 116 -> vkind v = K_SCRIPTED) -> KV (k_put k fd v).
Proof.
  intros k fd v [N U] H. split; [exact N|]. intros i w I0 G. rewrite k_get_put in G.
  destruct (Z.eqb_spec (100 + i) fd) as [E|NE]; [|eauto]. inversion G; subst w. apply H. lia.
Qed.

Lemma KV_upd : forall k fd v0 v, KV k -> k_get k fd = Some v0 -> vkind v = vkind v0 -> KV (k_put k fd v).
Proof.
  intros k fd v0 v K G E. apply KV_put; [assumption|]. intros R. rewrite E.
  destruct K as [_ U]. apply (U (fd - 100)); [lia|]. replace (100 + (fd - 100)) with fd by lia. assumption.
Qed.

Lemma KV_same : forall k k', vfds k' = vfds k -> next_fd k' = next_fd k -> KV k -> KV k'.
Proof. intros k k' A B [N U]. split; [lia|]. intros i v I0 G. unfold k_get in G. rewrite A in G. eauto. Qed.

Lemma KV_alloc : forall k kind, KV k -> KV (snd (k_alloc k kind)) /\ 1000 <= fst (k_alloc k kind).
Proof.
  intros k kind K. unfold k_alloc. cbn [fst snd]. split; [|apply K].
  apply KV_put; [|destruct K; lia].
  destruct K as [N U]. split; [cbn; lia|exact U].
Qed.

Lemma KV_read : forall k fd c, KV k -> KV (fst (k_read k fd c)).
Proof.
  intros k fd c K. unfold k_read. destruct (k_open k fd) as [v|] eqn:O; [|exact K].
  apply k_open_get in O. destruct O as [G _].
  repeat match goal with |- context [if ?b then _ else _] => destruct b end; cbn [fst]; try exact K;
    eapply KV_upd; try eassumption; reflexivity.
Qed.

Lemma KV_write : forall k fd c x, KV k -> KV (fst (k_write k fd c x)).
Proof.
  intros k fd c x K. unfold k_write. destruct (k_open k fd) as [v|] eqn:O; [|exact K].
  apply k_open_get in O. destruct O as [G _].
  destruct (vkind v =? K_EVENTFD).
  { destruct (c <? 8); cbn [fst]; [exact K|]. eapply KV_upd; try eassumption; reflexivity. }
  destruct (vkind v =? K_PIPE_W); [|exact K].
  destruct (negb (vpeer_open v)); [exact K|].
  destruct (k_get k (vpeer v)) as [r|] eqn:GR; [|exact K].
  destruct (Z.min c (65536 - vcnt r) <=? 0); cbn [fst]; [exact K|].
  eapply KV_upd; try eassumption; reflexivity.
Qed.

Lemma KV_close : forall k fd, KV k -> KV (fst (k_close k fd)).
Proof.
  intros k fd K. unfold k_close. destruct (k_open k fd) as [v|] eqn:O; [|exact K].
  apply k_open_get in O. destruct O as [G _]. cbn [fst].
  assert (K1 : KV (k_put k fd (with_closed v true))) by (eapply KV_upd; try eassumption; reflexivity).
  apply (KV_same (if (vkind v =? K_PIPE_R) || (vkind v =? K_PIPE_W)
                  then match k_get (k_put k fd (with_closed v true)) (vpeer v) with
                       | Some p => k_put (k_put k fd (with_closed v true)) (vpeer v) (with_peer p (vpeer p) false)
                       | None => k_put k fd (with_closed v true)
                       end
                  else k_put k fd (with_closed v true))); [reflexivity|reflexivity|].
  destruct ((vkind v =? K_PIPE_R) || (vkind v =? K_PIPE_W)); [|exact K1].
  destruct (k_get (k_put k fd (with_closed v true)) (vpeer v)) as [p|] eqn:GP; [|exact K1].
  eapply KV_upd; try eassumption; reflexivity.
Qed.

Lemma KV_pipe : forall k, KV k -> KV (fst (k_pipe k)).
Proof.
  intros k K. unfold k_pipe. destruct (emfile (flt k)); [exact K|].
  destruct (k_alloc k K_PIPE_R) as [r k1] eqn:A1. destruct (k_alloc k1 K_PIPE_W) as [w k2] eqn:A2. cbn [fst].
  pose proof (KV_alloc k K_PIPE_R K) as [K1 R1]. rewrite A1 in K1, R1. cbn [fst snd] in K1, R1.
  pose proof (KV_alloc k1 K_PIPE_W K1) as [K2 R2]. rewrite A2 in K2, R2. cbn [fst snd] in K2, R2.
  apply KV_put; [apply KV_put; [exact K2|lia]|lia].
Qed.

Lemma KV_eventfd : forall k b, KV k -> KV (fst (k_eventfd k b)).
Proof.
  intros k b K. unfold k_eventfd. destruct (emfile (flt k)); [exact K|].
  destruct (efd_cut k && (no_eventfd (flt k) || (b && no_eventfd2 (flt k)))); [exact K|].
  pose proof (KV_alloc k K_EVENTFD K) as [K1 _]. destruct (k_alloc k K_EVENTFD) as [fd k1]. exact K1.
Qed.

Lemma KV_timerfd_create : forall k, KV k -> KV (fst (k_timerfd_create k)).
Proof.
  intros k K. unfold k_timerfd_create. destruct (no_timerfd (flt k)); [exact K|].
  pose proof (KV_alloc k K_TIMERFD K) as [K1 _]. destruct (k_alloc k K_TIMERFD) as [fd k1]. exact K1.
Qed.

Lemma KV_settime : forall k fd d, KV k -> KV (k_timerfd_settime k fd d).
Proof.
  intros k fd d K. unfold k_timerfd_settime. destruct (k_open k fd) as [v|] eqn:O; [|exact K].
  apply k_open_get in O. destruct O as [G _]. eapply KV_upd; try eassumption; reflexivity.
Qed.

Lemma KV_user_fd : forall k i, KV k -> KV (k_user_fd k i).
Proof. intros k i K. apply KV_put; [exact K|reflexivity]. Qed.
Lemma KV_set_cond : forall k i c, KV k -> KV (k_set_cond k i c).
Proof.
  intros k i c K. unfold k_set_cond. destruct (k_get k (100 + i)) as [v|] eqn:G; [|exact K].
  eapply KV_upd; try eassumption; reflexivity.
Qed.
Lemma KV_user_close : forall k i, KV k -> KV (k_user_close k i).
Proof.
  intros k i K. unfold k_user_close. destruct (k_get k (100 + i)) as [v|] eqn:G; [|exact K].
  eapply KV_upd; try eassumption; reflexivity.
Qed.

Lemma KV_grab : forall k u, KV k -> KV (fst (fst (eventfd_grab k u))).
Proof.
  intros k u K. unfold eventfd_grab.
  assert (OP : forall k0 u0, KV k0 -> KV (fst (fst (
     if negb (u0 =? 0) then
      match k_eventfd k0 false with
      | (k1, inl fd) => (k1, inl fd, u0)
      | (k1, inr e) => if is_enosys e then (k1, @inr Z errno ENOSYS, 0) else (k1, inr e, u0)
      end
    else (k0, inr ENOSYS, 0))))).
  { intros k0 u0 K0. destruct (negb (u0 =? 0)); [|exact K0].
    pose proof (KV_eventfd k0 false K0) as H. destruct (k_eventfd k0 false) as [k1 [fd|e]]; cbn [fst] in *.
    - assumption.
    - destruct (is_enosys e); assumption. }
  destruct (u =? 2).
  - pose proof (KV_eventfd k true K) as H. destruct (k_eventfd k true) as [k1 [fd|e]]; cbn [fst] in *.
    + assumption.
    + destruct (is_enosys e || is_einval e); [|assumption]. apply OP. assumption.
  - apply OP. assumption.
Qed.

Lemma KE_same : forall k k', ep k' = ep k -> KE k -> KE k'.
Proof. intros k k' E K e H. rewrite E in H. auto. Qed.

Lemma KX_ksame : forall k k', ksame k k' -> KV k' -> KE k -> KX k'.
Proof. intros k k' (_ & _ & E) V K. split; [assumption|eapply KE_same; eassumption]. Qed.

Lemma KX_read : forall k fd c, KX k -> KX (fst (k_read k fd c)).
Proof. intros k fd c [V E]. eapply KX_ksame; [apply ksame_read|apply KV_read; assumption|assumption]. Qed.
Lemma KX_write : forall k fd c x, KX k -> KX (fst (k_write k fd c x)).
Proof. intros k fd c x [V E]. eapply KX_ksame; [apply ksame_write|apply KV_write; assumption|assumption]. Qed.
Lemma KX_pipe : forall k, KX k -> KX (fst (k_pipe k)).
Proof. intros k [V E]. eapply KX_ksame; [apply ksame_pipe|apply KV_pipe; assumption|assumption]. Qed.
Lemma KX_timerfd_create : forall k, KX k -> KX (fst (k_timerfd_create k)).
Proof. intros k [V E]. eapply KX_ksame; [apply ksame_timerfd_create|apply KV_timerfd_create; assumption|assumption]. Qed.
Lemma KX_settime : forall k fd d, KX k -> KX (k_timerfd_settime k fd d).
Proof. intros k fd d [V E]. eapply KX_ksame; [apply ksame_settime|apply KV_settime; assumption|assumption]. Qed.
Lemma KX_user_fd : forall k i, KX k -> KX (k_user_fd k i).
Proof. intros k i [V E]. eapply KX_ksame; [apply ksame_user_fd|apply KV_user_fd; assumption|assumption]. Qed.
Lemma KX_set_cond : forall k i c, KX k -> KX (k_set_cond k i c).
Proof. intros k i c [V E]. eapply KX_ksame; [apply ksame_set_cond|apply KV_set_cond; assumption|assumption]. Qed.
Lemma KX_user_close : forall k i, KX k -> KX (k_user_close k i).
Proof. intros k i [V E]. eapply KX_ksame; [apply ksame_user_close|apply KV_user_close; assumption|assumption]. Qed.
Lemma KX_grab : forall k u, KX k -> KX (fst (fst (eventfd_grab k u))).
Proof. intros k u [V E]. eapply KX_ksame; [apply ksame_grab|apply KV_grab; assumption|assumption]. Qed.
Lemma KX_set_clock : forall k c, KX k -> KX (k_set_clock k c).
Proof. intros k c [V E]. split; [eapply KV_same; [| |eassumption]; reflexivity|exact E]. Qed.
Lemma KX_set_nwait : forall k c, KX k -> KX (k_set_nwait k c).
Proof. intros k c [V E]. split; [eapply KV_same; [| |eassumption]; reflexivity|exact E]. Qed.

Lemma KX_close : forall k fd, KX k -> KX (fst (k_close k fd)).
Proof.
  intros k fd [V E]. split; [apply KV_close; assumption|].
  intros e H. apply (CoreRelBase.k_close_spec k fd) in H. auto.
Qed.

Lemma KX_ctl : forall k op fd ev data, KX k -> has ev E_ONESHOT = false -> KX (fst (k_epoll_ctl k op fd ev data)).
Proof.
  intros k op fd ev data [V E] H.
  destruct (k_epoll_ctl k op fd ev data) as [k' r] eqn:C. cbn [fst].
  split.
  - apply (KV_same k); [| |exact V]; revert C; unfold k_epoll_ctl;
      repeat match goal with |- context [if ?b then _ else _] => destruct b | |- context [match ?x with Some _ => _ | None => _ end] => destruct x end;
      intros C; inversion C; reflexivity.
  - pose proof (epoll_ctl_spec k op fd ev data k' r C) as (_ & _ & S).
    destruct r as [er|]; [eapply KE_same; eassumption|]. cbv zeta in S.
    intros e I0. destruct (op =? CTL_ADD).
    + rewrite S in I0. apply in_app_or in I0. destruct I0 as [I0|[I0|[]]]; [auto|subst e; split; [reflexivity|exact H]].
    + destruct (op =? CTL_MOD).
      * rewrite S in I0. apply In_ep_replace in I0. destruct I0 as [I0|I0]; [subst e; split; [reflexivity|exact H]|auto].
      * rewrite S in I0. apply In_ep_remove in I0. apply E. tauto.
Qed.

Lemma disable_oneshot_id : forall l rep, (forall e, In e l -> has (en_events e) E_ONESHOT = false) -> disable_oneshot l rep = l.
Proof.
  intros l rep H. unfold disable_oneshot. rewrite <- (map_id l) at 2. apply map_ext_in.
  intros e I0. rewrite (H e I0), andb_false_r. reflexivity.
Qed.

(* the sleeping functions: the interest list does not change, only the clock may *)
Lemma epoll_sleep_KX : forall k maxev timeout rot, KX k ->
  match k_epoll_sleep k maxev timeout rot with
  | WReady k1 evs => KX k1 /\ ep k1 = ep k /\ vfds k1 = vfds k
  | _ => True
  end.
Proof.
  intros k maxev timeout rot [V E]. unfold k_epoll_sleep.
  assert (D : forall k0 evs, ep k0 = ep k -> disable_oneshot (ep k0) evs = ep k).
  { intros k0 evs Q. rewrite Q. apply disable_oneshot_id. intros e I0. apply E. assumption. }
  set (order := rotate _ _).
  destruct (ep_scan k order (Z.to_nat maxev)) as [|ev0 evs0].
  - destruct (timeout =? 0); [split; [split; assumption|split; reflexivity]|].
    set (wake := ep_wake _ _ _). destruct (wake <? 0); [exact I|].
    set (k1 := if clock k <? wake then k_set_clock k wake else k).
    assert (E1 : ep k1 = ep k) by (unfold k1; destruct (clock k <? wake); reflexivity).
    assert (V1 : vfds k1 = vfds k) by (unfold k1; destruct (clock k <? wake); reflexivity).
    assert (N1 : next_fd k1 = next_fd k) by (unfold k1; destruct (clock k <? wake); reflexivity).
    rewrite (D k1 _ E1). cbn [ep vfds k_set_ep]. split; [|split; [reflexivity|assumption]].
    split; [apply (KV_same k); assumption|]. intros e I0. cbn [ep k_set_ep] in I0. auto.
  - rewrite (D k _ eq_refl). cbn [ep vfds k_set_ep]. split; [|split; reflexivity].
    split; [apply (KV_same k); [reflexivity|reflexivity|assumption]|]. intros e I0. cbn [ep k_set_ep] in I0. auto.
Qed.

Lemma poll_sleep_KX : forall k pf timeout, KX k ->
  match k_poll_sleep k pf timeout with
  | PReady k1 _ => KX k1 /\ vfds k1 = vfds k
  | PHang => True
  end.
Proof.
  intros k pf timeout K. unfold k_poll_sleep.
  destruct ((0 <? count_nonzero (poll_eval k pf)) || (timeout =? 0)); [split; [assumption|reflexivity]|].
  destruct (timeout <? 0); [exact I|]. split; [apply KX_set_clock; assumption|reflexivity].
Qed.

(* ---------- structural steps ---------- *)
Definition lsil (e : tev) : Prop :=
  match e with TKClose _ | TKTfd _ | TFatal | TCrash | TLimit | THang => True | _ => False end.

Lemma lsil_sil : forall e, lsil e -> sil e.
Proof. intros e H. destruct e; try destruct H; exact I. Qed.

Definition rsame (f' f : fdo) : Prop :=
  ready f' = ready f /\ registered f' = registered f /\ h_in f' = h_in f /\ h_out f' = h_out f /\
  h_err f' = h_err f /\ fdnum f' = fdnum f.

Lemma rsame_refl : forall f, rsame f f. Proof. intros; repeat split. Qed.
Lemma rsame_trans : forall a b c, rsame a b -> rsame b c -> rsame a c.
Proof. unfold rsame. intros a b c (A1&A2&A3&A4&A5&A6) (B1&B2&B3&B4&B5&B6). repeat split; congruence. Qed.

Definition TrExt (s s' : core) : Prop := exists evs, trace s' = evs ++ trace s /\ Forall sil evs.

Lemma TrExt_refl : forall s, TrExt s s.
Proof. intros s. exists []. split; [reflexivity|constructor]. Qed.
Lemma TrExt_trans : forall a b c, TrExt a b -> TrExt b c -> TrExt a c.
Proof.
  intros a b c (e1 & A1 & A2) (e2 & B1 & B2). exists (e2 ++ e1). split.
  - rewrite B1, A1, app_assoc. reflexivity.
  - apply Forall_app. split; assumption.
Qed.
Lemma TrExt_same : forall s s', trace s' = trace s -> TrExt s s'.
Proof. intros s s' E. exists []. split; [exact E|constructor]. Qed.

Record ST0 (s s' : core) : Prop := {
  s0_fd : forall i, rsame (fdt s' i) (fdt s i);
  s0_act : active s' = active s;
  s0_hd : handled s' = handled s;
  s0_tr : TrExt s s';
  s0_kx : KX (kern s) -> KX (kern s') }.

Record ST (w : bool) (k : Z) (s s' : core) : Prop := {
  st_fd : forall i, i <> k -> rsame (fdt s' i) (fdt s i);
  st_fdk : (0 <= k < 16 -> fdnum (fdt s' k) = fdnum (fdt s k)) /\ (w = false -> ready (fdt s' k) = ready (fdt s k));
  st_act : active s' = active s \/ active s' = remove_z k (active s);
  st_hd : handled s' = handled s \/ (handled s = Some k /\ handled s' = None);
  st_tr : TrExt s s';
  st_kx : KX (kern s) -> KX (kern s') }.

Lemma ST0_refl : forall s, ST0 s s.
Proof. intros s. constructor; auto using rsame_refl, TrExt_refl. Qed.

Lemma ST0_trans : forall a b c, ST0 a b -> ST0 b c -> ST0 a c.
Proof.
  intros a b c [A1 A2 A3 A4 A5] [B1 B2 B3 B4 B5]. constructor; try congruence; auto.
  - intros i. eapply rsame_trans; [apply B1|apply A1].
  - eapply TrExt_trans; eassumption.
Qed.

Lemma remz_idem : forall k l, remove_z k (remove_z k l) = remove_z k l.
Proof. intros k l. apply remz_notin. rewrite In_remz. tauto. Qed.

Lemma ST_refl : forall w k s, ST w k s s.
Proof. intros. constructor; auto using rsame_refl, TrExt_refl. Qed.

Lemma ST_trans : forall w k a b c, ST w k a b -> ST w k b c -> ST w k a c.
Proof.
  intros w k a b c [A1 [A2 A2'] A3 A4 A5 A6] [B1 [B2 B2'] B3 B4 B5 B6]. constructor.
  - intros i N. eapply rsame_trans; [apply B1|apply A1]; assumption.
  - split; [intros R; rewrite B2, A2 by assumption; reflexivity|intros W; rewrite B2', A2' by assumption; reflexivity].
  - destruct A3 as [A3|A3], B3 as [B3|B3]; rewrite B3, A3; auto. right. apply remz_idem.
  - destruct B4 as [B4|[B4 B4']]; [rewrite B4; exact A4|].
    destruct A4 as [A4|[A4 A4']]; [right; split; congruence|congruence].
  - eapply TrExt_trans; eassumption.
  - auto.
Qed.

Lemma ST0_ST : forall w k s s', ST0 s s' -> ST w k s s'.
Proof.
  intros w k s s' [A1 A2 A3 A4 A5]. constructor; auto.
  split; intros; apply (A1 k).
Qed.

Lemma ST_weaken : forall k s s', ST false k s s' -> ST true k s s'.
Proof. intros k s s' [A1 [A2 A2'] A3 A4 A5 A6]. constructor; auto. Qed.

(* results *)
Lemma ST0_bind : forall s r f, ST0 s (res_state r) -> (forall s1, ST0 s1 (res_state (f s1))) -> ST0 s (res_state (bind r f)).
Proof. intros s r f H K. destruct r as [s1|s1]; cbn [bind res_state] in *; [eapply ST0_trans; [eassumption|apply K]|assumption]. Qed.
Lemma ST_bind : forall w k s r f, ST w k s (res_state r) -> (forall s1, ST w k s1 (res_state (f s1))) ->
  ST w k s (res_state (bind r f)).
Proof. intros w k s r f H K. destruct r as [s1|s1]; cbn [bind res_state] in *; [eapply ST_trans; [eassumption|apply K]|assumption]. Qed.

Lemma ST0_emit : forall s e, sil e -> ST0 s (emit s e).
Proof.
  intros s e L. constructor; sp; auto using rsame_refl.
  exists [e]. split; [reflexivity|constructor; [assumption|constructor]].
Qed.
Lemma ST0_halt : forall s e, sil e -> ST0 s (res_state (halt s e)).
Proof. intros. apply ST0_emit. assumption. Qed.

Ltac st0_basic :=
  constructor; sp; [intros; apply rsame_refl | reflexivity | reflexivity | apply TrExt_same; reflexivity | intro; assumption].

Lemma ST0_kern : forall s k', (KX (kern s) -> KX k') -> ST0 s (set_kern s k').
Proof.
  intros s k' H. constructor; sp; [intros; apply rsame_refl|reflexivity|reflexivity|apply TrExt_same; reflexivity|exact H].
Qed.

Lemma ST0_putfd : forall s k f, rsame f (fdt s k) -> ST0 s (putfd s k f).
Proof.
  intros s k f H. constructor; sp; [|reflexivity|reflexivity|apply TrExt_same; reflexivity|auto].
  intros i. unfold upd. destruct (i =? k) eqn:E; [apply Z.eqb_eq in E; subst; assumption|apply rsame_refl].
Qed.

Lemma ST_putfd : forall w s k f, fdnum f = fdnum (fdt s k) -> (w = false -> ready f = ready (fdt s k)) -> ST w k s (putfd s k f).
Proof.
  intros w s k f H1 H2. constructor; sp; [| |left; reflexivity|left; reflexivity|apply TrExt_same; reflexivity|auto].
  - intros i N. unfold upd. destruct (Z.eqb_spec i k); [contradiction|apply rsame_refl].
  - unfold upd. rewrite Z.eqb_refl. auto.
Qed.

Lemma ST_putfd_gen : forall w s k f, (0 <= k < 16 -> fdnum f = fdnum (fdt s k)) ->
  (w = false -> ready f = ready (fdt s k)) -> ST w k s (putfd s k f).
Proof.
  intros w s k f H1 H2. constructor; sp; [| |left; reflexivity|left; reflexivity|apply TrExt_same; reflexivity|auto].
  - intros i N. unfold upd. destruct (Z.eqb_spec i k); [contradiction|apply rsame_refl].
  - unfold upd. rewrite Z.eqb_refl. auto.
Qed.

(* ---------- iv_fd.c / back ends ---------- *)
Lemma ctl_retry_st0 : forall s op fd ev data, has ev E_ONESHOT = false -> ST0 s (fst (ctl_retry s op fd ev data)).
Proof.
  intros s op fd ev data H. unfold ctl_retry.
  destruct (k_epoll_ctl (kern s) op fd ev data) as [k1 r1] eqn:C1.
  assert (K1 : KX (kern s) -> KX k1).
  { intros K. pose proof (KX_ctl (kern s) op fd ev data K H) as Q. rewrite C1 in Q. exact Q. }
  assert (D : forall r : option errno, ST0 s (fst (set_kern s k1, r))) by (intros; apply ST0_kern; assumption).
  destruct r1 as [e|]; [|apply D]. destruct e; try apply D.
  destruct (k_epoll_ctl k1 op fd ev data) as [k2 r2] eqn:C2. cbn [fst]. apply ST0_kern.
  intros K. pose proof (KX_ctl k1 op fd ev data (K1 K) H) as Q. rewrite C2 in Q. exact Q.
Qed.

Lemma rsame_regb : forall f r, rsame (fd_with_regb f r) f. Proof. intros; repeat split. Qed.
Lemma rsame_wanted : forall f r, rsame (fd_with_wanted f r) f. Proof. intros; repeat split. Qed.
Lemma rsame_pidx : forall f r, rsame (fd_with_pidx f r) f. Proof. intros; repeat split. Qed.
Lemma rsame_recompute : forall f, rsame (recompute_wanted f) f. Proof. intros; repeat split. Qed.

Lemma ST0_set_notify : forall s l, ST0 s (set_notify s l). Proof. intros. st0_basic. Qed.
Lemma ST0_set_poll : forall s a b, ST0 s (set_poll s a b). Proof. intros. st0_basic. Qed.

Lemma flush_one__st0 : forall s k, ST0 s (fst (epoll_flush_one_ s k)).
Proof.
  intros s k. unfold epoll_flush_one_, getfd.
  set (s0 := set_notify s (remove_z k (notify s))).
  assert (S0 : ST0 s s0) by apply ST0_set_notify.
  destruct (regb (fdt s0 k) =? wanted (fdt s0 k)); [exact S0|].
  match goal with |- context [ctl_retry s0 ?op ?fd ?ev ?d] =>
    pose proof (ctl_retry_st0 s0 op fd ev d (proj2 (proj2 (epoll_mask_has _)))) as C;
    destruct (ctl_retry s0 op fd ev d) as [s1 r] end.
  cbn [fst] in C. destruct r; cbn [fst].
  - eapply ST0_trans; eassumption.
  - eapply ST0_trans; [eassumption|]. eapply ST0_trans; [eassumption|]. apply ST0_putfd. apply rsame_regb.
Qed.

Lemma flush_one_st0 : forall s k, ST0 s (res_state (epoll_flush_one s k)).
Proof.
  intros s k. unfold epoll_flush_one. pose proof (flush_one__st0 s k) as H.
  destruct (epoll_flush_one_ s k) as [s1 failed]. cbn [fst] in H.
  destruct failed; cbn [res_state]; [|exact H]. eapply ST0_trans; [exact H|apply ST0_halt; exact I].
Qed.

Lemma flush_pending_st0 : forall fuel s, ST0 s (res_state (epoll_flush_pending fuel s)).
Proof.
  induction fuel as [|fuel IH]; intros s; cbn [epoll_flush_pending]; destruct (notify s) as [|k l];
    try apply ST0_refl; [apply ST0_halt; exact I|].
  apply ST0_bind; [apply flush_one_st0|apply IH].
Qed.

Lemma epoll_notify_st0 : forall s k, ST0 s (epoll_notify_fd s k).
Proof.
  intros s k. unfold epoll_notify_fd, getfd. set (s0 := set_notify s _).
  destruct (regb (fdt s0 k) =? wanted (fdt s0 k)); [apply ST0_set_notify|].
  eapply ST0_trans; [apply (ST0_set_notify s)|apply ST0_set_notify].
Qed.

Lemma epoll_unregister_st0 : forall s k, ST0 s (res_state (epoll_unregister_fd s k)).
Proof. intros s k. unfold epoll_unregister_fd. destruct (mem_z k (notify s)); [apply flush_one_st0|apply ST0_refl]. Qed.

Lemma poll_notify_st0 : forall s k, ST0 s (res_state (poll_notify_fd s k)).
Proof.
  intros s k. unfold poll_notify_fd, getfd.
  destruct ((pidx (fdt s k) =? -1) && negb (wanted (fdt s k) =? 0)).
  { destruct (65536 <=? Z.of_nat (length (pfds s))); [apply ST0_halt; exact I|]. cbn [res_state].
    eapply ST0_trans; [apply ST0_putfd; apply rsame_pidx|apply ST0_set_poll]. }
  destruct (negb (pidx (fdt s k) =? -1) && (wanted (fdt s k) =? 0)).
  { destruct ((pidx (fdt s k) <? 0) || (Z.of_nat (length (pfds s)) - 1 <? pidx (fdt s k))); [apply ST0_halt; exact I|].
    cbn [res_state].
    match goal with |- ST0 s (putfd (set_poll ?S1 _ _) k _) => assert (A : ST0 s S1) end.
    { destruct (negb (pidx (fdt s k) =? Z.of_nat (length (pfds s)) - 1)); [|apply ST0_refl].
      destruct (nth_z (pfds s) (Z.of_nat (length (pfds s)) - 1)) as [pl|]; [|apply ST0_refl].
      destruct (nth_z (pkeys s) (Z.of_nat (length (pfds s)) - 1)) as [kl|]; [|apply ST0_refl].
      eapply ST0_trans; [apply ST0_set_poll|apply ST0_putfd; apply rsame_pidx]. }
    eapply ST0_trans; [exact A|]. eapply ST0_trans; [apply ST0_set_poll|apply ST0_putfd; apply rsame_pidx]. }
  destruct (negb (pidx (fdt s k) =? -1)); [|apply ST0_refl].
  destruct (nth_z (pfds s) (pidx (fdt s k))); [apply ST0_set_poll|apply ST0_halt; exact I].
Qed.

Lemma poll_notify_sync_st0 : forall s k, ST0 s (res_state (fst (poll_notify_fd_sync s k))).
Proof.
  intros s k. unfold poll_notify_fd_sync. destruct (has _ P_NVAL); cbn [fst]; [apply ST0_refl|apply poll_notify_st0].
Qed.

Lemma m_notify_st0 : forall s k, ST0 s (res_state (m_notify_fd s k)).
Proof. intros s k. unfold m_notify_fd. destruct (is_epoll s); [apply epoll_notify_st0|apply poll_notify_st0]. Qed.

Lemma notify_fd_st0 : forall s k, ST0 s (res_state (notify_fd s k)).
Proof.
  intros s k. unfold notify_fd, getfd. eapply ST0_trans; [apply ST0_putfd; apply rsame_recompute|apply m_notify_st0].
Qed.

Lemma epilogue_st0 : forall s, ST0 s (register_epilogue s).
Proof. intros. unfold register_epilogue. st0_basic. Qed.

Lemma prologue_st : forall s k, ST true k s (register_prologue s k).
Proof.
  intros s k. unfold register_prologue, getfd. apply ST_putfd; [|discriminate].
  destruct (is_epoll s); reflexivity.
Qed.

Lemma fd_register_st : forall s k, ST true k s (res_state (fd_register s k)).
Proof.
  intros s k. unfold fd_register. eapply ST_trans; [apply prologue_st|].
  apply ST_bind; [apply ST0_ST; apply notify_fd_st0|]. intros s1. apply ST0_ST. apply epilogue_st0.
Qed.

Lemma ST_putfd_k : forall w s k f, rsame f (fdt s k) -> ST w k s (putfd s k f).
Proof. intros. apply ST0_ST. apply ST0_putfd. assumption. Qed.

Lemma fd_register_try_st : forall s k, ST true k s (res_state (fst (fd_register_try s k))).
Proof.
  intros s k. unfold fd_register_try, getfd.
  set (s1 := register_prologue s k).
  set (s2 := putfd s1 k (recompute_wanted (fdt s1 k))).
  set (orig := wanted (fdt s2 k)).
  set (s3 := if orig =? 0 then putfd s2 k (fd_with_wanted (fdt s2 k) (M_IN + M_OUT)) else s2).
  assert (S3 : ST true k s s3).
  { eapply ST_trans; [apply prologue_st|]. eapply ST_trans; [apply ST_putfd_k; apply rsame_recompute|].
    unfold s3. destruct (orig =? 0); [apply ST_putfd_k; apply rsame_wanted|apply ST_refl]. }
  assert (TAIL1 : forall s4, ST true k s4 (res_state (
            let s5 := putfd s4 k (fd_with_registered (fdt s4 k) false) in
            if is_epoll s5 then epoll_unregister_fd s5 k else R s5))).
  { intros s4. cbv zeta. set (s5 := putfd s4 k (fd_with_registered (fdt s4 k) false)).
    assert (S5 : ST true k s4 s5) by (apply ST_putfd; [reflexivity|discriminate]).
    destruct (is_epoll s5); [|exact S5]. eapply ST_trans; [exact S5|apply ST0_ST; apply epoll_unregister_st0]. }
  assert (TAIL2 : forall s4, ST true k s4 (res_state (
            bind (if orig =? 0 then m_notify_fd (putfd s4 k (fd_with_wanted (fdt s4 k) 0)) k else R s4)
                 (fun s => R (register_epilogue s))))).
  { intros s4. apply ST_bind.
    - destruct (orig =? 0); [|apply ST_refl]. eapply ST_trans; [apply ST_putfd_k; apply rsame_wanted|].
      apply ST0_ST. apply m_notify_st0.
    - intros s5. apply ST0_ST. apply epilogue_st0. }
  destruct (is_epoll s3).
  - pose proof (flush_one__st0 s3 k) as F. destruct (epoll_flush_one_ s3 k) as [s4 fl]. cbn [fst] in F.
    destruct fl; cbn [fst bind]; (eapply ST_trans; [exact S3|]); (eapply ST_trans; [apply ST0_ST; exact F|]);
      [apply TAIL1|apply TAIL2].
  - pose proof (poll_notify_sync_st0 s3 k) as F. destruct (poll_notify_fd_sync s3 k) as [r fl]. cbn [fst] in F.
    destruct fl; cbn [fst]; (eapply ST_trans; [exact S3|]); (apply ST_bind; [apply ST0_ST; exact F|]);
      [apply TAIL1|apply TAIL2].
Qed.

Lemma fd_unregister_st : forall s k, ST false k s (res_state (fd_unregister s k)).
Proof.
  intros s k. unfold fd_unregister, getfd.
  set (s1 := putfd s k (fd_with_registered (fdt s k) false)).
  set (s2 := set_active s1 (remove_z k (active s1))).
  assert (S2 : ST false k s s2).
  { assert (S1 : ST false k s s1) by (apply ST_putfd; reflexivity).
    eapply ST_trans; [exact S1|]. unfold s2.
    constructor; sp; [intros; apply rsame_refl|split; reflexivity|right; reflexivity|left; reflexivity
                     |apply TrExt_same; reflexivity|auto]. }
  eapply ST_trans; [exact S2|].
  apply ST_bind; [apply ST0_ST; apply notify_fd_st0|]. intros s3.
  apply ST_bind; [destruct (is_epoll s3); [apply ST0_ST; apply epoll_unregister_st0|apply ST_refl]|]. intros s4.
  cbn [res_state].
  set (s5 := set_numfds (set_numobjs s4 (numobjs s4 - 1)) (numfds s4 - 1)).
  assert (S5 : ST false k s4 s5) by (apply ST0_ST; unfold s5; st0_basic).
  eapply ST_trans; [exact S5|].
  destruct (handled s5) as [h|] eqn:H; [|apply ST_refl].
  destruct (Z.eqb_spec h k) as [->|N]; [|apply ST_refl].
  constructor; sp; [intros; apply rsame_refl|split; reflexivity|left; reflexivity|right; split; [exact H|reflexivity]
                   |apply TrExt_same; reflexivity|auto].
Qed.

Lemma fd_set_handler_st : forall s k band h, ST false k s (res_state (fd_set_handler s k band h)).
Proof.
  intros s k band h. unfold fd_set_handler, getfd.
  set (f' := if band =? 0 then fd_with_handlers (fdt s k) h (h_out (fdt s k)) (h_err (fdt s k))
             else if band =? 1 then fd_with_handlers (fdt s k) (h_in (fdt s k)) h (h_err (fdt s k))
             else fd_with_handlers (fdt s k) (h_in (fdt s k)) (h_out (fdt s k)) h).
  assert (S1 : ST false k s (putfd s k f')).
  { apply ST_putfd; unfold f'; destruct (band =? 0); try reflexivity; destruct (band =? 1); reflexivity. }
  destruct (registered (fdt s k)); cbn [res_state]; [|exact S1].
  eapply ST_trans; [exact S1|apply ST0_ST; apply notify_fd_st0].
Qed.

(* ---------- time, timers, tasks ---------- *)
Lemma validate_st0 : forall s, ST0 s (validate_now s).
Proof. intros s. unfold validate_now. destruct (time_valid s); [apply ST0_refl|st0_basic]. Qed.
Lemma invalidate_st0 : forall s, ST0 s (invalidate_now s).
Proof. intros s. unfold invalidate_now. st0_basic. Qed.
Lemma to_relative_st0 : forall s abs, ST0 s (fst (to_relative s abs)).
Proof. intros s abs. unfold to_relative. destruct abs; cbn [fst]; [apply validate_st0|apply ST0_refl]. Qed.
Lemma to_msec_st0 : forall s abs, ST0 s (fst (to_msec s abs)).
Proof.
  intros s abs. unfold to_msec. pose proof (to_relative_st0 s abs) as H.
  destruct (to_relative s abs) as [s1 [r|]]; exact H.
Qed.
Lemma lift_heap_st0 : forall s o, ST0 s (res_state (lift_heap s o)).
Proof. intros s o. unfold lift_heap. destruct o; [cbn [res_state]; st0_basic|apply ST0_halt; exact I|apply ST0_halt; exact I]. Qed.
Lemma task_register_st0 : forall s k, ST0 s (task_register s k).
Proof.
  intros s k. unfold task_register. set (s1 := set_numobjs s (numobjs s + 1)).
  assert (S1 : ST0 s s1) by (unfold s1; st0_basic).
  destruct (cur s1); [destruct (tepoch s1 k =? epoch s1)|]; (eapply ST0_trans; [exact S1|st0_basic]).
Qed.
Lemma task_unregister_st0 : forall s k, ST0 s (task_unregister s k).
Proof. intros s k. unfold task_unregister. st0_basic. Qed.

(* ---------- raw events, events ---------- *)
Lemma do_close_st0 : forall s fd, ST0 s (do_close s fd).
Proof.
  intros s fd. unfold do_close. pose proof (fun K => KX_close (kern s) fd K) as K1.
  destruct (k_close (kern s) fd) as [k1 ok]. cbn [fst] in K1.
  destruct ok; [|apply ST0_kern; assumption].
  eapply ST0_trans; [apply ST0_kern; eassumption|apply ST0_emit; exact I].
Qed.

Lemma ST0_set_efd : forall s a b, ST0 s (set_efd s a b). Proof. intros. st0_basic. Qed.
Lemma ST0_set_rw : forall s a b c, ST0 s (set_rw s a b c). Proof. intros. st0_basic. Qed.
Lemma ST0_set_ev : forall s a b c, ST0 s (set_ev s a b c). Proof. intros. st0_basic. Qed.
Lemma ST0_set_evlists : forall s a b, ST0 s (set_evlists s a b). Proof. intros. st0_basic. Qed.
Lemma ST0_set_numobjs : forall s a, ST0 s (set_numobjs s a). Proof. intros. st0_basic. Qed.
Lemma ST0_set_activefd : forall s a b, ST0 s (set_activefd s a b). Proof. intros. st0_basic. Qed.
Lemma ST0_set_activewr : forall s a, ST0 s (set_activewr s a). Proof. intros. st0_basic. Qed.
Lemma ST0_set_epoll : forall s a b c, ST0 s (set_epoll s a b c). Proof. intros. st0_basic. Qed.
Lemma ST0_set_method : forall s a, ST0 s (set_method s a). Proof. intros. st0_basic. Qed.
Lemma ST0_set_last_abs : forall s a b, ST0 s (set_last_abs s a b). Proof. intros. st0_basic. Qed.
Lemma ST0_set_quit : forall s a, ST0 s (set_quit s a). Proof. intros. st0_basic. Qed.
Lemma ST0_set_tasks : forall s a b, ST0 s (set_tasks s a b). Proof. intros. st0_basic. Qed.
Lemma ST0_set_epoch : forall s a b, ST0 s (set_epoch s a b). Proof. intros. st0_basic. Qed.
Lemma ST0_set_heap : forall s a, ST0 s (set_heap s a). Proof. intros. st0_basic. Qed.
Lemma ST0_set_invoc : forall s a, ST0 s (set_invoc s a). Proof. intros. st0_basic. Qed.

Definition rr_tail (s : core) (j : Z) (got : option (Z * Z)) : res * bool :=
  match got with
  | None => (R s, true)
  | Some (rfd, wfd) =>
      let key := RAW_KEY j in
      let f := fd_with_handlers (fd_fresh rfd (1000 + j)) (Some (H_RAW j)) None None in
      let s := putfd s key f in
      (bind (fd_register s key) (fun s =>
         R (set_rw s (upd (rw_reg s) j true) (upd (rw_rfd s) j rfd) (upd (rw_wfd s) j wfd))), false)
  end.

Definition rr_stage2 (s : core) (j : Z) (got : option (Z * Z)) : res * bool :=
  let '(s, got, failed) :=
    match got with
    | Some p => (s, Some p, false)
    | None =>
        if efd_raw s =? 0 then
          match k_pipe (kern s) with
          | (k1, Some (r, w)) => (set_kern s k1, Some (r, w), false)
          | (k1, None) => (set_kern s k1, None, true)
          end
        else (s, None, true)
    end in
  rr_tail s j got.

Lemma raw_register_unfold2 : forall s j,
  raw_register s j =
  let '(s, got, failed) :=
    if negb (efd_raw s =? 0) then
      match eventfd_grab (kern s) (efd_raw s) with
      | (k1, inl fd, u) => (set_efd (set_kern s k1) (efd_epoll s) u, Some (fd, fd), false)
      | (k1, inr e, u) => (set_efd (set_kern s k1) (efd_epoll s) u, None, negb (is_enosys e))
      end
    else (s, None, false) in
  if failed then (R s, true) else rr_stage2 s j got.
Proof. reflexivity. Qed.

Lemma rr_tail_st : forall s j got, 0 <= j -> ST true (RAW_KEY j) s (res_state (fst (rr_tail s j got))).
Proof.
  intros s j got J. unfold rr_tail. destruct got as [[rfd wfd]|]; cbn [fst res_state]; [|apply ST_refl].
  cbv zeta. set (f := fd_with_handlers _ _ _ _).
  assert (S1 : ST true (RAW_KEY j) s (putfd s (RAW_KEY j) f)).
  { apply ST_putfd_gen; unfold RAW_KEY; [intros; lia|discriminate]. }
  eapply ST_trans; [exact S1|].
  apply ST_bind; [apply fd_register_st|]. intros s3. apply ST0_ST. apply ST0_set_rw.
Qed.

Lemma rr_stage2_st : forall s j got, 0 <= j -> ST true (RAW_KEY j) s (res_state (fst (rr_stage2 s j got))).
Proof.
  intros s j got J. unfold rr_stage2. destruct got as [p|]; [apply rr_tail_st; assumption|].
  destruct (efd_raw s =? 0); [|apply rr_tail_st; assumption].
  pose proof (fun K => KX_pipe (kern s) K) as G.
  destruct (k_pipe (kern s)) as [k1 [[r w]|]]; cbn [fst] in G;
    (eapply ST_trans; [apply ST0_ST; apply ST0_kern; eassumption|apply rr_tail_st; assumption]).
Qed.

Lemma raw_register_st : forall s j, 0 <= j -> ST true (RAW_KEY j) s (res_state (fst (raw_register s j))).
Proof.
  intros s j J. rewrite raw_register_unfold2.
  destruct (negb (efd_raw s =? 0)); [|apply rr_stage2_st; assumption].
  pose proof (fun K => KX_grab (kern s) (efd_raw s) K) as G.
  destruct (eventfd_grab (kern s) (efd_raw s)) as [[k1 [fd|e]] u]; cbn [fst] in G.
  - eapply ST_trans; [apply ST0_ST; eapply ST0_trans; [apply ST0_kern; eassumption|apply ST0_set_efd]|].
    apply rr_stage2_st; assumption.
  - assert (A : ST0 s (set_efd (set_kern s k1) (efd_epoll s) u))
      by (eapply ST0_trans; [apply ST0_kern; eassumption|apply ST0_set_efd]).
    destruct (negb (is_enosys e)); cbn [fst res_state]; [apply ST0_ST; exact A|].
    eapply ST_trans; [apply ST0_ST; exact A|apply rr_stage2_st; assumption].
Qed.

Lemma raw_unregister_st : forall s j, ST false (RAW_KEY j) s (res_state (raw_unregister s j)).
Proof.
  intros s j. unfold raw_unregister. apply ST_bind; [apply fd_unregister_st|]. intros s1. cbn [res_state].
  apply ST0_ST. set (s2 := do_close s1 (rw_rfd s1 j)).
  assert (S2 : ST0 s1 s2) by apply do_close_st0.
  set (s3 := if raw_is_pipe s2 j then do_close s2 (rw_wfd s2 j) else s2).
  assert (S3 : ST0 s2 s3) by (unfold s3; destruct (raw_is_pipe s2 j); [apply do_close_st0|apply ST0_refl]).
  eapply ST0_trans; [exact S2|]. eapply ST0_trans; [exact S3|apply ST0_set_rw].
Qed.

Lemma raw_post_st0 : forall s j, ST0 s (raw_post s j).
Proof.
  intros s j. unfold raw_post. destruct (raw_is_pipe s j).
  - pose proof (fun K => KX_write (kern s) (rw_wfd s j) 1 0 K) as G.
    destruct (k_write (kern s) (rw_wfd s j) 1 0) as [k1 x]. apply ST0_kern. exact G.
  - pose proof (fun K => KX_write (kern s) (rw_wfd s j) 8 1 K) as G.
    destruct (k_write (kern s) (rw_wfd s j) 8 1) as [k1 x]. apply ST0_kern. exact G.
Qed.

Lemma event_rx_on_st0 : forall s, ST0 s (res_state (fst (event_rx_on s))).
Proof.
  intros s. unfold event_rx_on.
  match goal with |- context [match ?X with R _ => _ | Halt _ => _ end] => set (r := X) end.
  assert (A : ST0 s (res_state r)).
  { unfold r. destruct (active_ref s =? 0); [|apply ST0_refl].
    pose proof (fun K => KX_grab (kern s) (efd_epoll s) K) as G.
    destruct (eventfd_grab (kern s) (efd_epoll s)) as [[k1 [fd|e]] u]; cbn [fst] in G.
    - pose proof (fun K => KX_write k1 fd 8 1 K) as W. destruct (k_write k1 fd 8 1) as [k2 x]. cbn [fst res_state] in *.
      eapply ST0_trans; [apply ST0_kern; intros K; exact (W (G K))|].
      eapply ST0_trans; [apply ST0_set_efd|apply ST0_set_activefd].
    - set (s1 := set_efd (set_kern s k1) u (efd_raw s)).
      assert (S1 : ST0 s s1) by (eapply ST0_trans; [apply ST0_kern; eassumption|apply ST0_set_efd]).
      pose proof (fun K => KX_pipe (kern s1) K) as P.
      destruct (k_pipe (kern s1)) as [k2 [[r0 w]|]]; cbn [fst] in P.
      + pose proof (fun K => KX_write k2 w 1 0 K) as W. destruct (k_write k2 w 1 0) as [k3 wr]. cbn [fst] in W.
        assert (S3 : ST0 s (set_kern s1 k3)) by (eapply ST0_trans; [exact S1|apply ST0_kern; intros K; exact (W (P K))]).
        destruct wr; cbn [res_state].
        * eapply ST0_trans; [exact S3|]. eapply ST0_trans; [apply ST0_set_activefd|apply ST0_set_activewr].
        * eapply ST0_trans; [exact S3|apply ST0_emit; exact I].
      + cbn [res_state]. eapply ST0_trans; [exact S1|]. eapply ST0_trans; [apply ST0_kern; eassumption|apply ST0_emit; exact I]. }
  destruct r as [s1|s1]; cbn [fst res_state] in *; [|exact A].
  set (s2 := set_activefd s1 (active_fd s1) (active_ref s1 + 1)).
  pose proof (ctl_retry_st0 s2 CTL_ADD (active_fd s2) 0 (-1) eq_refl) as C.
  destruct (ctl_retry s2 CTL_ADD (active_fd s2) 0 (-1)) as [s3 e]. cbn [fst] in C.
  assert (S3 : ST0 s s3) by (eapply ST0_trans; [exact A|]; eapply ST0_trans; [apply ST0_set_activefd|exact C]).
  destruct e; cbn [fst res_state]; [exact S3|]. eapply ST0_trans; [exact S3|apply ST0_set_numobjs].
Qed.

Lemma event_rx_off_st0 : forall s, ST0 s (res_state (event_rx_off s)).
Proof.
  intros s. unfold event_rx_off.
  pose proof (ctl_retry_st0 s CTL_DEL (active_fd s) 0 (-1) eq_refl) as C.
  destruct (ctl_retry s CTL_DEL (active_fd s) 0 (-1)) as [s1 e]. cbn [fst] in C.
  destruct e; [eapply ST0_trans; [exact C|apply ST0_halt; exact I]|]. cbn [res_state].
  set (s2 := set_activefd s1 (active_fd s1) (active_ref s1 - 1)).
  assert (S2 : ST0 s s2) by (eapply ST0_trans; [exact C|apply ST0_set_activefd]).
  match goal with |- ST0 s (set_numobjs ?X _) => assert (S3 : ST0 s2 X) end.
  { destruct (active_ref s2 =? 0); [|apply ST0_refl].
    set (s4 := do_close s2 (active_fd s2)). assert (S4 : ST0 s2 s4) by apply do_close_st0.
    destruct (active_wr s4 =? -1); [exact S4|].
    eapply ST0_trans; [exact S4|]. eapply ST0_trans; [apply do_close_st0|apply ST0_set_activewr]. }
  eapply ST0_trans; [exact S2|]. eapply ST0_trans; [exact S3|apply ST0_set_numobjs].
Qed.

Lemma event_post_st0 : forall s j, ST0 s (event_post s j).
Proof.
  intros s j. unfold event_post. destruct (ev_on_list s j); [apply ST0_refl|].
  set (s1 := set_evlists s (ev_pending s ++ [j]) (ev_batch s)).
  assert (S1 : ST0 s s1) by apply ST0_set_evlists.
  destruct (_ && _); [|exact S1]. eapply ST0_trans; [exact S1|apply task_register_st0].
Qed.

Definition ev_fin (j : Z) (x : res * bool) : res * bool :=
  let '(r, failed) := x in
  if failed then (r, true)
  else (bind r (fun s => R (set_ev s (ev_count s) (upd (ev_reg s) j true) (use_raw s))), false).
Definition ev_cont (r : res) : res * bool :=
  match r with
  | Halt s1 => (Halt s1, false)
  | R s1 =>
      if use_raw s1 then
        match raw_register s1 KICK_RAW with
        | (R s2, true) =>
            (R (set_numobjs (set_ev s2 (ev_count s2 - 1) (ev_reg s2) (use_raw s2)) (numobjs s2 - 1)), true)
        | (r2, fl) => (r2, fl)
        end
      else (R s1, false)
  end.
Definition ev_first (s : core) : res * bool :=
  if negb (use_raw s) then
    if is_epoll s then
      match event_rx_on s with
      | (R s1, true) => (R (set_ev s1 (ev_count s1) (ev_reg s1) true), true)
      | (R s1, false) => (R s1, false)
      | (Halt s1, _) => (Halt s1, false)
      end
    else (R (set_ev s (ev_count s) (ev_reg s) true), true)
  else (R s, true).

Lemma event_register_unfold2 : forall s j,
  event_register s j =
  let s1 := set_numobjs s (numobjs s + 1) in
  let s2 := set_ev s1 (ev_count s1 + 1) (ev_reg s1) (use_raw s1) in
  ev_fin j (if ev_count s1 =? 0 then (let '(r, s_use) := ev_first s2 in ev_cont r) else (R s2, false)).
Proof. reflexivity. Qed.

Lemma ev_fin_st : forall j x s0, ST true 32 s0 (res_state (fst x)) -> ST true 32 s0 (res_state (fst (ev_fin j x))).
Proof.
  intros j [r failed] s0 H. unfold ev_fin. cbn [fst] in *. destruct failed; cbn [fst]; [exact H|].
  apply ST_bind; [exact H|]. intros s1. apply ST0_ST. apply ST0_set_ev.
Qed.

Lemma ev_cont_st : forall r s0, ST true 32 s0 (res_state r) -> ST true 32 s0 (res_state (fst (ev_cont r))).
Proof.
  intros r s0 H. unfold ev_cont. destruct r as [s1|s1]; cbn [fst res_state] in *; [|exact H].
  destruct (use_raw s1); [|exact H].
  pose proof (raw_register_st s1 KICK_RAW ltac:(unfold KICK_RAW; lia)) as RR.
  change (RAW_KEY KICK_RAW) with 32 in RR.
  destruct (raw_register s1 KICK_RAW) as [[s2|s2] [|]]; cbn [fst res_state] in *;
    (eapply ST_trans; [exact H|]); try exact RR.
  eapply ST_trans; [exact RR|]. apply ST0_ST. eapply ST0_trans; [apply ST0_set_ev|apply ST0_set_numobjs].
Qed.

Lemma ev_first_st0 : forall s, ST0 s (res_state (fst (ev_first s))).
Proof.
  intros s. unfold ev_first. destruct (negb (use_raw s)); [|apply ST0_refl].
  destruct (is_epoll s); [|apply ST0_set_ev].
  pose proof (event_rx_on_st0 s) as H. destruct (event_rx_on s) as [[s1|s1] [|]]; cbn [fst res_state] in *; try exact H.
  eapply ST0_trans; [exact H|apply ST0_set_ev].
Qed.

Lemma event_register_st : forall s j, ST true 32 s (res_state (fst (event_register s j))).
Proof.
  intros s j. rewrite event_register_unfold2. cbv zeta.
  set (s1 := set_numobjs s (numobjs s + 1)).
  set (s2 := set_ev s1 (ev_count s1 + 1) (ev_reg s1) (use_raw s1)).
  assert (S2 : ST true 32 s s2) by (apply ST0_ST; eapply ST0_trans; [apply ST0_set_numobjs|apply ST0_set_ev]).
  apply ev_fin_st. destruct (ev_count s1 =? 0); [|exact S2].
  pose proof (ev_first_st0 s2) as F. destruct (ev_first s2) as [r su]. cbn [fst] in F.
  apply ev_cont_st. eapply ST_trans; [exact S2|apply ST0_ST; exact F].
Qed.

Lemma event_unregister_st : forall s j, ST false 32 s (res_state (event_unregister s j)).
Proof.
  intros s j. unfold event_unregister.
  set (s1 := set_evlists s _ _). set (s2 := set_ev s1 _ _ _).
  assert (S2 : ST false 32 s s2) by (apply ST0_ST; eapply ST0_trans; [apply ST0_set_evlists|apply ST0_set_ev]).
  eapply ST_trans; [exact S2|]. apply ST_bind.
  - destruct (ev_count s2 =? 0); [|apply ST_refl].
    destruct (use_raw s2); [apply (raw_unregister_st s2 KICK_RAW)|apply ST0_ST; apply event_rx_off_st0].
  - intros s3. apply ST0_ST. apply ST0_set_numobjs.
Qed.

(* ---------- the kernel timer ---------- *)
Lemma tfd_settime_st0 : forall s d, ST0 s (tfd_settime s d).
Proof.
  intros s d. unfold tfd_settime. eapply ST0_trans; [apply ST0_kern; intros K; apply KX_settime; exact K|].
  apply ST0_emit. exact I.
Qed.

Lemma set_poll_timeout_st0 : forall s a, ST0 s (res_state (fst (set_poll_timeout s a))).
Proof.
  intros s a. unfold set_poll_timeout.
  destruct (tfd s =? -1); [|cbn [fst res_state]; apply tfd_settime_st0].
  pose proof (fun K => KX_timerfd_create (kern s) K) as G.
  destruct (k_timerfd_create (kern s)) as [k1 [fd|e]]; cbn [fst] in G.
  - set (s1 := set_epoll (set_kern s k1) (epfd s) fd (pwait2 s)).
    assert (S1 : ST0 s s1) by (eapply ST0_trans; [apply ST0_kern; eassumption|apply ST0_set_epoll]).
    pose proof (ctl_retry_st0 s1 CTL_ADD fd B_IN (-2) eq_refl) as C.
    destruct (ctl_retry s1 CTL_ADD fd B_IN (-2)) as [s2 e]. cbn [fst] in C.
    destruct e; cbn [fst res_state].
    + eapply ST0_trans; [exact S1|]. eapply ST0_trans; [exact C|apply ST0_emit; exact I].
    + eapply ST0_trans; [exact S1|]. eapply ST0_trans; [exact C|apply tfd_settime_st0].
  - cbn [fst res_state]. eapply ST0_trans; [apply ST0_kern; eassumption|apply ST0_set_method].
Qed.

Lemma timeout_check_st0 : forall s abs, ST0 s (res_state (fst (timeout_check s abs))).
Proof.
  intros s abs. unfold timeout_check.
  destruct ((last_abs_count s =? 5) && (0 <=? abs_cmp abs (last_abs s))); [apply ST0_refl|].
  set (s1 := if last_abs_count s =? 5 then tfd_settime s 0 else s).
  assert (S1 : ST0 s s1) by (unfold s1; destruct (last_abs_count s =? 5); [apply tfd_settime_st0|apply ST0_refl]).
  destruct (abs_cmp abs (last_abs s) =? 0).
  - set (s2 := if last_abs_count s1 <? 5 then set_last_abs s1 (last_abs s1) (last_abs_count s1 + 1) else s1).
    assert (S2 : ST0 s s2).
    { eapply ST0_trans; [exact S1|]. unfold s2. destruct (last_abs_count s1 <? 5); [apply ST0_set_last_abs|apply ST0_refl]. }
    destruct (last_abs_count s2 =? 5); [|exact S2].
    destruct abs as [a|]; [|exact S2]. eapply ST0_trans; [exact S2|apply set_poll_timeout_st0].
  - destruct abs as [a|]; cbn [fst res_state]; (eapply ST0_trans; [exact S1|apply ST0_set_last_abs]).
Qed.

(* ---------- actions ---------- *)
Definition UF (s : core) : Prop := forall k, 0 <= k < 16 -> fdnum (fdt s k) = 100 + k.

Definition ak (a : action) : Z :=
  match a with
  | AFdReg i | AFdTry i | AFdUnreg i | AFdSetH i _ _ | AFdFresh i => i
  | ARwReg j | ARwUnreg j => RAW_KEY j
  | AEvReg _ | AEvUnreg _ => 32
  | _ => -1
  end.
Definition aw (a : action) : bool :=
  match a with AFdReg _ | AFdTry _ | AFdFresh _ | ARwReg _ | AEvReg _ => true | _ => false end.

Record Log (a : action) (s s0 : core) : Prop := {
  lg_tr : exists a', trace s0 = TAct a' :: trace s /\
          (forall m, tv (mon_action m a') = (w_gnd m, called m, expect_after a (expect m)));
  lg_fdt : fdt s0 = fdt s;
  lg_act : active s0 = active s;
  lg_hd : handled s0 = handled s;
  lg_kern : kern s0 = kern s }.

Lemma Log_emit : forall s a, Log a s (emit s (TAct a)).
Proof.
  intros s a. constructor; try reflexivity. exists a. split; [reflexivity|]. intros m. apply tv_action.
Qed.

Lemma trace_validate : forall s, trace (validate_now s) = trace s.
Proof. intros s. unfold validate_now. destruct (time_valid s); reflexivity. Qed.

Lemma ST0_res_emit : forall s r e, sil e -> ST0 s (res_state r) ->
  ST0 s (res_state (bind r (fun s1 => R (emit s1 e)))).
Proof. intros s r e S H. apply ST0_bind; [exact H|]. intros s1. apply ST0_emit. exact S. Qed.

Lemma ST_res_emit : forall w k s r e, sil e -> ST w k s (res_state r) ->
  ST w k s (res_state (bind r (fun s1 => R (emit s1 e)))).
Proof. intros w k s r e S H. apply ST_bind; [exact H|]. intros s1. apply ST0_ST. apply ST0_emit. exact S. Qed.

Definition guardf (a : action) (s : core) : Prop :=
  match a with
  | AFdReg i | AFdTry i | AFdFresh i => registered (fdt s i) = false
  | ARwReg j => rw_reg s j = false
  | AEvReg _ => ev_count s = 0
  | _ => True
  end.

Definition seth (f : fdo) (band : Z) (h : option Z) : fdo :=
  if band =? 0 then fd_with_handlers f h (h_out f) (h_err f)
  else if band =? 1 then fd_with_handlers f (h_in f) h (h_err f)
  else fd_with_handlers f (h_in f) (h_out f) h.

Lemma fd_set_handler_st0 : forall s k band h,
  ST0 (putfd s k (seth (fdt s k) band h)) (res_state (fd_set_handler s k band h)).
Proof.
  intros s k band h. unfold fd_set_handler, getfd. fold (seth (fdt s k) band h).
  destruct (registered (fdt s k)); cbn [res_state]; [apply notify_fd_st0|apply ST0_refl].
Qed.

Lemma event_register_st0 : forall s j, ev_count s <> 0 -> ST0 s (res_state (fst (event_register s j))).
Proof.
  intros s j N. rewrite event_register_unfold2. cbv zeta.
  change (ev_count (set_numobjs s (numobjs s + 1))) with (ev_count s).
  destruct (Z.eqb_spec (ev_count s) 0) as [E|_]; [contradiction|].
  unfold ev_fin. cbn [fst bind res_state].
  eapply ST0_trans; [apply ST0_set_numobjs|]. eapply ST0_trans; [apply ST0_set_ev|apply ST0_set_ev].
Qed.

Definition StepOf (a : action) (s s0 s' : core) : Prop :=
  Log a s s0 /\
  ((ST false (ak a) s0 s' /\ (aw a = true -> 16 <= ak a)) \/ (ST true (ak a) s0 s' /\ aw a = true /\ guardf a s)) /\
  (forall i band h, a = AFdSetH i band h -> ST0 (putfd s0 i (seth (fdt s0 i) band h)) s').

Lemma do_action_st : forall s a, wf_action a -> UF s ->
  res_state (do_action s a) = s \/ exists s0, StepOf a s s0 (res_state (do_action s a)).
Proof.
  intros s a W U.
  assert (EX0 : forall r, (forall i band h, a <> AFdSetH i band h) -> (aw a = true -> 16 <= ak a) ->
               ST false (ak a) (emit s (TAct a)) (res_state r) ->
               res_state r = s \/ exists s0, StepOf a s s0 (res_state r)).
  { intros r NS AW H. right. exists (emit s (TAct a)). split; [apply Log_emit|]. split; [left; split; assumption|].
    intros i band h E. exfalso. exact (NS _ _ _ E). }
  assert (EX1 : forall r, (forall i band h, a <> AFdSetH i band h) -> aw a = true -> guardf a s ->
               ST true (ak a) (emit s (TAct a)) (res_state r) ->
               res_state r = s \/ exists s0, StepOf a s s0 (res_state r)).
  { intros r NS AW G H. right. exists (emit s (TAct a)). split; [apply Log_emit|]. split; [right; split; [assumption|split; assumption]|].
    intros i band h E. exfalso. exact (NS _ _ _ E). }
  destruct a; cbn [do_action]; cbv zeta; cbn [wf_action] in W.
  - (* AFdReg *) destruct (registered (getfd s i)) eqn:RG; [left; reflexivity|].
    destruct (k_open (kern s) (fdnum (getfd s i))); [|left; reflexivity].
    apply EX1; [discriminate|reflexivity|exact RG|apply fd_register_st].
  - (* AFdTry *) destruct (registered (getfd s i)) eqn:RG; [left; reflexivity|].
    pose proof (fd_register_try_st (emit s (TAct (AFdTry i))) i) as H.
    destruct (fd_register_try (emit s (TAct (AFdTry i))) i) as [r failed]. cbn [fst] in H.
    apply EX1; [discriminate|reflexivity|exact RG|]. apply ST_res_emit; [exact I|exact H].
  - (* AFdUnreg *) destruct (registered (getfd s i)); [|left; reflexivity].
    apply EX0; [discriminate|discriminate|apply fd_unregister_st].
  - (* AFdSetH *) right. exists (emit s (TAct (AFdSetH i band h))). split; [apply Log_emit|].
    split; [left; split; [apply fd_set_handler_st|discriminate]|]. intros i0 b0 h0 E. inversion E; subst. apply fd_set_handler_st0.
  - (* AFdCookie *) apply EX0; [discriminate|discriminate|]. cbn [res_state]. apply ST0_ST. apply ST0_putfd. repeat split.
  - (* AFdFresh *) destruct (registered (getfd s i)) eqn:RG; [left; reflexivity|].
    apply EX1; [discriminate|reflexivity|exact RG|]. cbn [res_state aw ak].
    apply ST_putfd_gen; [|discriminate]. intros R. cbn [fdnum fd_fresh]. sp. symmetry. apply U. exact R.
  - (* AKSet *) apply EX0; [discriminate|discriminate|]. cbn [res_state]. apply ST0_ST. apply ST0_kern. sp. apply KX_set_cond.
  - (* AKClose *) destruct (registered (getfd s i)); [left; reflexivity|]. apply EX0; [discriminate|discriminate|]. cbn [res_state].
    apply ST0_ST. apply ST0_kern. sp. apply KX_user_close.
  - (* AKOpen *) apply EX0; [discriminate|discriminate|]. cbn [res_state]. apply ST0_ST. apply ST0_kern. sp. apply KX_user_fd.
  - (* ATmRegAbs *) destruct (timer_registered s j); [left; reflexivity|].
    apply EX0; [discriminate|discriminate|]. apply ST0_ST. apply lift_heap_st0.
  - (* ATmRegRel *) destruct (timer_registered s j); [left; reflexivity|]. right.
    exists (emit (validate_now s) (TAct (ATmRegAbs j (time (validate_now s) + d)))). split; [|split].
    + constructor.
      * eexists. split; [cbn [trace emit set_trace]; rewrite trace_validate; reflexivity|]. intros m. reflexivity.
      * unfold validate_now. destruct (time_valid s); reflexivity.
      * unfold validate_now. destruct (time_valid s); reflexivity.
      * unfold validate_now. destruct (time_valid s); reflexivity.
      * unfold validate_now. destruct (time_valid s); reflexivity.
    + left. split; [apply ST0_ST; apply lift_heap_st0|discriminate].
    + intros i b h E. discriminate E.
  - (* ATmUnreg *) destruct (timer_registered s j); [|left; reflexivity].
    apply EX0; [discriminate|discriminate|]. apply ST0_ST. apply lift_heap_st0.
  - (* ATmFresh *) destruct (timer_registered s j); [left; reflexivity|]. apply EX0; [discriminate|discriminate|]. apply ST_refl.
  - (* ATkReg *) destruct (task_registered s j); [left; reflexivity|].
    apply EX0; [discriminate|discriminate|]. apply ST0_ST. apply task_register_st0.
  - (* ATkUnreg *) destruct (task_registered s j); [|left; reflexivity].
    apply EX0; [discriminate|discriminate|]. apply ST0_ST. apply task_unregister_st0.
  - (* ATkFresh *) destruct (task_registered s j); [left; reflexivity|].
    apply EX0; [discriminate|discriminate|]. apply ST0_ST. apply ST0_set_epoch.
  - (* AEvReg *) destruct (ev_reg s j); [left; reflexivity|].
    destruct (Z.eq_dec (ev_count s) 0) as [E0|N0].
    + pose proof (event_register_st (emit s (TAct (AEvReg j))) j) as H.
      destruct (event_register (emit s (TAct (AEvReg j))) j) as [r failed]. cbn [fst] in H.
      apply EX1; [discriminate|reflexivity|exact E0|]. apply ST_res_emit; [exact I|exact H].
    + pose proof (event_register_st0 (emit s (TAct (AEvReg j))) j N0) as H.
      destruct (event_register (emit s (TAct (AEvReg j))) j) as [r failed]. cbn [fst] in H.
      apply EX0; [discriminate|intros _; cbn [ak]; lia|]. apply ST0_ST. apply ST0_res_emit; [exact I|exact H].
  - (* AEvUnreg *) destruct (ev_reg s j); [|left; reflexivity]. apply EX0; [discriminate|discriminate|]. apply event_unregister_st.
  - (* AEvPost *) destruct (ev_reg s j); [|left; reflexivity]. apply EX0; [discriminate|discriminate|]. apply ST0_ST. apply event_post_st0.
  - (* AEvFresh *) destruct (ev_reg s j); [left; reflexivity|]. apply EX0; [discriminate|discriminate|]. apply ST_refl.
  - (* ARwReg *) destruct (rw_reg s j) eqn:RG; [left; reflexivity|].
    pose proof (raw_register_st (emit s (TAct (ARwReg j))) j ltac:(unfold ok_idx in W; lia)) as H.
    destruct (raw_register (emit s (TAct (ARwReg j))) j) as [r failed]. cbn [fst] in H.
    apply EX1; [discriminate|reflexivity|exact RG|]. apply ST_res_emit; [exact I|exact H].
  - (* ARwUnreg *) destruct (rw_reg s j); [|left; reflexivity]. apply EX0; [discriminate|discriminate|]. apply raw_unregister_st.
  - (* ARwPost *) destruct (rw_reg s j); [|left; reflexivity]. apply EX0; [discriminate|discriminate|]. apply ST0_ST. apply raw_post_st0.
  - (* ARwFresh *) destruct (rw_reg s j); [left; reflexivity|]. apply EX0; [discriminate|discriminate|]. apply ST_refl.
  - (* AQuit *) apply EX0; [discriminate|discriminate|]. apply ST0_ST. apply ST0_set_quit.
  - (* AClockAdv *) apply EX0; [discriminate|discriminate|]. cbn [res_state]. apply ST0_ST. apply ST0_kern. sp. apply KX_set_clock.
  - (* AInvalidate *) apply EX0; [discriminate|discriminate|]. apply ST0_ST. apply invalidate_st0.
  - (* AValidate *) apply EX0; [discriminate|discriminate|]. apply ST0_ST. apply validate_st0.
Qed.
