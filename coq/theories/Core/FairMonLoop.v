(* FairMonLoop.v -- the invariant FP through handler scripts and the callback dispatchers, and iv_run_timers:
   after the run-timers phase no timer that was due at the last return is still owed a run. *)
From Coq Require Import List ZArith Bool Lia.
From Ivv Require Import Core.Kernel Core.CoreTypes Core.CoreFd Core.CoreModel Core.Monitors Core.FairMon Core.CoreSpec
  Core.CoreRel Core.CorePhase2AcctTr Core.CorePhase2AcctTr2 Core.CorePhase2TimeMon Core.CorePhase2TimeFr Core.CorePhase2TimeT1
  Core.CorePhase2TimeT1L Core.FairMonBase Core.FairMonAct.
From Ivv Require Timer.HeapModel Timer.HeapBase Timer.HeapFacts Timer.HeapCollect.
Import ListNotations.
Local Open Scope Z_scope.

Section Loop.
Variable sc : scenario.
Hypothesis WF : wf_scenario sc.
Variable clk : Z.
Variable B : bool.

Lemma run_script_FP : forall b s key, J b s -> FP clk B s -> FQ clk B (run_script sc s key).
Proof.
  intros b s key Jh F. unfold run_script.
  pose proof (wf_handlers sc WF key) as WH.
  destruct (sc_handlers sc key) as [|l0 ls] eqn:EH; [exact F|].
  set (lists := l0 :: ls) in *.
  set (k := if invoc s key <? Z.of_nat (length lists) then invoc s key else Z.of_nat (length lists) - 1).
  set (s1 := set_invoc s _).
  assert (J1 : J b s1) by (apply (J_irr b s s1 Jh); reflexivity).
  assert (F1 : FP clk B s1) by (apply (FP_same clk B s s1 F); reflexivity).
  apply (run_acts_FP b); [assumption|assumption|].
  destruct (nth_in_or_default (Z.to_nat k) lists []) as [H|H].
  - rewrite Forall_forall in WH. apply WH. assumption.
  - rewrite H. constructor.
Qed.

Lemma events_loop_FP : forall fuel s, J true s -> FP clk B s -> FQ clk B (events_loop sc fuel s).
Proof.
  induction fuel as [|fuel IH]; intros s Jh F; cbn [events_loop].
  - destruct (ev_batch s) as [|ie rest]; [exact F|exact I].
  - destruct (ev_batch s) as [|ie rest] eqn:EB; [exact F|].
    pose proof (J_call_event s ie rest Jh EB) as J1.
    set (s0 := set_evlists s (ev_pending s) rest) in *.
    assert (F0' : FP clk B s0) by (apply (FP_same clk B s s0 F); reflexivity).
    set (s1 := emit s0 (TCallEvent ie)) in *.
    assert (F1 : FP clk B s1) by (apply FP_emit; [exact F0'|exact I]).
    eapply (FQ_bind true); [apply run_script_post; [exact WF|exact J1]|apply (run_script_FP true); assumption|].
    intros s2 J2 F2. destruct rest; [exact F2|apply IH; assumption].
Qed.

Lemma run_pending_events_FP : forall s, J true s -> FP clk B s -> FQ clk B (run_pending_events sc s).
Proof.
  intros s Jh F. unfold run_pending_events.
  destruct (ev_pending s) as [|p0 pl] eqn:P; [exact F|].
  set (p := p0 :: pl) in *. set (s1 := set_evlists s [] p).
  destruct (J_SiEv _ _ Jh) as [S1 S2]. pose proof (J_AgEv _ _ Jh) as GE.
  assert (SUB : forall y, In y ([] ++ p) -> In y (ev_pending s ++ ev_batch s)).
  { intros y H. cbn [app] in H. rewrite P. apply in_or_app. left. exact H. }
  assert (J1 : J true s1).
  { apply (J_upd true s s1 Jh); try reflexivity; try (apply (j_good _ _ Jh));
      try (solve [left; repeat split; first [reflexivity | intros; apply fkeep_refl]]).
    - right. intros y Y. destruct (GE y Y) as [G1' G2]. split; [exact G1'|].
      intros H. apply G2. apply ev_on_list_In. apply SUB. apply ev_on_list_In in H. exact H.
    - right. split; cbn [s1 ev_pending ev_batch set_evlists ev_reg].
      + intros y H. apply S1. apply SUB. exact H.
      + cbn [app]. rewrite P in S2. apply NoDup_app_iff in S2. apply S2.
    - apply (FdI_keep s s1 (-1) (j_fd _ _ Jh)); reflexivity.
    - apply (FdX_keep s s1 (j_fx _ _ Jh)); try reflexivity; intros; repeat split. }
  assert (F1 : FP clk B s1) by (apply (FP_same clk B s s1 F); reflexivity).
  apply events_loop_FP; assumption.
Qed.

Lemma FP_set_kern : forall s k1, FP clk B s -> ksame (kern s) k1 -> FP clk B (set_kern s k1).
Proof. intros s k1 F K. apply (FP_F0 clk B s _ F). apply F0_set_kern. exact K. Qed.

Lemma raw_got_event_FP : forall s j, J true s -> FP clk B s -> (j = KICK_RAW \/ (inr16 j /\ rw_reg s j = true)) ->
  FQ clk B (raw_got_event sc s j).
Proof.
  intros s j Jh F JR. unfold raw_got_event.
  pose proof (ksame_read (kern s) (rw_rfd s j) (if raw_is_pipe s j then 1024 else 8)) as KS.
  destruct (k_read (kern s) (rw_rfd s j) (if raw_is_pipe s j then 1024 else 8)) as [k1 [n|e]]; cbn [Datatypes.fst] in KS.
  - pose proof (J_set_kern_plain true s k1 Jh KS) as J1.
    pose proof (FP_set_kern s k1 F KS) as F1.
    set (s1 := set_kern s k1) in *.
    destruct (n =? 0); [exact I|].
    destruct (Z.eqb_spec j KICK_RAW) as [EK|NK]; [apply run_pending_events_FP; assumption|].
    destruct JR as [JR|[JR1 JR2]]; [contradiction|].
    assert (J2 : J true (emit s1 (TCallRaw j))).
    { apply J_event_same; [exact J1|apply mview_TCallRaw|].
      apply good_TCallRaw; [apply (j_good _ _ J1)|apply (j_main _ _ J1)|].
      rewrite (J_AgRw _ _ J1 j JR1). exact JR2. }
    apply (run_script_FP true); [exact J2|apply FP_emit; [exact F1|exact I]].
  - pose proof (FP_set_kern s k1 F KS) as F1.
    destruct e; try exact I. exact F1.
Qed.

Lemma call_fd_FP : forall s k band h, J true s -> FP clk B s -> 0 <= k <= 32 -> registered (fdt s k) = true ->
  ((band = 0 /\ h = h_in (fdt s k)) \/ (band = 1 /\ h = h_out (fdt s k)) \/ (band = 2 /\ h = h_err (fdt s k))) ->
  FQ clk B (call_fd sc s k band h).
Proof.
  intros s k band h Jh F K RG HB. unfold call_fd.
  destruct h as [hid|]; [|exact F].
  pose proof (j_fx _ _ Jh) as FX.
  destruct (Z_lt_le_dec k 16) as [KU|KR].
  - assert (I16 : inr16 k) by (unfold inr16; lia).
    destruct (fx_userh _ FX k I16) as (U1 & U2 & U3).
    assert (HR : 0 <= hid < 16).
    { destruct HB as [[_ E]|[[_ E]|[_ E]]]; symmetry in E; [apply U1|apply U2|apply U3]; exact E. }
    destruct (Z.leb_spec 1000 hid) as [L|L]; [lia|].
    destruct (J_AgFd _ _ Jh k I16) as (A1 & A2 & A3 & A4 & A5).
    set (ev := TCallFd k band hid (cookie (getfd s k))).
    assert (J2 : J true (emit s ev)).
    { apply J_event_same; [exact Jh|apply mview_TCallFd|].
      apply good_TCallFd; [apply (j_good _ _ Jh)|apply (j_main _ _ Jh)|congruence| |exact A5].
      destruct HB as [[-> E]|[[-> E]|[-> E]]]; congruence. }
    apply (run_script_FP true); [exact J2|apply FP_emit; [exact F|exact I]].
  - destruct (fx_rawh _ FX k ltac:(lia)) as (U1 & U2 & U3).
    assert (HR : hid = 1000 + (k - 16)).
    { destruct HB as [[_ E]|[[_ E]|[_ E]]]; symmetry in E; [apply U1|apply U2|apply U3]; exact E. }
    destruct (Z.leb_spec 1000 hid) as [L|L]; [|lia].
    apply raw_got_event_FP; [exact Jh|exact F|].
    replace (hid - 1000) with (k - 16) by lia.
    destruct (Z.eq_dec (k - 16) KICK_RAW) as [E|N]; [left; exact E|right].
    unfold KICK_RAW in N. split; [unfold inr16; lia|].
    apply (fx_raw _ FX (k - 16)); [lia|]. replace (16 + (k - 16)) with k by lia. exact RG.
Qed.

Lemma guarded_call_FP : forall s k band (c : bool), J true s -> FP clk B s -> 0 <= k <= 32 ->
  (handled s = Some k \/ handled s = None) -> (band = 0 \/ band = 1 \/ band = 2) ->
  let h := if band =? 0 then h_in (fdt s k) else if band =? 1 then h_out (fdt s k) else h_err (fdt s k) in
  FQ clk B (match handled s with
        | Some _ => if c then call_fd sc s k band h else R s
        | None => R s
        end).
Proof.
  intros s k band c Jh F K H BD h.
  destruct (handled s) as [k'|] eqn:HD; [|exact F].
  destruct c; [|exact F].
  destruct H as [H|H]; [|discriminate]. inversion H; subst k'.
  destruct (fi_handled s (-1) (j_fd _ _ Jh) k HD) as [_ RG]. specialize (RG ltac:(lia)).
  apply call_fd_FP; try assumption.
  unfold h. destruct BD as [->|[->| ->]]; cbn; auto.
Qed.

Lemma dispatch_active_FP : forall fuel s, J true s -> FP clk B s -> FQ clk B (dispatch_active sc fuel s).
Proof.
  induction fuel as [|fuel IH]; intros s Jh F; cbn [dispatch_active].
  - destruct (active s) as [|k rest]; [exact F|exact I].
  - destruct (active s) as [|k rest] eqn:A; [exact F|].
    destruct (J_pop_active s k rest Jh A) as [J1 K].
    set (s1 := set_handled (set_active s rest) (Some k)) in *.
    assert (F1 : FP clk B s1) by (apply (FP_same clk B s s1 F); reflexivity).
    assert (PA : Post true s1 (if has (ready (getfd s1 k)) M_ERR then call_fd sc s1 k 2 (h_err (getfd s1 k)) else R s1)).
    { pose proof (guarded_call sc WF s1 k 2 (has (ready (getfd s1 k)) M_ERR) J1 K (or_introl eq_refl) ltac:(auto)) as Q.
      cbv zeta in Q. change (handled s1) with (Some k) in Q. cbn in Q. exact Q. }
    assert (QA : FQ clk B (if has (ready (getfd s1 k)) M_ERR then call_fd sc s1 k 2 (h_err (getfd s1 k)) else R s1)).
    { pose proof (guarded_call_FP s1 k 2 (has (ready (getfd s1 k)) M_ERR) J1 F1 K (or_introl eq_refl) ltac:(auto)) as Q.
      cbv zeta in Q. change (handled s1) with (Some k) in Q. cbn in Q. exact Q. }
    destruct (if has (ready (getfd s1 k)) M_ERR then call_fd sc s1 k 2 (h_err (getfd s1 k)) else R s1) as [s2|s2];
      cbn [bind Post FQ] in *; [|exact I].
    destruct PA as [J2 F2].
    pose proof (guarded_call sc WF s2 k 0 (has (ready (getfd s2 k)) M_IN) J2 K (proj1 F2) ltac:(auto)) as PB.
    pose proof (guarded_call_FP s2 k 0 (has (ready (getfd s2 k)) M_IN) J2 QA K (proj1 F2) ltac:(auto)) as QB.
    cbv zeta in PB, QB. cbn [Z.eqb] in PB, QB.
    match type of PB with Post true s2 ?X => change X with
      (match handled s2 with
       | Some _ => if has (ready (getfd s2 k)) M_IN then call_fd sc s2 k 0 (h_in (getfd s2 k)) else R s2
       | None => R s2 end) in PB, QB end.
    destruct (match handled s2 with
       | Some _ => if has (ready (getfd s2 k)) M_IN then call_fd sc s2 k 0 (h_in (getfd s2 k)) else R s2
       | None => R s2 end) as [s3|s3]; cbn [bind Post FQ] in *; [|exact I].
    destruct PB as [J3 F3].
    pose proof (Fr_trans _ _ _ F2 F3) as F13.
    pose proof (guarded_call sc WF s3 k 1 (has (ready (getfd s3 k)) M_OUT) J3 K (proj1 F13) ltac:(auto)) as PC.
    pose proof (guarded_call_FP s3 k 1 (has (ready (getfd s3 k)) M_OUT) J3 QB K (proj1 F13) ltac:(auto)) as QC.
    cbv zeta in PC, QC. cbn [Z.eqb Pos.eqb] in PC, QC.
    match type of PC with Post true s3 ?X => change X with
      (match handled s3 with
       | Some _ => if has (ready (getfd s3 k)) M_OUT then call_fd sc s3 k 1 (h_out (getfd s3 k)) else R s3
       | None => R s3 end) in PC, QC end.
    destruct (match handled s3 with
       | Some _ => if has (ready (getfd s3 k)) M_OUT then call_fd sc s3 k 1 (h_out (getfd s3 k)) else R s3
       | None => R s3 end) as [s4|s4]; cbn [bind Post FQ] in *; [|exact I].
    destruct PC as [J4 F4].
    apply IH; assumption.
Qed.

End Loop.
