(* CorePhase2EiMon.v -- tracker lemmas for code 1501 (no descriptor callback in an iteration whose kernel
   wait was interrupted) and for the range 1500..1599 (property C15). *)
From Coq Require Import List ZArith Bool Lia.
From Ivv Require Import Core.Kernel Core.CoreTypes Core.CoreFd Core.CoreModel Core.Monitors
  Core.CoreRelBase Core.CorePhase2FdMon.
Import ListNotations.
Local Open Scope Z_scope.

(* all codes of 1500..1599 except 1502 (1502 is CoreRel's) *)
Definition okc15 (c : Z) : bool := negb (in_range 1500 1502 c) && negb (in_range 1503 1600 c).
Definition Good15 (m : mon) : Prop := forall c, In c (fails m) -> okc15 c = true.

Lemma Good15_fail : forall m c, Good15 m -> okc15 c = true -> Good15 (m_fail m c).
Proof.
  intros m c G K x H. unfold m_fail in H. cbn [fails] in H.
  destruct (mem_z c (fails m)); [apply G; assumption|].
  apply in_app_or in H. destruct H as [H|[H|[]]]; [apply G; assumption|subst; assumption].
Qed.
Lemma Good15_chk_ok : forall m b c, Good15 m -> okc15 c = true -> Good15 (chk m b c).
Proof. intros m b c G K. unfold chk. destruct b; [assumption|apply Good15_fail; assumption]. Qed.
Lemma Good15_chk_true : forall m b c, Good15 m -> b = true -> Good15 (chk m b c).
Proof. intros m b c G K. subst b. exact G. Qed.
Lemma Good15_same : forall m m', fails m' = fails m -> Good15 m -> Good15 m'.
Proof. intros m m' E G c H. rewrite E in H. apply G; assumption. Qed.

Ltac g15step :=
  match goal with
  | |- Good15 (chk _ _ ?c) => first [ apply Good15_chk_ok; [ | vm_compute; reflexivity ] | apply Good15_chk_true ]
  | |- Good15 (m_fail _ ?c) => apply Good15_fail; [ | vm_compute; reflexivity ]
  | |- Good15 (m_fds ?m _ _ _) => apply (Good15_same m); [reflexivity|]
  | |- Good15 (m_tms ?m _ _) => apply (Good15_same m); [reflexivity|]
  | |- Good15 (m_tks ?m _ _) => apply (Good15_same m); [reflexivity|]
  | |- Good15 (m_evs ?m _ _) => apply (Good15_same m); [reflexivity|]
  | |- Good15 (m_rws ?m _ _) => apply (Good15_same m); [reflexivity|]
  | |- Good15 (m_loop ?m _ _ _ _) => apply (Good15_same m); [reflexivity|]
  | |- Good15 (m_wait ?m _ _ _ _ _ _) => apply (Good15_same m); [reflexivity|]
  | |- Good15 (m_iter ?m _ _ _ _) => apply (Good15_same m); [reflexivity|]
  | |- Good15 (m_spin ?m _ _ _ _) => apply (Good15_same m); [reflexivity|]
  end.

Lemma Good15_on_call : forall m, Good15 m -> Good15 (on_call m).
Proof. intros m G. unfold on_call. cbv zeta. repeat g15step. exact G. Qed.

Lemma Good15_close : forall m, Good15 m -> Good15 (close_iteration m).
Proof. intros m G. unfold close_iteration. cbv zeta. repeat g15step. exact G. Qed.

(* the flag *)
Lemma ae_on_call : forall m, after_eintr (on_call m) = after_eintr m.
Proof. intros m. unfold on_call, chk. destruct (a_main m); reflexivity. Qed.

Lemma ae_action : forall m a, after_eintr (mon_action m a) = after_eintr m.
Proof. intros m a. destruct a; reflexivity. Qed.

(* events other than the boundaries of a kernel wait *)
Definition nr (e : tev) : Prop :=
  match e with TRet _ _ _ | TWait _ _ _ _ _ _ | TEnd _ _ => False | _ => True end.
(* events other than a descriptor callback *)
Definition nc (e : tev) : Prop :=
  match e with TCallFd _ _ _ _ => False | _ => True end.

Lemma ae_nr : forall m e, nr e -> after_eintr (mon_step m e) = after_eintr m.
Proof.
  intros m e S. destruct e; try destruct S; cbn [mon_step]; try reflexivity.
  - cbv zeta. rewrite <- (ae_on_call m). generalize (on_call m). intros m0. chks; reflexivity.
  - cbv zeta. rewrite <- (ae_on_call m). generalize (on_call m). intros m0. chks; reflexivity.
  - cbv zeta. rewrite <- (ae_on_call m). generalize (on_call m). intros m0. chks; reflexivity.
  - cbv zeta. rewrite <- (ae_on_call m). generalize (on_call m). intros m0. chks; reflexivity.
  - cbv zeta. rewrite <- (ae_on_call m). generalize (on_call m). intros m0. chks; reflexivity.
  - apply ae_action.
  - destruct (rc =? 0); [|reflexivity]. destruct (kind =? 0); [reflexivity|]. destruct (kind =? 1); reflexivity.
  - chks; reflexivity.
  - chks; reflexivity.
  - chks; reflexivity.
Qed.

Lemma ae_TRet_some : forall m n fds clk, after_eintr (mon_step m (TRet (Some n) fds clk)) = false.
Proof. intros. lazy beta iota delta [mon_step]. repeat lift_let2. reflexivity. Qed.

Lemma good15_TRet_some : forall m n fds clk, Good15 m -> Good15 (mon_step m (TRet (Some n) fds clk)).
Proof.
  intros m n fds clk G. lazy beta iota delta [mon_step]. repeat lift_let2.
  assert (G0 : Good15 m0) by (unfold m0; g15step; assumption).
  assert (G1 : Good15 m1) by (unfold m1; g15step; assumption).
  assert (G2 : Good15 m2) by (unfold m2; g15step; assumption).
  assert (G3 : Good15 m3) by (unfold m3; g15step; assumption).
  assert (G4 : Good15 m4) by (unfold m4; g15step; assumption).
  assert (G5 : Good15 m5) by (unfold m5; g15step; assumption).
  assert (G6 : Good15 m6).
  { unfold m6. destruct (slept && negb (a_stale m5)); [|assumption].
    destruct (min_expiry m5); [|assumption]. cbv zeta. repeat g15step; assumption. }
  assert (G7 : Good15 m7) by (unfold m7; g15step; assumption).
  unfold m10, m9, m8. clearbody m7. repeat g15step. assumption.
Qed.

(* no event except a descriptor callback can add a code of the range *)
Lemma good15_nc : forall m e, nc e -> Good15 m -> Good15 (mon_step m e).
Proof.
  intros m e S G. destruct e; try destruct S;
    lazymatch goal with |- Good15 (mon_step _ (TRet _ _ _)) => idtac | _ => cbn [mon_step]; try assumption end.
  - cbv zeta. pose proof (Good15_on_call m G) as GO. repeat g15step. exact GO.
  - cbv zeta. pose proof (Good15_on_call m G) as GO. repeat g15step. exact GO.
  - cbv zeta. pose proof (Good15_on_call m G) as GO. repeat g15step. exact GO.
  - cbv zeta. pose proof (Good15_on_call m G) as GO. repeat g15step. exact GO.
  - cbv zeta. pose proof (Good15_close m G) as GC. repeat g15step. exact GC.
  - destruct n; [apply good15_TRet_some; exact G|]. cbn [mon_step]. cbv zeta. repeat g15step. exact G.
  - apply (Good15_same m); [apply fails_action2|exact G].
  - destruct (rc =? 0); [|assumption]. destruct (kind =? 0); [assumption|]. destruct (kind =? 1); assumption.
  - cbv zeta. pose proof (Good15_close m G) as GC. repeat g15step. exact GC.
  - repeat g15step. assumption.
  - repeat g15step. assumption.
  - repeat g15step. assumption.
  - repeat g15step. assumption.
  - repeat g15step. assumption.
Qed.

(* a descriptor callback in an iteration whose wait was not interrupted *)
Lemma good15_TCallFd : forall m o b h ck, Good15 m -> after_eintr m = false -> Good15 (mon_step m (TCallFd o b h ck)).
Proof.
  intros m o b h ck G AE. cbn [mon_step]. cbv zeta.
  pose proof (Good15_on_call m G) as GO. pose proof (ae_on_call m) as TA.
  revert GO TA. generalize (on_call m). intros m0 GO TA.
  assert (A : forall x b1 c1 b2 c2 b3 c3 b4 c4 b5 c5,
            after_eintr (chk (chk (chk (chk (chk x b1 c1) b2 c2) b3 c3) b4 c4) b5 c5) = after_eintr x)
    by (intros; chks; reflexivity).
  repeat g15step; try exact GO.
  rewrite A, TA, AE. reflexivity.
Qed.

Definition Z15 (m : mon) : Prop := after_eintr m = false /\ Good15 m.

Lemma Z15_nr : forall m e, nr e -> Z15 m -> Z15 (mon_step m e).
Proof.
  intros m e S [A G]. split; [rewrite ae_nr by assumption; exact A|].
  destruct e; try (apply good15_nc; [exact I|exact G]). apply good15_TCallFd; assumption.
Qed.
