(* CoreInvActC.v -- iv_event_register / iv_event_unregister and do_action for the
   event-register / raw-event actions (do_action_ok_B). *)
From Coq Require Import List ZArith Bool Lia.
From Ivv Require Import Core.Kernel Core.CoreTypes Core.CoreFd Core.CoreModel Core.CoreSpec
  Core.CoreInvBase Core.CoreInvDefs Core.CoreInvFd Core.CoreInvPoll Core.CoreInvReg Core.CoreInvObj
  Core.CoreInvAct Core.CoreInvActR Core.CoreInvActB.
From Ivv Require Timer.HeapModel Timer.HeapSpec.
Import ListNotations.
Local Open Scope Z_scope.

Definition ev_s2 (s : core) : core :=
  set_ev (set_numobjs s (numobjs s + 1)) (ev_count s + 1) (ev_reg s) (use_raw s).
Definition ev_setreg (j : Z) (s : core) : res := R (set_ev s (ev_count s) (upd (ev_reg s) j true) (use_raw s)).
Definition ev_rollback (s : core) : core :=
  set_numobjs (set_ev s (ev_count s - 1) (ev_reg s) (use_raw s)) (numobjs s - 1).

Definition ev_kick_raw (j : Z) (s1 : core) : res * bool :=
  let '(r, failed) :=
    match raw_register s1 KICK_RAW with
    | (R s2, true) => (R (ev_rollback s2), true)
    | (r2, fl) => (r2, fl)
    end in
  if failed then (r, true) else (bind r (ev_setreg j), false).

Lemma evreg_notfirst : forall s j, ev_count s <> 0 -> event_register s j = (ev_setreg j (ev_s2 s), false).
Proof.
  intros s j H. unfold event_register, ev_s2. cbv zeta. sp. apply Z.eqb_neq in H. rewrite H. reflexivity.
Qed.

Lemma evreg_raw : forall s j, ev_count s = 0 -> use_raw s = true -> event_register s j = ev_kick_raw j (ev_s2 s).
Proof.
  intros s j H U. unfold event_register, ev_s2. cbv zeta. sp. rewrite H, U. reflexivity.
Qed.

Lemma evreg_poll : forall s j, ev_count s = 0 -> use_raw s = false -> is_epoll s = false ->
  event_register s j = ev_kick_raw j (set_ev (ev_s2 s) (ev_count (ev_s2 s)) (ev_reg (ev_s2 s)) true).
Proof.
  intros s j H U E. unfold event_register, ev_s2. cbv zeta. sp. rewrite H, U. cbn [Z.eqb negb].
  change (is_epoll (set_ev (set_numobjs s (numobjs s + 1)) (0 + 1) (ev_reg s) false)) with (is_epoll s).
  rewrite E. reflexivity.
Qed.

Lemma evreg_epoll : forall s j s3, ev_count s = 0 -> use_raw s = false -> is_epoll s = true ->
  event_rx_on (ev_s2 s) = (R s3, false) -> use_raw s3 = false ->
  event_register s j = (ev_setreg j s3, false).
Proof.
  intros s j s3 H U E RX U3. unfold event_register. cbv zeta. sp. rewrite H, U. cbn [Z.eqb negb].
  change (is_epoll (set_ev (set_numobjs s (numobjs s + 1)) (0 + 1) (ev_reg s) false)) with (is_epoll s).
  rewrite E. unfold ev_s2 in RX. rewrite H, U in RX. rewrite RX. rewrite U3. reflexivity.
Qed.

Lemma evreg_epoll_halt : forall s j s3 b, ev_count s = 0 -> use_raw s = false -> is_epoll s = true ->
  event_rx_on (ev_s2 s) = (Halt s3, b) -> event_register s j = (Halt s3, false).
Proof.
  intros s j s3 b H U E RX. unfold event_register. cbv zeta. sp. rewrite H, U. cbn [Z.eqb negb].
  change (is_epoll (set_ev (set_numobjs s (numobjs s + 1)) (0 + 1) (ev_reg s) false)) with (is_epoll s).
  rewrite E. unfold ev_s2 in RX. rewrite H, U in RX. rewrite RX. reflexivity.
Qed.

Lemma Fr_fields : forall s s', nwait (kern s') = nwait (kern s) -> heap s' = heap s -> ev_batch s' = ev_batch s ->
  active s' = active s -> epoch s' = epoch s -> tepoch s' = tepoch s -> cur s' = cur s -> handled s' = handled s ->
  Fr s s'.
Proof.
  intros s s' A B C D E F G H. constructor; rewrite ?A, ?B, ?C, ?D, ?E, ?H; try reflexivity; try lia; try tauto.
  - rewrite (tmeasure_same s s' G F E). lia.
  - intros Q. congruence.
Qed.

Lemma ev_s2_ok : forall s, InvW s -> InvE 0 (ev_s2 s) /\ Fr s (ev_s2 s).
Proof.
  intros s I. split.
  - apply (InvE_fdcs 0 0 s (ev_s2 s)); try reflexivity; [constructor; reflexivity| |apply InvW_InvE; assumption].
    apply (AcctD_change 0 0 s); try reflexivity; [apply Acct_AcctD; apply (iw_acct _ I)|]. unfold ev_s2. sp. lia.
  - apply Fr_fields; reflexivity.
Qed.

(* the last step: the event is marked registered *)
Lemma ev_setreg_ok : forall s0 sX j, InvW s0 -> 0 <= j < 16 -> ev_reg s0 j = false ->
  InvE 0 sX -> Fr s0 sX -> ev_pending sX = ev_pending s0 -> ev_batch sX = ev_batch s0 -> ev_reg sX = ev_reg s0 ->
  ev_count sX = ev_count s0 + 1 -> method sX = method s0 ->
  (rw_reg sX 16 = true <-> (use_raw sX = true /\ 1 <= ev_count sX)) ->
  (active_ref sX = 1 <-> (use_raw sX = false /\ 1 <= ev_count sX)) ->
  (is_epoll sX = false -> active_ref sX = 0) ->
  StepW s0 (set_ev sX (ev_count sX) (upd (ev_reg sX) j true) (use_raw sX)).
Proof.
  intros s0 sX j I J RF IX FX EP EB ER EC EM KK KR KP.
  set (sF := set_ev sX (ev_count sX) (upd (ev_reg sX) j true) (use_raw sX)).
  pose proof (iw_ev _ I) as [V1 V2 V3 V4 V5 V6 V7].
  split.
  - apply InvE_InvW.
    + apply (InvE_fdcs 0 0 sX sF); try reflexivity; [constructor; reflexivity| |assumption].
      apply (AcctD_change 0 0 sX); try reflexivity. apply (ie_acct _ _ IX).
    + constructor; subst sF; sp; rewrite ?EP, ?EB, ?ER; try assumption.
      * intros x. unfold upd. destruct (Z.eqb_spec x j) as [->|N]; [intros; assumption|apply V1].
      * intros x Hx. unfold upd. destruct (Z.eqb_spec x j); [reflexivity|apply V2; assumption].
      * rewrite EC, V4. symmetry. apply cnt_upd_true; assumption.
  - eapply Fr_trans; [exact FX|]. apply Fr_fields; reflexivity.
Qed.

(* the kick raw event is registered for the first event (poll methods / eventfd kick unavailable) *)
Lemma ev_kick_raw_ok : forall s0 s1 j, InvW s0 -> 0 <= j < 16 -> ev_reg s0 j = false -> ev_count s0 = 0 ->
  InvE 0 s1 -> Fr s0 s1 -> ev_pending s1 = ev_pending s0 -> ev_batch s1 = ev_batch s0 -> ev_reg s1 = ev_reg s0 ->
  ev_count s1 = 1 -> method s1 = method s0 -> use_raw s1 = true -> rw_reg s1 16 = false -> active_ref s1 = 0 ->
  okr (StepW s0) (fst (ev_kick_raw j s1)).
Proof.
  intros s0 s1 j I J RF C0 I1 F1 EP EB ER EC EM U1 R16 AR. unfold ev_kick_raw, KICK_RAW.
  pose proof (raw_register_ok 0 s1 16 I1 ltac:(lia) R16) as H.
  pose proof (iw_ev _ I) as [V1 V2 V3 V4 V5 V6 V7].
  destruct (raw_register s1 16) as [[s2|s2] [|]]; cbn [fst snd RawRes] in H; cbn [fst okr bind].
  - (* failure: rolled back *)
    destruct H as (A & B & C & D & E & G). unfold ev_rollback.
    set (sF := set_numobjs (set_ev s2 (ev_count s2 - 1) (ev_reg s2) (use_raw s2)) (numobjs s2 - 1)).
    split.
    + apply InvE_InvW.
      * apply (InvE_fdcs 0 0 s2 sF); try reflexivity; [constructor; reflexivity| |assumption].
        apply (AcctD_change 0 0 s2); try reflexivity; [apply (ie_acct _ _ A)|]. subst sF. sp. lia.
      * destruct C as [C1 C2 C3 C4 C5 C6 C7].
        constructor; subst sF; unfold is_epoll; sp; rewrite ?C1, ?C2, ?C3, ?C4, ?C5, ?C6, ?C7, ?D, ?EP, ?EB, ?ER, ?EC, ?EM, ?U1, ?R16, ?AR;
          try assumption.
        -- rewrite <- V4, C0. reflexivity.
        -- split; [discriminate|lia].
        -- split; [discriminate|intros [Q _]; discriminate].
        -- reflexivity.
    + eapply Fr_trans; [exact F1|]. eapply Fr_trans; [exact B|]. apply Fr_fields; reflexivity.
  - (* success *)
    destruct H as (A & B & C & D & E & G). unfold ev_setreg.
    destruct C as [C1 C2 C3 C4 C5 C6 C7].
    apply (ev_setreg_ok s0 s2 j I J RF A); try congruence.
    + eapply Fr_trans; eassumption.
    + lia.
    + rewrite D, upd_same, C5, U1, C3, EC. split; [intros _; split; [reflexivity|lia]|reflexivity].
    + rewrite C6, AR, C5, U1. split; [discriminate|intros [Q _]; discriminate].
  - exact H.
  - exact H.
Qed.

Lemma event_register_ok : forall s j, InvW s -> 0 <= j < 16 -> ev_reg s j = false ->
  okr (StepW s) (fst (event_register s j)).
Proof.
  intros s j I J RF. pose proof (iw_ev _ I) as [V1 V2 V3 V4 V5 V6 V7].
  destruct (ev_s2_ok s I) as [I2 F2].
  assert (CN : 0 <= ev_count s) by (rewrite V4; apply cntf_nonneg).
  destruct (Z.eq_dec (ev_count s) 0) as [C0|CN0].
  - assert (R16 : rw_reg s 16 = false).
    { destruct (rw_reg s 16) eqn:Q; [|reflexivity]. destruct (proj1 V5 eq_refl). lia. }
    assert (AR : active_ref s = 0).
    { destruct (fv_ref _ _ (iw_fd _ I)) as [Q|Q]; [assumption|]. destruct (proj1 V6 Q). lia. }
    destruct (use_raw s) eqn:U.
    + rewrite (evreg_raw s j C0 U).
      apply (ev_kick_raw_ok s (ev_s2 s) j I J RF C0 I2 F2); try reflexivity; try assumption.
      unfold ev_s2. sp. lia.
    + destruct (is_epoll s) eqn:E.
      * destruct (event_rx_on_ok 0 (ev_s2 s) I2 E AR) as [SF H].
        destruct (event_rx_on (ev_s2 s)) as [[s3|s3] b] eqn:RX; cbn [fst snd] in *; subst b.
        -- destruct H as (A & B & C & D & E1 & E2 & E3 & E4 & E5 & E6 & E7).
           change (use_raw (ev_s2 s)) with (use_raw s) in E5. rewrite U in E5.
           rewrite (evreg_epoll s j s3 C0 U E RX E5). cbn [fst okr]. unfold ev_setreg.
           apply (ev_setreg_ok s s3 j I J RF A); try assumption.
           ++ eapply Fr_trans; eassumption.
           ++ rewrite E7. change (rw_reg (ev_s2 s) 16) with (rw_reg s 16). rewrite R16, E5.
              split; [discriminate|intros [Q _]; discriminate].
           ++ rewrite C, E5, E3. unfold ev_s2. sp. split; [intros _; split; [reflexivity|lia]|reflexivity].
           ++ unfold is_epoll in *. rewrite E6. change (method (ev_s2 s)) with (method s). rewrite E. discriminate.
        -- rewrite (evreg_epoll_halt s j s3 false C0 U E RX). exact H.
      * rewrite (evreg_poll s j C0 U E).
        set (s1 := set_ev (ev_s2 s) (ev_count (ev_s2 s)) (ev_reg (ev_s2 s)) true).
        assert (I1 : InvE 0 s1).
        { apply (InvE_fdcs 0 0 (ev_s2 s) s1); try reflexivity; [constructor; reflexivity| |assumption].
          apply (AcctD_change 0 0 (ev_s2 s)); try reflexivity. apply (ie_acct _ _ I2). }
        apply (ev_kick_raw_ok s s1 j I J RF C0 I1); try reflexivity; try assumption.
        -- eapply Fr_trans; [exact F2|]. apply Fr_fields; reflexivity.
        -- subst s1. unfold ev_s2. sp. lia.
  - rewrite (evreg_notfirst s j CN0). cbn [fst okr]. unfold ev_setreg.
    apply (ev_setreg_ok s (ev_s2 s) j I J RF I2 F2); try reflexivity.
    + change (rw_reg (ev_s2 s) 16) with (rw_reg s 16). change (use_raw (ev_s2 s)) with (use_raw s).
      change (ev_count (ev_s2 s)) with (ev_count s + 1). rewrite V5. intuition lia.
    + change (active_ref (ev_s2 s)) with (active_ref s). change (use_raw (ev_s2 s)) with (use_raw s).
      change (ev_count (ev_s2 s)) with (ev_count s + 1). rewrite V6. intuition lia.
    + exact V7.
Qed.

(* ---------- iv_event_unregister ---------- *)
Definition ev_u2 (s : core) (j : Z) : core :=
  let s1 := set_evlists s (remove_z j (ev_pending s)) (remove_z j (ev_batch s)) in
  set_ev s1 (ev_count s1 - 1) (upd (ev_reg s1) j false) (use_raw s1).

Lemma event_unregister_unfold : forall s j,
  event_unregister s j =
  let s2 := ev_u2 s j in
  bind (if ev_count s2 =? 0 then (if use_raw s2 then raw_unregister s2 KICK_RAW else event_rx_off s2) else R s2)
       (fun s => R (set_numobjs s (numobjs s - 1))).
Proof. reflexivity. Qed.

Lemma ev_unreg_fin : forall s0 sX j, InvW s0 -> 0 <= j < 16 -> ev_reg s0 j = true ->
  InvE 1 sX -> Fr s0 sX -> ev_pending sX = remove_z j (ev_pending s0) -> ev_batch sX = remove_z j (ev_batch s0) ->
  ev_reg sX = upd (ev_reg s0) j false -> ev_count sX = ev_count s0 - 1 -> method sX = method s0 ->
  (rw_reg sX 16 = true <-> (use_raw sX = true /\ 1 <= ev_count sX)) ->
  (active_ref sX = 1 <-> (use_raw sX = false /\ 1 <= ev_count sX)) ->
  (is_epoll sX = false -> active_ref sX = 0) ->
  StepW s0 (set_numobjs sX (numobjs sX - 1)).
Proof.
  intros s0 sX j I J RT IX FX EP EB ER EC EM KK KR KP.
  set (sF := set_numobjs sX (numobjs sX - 1)).
  pose proof (iw_ev _ I) as [V1 V2 V3 V4 V5 V6 V7].
  split.
  - apply InvE_InvW.
    + apply (InvE_fdcs 1 0 sX sF); try reflexivity; [constructor; reflexivity| |assumption].
      apply (AcctD_change 1 0 sX); try reflexivity; [apply (ie_acct _ _ IX)|]. subst sF. sp. lia.
    + constructor; subst sF; sp; rewrite ?EP, ?EB, ?ER; try assumption.
      * intros x. unfold upd. destruct (Z.eqb_spec x j) as [->|N]; [discriminate|apply V1].
      * intros x Hx. rewrite <- remz_app in Hx. apply In_remz in Hx. destruct Hx as [Hx N].
        rewrite upd_other by assumption. apply V2. assumption.
      * rewrite <- remz_app. apply NoDup_remz. assumption.
      * rewrite EC, V4. pose proof (cnt_upd_false (ev_reg s0) j RT J). lia.
  - eapply Fr_trans; [exact FX|]. apply Fr_fields; reflexivity.
Qed.

Lemma ev_u2_ok : forall s j, InvW s -> InvE 1 (ev_u2 s j) /\ Fr s (ev_u2 s j).
Proof.
  intros s j I. split.
  - apply (InvE_fdcs 0 1 s (ev_u2 s j)); try reflexivity; [constructor; reflexivity| |apply InvW_InvE; assumption].
    apply (AcctD_change 0 1 s); try reflexivity; [apply Acct_AcctD; apply (iw_acct _ I)|]. unfold ev_u2. sp. lia.
  - constructor; try reflexivity;
      try (unfold ev_u2; sp; first [apply remz_length | tauto | left; reflexivity | lia]).
Qed.

Lemma event_unregister_ok : forall s j, InvW s -> 0 <= j < 16 -> ev_reg s j = true ->
  okr (StepW s) (event_unregister s j).
Proof.
  intros s j I J RT. rewrite event_unregister_unfold. cbv zeta.
  pose proof (iw_ev _ I) as [V1 V2 V3 V4 V5 V6 V7].
  destruct (ev_u2_ok s j I) as [I2 F2].
  assert (CP : 1 <= ev_count s) by (rewrite V4; apply (cntf_pos _ _ j); [apply In_zseq'; lia|assumption]).
  assert (C2 : ev_count (ev_u2 s j) = ev_count s - 1) by reflexivity.
  assert (U2 : use_raw (ev_u2 s j) = use_raw s) by reflexivity.
  rewrite C2, U2.
  destruct (Z.eqb_spec (ev_count s - 1) 0) as [C1|CN].
  - destruct (use_raw s) eqn:U.
    + assert (R16 : rw_reg s 16 = true) by (apply V5; split; [reflexivity|lia]).
      eapply okr_bind; [apply (raw_unregister_ok 1 (ev_u2 s j) 16 I2 R16)|].
      intros s3 (A & B & C & D & E). cbn [okr]. destruct C as [E1 E2 E3 E4 E5 E6 E7].
      apply (ev_unreg_fin s s3 j I J RT A);
        [eapply Fr_trans; eassumption|rewrite E1; reflexivity|rewrite E2; reflexivity|rewrite E4; reflexivity
        |rewrite E3; reflexivity|rewrite E7; reflexivity|..].
      * rewrite D, upd_same, E5, E3, U2, C2, ?U. split; [discriminate|intros [_ Q]; lia].
      * rewrite E6, E5, U2, ?U. change (active_ref (ev_u2 s j)) with (active_ref s).
        split; [intros Q; destruct (proj1 V6 Q); discriminate|intros [Q _]; discriminate].
      * intros Q. rewrite E6. change (active_ref (ev_u2 s j)) with (active_ref s). apply V7.
        unfold is_epoll in *. rewrite E7 in Q. exact Q.
    + assert (AR : active_ref s = 1) by (apply V6; split; [reflexivity|lia]).
      assert (EPL : is_epoll s = true).
      { destruct (is_epoll s) eqn:Q; [reflexivity|]. rewrite (V7 eq_refl) in AR. discriminate. }
      eapply okr_bind; [apply (event_rx_off_ok 1 (ev_u2 s j) I2 EPL AR)|].
      intros s3 (A & B & C & D & E1 & E2 & E3 & E4 & E5 & E6 & E7). cbn [okr].
      apply (ev_unreg_fin s s3 j I J RT A);
        [eapply Fr_trans; eassumption|rewrite E1; reflexivity|rewrite E2; reflexivity|rewrite E4; reflexivity
        |rewrite E3; reflexivity|rewrite E6; reflexivity|..].
      * rewrite E7, E5, U2, ?U. change (rw_reg (ev_u2 s j) 16) with (rw_reg s 16).
        split; [intros Q; destruct (proj1 V5 Q); discriminate|intros [Q _]; discriminate].
      * rewrite C, E3, C2. split; [discriminate|intros [_ Q]; lia].
      * intros _. exact C.
  - cbn [bind okr].
    apply (ev_unreg_fin s (ev_u2 s j) j I J RT I2 F2); try reflexivity.
    + change (rw_reg (ev_u2 s j) 16) with (rw_reg s 16). rewrite U2, C2, V5. intuition lia.
    + change (active_ref (ev_u2 s j)) with (active_ref s). rewrite U2, C2, V6. intuition lia.
    + exact V7.
Qed.

(* ---------- do_action for the event-register and raw-event actions ---------- *)
Lemma do_action_ok_B : forall s a, InvW s -> wf_action a ->
  (match a with AEvReg _ | AEvUnreg _ | ARwReg _ | ARwUnreg _ | ARwPost _ => True | _ => False end) ->
  okr (StepW s) (do_action s a).
Proof.
  intros s a I W G.
  assert (SR : okr (StepW s) (R s)) by (cbn [okr]; split; [assumption|apply Fr_refl]).
  assert (IE : InvW (emit s (TAct a))) by (apply InvW_emit; [assumption|discriminate..]).
  assert (LIFT : forall r, okr (StepW (emit s (TAct a))) r -> okr (StepW s) r).
  { intros r H. eapply okr_weaken; [exact H|]. intros s' [A B]. split; [assumption|].
    eapply Fr_trans; [apply Fr_emit|exact B]. }
  destruct a; try contradiction; cbn [wf_action] in W; unfold ok_idx in W; cbn [do_action].
  - (* AEvReg *)
    destruct (ev_reg s j) eqn:E; [exact SR|]. apply LIFT.
    pose proof (event_register_ok (emit s (TAct (AEvReg j))) j IE W E) as H.
    destruct (event_register (emit s (TAct (AEvReg j))) j) as [r failed]. cbn [fst] in H.
    eapply okr_bind; [exact H|]. intros s' S'. cbn [okr]. apply StepW_emit; [assumption|discriminate..].
  - (* AEvUnreg *)
    destruct (ev_reg s j) eqn:E; [|exact SR]. apply LIFT. apply event_unregister_ok; assumption.
  - (* ARwReg *)
    destruct (rw_reg s j) eqn:E; [exact SR|]. apply LIFT.
    apply (act_rw_reg (emit s (TAct (ARwReg j))) j IE W E).
  - (* ARwUnreg *)
    destruct (rw_reg s j) eqn:E; [|exact SR]. apply LIFT. apply act_rw_unreg; assumption.
  - (* ARwPost *)
    destruct (rw_reg s j) eqn:E; [|exact SR]. apply LIFT. cbn [okr]. apply act_rw_post. assumption.
Qed.
