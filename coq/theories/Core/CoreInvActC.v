(* CoreInvActC.v -- iv_event_register / iv_event_unregister and do_action for the
   event-register / raw-event actions (do_action_ok_B). *)
From Coq Require Import List ZArith Bool Lia.
From Ivv Require Import Core.Kernel Core.CoreTypes Core.CoreFd Core.CoreModel Core.CoreSpec
  Core.CoreInvBase Core.CoreInvDefs Core.CoreInvFd Core.CoreInvPoll Core.CoreInvReg Core.CoreInvObj
  Core.CoreInvAct Core.CoreInvActR Core.CoreInvActB.
From Ivv Require Timer.HeapModel Timer.HeapSpec.
Import ListNotations.
Local Open Scope Z_scope.

Definition ev_s2 (s : core) : core :=
  set_ev (set_numobjs s (numobjs s + 1)) (ev_count s + 1) (ev_reg s) (use_raw s).
Definition ev_setreg (j : Z) (s : core) : res := R (set_ev s (ev_count s) (upd (ev_reg s) j true) (use_raw s)).
Definition ev_rollback (s : core) : core :=
  set_numobjs (set_ev s (ev_count s - 1) (ev_reg s) (use_raw s)) (numobjs s - 1).

Definition ev_kick_raw (j : Z) (s1 : core) : res * bool :=
  let '(r, failed) :=
    match raw_register s1 KICK_RAW with
    | (R s2, true) => (R (ev_rollback s2), true)
    | (r2, fl) => (r2, fl)
    end in
  if failed then (r, true) else (bind r (ev_setreg j), false).

Lemma evreg_notfirst : forall s j, ev_count s <> 0 -> event_register s j = (ev_setreg j (ev_s2 s), false).
Proof.
  intros s j H. unfold event_register, ev_s2. cbv zeta. sp. apply Z.eqb_neq in H. rewrite H. reflexivity.
Qed.

Lemma evreg_raw : forall s j, ev_count s = 0 -> use_raw s = true -> event_register s j = ev_kick_raw j (ev_s2 s).
Proof.
  intros s j H U. unfold event_register, ev_s2. cbv zeta. sp. rewrite H, U. reflexivity.
Qed.

Lemma evreg_poll : forall s j, ev_count s = 0 -> use_raw s = false -> is_epoll s = false ->
  event_register s j = ev_kick_raw j (set_ev (ev_s2 s) (ev_count (ev_s2 s)) (ev_reg (ev_s2 s)) true).
Proof.
  intros s j H U E. unfold event_register, ev_s2. cbv zeta. sp. rewrite H, U. cbn [Z.eqb negb].
  change (is_epoll (set_ev (set_numobjs s (numobjs s + 1)) (0 + 1) (ev_reg s) false)) with (is_epoll s).
  rewrite E. reflexivity.
Qed.

Lemma evreg_epoll : forall s j s3, ev_count s = 0 -> use_raw s = false -> is_epoll s = true ->
  event_rx_on (ev_s2 s) = (R s3, false) -> use_raw s3 = false ->
  event_register s j = (ev_setreg j s3, false).
Proof.
  intros s j s3 H U E RX U3. unfold event_register. cbv zeta. sp. rewrite H, U. cbn [Z.eqb negb].
  change (is_epoll (set_ev (set_numobjs s (numobjs s + 1)) (0 + 1) (ev_reg s) false)) with (is_epoll s).
  rewrite E. unfold ev_s2 in RX. rewrite H, U in RX. rewrite RX. rewrite U3. reflexivity.
Qed.

Lemma evreg_epoll_halt : forall s j s3 b, ev_count s = 0 -> use_raw s = false -> is_epoll s = true ->
  event_rx_on (ev_s2 s) = (Halt s3, b) -> event_register s j = (Halt s3, false).
Proof.
  intros s j s3 b H U E RX. unfold event_register. cbv zeta. sp. rewrite H, U. cbn [Z.eqb negb].
  change (is_epoll (set_ev (set_numobjs s (numobjs s + 1)) (0 + 1) (ev_reg s) false)) with (is_epoll s).
  rewrite E. unfold ev_s2 in RX. rewrite H, U in RX. rewrite RX. reflexivity.
Qed.

Lemma Fr_fields : forall s s', nwait (kern s') = nwait (kern s) -> heap s' = heap s -> ev_batch s' = ev_batch s ->
  active s' = active s -> epoch s' = epoch s -> tepoch s' = tepoch s -> cur s' = cur s -> handled s' = handled s ->
  Fr s s'.
Proof.
  intros s s' A B C D E F G H. constructor; rewrite ?A, ?B, ?C, ?D, ?E, ?H; try reflexivity; try lia; try tauto.
  - rewrite (tmeasure_same s s' G F E). lia.
  - intros Q. congruence.
Qed.

Lemma ev_s2_ok : forall s, InvW s -> InvE 0 (ev_s2 s) /\ Fr s (ev_s2 s).
Proof.
  intros s I. split.
  - apply (InvE_fdcs 0 0 s (ev_s2 s)); try reflexivity; [constructor; reflexivity| |apply InvW_InvE; assumption].
    apply (AcctD_change 0 0 s); try reflexivity; [apply Acct_AcctD; apply (iw_acct _ I)|]. unfold ev_s2. sp. lia.
  - apply Fr_fields; reflexivity.
Qed.

(* the last step: the event is marked registered *)
Lemma ev_setreg_ok : forall s0 sX j, InvW s0 -> 0 <= j < 16 -> ev_reg s0 j = false ->
  InvE 0 sX -> Fr s0 sX -> ev_pending sX = ev_pending s0 -> ev_batch sX = ev_batch s0 -> ev_reg sX = ev_reg s0 ->
  ev_count sX = ev_count s0 + 1 -> method sX = method s0 ->
  (rw_reg sX 16 = true <-> (use_raw sX = true /\ 1 <= ev_count sX)) ->
  (active_ref sX = 1 <-> (use_raw sX = false /\ 1 <= ev_count sX)) ->
  (is_epoll sX = false -> active_ref sX = 0) ->
  StepW s0 (set_ev sX (ev_count sX) (upd (ev_reg sX) j true) (use_raw sX)).
Proof.
  intros s0 sX j I J RF IX FX EP EB ER EC EM KK KR KP.
  set (sF := set_ev sX (ev_count sX) (upd (ev_reg sX) j true) (use_raw sX)).
  pose proof (iw_ev _ I) as [V1 V2 V3 V4 V5 V6 V7].
  split.
  - apply InvE_InvW.
    + apply (InvE_fdcs 0 0 sX sF); try reflexivity; [constructor; reflexivity| |assumption].
      apply (AcctD_change 0 0 sX); try reflexivity. apply (ie_acct _ _ IX).
    + constructor; subst sF; sp; rewrite ?EP, ?EB, ?ER; try assumption.
      * intros x. unfold upd. destruct (Z.eqb_spec x j) as [->|N]; [intros; assumption|apply V1].
      * intros x Hx. unfold upd. destruct (Z.eqb_spec x j); [reflexivity|apply V2; assumption].
      * rewrite EC, V4. symmetry. apply cnt_upd_true; assumption.
  - eapply Fr_trans; [exact FX|]. apply Fr_fields; reflexivity.
Qed.

(* the kick raw event is registered for the first event (poll methods / eventfd kick unavailable) *)
Lemma ev_kick_raw_ok : forall s0 s1 j, InvW s0 -> 0 <= j < 16 -> ev_reg s0 j = false -> ev_count s0 = 0 ->
  InvE 0 s1 -> Fr s0 s1 -> ev_pending s1 = ev_pending s0 -> ev_batch s1 = ev_batch s0 -> ev_reg s1 = ev_reg s0 ->
  ev_count s1 = 1 -> method s1 = method s0 -> use_raw s1 = true -> rw_reg s1 16 = false -> active_ref s1 = 0 ->
  okr (StepW s0) (fst (ev_kick_raw j s1)).
Proof.
  intros s0 s1 j I J RF C0 I1 F1 EP EB ER EC EM U1 R16 AR. unfold ev_kick_raw, KICK_RAW.
  pose proof (raw_register_ok 0 s1 16 I1 ltac:(lia) R16) as H.
  pose proof (iw_ev _ I) as [V1 V2 V3 V4 V5 V6 V7].
  destruct (raw_register s1 16) as [[s2|s2] [|]]; cbn [fst snd RawRes] in H; cbn [fst okr bind].
  - (* failure: rolled back *)
    destruct H as (A & B & C & D & E & G). unfold ev_rollback.
    set (sF := set_numobjs (set_ev s2 (ev_count s2 - 1) (ev_reg s2) (use_raw s2)) (numobjs s2 - 1)).
    split.
    + apply InvE_InvW.
      * apply (InvE_fdcs 0 0 s2 sF); try reflexivity; [constructor; reflexivity| |assumption].
        apply (AcctD_change 0 0 s2); try reflexivity; [apply (ie_acct _ _ A)|]. subst sF. sp. lia.
      * destruct C as [C1 C2 C3 C4 C5 C6 C7].
        constructor; subst sF; unfold is_epoll; sp; rewrite ?C1, ?C2, ?C3, ?C4, ?C5, ?C6, ?C7, ?D, ?EP, ?EB, ?ER, ?EC, ?EM, ?U1, ?R16, ?AR;
          try assumption.
        -- rewrite <- V4, C0. reflexivity.
        -- split; [discriminate|lia].
        -- split; [discriminate|intros [Q _]; discriminate].
        -- reflexivity.
    + eapply Fr_trans; [exact F1|]. eapply Fr_trans; [exact B|]. apply Fr_fields; reflexivity.
  - (* success *)
    destruct H as (A & B & C & D & E & G). unfold ev_setreg.
    destruct C as [C1 C2 C3 C4 C5 C6 C7].
    apply (ev_setreg_ok s0 s2 j I J RF A); try congruence.
    + eapply Fr_trans; eassumption.
    + lia.
    + rewrite D, upd_same, C5, U1, C3, EC. split; [intros _; split; [reflexivity|lia]|reflexivity].
    + rewrite C6, AR, C5, U1. split; [discriminate|intros [Q _]; discriminate].
  - exact H.
  - exact H.
Qed.
