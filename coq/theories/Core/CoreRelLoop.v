(* CoreRelLoop.v -- the invariant J through handler scripts, the callback
   dispatchers (events, raw events, descriptors, timers, tasks). *)
From Coq Require Import List ZArith Bool Lia.
From Ivv Require Import Core.Kernel Core.CoreTypes Core.CoreFd Core.CoreModel Core.Monitors Core.CoreSpec
  Core.CoreRelBase Core.CoreRelMon Core.CoreRelDefs Core.CoreRelFd Core.CoreRelTm Core.CoreRelAct.
From Ivv Require Timer.HeapModel Timer.HeapFacts.
Import ListNotations.
Local Open Scope Z_scope.

(* ---------- generic steps ---------- *)
(* fields the invariant does not read *)
Lemma J_irr : forall b s s', J b s ->
  trace s' = trace s -> fdt s' = fdt s -> heap s' = heap s -> time s' = time s -> time_valid s' = time_valid s ->
  tasks s' = tasks s -> cur s' = cur s -> ev_pending s' = ev_pending s -> ev_batch s' = ev_batch s ->
  ev_count s' = ev_count s -> ev_reg s' = ev_reg s -> use_raw s' = use_raw s -> rw_reg s' = rw_reg s ->
  quit s' = quit s -> kern s' = kern s -> active s' = active s -> handled s' = handled s ->
  notify s' = notify s -> method s' = method s -> pfds s' = pfds s -> pkeys s' = pkeys s -> J b s'.
Proof.
  intros b s s' Jh T FD H TI TV TK CU EP EB EC ER UR RW Q K A HD N M PF PK.
  assert (MS : mst s' = mst s) by (apply mst_trace; assumption).
  apply (J_upd b s s' Jh); rewrite ?MS; try reflexivity; try (apply (j_good _ _ Jh)).
  - left. split; [intros i _; rewrite FD; apply fkeep_refl|repeat split; reflexivity].
  - left. auto.
  - left. auto.
  - left. auto.
  - left. auto.
  - left. auto.
  - left. rewrite K. auto.
  - left. assumption.
  - left. rewrite K. auto.
  - left. auto.
  - left. auto.
  - apply (FdI_keep s s' (-1) (j_fd _ _ Jh)); try assumption; rewrite K; reflexivity.
  - apply (FdX_keep s s' (j_fx _ _ Jh)); try assumption; intros; rewrite FD; repeat split.
Qed.

(* an event that leaves the tracked fields alone *)
Lemma J_event_same : forall b s e, J b s -> mview (mon_step (mst s) e) = mview (mst s) ->
  Goodm (mon_step (mst s) e) -> J b (emit s e).
Proof.
  intros b s e Jh V G. apply J_emit_step. apply J_JM in Jh.
  destruct Jh as (A & B & C & D & E & F). unfold JM.
  split; [eapply Agree_ext; [exact A|exact V|apply Same_refl|intros; apply fkeep_refl]|].
  split; [assumption|]. split; [assumption|]. split; [assumption|]. split; [|assumption].
  change (a_main (mview (mon_step (mst s) e)) = b). rewrite V. exact E.
Qed.

(* a silent step of the descriptor layer *)
Lemma J_innerw : forall b s s', J b s -> InnerW s s' -> FdI s' (-1) -> J b s' /\ Fr s s'.
Proof.
  intros b s s' Jh [S F A H] FI.
  split; [|apply Fr_plain; [assumption|apply (sm_cur _ _ S)]].
  destruct S as [B1 B2 B3 B4 B5 B6 B7 B8 B9 B10 B11 B12 B13 B14 B15 B16].
  apply (J_upd b s s' Jh); rewrite ?B16; try reflexivity; try (apply (j_good _ _ Jh)); try assumption.
  - left. split; [intros i _; apply F|repeat split; reflexivity].
  - left. auto.
  - left. auto.
  - left. auto.
  - left. auto.
  - left. auto.
  - left. auto.
  - left. assumption.
  - left. auto.
  - left. auto.
  - left. auto.
  - apply (FdX_keep s s' (j_fx _ _ Jh)); try assumption.
    + intros i. apply hsame_hnd. apply (F i).
    + intros i _. apply (F i).
Qed.

Lemma wait_action_wf : forall a, wf_wait_action a -> wf_action a.
Proof. intros a. destruct a; cbn; tauto. Qed.

(* ---------- handler scripts ---------- *)
Section Loop.
Variable sc : scenario.
Hypothesis WF : wf_scenario sc.

Lemma run_script_post : forall b s key, J b s -> Post b s (run_script sc s key).
Proof.
  intros b s key Jh. unfold run_script.
  pose proof (wf_handlers sc WF key) as WH.
  destruct (sc_handlers sc key) as [|l0 ls] eqn:EH; [apply Post_same; assumption|].
  set (lists := l0 :: ls) in *.
  set (k := if invoc s key <? Z.of_nat (length lists) then invoc s key else Z.of_nat (length lists) - 1).
  set (s1 := set_invoc s _).
  assert (J1 : J b s1) by (apply (J_irr b s s1 Jh); reflexivity).
  eapply Post_fr; [apply (Fr_plain s s1); reflexivity|].
  apply run_acts_post; [assumption|].
  destruct (nth_in_or_default (Z.to_nat k) lists []) as [H|H].
  - rewrite Forall_forall in WH. apply WH. assumption.
  - rewrite H. constructor.
Qed.

(* ---------- events ---------- *)
Lemma J_call_event : forall s ie rest, J true s -> ev_batch s = ie :: rest ->
  J true (emit (set_evlists s (ev_pending s) rest) (TCallEvent ie)).
Proof.
  intros s ie rest Jh B.
  set (s1 := set_evlists s (ev_pending s) rest).
  destruct (J_SiEv _ _ Jh) as [S1 S2]. pose proof (J_AgEv _ _ Jh) as GE.
  assert (IN : In ie (ev_pending s ++ ev_batch s)) by (rewrite B; apply in_or_app; right; left; reflexivity).
  destruct (S1 ie IN) as [IR ER].
  assert (ND : ~ In ie (ev_pending s ++ rest) /\ NoDup (ev_pending s ++ rest)).
  { rewrite B in S2. apply NoDup_remove in S2. tauto. }
  destruct ND as [NI ND].
  apply J_emit_step. change (mst s1) with (mst s).
  set (m' := mon_step (mst s) (TCallEvent ie)).
  assert (V : mview m' = mview (m_evs (mst s) (a_ev (mst s)) (upd (a_evp (mst s)) ie false))) by apply mview_TCallEvent.
  assert (P : forall (p : mon -> Z -> bool), (forall m, p (mview m) = p m) -> False -> True) by tauto.
  assert (Q1 : a_fd m' = a_fd (mst s)) by (change (a_fd (mview m') = a_fd (mst s)); rewrite V; reflexivity).
  assert (Q2 : a_fh m' = a_fh (mst s)) by (change (a_fh (mview m') = a_fh (mst s)); rewrite V; reflexivity).
  assert (Q3 : a_ck m' = a_ck (mst s)) by (change (a_ck (mview m') = a_ck (mst s)); rewrite V; reflexivity).
  assert (Q4 : a_tm m' = a_tm (mst s)) by (change (a_tm (mview m') = a_tm (mst s)); rewrite V; reflexivity).
  assert (Q5 : a_exp m' = a_exp (mst s)) by (change (a_exp (mview m') = a_exp (mst s)); rewrite V; reflexivity).
  assert (Q6 : a_tk m' = a_tk (mst s)) by (change (a_tk (mview m') = a_tk (mst s)); rewrite V; reflexivity).
  assert (Q7 : a_ev m' = a_ev (mst s)) by (change (a_ev (mview m') = a_ev (mst s)); rewrite V; reflexivity).
  assert (Q8 : a_evp m' = upd (a_evp (mst s)) ie false) by (change (a_evp (mview m') = upd (a_evp (mst s)) ie false); rewrite V; reflexivity).
  assert (Q9 : a_rw m' = a_rw (mst s)) by (change (a_rw (mview m') = a_rw (mst s)); rewrite V; reflexivity).
  assert (Q10 : a_quit m' = a_quit (mst s)) by (change (a_quit (mview m') = a_quit (mst s)); rewrite V; reflexivity).
  assert (Q11 : a_clk m' = a_clk (mst s)) by (change (a_clk (mview m') = a_clk (mst s)); rewrite V; reflexivity).
  assert (Q12 : a_main m' = a_main (mst s)) by (change (a_main (mview m') = a_main (mst s)); rewrite V; reflexivity).
  apply (JM_upd true s s1 m' Jh); try assumption.
  - unfold m'. apply good_TCallEvent; [apply (j_good _ _ Jh)|apply (j_main _ _ Jh)| |].
    + rewrite (proj1 (GE ie IR)). exact ER.
    + apply (proj2 (GE ie IR)). apply ev_on_list_In. exact IN.
  - left. split; [intros; apply fkeep_refl|auto].
  - left. auto.
  - left. auto.
  - right. intros y Y. destruct (GE y Y) as [G1 G2]. rewrite Q7, Q8. split; [exact G1|].
    intros H. apply ev_on_list_In in H. cbn [s1 ev_pending ev_batch set_evlists] in H.
    unfold upd. destruct (Z.eqb_spec y ie) as [->|N]; [contradiction|].
    apply G2. apply ev_on_list_In. rewrite B. apply in_app_or in H. apply in_or_app.
    destruct H; [auto|right; right; assumption].
  - left. auto.
  - left. auto.
  - left. auto.
  - left. reflexivity.
  - left. auto.
  - left. auto.
  - right. split; cbn [s1 ev_pending ev_batch set_evlists ev_reg]; [|exact ND].
    intros y H. apply S1. rewrite B. apply in_app_or in H. apply in_or_app.
    destruct H; [auto|right; right; assumption].
  - apply (FdI_keep s s1 (-1) (j_fd _ _ Jh)); reflexivity.
  - apply (FdX_keep s s1 (j_fx _ _ Jh)); try reflexivity; intros; repeat split.
Qed.

Lemma events_loop_post : forall fuel s, J true s -> Post true s (events_loop sc fuel s).
Proof.
  induction fuel as [|fuel IH]; intros s Jh; cbn [events_loop].
  - destruct (ev_batch s) as [|ie rest]; [apply Post_same; assumption|].
    cbn [Post halt]. rewrite mst_emit. apply good_quiet; [right; left; reflexivity|apply (j_good _ _ Jh)].
  - destruct (ev_batch s) as [|ie rest] eqn:B; [apply Post_same; assumption|].
    pose proof (J_call_event s ie rest Jh B) as J1.
    set (s1 := emit (set_evlists s (ev_pending s) rest) (TCallEvent ie)) in *.
    eapply Post_fr; [apply (Fr_plain s s1); reflexivity|].
    eapply Post_bind; [apply run_script_post; exact J1|].
    intros s2 J2 F2. destruct rest; [apply Post_same; assumption|apply IH; assumption].
Qed.

Lemma run_pending_events_post : forall s, J true s -> Post true s (run_pending_events sc s).
Proof.
  intros s Jh. unfold run_pending_events.
  destruct (ev_pending s) as [|p0 pl] eqn:P; [apply Post_same; assumption|].
  set (p := p0 :: pl) in *. set (s1 := set_evlists s [] p).
  destruct (J_SiEv _ _ Jh) as [S1 S2]. pose proof (J_AgEv _ _ Jh) as GE.
  assert (SUB : forall y, In y ([] ++ p) -> In y (ev_pending s ++ ev_batch s)).
  { intros y H. cbn [app] in H. rewrite P. apply in_or_app. left. exact H. }
  assert (J1 : J true s1).
  { apply (J_upd true s s1 Jh); try reflexivity; try (apply (j_good _ _ Jh));
      try (solve [left; repeat split; first [reflexivity | intros; apply fkeep_refl]]).
    - right. intros y Y. destruct (GE y Y) as [G1 G2]. split; [exact G1|].
      intros H. apply G2. apply ev_on_list_In. apply SUB. apply ev_on_list_In in H. exact H.
    - right. split; cbn [s1 ev_pending ev_batch set_evlists ev_reg].
      + intros y H. apply S1. apply SUB. exact H.
      + cbn [app]. rewrite P in S2. apply NoDup_app_iff in S2. apply S2.
    - apply (FdI_keep s s1 (-1) (j_fd _ _ Jh)); reflexivity.
    - apply (FdX_keep s s1 (j_fx _ _ Jh)); try reflexivity; intros; repeat split. }
  eapply Post_fr; [apply (Fr_plain s s1); reflexivity|]. apply events_loop_post. exact J1.
Qed.
End Loop.
