(* CoreRelLoop.v -- the invariant J through handler scripts, the callback
   dispatchers (events, raw events, descriptors, timers, tasks). *)
From Coq Require Import List ZArith Bool Lia.
From Ivv Require Import Core.Kernel Core.CoreTypes Core.CoreFd Core.CoreModel Core.Monitors Core.CoreSpec
  Core.CoreRelBase Core.CoreRelMon Core.CoreRelDefs Core.CoreRelFd Core.CoreRelTm Core.CoreRelAct.
From Ivv Require Timer.HeapModel Timer.HeapFacts.
Import ListNotations.
Local Open Scope Z_scope.

(* ---------- generic steps ---------- *)
(* fields the invariant does not read *)
Lemma J_irr : forall b s s', J b s ->
  trace s' = trace s -> fdt s' = fdt s -> heap s' = heap s -> time s' = time s -> time_valid s' = time_valid s ->
  tasks s' = tasks s -> cur s' = cur s -> ev_pending s' = ev_pending s -> ev_batch s' = ev_batch s ->
  ev_count s' = ev_count s -> ev_reg s' = ev_reg s -> use_raw s' = use_raw s -> rw_reg s' = rw_reg s ->
  quit s' = quit s -> kern s' = kern s -> active s' = active s -> handled s' = handled s ->
  notify s' = notify s -> method s' = method s -> pfds s' = pfds s -> pkeys s' = pkeys s -> J b s'.
Proof.
  intros b s s' Jh T FD H TI TV TK CU EP EB EC ER UR RW Q K A HD N M PF PK.
  assert (MS : mst s' = mst s) by (apply mst_trace; assumption).
  apply (J_upd b s s' Jh); rewrite ?MS; try reflexivity; try (apply (j_good _ _ Jh)).
  - left. split; [intros i _; rewrite FD; apply fkeep_refl|repeat split; reflexivity].
  - left. auto.
  - left. auto.
  - left. auto.
  - left. auto.
  - left. auto.
  - left. rewrite K. auto.
  - left. assumption.
  - left. rewrite K. auto.
  - left. auto.
  - left. auto.
  - apply (FdI_keep s s' (-1) (j_fd _ _ Jh)); try assumption; rewrite K; reflexivity.
  - apply (FdX_keep s s' (j_fx _ _ Jh)); try assumption; intros; rewrite FD; repeat split.
Qed.

(* an event that leaves the tracked fields alone *)
Lemma J_event_same : forall b s e, J b s -> mview (mon_step (mst s) e) = mview (mst s) ->
  Goodm (mon_step (mst s) e) -> J b (emit s e).
Proof.
  intros b s e Jh V G. apply J_emit_step. apply J_JM in Jh.
  destruct Jh as (A & B & C & D & E & F). unfold JM.
  split; [eapply Agree_ext; [exact A|exact V|apply Same_refl|intros; apply fkeep_refl]|].
  split; [assumption|]. split; [assumption|]. split; [assumption|]. split; [|assumption].
  change (a_main (mview (mon_step (mst s) e)) = b). rewrite V. exact E.
Qed.

(* a silent step of the descriptor layer *)
Lemma J_innerw : forall b s s', J b s -> InnerW s s' -> FdI s' (-1) -> J b s' /\ Fr s s'.
Proof.
  intros b s s' Jh [S F A H] FI.
  split; [|apply Fr_plain; [assumption|apply (sm_cur _ _ S)]].
  destruct S as [B1 B2 B3 B4 B5 B6 B7 B8 B9 B10 B11 B12 B13 B14 B15 B16].
  apply (J_upd b s s' Jh); rewrite ?B16; try reflexivity; try (apply (j_good _ _ Jh)); try assumption.
  - left. split; [intros i _; apply F|repeat split; reflexivity].
  - left. auto.
  - left. auto.
  - left. auto.
  - left. auto.
  - left. auto.
  - left. auto.
  - left. assumption.
  - left. auto.
  - left. auto.
  - left. auto.
  - apply (FdX_keep s s' (j_fx _ _ Jh)); try assumption.
    + intros i. apply hsame_hnd. apply (F i).
    + intros i _. apply (F i).
Qed.

Lemma wait_action_wf : forall a, wf_wait_action a -> wf_action a.
Proof. intros a. destruct a; cbn; tauto. Qed.

(* ---------- handler scripts ---------- *)
Section Loop.
Variable sc : scenario.
Hypothesis WF : wf_scenario sc.

Lemma run_script_post : forall b s key, J b s -> Post b s (run_script sc s key).
Proof.
  intros b s key Jh. unfold run_script.
  pose proof (wf_handlers sc WF key) as WH.
  destruct (sc_handlers sc key) as [|l0 ls] eqn:EH; [apply Post_same; assumption|].
  set (lists := l0 :: ls) in *.
  set (k := if invoc s key <? Z.of_nat (length lists) then invoc s key else Z.of_nat (length lists) - 1).
  set (s1 := set_invoc s _).
  assert (J1 : J b s1) by (apply (J_irr b s s1 Jh); reflexivity).
  eapply Post_fr; [apply (Fr_plain s s1); reflexivity|].
  apply run_acts_post; [assumption|].
  destruct (nth_in_or_default (Z.to_nat k) lists []) as [H|H].
  - rewrite Forall_forall in WH. apply WH. assumption.
  - rewrite H. constructor.
Qed.

(* ---------- events ---------- *)
Lemma J_call_event : forall s ie rest, J true s -> ev_batch s = ie :: rest ->
  J true (emit (set_evlists s (ev_pending s) rest) (TCallEvent ie)).
Proof.
  intros s ie rest Jh B.
  set (s1 := set_evlists s (ev_pending s) rest).
  destruct (J_SiEv _ _ Jh) as [S1 S2]. pose proof (J_AgEv _ _ Jh) as GE.
  assert (IN : In ie (ev_pending s ++ ev_batch s)) by (rewrite B; apply in_or_app; right; left; reflexivity).
  destruct (S1 ie IN) as [IR ER].
  assert (ND : ~ In ie (ev_pending s ++ rest) /\ NoDup (ev_pending s ++ rest)).
  { rewrite B in S2. apply NoDup_remove in S2. tauto. }
  destruct ND as [NI ND].
  apply J_emit_step. change (mst s1) with (mst s).
  set (m' := mon_step (mst s) (TCallEvent ie)).
  assert (V : mview m' = mview (m_evs (mst s) (a_ev (mst s)) (upd (a_evp (mst s)) ie false))) by apply mview_TCallEvent.
  assert (P : forall (p : mon -> Z -> bool), (forall m, p (mview m) = p m) -> False -> True) by tauto.
  assert (Q1 : a_fd m' = a_fd (mst s)) by (change (a_fd (mview m') = a_fd (mst s)); rewrite V; reflexivity).
  assert (Q2 : a_fh m' = a_fh (mst s)) by (change (a_fh (mview m') = a_fh (mst s)); rewrite V; reflexivity).
  assert (Q3 : a_ck m' = a_ck (mst s)) by (change (a_ck (mview m') = a_ck (mst s)); rewrite V; reflexivity).
  assert (Q4 : a_tm m' = a_tm (mst s)) by (change (a_tm (mview m') = a_tm (mst s)); rewrite V; reflexivity).
  assert (Q5 : a_exp m' = a_exp (mst s)) by (change (a_exp (mview m') = a_exp (mst s)); rewrite V; reflexivity).
  assert (Q6 : a_tk m' = a_tk (mst s)) by (change (a_tk (mview m') = a_tk (mst s)); rewrite V; reflexivity).
  assert (Q7 : a_ev m' = a_ev (mst s)) by (change (a_ev (mview m') = a_ev (mst s)); rewrite V; reflexivity).
  assert (Q8 : a_evp m' = upd (a_evp (mst s)) ie false) by (change (a_evp (mview m') = upd (a_evp (mst s)) ie false); rewrite V; reflexivity).
  assert (Q9 : a_rw m' = a_rw (mst s)) by (change (a_rw (mview m') = a_rw (mst s)); rewrite V; reflexivity).
  assert (Q10 : a_quit m' = a_quit (mst s)) by (change (a_quit (mview m') = a_quit (mst s)); rewrite V; reflexivity).
  assert (Q11 : a_clk m' = a_clk (mst s)) by (change (a_clk (mview m') = a_clk (mst s)); rewrite V; reflexivity).
  assert (Q12 : a_main m' = a_main (mst s)) by (change (a_main (mview m') = a_main (mst s)); rewrite V; reflexivity).
  apply (JM_upd true s s1 m' Jh); try assumption.
  - unfold m'. apply good_TCallEvent; [apply (j_good _ _ Jh)|apply (j_main _ _ Jh)| |].
    + rewrite (proj1 (GE ie IR)). exact ER.
    + apply (proj2 (GE ie IR)). apply ev_on_list_In. exact IN.
  - left. split; [intros; apply fkeep_refl|auto].
  - left. auto.
  - left. auto.
  - right. intros y Y. destruct (GE y Y) as [G1 G2]. rewrite Q7, Q8. split; [exact G1|].
    intros H. apply ev_on_list_In in H. cbn [s1 ev_pending ev_batch set_evlists] in H.
    unfold upd. destruct (Z.eqb_spec y ie) as [->|N]; [contradiction|].
    apply G2. apply ev_on_list_In. rewrite B. apply in_app_or in H. apply in_or_app.
    destruct H; [auto|right; right; assumption].
  - left. auto.
  - left. auto.
  - left. auto.
  - left. reflexivity.
  - left. auto.
  - left. auto.
  - right. split; cbn [s1 ev_pending ev_batch set_evlists ev_reg]; [|exact ND].
    intros y H. apply S1. rewrite B. apply in_app_or in H. apply in_or_app.
    destruct H; [auto|right; right; assumption].
  - apply (FdI_keep s s1 (-1) (j_fd _ _ Jh)); reflexivity.
  - apply (FdX_keep s s1 (j_fx _ _ Jh)); try reflexivity; intros; repeat split.
Qed.

Lemma events_loop_post : forall fuel s, J true s -> Post true s (events_loop sc fuel s).
Proof.
  induction fuel as [|fuel IH]; intros s Jh; cbn [events_loop].
  - destruct (ev_batch s) as [|ie rest]; [apply Post_same; assumption|].
    cbn [Post halt]. rewrite mst_emit. apply good_quiet; [right; left; reflexivity|apply (j_good _ _ Jh)].
  - destruct (ev_batch s) as [|ie rest] eqn:B; [apply Post_same; assumption|].
    pose proof (J_call_event s ie rest Jh B) as J1.
    set (s1 := emit (set_evlists s (ev_pending s) rest) (TCallEvent ie)) in *.
    eapply Post_fr; [apply (Fr_plain s s1); reflexivity|].
    eapply Post_bind; [apply run_script_post; exact J1|].
    intros s2 J2 F2. destruct rest; [apply Post_same; assumption|apply IH; assumption].
Qed.

Lemma run_pending_events_post : forall s, J true s -> Post true s (run_pending_events sc s).
Proof.
  intros s Jh. unfold run_pending_events.
  destruct (ev_pending s) as [|p0 pl] eqn:P; [apply Post_same; assumption|].
  set (p := p0 :: pl) in *. set (s1 := set_evlists s [] p).
  destruct (J_SiEv _ _ Jh) as [S1 S2]. pose proof (J_AgEv _ _ Jh) as GE.
  assert (SUB : forall y, In y ([] ++ p) -> In y (ev_pending s ++ ev_batch s)).
  { intros y H. cbn [app] in H. rewrite P. apply in_or_app. left. exact H. }
  assert (J1 : J true s1).
  { apply (J_upd true s s1 Jh); try reflexivity; try (apply (j_good _ _ Jh));
      try (solve [left; repeat split; first [reflexivity | intros; apply fkeep_refl]]).
    - right. intros y Y. destruct (GE y Y) as [G1 G2]. split; [exact G1|].
      intros H. apply G2. apply ev_on_list_In. apply SUB. apply ev_on_list_In in H. exact H.
    - right. split; cbn [s1 ev_pending ev_batch set_evlists ev_reg].
      + intros y H. apply S1. apply SUB. exact H.
      + cbn [app]. rewrite P in S2. apply NoDup_app_iff in S2. apply S2.
    - apply (FdI_keep s s1 (-1) (j_fd _ _ Jh)); reflexivity.
    - apply (FdX_keep s s1 (j_fx _ _ Jh)); try reflexivity; intros; repeat split. }
  eapply Post_fr; [apply (Fr_plain s s1); reflexivity|]. apply events_loop_post. exact J1.
Qed.

(* ---------- raw events and descriptor callbacks ---------- *)
Lemma J_set_kern_plain : forall b s k1, J b s -> ksame (kern s) k1 -> J b (set_kern s k1).
Proof.
  intros b s k1 Jh (C & F & E).
  apply (J_upd b s _ Jh); try reflexivity; try (apply (j_good _ _ Jh));
    try (solve [left; repeat split; first [reflexivity | assumption | intros; apply fkeep_refl]]).
  - apply (FdI_keep s _ (-1) (j_fd _ _ Jh)); try reflexivity; assumption.
  - apply (FdX_keep s _ (j_fx _ _ Jh)); try reflexivity; intros; repeat split.
Qed.

Lemma raw_got_event_post : forall s j, J true s -> (j = KICK_RAW \/ (inr16 j /\ rw_reg s j = true)) ->
  Post true s (raw_got_event sc s j).
Proof.
  intros s j Jh JR. unfold raw_got_event.
  pose proof (ksame_read (kern s) (rw_rfd s j) (if raw_is_pipe s j then 1024 else 8)) as KS.
  destruct (k_read (kern s) (rw_rfd s j) (if raw_is_pipe s j then 1024 else 8)) as [k1 [n|e]]; cbn [fst] in KS.
  - destruct (n =? 0).
    + cbn [Post halt]. rewrite mst_emit. apply good_quiet; [left; reflexivity|apply (j_good _ _ Jh)].
    + pose proof (J_set_kern_plain true s k1 Jh KS) as J1.
      set (s1 := set_kern s k1) in *.
      eapply Post_fr; [apply (Fr_plain s s1); reflexivity|].
      destruct (Z.eqb_spec j KICK_RAW) as [EK|NK]; [apply run_pending_events_post; exact J1|].
      destruct JR as [JR|[JR1 JR2]]; [contradiction|].
      assert (J2 : J true (emit s1 (TCallRaw j))).
      { apply J_event_same; [exact J1|apply mview_TCallRaw|].
        apply good_TCallRaw; [apply (j_good _ _ J1)|apply (j_main _ _ J1)|].
        rewrite (J_AgRw _ _ J1 j JR1). exact JR2. }
      eapply Post_fr; [apply (Fr_plain s1 (emit s1 (TCallRaw j))); reflexivity|].
      apply run_script_post. exact J2.
  - destruct e; try (cbn [Post halt]; rewrite mst_emit; apply good_quiet; [left; reflexivity|apply (j_good _ _ Jh)]).
    cbn [Post]. split; [apply J_set_kern_plain; assumption|apply Fr_plain; reflexivity].
Qed.

Lemma call_fd_post : forall s k band h, J true s -> 0 <= k <= 32 -> registered (fdt s k) = true ->
  ((band = 0 /\ h = h_in (fdt s k)) \/ (band = 1 /\ h = h_out (fdt s k)) \/ (band = 2 /\ h = h_err (fdt s k))) ->
  Post true s (call_fd sc s k band h).
Proof.
  intros s k band h Jh K RG HB. unfold call_fd.
  destruct h as [hid|]; [|apply Post_same; assumption].
  pose proof (j_fx _ _ Jh) as FX.
  destruct (Z_lt_le_dec k 16) as [KU|KR].
  - (* a user descriptor *)
    assert (I : inr16 k) by (unfold inr16; lia).
    destruct (fx_userh _ FX k I) as (U1 & U2 & U3).
    assert (HR : 0 <= hid < 16).
    { destruct HB as [[_ E]|[[_ E]|[_ E]]]; symmetry in E; [apply U1|apply U2|apply U3]; exact E. }
    destruct (Z.leb_spec 1000 hid) as [L|L]; [lia|].
    destruct (J_AgFd _ _ Jh k I) as (A1 & A2 & A3 & A4 & A5).
    assert (J2 : J true (emit s (TCallFd k band hid (cookie (getfd s k))))).
    { apply J_event_same; [exact Jh|apply mview_TCallFd|].
      apply good_TCallFd; [apply (j_good _ _ Jh)|apply (j_main _ _ Jh)|congruence| |exact A5].
      destruct HB as [[-> E]|[[-> E]|[-> E]]]; congruence. }
    eapply Post_fr; [apply (Fr_plain s (emit s (TCallFd k band hid (cookie (getfd s k))))); reflexivity|].
    apply run_script_post. exact J2.
  - (* the descriptor inside a raw event *)
    destruct (fx_rawh _ FX k ltac:(lia)) as (U1 & U2 & U3).
    assert (HR : hid = 1000 + (k - 16)).
    { destruct HB as [[_ E]|[[_ E]|[_ E]]]; symmetry in E; [apply U1|apply U2|apply U3]; exact E. }
    destruct (Z.leb_spec 1000 hid) as [L|L]; [|lia].
    apply raw_got_event_post; [exact Jh|].
    replace (hid - 1000) with (k - 16) by lia.
    destruct (Z.eq_dec (k - 16) KICK_RAW) as [E|N]; [left; exact E|right].
    unfold KICK_RAW in N. split; [unfold inr16; lia|].
    apply (fx_raw _ FX (k - 16)); [lia|]. replace (16 + (k - 16)) with k by lia. exact RG.
Qed.

(* ---------- iv_fd_poll_and_run's dispatch loop ---------- *)
Definition Post0 (b : bool) (s : core) (r : res) : Prop :=
  match r with R s' => J b s' /\ (cur s = None -> cur s' = None) | Halt s' => Goodm (mst s') end.

Lemma Post_Post0 : forall b s r, Post b s r -> Post0 b s r.
Proof. intros b s r P. destruct r; cbn [Post Post0] in *; [|assumption]. destruct P as [A [_ C]]. auto. Qed.

Lemma Post0_bind : forall b s r f, Post0 b s r ->
  (forall s1, J b s1 -> (cur s = None -> cur s1 = None) -> Post0 b s1 (f s1)) -> Post0 b s (bind r f).
Proof.
  intros b s r f P K. destruct r as [s1|s1]; cbn [bind Post0] in *; [|assumption].
  destruct P as [J1 C1]. specialize (K s1 J1 C1).
  destruct (f s1) as [s2|s2]; cbn [Post0] in *; [|assumption].
  destruct K as [J2 C2]. auto.
Qed.

Lemma Post0_cur : forall b s0 s r, (cur s0 = None -> cur s = None) -> Post0 b s r -> Post0 b s0 r.
Proof. intros b s0 s r C P. destruct r; cbn [Post0] in *; [|assumption]. destruct P as [A B]. auto. Qed.

Lemma guarded_call : forall s k band (c : bool), J true s -> 0 <= k <= 32 ->
  (handled s = Some k \/ handled s = None) -> (band = 0 \/ band = 1 \/ band = 2) ->
  let h := if band =? 0 then h_in (fdt s k) else if band =? 1 then h_out (fdt s k) else h_err (fdt s k) in
  Post true s (match handled s with
               | Some _ => if c then call_fd sc s k band h else R s
               | None => R s
               end).
Proof.
  intros s k band c Jh K H B h.
  destruct (handled s) as [k'|] eqn:HD; [|apply Post_same; assumption].
  destruct c; [|apply Post_same; assumption].
  destruct H as [H|H]; [|discriminate]. inversion H; subst k'.
  destruct (fi_handled s (-1) (j_fd _ _ Jh) k HD) as [_ RG]. specialize (RG ltac:(lia)).
  apply call_fd_post; try assumption.
  unfold h. destruct B as [->|[->| ->]]; cbn; auto.
Qed.

Lemma J_pop_active : forall s k rest, J true s -> active s = k :: rest ->
  J true (set_handled (set_active s rest) (Some k)) /\ 0 <= k <= 32.
Proof.
  intros s k rest Jh A.
  pose proof (j_fd _ _ Jh) as FI. destruct FI as [F1 F2 F3 F4 F5 F6 F7 F8].
  assert (OK : okk s (-1) k) by (apply F1; rewrite A; left; reflexivity).
  split; [|apply OK].
  set (s1 := set_handled _ _).
  apply (J_upd true s s1 Jh); try reflexivity; try (apply (j_good _ _ Jh));
    try (solve [left; repeat split; first [reflexivity | intros; apply fkeep_refl]]).
  - constructor.
    + intros y H. apply F1. rewrite A. right. exact H.
    + intros y H. cbn [s1 handled set_handled] in H. inversion H; subst y. exact OK.
    + exact F3.
    + exact F4.
    + exact F5.
    + exact F6.
    + exact F7.
    + exact F8.
  - apply (FdX_keep s s1 (j_fx _ _ Jh)); try reflexivity; intros; repeat split.
Qed.

Lemma dispatch_active_post : forall fuel s, J true s -> Post0 true s (dispatch_active sc fuel s).
Proof.
  induction fuel as [|fuel IH]; intros s Jh; cbn [dispatch_active].
  - destruct (active s) as [|k rest]; [cbn [Post0]; auto|].
    cbn [Post0 halt]. rewrite mst_emit. apply good_quiet; [right; left; reflexivity|apply (j_good _ _ Jh)].
  - destruct (active s) as [|k rest] eqn:A; [cbn [Post0]; auto|].
    destruct (J_pop_active s k rest Jh A) as [J1 K].
    set (s1 := set_handled (set_active s rest) (Some k)) in *.
    apply (Post0_cur true s s1); [intros H; exact H|].
    (* error band *)
    assert (PA : Post true s1 (if has (ready (getfd s1 k)) M_ERR then call_fd sc s1 k 2 (h_err (getfd s1 k)) else R s1)).
    { pose proof (guarded_call s1 k 2 (has (ready (getfd s1 k)) M_ERR) J1 K (or_introl eq_refl) ltac:(auto)) as Q.
      cbv zeta in Q. change (handled s1) with (Some k) in Q. cbn in Q. exact Q. }
    destruct (if has (ready (getfd s1 k)) M_ERR then call_fd sc s1 k 2 (h_err (getfd s1 k)) else R s1) as [s2|s2];
      cbn [bind Post Post0] in *; [|exact PA].
    destruct PA as [J2 F2].
    (* input band *)
    pose proof (guarded_call s2 k 0 (has (ready (getfd s2 k)) M_IN) J2 K (proj1 F2) ltac:(auto)) as PB.
    cbv zeta in PB. cbn [Z.eqb] in PB.
    match type of PB with Post true s2 ?X => change X with
      (match handled s2 with
       | Some _ => if has (ready (getfd s2 k)) M_IN then call_fd sc s2 k 0 (h_in (getfd s2 k)) else R s2
       | None => R s2 end) in PB end.
    destruct (match handled s2 with
       | Some _ => if has (ready (getfd s2 k)) M_IN then call_fd sc s2 k 0 (h_in (getfd s2 k)) else R s2
       | None => R s2 end) as [s3|s3]; cbn [bind Post Post0] in *; [|exact PB].
    destruct PB as [J3 F3].
    pose proof (Fr_trans _ _ _ F2 F3) as F13.
    (* output band *)
    pose proof (guarded_call s3 k 1 (has (ready (getfd s3 k)) M_OUT) J3 K (proj1 F13) ltac:(auto)) as PC.
    cbv zeta in PC. cbn [Z.eqb Pos.eqb] in PC.
    match type of PC with Post true s3 ?X => change X with
      (match handled s3 with
       | Some _ => if has (ready (getfd s3 k)) M_OUT then call_fd sc s3 k 1 (h_out (getfd s3 k)) else R s3
       | None => R s3 end) in PC end.
    destruct (match handled s3 with
       | Some _ => if has (ready (getfd s3 k)) M_OUT then call_fd sc s3 k 1 (h_out (getfd s3 k)) else R s3
       | None => R s3 end) as [s4|s4]; cbn [bind Post Post0] in *; [|exact PC].
    destruct PC as [J4 F4].
    pose proof (Fr_trans _ _ _ F13 F4) as F14.
    apply (Post0_cur true s1 s4); [apply (proj2 F14)|]. apply IH. exact J4.
Qed.

(* ---------- iv_run_timers ---------- *)
Lemma J_call_timer : forall s t rest, J true s -> HeapModel.batch (heap s) = t :: rest ->
  let s1 := validate_now (set_heap s (HeapModel.set_idx (HeapModel.set_batch (heap s) rest) t (-1))) in
  J true (emit s1 (TCallTimer (Zpos t - 1) (time s1))).
Proof.
  intros s t rest Jh B s1.
  destruct (J_SiTm _ _ Jh) as [HI HR]. pose proof (J_AgTm _ _ Jh) as GT.
  destruct (heap_pop_spec (heap s) t rest HI B) as (I' & T0 & T1 & T2 & T3 & _).
  set (h' := HeapModel.set_idx (HeapModel.set_batch (heap s) rest) t (-1)) in *.
  set (j := Zpos t - 1).
  assert (TR : Zpos t <= 16) by (apply HR; lia).
  assert (JR : inr16 j) by (unfold inr16, j; lia).
  assert (TJ : tmid j = t) by (unfold tmid, j; replace (Zpos t - 1 + 1) with (Zpos t) by lia; reflexivity).
  (* the state: only heap and (time, time_valid) differ from s *)
  assert (ST : heap s1 = h' /\ fdt s1 = fdt s /\ tasks s1 = tasks s /\ cur s1 = cur s /\ ev_pending s1 = ev_pending s /\
               ev_batch s1 = ev_batch s /\ ev_count s1 = ev_count s /\ ev_reg s1 = ev_reg s /\ use_raw s1 = use_raw s /\
               rw_reg s1 = rw_reg s /\ quit s1 = quit s /\ kern s1 = kern s /\ active s1 = active s /\
               handled s1 = handled s /\ notify s1 = notify s /\ method s1 = method s /\ pfds s1 = pfds s /\
               pkeys s1 = pkeys s /\ trace s1 = trace s /\ time_valid s1 = true /\
               (time_valid s = true -> time s1 = time s) /\ (time_valid s = false -> time s1 = clock (kern s))).
  { unfold s1, validate_now. cbn [time_valid set_heap]. destruct (time_valid s) eqn:TV; repeat split; auto; discriminate. }
  destruct ST as (S1 & S2 & S3 & S4 & S5 & S6 & S7 & S8 & S9 & S10 & S11 & S12 & S13 & S14 & S15 & S16 & S17 & S18 & S19 & S20 & S21 & S22).
  assert (TC : time s1 <= clock (kern s)).
  { destruct (time_valid s) eqn:TV; [rewrite S21 by reflexivity; apply (si_time _ (j_si _ _ Jh)); exact TV|rewrite S22 by reflexivity; lia]. }
  apply J_emit_step.
  assert (MS : mst s1 = mst s) by (apply mst_trace; exact S19). rewrite MS.
  set (m' := mon_step (mst s) (TCallTimer j (time s1))).
  destruct (mview_fields m' _ (mview_TCallTimer (mst s) j (time s1))) as (Q1 & Q2 & Q3 & Q4 & Q5 & Q6 & Q7 & Q8 & Q9 & Q10 & Q11 & Q12).
  cbn [a_fd a_fh a_ck a_tm a_exp a_tk a_ev a_evp a_rw a_main a_quit a_clk m_tms] in *.
  destruct (GT j JR) as [GJ1 GJ2].
  apply (JM_upd true s s1 m' Jh); try assumption.
  - unfold m'. apply good_TCallTimer; [apply (j_good _ _ Jh)|apply (j_main _ _ Jh)| |].
    + rewrite GJ1. unfold timer_registered. rewrite TJ, T0. reflexivity.
    + rewrite (ag_clk _ _ (j_ag _ _ Jh)). exact TC.
  - left. split; [intros i _; rewrite S2; apply fkeep_refl|auto].
  - right. intros y Y. rewrite Q4, Q5. unfold upd, timer_registered. rewrite S1.
    destruct (Z.eqb_spec y j) as [->|N].
    + rewrite TJ, T1. cbn. split; [reflexivity|discriminate].
    + assert (NT : tmid y <> t).
      { rewrite <- TJ. intros E. apply N. apply tmid_inj; [apply Y|apply JR|exact E]. }
      destruct (GT y Y) as [G1 G2]. unfold timer_registered in G1, G2. rewrite (T2 _ NT), T3. split; assumption.
  - left. auto.
  - left. auto.
  - left. auto.
  - left. auto.
  - left. rewrite S12. auto.
  - right. split; rewrite S1; [exact I'|].
    intros t' H. destruct (Pos.eq_dec t' t) as [->|N]; [exact TR|]. apply HR. rewrite <- (T2 _ N). exact H.
  - right. intros _. rewrite S12. exact TC.
  - left. auto.
  - left. auto.
  - apply (FdI_keep s s1 (-1) (j_fd _ _ Jh)); try assumption; rewrite S12; reflexivity.
  - apply (FdX_keep s s1 (j_fx _ _ Jh)); try assumption; intros; rewrite S2; repeat split.
Qed.

Lemma timers_dispatch_post : forall fuel s, J true s -> Post true s (timers_dispatch sc fuel s).
Proof.
  induction fuel as [|fuel IH]; intros s Jh; cbn [timers_dispatch].
  - destruct (HeapModel.batch (heap s)) as [|t rest]; [apply Post_same; assumption|].
    cbn [Post halt]. rewrite mst_emit. apply good_quiet; [right; left; reflexivity|apply (j_good _ _ Jh)].
  - destruct (HeapModel.batch (heap s)) as [|t rest] eqn:B; [apply Post_same; assumption|].
    pose proof (J_call_timer s t rest Jh B) as J1. cbv zeta in J1.
    set (s1 := validate_now _) in *.
    assert (F1 : Fr s (emit s1 (TCallTimer (Z.pos t - 1) (time s1)))).
    { unfold s1, validate_now. cbn [time_valid set_heap]. destruct (time_valid s); apply Fr_plain; reflexivity. }
    eapply Post_fr; [exact F1|].
    eapply Post_bind; [apply run_script_post; exact J1|].
    intros s2 J2 _. apply IH. exact J2.
Qed.

Lemma run_timers_post : forall s, J true s -> Post true s (run_timers sc s).
Proof.
  intros s Jh. unfold run_timers.
  destruct (HeapModel.num (heap s) =? 0); [apply Post_same; assumption|].
  destruct (J_validate true s Jh) as (J1 & F1 & M1 & _).
  set (s1 := validate_now s) in *.
  eapply Post_fr; [exact F1|].
  destruct (J_SiTm _ _ J1) as [HI HR]. pose proof (J_AgTm _ _ J1) as GT.
  destruct (heap_collect_spec (heap s1) (time s1) HI) as (h' & C & I' & T).
  rewrite C. unfold lift_heap. cbn [bind].
  set (s2 := set_numobjs (set_heap s1 h') _).
  assert (J2 : J true s2).
  { apply (J_upd true s1 s2 J1); try reflexivity; try (apply (j_good _ _ J1));
      try (solve [left; repeat split; first [reflexivity | intros; apply fkeep_refl]]).
    - right. intros y Y. destruct (GT y Y) as [G1 G2]. unfold timer_registered in *.
      cbn [s2 heap set_numobjs set_heap]. destruct (T (tmid y)) as [T1 T2].
      rewrite (treg_iff _ _ _ _ T1), T2. split; assumption.
    - right. split; cbn [s2 heap set_numobjs set_heap]; [exact I'|].
      intros t H. apply HR. intros E. apply H. apply (proj1 (T t)). exact E.
    - apply (FdI_keep s1 s2 (-1) (j_fd _ _ J1)); reflexivity.
    - apply (FdX_keep s1 s2 (j_fx _ _ J1)); try reflexivity; intros; repeat split. }
  eapply Post_fr; [apply (Fr_plain s1 s2); reflexivity|].
  apply timers_dispatch_post. exact J2.
Qed.

(* ---------- iv_run_tasks ---------- *)
Definition PostT (s : core) (r : res) : Prop :=
  match r with R s' => J true s' /\ cur s' = None | Halt s' => Goodm (mst s') end.

Lemma J_pop_task : forall s k rest, J true s -> cur s = Some (k :: rest) ->
  let s3 := set_epoch (set_numobjs (set_tasks s (tasks s) (Some rest)) (numobjs s - 1)) (epoch s) (upd (tepoch s) k (epoch s)) in
  (k = LOCAL_TASK -> J true s3) /\ (k <> LOCAL_TASK -> J true (emit s3 (TCallTask k))).
Proof.
  intros s k rest Jh C s3.
  destruct (J_SiTk _ _ Jh) as [S1 S2]. pose proof (J_AgTk _ _ Jh) as GK.
  assert (CL : tasks s ++ curl s = tasks s ++ k :: rest) by (unfold curl; rewrite C; reflexivity).
  assert (CL3 : tasks s3 ++ curl s3 = tasks s ++ rest) by reflexivity.
  rewrite CL in S1, S2.
  assert (ND : ~ In k (tasks s ++ rest) /\ NoDup (tasks s ++ rest)) by (apply NoDup_remove in S2; tauto).
  destruct ND as [NI ND].
  assert (KR : 0 <= k <= 16) by (apply S1; apply in_or_app; right; left; reflexivity).
  assert (TR : forall y, task_registered s3 y = if y =? k then false else task_registered s y).
  { intros y. apply bool_eq_iff. rewrite task_registered_In, CL3.
    destruct (Z.eqb_spec y k) as [->|N]; [split; [contradiction|discriminate]|].
    rewrite task_registered_In, CL, !in_app_iff. cbn [In]. intuition congruence. }
  assert (SK3 : SiTk s3).
  { split; rewrite CL3; [|exact ND]. intros y H. apply S1. apply in_app_or in H. apply in_or_app.
    destruct H; [auto|right; right; assumption]. }
  assert (COMMON : forall m', a_main m' = a_main (mst s) -> Goodm m' ->
            a_fd m' = a_fd (mst s) -> a_fh m' = a_fh (mst s) -> a_ck m' = a_ck (mst s) -> a_tm m' = a_tm (mst s) ->
            a_exp m' = a_exp (mst s) -> a_ev m' = a_ev (mst s) -> a_evp m' = a_evp (mst s) -> a_rw m' = a_rw (mst s) ->
            a_quit m' = a_quit (mst s) -> a_clk m' = a_clk (mst s) -> AgTk s3 m' -> JM true s3 m').
  { intros m' Q10 G Q1 Q2 Q3 Q4 Q5 Q7 Q8 Q9 Q11 Q12 AK.
    apply (JM_upd true s s3 m' Jh); try assumption;
      try (solve [left; repeat split; first [reflexivity | assumption | intros; apply fkeep_refl]]).
    - right. exact AK.
    - right. exact SK3.
    - apply (FdI_keep s s3 (-1) (j_fd _ _ Jh)); reflexivity.
    - apply (FdX_keep s s3 (j_fx _ _ Jh)); try reflexivity; intros; repeat split. }
  split.
  - intros EK. apply J_JM. change (mst s3) with (mst s).
    apply COMMON; try reflexivity; [apply (j_good _ _ Jh)|].
    intros y Y. rewrite TR. destruct (Z.eqb_spec y k) as [->|N]; [unfold inr16, LOCAL_TASK in *; lia|apply GK; exact Y].
  - intros NK. apply J_emit_step. change (mst s3) with (mst s).
    assert (IK : inr16 k) by (unfold inr16, LOCAL_TASK in *; lia).
    set (m' := mon_step (mst s) (TCallTask k)).
    destruct (mview_fields m' _ (mview_TCallTask (mst s) k)) as (Q1 & Q2 & Q3 & Q4 & Q5 & Q6 & Q7 & Q8 & Q9 & Q10 & Q11 & Q12).
    cbn [a_fd a_fh a_ck a_tm a_exp a_tk a_ev a_evp a_rw a_main a_quit a_clk m_tks] in *.
    apply COMMON; try assumption.
    + unfold m'. apply good_TCallTask; [apply (j_good _ _ Jh)|apply (j_main _ _ Jh)|].
      rewrite (GK k IK). apply task_registered_In. rewrite CL. apply in_or_app. right. left. reflexivity.
    + intros y Y. rewrite Q6, TR. unfold upd. destruct (Z.eqb_spec y k); [reflexivity|apply GK; exact Y].
Qed.

Lemma tasks_loop_post : forall fuel s, J true s -> PostT s (tasks_loop sc fuel s).
Proof.
  induction fuel as [|fuel IH]; intros s Jh; cbn [tasks_loop].
  - destruct (cur s) as [[|k rest]|] eqn:C.
    + cbn [PostT]. split; [|reflexivity].
      apply (J_upd true s _ Jh); try reflexivity; try (apply (j_good _ _ Jh));
        try (solve [left; repeat split; first [reflexivity | intros; apply fkeep_refl]]).
      * right. intros y Y. change (a_tk (mst s) y = task_registered (set_tasks s (tasks s) None) y).
        rewrite (J_AgTk _ _ Jh y Y). unfold task_registered. cbn [tasks cur set_tasks]. rewrite C. reflexivity.
      * right. destruct (J_SiTk _ _ Jh) as [S1 S2]. unfold SiTk, curl in *. cbn [tasks cur set_tasks]. rewrite C in S1, S2. split; assumption.
      * apply (FdI_keep s _ (-1) (j_fd _ _ Jh)); reflexivity.
      * apply (FdX_keep s _ (j_fx _ _ Jh)); try reflexivity; intros; repeat split.
    + cbn [PostT halt]. rewrite mst_emit. apply good_quiet; [right; left; reflexivity|apply (j_good _ _ Jh)].
    + cbn [PostT]. auto.
  - destruct (cur s) as [[|k rest]|] eqn:C.
    + cbn [PostT]. split; [|reflexivity].
      apply (J_upd true s _ Jh); try reflexivity; try (apply (j_good _ _ Jh));
        try (solve [left; repeat split; first [reflexivity | intros; apply fkeep_refl]]).
      * right. intros y Y. change (a_tk (mst s) y = task_registered (set_tasks s (tasks s) None) y).
        rewrite (J_AgTk _ _ Jh y Y). unfold task_registered. cbn [tasks cur set_tasks]. rewrite C. reflexivity.
      * right. destruct (J_SiTk _ _ Jh) as [S1 S2]. unfold SiTk, curl in *. cbn [tasks cur set_tasks]. rewrite C in S1, S2. split; assumption.
      * apply (FdI_keep s _ (-1) (j_fd _ _ Jh)); reflexivity.
      * apply (FdX_keep s _ (j_fx _ _ Jh)); try reflexivity; intros; repeat split.
    + destruct (J_pop_task s k rest Jh C) as [JL JN]. cbv zeta in JL, JN.
      set (s3 := set_epoch _ _ _) in *.
      assert (K : forall r, Post true s3 r \/ (exists s4, Fr s4 s4 /\ Post true s4 r) -> PostT s (bind r (tasks_loop sc fuel))).
      { intros r P. assert (P' : match r with R s' => J true s' | Halt s' => Goodm (mst s') end).
        { destruct P as [P|(s4 & _ & P)]; destruct r; cbn [Post] in P; tauto. }
        destruct r as [s5|s5]; cbn [bind PostT]; [apply IH; exact P'|exact P']. }
      destruct (Z.eqb_spec k LOCAL_TASK) as [EK|NK].
      * apply K. left. apply run_pending_events_post. apply JL. exact EK.
      * apply K. right. exists (emit s3 (TCallTask k)). split; [apply Fr_refl|].
        apply run_script_post. apply JN. exact NK.
    + cbn [PostT]. auto.
Qed.

Lemma run_tasks_post : forall s, J true s -> cur s = None -> PostT s (run_tasks sc s).
Proof.
  intros s Jh C. unfold run_tasks.
  set (s1 := set_epoch (set_tasks s [] (Some (tasks s))) _ _).
  assert (J1 : J true s1).
  { apply (J_upd true s s1 Jh); try reflexivity; try (apply (j_good _ _ Jh));
      try (solve [left; repeat split; first [reflexivity | intros; apply fkeep_refl]]).
    - right. intros y Y. change (a_tk (mst s) y = task_registered s1 y).
      rewrite (J_AgTk _ _ Jh y Y). unfold task_registered. cbn [s1 tasks cur set_tasks set_epoch].
      rewrite C. cbn [mem_z existsb orb]. rewrite orb_false_r. reflexivity.
    - right. destruct (J_SiTk _ _ Jh) as [S1 S2]. unfold SiTk, curl in *. cbn [s1 tasks cur set_tasks set_epoch].
      rewrite C in S1, S2. rewrite app_nil_r in S1, S2. split; assumption.
    - apply (FdI_keep s s1 (-1) (j_fd _ _ Jh)); reflexivity.
    - apply (FdX_keep s s1 (j_fx _ _ Jh)); try reflexivity; intros; repeat split. }
  pose proof (tasks_loop_post 64 s1 J1) as P. destruct (tasks_loop sc 64 s1); exact P.
Qed.
End Loop.
