(* CorePhase2TimeT1.v -- first invariant of the "nothing due" clauses:
   members of the expired batch are due (code 401), the loop's cached time is
   the clock unless it was advanced behind the loop's back, a task that ran in
   this round is stamped with the current epoch and is not on the running list
   (code 603).  Definitions, generic update lemmas, the scenario actions. *)
From Coq Require Import List ZArith Bool Lia.
From Ivv Require Import Core.Kernel Core.CoreTypes Core.CoreFd Core.CoreModel Core.Monitors Core.CoreSpec
  Core.CoreRel Core.CorePhase2TimeMon Core.CorePhase2TimeFr.
From Ivv Require Timer.HeapModel Timer.HeapBase Timer.HeapFacts Timer.HeapReg Timer.HeapUnreg Timer.HeapCollect
  Timer.HeapDispatch.
Import ListNotations.
Local Open Scope Z_scope.

Definition BatchDue (s : core) : Prop := forall t, In t (HeapModel.batch (heap s)) ->
  HeapModel.texp (heap s) t <= clock (kern s) /\ (time_valid s = true -> HeapModel.texp (heap s) t <= time s).
Definition StaleOK (s : core) : Prop :=
  (a_stale (mst s) = false -> time_valid s = true -> time s = clock (kern s)) /\
  1 <= clock (kern s) /\ (time_valid s = true -> 1 <= time s).
Definition RanOK (s : core) : Prop :=
  forall k, In k (ran (mst s)) -> tepoch s k = epoch s /\ ~ In k (curl s).
(* the clauses 901 / 902 are carried only under the assumption that a posted raw event is
   readable at every kernel wait (class RawAssume: False = not assumed) *)
Class RawAssume := raw_assume : Prop.
Definition CODES : list Z := [401; 603; 602; 604; 403; 404; 405].
Definition RCODES : list Z := [901; 902].
Definition ALLC : list Z := [401; 603; 602; 604; 403; 404; 405; 901; 902].
Definition clean_ev (e : tev) : bool := forallb (fun c => negb (mem_z c (codes_of e))) ALLC.

Section RA.
Context `{RAi : RawAssume}.

Definition Act (c : Z) : Prop := In c CODES \/ (raw_assume /\ In c RCODES).
Lemma Act_all : forall c, Act c -> In c ALLC.
Proof. intros c [H|[_ H]]; cbn in *; tauto. Qed.
Lemma Act_raw : forall c, Act c -> In c RCODES -> raw_assume.
Proof. intros c [H|[H _]] R; [|exact H]. cbn in *. exfalso. intuition (subst; discriminate). Qed.
Definition G1 (m : mon) : Prop := forall c, Act c -> NF c m.

Lemma G1_step : forall m e, G1 m -> clean_ev e = true -> G1 (mon_step m e).
Proof.
  intros m e G C c Hc. apply NF_step; [apply G; exact Hc|].
  unfold clean_ev in C. rewrite forallb_forall in C. specialize (C c (Act_all c Hc)).
  apply negb_true_iff in C. apply mem_z_false in C. exact C.
Qed.

Record T1 (s : core) : Prop := {
  t1_batch : BatchDue s;
  t1_stale : StaleOK s;
  t1_ran : RanOK s;
  t1_good : G1 (mst s) }.

Lemma lf_fields : forall s s', lf s' = lf s ->
  heap s' = heap s /\ time s' = time s /\ time_valid s' = time_valid s /\ tasks s' = tasks s /\ cur s' = cur s /\
  epoch s' = epoch s /\ tepoch s' = tepoch s /\ clock (kern s') = clock (kern s).
Proof. intros s s' H. unfold lf in H. inversion H. repeat split; assumption. Qed.

Lemma T1_upd : forall s s', T1 s ->
  ((heap s' = heap s /\ time s' = time s /\ time_valid s' = time_valid s /\ clock (kern s') = clock (kern s)) \/ BatchDue s') ->
  ((a_stale (mst s') = a_stale (mst s) /\ time s' = time s /\ time_valid s' = time_valid s /\
    clock (kern s') = clock (kern s)) \/ StaleOK s') ->
  ((ran (mst s') = ran (mst s) /\ tepoch s' = tepoch s /\ epoch s' = epoch s /\ cur s' = cur s) \/ RanOK s') ->
  G1 (mst s') -> T1 s'.
Proof.
  intros s s' [B S R G] HB HS HR HG. constructor; [| | |exact HG].
  - destruct HB as [(E1 & E2 & E3 & E4)|HB]; [|exact HB]. unfold BatchDue. rewrite E1, E2, E3, E4. exact B.
  - destruct HS as [(E1 & E2 & E3 & E4)|HS]; [|exact HS]. unfold StaleOK. rewrite E1, E2, E3, E4. exact S.
  - destruct HR as [(E1 & E2 & E3 & E4)|HR]; [|exact HR]. unfold RanOK, curl. rewrite E1, E2, E3, E4. exact R.
Qed.

Lemma G1_silent : forall m m', silent_ext m m' -> G1 m -> G1 m'.
Proof.
  intros m m' S G c Hc. eapply silent_NF; [exact S| | |apply G; exact Hc];
    apply Act_all in Hc; cbn in Hc; intuition (subst; discriminate).
Qed.

Lemma silent_ghost : forall m m', silent_ext m m' -> a_stale m' = a_stale m /\ ran m' = ran m /\ a_rwp m' = a_rwp m.
Proof. intros m m' (l & -> & _). repeat split. Qed.

Lemma T1_F0 : forall s s', T1 s -> F0 s s' -> T1 s'.
Proof.
  intros s s' T [L X]. destruct (lf_fields _ _ L) as (E1 & E2 & E3 & E4 & E5 & E6 & E7 & E8).
  pose proof (TrX_silent _ _ X) as SL. destruct (silent_ghost _ _ SL) as (G1' & G2 & _).
  apply (T1_upd s s' T); [left; auto|left; auto|left; auto|].
  eapply G1_silent; [exact SL|apply (t1_good _ T)].
Qed.

Lemma F0_ran : forall s s', F0 s s' -> ran (mst s') = ran (mst s).
Proof. intros s s' [_ X]. apply (silent_ghost _ _ (TrX_silent _ _ X)). Qed.

(* an event that changes neither ghost field *)
Lemma T1_emit : forall s e, T1 s -> a_stale (mon_step (mst s) e) = a_stale (mst s) ->
  ran (mon_step (mst s) e) = ran (mst s) -> clean_ev e = true -> T1 (emit s e).
Proof.
  intros s e T A R N1.
  apply (T1_upd s _ T); rewrite ?mst_emit.
  - left. repeat split.
  - left. repeat split. exact A.
  - left. repeat split. exact R.
  - apply G1_step; [apply (t1_good _ T)|exact N1].
Qed.

Lemma T1_act : forall s a, T1 s -> (forall d, a <> AClockAdv d) -> a <> AInvalidate -> T1 (emit s (TAct a)).
Proof.
  intros s a T N1 N2. apply T1_emit; try assumption; try reflexivity.
  - rewrite a_stale_step. destruct a; try reflexivity; [exfalso; eapply N1; reflexivity|contradiction].
  - rewrite ran_step. reflexivity.
Qed.

Lemma T1_res : forall s kind id rc, T1 s -> T1 (emit s (TRes kind id rc)).
Proof.
  intros s kind id rc T. apply T1_emit; try assumption; try reflexivity.
  - rewrite a_stale_step. reflexivity.
  - rewrite ran_step. reflexivity.
Qed.

Lemma ran_emit_act : forall s a, ran (mst (emit s (TAct a))) = ran (mst s).
Proof. intros. rewrite mst_emit, ran_step. reflexivity. Qed.
Lemma ran_emit_res : forall s k i r, ran (mst (emit s (TRes k i r))) = ran (mst s).
Proof. intros. rewrite mst_emit, ran_step. reflexivity. Qed.

(* ---------- results ---------- *)
Definition RanF (s s' : core) : Prop :=
  (ran (mst s) = [] -> ran (mst s') = []) /\ (HeapModel.batch (heap s) = [] -> HeapModel.batch (heap s') = []).
Definition Q1 (s : core) (r : res) : Prop :=
  match r with R s' => T1 s' /\ RanF s s' | Halt s' => G1 (mst s') end.

Lemma RanF_refl : forall s, RanF s s. Proof. intros s. split; auto. Qed.
Lemma RanF_trans : forall a b c, RanF a b -> RanF b c -> RanF a c.
Proof. intros a b c [A1 A2] [B1 B2]. split; auto. Qed.
Lemma RanF_eq : forall s s', ran (mst s') = ran (mst s) -> heap s' = heap s -> RanF s s'.
Proof. intros s s' E H. split; congruence. Qed.
Lemma RanF_mk : forall s s', ran (mst s') = ran (mst s) ->
  (HeapModel.batch (heap s) = [] -> HeapModel.batch (heap s') = []) -> RanF s s'.
Proof. intros s s' E H. split; [congruence|exact H]. Qed.

Lemma Q1_same : forall s, T1 s -> Q1 s (R s).
Proof. intros s T. split; [exact T|apply RanF_refl]. Qed.

Lemma Q1_of : forall s r, T1 (res_state r) -> ran (mst (res_state r)) = ran (mst s) ->
  (HeapModel.batch (heap s) = [] -> HeapModel.batch (heap (res_state r)) = []) -> Q1 s r.
Proof.
  intros s r T E B. destruct r as [s'|s']; cbn [res_state Q1] in *.
  - split; [exact T|apply RanF_mk; assumption].
  - apply (t1_good _ T).
Qed.

Lemma F0_heap : forall s s', F0 s s' -> heap s' = heap s.
Proof. intros s s' [L _]. apply (lf_fields _ _ L). Qed.

Lemma Q1_l : forall s0 s r, RanF s0 s -> Q1 s r -> Q1 s0 r.
Proof.
  intros s0 s r F Q. destruct r; cbn [Q1] in *; [|exact Q]. destruct Q as [A B].
  split; [exact A|eapply RanF_trans; eassumption].
Qed.

Lemma Q1_bind : forall b s r f, Post b s r -> Q1 s r ->
  (forall s1, J b s1 -> T1 s1 -> Q1 s1 (f s1)) -> Q1 s (bind r f).
Proof.
  intros b s r f P Q K. destruct r as [s1|s1]; cbn [bind Post Q1] in *; [|exact Q].
  destruct P as [J1 _]. destruct Q as [T1' F1]. eapply Q1_l; [exact F1|]. apply K; assumption.
Qed.

(* ---------- actions that stay inside the descriptor / event / raw layers ---------- *)
Definition plain_act (a : action) : Prop := (forall d, a <> AClockAdv d) /\ a <> AInvalidate.

Lemma act_F0 : forall s a r, T1 s -> plain_act a -> F0r (emit s (TAct a)) r -> Q1 s r.
Proof.
  intros s a r T [P1 P2] F. pose proof (T1_act s a T P1 P2) as TE.
  apply Q1_of; [eapply T1_F0; eassumption| |].
  - rewrite (F0_ran _ _ F). apply ran_emit_act.
  - rewrite (F0_heap _ _ F). auto.
Qed.

Lemma act_F0_res : forall s a r k i c, T1 s -> plain_act a -> F0r (emit s (TAct a)) r ->
  Q1 s (bind r (fun s1 => R (emit s1 (TRes k i c)))).
Proof.
  intros s a r k i c T P F. pose proof (act_F0 s a r T P F) as Q.
  destruct r as [s1|s1]; cbn [bind Q1] in *; [|exact Q]. destruct Q as [T1' R1].
  split; [apply T1_res; exact T1'|]. destruct R1 as [R1 R2]. split; [|exact R2]. intros H. rewrite ran_emit_res. apply R1. exact H.
Qed.

(* ---------- timers ---------- *)
Lemma BatchDue_heap : forall s s', BatchDue s -> time s' = time s -> time_valid s' = time_valid s ->
  clock (kern s') = clock (kern s) ->
  (forall t, In t (HeapModel.batch (heap s')) -> In t (HeapModel.batch (heap s)) /\
             HeapModel.texp (heap s') t = HeapModel.texp (heap s) t) -> BatchDue s'.
Proof.
  intros s s' B E1 E2 E3 H t I. destruct (H t I) as [I0 X]. rewrite X, E1, E2, E3. apply B. exact I0.
Qed.

Lemma T1_heap : forall s s', T1 s -> lf s' = (heap s', time s, time_valid s, tasks s, cur s, epoch s, tepoch s, clock (kern s)) ->
  mst s' = mst s ->
  (forall t, In t (HeapModel.batch (heap s')) -> In t (HeapModel.batch (heap s)) /\
             HeapModel.texp (heap s') t = HeapModel.texp (heap s) t) -> T1 s'.
Proof.
  intros s s' T L M H. unfold lf in L. inversion L as [[E2 E3 E4 E5 E6 E7 E8]].
  apply (T1_upd s s' T); rewrite ?M.
  - right. eapply BatchDue_heap; [apply (t1_batch _ T)|assumption..].
  - left. auto.
  - left. auto.
  - apply (t1_good _ T).
Qed.

Lemma In_remove_first : forall t x l, In t (HeapModel.remove_first x l) -> In t l.
Proof. intros t x l H. eapply HeapDispatch.sub_in; [apply HeapDispatch.sub_remove_first|exact H]. Qed.

Lemma reg_Q1 : forall s j e, HeapFacts.Inv (heap s) -> T1 s -> timer_registered s j = false ->
  Q1 s (lift_heap s (HeapModel.register (HeapModel.set_exp (heap s) (tmid j) e) (tmid j))).
Proof.
  intros s j e HI T U.
  pose proof (treg_false _ _ U) as TI.
  destruct (HeapReg.register_inv (HeapModel.set_exp (heap s) (tmid j) e) (tmid j)) as (h' & R & _ & _ & _ & X & B & _).
  - apply HeapDispatch.set_exp_inv; assumption.
  - apply HeapBase.tget_set_exp_same.
  - rewrite HeapBase.tidx_set_exp. exact TI.
  - rewrite R. unfold lift_heap. apply Q1_of; cbn [res_state]; [|reflexivity|
      cbn [heap set_numobjs set_heap]; intros HB; rewrite B;
      destruct (HeapBase.set_exp_fields (heap s) (tmid j) e) as (_ & _ & _ & BE' & _); rewrite BE'; exact HB].
    apply (T1_heap s _ T); [reflexivity|reflexivity|].
    cbn [heap set_numobjs set_heap]. intros t I. rewrite B in I. destruct (HeapBase.set_exp_fields (heap s) (tmid j) e) as (_ & _ & _ & BE & _). rewrite BE in I.
    split; [exact I|]. rewrite X. apply HeapBase.texp_set_exp_other.
    intros ->. apply (proj1 (HeapFacts.i_batch _ HI)) in I. lia.
Qed.

Lemma unreg_Q1 : forall s j, HeapFacts.Inv (heap s) -> T1 s -> timer_registered s j = true ->
  Q1 s (lift_heap s (HeapModel.unregister (heap s) (tmid j))).
Proof.
  intros s j HI T U.
  pose proof (treg_true _ _ U) as TI.
  pose proof (proj2 (proj2 (HeapFacts.i_batch _ HI)) (tmid j)) as LB.
  destruct (Z.eq_dec (HeapModel.tidx (heap s) (tmid j)) 0) as [Z0|NZ].
  - rewrite (HeapUnreg.unregister_expired_eq _ _ Z0).
    destruct (HeapUnreg.pop_inv _ _ HI Z0) as (_ & _ & _ & X & B & _).
    unfold lift_heap. apply Q1_of; cbn [res_state]; [|reflexivity|
      cbn [heap set_numobjs set_heap]; intros HB; rewrite B, HB; reflexivity].
    apply (T1_heap s _ T); [reflexivity|reflexivity|].
    cbn [heap set_numobjs set_heap]. intros t I. rewrite B in I. split; [eapply In_remove_first; exact I|apply X].
  - assert (GE : 1 <= HeapModel.tidx (heap s) (tmid j)) by lia.
    destruct (HeapUnreg.unregister_inv _ _ HI GE) as (h' & R & _ & _ & _ & X & B & _).
    rewrite R. unfold lift_heap. apply Q1_of; cbn [res_state]; [|reflexivity|
      cbn [heap set_numobjs set_heap]; intros HB; rewrite B; exact HB].
    apply (T1_heap s _ T); [reflexivity|reflexivity|].
    cbn [heap set_numobjs set_heap]. intros t I. rewrite B in I. split; [exact I|apply X].
Qed.

(* ---------- tasks ---------- *)
Lemma T1_tasks : forall s s', T1 s -> heap s' = heap s -> time s' = time s -> time_valid s' = time_valid s ->
  clock (kern s') = clock (kern s) -> mst s' = mst s -> RanOK s' -> T1 s'.
Proof.
  intros s s' T E1 E2 E3 E4 M R. apply (T1_upd s s' T); rewrite ?M; [left; auto|left; auto|right; exact R|apply (t1_good _ T)].
Qed.

Lemma mst_task_register : forall s k, mst (task_register s k) = mst s.
Proof. intros. apply mst_trace. unfold task_register. cbn [set_numobjs cur]. repeat dmatch; reflexivity. Qed.

Lemma RanOK_task_register : forall s k, RanOK s -> RanOK (task_register s k).
Proof.
  intros s k R y Y. rewrite mst_task_register in Y. destruct (R y Y) as [E N].
  unfold curl in N. unfold task_register, curl. cbn [cur tepoch epoch tasks set_numobjs].
  destruct (cur s) as [c|] eqn:C.
  - destruct (Z.eqb_spec (tepoch s k) (epoch s)) as [EQ|NE]; cbn [tepoch epoch cur set_tasks set_numobjs].
    + split; assumption.
    + split; [exact E|]. intros I. apply in_app_or in I. destruct I as [I|[I|[]]]; [exact (N I)|subst y; exact (NE E)].
  - cbn [tepoch epoch cur set_tasks set_numobjs]. split; [exact E|intros []].
Qed.

Lemma T1_task_register : forall s k, T1 s -> T1 (task_register s k).
Proof.
  intros s k T. apply (T1_tasks s _ T); try apply mst_task_register; try (unfold task_register; cbn [set_numobjs cur]; repeat dmatch; reflexivity).
  apply RanOK_task_register. apply (t1_ran _ T).
Qed.

Lemma T1_task_unregister : forall s k, T1 s -> T1 (task_unregister s k).
Proof.
  intros s k T. apply (T1_tasks s _ T); try reflexivity.
  intros y Y. change (mst (task_unregister s k)) with (mst s) in Y. destruct (t1_ran _ T y Y) as [E N].
  split; [exact E|]. unfold curl, task_unregister in *. cbn [cur set_tasks set_numobjs].
  destruct (cur s) as [c|]; [|exact N]. intros I. apply In_remove_z in I. apply N. apply I.
Qed.

Lemma T1_task_fresh : forall s j, T1 s -> T1 (set_epoch s (epoch s) (upd (tepoch s) j (epoch s))).
Proof.
  intros s j T. apply (T1_tasks s _ T); try reflexivity.
  intros y Y. change (mst (set_epoch s (epoch s) (upd (tepoch s) j (epoch s)))) with (mst s) in Y.
  destruct (t1_ran _ T y Y) as [E N]. split; [|exact N].
  cbn [tepoch epoch set_epoch]. unfold upd. destruct (y =? j); [reflexivity|exact E].
Qed.

Lemma T1_setters : forall s s', T1 s -> lf s' = lf s -> trace s' = trace s -> T1 s'.
Proof. intros s s' T L E. apply (T1_F0 s s' T). apply F0_plain; assumption. Qed.

Lemma T1_event_post : forall s j, T1 s -> T1 (event_post s j).
Proof.
  intros s j T. unfold event_post. destruct (ev_on_list s j); [exact T|].
  set (s1 := set_evlists s (ev_pending s ++ [j]) (ev_batch s)).
  assert (T1' : T1 s1) by (apply (T1_setters s s1 T); reflexivity).
  destruct (match ev_pending s with [] => true | _ => false end && negb (task_registered s1 LOCAL_TASK));
    [apply T1_task_register; exact T1'|exact T1'].
Qed.

Lemma heap_task_register : forall s k, heap (task_register s k) = heap s.
Proof. intros. unfold task_register. cbn [set_numobjs cur]. repeat dmatch; reflexivity. Qed.
Lemma heap_event_post : forall s j, heap (event_post s j) = heap s.
Proof.
  intros. unfold event_post. destruct (ev_on_list s j); [reflexivity|].
  dmatch; [|reflexivity]. rewrite heap_task_register. reflexivity.
Qed.
Lemma mst_event_post : forall s j, mst (event_post s j) = mst s.
Proof.
  intros. apply mst_trace. unfold event_post. destruct (ev_on_list s j); [reflexivity|].
  dmatch; [|reflexivity]. unfold task_register. cbn [set_numobjs cur set_evlists]. repeat dmatch; reflexivity.
Qed.

(* ---------- clock and cached time ---------- *)
Lemma T1_validate : forall s, T1 s -> T1 (validate_now s).
Proof.
  intros s T. unfold validate_now. destruct (time_valid s) eqn:TV; [exact T|].
  destruct (t1_stale _ T) as (ST1 & ST2 & ST3).
  apply (T1_upd s _ T).
  - right. intros t I. cbn [heap time time_valid kern set_time] in *. destruct (t1_batch _ T t I) as [A _]. auto.
  - right. split; [intros _ _; reflexivity|]. split; [exact ST2|intros _; exact ST2].
  - left. repeat split.
  - apply (t1_good _ T).
Qed.

Lemma T1_invalidate : forall s, T1 s -> T1 (invalidate_now s).
Proof.
  intros s T. destruct (t1_stale _ T) as (ST1 & ST2 & ST3). apply (T1_upd s _ T).
  - right. intros t I. cbn [heap time time_valid kern set_time invalidate_now] in *. destruct (t1_batch _ T t I) as [A _].
    split; [exact A|discriminate].
  - right. split; [intros _ H; discriminate H|]. split; [exact ST2|intros H; discriminate H].
  - left. repeat split.
  - apply (t1_good _ T).
Qed.

Lemma ran_validate : forall s, ran (mst (validate_now s)) = ran (mst s).
Proof. intros s. unfold validate_now. destruct (time_valid s); reflexivity. Qed.

Lemma T1_clock_adv : forall s d, T1 s -> 0 <= d ->
  T1 (set_kern (emit s (TAct (AClockAdv d))) (k_set_clock (kern s) (clock (kern s) + d))).
Proof.
  intros s d T D. set (s' := set_kern _ _).
  assert (M : mst s' = mon_step (mst s) (TAct (AClockAdv d))) by (change (mst s') with (mst (emit s (TAct (AClockAdv d)))); apply mst_emit).
  destruct (t1_stale _ T) as (ST1 & ST2 & ST3).
  apply (T1_upd s s' T); rewrite ?M.
  - right. intros t I. destruct (t1_batch _ T t I) as [A B]. cbn [s' kern set_kern clock k_set_clock time time_valid emit set_trace].
    change (heap s') with (heap s). split; [lia|exact B].
  - right. unfold StaleOK. rewrite M, a_stale_step. split; [discriminate|].
    cbn [s' kern set_kern clock k_set_clock time time_valid emit set_trace]. split; [lia|exact ST3].
  - left. rewrite ran_step. repeat split.
  - apply G1_step; [apply (t1_good _ T)|reflexivity].
Qed.

Lemma T1_act_invalidate : forall s, T1 s -> T1 (invalidate_now (emit s (TAct AInvalidate))).
Proof.
  intros s T. set (s' := invalidate_now _).
  assert (M : mst s' = mon_step (mst s) (TAct AInvalidate)) by (change (mst s') with (mst (emit s (TAct AInvalidate))); apply mst_emit).
  destruct (t1_stale _ T) as (ST1 & ST2 & ST3).
  apply (T1_upd s s' T); rewrite ?M.
  - right. intros t I. destruct (t1_batch _ T t I) as [A B]. split; [exact A|discriminate].
  - right. split; [intros _ H; discriminate H|]. split; [exact ST2|intros H; discriminate H].
  - left. rewrite ran_step. repeat split.
  - apply G1_step; [apply (t1_good _ T)|reflexivity].
Qed.

(* ---------- every action ---------- *)
Lemma plain_dec : forall a, (forall d, a <> AClockAdv d) -> a <> AInvalidate -> plain_act a.
Proof. intros a A B. split; assumption. Qed.

Ltac pl := split; [intros ?; discriminate|discriminate].

Theorem do_action_Q1 : forall b s a, J b s -> T1 s -> wf_action a -> Q1 s (do_action s a).
Proof.
  intros b s a Jh T W. destruct (J_SiTm _ _ Jh) as [HI _].
  destruct a; cbn [do_action];
    try (match goal with |- Q1 s (if ?c then _ else _) => destruct c eqn:GD end);
    try (apply Q1_same; exact T).
  - (* AFdReg *) destruct (k_open (kern s) (fdnum (getfd s i))); [|apply Q1_same; exact T].
    eapply act_F0; [exact T| |apply FFr_F0r; apply fd_register_FF]; pl.
  - (* AFdTry *) pose proof (fd_register_try_FF (emit s (TAct (AFdTry i))) i) as F.
    destruct (fd_register_try (emit s (TAct (AFdTry i))) i) as [r failed]. cbn [fst] in F.
    eapply act_F0_res; [exact T| |apply FFr_F0r; exact F]; pl.
  - (* AFdUnreg *) eapply act_F0; [exact T| |apply FFr_F0r; apply fd_unregister_FF]; pl.
  - (* AFdSetH *) eapply act_F0; [exact T| |apply FFr_F0r; apply fd_set_handler_FF]; pl.
  - (* AFdCookie *) eapply act_F0; [exact T| |apply F0_plain; reflexivity]; pl.
  - (* AFdFresh *) eapply act_F0; [exact T| |apply F0_plain; reflexivity]; pl.
  - (* AKSet *) apply (act_F0 s (AKSet i c)); [exact T|pl|].
    apply (F0_set_kern (emit s (TAct (AKSet i c)))). apply ksame_set_cond.
  - (* AKClose *) apply (act_F0 s (AKClose i)); [exact T|pl|].
    apply (F0_set_kern (emit s (TAct (AKClose i)))). apply ksame_user_close.
  - (* AKOpen *) apply (act_F0 s (AKOpen i)); [exact T|pl|].
    apply (F0_set_kern (emit s (TAct (AKOpen i)))). apply ksame_user_fd.
  - (* ATmRegAbs *) eapply Q1_l; [apply RanF_eq; [apply (ran_emit_act s (ATmRegAbs j e))|reflexivity]|].
    apply (reg_Q1 (emit s (TAct (ATmRegAbs j e))) j e); [exact HI|apply T1_act; [exact T|intros ?; discriminate|discriminate]|exact GD].
  - (* ATmRegRel *) set (s1 := validate_now s).
    assert (T1' : T1 s1) by (apply T1_validate; exact T).
    assert (H1 : heap s1 = heap s) by (unfold s1, validate_now; destruct (time_valid s); reflexivity).
    set (e := time s1 + d). set (s2 := emit s1 (TAct (ATmRegAbs j e))).
    eapply Q1_l; [apply RanF_eq; [transitivity (ran (mst s1)); [apply (ran_emit_act s1 (ATmRegAbs j e))|apply ran_validate]|exact H1]|].
    change (heap s1) with (heap s2).
    apply (reg_Q1 s2 j e); [cbn [s2 heap emit set_trace]; rewrite H1; exact HI|apply T1_act; [exact T1'|intros ?; discriminate|discriminate]|].
    unfold timer_registered in *. cbn [s2 heap emit set_trace]. rewrite H1. exact GD.
  - (* ATmUnreg *) eapply Q1_l; [apply RanF_eq; [apply (ran_emit_act s (ATmUnreg j))|reflexivity]|].
    apply (unreg_Q1 (emit s (TAct (ATmUnreg j))) j); [exact HI|apply T1_act; [exact T|intros ?; discriminate|discriminate]|exact GD].
  - (* ATmFresh *) eapply act_F0; [exact T| |apply F0_refl]; pl.
  - (* ATkReg *) apply Q1_of; cbn [res_state].
    + apply T1_task_register. apply T1_act; [exact T|intros ?; discriminate|discriminate].
    + rewrite mst_task_register. apply ran_emit_act.
    + intros HB. rewrite heap_task_register. exact HB.
  - (* ATkUnreg *) apply Q1_of; cbn [res_state].
    + apply T1_task_unregister. apply T1_act; [exact T|intros ?; discriminate|discriminate].
    + apply (ran_emit_act s (ATkUnreg j)).
    + intros HB. exact HB.
  - (* ATkFresh *) apply Q1_of; cbn [res_state].
    + apply (T1_task_fresh (emit s (TAct (ATkFresh j))) j). apply T1_act; [exact T|intros ?; discriminate|discriminate].
    + apply (ran_emit_act s (ATkFresh j)).
    + intros HB. exact HB.
  - (* AEvReg *) pose proof (event_register_F0 (emit s (TAct (AEvReg j))) j) as F.
    destruct (event_register (emit s (TAct (AEvReg j))) j) as [r failed]. cbn [fst] in F.
    eapply act_F0_res; [exact T| |exact F]; pl.
  - (* AEvUnreg *) eapply act_F0; [exact T| |apply event_unregister_F0]; pl.
  - (* AEvPost *) apply Q1_of; cbn [res_state].
    + apply T1_event_post. apply T1_act; [exact T|intros ?; discriminate|discriminate].
    + rewrite mst_event_post. apply ran_emit_act.
    + intros HB. rewrite heap_event_post. exact HB.
  - (* AEvFresh *) eapply act_F0; [exact T| |apply F0_refl]; pl.
  - (* ARwReg *) pose proof (raw_register_F0 (emit s (TAct (ARwReg j))) j) as F.
    destruct (raw_register (emit s (TAct (ARwReg j))) j) as [r failed]. cbn [fst] in F.
    eapply act_F0_res; [exact T| |exact F]; pl.
  - (* ARwUnreg *) eapply act_F0; [exact T| |apply raw_unregister_F0]; pl.
  - (* ARwPost *) eapply act_F0; [exact T| |apply (raw_post_F0 (emit s (TAct (ARwPost j))) j)]; pl.
  - (* ARwFresh *) eapply act_F0; [exact T| |apply F0_refl]; pl.
  - (* AQuit *) eapply act_F0; [exact T| |apply F0_plain; reflexivity]; pl.
  - (* AClockAdv *) apply Q1_of; cbn [res_state]; [apply T1_clock_adv; [exact T|exact W]| |intros HB; exact HB].
    change (ran (mst (emit s (TAct (AClockAdv d)))) = ran (mst s)). apply ran_emit_act.
  - (* AInvalidate *) apply Q1_of; cbn [res_state]; [apply T1_act_invalidate; exact T| |intros HB; exact HB].
    change (ran (mst (emit s (TAct AInvalidate))) = ran (mst s)). apply ran_emit_act.
  - (* AValidate *) apply Q1_of; cbn [res_state].
    + apply T1_validate. apply T1_act; [exact T|intros ?; discriminate|discriminate].
    + rewrite ran_validate. apply ran_emit_act.
    + intros HB. unfold validate_now. destruct (time_valid _); exact HB.
Qed.

Lemma run_acts_Q1 : forall b l s, J b s -> T1 s -> Forall wf_action l -> Q1 s (run_acts s l).
Proof.
  intros b l. induction l as [|a l IH]; intros s Jh T W; cbn [run_acts]; [apply Q1_same; exact T|].
  inversion W as [|? ? W1 W2]; subst.
  eapply (Q1_bind b); [apply do_action_post; eassumption|eapply do_action_Q1; eassumption|].
  intros s1 J1 T1'. apply IH; assumption.
Qed.
End RA.
