(* CorePhase2EiStep.v -- which events the phases of the loop append, in the classes needed for code 1501:
   timers / tasks / events never log a descriptor callback or a wait boundary (class cn); the poll
   functions log no descriptor callback and either leave the dispatch list alone (interrupted wait) or
   end after a TRet (Some _) event. *)
From Coq Require Import List ZArith Bool Lia.
From Ivv Require Import Core.Kernel Core.CoreTypes Core.CoreFd Core.CoreModel Core.Monitors Core.CoreSpec
  Core.CoreRelBase Core.CorePhase2FdMon Core.CorePhase2FdStep Core.CorePhase2AcctTr Core.CorePhase2AcctTr2
  Core.CorePhase2EiMon.
From Ivv Require Timer.HeapModel.
Import ListNotations.
Local Open Scope Z_scope.

(* ---------- the tracker along a trace extension ---------- *)
Lemma mst_app : forall s s' l, trace s' = l ++ trace s -> mst s' = fold_left mon_step (rev l) (mst s).
Proof. intros s s' l E. unfold mst, mon_run. rewrite E, rev_app_distr, fold_left_app. reflexivity. Qed.

Lemma fold_inv : forall (Q : mon -> Prop) (P : tev -> Prop), (forall m e, P e -> Q m -> Q (mon_step m e)) ->
  forall l m, Forall P l -> Q m -> Q (fold_left mon_step l m).
Proof.
  intros Q P H. induction l as [|e l IH]; intros m F Q0; [exact Q0|].
  inversion F; subst. cbn [fold_left]. apply IH; [assumption|]. apply H; assumption.
Qed.

Lemma TrExt_inv : forall (Q : mon -> Prop) (P : tev -> Prop), (forall m e, P e -> Q m -> Q (mon_step m e)) ->
  forall s s', TrExt P s s' -> Q (mst s) -> Q (mst s').
Proof.
  intros Q P H s s' (l & E & F) Q0. rewrite (mst_app s s' l E). apply (fold_inv Q P H); [|exact Q0].
  apply Forall_rev. exact F.
Qed.

Lemma TrExt_good15 : forall s s', TrExt nc s s' -> Good15 (mst s) -> Good15 (mst s').
Proof. apply (TrExt_inv Good15 nc). intros m e. apply good15_nc. Qed.

Lemma TrExt_Z15 : forall s s', TrExt nr s s' -> Z15 (mst s) -> Z15 (mst s').
Proof. apply (TrExt_inv Z15 nr). intros m e. apply Z15_nr. Qed.

(* callbacks other than descriptor callbacks, actions, results *)
Definition cn (e : tev) : Prop :=
  match e with
  | TAct _ | TRes _ _ _ | TKClose _ | TKTfd _ | TFatal | TCrash | TLimit | THang
  | TCallTimer _ _ | TCallTask _ | TCallEvent _ | TCallRaw _ => True
  | _ => False
  end.

Lemma cn_nc : forall e, cn e -> nc e. Proof. intros e. destruct e; cbn; tauto. Qed.
Lemma cn_nr : forall e, cn e -> nr e. Proof. intros e. destruct e; cbn; tauto. Qed.
Lemma ca_cn : forall e, ca e -> cn e. Proof. intros e. destruct e; cbn; tauto. Qed.
Lemma ch_nr : forall e, ch e -> nr e. Proof. intros e. destruct e; cbn; tauto. Qed.
Lemma sil_nc : forall e, sil e -> nc e. Proof. intros e. destruct e; cbn; tauto. Qed.

Lemma TrExt_ae : forall s s', TrExt cn s s' -> after_eintr (mst s') = after_eintr (mst s).
Proof.
  intros s s' (l & E & F). rewrite (mst_app s s' l E). apply Forall_rev in F. revert F. generalize (mst s). generalize (rev l).
  induction l0 as [|e l0 IH]; intros m F; [reflexivity|]. inversion F; subst. cbn [fold_left].
  rewrite IH by assumption. apply ae_nr. apply cn_nr. assumption.
Qed.

Section Loop.
Variable sc : scenario.

Lemma run_script_cn : forall s key, RExt cn s (run_script sc s key).
Proof.
  intros s key. unfold run_script. destruct (sc_handlers sc key) as [|l0 ls]; [apply TrExt_refl|].
  eapply RExt_l; [|apply (RExt_weaken ca cn); [exact ca_cn|apply run_acts_ext]]. reflexivity.
Qed.

Lemma events_loop_cn : forall fuel s, RExt cn s (events_loop sc fuel s).
Proof.
  induction fuel as [|f IH]; intros s; cbn [events_loop]; destruct (ev_batch s) as [|ie rest]; try apply TrExt_refl.
  - apply RExt_halt. exact I.
  - apply RExt_tr with (s1 := emit (set_evlists s (ev_pending s) rest) (TCallEvent ie)).
    + eapply TrExt_l; [|apply TrExt_emit; exact I]. reflexivity.
    + apply RExt_bind; [apply run_script_cn|]. intros s1. destruct rest; [apply TrExt_refl|apply IH].
Qed.

Lemma run_pending_events_cn : forall s, RExt cn s (run_pending_events sc s).
Proof.
  intros s. unfold run_pending_events. destruct (ev_pending s); [apply TrExt_refl|].
  eapply RExt_l; [|apply events_loop_cn]. reflexivity.
Qed.

Lemma timers_dispatch_cn : forall fuel s, RExt cn s (timers_dispatch sc fuel s).
Proof.
  induction fuel as [|f IH]; intros s; cbn [timers_dispatch]; destruct (HeapModel.batch (heap s)) as [|t rest]; try apply TrExt_refl.
  - apply RExt_halt. exact I.
  - cbv zeta. set (s1 := validate_now _).
    assert (T1 : trace s1 = trace s) by (unfold s1; rewrite validate_trace; reflexivity).
    eapply RExt_tr with (s1 := emit s1 (TCallTimer (Z.pos t - 1) (time s1))).
    + eapply TrExt_l with (s := s1); [exact T1|]. apply TrExt_emit. exact I.
    + apply RExt_bind; [apply run_script_cn|apply IH].
Qed.

Lemma run_timers_cn : forall s, RExt cn s (run_timers sc s).
Proof.
  intros s. unfold run_timers. destruct (HeapModel.num (heap s) =? 0); [apply TrExt_refl|]. cbv zeta.
  eapply RExt_l with (s := validate_now s); [apply validate_trace|].
  apply RExt_bind; [apply (RExt_weaken ca cn); [exact ca_cn|apply lift_heap_ext]|].
  intros s1. apply timers_dispatch_cn.
Qed.

Lemma tasks_loop_cn : forall fuel s, RExt cn s (tasks_loop sc fuel s).
Proof.
  induction fuel as [|f IH]; intros s; cbn [tasks_loop]; destruct (cur s) as [[|k rest]|];
    try apply TrExt_refl; try (apply TrExt_same; reflexivity).
  - apply RExt_halt. exact I.
  - cbv zeta. set (s1 := set_epoch _ _ _). eapply RExt_l with (s := s1); [reflexivity|].
    apply RExt_bind; [|apply IH].
    destruct (k =? LOCAL_TASK); [apply run_pending_events_cn|].
    eapply RExt_tr; [apply TrExt_emit|apply run_script_cn]. exact I.
Qed.

Lemma run_tasks_cn : forall s, RExt cn s (run_tasks sc s).
Proof. intros s. unfold run_tasks. cbv zeta. eapply RExt_l; [|apply tasks_loop_cn]. reflexivity. Qed.

End Loop.

(* ---------- the external actions of a wait leave the dispatch list alone ---------- *)
Lemma wait_action_active : forall s a, wf_wait_action a -> active (res_state (do_action s a)) = active s.
Proof.
  intros s a W. destruct a; try (exfalso; exact W); cbn [do_action]; cbv zeta; try reflexivity.
  destruct (rw_reg s j); [|reflexivity]. cbn [res_state]. rewrite (s0_act _ _ (raw_post_st0 _ j)). reflexivity.
Qed.

Lemma wait_action_R : forall s a, wf_wait_action a -> exists s', do_action s a = R s'.
Proof.
  intros s a W. destruct a; try (exfalso; exact W); cbn [do_action]; cbv zeta; try (eexists; reflexivity).
  destruct (rw_reg s j); eexists; reflexivity.
Qed.

Lemma wait_acts_active : forall l s, Forall wf_wait_action l -> active (res_state (run_acts s l)) = active s.
Proof.
  induction l as [|a l IH]; intros s F; cbn [run_acts]; [reflexivity|]. inversion F as [|? ? W F']; subst.
  destruct (wait_action_R s a W) as (s1 & E). pose proof (wait_action_active s a W) as A. rewrite E in *. cbn [bind res_state] in *.
  rewrite IH by assumption. exact A.
Qed.

Lemma TrExt_emit_l : forall (P : tev -> Prop) s s' e, trace s' = trace s -> P e -> TrExt P s (emit s' e).
Proof. intros P s s' e T H. exists [e]. split; [cbn [emit trace set_trace app]; rewrite T; reflexivity|constructor; [exact H|constructor]]. Qed.

Lemma TrExt_cons : forall (P : tev -> Prop) s s'' e, trace s'' = e :: trace s -> P e -> TrExt P s s''.
Proof. intros P s s'' e T H. exists [e]. split; [exact T|constructor; [exact H|constructor]]. Qed.

Section Poll.
Variable sc : scenario.
Hypothesis WF : wf_scenario sc.

Lemma wait_enter_active : forall s, active (res_state (wait_enter sc s)) = active s.
Proof.
  intros s. unfold wait_enter. destruct (sc_limit sc <? nwait (kern s) + 1); [reflexivity|].
  rewrite wait_acts_active by apply (wf_waits sc WF). reflexivity.
Qed.

Lemma wait_enter_nc : forall s, RExt nc s (wait_enter sc s).
Proof.
  intros s. unfold wait_enter. destruct (sc_limit sc <? nwait (kern s) + 1); [apply RExt_halt; exact I|].
  eapply RExt_l; [|apply (RExt_weaken ca nc); [intros e H; apply cn_nc, ca_cn; exact H|apply run_acts_ext]]. reflexivity.
Qed.

(* the shape of a poll function's result *)
Definition PSh (s : core) (r : res) : Prop :=
  match r with
  | R s' => TrExt nc s s' /\ (after_eintr (mst s') = false \/ active s' = active s)
  | Halt s' => TrExt nc s s'
  end.

Lemma PSh_pre : forall s0 s r, TrExt nc s0 s -> active s = active s0 -> PSh s r -> PSh s0 r.
Proof.
  intros s0 s r T A P. destruct r as [s'|s']; cbn [PSh] in *.
  - destruct P as [P1 P2]. split; [eapply TrExt_trans; eassumption|]. destruct P2; [left; assumption|right; congruence].
  - eapply TrExt_trans; eassumption.
Qed.

Definition WSh (s : core) (w : wres) : Prop :=
  match w with
  | WR s' _ => TrExt nc s s' /\ after_eintr (mst s') = false
  | WE s' => TrExt nc s s' /\ active s' = active s
  | WH r => match r with Halt s' => TrExt nc s s' | R _ => False end
  end.

Lemma ae_after_ret : forall s n fds clk, after_eintr (mst (emit s (TRet (Some n) fds clk))) = false.
Proof. intros. rewrite mst_emit. apply ae_TRet_some. Qed.

Lemma do_epoll_wait_sh : forall s call maxev timeout, WSh s (do_epoll_wait sc s call maxev timeout).
Proof.
  intros s call maxev timeout. unfold do_epoll_wait.
  pose proof (wait_enter_nc s) as E. pose proof (wait_enter_active s) as A.
  destruct (wait_enter sc s) as [s1|s1]; cbn [WSh res_state] in *; [|exact E]. unfold RExt in E. cbn [res_state] in E.
  set (e2 := TWait _ _ _ _ _ _). set (s2 := emit s1 e2).
  assert (E2 : TrExt nc s s2) by (eapply TrExt_trans; [exact E|apply TrExt_emit; exact I]).
  destruct (mem_z _ _).
  - split; [|destruct (0 <? timeout); exact A].
    eapply TrExt_trans; [exact E2|]. destruct (0 <? timeout).
    + apply TrExt_emit_l; [reflexivity|exact I].
    + apply TrExt_emit. exact I.
  - destruct (k_epoll_sleep _ _ _ _) as [k1 evs|k1| |]; cbn [WSh res_state].
    + split; [|apply ae_after_ret]. eapply TrExt_trans; [exact E2|].
      apply TrExt_emit_l; [reflexivity|exact I].
    + split; [exact E2|exact A].
    + cbn [halt]. eapply TrExt_trans; [exact E2|apply TrExt_emit; exact I].
    + cbn [halt]. eapply TrExt_trans; [exact E2|apply TrExt_emit; exact I].
Qed.

Lemma WSh_pre : forall s0 s w, trace s = trace s0 -> active s = active s0 -> WSh s w -> WSh s0 w.
Proof.
  intros s0 s w T A P. destruct w as [s' evs|s'|r]; cbn [WSh] in *.
  - destruct P as [P1 P2]. split; [eapply TrExt_l; eassumption|exact P2].
  - destruct P as [P1 P2]. split; [eapply TrExt_l; eassumption|congruence].
  - destruct r; [exact P|eapply TrExt_l; eassumption].
Qed.

Lemma to_relative_active : forall s abs, active (fst (to_relative s abs)) = active s.
Proof. intros. apply (s0_act _ _ (to_relative_st0 s abs)). Qed.
Lemma to_msec_active : forall s abs, active (fst (to_msec s abs)) = active s.
Proof. intros. apply (s0_act _ _ (to_msec_st0 s abs)). Qed.

Lemma epoll_wait_m_sh : forall s abs maxev, WSh s (epoll_wait_m sc s abs maxev).
Proof.
  intros s abs maxev. unfold epoll_wait_m.
  assert (VIA : forall s0, WSh s0 (let '(s1, ms) := to_msec s0 abs in do_epoll_wait sc s1 0 maxev (if ms <? 0 then -1 else ms * 1000000))).
  { intros s0. pose proof (to_msec_trace s0 abs) as T. pose proof (to_msec_active s0 abs) as A.
    destruct (to_msec s0 abs) as [s1 ms]. cbn [fst] in *. eapply WSh_pre; [exact T|exact A|apply do_epoll_wait_sh]. }
  destruct (pwait2 s); [|apply VIA].
  pose proof (to_relative_trace s abs) as T. pose proof (to_relative_active s abs) as A.
  destruct (to_relative s abs) as [s1 rel]. cbn [fst] in *.
  destruct (no_pwait2 _ || perm_pwait2 _).
  - eapply WSh_pre; [exact T|exact A|]. eapply WSh_pre with (s := set_epoll s1 (epfd s1) (tfd s1) false); [reflexivity|reflexivity|apply VIA].
  - eapply WSh_pre; [exact T|exact A|apply do_epoll_wait_sh].
Qed.

Lemma epoll_poll_sh : forall s abs, PSh s (fst (epoll_poll sc s abs)).
Proof.
  intros s abs. unfold epoll_poll.
  pose proof (flush_pending_st0 (S (length (notify s))) s) as F.
  destruct (epoll_flush_pending _ s) as [s1|s1]; cbn [res_state fst PSh] in *;
    [|apply (TrExt_weaken sil nc); [exact sil_nc|exact (s0_tr _ _ F)]].
  apply (PSh_pre s s1); [apply (TrExt_weaken sil nc); [exact sil_nc|exact (s0_tr _ _ F)]|apply (s0_act _ _ F)|].
  set (maxev := if method s =? M_ET then _ else _).
  pose proof (epoll_wait_m_sh s1 abs maxev) as W.
  destruct (epoll_wait_m sc s1 abs maxev) as [s2 evs|s2|r]; cbn [WSh] in W.
  - destruct W as [W1 W2].
    pose proof (epoll_process_trace evs (invalidate_now s2) false false) as PT.
    destruct (epoll_process (invalidate_now s2) evs false false) as [[s4 re] tmr]. cbn [fst] in *.
    assert (T4 : TrExt cn s2 s4) by (apply TrExt_same; exact PT).
    assert (R5 : RExt cn s4 (if tmr then match k_read (kern s4) (tfd s4) 8 with
                                          | (k1, inl _) => R (set_kern s4 k1)
                                          | (k1, inr _) => halt (set_kern s4 k1) TFatal end else R s4)).
    { destruct tmr; [|apply TrExt_refl]. destruct (k_read _ _ _) as [k1 [x|e]].
      - apply TrExt_same. reflexivity.
      - eapply RExt_l; [|apply RExt_halt; exact I]. reflexivity. }
    assert (R6 : RExt cn s2 (bind (if tmr then match k_read (kern s4) (tfd s4) 8 with
                                          | (k1, inl _) => R (set_kern s4 k1)
                                          | (k1, inr _) => halt (set_kern s4 k1) TFatal end else R s4)
                                  (fun s0 => if re then run_pending_events sc s0 else R s0))).
    { eapply RExt_tr; [exact T4|]. apply RExt_bind; [exact R5|]. intros s5. destruct re; [apply run_pending_events_cn|apply TrExt_refl]. }
    unfold RExt in R6. destruct (bind _ _) as [s6|s6]; cbn [PSh res_state] in *.
    + split; [eapply TrExt_trans; [exact W1|apply (TrExt_weaken cn nc); [exact cn_nc|exact R6]]|].
      left. rewrite (TrExt_ae s2 s6 R6). exact W2.
    + eapply TrExt_trans; [exact W1|apply (TrExt_weaken cn nc); [exact cn_nc|exact R6]].
  - cbn [fst PSh]. destruct W as [W1 W2]. split; [eapply TrExt_l with (s := s1); [reflexivity|]; eapply TrExt_trans; [exact W1|apply TrExt_same; reflexivity]|right; exact W2].
  - cbn [fst]. destruct r; [contradiction|exact W].
Qed.

Lemma do_poll_wait_sh : forall s call timeout, PSh s (fst (do_poll_wait sc s call timeout)).
Proof.
  intros s call timeout. unfold do_poll_wait.
  pose proof (wait_enter_nc s) as E. pose proof (wait_enter_active s) as A.
  destruct (wait_enter sc s) as [s1|s1]; cbn [PSh fst res_state] in *; [|exact E]. unfold RExt in E. cbn [res_state] in E.
  set (e2 := TWait _ _ _ _ _ _). set (s2 := emit s1 e2).
  assert (E2 : TrExt nc s s2) by (eapply TrExt_trans; [exact E|apply TrExt_emit; exact I]).
  destruct (mem_z _ _); cbn [fst PSh].
  - split; [|right; destruct (0 <? timeout); exact A].
    eapply TrExt_trans; [exact E2|]. destruct (0 <? timeout).
    + eapply TrExt_cons; [reflexivity|exact I].
    + eapply TrExt_cons; [reflexivity|exact I].
  - destruct (k_poll_sleep _ _ _) as [k1 revs|]; cbn [fst PSh halt].
    + set (s3 := emit (set_kern s2 k1) _).
      assert (E3 : TrExt nc s s3) by (eapply TrExt_trans; [exact E2|apply TrExt_emit_l; [reflexivity|exact I]]).
      assert (T : trace (poll_activate (invalidate_now s3) (pkeys s3) revs) = trace s3) by (rewrite poll_activate_trace; reflexivity).
      split; [eapply TrExt_trans; [exact E3|apply TrExt_same; exact T]|]. left.
      assert (M : mst (poll_activate (invalidate_now s3) (pkeys s3) revs) = mst s3) by (apply mst_trace; exact T).
      rewrite M. apply ae_after_ret.
    + eapply TrExt_trans; [exact E2|apply TrExt_emit; exact I].
Qed.

Lemma poll_poll_sh : forall s abs, PSh s (fst (poll_poll sc s abs)).
Proof.
  intros s abs. unfold poll_poll.
  assert (VIA : forall s0, PSh s0 (fst (let '(s1, ms) := to_msec s0 abs in do_poll_wait sc s1 2 (if ms <? 0 then -1 else ms * 1000000)))).
  { intros s0. pose proof (to_msec_trace s0 abs) as T. pose proof (to_msec_active s0 abs) as A.
    destruct (to_msec s0 abs) as [s1 ms]. cbn [fst] in *.
    apply (PSh_pre s0 s1); [apply TrExt_same; exact T|exact A|apply do_poll_wait_sh]. }
  destruct (method s =? M_PP); [|apply VIA].
  pose proof (to_relative_trace s abs) as T. pose proof (to_relative_active s abs) as A.
  destruct (to_relative s abs) as [s1 rel]. cbn [fst] in *.
  apply (PSh_pre s s1); [apply TrExt_same; exact T|exact A|].
  destruct (no_ppoll _); [|apply do_poll_wait_sh].
  apply (PSh_pre s1 (set_method (invalidate_now s1) M_PO)); [apply TrExt_same; reflexivity|reflexivity|apply VIA].
Qed.

Lemma m_poll_sh : forall s abs, PSh s (fst (m_poll sc s abs)).
Proof. intros s abs. unfold m_poll. destruct (is_epoll s); [apply epoll_poll_sh|apply poll_poll_sh]. Qed.

End Poll.
