(* CorePhase2AcctSpinLoop.v -- code 711: the tracker invariant SP and the "eventful-idle" predicate
   along traces. *)
From Coq Require Import List ZArith Bool Lia.
From Ivv Require Import Core.Kernel Core.CoreTypes Core.CoreFd Core.CoreModel Core.CoreSpec Core.Monitors.
From Ivv Require Import Core.CoreRelBase Core.CorePhase2AcctTr Core.CorePhase2AcctTr2 Core.CorePhase2AcctMon
  Core.CorePhase2AcctNc Core.CorePhase2AcctSpin.
Import ListNotations.
Local Open Scope Z_scope.

Lemma ev_cases : forall e, plain11 e \/ is_call e \/ (exists n c mx t i g, e = TWait n c mx t i g) \/
  (exists q n, e = TEnd q n) \/ (exists n f c, e = TRet (Some n) f c).
Proof.
  intros e. destruct e; cbn; try tauto.
  - right; right; left. repeat eexists.
  - destruct n; [right; right; right; right; repeat eexists|left; exact I].
  - right; right; right; left. repeat eexists.
Qed.

Lemma ncall_step : forall m e, 0 <= ncall m -> 0 <= ncall (mon_step m e).
Proof.
  intros m e N.
  destruct (ev_cases e) as [P|[C|[(n & c & mx & t & i & g & ->)|[(q & n & ->)|(n & f & c & ->)]]]].
  - pose proof (sp3_plain m e P) as E. unfold sp3 in E. injection E as _ E2 _. rewrite E2. exact N.
  - pose proof (sp3_call m e C) as E. unfold sp3 in E. injection E as _ E2 _. rewrite E2. lia.
  - assert (E2 : ncall (mon_step m (TWait n c mx t i g)) = 0) by (exact (f_equal (fun x => snd (fst x)) (sp3_wait m n c mx t i g))).
    rewrite E2. lia.
  - assert (E2 : ncall (mon_step m (TEnd q n)) = 0) by (exact (f_equal (fun x => snd (fst x)) (sp3_end m q n))).
    rewrite E2. lia.
  - assert (E2 : ncall (mon_step m (TRet (Some n) f c)) = 0) by (exact (f_equal (fun x => snd (fst x)) (sp3_ret m n f c))).
    rewrite E2. lia.
Qed.

Lemma ncall_nonneg : forall s, 0 <= ncall (mst s).
Proof.
  intros s. unfold mst, mon_run. generalize (rev (trace s)).
  assert (G : forall l m, 0 <= ncall m -> 0 <= ncall (fold_left mon_step l m)).
  { induction l as [|e l IH]; intros m N; cbn [fold_left]; [exact N|]. apply IH. apply ncall_step. exact N. }
  intros l. apply G. cbn. lia.
Qed.

Definition EIs (s : core) : Prop := EI (mst s).
Definition SPs (s : core) : Prop := SP (mst s).

Lemma EIs_trace : forall s s', trace s' = trace s -> EIs s -> EIs s'.
Proof. intros s s' E H. unfold EIs. rewrite (mst_trace s s' E). exact H. Qed.

Lemma EIs_ext : forall (P : tev -> Prop) s s', (forall e, P e -> nr e) -> TrExt P s s' -> EIs s' -> EIs s.
Proof.
  intros P s s' Q (l & E & F). unfold EIs. rewrite (mst_ext s s' l E).
  assert (F' : Forall P (rev l)) by (apply Forall_rev; exact F).
  pose proof (ncall_nonneg s) as N0. clear E F. revert N0. generalize (mst s).
  induction (rev l) as [|e r IH]; intros m N H; cbn [fold_left] in *; [exact H|].
  inversion F' as [|? ? Pe Pr]; subst. pose proof (IH Pr _ (ncall_step m e N) H) as H1.
  apply (EI_keeps m e (Q _ Pe) N H1).
Qed.

Lemma EIs_call : forall s e, is_call e -> EIs (emit s e) -> False.
Proof.
  intros s e C [_ H]. rewrite mst_emit in H. pose proof (sp3_call (mst s) e C) as E. unfold sp3 in E. injection E as _ E2 _.
  rewrite E2 in H. pose proof (ncall_nonneg s). lia.
Qed.

Lemma SPs_ext : forall (P : tev -> Prop) s s', (forall e, P e -> nr e) -> TrExt P s s' -> SPs s -> SPs s'.
Proof.
  intros P s s' Q (l & E & F) C. unfold SPs in *. rewrite (mst_ext s s' l E).
  assert (F' : Forall P (rev l)) by (apply Forall_rev; exact F).
  clear E F. revert C. generalize (mst s). induction (rev l) as [|e r IH]; intros m C; cbn [fold_left]; [exact C|].
  inversion F' as [|? ? Pe Pr]; subst. apply IH; [exact Pr|]. apply SP_step; [exact C|].
  apply Q in Pe. destruct e; try exact I; contradiction.
Qed.

Lemma SPs_emit : forall s e, SPs s -> okev11 (mst s) e -> SPs (emit s e).
Proof. intros s e H O. unfold SPs. rewrite mst_emit. apply SP_step; assumption. Qed.

Lemma SPs_trace : forall s s', trace s' = trace s -> SPs s -> SPs s'.
Proof. intros s s' E H. unfold SPs. rewrite (mst_trace s s' E). exact H. Qed.

(* the spin counter is only touched at the iteration boundaries *)
Lemma spin_ext : forall (P : tev -> Prop) s s', (forall e, P e -> nr e \/ exists n f c, e = TRet (Some n) f c) -> TrExt P s s' ->
  spin (mst s') = spin (mst s).
Proof.
  intros P s s' Q (l & E & F). rewrite (mst_ext s s' l E).
  assert (F' : Forall P (rev l)) by (apply Forall_rev; exact F).
  clear E F. generalize (mst s). induction (rev l) as [|e r IH]; intros m; cbn [fold_left]; [reflexivity|].
  inversion F' as [|? ? Pe Pr]; subst. rewrite (IH Pr).
  destruct (Q _ Pe) as [N|(n & f & c & ->)].
  - destruct (nr_cases e N) as [[PP _]|C].
    + exact (f_equal snd (sp3_plain m e PP)).
    + exact (f_equal snd (sp3_call m e C)).
  - exact (f_equal snd (sp3_ret m n f c)).
Qed.
