(* CoreInvFd.v -- the descriptor layer preserves FdInv: frame lemmas, the epoll
   and poll back ends, register / register_try / unregister / set_handler. *)
From Coq Require Import List ZArith Bool Lia.
From Ivv Require Import Core.Kernel Core.CoreTypes Core.CoreFd Core.CoreModel
  Core.CoreInvBase Core.CoreInvDefs.
Import ListNotations.
Local Open Scope Z_scope.

(* ---------- frames ---------- *)
(* every field outside the descriptor layer is unchanged *)
Record restsame (s s' : core) : Prop := {
  rs_la : last_abs s' = last_abs s; rs_lac : last_abs_count s' = last_abs_count s;
  rs_method : method s' = method s; rs_epfd : epfd s' = epfd s; rs_tfd : tfd s' = tfd s;
  rs_pw : pwait2 s' = pwait2 s; rs_ee : efd_epoll s' = efd_epoll s; rs_er : efd_raw s' = efd_raw s;
  rs_af : active_fd s' = active_fd s; rs_ar : active_ref s' = active_ref s; rs_aw : active_wr s' = active_wr s;
  rs_quit : quit s' = quit s; rs_heap : heap s' = heap s; rs_time : time s' = time s;
  rs_tv : time_valid s' = time_valid s; rs_tasks : tasks s' = tasks s; rs_cur : cur s' = cur s;
  rs_epoch : epoch s' = epoch s; rs_tepoch : tepoch s' = tepoch s;
  rs_evp : ev_pending s' = ev_pending s; rs_evb : ev_batch s' = ev_batch s; rs_evc : ev_count s' = ev_count s;
  rs_evr : ev_reg s' = ev_reg s; rs_ur : use_raw s' = use_raw s;
  rs_rr : rw_reg s' = rw_reg s; rs_rf : rw_rfd s' = rw_rfd s; rs_rwf : rw_wfd s' = rw_wfd s;
  rs_trace : trace s' = trace s; rs_invoc : invoc s' = invoc s;
}.
Lemma restsame_refl : forall s, restsame s s.
Proof. intros; constructor; reflexivity. Qed.
Lemma restsame_trans : forall a b c, restsame a b -> restsame b c -> restsame a c.
Proof. intros a b c [] []. constructor; congruence. Qed.
Lemma restsame_epoll : forall s s', restsame s s' -> is_epoll s' = is_epoll s.
Proof. intros s s' H. unfold is_epoll. rewrite (rs_method _ _ H). reflexivity. Qed.

Definition hsame (f' f : fdo) : Prop :=
  fdnum f' = fdnum f /\ h_in f' = h_in f /\ h_out f' = h_out f /\ h_err f' = h_err f /\ cookie f' = cookie f.
Lemma hsame_refl : forall f, hsame f f. Proof. intros; repeat split. Qed.
Lemma hsame_trans : forall a b c, hsame a b -> hsame b c -> hsame a c.
Proof. unfold hsame. intros a b c (A1&A2&A3&A4&A5) (B1&B2&B3&B4&B5). repeat split; congruence. Qed.

(* a step of the descriptor layer working on key k *)
Record FdStep (k : Z) (s s' : core) : Prop := {
  fs_kctl : kctl (kern s) (kern s');
  fs_epneg : forall e, en_data e < 0 -> (In e (ep (kern s')) <-> In e (ep (kern s)));
  fs_hsame : forall k', hsame (fdt s' k') (fdt s k');
  fs_reg : forall k', k' <> k -> registered (fdt s' k') = registered (fdt s k');
  fs_sync : forall k', k' <> k -> sync_at s k' -> sync_at s' k';
  fs_rest : restsame s s';
}.
Lemma FdStep_refl : forall k s, FdStep k s s.
Proof.
  intros. constructor; try tauto.
  - apply kctl_refl.
  - intros; apply hsame_refl.
  - apply restsame_refl.
Qed.
Lemma FdStep_trans : forall k a b c, FdStep k a b -> FdStep k b c -> FdStep k a c.
Proof.
  intros k a b c [A1 A2 A3 A4 A5 A6] [B1 B2 B3 B4 B5 B6]. constructor.
  - eapply kctl_trans; eassumption.
  - intros e H. rewrite B2, A2 by assumption. tauto.
  - intros k'. eapply hsame_trans; [apply B3|apply A3].
  - intros k' H. rewrite B4, A4 by assumption. reflexivity.
  - intros k' H S. apply B5; [assumption|]. apply A5; assumption.
  - eapply restsame_trans; eassumption.
Qed.

(* ---------- transfer of FdInv between states that agree on what it reads ---------- *)
Lemma FdInv_transfer : forall x x' s s',
  FdInv x s ->
  (forall k, live s' x' k <-> live s x k) ->
  (forall k, registered (fdt s' k) = true -> 0 <= k <= 32) ->
  (forall k, 0 <= k < 16 -> fdnum (fdt s' k) = 100 + k) ->
  (forall k, live s x k -> fdnum (fdt s' k) = fdnum (fdt s k) /\ regb (fdt s' k) = regb (fdt s k) /\
             pidx (fdt s' k) = pidx (fdt s k)) ->
  active s' = active s -> handled s' = handled s -> notify s' = notify s ->
  pfds s' = pfds s -> pkeys s' = pkeys s -> method s' = method s ->
  (ep (kern s') = ep (kern s) /\ (forall fd, k_open (kern s') fd = k_open (kern s) fd) /\
   (forall fd, k_get (kern s') fd = k_get (kern s) fd)) ->
  active_fd s' = active_fd s -> active_ref s' = active_ref s -> tfd s' = tfd s ->
  FdInv x' s'.
Proof.
  intros x x' s s' I L RG U F Ea Eh En Ep Epk Em (Ek & Ko & Kg) Eaf Ear Et.
  assert (Fn : forall k, live s x k -> fdnum (fdt s' k) = fdnum (fdt s k)) by (intros k H; apply (F k H)).
  assert (Fr : forall k, live s x k -> regb (fdt s' k) = regb (fdt s k)) by (intros k H; apply (F k H)).
  assert (Fp : forall k, live s x k -> pidx (fdt s' k) = pidx (fdt s k)) by (intros k H; apply (F k H)).
  assert (Ee : is_epoll s' = is_epoll s) by (unfold is_epoll; rewrite Em; reflexivity).
  constructor.
  - assumption.
  - assumption.
  - intros k H1 H2. apply L in H2. rewrite Fn by assumption. apply (fv_dyn _ _ I); assumption.
  - intros k H. apply L in H. rewrite Fn, Ko by assumption. apply (fv_open _ _ I); assumption.
  - intros k1 k2 H1 H2. apply L in H1. apply L in H2. rewrite !Fn by assumption. apply (fv_inj _ _ I); assumption.
  - intros k H. rewrite Ea in H. apply L. apply (fv_active _ _ I); assumption.
  - intros k H. rewrite Eh in H. apply L. apply (fv_handled _ _ I); assumption.
  - intros k H. rewrite En in H. apply L. apply (fv_notify _ _ I); assumption.
  - rewrite Ee, En, Ek. apply (fv_poll_excl _ _ I).
  - rewrite Ee, Ep, Epk. apply (fv_epoll_excl _ _ I).
  - intros e H. rewrite Ek in H. unfold entry_ok. rewrite Eaf, Ear, Et.
    destruct (fv_ent _ _ I e H) as [(A&B&C&D)|[B|B]]; [left|right; left; assumption|right; right; assumption].
    rewrite Fn, Fr, L by assumption. tauto.
  - rewrite Ee, Ek. intros E k H. apply L in H. rewrite Fr, Fn by assumption. apply (fv_has _ _ I); assumption.
  - rewrite Ee, Ek. intros E k H. apply L in H. rewrite Fr, Fn by assumption. apply (fv_none _ _ I); assumption.
  - rewrite Ek. apply (fv_nodup _ _ I).
  - rewrite Ek. intros e H. rewrite Kg. apply (fv_ealloc _ _ I). assumption.
  - rewrite Ear. apply (fv_ref _ _ I).
  - rewrite Ear, Ek, Eaf. apply (fv_kick _ _ I).
  - rewrite Ep, Epk. apply (fv_plen _ _ I).
  - rewrite Ep, Epk. intros n k H. destruct (fv_pkey _ _ I n k H) as (A&B&C).
    rewrite Fp, Fn, L by assumption. tauto.
  - rewrite Ee, Epk. intros E k H. apply L in H. rewrite Fp by assumption. apply (fv_pidx _ _ I); assumption.
Qed.

(* same key set, same exception *)
Lemma FdInv_eq : forall x s s',
  FdInv x s ->
  (forall k, fdnum (fdt s' k) = fdnum (fdt s k) /\ regb (fdt s' k) = regb (fdt s k) /\
             pidx (fdt s' k) = pidx (fdt s k) /\ registered (fdt s' k) = registered (fdt s k)) ->
  active s' = active s -> handled s' = handled s -> notify s' = notify s ->
  pfds s' = pfds s -> pkeys s' = pkeys s -> method s' = method s -> kern s' = kern s ->
  active_fd s' = active_fd s -> active_ref s' = active_ref s -> tfd s' = tfd s ->
  FdInv x s'.
Proof.
  intros x s s' I F Ea Eh En Ep Epk Em Ek Eaf Ear Et. eapply FdInv_transfer; try eassumption.
  5: { rewrite Ek. repeat split. }
  - intros k. unfold live. destruct (F k) as (_&_&_&->). tauto.
  - intros k. destruct (F k) as (_&_&_&->). apply (fv_range _ _ I).
  - intros k Hk. destruct (F k) as (->&_). apply (fv_user _ _ I). assumption.
  - intros k _. destruct (F k) as (A&B&C&_). tauto.
Qed.

(* fields FdInv does not read *)
Ltac fd_same := intros; match goal with H : FdInv _ _ |- _ =>
  eapply FdInv_eq; [exact H| intros; repeat split |..]; reflexivity end.

Lemma FdInv_numfds : forall x s v, FdInv x s -> FdInv x (set_numfds s v). Proof. fd_same. Qed.
Lemma FdInv_numobjs : forall x s v, FdInv x s -> FdInv x (set_numobjs s v). Proof. fd_same. Qed.
Lemma FdInv_trace : forall x s v, FdInv x s -> FdInv x (set_trace s v). Proof. fd_same. Qed.
Lemma FdInv_emit : forall x s e, FdInv x s -> FdInv x (emit s e). Proof. fd_same. Qed.

(* clauses that are convertible with the old ones *)
Ltac fd_auto I :=
  first [ exact (fv_range _ _ I) | exact (fv_user _ _ I) | exact (fv_dyn _ _ I) | exact (fv_open _ _ I)
        | exact (fv_inj _ _ I) | exact (fv_active _ _ I) | exact (fv_handled _ _ I) | exact (fv_notify _ _ I)
        | exact (fv_poll_excl _ _ I) | exact (fv_epoll_excl _ _ I) | exact (fv_ent _ _ I)
        | exact (fv_has _ _ I) | exact (fv_none _ _ I) | exact (fv_nodup _ _ I) | exact (fv_ealloc _ _ I)
        | exact (fv_ref _ _ I) | exact (fv_kick _ _ I) | exact (fv_plen _ _ I) | exact (fv_pkey _ _ I)
        | exact (fv_pidx _ _ I) ].

Lemma FdInv_set_active : forall x s l, FdInv x s -> (forall k, In k l -> live s x k) -> FdInv x (set_active s l).
Proof. intros x s l I H. constructor; try fd_auto I. exact H. Qed.

Lemma FdInv_set_handled : forall x s h, FdInv x s -> (forall k, h = Some k -> live s x k) -> FdInv x (set_handled s h).
Proof. intros x s h I H. constructor; try fd_auto I. exact H. Qed.

Lemma FdInv_set_notify : forall x s l, FdInv x s -> is_epoll s = true -> (forall k, In k l -> live s x k) ->
  FdInv x (set_notify s l).
Proof.
  intros x s l I E H. constructor; try fd_auto I.
  - exact H.
  - intros E'. change (is_epoll s = false) in E'. congruence.
Qed.

(* a descriptor object is rewritten without touching the fields FdInv reads *)
Lemma FdInv_putfd_soft : forall x s k f', FdInv x s ->
  fdnum f' = fdnum (fdt s k) -> regb f' = regb (fdt s k) -> pidx f' = pidx (fdt s k) ->
  registered f' = registered (fdt s k) -> FdInv x (putfd s k f').
Proof.
  intros x s k f' I A B C D. eapply FdInv_eq; [exact I| |reflexivity..].
  intros k'. sp. unfold upd. destruct (k' =? k) eqn:E; [apply Z.eqb_eq in E; subst k'; tauto|tauto].
Qed.

(* an unlinked, unregistered descriptor object is rewritten arbitrarily *)
Lemma FdInv_putfd_dead : forall x s k f', FdInv x s -> ~ live s x k ->
  registered f' = false -> (0 <= k < 16 -> fdnum f' = 100 + k) -> FdInv x (putfd s k f').
Proof.
  intros x s k f' I NL R U. eapply FdInv_transfer; [exact I| | | | |(repeat split)..].
  - intros k'. unfold live. sp. unfold upd. destruct (Z.eqb_spec k' k) as [->|N]; [|tauto].
    rewrite R. unfold live in NL. split; intros (A&[B|B]); try discriminate; tauto.
  - intros k'. sp. unfold upd. destruct (Z.eqb_spec k' k) as [->|N]; [congruence|apply (fv_range _ _ I)].
  - intros k' H. sp. unfold upd. destruct (Z.eqb_spec k' k) as [->|N]; [auto|apply (fv_user _ _ I); assumption].
  - intros k' H. sp. unfold upd. destruct (Z.eqb_spec k' k) as [->|N]; [contradiction|tauto].
Qed.

(* the kernel changes, the interest list does not *)
Lemma FdInv_kern : forall x s k', FdInv x s -> ep k' = ep (kern s) ->
  (forall k, live s x k -> k_open k' (fdnum (fdt s k)) <> None) ->
  (forall fd, k_get (kern s) fd <> None -> k_get k' fd <> None) ->
  FdInv x (set_kern s k').
Proof.
  intros x s k' I E O G. constructor; sp; try rewrite E; try fd_auto I.
  - exact O.
  - intros e H. apply G. apply (fv_ealloc _ _ I). assumption.
Qed.

(* ---------- epoll back end: flush_one ---------- *)
Definition flush_op (f : fdo) : Z :=
  if (regb f =? 0) && negb (wanted f =? 0) then CTL_ADD
  else if negb (regb f =? 0) && (wanted f =? 0) then CTL_DEL else CTL_MOD.

Lemma flush_one_eq : forall s k, regb (fdt s k) = wanted (fdt s k) ->
  epoll_flush_one_ s k = (set_notify s (remove_z k (notify s)), false).
Proof. intros s k H. unfold epoll_flush_one_. sp. rewrite H, Z.eqb_refl. reflexivity. Qed.

Lemma flush_one_ne : forall s k, regb (fdt s k) <> wanted (fdt s k) ->
  let f := fdt s k in
  let s0 := set_notify s (remove_z k (notify s)) in
  let cp := ctl_pure (kern s) (flush_op f) (fdnum f) (epoll_mask (wanted f)) k in
  exists k', kctl (kern s) k' /\ ep k' = fst cp /\
    epoll_flush_one_ s k =
      match snd cp with
      | None => (putfd (set_kern s0 k') k (fd_with_regb f (wanted f)), false)
      | Some _ => (set_kern s0 k', true)
      end.
Proof.
  intros s k H f s0 cp. unfold epoll_flush_one_. sp. fold f.
  destruct (Z.eqb_spec (regb f) (wanted f)) as [E|_]; [contradiction|].
  fold (flush_op f). fold s0.
  destruct (ctl_retry_spec s0 (flush_op f) (fdnum f) (epoll_mask (wanted f)) k) as (k' & R & K & E).
  change (kern s0) with (kern s) in *. fold cp in R, E.
  exists k'. split; [assumption|split; [assumption|]]. rewrite R.
  destruct (snd cp); reflexivity.
Qed.

Lemma nodup_fd_eq : forall l e1 e2, NoDup (map en_fd l) -> In e1 l -> In e2 l -> en_fd e1 = en_fd e2 -> e1 = e2.
Proof.
  induction l as [|a l IH]; intros e1 e2 ND I1 I2 E; [contradiction|].
  cbn [map] in ND. inversion ND as [|? ? NI ND']; subst.
  destruct I1 as [->|I1], I2 as [->|I2].
  - reflexivity.
  - exfalso. apply NI. rewrite E. apply in_map. assumption.
  - exfalso. apply NI. rewrite <- E. apply in_map. assumption.
  - apply IH; assumption.
Qed.

Lemma sync_at_same : forall s s' k, fdt s' k = fdt s k -> is_epoll s' = is_epoll s ->
  (In k (notify s') <-> In k (notify s)) ->
  nth_error (pfds s') (Z.to_nat (pidx (fdt s k))) = nth_error (pfds s) (Z.to_nat (pidx (fdt s k))) ->
  sync_at s k -> sync_at s' k.
Proof.
  unfold sync_at. intros s s' k F E N P S. rewrite F, E, N, P. exact S.
Qed.

(* the interest list changes (epoll methods): the six clauses about it are re-proved by the caller *)
Lemma FdInv_rebuild_ep : forall x s s',
  FdInv x s -> is_epoll s = true ->
  (forall k, registered (fdt s' k) = registered (fdt s k) /\ fdnum (fdt s' k) = fdnum (fdt s k) /\
             pidx (fdt s' k) = pidx (fdt s k)) ->
  active s' = active s -> handled s' = handled s -> notify s' = notify s ->
  pfds s' = pfds s -> pkeys s' = pkeys s -> method s' = method s ->
  (forall fd, k_open (kern s') fd = k_open (kern s) fd) ->
  (forall e, In e (ep (kern s')) -> entry_ok s' x e) ->
  (forall k, live s' x k -> regb (fdt s' k) <> 0 ->
     exists e, In e (ep (kern s')) /\ en_fd e = fdnum (fdt s' k) /\ en_data e = k) ->
  (forall k, live s' x k -> regb (fdt s' k) = 0 -> ep_find (ep (kern s')) (fdnum (fdt s' k)) = false) ->
  NoDup (map en_fd (ep (kern s'))) ->
  (forall e, In e (ep (kern s')) -> k_get (kern s') (en_fd e) <> None) ->
  (active_ref s' = 0 \/ active_ref s' = 1) ->
  (active_ref s' = 1 -> exists e, In e (ep (kern s')) /\ en_fd e = active_fd s' /\ en_data e = -1) ->
  FdInv x s'.
Proof.
  intros x s s' I E F Ea Eh En Ep Epk Em Ko H1 H2 H3 H4 H5 H6 H7.
  assert (L : forall k, live s' x k <-> live s x k).
  { intros k. unfold live. destruct (F k) as (->&_). tauto. }
  assert (Fn : forall k, fdnum (fdt s' k) = fdnum (fdt s k)) by (intros k; apply (F k)).
  assert (Fp : forall k, pidx (fdt s' k) = pidx (fdt s k)) by (intros k; apply (F k)).
  assert (Ee : is_epoll s' = true) by (unfold is_epoll in *; rewrite Em; assumption).
  constructor; try assumption.
  - intros k. destruct (F k) as (->&_). apply (fv_range _ _ I).
  - intros k H. rewrite Fn. apply (fv_user _ _ I); assumption.
  - intros k A B. rewrite Fn. apply L in B. apply (fv_dyn _ _ I); assumption.
  - intros k A. rewrite Fn, Ko. apply L in A. apply (fv_open _ _ I); assumption.
  - intros k1 k2 A B. rewrite !Fn. apply L in A. apply L in B. apply (fv_inj _ _ I); assumption.
  - intros k A. rewrite Ea in A. apply L. apply (fv_active _ _ I); assumption.
  - intros k A. rewrite Eh in A. apply L. apply (fv_handled _ _ I); assumption.
  - intros k A. rewrite En in A. apply L. apply (fv_notify _ _ I); assumption.
  - congruence.
  - intros _. rewrite Ep, Epk. apply (fv_epoll_excl _ _ I). assumption.
  - intros _. assumption.
  - intros _. assumption.
  - rewrite Ep, Epk. apply (fv_plen _ _ I).
  - rewrite Ep, Epk. intros n k A. rewrite Fp, Fn, L. apply (fv_pkey _ _ I); assumption.
  - congruence.
Qed.

Lemma ent_other_fd : forall x s k e, FdInv x s -> is_epoll s = true -> live s x k ->
  In e (ep (kern s)) -> en_data e <> k -> en_fd e <> fdnum (fdt s k).
Proof.
  intros x s k e I E L H N EQ.
  destruct (Z.eq_dec (regb (fdt s k)) 0) as [Z0|NZ].
  - pose proof (fv_none _ _ I E k L Z0) as F. rewrite ep_find_false in F. apply (F e); assumption.
  - destruct (fv_has _ _ I E k L NZ) as (e0 & I0 & F0 & D0).
    assert (e = e0) by (eapply nodup_fd_eq; [apply (fv_nodup _ _ I)|assumption|assumption|congruence]).
    subst. contradiction.
Qed.

Lemma ent_data_fd : forall x s k e, FdInv x s -> In e (ep (kern s)) -> en_data e = k -> 0 <= k ->
  en_fd e = fdnum (fdt s k).
Proof.
  intros x s k e I H D K. destruct (fv_ent _ _ I e H) as [(A&B&_)|[(A&_)|(A&_)]]; [congruence|lia|lia].
Qed.

Lemma upd_fd_regb_fields : forall s k w k',
  let g := upd (fdt s) k (fd_with_regb (fdt s k) w) in
  registered (g k') = registered (fdt s k') /\ fdnum (g k') = fdnum (fdt s k') /\
  pidx (g k') = pidx (fdt s k') /\ wanted (g k') = wanted (fdt s k').
Proof. intros. unfold g, upd. destruct (Z.eqb_spec k' k) as [->|N]; repeat split. Qed.

Lemma FdInv_install : forall x s k k' w,
  FdInv x s -> is_epoll s = true -> live s x k -> kctl (kern s) k' ->
  let f := fdt s k in let fd := fdnum f in let ent := ctl_ent fd (epoll_mask w) k in
  (forall e, In e (ep k') -> (e = ent /\ w <> 0) \/ (In e (ep (kern s)) /\ en_fd e <> fd)) ->
  (forall e, In e (ep (kern s)) -> en_fd e <> fd -> In e (ep k')) ->
  (w <> 0 -> In ent (ep k')) ->
  (w = 0 -> ep_find (ep k') fd = false) ->
  (forall fd', fd' <> fd -> ep_find (ep k') fd' = ep_find (ep (kern s)) fd') ->
  NoDup (map en_fd (ep k')) ->
  FdInv x (putfd (set_kern s k') k (fd_with_regb f w)).
Proof.
  intros x s k k' w I E L K f fd ent Hent Hkeep Hnew Hgone Hfind Hnd. subst f fd ent.
  assert (LV : forall k0, live (putfd (set_kern s k') k (fd_with_regb (fdt s k) w)) x k0 <-> live s x k0).
  { intros k0. unfold live. sp. destruct (upd_fd_regb_fields s k w k0) as (->&_). tauto. }
  eapply FdInv_rebuild_ep with (s := s); try eassumption; try reflexivity.
  - intros k0. sp. destruct (upd_fd_regb_fields s k w k0) as (A&B&C&_). tauto.
  - intros fd0. sp. apply kctl_open. assumption.
  - (* entries *)
    intros e He. unfold entry_ok. sp. destruct (Hent e He) as [[-> W]|[Ho Nf]].
    + left. cbn [ctl_ent en_data en_fd en_events]. rewrite upd_same. cbn [fd_with_regb fd_with_bands regb fdnum].
      split; [apply LV; assumption|]. repeat split; assumption.
    + destruct (fv_ent _ _ I e Ho) as [(A&B&C&D)|[A|A]]; [left|right; left; exact A|right; right; exact A].
      assert (en_data e <> k) by (intro Q; apply Nf; rewrite B, Q; reflexivity).
      rewrite upd_other by assumption. split; [apply LV; assumption|]. tauto.
  - (* has *)
    intros k0 L0 R0. apply LV in L0. sp. destruct (Z.eq_dec k0 k) as [->|N].
    + rewrite upd_same in *. cbn [fd_with_regb fd_with_bands regb fdnum] in *.
      eexists. split; [apply Hnew; assumption|]. split; reflexivity.
    + rewrite upd_other in * by assumption.
      destruct (fv_has _ _ I E k0 L0 R0) as (e & A & B & C). exists e. split; [|tauto].
      apply Hkeep; [assumption|]. rewrite B. intro Q. apply N. apply (fv_inj _ _ I); assumption.
  - (* none *)
    intros k0 L0 R0. apply LV in L0. sp. destruct (Z.eq_dec k0 k) as [->|N].
    + rewrite upd_same in *. cbn [fd_with_regb fd_with_bands regb fdnum] in *. apply Hgone. assumption.
    + rewrite upd_other in * by assumption. rewrite Hfind; [apply (fv_none _ _ I); assumption|].
      intro Q. apply N. apply (fv_inj _ _ I); assumption.
  - (* allocated *)
    intros e He. sp. rewrite (kctl_get _ _ _ K). destruct (Hent e He) as [[-> W]|[Ho Nf]].
    + cbn [ctl_ent en_fd]. apply k_open_some_get. apply (fv_open _ _ I). assumption.
    + apply (fv_ealloc _ _ I). assumption.
  - sp. apply (fv_ref _ _ I).
  - sp. intros A. destruct (fv_kick _ _ I A) as (e & B & C & D). exists e. split; [|tauto].
    apply Hkeep; [assumption|]. eapply ent_other_fd; try eassumption. destruct L. lia.
Qed.

Lemma FdStep_install : forall x s k k' w,
  FdInv x s -> is_epoll s = true -> live s x k -> kctl (kern s) k' ->
  let fd := fdnum (fdt s k) in let ent := ctl_ent fd (epoll_mask w) k in
  (forall e, In e (ep k') -> (e = ent /\ w <> 0) \/ (In e (ep (kern s)) /\ en_fd e <> fd)) ->
  (forall e, In e (ep (kern s)) -> en_fd e <> fd -> In e (ep k')) ->
  FdStep k s (putfd (set_kern s k') k (fd_with_regb (fdt s k) w)).
Proof.
  intros x s k k' w I E L K fd ent Hent Hkeep. subst fd ent. constructor.
  - sp. assumption.
  - intros e D. sp. split.
    + intros H. destruct (Hent e H) as [[-> _]|[A _]]; [|assumption].
      cbn [ctl_ent en_data] in D. destruct L. lia.
    + intros H. apply Hkeep; [assumption|]. eapply ent_other_fd; try eassumption. destruct L. lia.
  - intros k0. sp. unfold upd. destruct (k0 =? k) eqn:Q; [apply Z.eqb_eq in Q; subst; repeat split|apply hsame_refl].
  - intros k0 N. sp. rewrite upd_other by assumption. reflexivity.
  - intros k0 N. apply sync_at_same; sp; try reflexivity. rewrite upd_other by assumption. reflexivity.
  - constructor; reflexivity.
Qed.

Lemma FdStep_notify : forall s k l, (forall k', k' <> k -> (In k' l <-> In k' (notify s))) ->
  FdStep k s (set_notify s l).
Proof.
  intros s k l H. constructor; sp; try tauto.
  - apply kctl_refl.
  - intros; apply hsame_refl.
  - intros k0 N. apply sync_at_same; sp; try reflexivity. apply H. assumption.
  - constructor; reflexivity.
Qed.

(* fields the epoll primitives never touch *)
Record keepE (s s' : core) : Prop := {
  ke_active : active s' = active s; ke_handled : handled s' = handled s;
  ke_numfds : numfds s' = numfds s; ke_numobjs : numobjs s' = numobjs s;
  ke_pfds : pfds s' = pfds s; ke_pkeys : pkeys s' = pkeys s;
}.

Lemma flush_one_ok : forall x s k, FdInv x s -> is_epoll s = true -> live s x k ->
  exists s', epoll_flush_one_ s k = (s', false) /\ FdInv x s' /\ FdStep k s s' /\ keepE s s' /\
    regb (fdt s' k) = wanted (fdt s k) /\ wanted (fdt s' k) = wanted (fdt s k) /\
    registered (fdt s' k) = registered (fdt s k) /\ notify s' = remove_z k (notify s).
Proof.
  intros x s k I E L.
  set (s0 := set_notify s (remove_z k (notify s))).
  assert (I0 : FdInv x s0).
  { apply FdInv_set_notify; [assumption..|]. intros k0 H. apply In_remz in H. apply (fv_notify _ _ I). tauto. }
  assert (S0 : FdStep k s s0).
  { apply FdStep_notify. intros k0 N. rewrite In_remz. tauto. }
  destruct (Z.eq_dec (regb (fdt s k)) (wanted (fdt s k))) as [EQ|NE].
  - exists s0. rewrite (flush_one_eq _ _ EQ). split; [reflexivity|]. split; [assumption|]. split; [assumption|].
    split; [constructor; reflexivity|]. subst s0. sp. repeat split; try assumption.
  - destruct (flush_one_ne s k NE) as (k' & K & EP & FL). cbv zeta in FL, EP. fold s0 in FL.
    set (f := fdt s k) in *. set (fd := fdnum f) in *.
    assert (OP : k_open (kern s) fd <> None) by (apply (fv_open _ _ I); assumption).
    assert (L0 : live s0 x k) by exact L.
    assert (E0 : is_epoll s0 = true) by exact E.
    assert (K0 : kctl (kern s0) k') by exact K.
    assert (FIN : forall w, w = wanted f ->
      (forall e, In e (ep k') -> (e = ctl_ent fd (epoll_mask w) k /\ w <> 0) \/ (In e (ep (kern s)) /\ en_fd e <> fd)) ->
      (forall e, In e (ep (kern s)) -> en_fd e <> fd -> In e (ep k')) ->
      (w <> 0 -> In (ctl_ent fd (epoll_mask w) k) (ep k')) ->
      (w = 0 -> ep_find (ep k') fd = false) ->
      (forall fd', fd' <> fd -> ep_find (ep k') fd' = ep_find (ep (kern s)) fd') ->
      NoDup (map en_fd (ep k')) ->
      snd (ctl_pure (kern s) (flush_op f) fd (epoll_mask (wanted f)) k) = None ->
      exists s', epoll_flush_one_ s k = (s', false) /\ FdInv x s' /\ FdStep k s s' /\ keepE s s' /\
        regb (fdt s' k) = wanted (fdt s k) /\ wanted (fdt s' k) = wanted (fdt s k) /\
        registered (fdt s' k) = registered (fdt s k) /\ notify s' = remove_z k (notify s)).
    { intros w -> H1 H2 H3 H4 H5 H6 H7. rewrite H7 in FL. eexists. split; [exact FL|].
      split; [apply (FdInv_install x s0 k k' (wanted f) I0 E0 L0 K0); assumption|].
      split; [eapply FdStep_trans; [exact S0|]; apply (FdStep_install x s0 k k' (wanted f) I0 E0 L0 K0); assumption|].
      split; [constructor; reflexivity|]. sp. rewrite upd_same. repeat split. }
    unfold flush_op in *.
    destruct (Z.eqb_spec (regb f) 0) as [R0|R0]; destruct (Z.eqb_spec (wanted f) 0) as [W0|W0];
      cbn [andb negb] in *; try (exfalso; congruence).
    + (* ADD *)
      assert (NF : ep_find (ep (kern s)) fd = false) by (apply (fv_none _ _ I); assumption).
      rewrite (ctl_pure_add _ _ _ _ OP NF) in *. cbn [fst snd] in *.
      apply (FIN (wanted f) eq_refl); try reflexivity.
      * intros e H. rewrite EP in H. apply in_app_iff in H. destruct H as [H|[<-|[]]]; [right|left; tauto].
        split; [assumption|]. rewrite ep_find_false in NF. apply NF. assumption.
      * intros e H _. rewrite EP. apply in_app_iff. tauto.
      * intros _. rewrite EP. apply in_app_iff. right. left. reflexivity.
      * intros; contradiction.
      * intros fd' N. rewrite EP, ep_find_app. cbn [ep_find ctl_ent en_fd].
        destruct (Z.eqb_spec fd fd'); [congruence|]. rewrite !orb_false_r. reflexivity.
      * rewrite EP. apply NoDup_fd_app; [apply (fv_nodup _ _ I)|assumption].
    + (* DEL *)
      assert (PF : ep_find (ep (kern s)) fd = true).
      { destruct (fv_has _ _ I E k L R0) as (e & A & B & _). apply ep_find_In. exists e. tauto. }
      rewrite (ctl_pure_del _ _ _ _ OP PF) in *. cbn [fst snd] in *.
      apply (FIN (wanted f) eq_refl); try reflexivity.
      * intros e H. rewrite EP in H. apply In_ep_rem in H. right. assumption.
      * intros e H N. rewrite EP. apply In_ep_rem. tauto.
      * intros; contradiction.
      * intros _. rewrite EP, ep_find_rem, Z.eqb_refl. apply andb_false_r.
      * intros fd' N. rewrite EP, ep_find_rem. destruct (Z.eqb_spec fd' fd); [contradiction|]. apply andb_true_r.
      * rewrite EP. apply NoDup_fd_rem. apply (fv_nodup _ _ I).
    + (* MOD *)
      assert (PF : ep_find (ep (kern s)) fd = true).
      { destruct (fv_has _ _ I E k L R0) as (e & A & B & _). apply ep_find_In. exists e. tauto. }
      rewrite (ctl_pure_mod _ _ _ _ OP PF) in *. cbn [fst snd] in *.
      set (ent := ctl_ent fd (epoll_mask (wanted f)) k) in *.
      assert (FE : en_fd ent = fd) by reflexivity.
      apply (FIN (wanted f) eq_refl); try reflexivity.
      * intros e H. rewrite EP in H. destruct (Z.eq_dec (en_fd e) fd) as [Q|Q].
        -- left. split; [|assumption]. eapply In_ep_repl_old; [apply (fv_nodup _ _ I)|eassumption|rewrite Q; reflexivity].
        -- right. apply In_ep_repl in H. destruct H as [->|H]; [contradiction|tauto].
      * intros e H N. rewrite EP. apply In_ep_repl_other; [assumption|congruence].
      * intros _. rewrite EP. apply In_ep_repl_new. rewrite FE. assumption.
      * intros; contradiction.
      * intros fd' N. destruct (ep_find (ep (kern s)) fd') eqn:Q.
        -- apply ep_find_map. rewrite EP, map_fd_replace. apply ep_find_map. assumption.
        -- destruct (ep_find (ep k') fd') eqn:Q'; [|reflexivity].
           apply ep_find_map in Q'. rewrite EP, map_fd_replace in Q'. apply ep_find_map in Q'. congruence.
      * rewrite EP, map_fd_replace. apply (fv_nodup _ _ I).
Qed.

(* ---------- epoll back end: notify_fd ---------- *)
Lemma set_notify_twice : forall s a b, set_notify (set_notify s a) b = set_notify s b.
Proof. reflexivity. Qed.
Lemma epoll_notify_ok : forall x s k, FdInv x s -> is_epoll s = true -> live s x k ->
  let s' := epoll_notify_fd s k in
  FdInv x s' /\ FdStep k s s' /\ keepE s s' /\ fdt s' = fdt s /\ kern s' = kern s /\
  (In k (notify s') <-> regb (fdt s k) <> wanted (fdt s k)).
Proof.
  intros x s k I E L. unfold epoll_notify_fd. sp.
  destruct (Z.eqb_spec (regb (fdt s k)) (wanted (fdt s k))) as [Q|Q]; cbv zeta.
  - split; [apply FdInv_set_notify; [assumption..|]; intros k0 H; apply In_remz in H; apply (fv_notify _ _ I); tauto|].
    split; [apply FdStep_notify; intros k0 N; rewrite In_remz; tauto|].
    split; [constructor; reflexivity|]. sp. repeat split; try reflexivity.
    + intros H. apply In_remz in H. tauto.
    + intros H. contradiction.
  - rewrite set_notify_twice.
    split; [apply FdInv_set_notify; [assumption..|]; intros k0 H; apply in_app_iff in H; destruct H as [H|[<-|[]]];
            [apply In_remz in H; apply (fv_notify _ _ I); tauto|assumption]|].
    split; [apply FdStep_notify; intros k0 N; rewrite in_app_iff, In_remz; cbn [In]; intuition congruence|].
    split; [constructor; reflexivity|]. sp. repeat split; try reflexivity.
    + intros _. assumption.
    + intros _. apply in_app_iff. right. left. reflexivity.
Qed.
