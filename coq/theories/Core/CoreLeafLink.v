(* CoreLeafLink.v -- the decision points of the core model ARE the code of src/iv_fd.c, iv_task.c, iv_main_posix.c,
   iv_fd_epoll.c and iv_fd_poll.c.

   gen/c2gallina.py (TYPED, class CTr) re-translates on every run, from the clang AST of the current source, with the C
   integer semantics explicit (Base/CSem.v), the controlling expressions and the assignments listed below into
   Gen/LeafCoreFd.v, LeafCoreTask.v, LeafCoreMain.v, LeafCoreEpoll.v, LeafCorePoll.v:

     iv_fd_timeout_check    every `if` (count == 5, cmp >= 0, cmp == 0, count < 5, count == 5, abs != NULL) and every
                            assignment to st->last_abs_count (++, = 1, = 0)
     iv_fd_poll_and_run     `if (run_timers)`, `st->last_abs_count = 0`, the six tests of the dispatch loop
                            (ready_bands & MASKERR / handler_err != NULL / handled_fd != NULL && ready_bands & MASKIN / ...)
     iv_fd_make_ready       `fd->ready_bands = 0`, `fd->ready_bands |= bands`
     iv_task_register       `st->tasks_current == NULL || t->epoch == st->task_epoch`, `st->numobjs++`
     iv_task_unregister     `st->numobjs--`
     iv_run_tasks           `epoch = ++st->task_epoch` (uint32_t), `t->epoch = epoch`, `st->numobjs--`
     IV_TASK_INIT           `t->epoch = (st != NULL) ? st->task_epoch : 0`
     iv_main                `st->quit = 0`, `run_timers = 1`, `if (run_timers)`, `if (st->quit || !st->numobjs)`, the zero timeout
     iv_fd_epoll_poll       `ret < 0`, `i < ret`, the three event-mask tests (values of EPOLLIN/OUT/ERR/HUP evaluated by clang
                            for the current headers), run_events = 0 / = 1, `if (run_events)`
     iv_fd_epoll_timerfd_poll   `run_timers = !!(abs != NULL)`, `ret < 0`, `run_timers = 1`
     iv_fd_epoll_notify_fd  `registered_bands != wanted_bands`
     __iv_fd_epoll_flush_one    the unchanged / ADD / DEL tests, `ret == 0`, `registered_bands = wanted_bands`
     iv_fd_poll_activate_fds    `i < num_regd_fds`, the three revents tests (POLLIN/OUT/ERR/HUP)
     iv_fd_poll_notify_fd   the add / delete / not-last / modify tests

   Below, each is proved equal, for ALL integers of the C type's range, to the expression that Core/CoreFd.v and
   Core/CoreModel.v use at the corresponding place, and the model functions task_register, timeout_check, activate,
   make_ready, the exit test of main_loop, the operation choice of epoll_flush_one_ and the branch choice of
   poll_notify_fd are shown to be BUILT from exactly these pieces (`*_is_the_code`).  If the C text changes (`<=` for `<`,
   `&&` for `||`, a dropped band, `cmp > 0` ...) the regenerated definitions differ and these proofs fail: the tie of
   the core checks is then reported broken, and the correspondence runs search for the failing input.

   What the kernel reports is encoded in the model (Core/Kernel.v) as IN=1 OUT=2 HUP=4 ERR=8; the C code sees the
   constants of <sys/epoll.h> / <poll.h> (IN=1 OUT=4 ERR=8 HUP=16).  `sys_bits` is that renaming; it is what the
   virtual kernel of the harness (vk.c) applies, and the lemmas are stated through it. *)
From Coq Require Import List ZArith Bool Lia.
From Ivv Require Import Base.CSem Gen.LeafCoreFd Gen.LeafCoreTask Gen.LeafCoreMain Gen.LeafCoreEpoll Gen.LeafCorePoll
  Gen.LeafCoreEvent Gen.LeafCoreLists Gen.LeafCoreRaw.
From Ivv Require Import Core.Kernel Core.CoreTypes Core.CoreFd Core.CoreModel.
Import ListNotations.
Local Open Scope Z_scope.

(* ------------------------------------------------------------------------------------------------------------ *)
(* small facts about the C conversions on the ranges that occur *)

Definition int_ok (x : Z) : Prop := - 2147483648 <= x < 2147483648.

Lemma chk_s32 x : int_ok x -> c_chk_s 32 x = Some x.
Proof.
  unfold int_ok, c_chk_s, c_in_s. intros H.
  assert (H1 : (- 2 ^ (32 - 1) <=? x) = true) by (apply Z.leb_le; change (2 ^ (32 - 1)) with 2147483648; lia).
  assert (H2 : (x <? 2 ^ (32 - 1)) = true) by (apply Z.ltb_lt; change (2 ^ (32 - 1)) with 2147483648; lia).
  rewrite H1, H2. reflexivity.
Qed.

Definition ptr_of {A} (o : option A) : Z := match o with Some _ => 1 | None => 0 end.
Definition is_some {A} (o : option A) : bool := match o with Some _ => true | None => false end.

Lemma ptr_of_null {A} (o : option A) : (ptr_of o =? 0) = negb (is_some o).
Proof. destruct o; reflexivity. Qed.

Lemma b2z_nz b : negb (b2z b =? 0) = b.
Proof. destruct b; reflexivity. Qed.

(* finite sweeps, lifted to the stated range *)
Fixpoint upto (n : nat) : list Z := match n with O => [] | S m => upto m ++ [Z.of_nat m] end.

Lemma upto_in n x : 0 <= x < Z.of_nat n -> In x (upto n).
Proof.
  induction n as [|m IH]; intros H; [lia|].
  cbn [upto]. apply in_or_app.
  destruct (Z.eq_dec x (Z.of_nat m)) as [->|Hne]; [right; left; reflexivity | left; apply IH; lia].
Qed.

Lemma sweep1 (P : Z -> bool) n : forallb P (upto n) = true -> forall x, 0 <= x < Z.of_nat n -> P x = true.
Proof. intros H x Hx. rewrite forallb_forall in H. apply H, upto_in, Hx. Qed.

Lemma sweep2 (P : Z -> Z -> bool) n m :
  forallb (fun x => forallb (P x) (upto m)) (upto n) = true ->
  forall x y, 0 <= x < Z.of_nat n -> 0 <= y < Z.of_nat m -> P x y = true.
Proof.
  intros H x y Hx Hy. rewrite forallb_forall in H. specialize (H x (upto_in n x Hx)).
  rewrite forallb_forall in H. apply H, upto_in, Hy.
Qed.

Definition obeq (a b : option bool) : bool :=
  match a, b with Some x, Some y => Bool.eqb x y | None, None => true | _, _ => false end.
Lemma obeq_eq a b : obeq a b = true -> a = b.
Proof. destruct a as [[]|], b as [[]|]; cbn; congruence. Qed.

(* ------------------------------------------------------------------------------------------------------------ *)
(* iv_task.c *)

Lemma leaf_task_main_list : forall (c : option (list Z)) te e,
  core_task_main_list (ptr_of c) te e = Some (negb (is_some c) || (te =? e)).
Proof. intros. unfold core_task_main_list. rewrite ptr_of_null. reflexivity. Qed.

Lemma leaf_task_reg_numobjs : forall n, int_ok (n + 1) -> core_task_reg_numobjs n = Some (n + 1).
Proof. intros. apply chk_s32; assumption. Qed.

Lemma leaf_task_unreg_numobjs : forall n, int_ok (n - 1) -> core_task_unreg_numobjs n = Some (n - 1).
Proof. intros. apply chk_s32; assumption. Qed.

Lemma leaf_run_tasks_numobjs : forall n, int_ok (n - 1) -> core_run_tasks_numobjs n = Some (n - 1).
Proof. intros. apply chk_s32; assumption. Qed.

Lemma leaf_run_tasks_epoch : forall e,
  core_run_tasks_epoch e = Some ((e + 1) mod 4294967296, (e + 1) mod 4294967296).
Proof. reflexivity. Qed.

Lemma leaf_run_tasks_stamp : forall e, core_run_tasks_stamp e = Some e.
Proof. reflexivity. Qed.

(* IV_TASK_INIT: a task initialised inside a running loop takes the loop's current round stamp *)
Lemma leaf_task_init_epoch : forall st e, st <> 0 -> core_task_init_epoch st e = Some e.
Proof.
  intros st e H. unfold core_task_init_epoch, c_deref, ub_bind.
  destruct (Z.eqb_spec st 0); [contradiction | reflexivity].
Qed.

(* iv_task_register written with the translated pieces *)
Definition task_register_code (s : core) (k : Z) : option core :=
  match core_task_reg_numobjs (numobjs s), core_task_main_list (ptr_of (cur s)) (tepoch s k) (epoch s) with
  | Some n, Some main_list =>
      let s := set_numobjs s n in
      if main_list then Some (set_tasks s (tasks s ++ [k]) (cur s))
      else match cur s with
           | Some c => Some (set_tasks s (tasks s) (Some (c ++ [k])))
           | None => None       (* st->tasks_current == NULL and not the main list: impossible *)
           end
  | _, _ => None
  end.

Theorem task_register_is_the_code : forall s k,
  int_ok (numobjs s + 1) -> task_register_code s k = Some (task_register s k).
Proof.
  intros s k H. unfold task_register_code, task_register.
  rewrite leaf_task_reg_numobjs by assumption. rewrite leaf_task_main_list.
  change (cur (set_numobjs s (numobjs s + 1))) with (cur s).
  change (tepoch (set_numobjs s (numobjs s + 1)) k) with (tepoch s k).
  change (epoch (set_numobjs s (numobjs s + 1))) with (epoch s).
  destruct (cur s) as [c|]; cbn [is_some negb orb ptr_of].
  - destruct (tepoch s k =? epoch s); reflexivity.
  - reflexivity.
Qed.

Theorem task_unregister_count_is_the_code : forall s k,
  int_ok (numobjs s - 1) ->
  core_task_unreg_numobjs (numobjs s) = Some (numobjs (task_unregister s k)).
Proof.
  intros s k H. rewrite leaf_task_unreg_numobjs by assumption. unfold task_unregister.
  destruct (cur s) as [c|]; try destruct (mem_z k c); reflexivity.
Qed.

(* the round stamp of run_tasks is the translated `epoch = ++st->task_epoch` *)
Theorem run_tasks_epoch_is_the_code : forall e,
  core_run_tasks_epoch e = Some ((e + 1) mod 4294967296, (e + 1) mod 4294967296).
Proof. exact leaf_run_tasks_epoch. Qed.

(* ------------------------------------------------------------------------------------------------------------ *)
(* iv_main *)

Lemma leaf_main_exit_test : forall (q : bool) n,
  core_main_exit_test (b2z q) n = Some (q || (n =? 0)).
Proof. intros q n. unfold core_main_exit_test. rewrite b2z_nz, negb_involutive. reflexivity. Qed.

Lemma leaf_main_rt_test : forall rt : bool, core_main_rt_test (b2z rt) = Some rt.
Proof. intros rt. unfold core_main_rt_test. rewrite b2z_nz. reflexivity. Qed.

Lemma leaf_main_inits :
  core_main_quit_reset tt = Some 0 /\ core_main_rt_init tt = Some (b2z true) /\
  core_main_zero_sec tt = Some 0 /\ core_main_zero_nsec tt = Some 0.
Proof. repeat split; reflexivity. Qed.

(* ------------------------------------------------------------------------------------------------------------ *)
(* iv_fd.c: make_ready, dispatch tests, timeout check *)

Definition ready_or_ok (x y : Z) : bool :=
  match core_ready_or x y with Some v => v =? Z.lor x y | None => false end.

Lemma ready_or_small : forall a b, 0 <= a < 8 -> 0 <= b < 8 -> core_ready_or a b = Some (Z.lor a b).
Proof.
  intros a b Ha Hb.
  assert (H : ready_or_ok a b = true).
  { apply (sweep2 ready_or_ok 8 8); [vm_compute; reflexivity | exact Ha | exact Hb]. }
  unfold ready_or_ok in H. destruct (core_ready_or a b) as [v|]; [|discriminate].
  apply Z.eqb_eq in H. rewrite H. reflexivity.
Qed.

Lemma leaf_ready_reset : core_ready_reset tt = Some 0.
Proof. reflexivity. Qed.

(* the model's make_ready: `if (list_empty) { ready_bands = 0; add }  ready_bands |= bands` with the translated stores *)
Definition make_ready_code (s : core) (k bands : Z) : option core :=
  match core_ready_reset tt with
  | Some z =>
      let s := if mem_z k (active s) then s
               else set_active (putfd s k (fd_with_ready (getfd s k) z)) (active s ++ [k]) in
      match core_ready_or (ready (getfd s k)) bands with
      | Some r => Some (putfd s k (fd_with_ready (getfd s k) r))
      | None => None
      end
  | None => None
  end.

Theorem make_ready_is_the_code : forall s k bands,
  0 <= bands < 8 ->
  (mem_z k (active s) = true -> 0 <= ready (getfd s k) < 8) ->
  make_ready_code s k bands = Some (make_ready s k bands).
Proof.
  intros s k bands Hb Hr. unfold make_ready_code, make_ready. rewrite leaf_ready_reset.
  destruct (mem_z k (active s)) eqn:E.
  - rewrite ready_or_small; [reflexivity | apply Hr; reflexivity | exact Hb].
  - set (s1 := set_active (putfd s k (fd_with_ready (getfd s k) 0)) (active s ++ [k])).
    assert (H0 : ready (getfd s1 k) = 0).
    { unfold s1, getfd, putfd. cbn. unfold upd. rewrite Z.eqb_refl. reflexivity. }
    rewrite H0. rewrite ready_or_small; [reflexivity | lia | exact Hb].
Qed.

Lemma leaf_disp_err : forall rb, core_disp_err rb = Some (has rb M_ERR).
Proof. reflexivity. Qed.
Lemma leaf_disp_in : forall (h : option Z) rb, core_disp_in (ptr_of h) rb = Some (is_some h && has rb M_IN).
Proof. intros. unfold core_disp_in. rewrite ptr_of_null, negb_involutive. reflexivity. Qed.
Lemma leaf_disp_out : forall (h : option Z) rb, core_disp_out (ptr_of h) rb = Some (is_some h && has rb M_OUT).
Proof. intros. unfold core_disp_out. rewrite ptr_of_null, negb_involutive. reflexivity. Qed.
Lemma leaf_disp_handler : forall h : option Z,
  core_disp_err_h (ptr_of h) = Some (is_some h) /\ core_disp_in_h (ptr_of h) = Some (is_some h) /\
  core_disp_out_h (ptr_of h) = Some (is_some h).
Proof.
  intros h. unfold core_disp_err_h, core_disp_in_h, core_disp_out_h. rewrite ptr_of_null, negb_involutive. auto.
Qed.

(* the guards of the three handler calls of one dispatch step, as the model writes them, are the translated tests:
   [handled] is st->handled_fd (cleared by an unregister from a handler), [rb] the ready bands *)
Theorem dispatch_guards_are_the_code : forall (handled : option Z) rb,
  core_disp_err rb = Some (has rb M_ERR) /\
  core_disp_in (ptr_of handled) rb = Some (match handled with Some _ => has rb M_IN | None => false end) /\
  core_disp_out (ptr_of handled) rb = Some (match handled with Some _ => has rb M_OUT | None => false end).
Proof.
  intros h rb. rewrite leaf_disp_err, leaf_disp_in, leaf_disp_out. destruct h; auto.
Qed.


(* iv_fd_timeout_check written with the translated tests and stores; [cmp] = timespec_cmp(abs, &st->last_abs)
   (translated and linked in Base/LeafLink.v: leaf_timespec_cmp) *)
Definition timeout_check_code (s : core) (abs : option Z) : option (res * bool) :=
  let cmp := abs_cmp abs (last_abs s) in
  ub_bind (core_tc_armed (last_abs_count s)) (fun armed =>
  ub_bind (core_tc_keep cmp) (fun keep =>
  if armed && keep then Some (R s, true) else
  let s := if armed then tfd_settime s 0 else s in
  ub_bind (core_tc_same cmp) (fun same =>
  if same then
    ub_bind (core_tc_below (last_abs_count s)) (fun below =>
    ub_bind (if below then core_tc_count_inc (last_abs_count s) else Some (last_abs_count s)) (fun c =>
    let s := if below then set_last_abs s (last_abs s) c else s in
    ub_bind (core_tc_arm (last_abs_count s)) (fun arm =>
    if arm then
      match abs with
      | Some a => Some (set_poll_timeout s a)
      | None => Some (R s, false)
      end
    else Some (R s, false))))
  else
    ub_bind (core_tc_have_abs (ptr_of abs)) (fun have =>
    ub_bind (core_tc_count_one tt) (fun one =>
    ub_bind (core_tc_count_zero tt) (fun zero =>
    match abs with
    | Some a => if have then Some (R (set_last_abs s a one), false) else None
    | None => if have then None else Some (R (set_last_abs s (last_abs s) zero), false)
    end)))))).

Theorem timeout_check_is_the_code : forall s abs,
  int_ok (last_abs_count s + 1) ->
  timeout_check_code s abs = Some (timeout_check s abs).
Proof.
  intros s abs Hc. unfold timeout_check_code, timeout_check.
  unfold core_tc_armed, core_tc_keep, core_tc_same, core_tc_below, core_tc_arm, core_tc_have_abs,
    core_tc_count_one, core_tc_count_zero, core_tc_count_inc.
  cbn [ub_bind].
  set (cmp := abs_cmp abs (last_abs s)).
  rewrite Z.geb_leb.
  destruct (last_abs_count s =? 5) eqn:E5; destruct (0 <=? cmp) eqn:Ec; cbn [andb]; try reflexivity.
  - (* armed, cmp < 0: timer cleared, cmp <> 0 *)
    assert (Hne : (cmp =? 0) = false) by (apply Z.eqb_neq; apply Z.leb_gt in Ec; lia).
    rewrite Hne. rewrite ptr_of_null. destruct abs; reflexivity.
  - destruct (cmp =? 0) eqn:E0.
    + destruct (last_abs_count s <? 5) eqn:El.
      * rewrite chk_s32 by assumption. cbn [ub_bind]. cbn [last_abs_count set_last_abs].
        destruct (last_abs_count s + 1 =? 5); [destruct abs|]; reflexivity.
      * cbn [ub_bind]. rewrite E5. reflexivity.
    + rewrite ptr_of_null. destruct abs; reflexivity.
  - destruct (cmp =? 0) eqn:E0.
    + destruct (last_abs_count s <? 5) eqn:El.
      * rewrite chk_s32 by assumption. cbn [ub_bind]. cbn [last_abs_count set_last_abs].
        destruct (last_abs_count s + 1 =? 5); [destruct abs|]; reflexivity.
      * cbn [ub_bind]. rewrite E5. reflexivity.
    + rewrite ptr_of_null. destruct abs; reflexivity.
Qed.

(* iv_fd_poll_and_run: `if (run_timers) st->last_abs_count = 0;` *)
Theorem poll_and_run_reset_is_the_code : forall rt : bool,
  core_par_rt (b2z rt) = Some rt /\ core_par_count_reset tt = Some 0.
Proof. intros rt. unfold core_par_rt. rewrite b2z_nz. auto. Qed.


(* ------------------------------------------------------------------------------------------------------------ *)
(* kernel bits: the model's encoding and the system's *)

Definition sys_bits (bits : Z) : Z :=      (* EPOLLIN = POLLIN = 1, OUT = 4, ERR = 8, HUP = 16 *)
  (if has bits B_IN then 1 else 0) + (if has bits B_OUT then 4 else 0) +
  (if has bits B_ERR then 8 else 0) + (if has bits B_HUP then 16 else 0).

Definition want_in (bits : Z) : bool := has bits B_IN || (has bits B_HUP || has bits B_ERR).
Definition want_out (bits : Z) : bool := has bits B_OUT || (has bits B_HUP || has bits B_ERR).
Definition want_err (bits : Z) : bool := has bits B_HUP || has bits B_ERR.

Definition ep_bands_ok (b : Z) : bool :=
  obeq (core_ep_in (sys_bits b)) (Some (want_in b)) && obeq (core_ep_out (sys_bits b)) (Some (want_out b)) &&
  obeq (core_ep_err (sys_bits b)) (Some (want_err b)).
Definition po_bands_ok (b : Z) : bool :=
  obeq (core_po_in (sys_bits b)) (Some (want_in b)) && obeq (core_po_out (sys_bits b)) (Some (want_out b)) &&
  obeq (core_po_err (sys_bits b)) (Some (want_err b)).

Lemma leaf_epoll_bands : forall bits, 0 <= bits < 16 ->
  core_ep_in (sys_bits bits) = Some (want_in bits) /\
  core_ep_out (sys_bits bits) = Some (want_out bits) /\
  core_ep_err (sys_bits bits) = Some (want_err bits).
Proof.
  intros bits Hb.
  assert (H : ep_bands_ok bits = true).
  { apply (sweep1 ep_bands_ok 16); [vm_compute; reflexivity | exact Hb]. }
  unfold ep_bands_ok in H. apply andb_prop in H as [H H3]. apply andb_prop in H as [H1 H2].
  repeat split; apply obeq_eq; assumption.
Qed.

Lemma leaf_poll_bands : forall bits, 0 <= bits < 16 ->
  core_po_in (sys_bits bits) = Some (want_in bits) /\
  core_po_out (sys_bits bits) = Some (want_out bits) /\
  core_po_err (sys_bits bits) = Some (want_err bits).
Proof.
  intros bits Hb.
  assert (H : po_bands_ok bits = true).
  { apply (sweep1 po_bands_ok 16); [vm_compute; reflexivity | exact Hb]. }
  unfold po_bands_ok in H. apply andb_prop in H as [H H3]. apply andb_prop in H as [H1 H2].
  repeat split; apply obeq_eq; assumption.
Qed.

(* the band translation shared by all back ends, written with three translated tests *)
Definition activate_with (t_in t_out t_err : Z -> option bool) (s : core) (k bits : Z) : option core :=
  match t_in (sys_bits bits), t_out (sys_bits bits), t_err (sys_bits bits) with
  | Some i, Some o, Some e =>
      let s := if i then make_ready s k M_IN else s in
      let s := if o then make_ready s k M_OUT else s in
      Some (if e then make_ready s k M_ERR else s)
  | _, _, _ => None
  end.

Lemma activate_unfold : forall s k bits,
  activate s k bits =
  (let s := if want_in bits then make_ready s k M_IN else s in
   let s := if want_out bits then make_ready s k M_OUT else s in
   if want_err bits then make_ready s k M_ERR else s).
Proof. reflexivity. Qed.

Theorem activate_is_the_code_epoll : forall s k bits, 0 <= bits < 16 ->
  activate_with core_ep_in core_ep_out core_ep_err s k bits = Some (activate s k bits).
Proof.
  intros s k bits Hb. unfold activate_with.
  destruct (leaf_epoll_bands bits Hb) as (-> & -> & ->). rewrite activate_unfold. reflexivity.
Qed.

Theorem activate_is_the_code_poll : forall s k bits, 0 <= bits < 16 ->
  activate_with core_po_in core_po_out core_po_err s k bits = Some (activate s k bits).
Proof.
  intros s k bits Hb. unfold activate_with.
  destruct (leaf_poll_bands bits Hb) as (-> & -> & ->). rewrite activate_unfold. reflexivity.
Qed.

(* ------------------------------------------------------------------------------------------------------------ *)
(* iv_fd_epoll.c: batch loop bookkeeping, notify, flush *)

Lemma leaf_epoll_loop :
  (forall ret, core_ep_failed ret = Some (ret <? 0)) /\ (forall ret, core_et_failed ret = Some (ret <? 0)) /\
  (forall i ret, core_ep_more i ret = Some (i <? ret)) /\
  core_ep_re_init tt = Some (b2z false) /\ core_ep_re_set tt = Some (b2z true) /\
  (forall re : bool, core_ep_run_events (b2z re) = Some re) /\
  (forall abs : option Z, core_et_rt_init (ptr_of abs) = Some (b2z (is_some abs))) /\
  core_et_rt_set tt = Some (b2z true).
Proof.
  repeat split; try reflexivity.
  - intros re. unfold core_ep_run_events. rewrite b2z_nz. reflexivity.
  - intros abs. unfold core_et_rt_init. rewrite ptr_of_null, !negb_involutive. reflexivity.
Qed.

Lemma leaf_notify_changed : forall r w, core_notify_changed r w = Some (negb (r =? w)).
Proof. reflexivity. Qed.

(* iv_fd_epoll_notify_fd built from the translated test *)
Theorem epoll_notify_fd_is_the_code : forall s k,
  (let s1 := set_notify s (remove_z k (notify s)) in
   match core_notify_changed (regb (getfd s1 k)) (wanted (getfd s1 k)) with
   | Some changed => Some (if changed then set_notify s1 (notify s1 ++ [k]) else s1)
   | None => None
   end) = Some (epoll_notify_fd s k).
Proof.
  intros s k. cbv zeta. rewrite leaf_notify_changed. unfold epoll_notify_fd.
  destruct (regb _ =? wanted _); reflexivity.
Qed.

(* the operation chosen by __iv_fd_epoll_flush_one, with the translated tests *)
Definition flush_op_code (r w : Z) : option (option Z) :=      (* None inside = nothing to do *)
  match core_flush_unchanged r w, core_flush_add r w, core_flush_del r w with
  | Some same, Some add, Some del =>
      Some (if same then None else Some (if add then CTL_ADD else if del then CTL_DEL else CTL_MOD))
  | _, _, _ => None
  end.

Definition flush_op_model (r w : Z) : option Z :=
  if r =? w then None
  else Some (if (r =? 0) && negb (w =? 0) then CTL_ADD
             else if negb (r =? 0) && (w =? 0) then CTL_DEL else CTL_MOD).

Lemma flush_op_is_the_code : forall r w, flush_op_code r w = Some (flush_op_model r w).
Proof.
  intros r w. unfold flush_op_code, flush_op_model, core_flush_unchanged, core_flush_add, core_flush_del.
  rewrite !negb_involutive. reflexivity.
Qed.

(* ... and epoll_flush_one_ of the model makes exactly that choice, and stores the translated new registered_bands *)
Theorem epoll_flush_one_is_the_code : forall s k,
  epoll_flush_one_ s k =
  (let s0 := set_notify s (remove_z k (notify s)) in
   let f := getfd s0 k in
   match flush_op_model (regb f) (wanted f) with
   | None => (s0, false)
   | Some op =>
       let '(s1, r) := ctl_retry s0 op (fdnum f) (epoll_mask (wanted f)) k in
       match r with
       | None => (putfd s1 k (fd_with_regb (getfd s1 k)
                                 (match core_flush_regb (wanted f) with Some v => v | None => regb f end)), false)
       | Some _ => (s1, true)
       end
   end).
Proof.
  intros s k. unfold epoll_flush_one_, flush_op_model. cbv zeta.
  destruct (regb _ =? wanted _); reflexivity.
Qed.

Lemma leaf_flush_ok : forall ret, core_flush_ok ret = Some (ret =? 0).
Proof. reflexivity. Qed.

(* ------------------------------------------------------------------------------------------------------------ *)
(* iv_fd_poll.c: which branch of iv_fd_poll_notify_fd *)

Inductive pn_branch := PnAdd | PnDel | PnMod | PnNone.

Definition pn_branch_code (idx w : Z) : option pn_branch :=
  match core_pn_add idx w, core_pn_del idx w, core_pn_mod idx with
  | Some a, Some d, Some m => Some (if a then PnAdd else if d then PnDel else if m then PnMod else PnNone)
  | _, _, _ => None
  end.

Definition pn_branch_model (idx w : Z) : pn_branch :=
  if (idx =? -1) && negb (w =? 0) then PnAdd
  else if negb (idx =? -1) && (w =? 0) then PnDel
  else if negb (idx =? -1) then PnMod else PnNone.

Lemma pn_branch_is_the_code : forall idx w, pn_branch_code idx w = Some (pn_branch_model idx w).
Proof.
  intros. unfold pn_branch_code, pn_branch_model, core_pn_add, core_pn_del, core_pn_mod.
  rewrite !negb_involutive. reflexivity.
Qed.

Lemma leaf_pn_last : forall idx n, core_pn_last idx n = Some (negb (idx =? n)).
Proof. reflexivity. Qed.

Lemma leaf_po_more : forall i n, core_po_more i n = Some (i <? n).
Proof. reflexivity. Qed.

(* poll_notify_fd of the model takes exactly the branch the translated tests select *)
Theorem poll_notify_fd_is_the_code : forall s k,
  let f := getfd s k in
  match pn_branch_model (pidx f) (wanted f) with
  | PnNone => poll_notify_fd s k = R s
  | PnMod => poll_notify_fd s k =
             match nth_z (pfds s) (pidx f) with
             | Some p => R (set_poll s (set_nth (pfds s) (Z.to_nat (pidx f)) (fst p, poll_mask (wanted f))) (pkeys s))
             | None => halt s TCrash
             end
  | PnAdd => 65536 <=? Z.of_nat (length (pfds s)) = false ->
             poll_notify_fd s k =
             R (let n := Z.of_nat (length (pfds s)) in
                let s1 := putfd s k (fd_with_pidx f n) in
                set_poll s1 (pfds s1 ++ [(fdnum f, poll_mask (wanted f))]) (pkeys s1 ++ [k]))
  | PnDel => True
  end.
Proof.
  intros s k f. unfold pn_branch_model, poll_notify_fd. fold f.
  destruct ((pidx f =? -1) && negb (wanted f =? 0)) eqn:Ea.
  - intros ->. reflexivity.
  - destruct (negb (pidx f =? -1) && (wanted f =? 0)) eqn:Ed; [exact I|].
    destruct (negb (pidx f =? -1)); reflexivity.
Qed.

(* ------------------------------------------------------------------------------------------------------------ *)
(* iv_event.c (owner-thread paths) and the list predicates.  A call of iv_list_empty / iv_task_registered /
   iv_pending_tasks inside a translated test is a parameter of the test (0 / non-zero); the lemmas instantiate it with
   what the model's lists say. *)

Lemma b2z_z b : (b2z b =? 0) = negb b.
Proof. destruct b; reflexivity. Qed.

Lemma leaf_event_tests :
  (forall e : bool, core_evp_unqueued (b2z e) = Some e) /\ (forall e : bool, core_evp_first (b2z e) = Some e) /\
  core_evp_post_init tt = Some (b2z false) /\ core_evp_post_set tt = Some (b2z true) /\
  (forall p : bool, core_evp_post_test (b2z p) = Some p) /\
  (forall a b, core_evp_same_thread a b = Some (a =? b)) /\
  (forall r : bool, core_evp_need_task (b2z r) = Some (negb r)) /\
  (forall u : bool, core_evp_use_raw (b2z u) = Some u) /\
  (forall e : bool, core_evrun_nothing (b2z e) = Some e) /\ (forall e : bool, core_evrun_last (b2z e) = Some e).
Proof.
  unfold core_evp_unqueued, core_evp_first, core_evp_post_test, core_evp_need_task, core_evp_use_raw,
    core_evrun_nothing, core_evrun_last.
  repeat split; intros; rewrite ?b2z_z, ?negb_involutive; reflexivity.
Qed.

Definition list_is_empty {A} (l : list A) : bool := match l with [] => true | _ => false end.

(* iv_event_post called by the owner thread (dst == me), written with the translated tests and stores *)
Definition event_post_code (s : core) (j : Z) : option core :=
  ub_bind (core_evp_post_init tt) (fun p0 =>
  ub_bind (core_evp_post_set tt) (fun p1 =>
  ub_bind (core_evp_unqueued (b2z (negb (ev_on_list s j)))) (fun unqueued =>
  ub_bind (core_evp_first (b2z (list_is_empty (ev_pending s)))) (fun first =>
  let post := if unqueued then (if first then p1 else p0) else p0 in
  let s := if unqueued then set_evlists s (ev_pending s ++ [j]) (ev_batch s) else s in
  ub_bind (core_evp_post_test post) (fun do_post =>
  if do_post then
    ub_bind (core_evp_same_thread 1 1) (fun same =>
    if same then
      ub_bind (core_evp_need_task (b2z (task_registered s LOCAL_TASK))) (fun need =>
      Some (if need then task_register s LOCAL_TASK else s))
    else None)
  else Some s))))).

Theorem event_post_is_the_code : forall s j, event_post_code s j = Some (event_post s j).
Proof.
  intros s j. unfold event_post_code, event_post.
  destruct leaf_event_tests as (H1 & H2 & H3 & H4 & H5 & H6 & H7 & _).
  rewrite H3, H4, H1, H2. cbn [ub_bind].
  destruct (ev_on_list s j); cbn [negb].
  - change 0 with (b2z false). rewrite H5. reflexivity.
  - destruct (ev_pending s) as [|e l]; cbn [list_is_empty].
    + rewrite H5. cbn [ub_bind]. rewrite H6, Z.eqb_refl. cbn [ub_bind]. rewrite H7. cbn [ub_bind andb].
      destruct (task_registered _ LOCAL_TASK); reflexivity.
    + rewrite H5. reflexivity.
Qed.

(* iv_main: `if (iv_pending_tasks(st))` chooses the zero timeout *)
Theorem main_timeout_choice_is_the_code : forall (s : core) (soonest : option Z),
  match core_main_tasks_pending (b2z (negb (list_is_empty (tasks s)))), core_main_zero_sec tt, core_main_zero_nsec tt with
  | Some pending, Some sec, Some nsec => Some (if pending then Some (sec * 1000000000 + nsec) else soonest)
  | _, _, _ => None
  end = Some (match tasks s with _ :: _ => Some 0 | [] => soonest end).
Proof.
  intros s soonest. unfold core_main_tasks_pending. rewrite b2z_z, !negb_involutive.
  destruct (tasks s); reflexivity.
Qed.

(* loop conditions and misuse guards over lists *)
Lemma leaf_list_tests :
  (forall e : bool, core_run_tasks_more (b2z e) = Some (negb e)) /\
  (forall e : bool, core_task_reg_misuse (b2z e) = Some (negb e)) /\
  (forall e : bool, core_task_unreg_misuse (b2z e) = Some e) /\
  (forall e : bool, core_disp_more (b2z e) = Some (negb e)) /\
  (forall e : bool, core_ready_fresh (b2z e) = Some e) /\
  (forall e : bool, core_unreg_flush (b2z e) = Some (negb e)) /\
  (forall e : bool, core_flush_more (b2z e) = Some (negb e)).
Proof.
  unfold core_run_tasks_more, core_task_reg_misuse, core_task_unreg_misuse, core_disp_more, core_ready_fresh,
    core_unreg_flush, core_flush_more.
  repeat split; intros; rewrite ?b2z_z, ?negb_involutive; reflexivity.
Qed.

(* iv_fd_epoll_unregister_fd: flush iff the descriptor is on the notify list *)
Theorem epoll_unregister_fd_is_the_code : forall s k,
  match core_unreg_flush (b2z (negb (mem_z k (notify s)))) with
  | Some flush => Some (if flush then epoll_flush_one s k else R s)
  | None => None
  end = Some (epoll_unregister_fd s k).
Proof.
  intros s k. destruct leaf_list_tests as (_ & _ & _ & _ & _ & H & _). rewrite H, negb_involutive. reflexivity.
Qed.

(* ------------------------------------------------------------------------------------------------------------ *)
(* iv_event_raw_posix.c: eventfd-backed or pipe-backed is decided PER OBJECT (`event_wfd == event_rfd.fd`, fix D9); the
   read size, the written size and the second close follow from it *)

Lemma leaf_raw_is_eventfd : forall w r, raw_is_eventfd w r = Some (b2z (w =? r)).
Proof. reflexivity. Qed.

Lemma leaf_raw_sizes : forall s j,
  raw_toread (rw_wfd s j) (rw_rfd s j) = Some (if raw_is_pipe s j then 1024 else 8) /\
  raw_post_pipe (rw_wfd s j) (rw_rfd s j) = Some (raw_is_pipe s j) /\
  raw_unreg_pipe (rw_wfd s j) (rw_rfd s j) = Some (raw_is_pipe s j) /\
  raw_post_size_pipe tt = Some 1 /\ raw_post_size_efd tt = Some 8.
Proof.
  intros s j. unfold raw_toread, raw_post_pipe, raw_unreg_pipe, raw_is_eventfd, raw_is_pipe. cbn [ub_bind].
  destruct (rw_wfd s j =? rw_rfd s j); repeat split; reflexivity.
Qed.

(* iv_event_raw_post of the model writes what the translated code writes: 1 byte to a pipe, the 8-byte value 1 to an eventfd *)
Theorem raw_post_is_the_code : forall s j,
  match raw_post_pipe (rw_wfd s j) (rw_rfd s j), raw_post_size_pipe tt, raw_post_size_efd tt with
  | Some pipe, Some n1, Some n8 =>
      Some (set_kern s (fst (if pipe then k_write (kern s) (rw_wfd s j) n1 0 else k_write (kern s) (rw_wfd s j) n8 1)))
  | _, _, _ => None
  end = Some (raw_post s j).
Proof.
  intros s j. destruct (leaf_raw_sizes s j) as (_ & -> & _ & -> & ->). unfold raw_post.
  destruct (raw_is_pipe s j); [destruct (k_write (kern s) (rw_wfd s j) 1 0) | destruct (k_write (kern s) (rw_wfd s j) 8 1)];
    reflexivity.
Qed.

(* iv_event_raw_unregister: the write end is closed only for a pipe-backed object *)
Theorem raw_unregister_is_the_code : forall s j,
  raw_unregister s j =
  bind (fd_unregister s (RAW_KEY j)) (fun s =>
    let s := do_close s (rw_rfd s j) in
    match raw_unreg_pipe (rw_wfd s j) (rw_rfd s j) with
    | Some pipe =>
        let s := if pipe then do_close s (rw_wfd s j) else s in
        R (set_rw s (upd (rw_reg s) j false) (rw_rfd s) (rw_wfd s))
    | None => halt s TCrash
    end).
Proof.
  intros s j. unfold raw_unregister.
  destruct (fd_unregister s (RAW_KEY j)) as [s1|s1]; cbn [bind]; [|reflexivity].
  cbv zeta.
  destruct (leaf_raw_sizes (do_close s1 (rw_rfd s1 j)) j) as (_ & _ & H & _). rewrite H. reflexivity.
Qed.

Lemma leaf_raw_read_tests : forall ret, raw_nothing ret = Some (ret <=? 0) /\ raw_zero ret = Some (ret =? 0).
Proof. intros; split; reflexivity. Qed.

(* ------------------------------------------------------------------------------------------------------------ *)
(* non-vacuity: the translated pieces evaluated on concrete values (a changed source changes these too) *)
Example core_leaf_samples :
  core_tc_keep (-1) = Some false /\ core_tc_keep 0 = Some true /\
  core_task_main_list 1 3 4 = Some false /\ core_task_main_list 1 4 4 = Some true /\ core_task_main_list 0 3 4 = Some true /\
  core_run_tasks_epoch 4294967295 = Some (0, 0) /\
  core_main_exit_test 0 0 = Some true /\ core_main_exit_test 0 2 = Some false /\ core_main_exit_test 1 2 = Some true /\
  core_ep_in 16 = Some true /\ core_ep_out 1 = Some false /\ core_ep_err 4 = Some false /\
  core_pn_add (-1) 3 = Some true /\ core_pn_del 2 0 = Some true /\
  flush_op_code 0 1 = Some (Some CTL_ADD) /\ flush_op_code 3 0 = Some (Some CTL_DEL) /\ flush_op_code 1 3 = Some (Some CTL_MOD).
Proof. vm_compute. repeat split; reflexivity. Qed.
