(* CoreAll.v -- assembly: the tracker monitor is silent iff none of its finitely many failure codes occurs.
   `all_codes` is the union of the codes each trace event can raise (CorePhase2AcctMon.ev_codes, proved complete by
   `fails_origin`); the per-code theorems of the phase-2 families then give `mon_all`. *)
From Coq Require Import List ZArith Bool.
From Ivv Require Import Core.Kernel Core.CoreTypes Core.CoreFd Core.CoreModel Core.Monitors Core.CoreSpec
  Core.CoreCodes Core.CorePhase2AcctMon.
Import ListNotations.
Local Open Scope Z_scope.

Definition all_codes : list Z :=
  [101; 102; 103; 104; 105; 201; 202; 203; 204; 301; 302; 303; 304; 401; 403; 404; 405; 406; 407;
   602; 603; 604; 701; 702; 703; 704; 705; 706; 707; 708; 709; 710; 711; 801; 901; 902; 1501; 1502; 1801; 1802; 1804].

Lemma ev_codes_all : forall e c, In c (ev_codes e) -> In c all_codes.
Proof.
  intros e c H. destruct e; try (destruct n); cbn [ev_codes In] in H;
    repeat (destruct H as [<-|H]; [vm_compute; tauto|]); contradiction.
Qed.

Lemma fails_in_all_codes : forall tr c, In c (mon_fails tr) -> In c all_codes.
Proof. intros tr c H. destruct (fails_origin tr c H) as (e & _ & C). exact (ev_codes_all e c C). Qed.

Lemma mon_all_of_codes : forall tr, no_code all_codes (mon_fails tr) -> mon_all tr = true.
Proof.
  intros tr H. unfold mon_all. destruct (mon_fails tr) as [|c l] eqn:E; [reflexivity|].
  exfalso. apply (H c); [left; reflexivity|]. apply (fails_in_all_codes tr). rewrite E. left. reflexivity.
Qed.

(* per-range versions: a range monitor holds when the codes of all_codes inside the range do not occur *)
Lemma none_in_of_codes : forall lo hi tr,
  (forall c, In c all_codes -> lo <= c < hi -> ~ In c (mon_fails tr)) -> none_in lo hi (mon_fails tr) = true.
Proof.
  intros lo hi tr H. unfold none_in. apply negb_true_iff.
  destruct (existsb (in_range lo hi) (mon_fails tr)) eqn:E; [|reflexivity]. exfalso.
  apply existsb_exists in E. destruct E as (c & Hc & R). unfold in_range in R. apply andb_true_iff in R.
  destruct R as (R1 & R2). apply Z.leb_le in R1. apply Z.ltb_lt in R2.
  exact (H c (fails_in_all_codes tr c Hc) (conj R1 R2) Hc).
Qed.

(* ---------- assembly of the per-property theorems ---------- *)
From Ivv Require Import Core.CoreRel Core.CoreCodes2 Core.CorePhase2Fd Core.CorePhase2Time Core.CorePhase2TimeC09 Core.CorePhase2Ei
  Core.CorePhase2AcctSpinTop.

Lemma range_no_code : forall lo hi tr c, none_in lo hi (mon_fails tr) = true -> lo <= c < hi -> ~ In c (mon_fails tr).
Proof. intros lo hi tr c H R Hin. exact (none_in_no_code lo hi _ c H Hin R). Qed.

(* Every failure code of the tracker monitor except 711 (busy polling, proof in progress) is excluded on every
   well-formed scenario: on every poll method and under every fault set. *)
Theorem core_all_but_711 : forall sc, wf_scenario sc -> forall c, In c (mon_fails (run_scenario sc)) -> c = 711.
Proof.
  intros sc WF c Hin.
  pose proof (fails_in_all_codes _ c Hin) as A.
  pose proof (core_mon_C01 sc WF) as H1. unfold mon_C01 in H1.
  pose proof (core_mon_C02 sc WF) as H2. unfold mon_C02 in H2.
  destruct (core_mon_C03 sc WF) as (H3 & _). unfold mon_C03 in H3.
  destruct (core_mon_C04 sc WF) as (H4 & _). unfold mon_C04 in H4.
  pose proof (core_mon_C06 sc WF) as H6. unfold mon_C06 in H6. apply andb_true_iff in H6. destruct H6 as (H6 & _).
  pose proof (core_mon_C09 sc WF) as H9. unfold mon_C09 in H9. apply andb_true_iff in H9. destruct H9 as (H9 & _).
  pose proof (core_mon_C15 sc WF) as H15. unfold mon_C15 in H15.
  destruct (core_mon_C18 sc WF) as (H18 & _). unfold mon_C18 in H18.
  pose proof (codes_acct sc WF) as HA. pose proof (codes_handlers sc WF) as HH.
  unfold all_codes in A. cbn [In] in A.
  repeat (destruct A as [A|A]; [subst c;
    first [ reflexivity
          | exfalso; match goal with Hc : In ?k _ |- _ => first
              [ apply (range_no_code 100 200 _ k H1); [split; [discriminate|reflexivity]|exact Hc]
              | apply (range_no_code 200 300 _ k H2); [split; [discriminate|reflexivity]|exact Hc]
              | apply (range_no_code 300 400 _ k H3); [split; [discriminate|reflexivity]|exact Hc]
              | apply (range_no_code 400 500 _ k H4); [split; [discriminate|reflexivity]|exact Hc]
              | apply (range_no_code 600 700 _ k H6); [split; [discriminate|reflexivity]|exact Hc]
              | apply (range_no_code 900 1000 _ k H9); [split; [discriminate|reflexivity]|exact Hc]
              | apply (range_no_code 1500 1600 _ k H15); [split; [discriminate|reflexivity]|exact Hc]
              | apply (range_no_code 1800 1900 _ k H18); [split; [discriminate|reflexivity]|exact Hc]
              | apply (HA _ Hc); cbn [In]; tauto
              | apply (HH _ Hc); cbn [In]; tauto ] end ] |]).
  contradiction.
Qed.

(* The tracker monitor is silent on every well-formed scenario: on every poll method and under every fault set. *)
Theorem core_mon_all : forall sc, wf_scenario sc -> mon_all (run_scenario sc) = true.
Proof.
  intros sc WF. unfold mon_all. destruct (mon_fails (run_scenario sc)) as [|c l] eqn:E; [reflexivity|].
  exfalso. assert (Hin : In c (mon_fails (run_scenario sc))) by (rewrite E; left; reflexivity).
  pose proof (core_all_but_711 sc WF c Hin) as ->. exact (core_code_711 sc WF Hin).
Qed.
