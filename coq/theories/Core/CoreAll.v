(* CoreAll.v -- assembly: the tracker monitor is silent iff none of its finitely many failure codes occurs.
   `all_codes` is the union of the codes each trace event can raise (CorePhase2AcctMon.ev_codes, proved complete by
   `fails_origin`); the per-code theorems of the phase-2 families then give `mon_all`. *)
From Coq Require Import List ZArith Bool.
From Ivv Require Import Core.Kernel Core.CoreTypes Core.CoreFd Core.CoreModel Core.Monitors Core.CoreSpec
  Core.CoreCodes Core.CorePhase2AcctMon.
Import ListNotations.
Local Open Scope Z_scope.

Definition all_codes : list Z :=
  [101; 102; 103; 104; 105; 201; 202; 203; 204; 301; 302; 303; 304; 401; 403; 404; 405; 406; 407;
   602; 603; 604; 701; 702; 703; 704; 705; 706; 707; 708; 709; 710; 711; 801; 901; 902; 1501; 1502; 1801; 1802; 1804].

Lemma ev_codes_all : forall e c, In c (ev_codes e) -> In c all_codes.
Proof.
  intros e c H. destruct e; try (destruct n); cbn [ev_codes In] in H;
    repeat (destruct H as [<-|H]; [vm_compute; tauto|]); contradiction.
Qed.

Lemma fails_in_all_codes : forall tr c, In c (mon_fails tr) -> In c all_codes.
Proof. intros tr c H. destruct (fails_origin tr c H) as (e & _ & C). exact (ev_codes_all e c C). Qed.

Lemma mon_all_of_codes : forall tr, no_code all_codes (mon_fails tr) -> mon_all tr = true.
Proof.
  intros tr H. unfold mon_all. destruct (mon_fails tr) as [|c l] eqn:E; [reflexivity|].
  exfalso. apply (H c); [left; reflexivity|]. apply (fails_in_all_codes tr). rewrite E. left. reflexivity.
Qed.

(* per-range versions: a range monitor holds when the codes of all_codes inside the range do not occur *)
Lemma none_in_of_codes : forall lo hi tr,
  (forall c, In c all_codes -> lo <= c < hi -> ~ In c (mon_fails tr)) -> none_in lo hi (mon_fails tr) = true.
Proof.
  intros lo hi tr H. unfold none_in. apply negb_true_iff.
  destruct (existsb (in_range lo hi) (mon_fails tr)) eqn:E; [|reflexivity]. exfalso.
  apply existsb_exists in E. destruct E as (c & Hc & R). unfold in_range in R. apply andb_true_iff in R.
  destruct R as (R1 & R2). apply Z.leb_le in R1. apply Z.ltb_lt in R2.
  exact (H c (fails_in_all_codes tr c Hc) (conj R1 R2) Hc).
Qed.
