(* CoreInvActB.v -- events: the kick descriptor (event_rx_on / event_rx_off),
   iv_event_register / unregister, and do_action for the event / raw-event actions. *)
From Coq Require Import List ZArith Bool Lia.
From Ivv Require Import Core.Kernel Core.CoreTypes Core.CoreFd Core.CoreModel Core.CoreSpec
  Core.CoreInvBase Core.CoreInvDefs Core.CoreInvFd Core.CoreInvPoll Core.CoreInvReg Core.CoreInvObj Core.CoreInvAct Core.CoreInvActR.
From Ivv Require Timer.HeapModel Timer.HeapSpec.
Import ListNotations.
Local Open Scope Z_scope.

Section OffsetB.
Variable dA : Z.

(* ---------- the kick descriptor of the epoll methods (event_rx_on / event_rx_off) ---------- *)
Record kicksame (s s' : core) : Prop := {
  kk_fdt : fdt s' = fdt s; kk_active : active s' = active s; kk_handled : handled s' = handled s;
  kk_numfds : numfds s' = numfds s; kk_method : method s' = method s; kk_notify : notify s' = notify s;
  kk_tfd : tfd s' = tfd s; kk_er : efd_raw s' = efd_raw s; kk_pfds : pfds s' = pfds s; kk_pkeys : pkeys s' = pkeys s;
  kk_heap : heap s' = heap s; kk_tasks : tasks s' = tasks s; kk_cur : cur s' = cur s;
  kk_rr : rw_reg s' = rw_reg s; kk_rf : rw_rfd s' = rw_rfd s; kk_rwf : rw_wfd s' = rw_wfd s;
  kk_trace : trace s' = trace s; kk_evc : ev_count s' = ev_count s;
}.

Lemma kick_install : forall s s' fd wr k', InvE dA s -> is_epoll s = true -> active_ref s = 0 ->
  kicksame s s' -> active_fd s' = fd -> active_ref s' = 1 -> active_wr s' = wr -> kern s' = k' ->
  numobjs s' = numobjs s + 1 ->
  1000 <= fd ->
  ((exists v, k_open (kern s) fd = Some v /\ vkind v = K_EVENTFD) /\ wr = -1 \/ pipe_ok (kern s) fd wr) ->
  (forall k0, registered (fdt s k0) = true -> fdnum (fdt s k0) <> fd) ->
  ep_find (ep (kern s)) fd = false ->
  (forall j, rw_reg s j = true -> rw_rfd s j <> fd) ->
  kctl (kern s) k' -> ep k' = ep (kern s) ++ [ctl_ent fd 0 (-1)] ->
  InvE dA s'.
Proof.
  intros s s' fd wr k' [A B C D E G H] EP AR0 KS AF AR AW KE NO F1000 KIND INJ ABS RAWS KC EPK.
  assert (EE : is_epoll s' = true) by (unfold is_epoll in *; rewrite (kk_method _ _ KS); assumption).
  assert (OPN : exists v, k_open (kern s) fd = Some v /\
                  ((vkind v = K_EVENTFD /\ wr = -1) \/ (vkind v = K_PIPE_R /\ wr <> -1))).
  { destruct KIND as [((v & V1 & V2) & W)|(_ & W & v & vw & V1 & V2 & _)]; exists v; split; try assumption;
      [left; tauto|right; split; [assumption|lia]]. }
  assert (LV : forall k0, live s' (-1) k0 <-> live s (-1) k0) by (intros; unfold live; rewrite (kk_fdt _ _ KS); tauto).
  constructor.
  - eapply FdInv_rebuild_ep with (s := s); try eassumption; try apply KS.
    + intros k0. rewrite (kk_fdt _ _ KS). tauto.
    + intros x. rewrite KE. apply (kctl_open _ _ _ KC).
    + intros e He. rewrite KE, EPK in He. apply in_app_iff in He. unfold entry_ok. rewrite AF, AR, (kk_tfd _ _ KS), (kk_fdt _ _ KS).
      destruct He as [He|[<-|[]]].
      * destruct (fv_ent _ _ A e He) as [(L&Q)|[(_&_&Q&_)|Q]]; [left; split; [apply LV; assumption|exact Q]|lia|right; right; exact Q].
      * right; left. cbn. repeat split; assumption.
    + intros k0 L R. apply LV in L. rewrite (kk_fdt _ _ KS) in *. destruct (fv_has _ _ A EP k0 L R) as (e & He & Q).
      exists e. split; [rewrite KE, EPK; apply in_app_iff; left; assumption|exact Q].
    + intros k0 L R. apply LV in L. rewrite (kk_fdt _ _ KS) in *. rewrite KE, EPK, ep_find_app, (fv_none _ _ A EP k0 L R).
      cbn. destruct (Z.eqb_spec fd (fdnum (fdt s k0))) as [Q|Q]; [|reflexivity].
      exfalso. apply (INJ k0); [apply live_none in L; tauto|congruence].
    + rewrite KE, EPK. apply NoDup_fd_app; [apply (fv_nodup _ _ A)|exact ABS].
    + intros e He. rewrite KE, EPK in He. rewrite KE, (kctl_get _ _ _ KC). apply in_app_iff in He.
      destruct He as [He|[<-|[]]]; [apply (fv_ealloc _ _ A); assumption|].
      cbn. destruct OPN as (v & V & _). apply k_open_some_get. congruence.
    + right. assumption.
    + intros _. exists (ctl_ent fd 0 (-1)). rewrite KE, EPK, AF. split; [apply in_app_iff; right; left; reflexivity|split; reflexivity].
  - intros k0. apply sync_at_same with (s := s); [rewrite (kk_fdt _ _ KS); reflexivity|unfold is_epoll; rewrite (kk_method _ _ KS); reflexivity|rewrite (kk_notify _ _ KS); tauto|rewrite (kk_pfds _ _ KS); reflexivity|apply B].
  - assert (FL : flt k' = flt (kern s)) by (destruct KC as (_&_&_&_&->); reflexivity).
    destruct C. unfold raw_is_pipe in dy_kern. constructor; unfold raw_is_pipe; rewrite ?(kk_rr _ _ KS), ?(kk_rf _ _ KS), ?(kk_rwf _ _ KS), ?(kk_fdt _ _ KS), ?(kk_er _ _ KS),
      ?(kk_tfd _ _ KS), ?KE, ?FL, ?AF, ?AR, ?AW; try assumption.
    + intros j J. specialize (dy_kern j J). dyk; [eapply pipe_ok_kctl|eapply evfd_ok_kctl]; eassumption.
    + intros _. split; [assumption|]. split.
      * destruct OPN as (v & V1 & V2). exists v. rewrite (kctl_open _ _ _ KC). tauto.
      * destruct KIND as [(_ & ->)|P]; [left; reflexivity|right; eapply pipe_ok_kctl; eassumption].
    + intros Q. discriminate.
    + intros _. exact RAWS.
    + destruct dy_tfd as [T|(T & v & V1 & V2)]; [left; assumption|right]. split; [assumption|].
      exists v. rewrite (kctl_get _ _ _ KC). tauto.
    + intros e He Q. rewrite EPK in He. apply in_app_iff in He. rewrite (kctl_open _ _ _ KC).
      destruct He as [He|[<-|[]]]; [apply (dy_tfdent e He Q)|discriminate Q].
  - rewrite (kk_heap _ _ KS). exact D.
  - apply (TaskInv_same s); [apply KS..|exact E].
  - destruct G as [G1 G2]. constructor.
    + rewrite (kk_numfds _ _ KS), (kk_fdt _ _ KS). exact G1.
    + rewrite NO, G2, (kk_numfds _ _ KS), (kk_heap _ _ KS), (kk_tasks _ _ KS), (kk_evc _ _ KS), AR, AR0.
      unfold curl. rewrite (kk_cur _ _ KS). lia.
  - destruct H as [H1 H2 H3 H4]. constructor.
    + rewrite (kk_trace _ _ KS). assumption.
    + rewrite (kk_method _ _ KS). assumption.
    + rewrite KE. destruct KC as (_&_&_&_&->). intros _. apply H3. assumption.
    + rewrite KE. eapply kctl_KInv; eassumption.
Qed.

Lemma grab_any : forall k in_use, kfresh k ->
  match eventfd_grab k in_use with
  | (k', inl fd, u) => fd = next_fd k /\ kstable k k' /\ kfresh k' /\ k_open k' fd = Some (vfd0 K_EVENTFD)
  | (k', inr e, u) => k' = k
  end.
Proof.
  intros k in_use F. unfold eventfd_grab.
  assert (OLD : forall iu,
    match (if negb (iu =? 0) then
             match k_eventfd k false with
             | (k1, inl fd) => (k1, inl fd, iu)
             | (k1, inr e) => if is_enosys e then (k1, inr ENOSYS, 0) else (k1, inr e, iu)
             end
           else (k, inr ENOSYS, 0)) with
    | (k', inl fd, u) => fd = next_fd k /\ kstable k k' /\ kfresh k' /\ k_open k' fd = Some (vfd0 K_EVENTFD)
    | (k', inr e, u) => k' = k
    end).
  { intros iu. destruct (negb (iu =? 0)); [|reflexivity].
    pose proof (eventfd_spec k false F) as S. destruct (k_eventfd k false) as [k1 [fd|e]].
    - tauto.
    - destruct S as [-> _]. destruct (is_enosys e); reflexivity. }
  destruct (in_use =? 2); [|apply OLD].
  pose proof (eventfd_spec k true F) as S. destruct (k_eventfd k true) as [k1 [fd|e]].
  - tauto.
  - destruct S as [-> _]. destruct (is_enosys e || is_einval e); [apply OLD|reflexivity].
Qed.

Definition RxOnPost (s s' : core) : Prop :=
  InvE dA s' /\ Fr s s' /\ active_ref s' = 1 /\ numobjs s' = numobjs s + 1 /\
  ev_pending s' = ev_pending s /\ ev_batch s' = ev_batch s /\ ev_count s' = ev_count s /\
  ev_reg s' = ev_reg s /\ use_raw s' = use_raw s /\ method s' = method s /\ rw_reg s' = rw_reg s.

(* the part of event_rx_on after the descriptor has been obtained *)
Definition rx_on_tail (s : core) : res * bool :=
  let s := set_activefd s (active_fd s) (active_ref s + 1) in
  let '(s, e) := ctl_retry s CTL_ADD (active_fd s) 0 (-1) in
  match e with
  | None => (R (set_numobjs s (numobjs s + 1)), false)
  | Some _ => (R s, true)
  end.

Lemma rx_on_tail_ok : forall s0 sm s fd wr, InvE dA sm -> is_epoll sm = true -> active_ref sm = 0 ->
  kicksame sm s -> active_fd s = fd -> active_ref s = 0 -> active_wr s = wr -> kern s = kern sm ->
  numobjs s = numobjs sm -> ev_pending s = ev_pending sm -> ev_batch s = ev_batch sm -> ev_reg s = ev_reg sm ->
  use_raw s = use_raw sm -> epoch s = epoch sm -> tepoch s = tepoch sm ->
  1000 <= fd ->
  ((exists v, k_open (kern sm) fd = Some v /\ vkind v = K_EVENTFD) /\ wr = -1 \/ pipe_ok (kern sm) fd wr) ->
  (forall k0, registered (fdt sm k0) = true -> fdnum (fdt sm k0) <> fd) ->
  ep_find (ep (kern sm)) fd = false ->
  (forall j, rw_reg sm j = true -> rw_rfd sm j <> fd) ->
  Fr s0 sm -> numobjs sm = numobjs s0 -> ev_pending sm = ev_pending s0 -> ev_batch sm = ev_batch s0 ->
  ev_count sm = ev_count s0 -> ev_reg sm = ev_reg s0 -> use_raw sm = use_raw s0 -> method sm = method s0 ->
  rw_reg sm = rw_reg s0 ->
  snd (rx_on_tail s) = false /\ okr (RxOnPost s0) (fst (rx_on_tail s)).
Proof.
  intros s0 sm s fd wr I EP AR0 KS AF AR AW KE NO E1 E2 E3 E4 E5 E6 F1000 KIND INJ ABS RAWS F0 N0 P0 B0 C0 R0 U0 M0 RR0.
  unfold rx_on_tail. cbv zeta. sp. rewrite AF.
  set (s1 := set_activefd s fd (active_ref s + 1)).
  destruct (ctl_retry_spec s1 CTL_ADD fd 0 (-1)) as (k' & CR & KC & EPK). change (kern s1) with (kern s) in *.
  rewrite KE in *.
  assert (OP : k_open (kern sm) fd <> None).
  { destruct KIND as [((v & V1 & _) & _)|(_ & _ & v & vw & V1 & _)]; congruence. }
  rewrite (ctl_pure_add _ _ _ _ OP ABS) in *. cbn [fst snd] in *. rewrite CR. cbn [fst snd].
  split; [reflexivity|]. cbn [okr].
  set (sF := set_numobjs (set_kern s1 k') (numobjs (set_kern s1 k') + 1)).
  assert (IF : InvE dA sF).
  { apply (kick_install sm sF fd wr k' I EP AR0); try assumption; try reflexivity.
    - destruct KS. constructor; subst sF s1; sp; assumption.
    - subst sF s1. sp. rewrite AR. reflexivity.
    - subst sF s1. sp. rewrite NO. reflexivity. }
  unfold RxOnPost. split; [assumption|]. split.
  - eapply Fr_trans; [exact F0|]. destruct KC as (_&_&_&NW&_).
    constructor; subst sF s1; sp; rewrite ?(kk_heap _ _ KS), ?(kk_active _ _ KS), ?(kk_handled _ _ KS), ?(kk_cur _ _ KS), ?E2, ?E5;
      try reflexivity; try lia; try tauto.
    + rewrite (tmeasure_same sm); [lia|sp; apply (kk_cur _ _ KS)|sp; assumption|sp; assumption].
  - subst sF s1. sp. rewrite AR, NO, N0, E1, E2, (kk_evc _ _ KS), E3, E4, (kk_method _ _ KS), (kk_rr _ _ KS).
    repeat split; try assumption; try lia.
Qed.

Definition rx_on_open (s : core) : res :=
  match eventfd_grab (kern s) (efd_epoll s) with
  | (k1, inl fd, u) =>
      let '(k2, _) := k_write k1 fd 8 1 in
      R (set_activefd (set_efd (set_kern s k2) u (efd_raw s)) fd (active_ref s))
  | (k1, inr _, u) =>
      let s := set_efd (set_kern s k1) u (efd_raw s) in
      match k_pipe (kern s) with
      | (k2, Some (r, w)) =>
          let '(k3, wr) := k_write k2 w 1 0 in
          match wr with
          | inl _ => R (set_activewr (set_activefd (set_kern s k3) r (active_ref s)) w)
          | inr _ => halt (set_kern s k3) TFatal
          end
      | (k2, None) => halt (set_kern s k2) TFatal
      end
  end.

Lemma event_rx_on_unfold : forall s, active_ref s = 0 ->
  event_rx_on s = match rx_on_open s with Halt s => (Halt s, true) | R s => rx_on_tail s end.
Proof. intros s H. unfold event_rx_on, rx_on_open, rx_on_tail. rewrite H. reflexivity. Qed.

Lemma pipe_write_ok : forall k r w, k_open k r = Some (with_peer (vfd0 K_PIPE_R) w true) ->
  k_open k w = Some (with_peer (vfd0 K_PIPE_W) r true) ->
  exists n, snd (k_write k w 1 0) = inl n.
Proof.
  intros k r w OR OW. unfold k_write. rewrite OW. cbn [vkind with_peer vfd0 vpeer_open vpeer negb].
  change (K_PIPE_W =? K_EVENTFD) with false. change (K_PIPE_W =? K_PIPE_W) with true. cbv iota.
  apply k_open_get in OR. destruct OR as [GR _]. rewrite GR. cbn [vcnt with_peer vfd0].
  change (Z.min 1 (65536 - 0) <=? 0) with false. cbv iota. eexists. reflexivity.
Qed.

Lemma event_rx_on_ok : forall s, InvE dA s -> is_epoll s = true -> active_ref s = 0 ->
  snd (event_rx_on s) = false /\ okr (RxOnPost s) (fst (event_rx_on s)).
Proof.
  intros s I EP AR0. rewrite (event_rx_on_unfold s AR0). unfold rx_on_open.
  pose proof (ms_kinv _ (ie_misc _ _ I)) as KI. pose proof (KInv_kfresh _ KI) as KF.
  pose proof (grab_any (kern s) (efd_epoll s) KF) as GA.
  pose proof (dy_actwr _ (ie_dyn _ _ I) AR0) as AW0.
  destruct (fresh_hyps dA s (next_fd (kern s)) I ltac:(lia)) as (H1 & H2 & H3 & _).
  assert (RAWS : forall fd, next_fd (kern s) <= fd -> forall j, rw_reg s j = true -> rw_rfd s j <> fd).
  { intros fd N j J Q. destruct (raw_facts dA s j I J) as (_ & RK & FN & _). cbv zeta in *.
    destruct (fresh_hyps dA s fd I N) as (_ & Q2 & _). apply (Q2 _ RK). congruence. }
  destruct (eventfd_grab (kern s) (efd_epoll s)) as [[k1 [fd|e]] u].
  - destruct GA as (-> & KS1 & KF1 & O1).
    pose proof (kstable_write k1 (next_fd (kern s)) 8 1) as KS2.
    destruct (k_write k1 (next_fd (kern s)) 8 1) as [k2 wr]. cbn [fst] in KS2.
    pose proof (kstable_trans _ _ _ KS1 KS2) as KS.
    set (sm := set_kern s k2).
    assert (IM : InvE dA sm) by (apply InvE_kstable; assumption).
    destruct (kstable_open _ _ _ _ KS2 O1) as (v' & O2 & Q). destruct (Q H1) as (Q1 & _).
    apply (rx_on_tail_ok s sm _ (next_fd (kern s)) (-1) IM EP AR0); try reflexivity; try assumption.
    + constructor; reflexivity.
    + left. split; [|reflexivity]. exists v'. split; [exact O2|rewrite Q1; reflexivity].
    + subst sm. sp. rewrite (kt_ep _ _ KS). exact H3.
    + apply RAWS. lia.
    + apply Fr_set_kern. apply (kt_nwait _ _ KS).
  - subst k1. sp.
    pose proof (pipe_spec (kern s) KF) as PS. destruct (k_pipe (kern s)) as [k2 [[r w]|]].
    + destruct PS as (EM & -> & -> & KS1 & KF1 & OR & OW).
      destruct (pipe_write_ok k2 _ _ OR OW) as (n & WR).
      pose proof (kstable_write k2 (next_fd (kern s) + 1) 1 0) as KS2.
      destruct (k_write k2 (next_fd (kern s) + 1) 1 0) as [k3 wr]. cbn [fst snd] in *. subst wr.
      pose proof (kstable_trans _ _ _ KS1 KS2) as KS.
      set (sm := set_kern s k3).
      assert (IM : InvE dA sm) by (apply InvE_kstable; assumption).
      assert (PO : pipe_ok k2 (next_fd (kern s)) (next_fd (kern s) + 1)).
      { split; [assumption|]. split; [lia|]. eexists _, _. split; [exact OR|]. split; [reflexivity|]. split; [reflexivity|].
        split; [reflexivity|]. split; [exact OW|]. split; reflexivity. }
      apply (rx_on_tail_ok s sm _ (next_fd (kern s)) (next_fd (kern s) + 1) IM EP AR0); try reflexivity; try assumption.
      * constructor; reflexivity.
      * right. subst sm. sp. apply (pipe_ok_kstable k2 k3 _ _ KS2 PO).
      * subst sm. sp. rewrite (kt_ep _ _ KS). exact H3.
      * apply RAWS. lia.
      * apply Fr_set_kern. apply (kt_nwait _ _ KS).
    + destruct PS as (_ & EM). rewrite (ms_emfile _ (ie_misc _ _ I) EP) in EM. discriminate.
Qed.

(* ---------- event_rx_off ---------- *)
Lemma kick_remove : forall s s' k', InvE dA s -> is_epoll s = true -> active_ref s = 1 ->
  kicksame s s' -> active_fd s' = active_fd s -> active_ref s' = 0 -> active_wr s' = -1 -> kern s' = k' ->
  numobjs s' = numobjs s - 1 ->
  kctl (kern s) k' -> ep k' = ep_remove (ep (kern s)) (active_fd s) ->
  InvE dA s'.
Proof.
  intros s s' k' [A B C D E G H] EP AR1 KS AF AR AW KE NO KC EPK.
  assert (EE : is_epoll s' = true) by (unfold is_epoll in *; rewrite (kk_method _ _ KS); assumption).
  assert (LV : forall k0, live s' (-1) k0 <-> live s (-1) k0) by (intros; unfold live; rewrite (kk_fdt _ _ KS); tauto).
  destruct (fv_kick _ _ A AR1) as (ek & Hek & Fek & Dek).
  assert (OTH : forall e, In e (ep (kern s)) -> en_data e <> -1 -> en_fd e <> active_fd s).
  { intros e He N Q. assert (e = ek) by (eapply nodup_fd_eq; [apply (fv_nodup _ _ A)|assumption|assumption|congruence]).
    subst. contradiction. }
  constructor.
  - eapply FdInv_rebuild_ep with (s := s); try eassumption; try apply KS.
    + intros k0. rewrite (kk_fdt _ _ KS). tauto.
    + intros x. rewrite KE. apply (kctl_open _ _ _ KC).
    + intros e He. rewrite KE, EPK in He. apply In_ep_rem in He. destruct He as [He NF].
      unfold entry_ok. rewrite AF, AR, (kk_tfd _ _ KS), (kk_fdt _ _ KS).
      destruct (fv_ent _ _ A e He) as [(L&Q)|[(_&Q&_)|Q]]; [left; split; [apply LV; assumption|exact Q]|contradiction|right; right; exact Q].
    + intros k0 L R. apply LV in L. rewrite (kk_fdt _ _ KS) in *. destruct (fv_has _ _ A EP k0 L R) as (e & He & Q1 & Q2).
      exists e. split; [|tauto]. rewrite KE, EPK. apply In_ep_rem. split; [assumption|].
      apply OTH; [assumption|]. destruct L. lia.
    + intros k0 L R. apply LV in L. rewrite (kk_fdt _ _ KS) in *. rewrite KE, EPK, ep_find_rem, (fv_none _ _ A EP k0 L R). reflexivity.
    + rewrite KE, EPK. apply NoDup_fd_rem. apply (fv_nodup _ _ A).
    + intros e He. rewrite KE, EPK in He. apply In_ep_rem in He. rewrite KE, (kctl_get _ _ _ KC). apply (fv_ealloc _ _ A). tauto.
    + left. assumption.
    + intros Q. rewrite AR in Q. discriminate.
  - intros k0. apply sync_at_same with (s := s); [rewrite (kk_fdt _ _ KS); reflexivity|unfold is_epoll; rewrite (kk_method _ _ KS); reflexivity|rewrite (kk_notify _ _ KS); tauto|rewrite (kk_pfds _ _ KS); reflexivity|apply B].
  - assert (FL : flt k' = flt (kern s)) by (destruct KC as (_&_&_&_&->); reflexivity).
    destruct C. unfold raw_is_pipe in dy_kern. constructor; unfold raw_is_pipe; rewrite ?(kk_rr _ _ KS), ?(kk_rf _ _ KS), ?(kk_rwf _ _ KS), ?(kk_fdt _ _ KS), ?(kk_er _ _ KS),
      ?(kk_tfd _ _ KS), ?KE, ?FL, ?AF, ?AR, ?AW; try assumption.
    + intros j J. specialize (dy_kern j J). dyk; [eapply pipe_ok_kctl|eapply evfd_ok_kctl]; eassumption.
    + intros Q. discriminate.
    + intros _. reflexivity.
    + intros Q. discriminate.
    + destruct dy_tfd as [T|(T & v & V1 & V2)]; [left; assumption|right]. split; [assumption|].
      exists v. rewrite (kctl_get _ _ _ KC). tauto.
    + intros e He Q. rewrite EPK in He. apply In_ep_rem in He. rewrite (kctl_open _ _ _ KC). apply (dy_tfdent e); tauto.
  - rewrite (kk_heap _ _ KS). exact D.
  - apply (TaskInv_same s); [apply KS..|exact E].
  - destruct G as [G1 G2]. constructor.
    + rewrite (kk_numfds _ _ KS), (kk_fdt _ _ KS). exact G1.
    + rewrite NO, G2, (kk_numfds _ _ KS), (kk_heap _ _ KS), (kk_tasks _ _ KS), (kk_evc _ _ KS), AR, AR1.
      unfold curl. rewrite (kk_cur _ _ KS). lia.
  - destruct H as [H1 H2 H3 H4]. constructor.
    + rewrite (kk_trace _ _ KS). assumption.
    + rewrite (kk_method _ _ KS). assumption.
    + rewrite KE. destruct KC as (_&_&_&_&->). intros _. apply H3. assumption.
    + rewrite KE. eapply kctl_KInv; eassumption.
Qed.

Lemma do_close_set_numobjs : forall s fd n, set_numobjs (do_close s fd) n = do_close (set_numobjs s n) fd.
Proof.
  intros. unfold do_close. change (kern (set_numobjs s n)) with (kern s).
  destruct (k_close (kern s) fd) as [k1 ok]. destruct ok; reflexivity.
Qed.
Lemma do_close_set_activewr : forall s fd w, set_activewr (do_close s fd) w = do_close (set_activewr s w) fd.
Proof.
  intros. unfold do_close. change (kern (set_activewr s w)) with (kern s).
  destruct (k_close (kern s) fd) as [k1 ok]. destruct ok; reflexivity.
Qed.
Lemma do_close_fields : forall s fd, numobjs (do_close s fd) = numobjs s /\ active_wr (do_close s fd) = active_wr s /\
  active_fd (do_close s fd) = active_fd s /\ active_ref (do_close s fd) = active_ref s.
Proof. intros. unfold do_close. destruct (k_close (kern s) fd) as [k1 ok]. destruct ok; repeat split. Qed.

Definition RxOffPost (s s' : core) : Prop :=
  InvE dA s' /\ Fr s s' /\ active_ref s' = 0 /\ numobjs s' = numobjs s - 1 /\
  ev_pending s' = ev_pending s /\ ev_batch s' = ev_batch s /\ ev_count s' = ev_count s /\
  ev_reg s' = ev_reg s /\ use_raw s' = use_raw s /\ method s' = method s /\ rw_reg s' = rw_reg s.

Lemma kick_facts : forall s, InvE dA s -> active_ref s = 1 ->
  let afd := active_fd s in let awr := active_wr s in
  1000 <= afd /\
  (exists v, k_open (kern s) afd = Some v /\ (is_pipe v = true -> awr <> -1 /\ vpeer v = awr)) /\
  (awr <> -1 -> exists vw, k_open (kern s) awr = Some vw /\ vpeer vw = afd) /\
  (forall k0, registered (fdt s k0) = true -> fdnum (fdt s k0) <> afd /\ (awr <> -1 -> fdnum (fdt s k0) <> awr)) /\
  (forall j, rw_reg s j = true -> rw_rfd s j <> afd /\ rw_wfd s j <> afd /\
                                  (awr <> -1 -> rw_rfd s j <> awr /\ rw_wfd s j <> awr)).
Proof.
  intros s I AR afd awr. pose proof (ie_fd _ _ I) as FI. pose proof (ie_dyn _ _ I) as DI.
  destruct (dy_act _ DI AR) as (X & (v & V1 & V2) & W). fold afd awr in X, V1, V2, W.
  assert (PW : awr <> -1 -> pipe_ok (kern s) afd awr) by (destruct W; [contradiction|tauto]).
  assert (RAW : forall j, rw_reg s j = true -> rw_rfd s j <> afd /\ rw_wfd s j <> afd /\
                                  (awr <> -1 -> rw_rfd s j <> awr /\ rw_wfd s j <> awr)).
  { intros j J. destruct (raw_facts dA s j I J) as (_ & _ & _ & _ & _ & _ & FA & KJ). cbv zeta in *.
    destruct (FA AR) as (A1 & A2 & A3). fold afd awr in A1, A2, A3.
    destruct (raw_is_pipe s j) eqn:Z0.
    - destruct (A3 eq_refl) as [A4 A5]. repeat split; congruence.
    - destruct KJ as (_ & -> & _). repeat split; congruence. }
  split; [assumption|]. split; [|split; [|split; [|exact RAW]]].
  - exists v. split; [assumption|]. intros PK. destruct V2 as [(K & _)|(K & N)].
    + unfold is_pipe in PK. rewrite K in PK. discriminate.
    + split; [assumption|]. destruct (PW N) as (_ & _ & v0 & vw & O0 & _ & P0 & _). congruence.
  - intros N. destruct (PW N) as (_ & _ & v0 & vw & _ & _ & _ & _ & OW & _ & PWW). exists vw. tauto.
  - intros k0 R0. pose proof (fv_range _ _ FI k0 R0) as RG.
    destruct (Z_lt_ge_dec k0 16) as [Lt|Ge].
    + rewrite (fv_user _ _ FI k0) by lia. split; [lia|]. intros N. destruct (PW N) as (_ & Y & _). lia.
    + assert (RR : rw_reg s (k0 - 16) = true).
      { rewrite <- (dy_reg _ DI (k0 - 16)) by lia. replace (16 + (k0 - 16)) with k0 by lia. assumption. }
      destruct (dy_obj _ DI _ RR) as (FN & _). replace (16 + (k0 - 16)) with k0 in FN by lia. rewrite FN.
      destruct (RAW _ RR) as (A & _ & B). split; [assumption|]. intros N. apply B. assumption.
Qed.

Lemma event_rx_off_ok : forall s, InvE dA s -> is_epoll s = true -> active_ref s = 1 ->
  okr (RxOffPost s) (event_rx_off s).
Proof.
  intros s I EP AR1. unfold event_rx_off.
  destruct (kick_facts s I AR1) as (F1000 & (va & OA & PA) & PWF & K1 & K2). cbv zeta in *.
  set (afd := active_fd s) in *. set (awr := active_wr s) in *.
  destruct (ctl_retry_spec s CTL_DEL afd 0 (-1)) as (k' & CR & KC & EPK).
  assert (PRES : ep_find (ep (kern s)) afd = true).
  { destruct (fv_kick _ _ (ie_fd _ _ I) AR1) as (e & He & Fe & _). apply ep_find_In. exists e. tauto. }
  assert (OPN : k_open (kern s) afd <> None) by congruence.
  rewrite (ctl_pure_del (kern s) afd 0 (-1) OPN PRES) in *. cbn [fst snd] in *. rewrite CR.
  sp. fold afd awr. rewrite AR1. change (1 - 1) with 0. cbn [Z.eqb].
  set (s2 := set_activefd (set_kern s k') afd 0).
  assert (KO : forall x, k_open k' x = k_open (kern s) x) by (intros; apply (kctl_open _ _ _ KC)).
  (* the logical state: reference dropped, write end forgotten, object count decremented *)
  assert (GEN : forall sA, kicksame s sA -> active_fd sA = afd -> active_ref sA = 0 -> active_wr sA = -1 ->
            kern sA = k' -> numobjs sA = numobjs s - 1 -> Fr s sA ->
            ev_pending sA = ev_pending s -> ev_batch sA = ev_batch s -> ev_reg sA = ev_reg s -> use_raw sA = use_raw s ->
            forall sF, (awr = -1 -> sF = do_close sA afd) ->
                       (awr <> -1 -> sF = do_close (do_close sA afd) awr) -> RxOffPost s sF).
  { intros sA KS AF AR AW KE NO FA E1 E2 E3 E4 sF C1 C2.
    assert (IA : InvE dA sA) by (apply (kick_remove s sA k' I EP AR1); assumption).
    assert (UA : unref sA afd).
    { split; [|split].
      - intros k0 Q. rewrite (kk_fdt _ _ KS) in *. apply K1. assumption.
      - intros j Q. rewrite (kk_rr _ _ KS) in Q. rewrite (kk_rf _ _ KS), (kk_rwf _ _ KS). destruct (K2 j Q) as (A & B & _). tauto.
      - rewrite AR. discriminate. }
    assert (PA' : forall v, k_open (kern sA) afd = Some v -> is_pipe v = true -> unrefR sA (vpeer v)).
    { intros v O PK. rewrite KE, KO, OA in O. injection O as <-. destruct (PA PK) as [N ->]. split.
      - intros j Q. rewrite (kk_rr _ _ KS) in Q. rewrite (kk_rf _ _ KS). destruct (K2 j Q) as (_ & _ & B). apply B. assumption.
      - rewrite AR. discriminate. }
    destruct (do_close_ok dA sA afd IA UA PA') as (I2 & F2 & C2' & G2 & O2 & B2). cbv zeta in *.
    set (sB := do_close sA afd) in *.
    assert (FIN : forall sX, InvE dA sX -> Fr sB sX -> coresame (set_kern sB (kern sX)) sX -> RxOffPost s sX).
    { intros sX IX FX CX. unfold RxOffPost. split; [assumption|].
      split; [eapply Fr_trans; [exact FA|]; eapply Fr_trans; eassumption|].
      rewrite (cs_ar _ _ CX), (cs_numobjs _ _ CX), (cs_evp _ _ CX), (cs_evb _ _ CX), (cs_evc _ _ CX), (cs_evr _ _ CX),
              (cs_ur _ _ CX), (cs_method _ _ CX), (cs_rr _ _ CX).
      change (active_ref (set_kern sB (kern sX))) with (active_ref sB). change (numobjs (set_kern sB (kern sX))) with (numobjs sB).
      change (ev_pending (set_kern sB (kern sX))) with (ev_pending sB). change (ev_batch (set_kern sB (kern sX))) with (ev_batch sB).
      change (ev_count (set_kern sB (kern sX))) with (ev_count sB). change (ev_reg (set_kern sB (kern sX))) with (ev_reg sB).
      change (use_raw (set_kern sB (kern sX))) with (use_raw sB). change (method (set_kern sB (kern sX))) with (method sB).
      change (rw_reg (set_kern sB (kern sX))) with (rw_reg sB).
      rewrite (cs_ar _ _ C2'), (cs_numobjs _ _ C2'), (cs_evp _ _ C2'), (cs_evb _ _ C2'), (cs_evc _ _ C2'), (cs_evr _ _ C2'),
              (cs_ur _ _ C2'), (cs_method _ _ C2'), (cs_rr _ _ C2').
      change (active_ref (set_kern sA (kern sB))) with (active_ref sA). change (numobjs (set_kern sA (kern sB))) with (numobjs sA).
      change (ev_pending (set_kern sA (kern sB))) with (ev_pending sA). change (ev_batch (set_kern sA (kern sB))) with (ev_batch sA).
      change (ev_count (set_kern sA (kern sB))) with (ev_count sA). change (ev_reg (set_kern sA (kern sB))) with (ev_reg sA).
      change (use_raw (set_kern sA (kern sB))) with (use_raw sA). change (method (set_kern sA (kern sB))) with (method sA).
      change (rw_reg (set_kern sA (kern sB))) with (rw_reg sA).
      rewrite AR, NO, E1, E2, (kk_evc _ _ KS), E3, E4, (kk_method _ _ KS), (kk_rr _ _ KS). repeat split. }
    destruct (Z.eq_dec awr (-1)) as [W|W].
    - rewrite (C1 W). apply FIN; [assumption|apply Fr_refl|].
      assert (Q : set_kern sB (kern sB) = sB) by (destruct sB; reflexivity). rewrite Q. cs_refl.
    - rewrite (C2 W). fold sB.
      assert (FDB : fdt sB = fdt s) by (rewrite (cs_fdt _ _ C2'); apply (kk_fdt _ _ KS)).
      assert (UB : unref sB awr).
      { split; [|split].
        - intros k0 Q. rewrite FDB in *. apply K1; assumption.
        - intros j Q. rewrite (cs_rr _ _ C2') in Q. change (rw_reg (set_kern sA (kern sB))) with (rw_reg sA) in Q.
          rewrite (kk_rr _ _ KS) in Q. rewrite (cs_rf _ _ C2'), (cs_rwf _ _ C2').
          change (rw_rfd (set_kern sA (kern sB))) with (rw_rfd sA). change (rw_wfd (set_kern sA (kern sB))) with (rw_wfd sA).
          rewrite (kk_rf _ _ KS), (kk_rwf _ _ KS). destruct (K2 j Q) as (_ & _ & B). apply B. assumption.
        - rewrite (cs_ar _ _ C2'). change (active_ref (set_kern sA (kern sB))) with (active_ref sA). rewrite AR. discriminate. }
      assert (PB : forall v, k_open (kern sB) awr = Some v -> is_pipe v = true -> unrefR sB (vpeer v)).
      { intros v O _. destruct (B2 awr v O) as (v0 & O0 & _ & P0). rewrite KE, KO in O0.
        destruct (PWF W) as (vw & OW & PWW). rewrite OW in O0. injection O0 as <-. rewrite <- P0, PWW. split.
        - intros j Q. rewrite (cs_rr _ _ C2') in Q. change (rw_reg (set_kern sA (kern sB))) with (rw_reg sA) in Q.
          rewrite (kk_rr _ _ KS) in Q. rewrite (cs_rf _ _ C2'). change (rw_rfd (set_kern sA (kern sB))) with (rw_rfd sA).
          rewrite (kk_rf _ _ KS). destruct (K2 j Q) as (A & _). exact A.
        - rewrite (cs_ar _ _ C2'). change (active_ref (set_kern sA (kern sB))) with (active_ref sA). rewrite AR. discriminate. }
      destruct (do_close_ok dA sB awr I2 UB PB) as (I3 & F3 & C3 & _). cbv zeta in *.
      apply FIN; assumption. }
  cbn [okr].
  destruct (do_close_fields s2 afd) as (D1 & D2 & D3 & D4).
  change (active_wr s2) with awr in D2. change (numobjs s2) with (numobjs s) in D1.
  assert (FRA : forall w n, Fr s (set_numobjs (set_activewr s2 w) n)).
  { intros w n. destruct KC as (_&_&_&NW&_). constructor; subst s2; sp; try reflexivity; try lia; try tauto. }
  rewrite D2. destruct (Z.eqb_spec awr (-1)) as [W|W].
  - rewrite D1, do_close_set_numobjs.
    apply (GEN (set_numobjs s2 (numobjs s - 1))); try reflexivity; try assumption.
    + constructor; reflexivity.
    + destruct KC as (_&_&_&NW&_). constructor; subst s2; sp; try reflexivity; try lia; try tauto.
    + intros N. contradiction.
  - destruct (do_close_fields (do_close s2 afd) awr) as (D1' & _).
    change (numobjs (set_activewr (do_close (do_close s2 afd) awr) (-1))) with (numobjs (do_close (do_close s2 afd) awr)).
    rewrite D1', D1, do_close_set_activewr, do_close_set_numobjs, do_close_set_activewr, do_close_set_numobjs.
    apply (GEN (set_numobjs (set_activewr s2 (-1)) (numobjs s - 1))); try reflexivity; try assumption.
    + constructor; reflexivity.
    + apply FRA.
    + intros N. contradiction.
Qed.

End OffsetB.

(* ---------- iv_event_register / iv_event_unregister ---------- *)
Lemma InvE_fdcs : forall d d' s s', fdcs s s' -> trace s' = trace s -> heap s' = heap s -> tasks s' = tasks s ->
  cur s' = cur s -> AcctD d' s' -> InvE d s -> InvE d' s'.
Proof.
  intros d d' s s' CS TR HP TK CU AC [A B C D E G H]. constructor.
  - eapply FdInv_eq; [exact A|intros k; rewrite (fc_fdt _ _ CS); tauto|apply CS..].
  - intros k. unfold sync_at, is_epoll. fc_rw CS. apply B.
  - destruct C. constructor; unfold is_epoll, raw_is_pipe in *; fc_rw CS; assumption.
  - rewrite HP. exact D.
  - apply (TaskInv_same s); assumption.
  - exact AC.
  - destruct H. constructor; unfold is_epoll; fc_rw CS; rewrite ?TR; assumption.
Qed.

Lemma AcctD_change : forall d d' s s', AcctD d s -> numfds s' = numfds s -> fdt s' = fdt s -> heap s' = heap s ->
  tasks s' = tasks s -> cur s' = cur s -> active_ref s' = active_ref s ->
  numobjs s' - ev_count s' - d' = numobjs s - ev_count s - d -> AcctD d' s'.
Proof.
  intros d d' s s' [A B] NF FD HP TK CU AR EQ. constructor.
  - rewrite NF, FD. exact A.
  - rewrite NF, HP, TK, AR. unfold curl. rewrite CU. unfold curl in B. lia.
Qed.

Lemma cnt_upd_true : forall f j, f j = false -> 0 <= j < 16 ->
  cntf (upd f j true) (zseq 0 16) = cntf f (zseq 0 16) + 1.
Proof.
  intros f j F J. apply (cntf_flip f (upd f j true) _ j); [apply NoDup_zseq|apply In_zseq'; lia|assumption|apply upd_same|].
  intros x N. symmetry. apply upd_other. assumption.
Qed.
Lemma cnt_upd_false : forall f j, f j = true -> 0 <= j < 16 ->
  cntf f (zseq 0 16) = cntf (upd f j false) (zseq 0 16) + 1.
Proof.
  intros f j F J. apply (cntf_flip (upd f j false) f _ j); [apply NoDup_zseq|apply In_zseq'; lia|apply upd_same|assumption|].
  intros x N. apply upd_other. assumption.
Qed.
