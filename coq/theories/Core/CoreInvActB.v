(* CoreInvActB.v -- events: the kick descriptor (event_rx_on / event_rx_off),
   iv_event_register / unregister, and do_action for the event / raw-event actions. *)
From Coq Require Import List ZArith Bool Lia.
From Ivv Require Import Core.Kernel Core.CoreTypes Core.CoreFd Core.CoreModel Core.CoreSpec
  Core.CoreInvBase Core.CoreInvDefs Core.CoreInvFd Core.CoreInvPoll Core.CoreInvReg Core.CoreInvObj Core.CoreInvAct.
From Ivv Require Timer.HeapModel Timer.HeapSpec.
Import ListNotations.
Local Open Scope Z_scope.

(* ---------- the kick descriptor of the epoll methods (event_rx_on / event_rx_off) ---------- *)
Record kicksame (s s' : core) : Prop := {
  kk_fdt : fdt s' = fdt s; kk_active : active s' = active s; kk_handled : handled s' = handled s;
  kk_numfds : numfds s' = numfds s; kk_method : method s' = method s; kk_notify : notify s' = notify s;
  kk_tfd : tfd s' = tfd s; kk_er : efd_raw s' = efd_raw s; kk_pfds : pfds s' = pfds s; kk_pkeys : pkeys s' = pkeys s;
  kk_heap : heap s' = heap s; kk_tasks : tasks s' = tasks s; kk_cur : cur s' = cur s;
  kk_rr : rw_reg s' = rw_reg s; kk_rf : rw_rfd s' = rw_rfd s; kk_rwf : rw_wfd s' = rw_wfd s;
  kk_trace : trace s' = trace s; kk_evc : ev_count s' = ev_count s;
}.

Lemma kick_install : forall s s' fd wr k', InvE s -> is_epoll s = true -> active_ref s = 0 ->
  kicksame s s' -> active_fd s' = fd -> active_ref s' = 1 -> active_wr s' = wr -> kern s' = k' ->
  numobjs s' = numobjs s + 1 ->
  1000 <= fd ->
  ((exists v, k_open (kern s) fd = Some v /\ vkind v = K_EVENTFD) /\ wr = -1 \/ pipe_ok (kern s) fd wr) ->
  (forall k0, registered (fdt s k0) = true -> fdnum (fdt s k0) <> fd) ->
  ep_find (ep (kern s)) fd = false ->
  (forall j, rw_reg s j = true -> rw_rfd s j <> fd) ->
  kctl (kern s) k' -> ep k' = ep (kern s) ++ [ctl_ent fd 0 (-1)] ->
  InvE s'.
Proof.
  intros s s' fd wr k' [A B C D E G H] EP AR0 KS AF AR AW KE NO F1000 KIND INJ ABS RAWS KC EPK.
  assert (EE : is_epoll s' = true) by (unfold is_epoll in *; rewrite (kk_method _ _ KS); assumption).
  assert (OPN : exists v, k_open (kern s) fd = Some v /\ (vkind v = K_EVENTFD \/ vkind v = K_PIPE_R)).
  { destruct KIND as [((v & V1 & V2) & _)|(_ & _ & v & vw & V1 & V2 & _)]; exists v; tauto. }
  assert (LV : forall k0, live s' (-1) k0 <-> live s (-1) k0) by (intros; unfold live; rewrite (kk_fdt _ _ KS); tauto).
  constructor.
  - eapply FdInv_rebuild_ep with (s := s); try eassumption; try apply KS.
    + intros k0. rewrite (kk_fdt _ _ KS). tauto.
    + intros x. rewrite KE. apply (kctl_open _ _ _ KC).
    + intros e He. rewrite KE, EPK in He. apply in_app_iff in He. unfold entry_ok. rewrite AF, AR, (kk_tfd _ _ KS), (kk_fdt _ _ KS).
      destruct He as [He|[<-|[]]].
      * destruct (fv_ent _ _ A e He) as [(L&Q)|[(_&_&Q&_)|Q]]; [left; split; [apply LV; assumption|exact Q]|lia|right; right; exact Q].
      * right; left. cbn. repeat split; assumption.
    + intros k0 L R. apply LV in L. rewrite (kk_fdt _ _ KS) in *. destruct (fv_has _ _ A EP k0 L R) as (e & He & Q).
      exists e. split; [rewrite KE, EPK; apply in_app_iff; left; assumption|exact Q].
    + intros k0 L R. apply LV in L. rewrite (kk_fdt _ _ KS) in *. rewrite KE, EPK, ep_find_app, (fv_none _ _ A EP k0 L R).
      cbn. destruct (Z.eqb_spec fd (fdnum (fdt s k0))) as [Q|Q]; [|reflexivity].
      exfalso. apply (INJ k0); [apply live_none in L; tauto|congruence].
    + rewrite KE, EPK. apply NoDup_fd_app; [apply (fv_nodup _ _ A)|exact ABS].
    + intros e He. rewrite KE, EPK in He. rewrite KE, (kctl_get _ _ _ KC). apply in_app_iff in He.
      destruct He as [He|[<-|[]]]; [apply (fv_ealloc _ _ A); assumption|].
      cbn. destruct OPN as (v & V & _). apply k_open_some_get. congruence.
    + right. assumption.
    + intros _. exists (ctl_ent fd 0 (-1)). rewrite KE, EPK, AF. split; [apply in_app_iff; right; left; reflexivity|split; reflexivity].
  - intros k0. apply sync_at_same with (s := s); [rewrite (kk_fdt _ _ KS); reflexivity|unfold is_epoll; rewrite (kk_method _ _ KS); reflexivity|rewrite (kk_notify _ _ KS); tauto|rewrite (kk_pfds _ _ KS); reflexivity|apply B].
  - assert (FL : flt k' = flt (kern s)) by (destruct KC as (_&_&_&_&->); reflexivity).
    destruct C. constructor; rewrite ?(kk_rr _ _ KS), ?(kk_rf _ _ KS), ?(kk_rwf _ _ KS), ?(kk_fdt _ _ KS), ?(kk_er _ _ KS),
      ?(kk_tfd _ _ KS), ?KE, ?FL, ?AF, ?AR, ?AW; try assumption.
    + intros j J. specialize (dy_kern j J). destruct (efd_raw s =? 0); [eapply pipe_ok_kctl|eapply evfd_ok_kctl]; eassumption.
    + intros _. split; [assumption|]. split.
      * destruct OPN as (v & V1 & V2). exists v. rewrite (kctl_open _ _ _ KC). tauto.
      * destruct KIND as [(_ & ->)|P]; [left; reflexivity|right; eapply pipe_ok_kctl; eassumption].
    + intros Q. discriminate.
    + intros _. exact RAWS.
    + destruct dy_tfd as [T|(T & v & V1 & V2)]; [left; assumption|right]. split; [assumption|].
      exists v. rewrite (kctl_get _ _ _ KC). tauto.
    + intros e He Q. rewrite EPK in He. apply in_app_iff in He. rewrite (kctl_open _ _ _ KC).
      destruct He as [He|[<-|[]]]; [apply (dy_tfdent e He Q)|discriminate Q].
  - rewrite (kk_heap _ _ KS). exact D.
  - apply (TaskInv_same s); [apply KS..|exact E].
  - destruct G as [G1 G2]. constructor.
    + rewrite (kk_numfds _ _ KS), (kk_fdt _ _ KS). exact G1.
    + rewrite NO, G2, (kk_numfds _ _ KS), (kk_heap _ _ KS), (kk_tasks _ _ KS), (kk_evc _ _ KS), AR, AR0.
      unfold curl. rewrite (kk_cur _ _ KS). lia.
  - destruct H as [H1 H2 H3 H4]. constructor.
    + rewrite (kk_trace _ _ KS). assumption.
    + rewrite (kk_method _ _ KS). assumption.
    + rewrite KE. destruct KC as (_&_&_&_&->). intros _. apply H3. assumption.
    + rewrite KE. eapply kctl_KInv; eassumption.
Qed.

Lemma grab_any : forall k in_use, kfresh k ->
  match eventfd_grab k in_use with
  | (k', inl fd, u) => fd = next_fd k /\ kstable k k' /\ kfresh k' /\ k_open k' fd = Some (vfd0 K_EVENTFD)
  | (k', inr e, u) => k' = k
  end.
Proof.
  intros k in_use F. unfold eventfd_grab.
  assert (OLD : forall iu,
    match (if negb (iu =? 0) then
             match k_eventfd k false with
             | (k1, inl fd) => (k1, inl fd, iu)
             | (k1, inr e) => if is_enosys e then (k1, inr ENOSYS, 0) else (k1, inr e, iu)
             end
           else (k, inr ENOSYS, 0)) with
    | (k', inl fd, u) => fd = next_fd k /\ kstable k k' /\ kfresh k' /\ k_open k' fd = Some (vfd0 K_EVENTFD)
    | (k', inr e, u) => k' = k
    end).
  { intros iu. destruct (negb (iu =? 0)); [|reflexivity].
    pose proof (eventfd_spec k false F) as S. destruct (k_eventfd k false) as [k1 [fd|e]].
    - tauto.
    - destruct S as [-> _]. destruct (is_enosys e); reflexivity. }
  destruct (in_use =? 2); [|apply OLD].
  pose proof (eventfd_spec k true F) as S. destruct (k_eventfd k true) as [k1 [fd|e]].
  - tauto.
  - destruct S as [-> _]. destruct (is_enosys e || is_einval e); [apply OLD|reflexivity].
Qed.

Definition RxOnPost (s s' : core) : Prop :=
  InvE s' /\ Fr s s' /\ active_ref s' = 1 /\ numobjs s' = numobjs s + 1 /\
  ev_pending s' = ev_pending s /\ ev_batch s' = ev_batch s /\ ev_count s' = ev_count s /\
  ev_reg s' = ev_reg s /\ use_raw s' = use_raw s /\ method s' = method s /\ rw_reg s' = rw_reg s.

(* the part of event_rx_on after the descriptor has been obtained *)
Definition rx_on_tail (s : core) : res * bool :=
  let s := set_activefd s (active_fd s) (active_ref s + 1) in
  let '(s, e) := ctl_retry s CTL_ADD (active_fd s) 0 (-1) in
  match e with
  | None => (R (set_numobjs s (numobjs s + 1)), false)
  | Some _ => (R s, true)
  end.

Lemma rx_on_tail_ok : forall s0 sm s fd wr, InvE sm -> is_epoll sm = true -> active_ref sm = 0 ->
  kicksame sm s -> active_fd s = fd -> active_ref s = 0 -> active_wr s = wr -> kern s = kern sm ->
  numobjs s = numobjs sm -> ev_pending s = ev_pending sm -> ev_batch s = ev_batch sm -> ev_reg s = ev_reg sm ->
  use_raw s = use_raw sm -> epoch s = epoch sm -> tepoch s = tepoch sm ->
  1000 <= fd ->
  ((exists v, k_open (kern sm) fd = Some v /\ vkind v = K_EVENTFD) /\ wr = -1 \/ pipe_ok (kern sm) fd wr) ->
  (forall k0, registered (fdt sm k0) = true -> fdnum (fdt sm k0) <> fd) ->
  ep_find (ep (kern sm)) fd = false ->
  (forall j, rw_reg sm j = true -> rw_rfd sm j <> fd) ->
  Fr s0 sm -> numobjs sm = numobjs s0 -> ev_pending sm = ev_pending s0 -> ev_batch sm = ev_batch s0 ->
  ev_count sm = ev_count s0 -> ev_reg sm = ev_reg s0 -> use_raw sm = use_raw s0 -> method sm = method s0 ->
  rw_reg sm = rw_reg s0 ->
  snd (rx_on_tail s) = false /\ okr (RxOnPost s0) (fst (rx_on_tail s)).
Proof.
  intros s0 sm s fd wr I EP AR0 KS AF AR AW KE NO E1 E2 E3 E4 E5 E6 F1000 KIND INJ ABS RAWS F0 N0 P0 B0 C0 R0 U0 M0 RR0.
  unfold rx_on_tail. cbv zeta. sp. rewrite AF.
  set (s1 := set_activefd s fd (active_ref s + 1)).
  destruct (ctl_retry_spec s1 CTL_ADD fd 0 (-1)) as (k' & CR & KC & EPK). change (kern s1) with (kern s) in *.
  rewrite KE in *.
  assert (OP : k_open (kern sm) fd <> None).
  { destruct KIND as [((v & V1 & _) & _)|(_ & _ & v & vw & V1 & _)]; congruence. }
  rewrite (ctl_pure_add _ _ _ _ OP ABS) in *. cbn [fst snd] in *. rewrite CR. cbn [fst snd].
  split; [reflexivity|]. cbn [okr].
  set (sF := set_numobjs (set_kern s1 k') (numobjs (set_kern s1 k') + 1)).
  assert (IF : InvE sF).
  { apply (kick_install sm sF fd wr k' I EP AR0); try assumption; try reflexivity.
    - destruct KS. constructor; subst sF s1; sp; assumption.
    - subst sF s1. sp. rewrite AR. reflexivity.
    - subst sF s1. sp. rewrite NO. reflexivity. }
  unfold RxOnPost. split; [assumption|]. split.
  - eapply Fr_trans; [exact F0|]. destruct KC as (_&_&_&NW&_).
    constructor; subst sF s1; sp; rewrite ?(kk_heap _ _ KS), ?(kk_active _ _ KS), ?(kk_handled _ _ KS), ?(kk_cur _ _ KS), ?E2, ?E5;
      try reflexivity; try lia; try tauto.
    + assumption.
    + rewrite (tmeasure_same sm); [lia|sp; apply (kk_cur _ _ KS)|sp; assumption|sp; assumption].
  - subst sF s1. sp. rewrite AR, NO, N0, E1, E2, (kk_evc _ _ KS), E3, E4, (kk_method _ _ KS), (kk_rr _ _ KS).
    repeat split; try assumption; try lia.
Qed.
