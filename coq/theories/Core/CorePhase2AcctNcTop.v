(* CorePhase2AcctNcTop.v -- code 707: a kernel wait that reports a user descriptor is followed by
   a callback before the next wait (or the end of iv_main).  iv_main and whole runs for the tracker
   invariant H7 of CorePhase2AcctNc; the descriptor facts come from CorePhase2Fd*. *)
From Coq Require Import List ZArith Bool Lia.
From Ivv Require Import Core.Kernel Core.CoreTypes Core.CoreFd Core.CoreModel Core.CoreSpec Core.Monitors.
From Ivv Require Import Core.CoreInvBase Core.CoreInvDefs Core.CoreInvFd Core.CoreInvPoll Core.CoreInvReg Core.CoreInvObj
  Core.CoreInvLoop Core.CoreInvWait.
From Ivv Require Import Core.CoreRel Core.CorePhase2FdBase Core.CorePhase2FdMon Core.CorePhase2FdStep Core.CorePhase2FdInv
  Core.CorePhase2FdLoop Core.CorePhase2FdWait Core.CorePhase2FdTop.
From Ivv Require Import Core.CorePhase2AcctTr Core.CorePhase2AcctTr2 Core.CorePhase2AcctMon Core.CorePhase2AcctNc
  Core.CorePhase2AcctNcLoop Core.CorePhase2AcctNcWait.
Import ListNotations.
Local Open Scope Z_scope.

Section Top7.
Variable sc : scenario.
Hypothesis WF : wf_scenario sc.
Hypothesis DA : forall s a, InvW s -> wf_action a -> okr (StepW s) (do_action s a).
Hypothesis C0 : LoopInv (core0 sc).
Let Hh := wf_handlers sc WF.

Lemma main_loop_H : forall fuel s rt, LoopInv s -> Y sc true s -> expect (mst s) = [] -> HNs s ->
  match main_loop sc fuel s rt with R s' => HNs s' /\ expect (mst s') = [] | Halt s' => H7s s' end.
Proof.
  induction fuel as [|fuel IH]; intros s rt L H E HN0; cbn [main_loop].
  - cbn [halt]. apply H7s_emit; [apply HNs_H7s; exact HN0|exact I].
  - pose proof L as (I0 & Q0 & T0 & A0).
    assert (P1 : match (if rt then run_timers sc s else R s) with
                 | R s1 => LoopInv s1 /\ Y sc true s1 /\ expect (mst s1) = [] /\ HNs s1
                 | Halt s1 => H7s s1 end).
    { destruct rt; [|auto].
      pose proof (run_timers_ok sc Hh DA s I0 Q0) as R1. pose proof (run_timers_Y sc WF s H) as R2.
      pose proof (run_timers_exth sc s) as T1. unfold RExt in T1.
      pose proof (HNs_ext ch s _ ch_nr T1 HN0) as HN1.
      destruct (run_timers sc s) as [s1|s1]; cbn [okr PostY res_state] in *; [|apply HNs_H7s; exact HN1].
      destruct R2 as (Y1 & M1 & _). destruct (LoopInv_Ph sc WF DA s s1 L R1) as [L1 _].
      split; [exact L1|]. split; [exact Y1|]. split; [apply (MF_idle s s1 M1 A0 E)|exact HN1]. }
    destruct (if rt then run_timers sc s else R s) as [s1|s1]; cbn [bind]; [|exact P1].
    destruct P1 as (L1 & Y1 & E1 & HN1). pose proof L1 as (I1 & Q1 & T1 & A1).
    pose proof (run_tasks_ok sc Hh DA s1 I1 Q1) as R1.
    pose proof (run_tasks_Y sc WF s1 Y1 (proj1 (proj2 Q1))) as R2.
    pose proof (run_tasks_exth sc s1) as TT. unfold RExt in TT.
    pose proof (HNs_ext ch s1 _ ch_nr TT HN1) as HN2.
    destruct (run_tasks sc s1) as [s2|s2]; cbn [okr PostTY bind res_state] in *; [|apply HNs_H7s; exact HN2].
    destruct R2 as (Y2 & M2 & _). destruct (LoopInv_Ph sc WF DA s1 s2 L1 R1) as [L2 _].
    destruct (MF_idle s1 s2 M2 A1 E1) as [A2 E2].
    destruct (quit s2 || (numobjs s2 =? 0)) eqn:QN; [split; assumption|].
    apply orb_false_iff in QN. destruct QN as [Q2 _].
    set (abs := match tasks s2 with _ :: _ => Some 0 | [] => soonest_timeout s2 end).
    assert (W2 : WP sc s2) by (constructor; [apply L2|exact Y2|exact A2|exact E2|exact Q2]).
    pose proof (poll_and_run_W sc WF DA s2 abs W2) as P3.
    pose proof (poll_and_run_ok sc WF DA s2 abs L2) as P4.
    pose proof (poll_and_run_H sc WF DA s2 abs W2 HN2) as P5.
    destruct (poll_and_run sc s2 abs) as [r rt']. cbn [fst] in P3, P4, P5.
    destruct r as [s3|s3]; cbn [bind IdleOut okr] in *; [|exact P5].
    destruct P3 as (Y3 & A3 & E3). destruct P4 as (L3 & _).
    apply IH; assumption.
Qed.

Lemma HNs_core0 : HNs (core0 sc).
Proof.
  unfold core0. destruct (if (sc_backend sc =? M_ET) || (sc_backend sc =? M_EP) then _ else _) as [efd k].
  split; [split; [intros c []|intros X; discriminate X]|reflexivity].
Qed.

Theorem core_clean7 : Clean S7 (mon_run (run_scenario sc)).
Proof.
  unfold run_scenario.
  match goal with |- Clean S7 (mon_run (rev (trace (res_state ?r)))) => change (Clean S7 (mst (res_state r))) end.
  assert (FIN : forall r, H7s (res_state r) -> Clean S7 (mst (res_state r))) by (intros r [C _]; exact C).
  apply FIN.
  destruct (core0_Y sc C0) as (Y0 & A0 & E0).
  pose proof (run_acts_Y sc false (sc_setup sc) (core0 sc) Y0 (wf_setup sc WF)) as P0.
  pose proof (run_acts_ok DA (sc_setup sc) (core0 sc) (proj1 C0) (wf_setup sc WF)) as Q0.
  pose proof (run_acts_ext (sc_setup sc) (core0 sc)) as T0. unfold RExt in T0.
  pose proof (HNs_ext ca _ _ ca_nr T0 HNs_core0) as HN1.
  destruct (run_acts (core0 sc) (sc_setup sc)) as [s1|s1]; cbn [bind PostY okr res_state] in *; [|apply HNs_H7s; exact HN1].
  destruct P0 as (Y1 & M1 & _). pose proof (LoopInv_StepT2 _ _ C0 Q0) as L1.
  destruct (MF_idle _ _ M1 A0 E0) as [A1 E1].
  set (s2 := set_quit (emit s1 TMain) false).
  assert (Y2 : Y sc true s2).
  { destruct Y1 as [J1 K U G]. constructor; [apply J_main_enter; exact J1|exact K|exact U|].
    apply (G2_trace sc (emit s1 TMain)); [reflexivity|apply G2_sil; [exact I|exact G]]. }
  assert (E2 : expect (mst s2) = []).
  { change (mst s2) with (mst (emit s1 TMain)). rewrite mst_emit.
    destruct (tv_fields _ _ (sil_tv (mst s1) TMain I)) as (_ & _ & T). rewrite T. exact E1. }
  assert (HN2 : HNs s2).
  { apply (HNs_trace (emit s1 TMain)); [reflexivity|]. unfold HNs. rewrite mst_emit. apply HN_step; [exact HN1|exact I]. }
  pose proof (main_loop_H (Z.to_nat (sc_limit sc) + 2) s2 true (LoopInv_main_enter s1 L1) Y2 E2 HN2) as P3.
  pose proof (main_loop_W sc WF DA (Z.to_nat (sc_limit sc) + 2) s2 true (LoopInv_main_enter s1 L1) Y2 E2) as P3'.
  destruct (main_loop sc (Z.to_nat (sc_limit sc) + 2) s2 true) as [s3|s3]; cbn [bind IdleOut res_state] in *; [|exact P3].
  destruct P3 as (HN3 & E3). destruct P3' as (Y3 & A3 & _).
  set (s4 := emit s3 (TEnd (if quit s3 then 1 else 0) (numobjs s3))).
  assert (HN4 : HNs s4).
  { unfold HNs, s4. rewrite mst_emit. split; [apply H7_step; [apply HN3|exact E3]|apply nc_end]. }
  pose proof (teardown_ext (zseq 0 16) s4) as T5. unfold RExt in T5.
  pose proof (HNs_ext ca _ _ ca_nr T5 HN4) as HN5.
  destruct (teardown s4 (zseq 0 16)) as [s5|s5]; cbn [bind res_state] in *; [|apply HNs_H7s; exact HN5].
  apply HNs_H7s. unfold HNs. rewrite mst_emit. apply HN_step; [|exact I].
  apply (HNs_ext ca (emit s5 (TTear (numobjs s5)))); [exact ca_nr|apply deinit_ext|].
  unfold HNs. rewrite mst_emit. apply HN_step; [exact HN5|exact I].
Qed.

End Top7.

(* ---------- exported statement ---------- *)
From Ivv Require Core.CoreInv Core.CorePhase2Fd.

Theorem core_code_707 : forall sc, wf_scenario sc -> ~ In 707 (mon_fails (run_scenario sc)).
Proof.
  intros sc WF H.
  apply (core_clean7 sc WF CoreInv.do_action_ok (CorePhase2Fd.core0_LoopInv sc WF) 707 H). cbn. tauto.
Qed.

Print Assumptions core_code_707.
