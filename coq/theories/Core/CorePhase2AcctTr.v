(* CorePhase2AcctTr.v -- which trace events each function of the core-loop model
   can append (purely syntactic facts, no invariant needed).  `TrExt P s s'`:
   the trace of s' extends the trace of s by events satisfying P. *)
From Coq Require Import List ZArith Bool Lia.
From Ivv Require Import Core.Kernel Core.CoreTypes Core.CoreFd Core.CoreModel Core.Monitors Core.CoreSpec
  Core.CoreRelBase.
From Ivv Require Timer.HeapModel.
Import ListNotations.
Local Open Scope Z_scope.

Definition TrExt (P : tev -> Prop) (s s' : core) : Prop :=
  exists l, trace s' = l ++ trace s /\ Forall P l.

Lemma TrExt_refl : forall P s, TrExt P s s.
Proof. intros. exists []. split; [reflexivity|constructor]. Qed.

Lemma TrExt_same : forall P s s', trace s' = trace s -> TrExt P s s'.
Proof. intros P s s' H. exists []. split; [exact H|constructor]. Qed.

Lemma TrExt_trans : forall P a b c, TrExt P a b -> TrExt P b c -> TrExt P a c.
Proof.
  intros P a b c (l1 & E1 & F1) (l2 & E2 & F2). exists (l2 ++ l1). split.
  - rewrite E2, E1. apply app_assoc.
  - apply Forall_app. split; assumption.
Qed.

Lemma TrExt_emit : forall (P : tev -> Prop) s e, P e -> TrExt P s (emit s e).
Proof. intros P s e H. exists [e]. split; [reflexivity|constructor; [exact H|constructor]]. Qed.

Lemma TrExt_weaken : forall (P Q : tev -> Prop) s s', (forall e, P e -> Q e) -> TrExt P s s' -> TrExt Q s s'.
Proof.
  intros P Q s s' H (l & E & F). exists l. split; [exact E|].
  rewrite Forall_forall in *. auto.
Qed.

Lemma TrExt_l : forall P s0 s s', trace s = trace s0 -> TrExt P s s' -> TrExt P s0 s'.
Proof. intros P s0 s s' E (l & E1 & F). exists l. rewrite <- E. auto. Qed.

Definition RExt (P : tev -> Prop) (s : core) (r : res) : Prop := TrExt P s (res_state r).

Lemma RExt_bind : forall P s r f, RExt P s r -> (forall s1, RExt P s1 (f s1)) -> RExt P s (bind r f).
Proof.
  intros P s r f H K. destruct r as [s1|s1]; cbn [bind]; [|exact H].
  eapply TrExt_trans; [exact H|apply K].
Qed.

Lemma RExt_R : forall P s s', TrExt P s s' -> RExt P s (R s'). Proof. intros; assumption. Qed.
Lemma RExt_l : forall P s0 s r, trace s = trace s0 -> RExt P s r -> RExt P s0 r.
Proof. intros P s0 s r E H. eapply TrExt_l; eassumption. Qed.
Lemma RExt_weaken : forall (P Q : tev -> Prop) s r, (forall e, P e -> Q e) -> RExt P s r -> RExt Q s r.
Proof. intros P Q s r H. apply TrExt_weaken. exact H. Qed.
Lemma RExt_tr : forall P s s1 r, TrExt P s s1 -> RExt P s1 r -> RExt P s r.
Proof. intros P s s1 r A B. eapply TrExt_trans; eassumption. Qed.

(* event classes *)
Definition ca (e : tev) : Prop :=            (* what an action can log *)
  match e with TAct _ | TRes _ _ _ | TKClose _ | TFatal | TCrash => True | _ => False end.
Definition lp (e : tev) : Prop :=            (* everything inside iv_main / set-up / tear-down *)
  match e with TInit _ | TMain | TEnd _ _ | TTear _ | TDone _ => False | _ => True end.

Lemma ca_lp : forall e, ca e -> lp e.
Proof. intros e. destruct e; cbn; tauto. Qed.

Lemma RExt_halt : forall (P : tev -> Prop) s e, P e -> RExt P s (halt s e).
Proof. intros P s e H. apply TrExt_emit. exact H. Qed.

Ltac dm := match goal with
  | |- context [match ?x with _ => _ end] => destruct x eqn:?
  end.

(* ---------- descriptor layer ---------- *)
(* generic in the event class: only TFatal / TCrash / TKClose are ever appended *)
Section Inner.
Variable P : tev -> Prop.
Hypothesis HF : P TFatal.
Hypothesis HC : P TCrash.
Hypothesis HK : forall fd, P (TKClose fd).
Ltac pcl := first [exact HF | exact HC | apply HK].
Lemma ctl_retry_trace : forall s op fd ev d s1 r, ctl_retry s op fd ev d = (s1, r) -> trace s1 = trace s.
Proof.
  intros s op fd ev d s1 r. unfold ctl_retry.
  destruct (k_epoll_ctl (kern s) op fd ev d) as [k1 r1].
  destruct r1 as [e|]; [destruct e|]; try (intros E; inversion E; reflexivity).
  destruct (k_epoll_ctl k1 op fd ev d) as [k2 r2]. intros E; inversion E; reflexivity.
Qed.

Lemma flush_one__trace : forall s k s1 b, epoll_flush_one_ s k = (s1, b) -> trace s1 = trace s.
Proof.
  intros s k s1 b. unfold epoll_flush_one_.
  set (s0 := set_notify s _). set (f := getfd s0 k).
  destruct (regb f =? wanted f); [intros E; inversion E; reflexivity|].
  destruct (ctl_retry s0 _ _ _ k) as [s2 r] eqn:C. apply ctl_retry_trace in C.
  destruct r; intros E; inversion E; subst; exact C.
Qed.

Lemma flush_one_ext_g : forall s k, RExt P s (epoll_flush_one s k).
Proof.
  intros s k. unfold epoll_flush_one. destruct (epoll_flush_one_ s k) as [s1 b] eqn:E.
  apply flush_one__trace in E. destruct b.
  - eapply RExt_l; [exact E|]. apply RExt_halt. pcl.
  - apply TrExt_same. exact E.
Qed.

Lemma flush_pending_ext_g : forall fuel s, RExt P s (epoll_flush_pending fuel s).
Proof.
  induction fuel as [|f IH]; intros s; cbn [epoll_flush_pending]; destruct (notify s).
  - apply TrExt_refl.
  - apply RExt_halt. pcl.
  - apply TrExt_refl.
  - apply RExt_bind; [apply flush_one_ext_g|apply IH].
Qed.

Lemma epoll_notify_trace : forall s k, trace (epoll_notify_fd s k) = trace s.
Proof. intros s k. unfold epoll_notify_fd. dm; reflexivity. Qed.

Lemma epoll_unregister_ext_g : forall s k, RExt P s (epoll_unregister_fd s k).
Proof. intros s k. unfold epoll_unregister_fd. dm; [apply flush_one_ext_g|apply TrExt_refl]. Qed.

Lemma poll_notify_ext_g : forall s k, RExt P s (poll_notify_fd s k).
Proof.
  intros s k. unfold poll_notify_fd.
  repeat dm; try (apply RExt_halt; pcl); apply TrExt_same; reflexivity.
Qed.

Lemma poll_notify_sync_ext_g : forall s k, RExt P s (fst (poll_notify_fd_sync s k)).
Proof. intros s k. unfold poll_notify_fd_sync. dm; cbn [fst]; [apply TrExt_refl|apply poll_notify_ext_g]. Qed.

Lemma m_notify_ext_g : forall s k, RExt P s (m_notify_fd s k).
Proof.
  intros s k. unfold m_notify_fd. dm; [apply TrExt_same; apply epoll_notify_trace|apply poll_notify_ext_g].
Qed.

Lemma notify_fd_ext_g : forall s k, RExt P s (notify_fd s k).
Proof. intros s k. unfold notify_fd. eapply RExt_l; [|apply m_notify_ext_g]. reflexivity. Qed.

Lemma prologue_trace : forall s k, trace (register_prologue s k) = trace s.
Proof. reflexivity. Qed.

Lemma fd_register_ext_g : forall s k, RExt P s (fd_register s k).
Proof.
  intros s k. unfold fd_register. apply RExt_bind.
  - eapply RExt_l; [|apply notify_fd_ext_g]. reflexivity.
  - intros s1. apply TrExt_same. reflexivity.
Qed.

Lemma fd_unregister_ext_g : forall s k, RExt P s (fd_unregister s k).
Proof.
  intros s k. unfold fd_unregister. apply RExt_bind.
  - eapply RExt_l; [|apply notify_fd_ext_g]. reflexivity.
  - intros s1. apply RExt_bind.
    + dm; [apply epoll_unregister_ext_g|apply TrExt_refl].
    + intros s2. apply TrExt_same. repeat dm; reflexivity.
Qed.

Lemma fd_set_handler_ext_g : forall s k b h, RExt P s (fd_set_handler s k b h).
Proof.
  intros s k b h. unfold fd_set_handler. dm.
  - eapply RExt_l; [|apply notify_fd_ext_g]. reflexivity.
  - apply TrExt_same. reflexivity.
Qed.

Lemma fd_register_try_ext_g : forall s k, RExt P s (fst (fd_register_try s k)).
Proof.
  intros s k. unfold fd_register_try.
  set (s1 := register_prologue s k).
  set (s2 := putfd s1 k (recompute_wanted (getfd s1 k))).
  set (orig := wanted (getfd s2 k)).
  set (s3 := if orig =? 0 then putfd s2 k (fd_with_wanted (getfd s2 k) (M_IN + M_OUT)) else s2).
  assert (T3 : trace s3 = trace s) by (unfold s3; destruct (orig =? 0); reflexivity).
  assert (IE : is_epoll s3 = is_epoll s) by (unfold s3; destruct (orig =? 0); reflexivity).
  destruct (is_epoll s3) eqn:E3.
  - destruct (epoll_flush_one_ s3 k) as [s4 fl] eqn:F. apply flush_one__trace in F.
    destruct fl; cbn [fst].
    + cbn [bind]. eapply RExt_l with (s := s4); [congruence|].
      dm; [|apply TrExt_same; reflexivity].
      eapply RExt_l; [|apply epoll_unregister_ext_g]. reflexivity.
    + cbn [bind]. eapply RExt_l with (s := s4); [congruence|].
      apply RExt_bind; [|intros; apply TrExt_same; reflexivity].
      dm; [|apply TrExt_refl]. eapply RExt_l; [|apply m_notify_ext_g]. reflexivity.
  - pose proof (poll_notify_sync_ext_g s3 k) as Q.
    destruct (poll_notify_fd_sync s3 k) as [r fl]. cbn [fst] in Q.
    destruct fl; cbn [fst].
    + eapply RExt_l with (s := s3); [exact T3|]. apply RExt_bind; [exact Q|].
      intros s4. dm; [|apply TrExt_same; reflexivity].
      eapply RExt_l; [|apply epoll_unregister_ext_g]. reflexivity.
    + eapply RExt_l with (s := s3); [exact T3|]. apply RExt_bind; [exact Q|].
      intros s4. apply RExt_bind; [|intros; apply TrExt_same; reflexivity].
      dm; [|apply TrExt_refl]. eapply RExt_l; [|apply m_notify_ext_g]. reflexivity.
Qed.

Lemma make_ready_trace : forall s k b, trace (make_ready s k b) = trace s.
Proof. intros. unfold make_ready. dm; reflexivity. Qed.

Lemma activate_trace : forall s k b, trace (activate s k b) = trace s.
Proof.
  intros. unfold activate.
  repeat match goal with |- context [if ?c then _ else _] => destruct c end;
    rewrite ?make_ready_trace; reflexivity.
Qed.

(* ---------- small state functions ---------- *)
Lemma validate_trace : forall s, trace (validate_now s) = trace s.
Proof. intros. unfold validate_now. dm; reflexivity. Qed.

Lemma to_relative_trace : forall s a, trace (fst (to_relative s a)) = trace s.
Proof. intros s [a|]; cbn [to_relative fst]; [apply validate_trace|reflexivity]. Qed.

Lemma to_msec_trace : forall s a, trace (fst (to_msec s a)) = trace s.
Proof.
  intros s a. unfold to_msec. pose proof (to_relative_trace s a) as H.
  destruct (to_relative s a) as [s1 [r|]]; exact H.
Qed.

Lemma lift_heap_ext_g : forall s o, RExt P s (lift_heap s o).
Proof. intros s [h|h|]; cbn [lift_heap]; [apply TrExt_same; reflexivity|apply RExt_halt; pcl|apply RExt_halt; pcl]. Qed.

Lemma task_register_trace : forall s k, trace (task_register s k) = trace s.
Proof. intros. unfold task_register. repeat dm; reflexivity. Qed.

Lemma do_close_ext_g : forall s fd, TrExt P s (do_close s fd).
Proof.
  intros s fd. unfold do_close. destruct (k_close (kern s) fd) as [k1 ok]. destruct ok.
  - eapply TrExt_l; [|apply TrExt_emit; pcl]. reflexivity.
  - apply TrExt_same. reflexivity.
Qed.

Lemma raw_tail_ext_g : forall s0 s j rfd wfd, trace s = trace s0 ->
  RExt P s0 (bind (fd_register (putfd s (RAW_KEY j) (fd_with_handlers (fd_fresh rfd (1000 + j)) (Some (H_RAW j)) None None)) (RAW_KEY j))
                (fun s => R (set_rw s (upd (rw_reg s) j true) (upd (rw_rfd s) j rfd) (upd (rw_wfd s) j wfd)))).
Proof.
  intros s0 s j rfd wfd T. eapply RExt_l with (s := s); [exact T|]. apply RExt_bind.
  - eapply RExt_l; [|apply fd_register_ext_g]. reflexivity.
  - intros s3. apply TrExt_same. reflexivity.
Qed.

Lemma raw_stage2_ext_g : forall s0 s j, trace s = trace s0 ->
  RExt P s0 (fst (let '(s, got, failed) :=
        if efd_raw s =? 0 then
          match k_pipe (kern s) with
          | (k1, Some (r, w)) => (set_kern s k1, Some (r, w), false)
          | (k1, None) => (set_kern s k1, None, true)
          end
        else (s, None, true) in
      match got with
      | None => (R s, true)
      | Some (rfd, wfd) =>
          let key := RAW_KEY j in
          let f := fd_with_handlers (fd_fresh rfd (1000 + j)) (Some (H_RAW j)) None None in
          let s := putfd s key f in
          (bind (fd_register s key) (fun s =>
             R (set_rw s (upd (rw_reg s) j true) (upd (rw_rfd s) j rfd) (upd (rw_wfd s) j wfd))), false)
      end)).
Proof.
  intros s0 s j T. destruct (efd_raw s =? 0).
  - destruct (k_pipe (kern s)) as [k1 [[r w]|]]; cbv beta iota; cbn [fst].
    + apply raw_tail_ext_g. exact T.
    + apply TrExt_same. exact T.
  - cbv beta iota. cbn [fst]. apply TrExt_same. exact T.
Qed.

Lemma raw_register_ext_g : forall s j, RExt P s (fst (raw_register s j)).
Proof.
  intros s j. unfold raw_register.
  destruct (negb (efd_raw s =? 0)).
  - destruct (eventfd_grab (kern s) (efd_raw s)) as [[k1 [fd|e]] u]; cbv beta iota.
    + cbn [fst]. apply raw_tail_ext_g. reflexivity.
    + destruct (negb (is_enosys e)); [cbn [fst]; apply TrExt_same; reflexivity|].
      apply raw_stage2_ext_g. reflexivity.
  - cbv beta iota. apply raw_stage2_ext_g. reflexivity.
Qed.

Lemma raw_unregister_ext_g : forall s j, RExt P s (raw_unregister s j).
Proof.
  intros s j. unfold raw_unregister. apply RExt_bind; [apply fd_unregister_ext_g|].
  intros s1. set (s2 := do_close s1 (rw_rfd s1 j)).
  assert (E2 : TrExt P s1 s2) by apply do_close_ext_g.
  eapply RExt_tr; [exact E2|]. dm.
  - eapply RExt_tr; [apply do_close_ext_g|]. apply TrExt_same. reflexivity.
  - apply TrExt_same. reflexivity.
Qed.

Lemma raw_post_trace : forall s j, trace (raw_post s j) = trace s.
Proof. intros. unfold raw_post. destruct (if raw_is_pipe s j then _ else _) as [k1 x]. reflexivity. Qed.

(* ---------- events ---------- *)
Lemma event_rx_on_ext_g : forall s, RExt P s (fst (event_rx_on s)).
Proof.
  intros s. unfold event_rx_on.
  match goal with |- RExt P s (fst (match ?X with R _ => _ | Halt _ => _ end)) =>
    assert (Q : RExt P s X); [|destruct X as [s1|s1]] end.
  { destruct (active_ref s =? 0); [|apply TrExt_refl].
    destruct (eventfd_grab (kern s) (efd_epoll s)) as [[k1 [fd|e]] u].
    - destruct (k_write k1 fd 8 1) as [k2 x]. apply TrExt_same. reflexivity.
    - cbv zeta. destruct (k_pipe _) as [k2 [[r w]|]].
      + destruct (k_write k2 w 1 0) as [k3 [n|e3]]; [apply TrExt_same; reflexivity|].
        eapply RExt_l; [|apply RExt_halt; pcl]. reflexivity.
      + eapply RExt_l; [|apply RExt_halt; pcl]. reflexivity. }
  - cbv zeta. destruct (ctl_retry _ _ _ _ _) as [s2 e] eqn:C. apply ctl_retry_trace in C.
    destruct e; cbn [fst]; (eapply TrExt_trans; [exact Q|]); apply TrExt_same; rewrite ?C; exact C.
  - cbn [fst]. exact Q.
Qed.

Lemma event_rx_off_ext_g : forall s, RExt P s (event_rx_off s).
Proof.
  intros s. unfold event_rx_off.
  destruct (ctl_retry _ _ _ _ _) as [s1 e] eqn:C. apply ctl_retry_trace in C.
  destruct e; [eapply RExt_l; [exact C|]; apply RExt_halt; pcl|].
  cbv zeta. set (s2 := set_activefd s1 _ _).
  eapply RExt_l with (s := s2); [exact C|].
  destruct (active_ref s2 =? 0); [|apply TrExt_same; reflexivity].
  eapply RExt_tr; [apply do_close_ext_g|].
  dm; [apply TrExt_same; reflexivity|].
  eapply RExt_tr; [apply do_close_ext_g|]. apply TrExt_same. reflexivity.
Qed.

Lemma event_register_ext_g : forall s j, RExt P s (fst (event_register s j)).
Proof.
  intros s j. unfold event_register. cbv zeta.
  set (s0 := set_ev (set_numobjs s (numobjs s + 1)) _ _ _).
  assert (T0 : trace s0 = trace s) by reflexivity.
  destruct (ev_count (set_numobjs s (numobjs s + 1)) =? 0).
  2:{ cbn [fst bind]. apply TrExt_same. reflexivity. }
  (* first registration *)
  assert (ST : forall (r : res) (su : bool), RExt P s r ->
    RExt P s (fst (let '(r0, failed) :=
          match r with
          | Halt s1 => (Halt s1, false)
          | R s1 =>
              if use_raw s1 then
                match raw_register s1 KICK_RAW with
                | (R s2, true) =>
                    (R (set_numobjs (set_ev s2 (ev_count s2 - 1) (ev_reg s2) (use_raw s2)) (numobjs s2 - 1)), true)
                | (r2, fl) => (r2, fl)
                end
              else (R s1, false)
          end in
        if failed then (r0, true)
        else (bind r0 (fun s => R (set_ev s (ev_count s) (upd (ev_reg s) j true) (use_raw s))), false)))).
  { intros r su Q. destruct r as [s1|s1]; [|cbn [fst bind]; exact Q].
    destruct (use_raw s1).
    - pose proof (raw_register_ext_g s1 KICK_RAW) as Q2.
      destruct (raw_register s1 KICK_RAW) as [[s2|s2] fl]; cbn [fst] in Q2; destruct fl; cbn [fst bind];
        (eapply RExt_tr; [exact Q|]; exact Q2).
    - cbn [fst bind]. eapply TrExt_trans; [exact Q|]. apply TrExt_same. reflexivity. }
  destruct (negb (use_raw s0)).
  - destruct (is_epoll s0).
    + pose proof (event_rx_on_ext_g s0) as Q.
      destruct (event_rx_on s0) as [[s1|s1] fl]; cbn [fst] in Q; [destruct fl|].
      * apply (ST (R _) true). eapply RExt_l with (s := s0); [exact T0|].
        eapply TrExt_trans; [exact Q|]. apply TrExt_same. reflexivity.
      * apply (ST (R s1) false). eapply RExt_l with (s := s0); [exact T0|]. exact Q.
      * apply (ST (Halt s1) false). eapply RExt_l with (s := s0); [exact T0|]. exact Q.
    + apply (ST (R _) true). apply TrExt_same. reflexivity.
  - apply (ST (R s0) true). apply TrExt_same. reflexivity.
Qed.

Lemma event_unregister_ext_g : forall s j, RExt P s (event_unregister s j).
Proof.
  intros s j. unfold event_unregister. cbv zeta.
  set (s0 := set_ev _ _ _ _). assert (T0 : trace s0 = trace s) by reflexivity.
  eapply RExt_l with (s := s0); [exact T0|]. apply RExt_bind.
  - destruct (ev_count s0 =? 0); [|apply TrExt_refl].
    destruct (use_raw s0); [apply raw_unregister_ext_g|apply event_rx_off_ext_g].
  - intros s1. apply TrExt_same. reflexivity.
Qed.

Lemma event_post_trace : forall s j, trace (event_post s j) = trace s.
Proof.
  intros s j. unfold event_post. destruct (ev_on_list s j); [reflexivity|]. cbv zeta.
  match goal with |- trace (if ?c then _ else _) = _ => destruct c end;
    [rewrite task_register_trace|]; reflexivity.
Qed.

End Inner.

(* the instances for the class of an action *)
Lemma flush_one_ext : forall s k, RExt ca s (epoll_flush_one s k).
Proof. intros; apply flush_one_ext_g; first [exact I | intros; exact I | assumption]. Qed.
Lemma flush_pending_ext : forall fuel s, RExt ca s (epoll_flush_pending fuel s).
Proof. intros; apply flush_pending_ext_g; first [exact I | intros; exact I | assumption]. Qed.
Lemma epoll_unregister_ext : forall s k, RExt ca s (epoll_unregister_fd s k).
Proof. intros; apply epoll_unregister_ext_g; first [exact I | intros; exact I | assumption]. Qed.
Lemma poll_notify_ext : forall s k, RExt ca s (poll_notify_fd s k).
Proof. intros; apply poll_notify_ext_g; first [exact I | intros; exact I | assumption]. Qed.
Lemma poll_notify_sync_ext : forall s k, RExt ca s (fst (poll_notify_fd_sync s k)).
Proof. intros; apply poll_notify_sync_ext_g; first [exact I | intros; exact I | assumption]. Qed.
Lemma m_notify_ext : forall s k, RExt ca s (m_notify_fd s k).
Proof. intros; apply m_notify_ext_g; first [exact I | intros; exact I | assumption]. Qed.
Lemma notify_fd_ext : forall s k, RExt ca s (notify_fd s k).
Proof. intros; apply notify_fd_ext_g; first [exact I | intros; exact I | assumption]. Qed.
Lemma fd_register_ext : forall s k, RExt ca s (fd_register s k).
Proof. intros; apply fd_register_ext_g; first [exact I | intros; exact I | assumption]. Qed.
Lemma fd_unregister_ext : forall s k, RExt ca s (fd_unregister s k).
Proof. intros; apply fd_unregister_ext_g; first [exact I | intros; exact I | assumption]. Qed.
Lemma fd_set_handler_ext : forall s k b h, RExt ca s (fd_set_handler s k b h).
Proof. intros; apply fd_set_handler_ext_g; first [exact I | intros; exact I | assumption]. Qed.
Lemma fd_register_try_ext : forall s k, RExt ca s (fst (fd_register_try s k)).
Proof. intros; apply fd_register_try_ext_g; first [exact I | intros; exact I | assumption]. Qed.
Lemma lift_heap_ext : forall s o, RExt ca s (lift_heap s o).
Proof. intros; apply lift_heap_ext_g; first [exact I | intros; exact I | assumption]. Qed.
Lemma do_close_ext : forall s fd, TrExt ca s (do_close s fd).
Proof. intros; apply do_close_ext_g; first [exact I | intros; exact I | assumption]. Qed.
Lemma raw_tail_ext : forall s0 s j rfd wfd, trace s = trace s0 ->
  RExt ca s0 (bind (fd_register (putfd s (RAW_KEY j) (fd_with_handlers (fd_fresh rfd (1000 + j)) (Some (H_RAW j)) None None)) (RAW_KEY j))
                (fun s => R (set_rw s (upd (rw_reg s) j true) (upd (rw_rfd s) j rfd) (upd (rw_wfd s) j wfd)))).
Proof. intros; apply raw_tail_ext_g; first [exact I | intros; exact I | assumption]. Qed.
Lemma raw_stage2_ext : forall s0 s j, trace s = trace s0 ->
  RExt ca s0 (fst (let '(s, got, failed) :=
        if efd_raw s =? 0 then
          match k_pipe (kern s) with
          | (k1, Some (r, w)) => (set_kern s k1, Some (r, w), false)
          | (k1, None) => (set_kern s k1, None, true)
          end
        else (s, None, true) in
      match got with
      | None => (R s, true)
      | Some (rfd, wfd) =>
          let key := RAW_KEY j in
          let f := fd_with_handlers (fd_fresh rfd (1000 + j)) (Some (H_RAW j)) None None in
          let s := putfd s key f in
          (bind (fd_register s key) (fun s =>
             R (set_rw s (upd (rw_reg s) j true) (upd (rw_rfd s) j rfd) (upd (rw_wfd s) j wfd))), false)
      end)).
Proof. intros; apply raw_stage2_ext_g; first [exact I | intros; exact I | assumption]. Qed.
Lemma raw_register_ext : forall s j, RExt ca s (fst (raw_register s j)).
Proof. intros; apply raw_register_ext_g; first [exact I | intros; exact I | assumption]. Qed.
Lemma raw_unregister_ext : forall s j, RExt ca s (raw_unregister s j).
Proof. intros; apply raw_unregister_ext_g; first [exact I | intros; exact I | assumption]. Qed.
Lemma event_rx_on_ext : forall s, RExt ca s (fst (event_rx_on s)).
Proof. intros; apply event_rx_on_ext_g; first [exact I | intros; exact I | assumption]. Qed.
Lemma event_rx_off_ext : forall s, RExt ca s (event_rx_off s).
Proof. intros; apply event_rx_off_ext_g; first [exact I | intros; exact I | assumption]. Qed.
Lemma event_register_ext : forall s j, RExt ca s (fst (event_register s j)).
Proof. intros; apply event_register_ext_g; first [exact I | intros; exact I | assumption]. Qed.
Lemma event_unregister_ext : forall s j, RExt ca s (event_unregister s j).
Proof. intros; apply event_unregister_ext_g; first [exact I | intros; exact I | assumption]. Qed.

(* ---------- actions ---------- *)
Lemma emit_act_ext : forall s a, TrExt ca s (emit s (TAct a)).
Proof. intros. apply TrExt_emit. exact I. Qed.

Lemma RExt_after_act : forall s a r, RExt ca (emit s (TAct a)) r -> RExt ca s r.
Proof. intros s a r H. eapply RExt_tr; [apply emit_act_ext|exact H]. Qed.

Lemma RExt_res : forall s r kind id (failed : bool), RExt ca s r ->
  RExt ca s (bind r (fun s => R (emit s (TRes kind id (if failed then -1 else 0))))).
Proof. intros. apply RExt_bind; [assumption|]. intros s1. apply TrExt_emit. exact I. Qed.

Ltac aa := match goal with |- RExt ca ?s ?r =>
  match r with context [emit s (TAct ?a)] => apply (RExt_after_act s a) end end.

Lemma do_action_ext : forall s a, RExt ca s (do_action s a).
Proof.
  intros s a. destruct a; cbn [do_action].
  - (* AFdReg *) repeat dm; try apply TrExt_refl. aa. apply fd_register_ext.
  - (* AFdTry *) dm; [apply TrExt_refl|].
    pose proof (fd_register_try_ext (emit s (TAct (AFdTry i))) i) as Q.
    destruct (fd_register_try _ i) as [r failed]. cbn [fst] in Q.
    apply RExt_res. apply (RExt_after_act s (AFdTry i)). exact Q.
  - dm; [aa; apply fd_unregister_ext|apply TrExt_refl].
  - aa. apply fd_set_handler_ext.
  - aa. apply TrExt_same. reflexivity.
  - dm; [apply TrExt_refl|]. aa. apply TrExt_same. reflexivity.
  - aa. apply TrExt_same. reflexivity.
  - dm; [apply TrExt_refl|]. aa. apply TrExt_same. reflexivity.
  - aa. apply TrExt_same. reflexivity.
  - (* ATmRegAbs *) dm; [apply TrExt_refl|]. aa. apply lift_heap_ext.
  - (* ATmRegRel *) dm; [apply TrExt_refl|]. cbv zeta.
    eapply RExt_tr with (s1 := emit (validate_now s) (TAct (ATmRegAbs j (time (validate_now s) + d)))).
    + eapply TrExt_l with (s := validate_now s); [apply validate_trace|]. apply TrExt_emit. exact I.
    + apply lift_heap_ext.
  - dm; [aa; apply lift_heap_ext|apply TrExt_refl].
  - dm; [apply TrExt_refl|apply emit_act_ext].
  - dm; [apply TrExt_refl|]. aa. apply TrExt_same. apply task_register_trace.
  - dm; [|apply TrExt_refl]. aa. apply TrExt_same. reflexivity.
  - dm; [apply TrExt_refl|]. aa. apply TrExt_same. reflexivity.
  - (* AEvReg *) dm; [apply TrExt_refl|].
    pose proof (event_register_ext (emit s (TAct (AEvReg j))) j) as Q.
    destruct (event_register _ j) as [r failed]. cbn [fst] in Q.
    apply RExt_res. apply (RExt_after_act s (AEvReg j)). exact Q.
  - dm; [aa; apply event_unregister_ext|apply TrExt_refl].
  - dm; [|apply TrExt_refl]. aa. apply TrExt_same. apply event_post_trace.
  - dm; [apply TrExt_refl|apply emit_act_ext].
  - (* ARwReg *) dm; [apply TrExt_refl|].
    pose proof (raw_register_ext (emit s (TAct (ARwReg j))) j) as Q.
    destruct (raw_register _ j) as [r failed]. cbn [fst] in Q.
    apply RExt_res. apply (RExt_after_act s (ARwReg j)). exact Q.
  - dm; [aa; apply raw_unregister_ext|apply TrExt_refl].
  - dm; [|apply TrExt_refl]. aa. apply TrExt_same. apply raw_post_trace.
  - dm; [apply TrExt_refl|apply emit_act_ext].
  - aa. apply TrExt_same. reflexivity.
  - aa. apply TrExt_same. reflexivity.
  - aa. apply TrExt_same. reflexivity.
  - aa. apply TrExt_same. apply validate_trace.
Qed.

Lemma run_acts_ext : forall l s, RExt ca s (run_acts s l).
Proof.
  induction l as [|a l IH]; intros s; cbn [run_acts]; [apply TrExt_refl|].
  apply RExt_bind; [apply do_action_ext|apply IH].
Qed.

(* the only actions an action logs are itself (a relative timer registration is logged resolved) *)
Definition cact (a : action) (e : tev) : Prop :=
  match e with
  | TAct x => x = a \/ (exists j d e', a = ATmRegRel j d /\ x = ATmRegAbs j e')
  | TRes _ _ _ | TKClose _ | TFatal | TCrash => True
  | _ => False
  end.

Lemma cact_ca : forall a e, cact a e -> ca e.
Proof. intros a e. destruct e; cbn; tauto. Qed.

Lemma cact_self : forall a, cact a (TAct a).
Proof. intros. left. reflexivity. Qed.

Lemma RExt_after_a : forall a s r, RExt (cact a) (emit s (TAct a)) r -> RExt (cact a) s r.
Proof. intros a s r H. eapply RExt_tr; [apply TrExt_emit; apply cact_self|exact H]. Qed.

Lemma RExt_res_a : forall a s r kind id (failed : bool), RExt (cact a) s r ->
  RExt (cact a) s (bind r (fun s => R (emit s (TRes kind id (if failed then -1 else 0))))).
Proof. intros. apply RExt_bind; [assumption|]. intros s1. apply TrExt_emit. exact I. Qed.

Lemma TrExt_log_a : forall a s s', trace s' = trace (emit s (TAct a)) -> TrExt (cact a) s s'.
Proof. intros a s s' E. eapply TrExt_trans; [apply TrExt_emit; apply cact_self|apply TrExt_same; exact E]. Qed.

Lemma do_action_ext_a : forall s a, RExt (cact a) s (do_action s a).
Proof.
  intros s a.
  assert (HF : cact a TFatal) by exact I. assert (HC : cact a TCrash) by exact I.
  assert (HK : forall fd, cact a (TKClose fd)) by (intros; exact I).
  destruct a; cbn [do_action].
  - repeat dm; try apply TrExt_refl. apply RExt_after_a. apply fd_register_ext_g; assumption.
  - dm; [apply TrExt_refl|].
    assert (Q : RExt (cact (AFdTry i)) (emit s (TAct (AFdTry i))) (fst (fd_register_try (emit s (TAct (AFdTry i))) i))) by (apply fd_register_try_ext_g; assumption).
    destruct (fd_register_try _ i) as [r failed]. cbn [fst] in Q.
    apply RExt_res_a. apply RExt_after_a. exact Q.
  - dm; [apply RExt_after_a; apply fd_unregister_ext_g; assumption|apply TrExt_refl].
  - apply RExt_after_a. apply fd_set_handler_ext_g; assumption.
  - apply TrExt_log_a. reflexivity.
  - dm; [apply TrExt_refl|]. apply TrExt_log_a. reflexivity.
  - apply TrExt_log_a. reflexivity.
  - dm; [apply TrExt_refl|]. apply TrExt_log_a. reflexivity.
  - apply TrExt_log_a. reflexivity.
  - dm; [apply TrExt_refl|]. apply RExt_after_a. apply lift_heap_ext_g; assumption.
  - dm; [apply TrExt_refl|]. cbv zeta.
    eapply RExt_tr with (s1 := emit (validate_now s) (TAct (ATmRegAbs j (time (validate_now s) + d)))).
    + eapply TrExt_l with (s := validate_now s); [apply validate_trace|]. apply TrExt_emit.
      right. exists j, d, (time (validate_now s) + d). split; reflexivity.
    + apply lift_heap_ext_g; assumption.
  - dm; [apply RExt_after_a; apply lift_heap_ext_g; assumption|apply TrExt_refl].
  - dm; [apply TrExt_refl|apply TrExt_log_a; reflexivity].
  - dm; [apply TrExt_refl|]. apply TrExt_log_a. apply task_register_trace.
  - dm; [|apply TrExt_refl]. apply TrExt_log_a. reflexivity.
  - dm; [apply TrExt_refl|]. apply TrExt_log_a. reflexivity.
  - dm; [apply TrExt_refl|].
    assert (Q : RExt (cact (AEvReg j)) (emit s (TAct (AEvReg j))) (fst (event_register (emit s (TAct (AEvReg j))) j))) by (apply event_register_ext_g; assumption).
    destruct (event_register _ j) as [r failed]. cbn [fst] in Q.
    apply RExt_res_a. apply RExt_after_a. exact Q.
  - dm; [apply RExt_after_a; apply event_unregister_ext_g; assumption|apply TrExt_refl].
  - dm; [|apply TrExt_refl]. apply TrExt_log_a. apply event_post_trace.
  - dm; [apply TrExt_refl|apply TrExt_log_a; reflexivity].
  - dm; [apply TrExt_refl|].
    assert (Q : RExt (cact (ARwReg j)) (emit s (TAct (ARwReg j))) (fst (raw_register (emit s (TAct (ARwReg j))) j))) by (apply raw_register_ext_g; assumption).
    destruct (raw_register _ j) as [r failed]. cbn [fst] in Q.
    apply RExt_res_a. apply RExt_after_a. exact Q.
  - dm; [apply RExt_after_a; apply raw_unregister_ext_g; assumption|apply TrExt_refl].
  - dm; [|apply TrExt_refl]. apply TrExt_log_a. apply raw_post_trace.
  - dm; [apply TrExt_refl|apply TrExt_log_a; reflexivity].
  - apply TrExt_log_a. reflexivity.
  - apply TrExt_log_a. reflexivity.
  - apply TrExt_log_a. reflexivity.
  - apply TrExt_log_a. apply validate_trace.
Qed.

(* ---------- the loop ---------- *)
Section Loop.
Variable sc : scenario.

Lemma lpI : forall e, lp e -> lp e. Proof. auto. Qed.

Lemma run_script_ext : forall s key, RExt lp s (run_script sc s key).
Proof.
  intros s key. unfold run_script. destruct (sc_handlers sc key) as [|l0 ls]; [apply TrExt_refl|].
  eapply RExt_l; [|apply (RExt_weaken ca lp); [exact ca_lp|apply run_acts_ext]]. reflexivity.
Qed.

Lemma events_loop_ext : forall fuel s, RExt lp s (events_loop sc fuel s).
Proof.
  induction fuel as [|f IH]; intros s; cbn [events_loop]; destruct (ev_batch s) as [|ie rest]; try apply TrExt_refl.
  - apply RExt_halt. exact I.
  - apply RExt_tr with (s1 := emit (set_evlists s (ev_pending s) rest) (TCallEvent ie)).
    + eapply TrExt_l; [|apply TrExt_emit; exact I]. reflexivity.
    + apply RExt_bind; [apply run_script_ext|]. intros s1. destruct rest; [apply TrExt_refl|apply IH].
Qed.

Lemma run_pending_events_ext : forall s, RExt lp s (run_pending_events sc s).
Proof.
  intros s. unfold run_pending_events. destruct (ev_pending s); [apply TrExt_refl|].
  eapply RExt_l; [|apply events_loop_ext]. reflexivity.
Qed.

Lemma raw_got_event_ext : forall s j, RExt lp s (raw_got_event sc s j).
Proof.
  intros s j. unfold raw_got_event.
  destruct (k_read _ _ _) as [k1 [n|e]].
  - destruct (n =? 0); [eapply RExt_l; [|apply RExt_halt; exact I]; reflexivity|].
    cbv zeta. destruct (j =? KICK_RAW).
    + eapply RExt_l; [|apply run_pending_events_ext]. reflexivity.
    + apply RExt_tr with (s1 := emit (set_kern s k1) (TCallRaw j)).
      * eapply TrExt_l; [|apply TrExt_emit; exact I]. reflexivity.
      * apply run_script_ext.
  - destruct e; try (eapply RExt_l; [|apply RExt_halt; exact I]; reflexivity).
    apply TrExt_same. reflexivity.
Qed.

Lemma call_fd_ext : forall s k band h, RExt lp s (call_fd sc s k band h).
Proof.
  intros s k band h. unfold call_fd. destruct h as [hid|]; [|apply TrExt_refl].
  destruct (1000 <=? hid); [apply raw_got_event_ext|].
  eapply RExt_tr; [apply TrExt_emit|apply run_script_ext]. exact I.
Qed.

Lemma dispatch_active_ext : forall fuel s, RExt lp s (dispatch_active sc fuel s).
Proof.
  induction fuel as [|f IH]; intros s; cbn [dispatch_active]; destruct (active s) as [|k rest]; try apply TrExt_refl.
  - apply RExt_halt. exact I.
  - cbv zeta. set (s1 := set_handled _ _). eapply RExt_l with (s := s1); [reflexivity|].
    apply RExt_bind; [dm; [apply call_fd_ext|apply TrExt_refl]|]. intros s2.
    apply RExt_bind; [repeat dm; try apply TrExt_refl; apply call_fd_ext|]. intros s3.
    apply RExt_bind; [repeat dm; try apply TrExt_refl; apply call_fd_ext|]. intros s4. apply IH.
Qed.

Lemma timers_dispatch_ext : forall fuel s, RExt lp s (timers_dispatch sc fuel s).
Proof.
  induction fuel as [|f IH]; intros s; cbn [timers_dispatch]; destruct (HeapModel.batch (heap s)) as [|t rest]; try apply TrExt_refl.
  - apply RExt_halt. exact I.
  - cbv zeta. set (s1 := validate_now _).
    assert (T1 : trace s1 = trace s) by (unfold s1; rewrite validate_trace; reflexivity).
    eapply RExt_tr with (s1 := emit s1 (TCallTimer (Z.pos t - 1) (time s1))).
    + eapply TrExt_l with (s := s1); [exact T1|]. apply TrExt_emit. exact I.
    + apply RExt_bind; [apply run_script_ext|apply IH].
Qed.

Lemma run_timers_ext : forall s, RExt lp s (run_timers sc s).
Proof.
  intros s. unfold run_timers. dm; [apply TrExt_refl|]. cbv zeta.
  eapply RExt_l with (s := validate_now s); [apply validate_trace|].
  apply RExt_bind; [apply (RExt_weaken ca lp); [exact ca_lp|apply lift_heap_ext]|].
  intros s1. apply timers_dispatch_ext.
Qed.

Lemma tasks_loop_ext : forall fuel s, RExt lp s (tasks_loop sc fuel s).
Proof.
  induction fuel as [|f IH]; intros s; cbn [tasks_loop]; destruct (cur s) as [[|k rest]|];
    try apply TrExt_refl; try (apply TrExt_same; reflexivity).
  - apply RExt_halt. exact I.
  - cbv zeta. set (s1 := set_epoch _ _ _). eapply RExt_l with (s := s1); [reflexivity|].
    apply RExt_bind; [|apply IH].
    destruct (k =? LOCAL_TASK); [apply run_pending_events_ext|].
    eapply RExt_tr; [apply TrExt_emit|apply run_script_ext]. exact I.
Qed.

Lemma run_tasks_ext : forall s, RExt lp s (run_tasks sc s).
Proof. intros s. unfold run_tasks. cbv zeta. eapply RExt_l; [|apply tasks_loop_ext]. reflexivity. Qed.

(* ---------- waits ---------- *)
Definition wres_state (w : wres) : core :=
  match w with WR s _ => s | WE s => s | WH r => res_state r end.
Definition WExt (P : tev -> Prop) (s : core) (w : wres) : Prop := TrExt P s (wres_state w).

Lemma wait_enter_ext : forall s, RExt lp s (wait_enter sc s).
Proof.
  intros s. unfold wait_enter. cbv zeta. dm; [apply RExt_halt; exact I|].
  eapply RExt_l; [|apply (RExt_weaken ca lp); [exact ca_lp|apply run_acts_ext]]. reflexivity.
Qed.

Lemma do_epoll_wait_ext : forall s call maxev timeout, WExt lp s (do_epoll_wait sc s call maxev timeout).
Proof.
  intros s call maxev timeout. unfold do_epoll_wait. pose proof (wait_enter_ext s) as Q.
  destruct (wait_enter sc s) as [s1|s1]; [|exact Q]. cbv zeta.
  set (s2 := emit s1 (TWait _ _ _ _ _ _)).
  assert (Q2 : TrExt lp s s2) by (eapply TrExt_trans; [exact Q|apply TrExt_emit; exact I]).
  destruct (mem_z _ _).
  - unfold WExt. cbn [wres_state]. eapply TrExt_trans; [exact Q2|].
    match goal with |- TrExt lp s2 (emit ?X _) => eapply TrExt_l with (s := X) end;
      [destruct (0 <? timeout); reflexivity|apply TrExt_emit; exact I].
  - destruct (k_epoll_sleep _ _ _ _) as [k1 evs|k1| |]; unfold WExt; cbn [wres_state].
    + eapply TrExt_trans; [exact Q2|]. eapply TrExt_l; [|apply TrExt_emit; exact I]. reflexivity.
    + eapply TrExt_trans; [exact Q2|]. apply TrExt_same. reflexivity.
    + eapply TrExt_trans; [exact Q2|]. apply TrExt_emit. exact I.
    + eapply TrExt_trans; [exact Q2|]. apply TrExt_emit. exact I.
Qed.

Lemma WExt_l : forall P s0 s w, trace s = trace s0 -> WExt P s w -> WExt P s0 w.
Proof. intros P s0 s w E H. eapply TrExt_l; eassumption. Qed.

Lemma epoll_wait_m_ext : forall s abs maxev, WExt lp s (epoll_wait_m sc s abs maxev).
Proof.
  intros s abs maxev. unfold epoll_wait_m.
  assert (V : forall s0, trace s0 = trace s ->
    WExt lp s (let '(s1, ms) := to_msec s0 abs in do_epoll_wait sc s1 0 maxev (if ms <? 0 then -1 else ms * 1000000))).
  { intros s0 T0. pose proof (to_msec_trace s0 abs) as T1. destruct (to_msec s0 abs) as [s1 ms]. cbn [fst] in T1.
    eapply WExt_l with (s := s1); [congruence|]. apply do_epoll_wait_ext. }
  destruct (pwait2 s); [|apply V; reflexivity].
  pose proof (to_relative_trace s abs) as T1. destruct (to_relative s abs) as [s1 rel]. cbn [fst] in T1.
  destruct (_ || _); [apply V; exact T1|].
  eapply WExt_l with (s := s1); [exact T1|]. apply do_epoll_wait_ext.
Qed.

Lemma epoll_process_trace : forall evs s re tm, trace (fst (fst (epoll_process s evs re tm))) = trace s.
Proof.
  induction evs as [|[[fd bits] data] evs IH]; intros s re tm; cbn [epoll_process]; [reflexivity|].
  destruct (data =? -1); [apply IH|]. destruct (_ && _); [apply IH|]. rewrite IH. apply activate_trace.
Qed.

Lemma invalidate_trace : forall s, trace (invalidate_now s) = trace s. Proof. reflexivity. Qed.

Lemma epoll_poll_ext : forall s abs, RExt lp s (fst (epoll_poll sc s abs)).
Proof.
  intros s abs. unfold epoll_poll. cbv zeta.
  pose proof (flush_pending_ext (S (length (notify s))) s) as Q0. apply (RExt_weaken ca lp _ _ ca_lp) in Q0.
  destruct (epoll_flush_pending _ s) as [s1|s1]; cbn [fst]; [|exact Q0].
  match goal with |- RExt lp s (fst (match epoll_wait_m sc s1 abs ?M with _ => _ end)) =>
    pose proof (epoll_wait_m_ext s1 abs M) as Q1; destruct (epoll_wait_m sc s1 abs M) as [s2 evs|s2|r] end;
    unfold WExt in Q1; cbn [wres_state] in Q1; cbn [fst].
  - pose proof (epoll_process_trace evs (invalidate_now s2) false false) as T3.
    destruct (epoll_process (invalidate_now s2) evs false false) as [[s3 re] tmr]. cbn [fst] in T3.
    cbn [fst]. eapply RExt_tr; [exact Q0|]. eapply RExt_tr; [exact Q1|].
    eapply RExt_l with (s := s3); [exact T3|].
    apply RExt_bind.
    + destruct tmr; [|apply TrExt_refl]. destruct (k_read _ _ _) as [k1 [n|e]];
        [apply TrExt_same; reflexivity|eapply RExt_l; [|apply RExt_halt; exact I]; reflexivity].
    + intros s4. destruct re; [apply run_pending_events_ext|apply TrExt_refl].
  - eapply TrExt_trans; [exact Q0|]. eapply TrExt_trans; [exact Q1|]. apply TrExt_same. reflexivity.
  - eapply TrExt_trans; [exact Q0|]. exact Q1.
Qed.

Lemma poll_activate_trace : forall keys revs s, trace (poll_activate s keys revs) = trace s.
Proof.
  induction keys as [|k keys IH]; intros revs s; cbn [poll_activate]; [reflexivity|].
  destruct revs as [|r revs]; [reflexivity|]. rewrite IH. apply activate_trace.
Qed.

Lemma do_poll_wait_ext : forall s call timeout, RExt lp s (fst (do_poll_wait sc s call timeout)).
Proof.
  intros s call timeout. unfold do_poll_wait. pose proof (wait_enter_ext s) as Q.
  destruct (wait_enter sc s) as [s1|s1]; [|exact Q]. cbv zeta.
  set (s2 := emit s1 (TWait _ _ _ _ _ _)).
  assert (Q2 : TrExt lp s s2) by (eapply TrExt_trans; [exact Q|apply TrExt_emit; exact I]).
  destruct (mem_z _ _); cbn [fst].
  - eapply TrExt_trans; [exact Q2|]. cbn [res_state].
    match goal with |- TrExt lp s2 (invalidate_now (emit ?X ?e)) => eapply TrExt_l with (s := X);
      [destruct (0 <? timeout); reflexivity|eapply TrExt_trans; [apply (TrExt_emit lp X e I)|apply TrExt_same; reflexivity]] end.
  - destruct (k_poll_sleep _ _ _) as [k1 revs|]; cbn [fst].
    + eapply TrExt_trans; [exact Q2|]. cbn [res_state].
      match goal with |- TrExt lp s2 (poll_activate (invalidate_now (emit ?X ?e)) _ _) =>
        eapply TrExt_l with (s := X); [reflexivity|];
        eapply TrExt_trans; [apply (TrExt_emit lp X e I)|apply TrExt_same; rewrite poll_activate_trace; reflexivity] end.
    + eapply TrExt_trans; [exact Q2|]. apply TrExt_emit. exact I.
Qed.

Lemma poll_poll_ext : forall s abs, RExt lp s (fst (poll_poll sc s abs)).
Proof.
  intros s abs. unfold poll_poll.
  assert (V : forall s0, trace s0 = trace s ->
    RExt lp s (fst (let '(s1, ms) := to_msec s0 abs in do_poll_wait sc s1 2 (if ms <? 0 then -1 else ms * 1000000)))).
  { intros s0 T0. pose proof (to_msec_trace s0 abs) as T1. destruct (to_msec s0 abs) as [s1 ms]. cbn [fst] in T1.
    eapply RExt_l with (s := s1); [congruence|]. apply do_poll_wait_ext. }
  destruct (method s =? M_PP); [|apply V; reflexivity].
  pose proof (to_relative_trace s abs) as T1. destruct (to_relative s abs) as [s1 rel]. cbn [fst] in T1.
  destruct (no_ppoll _); [apply V; exact T1|].
  eapply RExt_l with (s := s1); [exact T1|]. apply do_poll_wait_ext.
Qed.

Lemma m_poll_ext : forall s abs, RExt lp s (fst (m_poll sc s abs)).
Proof. intros s abs. unfold m_poll. destruct (is_epoll s); [apply epoll_poll_ext|apply poll_poll_ext]. Qed.

Lemma tfd_settime_ext : forall s d, TrExt lp s (tfd_settime s d).
Proof. intros. unfold tfd_settime. eapply TrExt_l; [|apply TrExt_emit; exact I]. reflexivity. Qed.

Lemma set_poll_timeout_ext : forall s a, RExt lp s (fst (set_poll_timeout s a)).
Proof.
  intros s a. unfold set_poll_timeout.
  destruct (tfd s =? -1).
  - destruct (k_timerfd_create (kern s)) as [k1 [fd|e]].
    + cbv zeta. destruct (ctl_retry _ _ _ _ _) as [s1 e] eqn:C. apply ctl_retry_trace in C.
      destruct e; cbn [fst].
      * eapply RExt_l with (s := s1); [exact C|]. apply RExt_halt. exact I.
      * eapply TrExt_l with (s := s1); [exact C|]. apply tfd_settime_ext.
    + cbn [fst]. apply TrExt_same. reflexivity.
  - cbn [fst]. apply tfd_settime_ext.
Qed.

Lemma timeout_check_ext : forall s abs, RExt lp s (fst (timeout_check s abs)).
Proof.
  intros s abs. unfold timeout_check. cbv zeta.
  destruct (_ && _); [apply TrExt_refl|].
  set (s1 := if last_abs_count s =? 5 then tfd_settime s 0 else s).
  assert (Q1 : TrExt lp s s1) by (unfold s1; destruct (last_abs_count s =? 5); [apply tfd_settime_ext|apply TrExt_refl]).
  destruct (abs_cmp abs (last_abs s) =? 0).
  - set (s2 := if last_abs_count s1 <? 5 then _ else s1).
    assert (T2 : trace s2 = trace s1) by (unfold s2; destruct (last_abs_count s1 <? 5); reflexivity).
    destruct (last_abs_count s2 =? 5); [|cbn [fst]; eapply TrExt_trans; [exact Q1|apply TrExt_same; exact T2]].
    destruct abs as [a|]; [|cbn [fst]; eapply TrExt_trans; [exact Q1|apply TrExt_same; exact T2]].
    eapply RExt_tr; [exact Q1|]. eapply RExt_l with (s := s2); [exact T2|]. apply set_poll_timeout_ext.
  - destruct abs as [a|]; cbn [fst]; (eapply TrExt_trans; [exact Q1|apply TrExt_same; reflexivity]).
Qed.

Lemma poll_and_run_ext : forall s abs, RExt lp s (fst (poll_and_run sc s abs)).
Proof.
  intros s abs. unfold poll_and_run.
  match goal with |- RExt lp s (fst (let '(r, rt) := ?X in _)) =>
    assert (Q : RExt lp s (fst X)); [|destruct X as [r rt]] end.
  { destruct (method s =? M_ET); [|apply m_poll_ext].
    pose proof (timeout_check_ext s abs) as Q0.
    destruct (timeout_check s abs) as [[s1|s1] b]; cbn [fst] in Q0; [|exact Q0].
    destruct b.
    - pose proof (m_poll_ext s1 None) as Q1. destruct (m_poll sc s1 None) as [r rt]. cbn [fst] in *.
      eapply RExt_tr; [exact Q0|]. apply RExt_bind; [exact Q1|].
      intros s2. apply TrExt_same. destruct rt; reflexivity.
    - eapply RExt_tr; [exact Q0|]. apply m_poll_ext. }
  cbn [fst] in *. apply RExt_bind; [exact Q|]. intros s1. apply dispatch_active_ext.
Qed.

Lemma main_loop_ext : forall fuel s rt, RExt lp s (main_loop sc fuel s rt).
Proof.
  induction fuel as [|f IH]; intros s rt; cbn [main_loop]; [apply RExt_halt; exact I|].
  apply RExt_bind; [destruct rt; [apply run_timers_ext|apply TrExt_refl]|]. intros s1.
  apply RExt_bind; [apply run_tasks_ext|]. intros s2.
  destruct (_ || _); [apply TrExt_refl|]. cbv zeta.
  match goal with |- RExt lp s2 (let '(r, rt') := poll_and_run sc s2 ?A in _) =>
    pose proof (poll_and_run_ext s2 A) as Q; destruct (poll_and_run sc s2 A) as [r rt'] end.
  cbn [fst] in Q. apply RExt_bind; [exact Q|]. intros s3. apply IH.
Qed.

Lemma main_loop_exit : forall fuel s rt s', main_loop sc fuel s rt = R s' ->
  quit s' || (numobjs s' =? 0) = true.
Proof.
  induction fuel as [|f IH]; intros s rt s'; cbn [main_loop]; [discriminate|].
  destruct (if rt then run_timers sc s else R s) as [s1|s1]; cbn [bind]; [|discriminate].
  destruct (run_tasks sc s1) as [s2|s2]; cbn [bind]; [|discriminate].
  destruct (quit s2 || (numobjs s2 =? 0)) eqn:Q.
  - intros E. inversion E; subst. exact Q.
  - cbv zeta. destruct (poll_and_run sc s2 _) as [r rt']. destruct r as [s3|s3]; cbn [bind]; [apply IH|discriminate].
Qed.

Lemma teardown_obj_ext : forall s i, RExt ca s (teardown_obj s i).
Proof.
  intros s i. unfold teardown_obj.
  repeat (apply RExt_bind; [apply do_action_ext|intros ?]). apply do_action_ext.
Qed.

Lemma teardown_ext : forall l s, RExt ca s (teardown s l).
Proof.
  induction l as [|i l IH]; intros s; cbn [teardown]; [apply TrExt_refl|].
  apply RExt_bind; [apply teardown_obj_ext|apply IH].
Qed.

Lemma deinit_ext : forall s, TrExt ca s (deinit sc s).
Proof.
  intros s. unfold deinit. destruct (_ || _); [|apply TrExt_refl].
  eapply TrExt_trans; [|apply do_close_ext]. destruct (tfd s =? -1); [apply TrExt_refl|apply do_close_ext].
Qed.

End Loop.
