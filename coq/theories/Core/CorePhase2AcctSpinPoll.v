(* CorePhase2AcctSpinPoll.v -- code 711: the tracker invariant SP through iv_fd_poll_and_run.  The
   iteration boundary (TWait) is passed with spin < 2 because an eventful-idle iteration is never
   preceded by another one (T11); afterwards spin = 1 exactly when the iteration just closed was
   eventful-idle. *)
From Coq Require Import List ZArith Bool Lia.
From Ivv Require Import Core.Kernel Core.CoreTypes Core.CoreFd Core.CoreModel Core.CoreSpec Core.Monitors.
From Ivv Require Import Core.CoreRelBase Core.CorePhase2AcctTr Core.CorePhase2AcctTr2 Core.CorePhase2AcctMon
  Core.CorePhase2AcctNc Core.CorePhase2AcctSpin Core.CorePhase2AcctSpinLoop.
Import ListNotations.
Local Open Scope Z_scope.

Definition nrR (e : tev) : Prop := match e with TWait _ _ _ _ _ _ | TEnd _ _ => False | _ => True end.

Lemma nr_nrR : forall e, nr e -> nrR e. Proof. intros e. destruct e; cbn; tauto. Qed.
Lemma ch_nrR : forall e, ch e -> nrR e. Proof. intros e. destruct e; cbn; tauto. Qed.
Lemma ca_nr7 : forall e, ca e -> nr e. Proof. intros e. destruct e; cbn; tauto. Qed.
Lemma ch_nr7 : forall e, ch e -> nr e. Proof. intros e. destruct e; cbn; tauto. Qed.

Lemma nrR_cases : forall e, nrR e -> nr e \/ exists n f c, e = TRet (Some n) f c.
Proof. intros e. destruct e; cbn; try tauto. destruct n; [right; repeat eexists|left; exact I]. Qed.

Lemma SPs_extR : forall s s', TrExt nrR s s' -> SPs s -> SPs s'.
Proof.
  intros s s' (l & E & F) C. unfold SPs in *. rewrite (mst_ext s s' l E).
  assert (F' : Forall nrR (rev l)) by (apply Forall_rev; exact F).
  clear E F. revert C. generalize (mst s). induction (rev l) as [|e r IH]; intros m C; cbn [fold_left]; [exact C|].
  inversion F' as [|? ? Pe Pr]; subst. apply IH; [exact Pr|]. apply SP_step; [exact C|].
  destruct e; try exact I; contradiction.
Qed.

Definition T11s (s : core) : Prop := SPs s /\ (EIs s -> spin (mst s) = 0).
Definition WS (s s' : core) : Prop := SPs s' /\ (spin (mst s') = 1 -> EIs s' -> EIs s).

Lemma T11s_ext : forall (P : tev -> Prop) s s', (forall e, P e -> nr e) -> TrExt P s s' -> T11s s -> T11s s'.
Proof.
  intros P s s' Q T [S O]. split; [apply (SPs_ext P s s' Q T S)|].
  intros HE. rewrite (spin_ext P s s' (fun e H => or_introl (Q e H)) T). apply O. apply (EIs_ext P s s' Q T HE).
Qed.

Lemma WS_nr : forall (P : tev -> Prop) s s', (forall e, P e -> nr e) -> TrExt P s s' -> T11s s -> WS s s'.
Proof. intros P s s' Q T [S O]. split; [apply (SPs_ext P s s' Q T S)|]. intros _ HE. apply (EIs_ext P s s' Q T HE). Qed.

Lemma WS_pre : forall (P : tev -> Prop) s s0 s', (forall e, P e -> nr e) -> TrExt P s s0 -> WS s0 s' -> WS s s'.
Proof.
  intros P s s0 s' Q T [S F]. split; [exact S|]. intros H1 HE. apply (EIs_ext P s s0 Q T). apply F; assumption.
Qed.

(* right after the boundary: anything but another boundary may follow *)
Lemma WS_wait : forall s w s', T11s s -> match w with TWait _ _ _ _ _ _ => True | _ => False end ->
  TrExt nrR (emit s w) s' -> WS s s'.
Proof.
  intros s w s' [S O] IW T. destruct w; try contradiction.
  assert (S2 : SPs (emit s (TWait n call maxev timeout interest gnd))) by (apply SPs_emit; [exact S|exact O]).
  split; [apply (SPs_extR _ _ T S2)|]. intros H1 _.
  rewrite (spin_ext nrR _ _ nrR_cases T) in H1. rewrite mst_emit in H1.
  apply (spin_after_wait (mst s) _ _ _ _ _ _ O H1).
Qed.

Lemma WS_post : forall (P : tev -> Prop) s s1 s', (forall e, P e -> nr e) -> WS s s1 -> TrExt P s1 s' -> WS s s'.
Proof.
  intros P s s1 s' Q [S F] T. split; [apply (SPs_ext P s1 s' Q T S)|].
  intros H1 HE. rewrite (spin_ext P s1 s' (fun e H => or_introl (Q e H)) T) in H1. apply (F H1). apply (EIs_ext P s1 s' Q T HE).
Qed.

Section Poll11.
Variable sc : scenario.

Lemma wait_enter_nr7 : forall s, RExt nr s (wait_enter sc s).
Proof.
  intros s. unfold wait_enter. cbv zeta. dm; [apply RExt_halt; exact I|].
  eapply RExt_l; [|apply (RExt_weaken ca nr); [exact ca_nr7|apply run_acts_ext]]. reflexivity.
Qed.

Lemma do_epoll_wait_S : forall s call maxev timeout, T11s s -> WS s (wres_state (do_epoll_wait sc s call maxev timeout)).
Proof.
  intros s call maxev timeout T. unfold do_epoll_wait. pose proof (wait_enter_nr7 s) as Q. unfold RExt in Q.
  destruct (wait_enter sc s) as [s1|s1]; cbn [wres_state res_state] in *; [|apply (WS_nr nr s s1 (fun e H => H) Q T)].
  cbv zeta. apply (WS_pre nr s s1 _ (fun e H => H) Q). pose proof (T11s_ext nr s s1 (fun e H => H) Q T) as T1.
  set (w := TWait _ _ _ _ _ _).
  destruct (mem_z _ _); cbn [wres_state].
  - apply (WS_wait s1 w); [exact T1|exact I|].
    match goal with |- TrExt nrR (emit s1 w) (emit ?X ?e) => eapply TrExt_l with (s := X);
      [destruct (0 <? timeout); reflexivity|apply TrExt_emit; exact I] end.
  - destruct (k_epoll_sleep _ _ _ _) as [k1 evs|k1| |]; cbn [wres_state res_state halt]; apply (WS_wait s1 w); try exact T1; try exact I.
    + eapply TrExt_l; [|apply TrExt_emit; exact I]. reflexivity.
    + apply TrExt_same. reflexivity.
    + apply TrExt_emit. exact I.
    + apply TrExt_emit. exact I.
Qed.

Lemma WS_l : forall s0 s s', trace s = trace s0 -> T11s s0 -> (T11s s -> WS s s') -> WS s0 s'.
Proof.
  intros s0 s s' E T H. assert (TX : TrExt nr s0 s) by (apply TrExt_same; exact E).
  apply (WS_pre nr s0 s s' (fun e H => H) TX). apply H. apply (T11s_ext nr s0 s (fun e H => H) TX T).
Qed.

Lemma epoll_wait_m_S : forall s abs maxev, T11s s -> WS s (wres_state (epoll_wait_m sc s abs maxev)).
Proof.
  intros s abs maxev T. unfold epoll_wait_m.
  assert (V : forall s0, trace s0 = trace s ->
    WS s (wres_state (let '(s1, ms) := to_msec s0 abs in do_epoll_wait sc s1 0 maxev (if ms <? 0 then -1 else ms * 1000000)))).
  { intros s0 T0. pose proof (to_msec_trace s0 abs) as T1. destruct (to_msec s0 abs) as [s1 ms]. cbn [fst] in T1.
    apply (WS_l s s1); [congruence|exact T|]. intros T1'. apply do_epoll_wait_S. exact T1'. }
  destruct (pwait2 s); [|apply V; reflexivity].
  pose proof (to_relative_trace s abs) as T1. destruct (to_relative s abs) as [s1 rel]. cbn [fst] in T1.
  destruct (_ || _); [apply V; exact T1|].
  apply (WS_l s s1); [exact T1|exact T|]. intros T1'. apply do_epoll_wait_S. exact T1'.
Qed.

Lemma epoll_poll_S : forall s abs, T11s s -> WS s (res_state (fst (epoll_poll sc s abs))).
Proof.
  intros s abs T. unfold epoll_poll. cbv zeta.
  pose proof (flush_pending_ext (S (length (notify s))) s) as Q0. unfold RExt in Q0.
  destruct (epoll_flush_pending _ s) as [s1|s1]; cbn [fst res_state] in *; [|apply (WS_nr ca s s1 ca_nr7 Q0 T)].
  apply (WS_pre ca s s1 _ ca_nr7 Q0). pose proof (T11s_ext ca s s1 ca_nr7 Q0 T) as T1.
  match goal with |- WS s1 (res_state (fst (match epoll_wait_m sc s1 abs ?M with _ => _ end))) =>
    pose proof (epoll_wait_m_S s1 abs M T1) as Q1; destruct (epoll_wait_m sc s1 abs M) as [s2 evs|s2|r] end;
    cbn [wres_state fst res_state] in *.
  - pose proof (epoll_process_trace evs (invalidate_now s2) false false) as T3.
    destruct (epoll_process (invalidate_now s2) evs false false) as [[s3 re] tmr]. cbn [fst] in *.
    assert (TL : TrExt ch s2 (res_state (bind (if tmr then match k_read (kern s3) (tfd s3) 8 with
                                    | (k1, inl _) => R (set_kern s3 k1)
                                    | (k1, inr _) => halt (set_kern s3 k1) TFatal
                                    end else R s3) (fun s4 => if re then run_pending_events sc s4 else R s4)))).
    { eapply TrExt_l with (s := s3); [exact T3|]. apply (RExt_bind ch).
      - destruct tmr; [|apply TrExt_refl]. destruct (k_read _ _ _) as [k1 [n|e]];
          [apply TrExt_same; reflexivity|eapply RExt_l; [|apply RExt_halt; exact I]; reflexivity].
      - intros s4. destruct re; [apply run_pending_events_exth|apply TrExt_refl]. }
    apply (WS_post ch s1 s2 _ ch_nr7 Q1 TL).
  - apply (WS_post ch s1 s2 _ ch_nr7 Q1). apply TrExt_same. reflexivity.
  - exact Q1.
Qed.

Lemma do_poll_wait_S : forall s call timeout, T11s s -> WS s (res_state (fst (do_poll_wait sc s call timeout))).
Proof.
  intros s call timeout T. unfold do_poll_wait. pose proof (wait_enter_nr7 s) as Q. unfold RExt in Q.
  destruct (wait_enter sc s) as [s1|s1]; cbn [fst res_state] in *; [|apply (WS_nr nr s s1 (fun e H => H) Q T)].
  cbv zeta. apply (WS_pre nr s s1 _ (fun e H => H) Q). pose proof (T11s_ext nr s s1 (fun e H => H) Q T) as T1.
  set (w := TWait _ _ _ _ _ _).
  destruct (mem_z _ _); cbn [fst res_state].
  - apply (WS_wait s1 w); [exact T1|exact I|].
    match goal with |- TrExt nrR (emit s1 w) (invalidate_now (emit ?X ?e)) => eapply TrExt_l with (s := X);
      [destruct (0 <? timeout); reflexivity|eapply TrExt_trans; [apply (TrExt_emit nrR X e I)|apply TrExt_same; reflexivity]] end.
  - destruct (k_poll_sleep _ _ _) as [k1 revs|]; cbn [fst res_state halt]; apply (WS_wait s1 w); try exact T1; try exact I.
    + match goal with |- TrExt nrR (emit s1 w) (poll_activate (invalidate_now (emit ?X ?e)) _ _) =>
        eapply TrExt_l with (s := X); [reflexivity|];
        eapply TrExt_trans; [apply (TrExt_emit nrR X e I)|apply TrExt_same; rewrite poll_activate_trace; reflexivity] end.
    + apply TrExt_emit. exact I.
Qed.

Lemma poll_poll_S : forall s abs, T11s s -> WS s (res_state (fst (poll_poll sc s abs))).
Proof.
  intros s abs T. unfold poll_poll.
  assert (V : forall s0, trace s0 = trace s ->
    WS s (res_state (fst (let '(s1, ms) := to_msec s0 abs in do_poll_wait sc s1 2 (if ms <? 0 then -1 else ms * 1000000))))).
  { intros s0 T0. pose proof (to_msec_trace s0 abs) as T1. destruct (to_msec s0 abs) as [s1 ms]. cbn [fst] in T1.
    apply (WS_l s s1); [congruence|exact T|]. intros T1'. apply do_poll_wait_S. exact T1'. }
  destruct (method s =? M_PP); [|apply V; reflexivity].
  pose proof (to_relative_trace s abs) as T1. destruct (to_relative s abs) as [s1 rel]. cbn [fst] in T1.
  destruct (no_ppoll _); [apply V; exact T1|].
  apply (WS_l s s1); [exact T1|exact T|]. intros T1'. apply do_poll_wait_S. exact T1'.
Qed.

Lemma m_poll_S : forall s abs, T11s s -> WS s (res_state (fst (m_poll sc s abs))).
Proof. intros s abs T. unfold m_poll. destruct (is_epoll s); [apply epoll_poll_S|apply poll_poll_S]; exact T. Qed.

Lemma tfd_settime_nr7 : forall s d, TrExt nr s (tfd_settime s d).
Proof. intros. unfold tfd_settime. eapply TrExt_l; [|apply TrExt_emit; exact I]. reflexivity. Qed.

Lemma set_poll_timeout_nr7 : forall s a, RExt nr s (fst (set_poll_timeout s a)).
Proof.
  intros s a. unfold set_poll_timeout.
  destruct (tfd s =? -1).
  - destruct (k_timerfd_create (kern s)) as [k1 [fd|e]].
    + cbv zeta. destruct (ctl_retry _ _ _ _ _) as [s1 e] eqn:C. apply ctl_retry_trace in C.
      destruct e; cbn [fst].
      * eapply RExt_l with (s := s1); [exact C|]. apply RExt_halt. exact I.
      * eapply TrExt_l with (s := s1); [exact C|]. apply tfd_settime_nr7.
    + cbn [fst]. apply TrExt_same. reflexivity.
  - cbn [fst]. apply tfd_settime_nr7.
Qed.

Lemma timeout_check_nr7 : forall s abs, RExt nr s (fst (timeout_check s abs)).
Proof.
  intros s abs. unfold timeout_check. cbv zeta.
  destruct (_ && _); [apply TrExt_refl|].
  set (s1 := if last_abs_count s =? 5 then tfd_settime s 0 else s).
  assert (Q1 : TrExt nr s s1) by (unfold s1; destruct (last_abs_count s =? 5); [apply tfd_settime_nr7|apply TrExt_refl]).
  destruct (abs_cmp abs (last_abs s) =? 0).
  - set (s2 := if last_abs_count s1 <? 5 then _ else s1).
    assert (T2 : trace s2 = trace s1) by (unfold s2; destruct (last_abs_count s1 <? 5); reflexivity).
    destruct (last_abs_count s2 =? 5); [|cbn [fst]; eapply TrExt_trans; [exact Q1|apply TrExt_same; exact T2]].
    destruct abs as [a|]; [|cbn [fst]; eapply TrExt_trans; [exact Q1|apply TrExt_same; exact T2]].
    eapply RExt_tr; [exact Q1|]. eapply RExt_l with (s := s2); [exact T2|]. apply set_poll_timeout_nr7.
  - destruct abs as [a|]; cbn [fst]; (eapply TrExt_trans; [exact Q1|apply TrExt_same; reflexivity]).
Qed.

Lemma poll_and_run_S : forall s abs, T11s s -> WS s (res_state (fst (poll_and_run sc s abs))).
Proof.
  intros s abs T. unfold poll_and_run.
  match goal with |- WS s (res_state (fst (let '(r, rt) := ?X in _))) =>
    assert (Q : WS s (res_state (fst X))); [|destruct X as [r rt]] end.
  { destruct (method s =? M_ET); [|apply m_poll_S; exact T].
    pose proof (timeout_check_nr7 s abs) as Q0. unfold RExt in Q0.
    destruct (timeout_check s abs) as [[s1|s1] b]; cbn [fst res_state] in *; [|apply (WS_nr nr s s1 (fun e H => H) Q0 T)].
    apply (WS_pre nr s s1 _ (fun e H => H) Q0). pose proof (T11s_ext nr s s1 (fun e H => H) Q0 T) as T1.
    destruct b; [|apply m_poll_S; exact T1].
    pose proof (m_poll_S s1 None T1) as Q1. destruct (m_poll sc s1 None) as [r rt]. cbn [fst] in *.
    destruct r as [s2|s2]; cbn [bind res_state] in *; [|exact Q1].
    apply (WS_post nr s1 s2 _ (fun e H => H) Q1). apply TrExt_same. destruct rt; reflexivity. }
  cbn [fst] in *. destruct r as [s1|s1]; cbn [bind res_state] in *; [|exact Q].
  apply (WS_post ch s s1 _ ch_nr7 Q). apply dispatch_active_exth.
Qed.

End Poll11.
