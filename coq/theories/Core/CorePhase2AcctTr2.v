(* CorePhase2AcctTr2.v -- the callback dispatchers append only action events and
   callback events (no kernel wait): class ch. *)
From Coq Require Import List ZArith Bool Lia.
From Ivv Require Import Core.Kernel Core.CoreTypes Core.CoreFd Core.CoreModel Core.Monitors Core.CoreSpec
  Core.CoreRelBase Core.CorePhase2AcctTr.
From Ivv Require Timer.HeapModel.
Import ListNotations.
Local Open Scope Z_scope.

Definition ch (e : tev) : Prop :=
  match e with
  | TAct _ | TRes _ _ _ | TKClose _ | TFatal | TCrash
  | TCallFd _ _ _ _ | TCallTimer _ _ | TCallTask _ | TCallEvent _ | TCallRaw _ => True
  | _ => False
  end.

Lemma ca_ch : forall e, ca e -> ch e.
Proof. intros e. destruct e; cbn; tauto. Qed.

Lemma ch_lp : forall e, ch e -> lp e.
Proof. intros e. destruct e; cbn; tauto. Qed.

Section Loop.
Variable sc : scenario.

Lemma run_script_exth : forall s key, RExt ch s (run_script sc s key).
Proof.
  intros s key. unfold run_script. destruct (sc_handlers sc key) as [|l0 ls]; [apply TrExt_refl|].
  eapply RExt_l; [|apply (RExt_weaken ca ch); [exact ca_ch|apply run_acts_ext]]. reflexivity.
Qed.

Lemma events_loop_exth : forall fuel s, RExt ch s (events_loop sc fuel s).
Proof.
  induction fuel as [|f IH]; intros s; cbn [events_loop]; destruct (ev_batch s) as [|ie rest]; try apply TrExt_refl.
  - apply RExt_halt. exact I.
  - apply RExt_tr with (s1 := emit (set_evlists s (ev_pending s) rest) (TCallEvent ie)).
    + eapply TrExt_l; [|apply TrExt_emit; exact I]. reflexivity.
    + apply RExt_bind; [apply run_script_exth|]. intros s1. destruct rest; [apply TrExt_refl|apply IH].
Qed.

Lemma run_pending_events_exth : forall s, RExt ch s (run_pending_events sc s).
Proof.
  intros s. unfold run_pending_events. destruct (ev_pending s); [apply TrExt_refl|].
  eapply RExt_l; [|apply events_loop_exth]. reflexivity.
Qed.

Lemma raw_got_event_exth : forall s j, RExt ch s (raw_got_event sc s j).
Proof.
  intros s j. unfold raw_got_event.
  destruct (k_read _ _ _) as [k1 [n|e]].
  - destruct (n =? 0); [eapply RExt_l; [|apply RExt_halt; exact I]; reflexivity|].
    cbv zeta. destruct (j =? KICK_RAW).
    + eapply RExt_l; [|apply run_pending_events_exth]. reflexivity.
    + apply RExt_tr with (s1 := emit (set_kern s k1) (TCallRaw j)).
      * eapply TrExt_l; [|apply TrExt_emit; exact I]. reflexivity.
      * apply run_script_exth.
  - destruct e; try (eapply RExt_l; [|apply RExt_halt; exact I]; reflexivity).
    apply TrExt_same. reflexivity.
Qed.

Lemma call_fd_exth : forall s k band h, RExt ch s (call_fd sc s k band h).
Proof.
  intros s k band h. unfold call_fd. destruct h as [hid|]; [|apply TrExt_refl].
  destruct (1000 <=? hid); [apply raw_got_event_exth|].
  eapply RExt_tr; [apply TrExt_emit|apply run_script_exth]. exact I.
Qed.

Lemma dispatch_active_exth : forall fuel s, RExt ch s (dispatch_active sc fuel s).
Proof.
  induction fuel as [|f IH]; intros s; cbn [dispatch_active]; destruct (active s) as [|k rest]; try apply TrExt_refl.
  - apply RExt_halt. exact I.
  - cbv zeta. set (s1 := set_handled _ _). eapply RExt_l with (s := s1); [reflexivity|].
    apply RExt_bind; [dm; [apply call_fd_exth|apply TrExt_refl]|]. intros s2.
    apply RExt_bind; [repeat dm; try apply TrExt_refl; apply call_fd_exth|]. intros s3.
    apply RExt_bind; [repeat dm; try apply TrExt_refl; apply call_fd_exth|]. intros s4. apply IH.
Qed.

Lemma timers_dispatch_exth : forall fuel s, RExt ch s (timers_dispatch sc fuel s).
Proof.
  induction fuel as [|f IH]; intros s; cbn [timers_dispatch]; destruct (HeapModel.batch (heap s)) as [|t rest]; try apply TrExt_refl.
  - apply RExt_halt. exact I.
  - cbv zeta. set (s1 := validate_now _).
    assert (T1 : trace s1 = trace s) by (unfold s1; rewrite validate_trace; reflexivity).
    eapply RExt_tr with (s1 := emit s1 (TCallTimer (Z.pos t - 1) (time s1))).
    + eapply TrExt_l with (s := s1); [exact T1|]. apply TrExt_emit. exact I.
    + apply RExt_bind; [apply run_script_exth|apply IH].
Qed.

Lemma run_timers_exth : forall s, RExt ch s (run_timers sc s).
Proof.
  intros s. unfold run_timers. dm; [apply TrExt_refl|]. cbv zeta.
  eapply RExt_l with (s := validate_now s); [apply validate_trace|].
  apply RExt_bind; [apply (RExt_weaken ca ch); [exact ca_ch|apply lift_heap_ext]|].
  intros s1. apply timers_dispatch_exth.
Qed.

Lemma tasks_loop_exth : forall fuel s, RExt ch s (tasks_loop sc fuel s).
Proof.
  induction fuel as [|f IH]; intros s; cbn [tasks_loop]; destruct (cur s) as [[|k rest]|];
    try apply TrExt_refl; try (apply TrExt_same; reflexivity).
  - apply RExt_halt. exact I.
  - cbv zeta. set (s1 := set_epoch _ _ _). eapply RExt_l with (s := s1); [reflexivity|].
    apply RExt_bind; [|apply IH].
    destruct (k =? LOCAL_TASK); [apply run_pending_events_exth|].
    eapply RExt_tr; [apply TrExt_emit|apply run_script_exth]. exact I.
Qed.

Lemma run_tasks_exth : forall s, RExt ch s (run_tasks sc s).
Proof. intros s. unfold run_tasks. cbv zeta. eapply RExt_l; [|apply tasks_loop_exth]. reflexivity. Qed.

End Loop.
