(* CorePhase2TimeR3A.v -- the raw-event invariant R3 through the scenario actions. *)
From Coq Require Import List ZArith Bool Lia.
From Ivv Require Import Core.Kernel Core.CoreTypes Core.CoreFd Core.CoreModel Core.Monitors Core.CoreSpec
  Core.CoreRel Core.CoreInvBase Core.CoreInvDefs Core.CorePhase2TimeMon Core.CorePhase2TimeFr Core.CorePhase2TimeT1
  Core.CorePhase2TimeR3K Core.CorePhase2TimeR3.
Import ListNotations.
Local Open Scope Z_scope.

(* ---------- what CoreInv says about a registered raw event ---------- *)
Lemma raw_facts : forall s j, InvW s -> rw_reg s j = true ->
  1000 <= rw_rfd s j /\ k_get (kern s) (rw_rfd s j) <> None /\
  (if raw_is_pipe s j then pipe_ok (kern s) (rw_rfd s j) (rw_wfd s j) else evfd_ok (kern s) (rw_rfd s j) (rw_wfd s j)).
Proof.
  intros s j I R. pose proof (dy_kern _ (iw_dyn _ I) j R) as K. split; [|split; [|exact K]].
  - destruct (raw_is_pipe s j); [destruct K as (A & _); exact A|destruct K as (A & _); exact A].
  - destruct (raw_is_pipe s j).
    + destruct K as (_ & _ & v & vw & O & _). apply k_open_get in O. destruct O as [G _]. congruence.
    + destruct K as (_ & _ & v & O & _). apply k_open_get in O. destruct O as [G _]. congruence.
Qed.

Lemma raw_distinct : forall s j j', InvW s -> rw_reg s j = true -> rw_reg s j' = true -> j <> j' ->
  rw_rfd s j <> rw_rfd s j'.
Proof.
  intros s j j' I R R' N E. pose proof (iw_dyn _ I) as D.
  pose proof (dy_range _ D j R) as G. pose proof (dy_range _ D j' R') as G'.
  destruct (dy_obj _ D j R) as (A & _). destruct (dy_obj _ D j' R') as (A' & _).
  assert (L : live s (-1) (16 + j)) by (split; [lia|left; rewrite (dy_reg _ D j G); exact R]).
  assert (L' : live s (-1) (16 + j')) by (split; [lia|left; rewrite (dy_reg _ D j' G'); exact R']).
  pose proof (fv_inj _ _ (iw_fd _ I) _ _ L L' ltac:(congruence)) as Q. lia.
Qed.

(* the descriptors whose counter a post to raw event j changes: only its own read end *)
Lemma raw_post_target : forall s j y, InvW s -> rw_reg s j = true ->
  (exists v, k_open (kern s) (rw_wfd s j) = Some v /\
             ((vkind v = K_EVENTFD /\ y = rw_wfd s j) \/ (vkind v = K_PIPE_W /\ y = vpeer v))) -> y = rw_rfd s j.
Proof.
  intros s j y I R (v & O & H). destruct (raw_facts s j I R) as (_ & _ & K).
  destruct (raw_is_pipe s j).
  - destruct K as (_ & _ & vr & vw & Or & _ & _ & _ & Ow & KW & PW). rewrite O in Ow. inversion Ow; subst vw.
    destruct H as [[KE _]|[_ ->]]; [rewrite KW in KE; discriminate|exact PW].
  - destruct K as (_ & WR & vr & Or & KE). destruct H as [[_ ->]|[KW _]]; [exact WR|].
    rewrite WR in O. rewrite O in Or. inversion Or; subst vr. rewrite KE in KW. discriminate.
Qed.

Definition RawFacts (s : core) : Prop := forall j, r16 j -> rw_reg s j = true ->
  1000 <= rw_rfd s j /\ k_get (kern s) (rw_rfd s j) <> None.

Lemma InvW_RawFacts : forall s, InvW s -> RawFacts s.
Proof. intros s I j _ R. destruct (raw_facts s j I R) as (A & B & _). auto. Qed.

Lemma R3_F3n : forall s s', R3 s -> RawFacts s -> F3n s s' -> R3 s'.
Proof.
  intros s s' R RF F. apply (R3_F3 (fun _ => False) s s' R F). intros j J RG. destruct (RF j J RG) as [A B]. tauto.
Qed.

Lemma R3_emit : forall s e, R3 s -> a_rwp (mon_step (mst s) e) = a_rwp (mst s) -> R3 (emit s e).
Proof.
  intros s e [K A B] E. constructor; [exact K| |]; intros j J; rewrite mst_emit, E; [apply A|apply B]; exact J.
Qed.

Lemma R3_act : forall s a, R3 s -> (forall j, a <> ARwUnreg j) -> (forall j, a <> ARwPost j) -> R3 (emit s (TAct a)).
Proof.
  intros s a R N1 N2. apply R3_emit; [exact R|]. rewrite a_rwp_step.
  destruct a; try reflexivity; [exfalso; eapply N1; reflexivity|exfalso; eapply N2; reflexivity].
Qed.

Lemma R3_res : forall s k i c, R3 s -> R3 (emit s (TRes k i c)).
Proof. intros s k i c R. apply R3_emit; [exact R|]. rewrite a_rwp_step. reflexivity. Qed.

Definition Q3r (r : res) : Prop := match r with R s' => R3 s' | Halt _ => True end.

Lemma Q3_F3r : forall s r, R3 s -> RawFacts s -> F3r (fun _ => False) s r -> Q3r r.
Proof. intros s r R RF F. destruct r; cbn [F3r Q3r] in *; [eapply R3_F3n; eassumption|exact I]. Qed.

Lemma Q3_bind_res : forall r k i c, Q3r r -> Q3r (bind r (fun s1 => R (emit s1 (TRes k i c)))).
Proof. intros r k i c Q. destruct r; cbn [bind Q3r] in *; [apply R3_res; exact Q|exact I]. Qed.

(* the general update: every registered raw event either keeps its descriptor (counter preserved)
   or is re-established directly *)
Lemma R3_upd : forall (X : Z -> Prop) s s', R3 s -> CNTx X (kern s) (kern s') ->
  (forall j, r16 j -> a_rwp (mst s') j = true -> rw_reg s' j = true) ->
  (forall j, r16 j -> rw_reg s' j = true ->
     (rw_reg s j = true /\ rw_rfd s' j = rw_rfd s j /\ 1000 <= rw_rfd s j /\ ~ X (rw_rfd s j) /\
      k_get (kern s) (rw_rfd s j) <> None /\ (a_rwp (mst s') j = true -> a_rwp (mst s) j = true)) \/
     (forall v, k_get (kern s') (rw_rfd s' j) = Some v -> 0 <= vcnt v /\ (a_rwp (mst s') j = true -> 0 < vcnt v))) ->
  R3 s'.
Proof.
  intros X s s' [KPs RG CN] C A B. destruct (C KPs) as (KP' & NX & CC).
  constructor; [exact KP'|exact A|].
  intros j J R v G. destruct (B j J R) as [(R0 & E & L & NXX & EX & AP)|D]; [|apply D; exact G].
  rewrite E in G. destruct (k_get (kern s) (rw_rfd s j)) as [v0|] eqn:G0; [|contradiction].
  destruct (CC _ v0 L NXX G0) as (v' & G' & EV). rewrite G in G'. inversion G'; subst v'. rewrite EV.
  destruct (CN j J R0 v0 G0) as [P1 P2]. split; [exact P1|]. intros H. apply P2. apply AP. exact H.
Qed.

Lemma R3_same : forall s s', R3 s -> kern s' = kern s -> rw_reg s' = rw_reg s -> rw_rfd s' = rw_rfd s ->
  trace s' = trace s -> R3 s'.
Proof.
  intros s s' [K A B] E1 E2 E3 E4. assert (M : mst s' = mst s) by (apply mst_trace; exact E4).
  constructor; rewrite ?E1, ?E2, ?E3, ?M; assumption.
Qed.

Lemma R3_task_register : forall s k, R3 s -> R3 (task_register s k).
Proof.
  intros s k R. apply (R3_same s _ R); unfold task_register; cbn [set_numobjs cur]; repeat dmatch; reflexivity.
Qed.

Lemma R3_event_post : forall s j, R3 s -> R3 (event_post s j).
Proof.
  intros s j R. unfold event_post. destruct (ev_on_list s j); [exact R|].
  set (s1 := set_evlists s (ev_pending s ++ [j]) (ev_batch s)).
  assert (R1 : R3 s1) by (apply (R3_same s s1 R); reflexivity).
  destruct (match ev_pending s with [] => true | _ => false end && negb (task_registered s1 LOCAL_TASK));
    [apply R3_task_register; exact R1|exact R1].
Qed.

Lemma R3_validate : forall s, R3 s -> R3 (validate_now s).
Proof. intros s R. unfold validate_now. destruct (time_valid s); [exact R|apply (R3_same s _ R); reflexivity]. Qed.

Lemma Q3_lift_heap : forall s o, R3 s -> Q3r (lift_heap s o).
Proof. intros s o R. unfold lift_heap. destruct o; cbn [Q3r halt]; [apply (R3_same s _ R); reflexivity|exact I|exact I]. Qed.

Lemma a_rwp_silent : forall s s', TrX s s' -> a_rwp (mst s') = a_rwp (mst s).
Proof. intros s s' T. apply (silent_ghost _ _ (TrX_silent _ _ T)). Qed.

Lemma act_ARwPost_R3 : forall s j, InvW s -> R3 s -> r16 j -> rw_reg s j = true ->
  R3 (raw_post (emit s (TAct (ARwPost j))) j).
Proof.
  intros s j IW R J GD. set (ex := emit s (TAct (ARwPost j))). set (s' := raw_post ex j).
  pose proof (raw_post_F3 ex j) as [C _ _ T]. fold s' in C, T.
  assert (M : a_rwp (mst s') = upd (a_rwp (mst s)) j true).
  { rewrite (a_rwp_silent _ _ T). unfold ex. rewrite mst_emit, a_rwp_step. reflexivity. }
  assert (RW : rw_reg s' = rw_reg s /\ rw_rfd s' = rw_rfd s).
  { unfold s', raw_post. destruct (raw_is_pipe ex j); destruct (k_write _ _ _ _); split; reflexivity. }
  destruct RW as [RW1 RW2].
  apply (R3_upd _ s s' R C).
  - intros j' J' A. rewrite M in A. rewrite RW1. unfold upd in A. destruct (Z.eqb_spec j' j) as [->|N]; [exact GD|apply (r3_reg _ R j' J' A)].
  - intros j' J' RG. rewrite RW1 in RG. rewrite RW2.
    destruct (Z.eq_dec j' j) as [->|N].
    + right. intros v G.
      assert (POS : 0 < vcnt v).
      { destruct (raw_facts s j IW GD) as (L & EX & K).
        destruct (r3_kp _ R) as (_ & PSs & _).
        unfold s', raw_post in G. change (raw_is_pipe ex j) with (raw_is_pipe s j) in G. change (kern ex) with (kern s) in G.
        change (rw_wfd ex j) with (rw_wfd s j) in G.
        destruct (raw_is_pipe s j).
        - destruct K as (_ & _ & vr & vw & Or & KR & PR & POr & Ow & KW & PW).
          pose proof (k_open_get _ _ _ Or) as [Gr Cr]. pose proof (k_open_get _ _ _ Ow) as [Gw Cw].
          assert (PO : vpeer_open vw = true).
          { destruct (PSs _ _ Gw (or_intror KW)) as (_ & _ & p & GP & _ & _ & OO). rewrite PW, Gr in GP. inversion GP; subst p.
            rewrite (OO KW), Cr. reflexivity. }
          destruct (r3_cnt _ R j J GD vr Gr) as [NN _].
          destruct (write_pipe_pos (kern s) (rw_wfd s j) vw vr Ow KW PO ltac:(rewrite PW; exact Gr) NN) as (r' & G' & P').
          rewrite PW in G'. destruct (k_write (kern s) (rw_wfd s j) 1 0) as [k1 x]. cbn [fst kern set_kern] in *.
          rewrite G in G'. inversion G'; subst. exact P'.
        - destruct K as (_ & WR & vr & Or & KE).
          pose proof (k_open_get _ _ _ Or) as [Gr Cr]. destruct (r3_cnt _ R j J GD vr Gr) as [NN _].
          rewrite WR in G. destruct (write_efd_pos (kern s) (rw_rfd s j) vr Or KE) as (v' & G' & E').
          destruct (k_write (kern s) (rw_rfd s j) 8 1) as [k1 x]. cbn [fst kern set_kern] in *.
          rewrite G in G'. inversion G'; subst. lia. }
      split; [lia|intros _; exact POS].
    + left. destruct (raw_facts s j' IW RG) as (L & EX & _).
      split; [exact RG|]. split; [reflexivity|]. split; [exact L|]. split; [|split; [exact EX|]].
      * intros XX. apply (raw_distinct s j' j IW RG GD N). apply (raw_post_target s j _ IW GD XX).
      * rewrite M. unfold upd. destruct (Z.eqb_spec j' j); [contradiction|auto].
Qed.

Lemma act_ARwReg_R3 : forall s j, InvW s -> R3 s -> r16 j -> rw_reg s j = false ->
  forall r failed, raw_register (emit s (TAct (ARwReg j))) j = (r, failed) -> Q3r r.
Proof.
  intros s j IW R J GD r failed E. set (ex := emit s (TAct (ARwReg j))) in *.
  pose proof (raw_register_spec3 ex j) as SP. rewrite E in SP. cbn [fst snd] in SP.
  destruct r as [s1|s1]; cbn [RawRegSpec Q3r] in *; [|exact I].
  destruct SP as (C & T & O & FT & FF').
  assert (M : a_rwp (mst s1) = a_rwp (mst s)).
  { rewrite (a_rwp_silent _ _ T). unfold ex. rewrite mst_emit, a_rwp_step. reflexivity. }
  assert (NA : a_rwp (mst s) j = false).
  { destruct (a_rwp (mst s) j) eqn:A; [|reflexivity]. rewrite (r3_reg _ R j J A) in GD. discriminate GD. }
  apply (R3_upd (fun _ => False) s s1 R C).
  - intros j' J' A. rewrite M in A. destruct (Z.eq_dec j' j) as [->|N]; [congruence|].
    rewrite (proj1 (O j' N)). apply (r3_reg _ R j' J' A).
  - intros j' J' RG. destruct (Z.eq_dec j' j) as [->|N].
    + right. intros v G. rewrite M, NA. destruct failed.
      * destruct (FT eq_refl) as [E1 _]. change (rw_reg ex j) with (rw_reg s j) in E1. congruence.
      * destruct (FF' eq_refl) as (_ & _ & Z0). rewrite (Z0 v G). split; [lia|discriminate].
    + left. destruct (O j' N) as (E1 & E2 & _). change (rw_reg ex j') with (rw_reg s j') in E1. change (rw_rfd ex j') with (rw_rfd s j') in E2.
      rewrite E1 in RG. destruct (raw_facts s j' IW RG) as (L & EX & _).
      split; [exact RG|]. split; [exact E2|]. split; [exact L|]. split; [tauto|]. split; [exact EX|]. rewrite M. auto.
Qed.

Lemma act_ARwUnreg_R3 : forall s j, InvW s -> R3 s -> r16 j -> rw_reg s j = true ->
  Q3r (raw_unregister (emit s (TAct (ARwUnreg j))) j).
Proof.
  intros s j IW R J GD. set (ex := emit s (TAct (ARwUnreg j))).
  pose proof (raw_unregister_spec3 ex j) as SP.
  destruct (raw_unregister ex j) as [s1|s1]; cbn [RawUnregSpec Q3r] in *; [|exact I].
  destruct SP as (C & T & O & RF).
  assert (M : a_rwp (mst s1) = upd (a_rwp (mst s)) j false).
  { rewrite (a_rwp_silent _ _ T). unfold ex. rewrite mst_emit, a_rwp_step. reflexivity. }
  apply (R3_upd (fun _ => False) s s1 R C).
  - intros j' J' A. rewrite M in A. unfold upd in A. destruct (Z.eqb_spec j' j) as [->|N]; [discriminate A|].
    rewrite (proj1 (O j' N)). apply (r3_reg _ R j' J' A).
  - intros j' J' RG. destruct (Z.eq_dec j' j) as [->|N]; [congruence|].
    left. destruct (O j' N) as (E1 & E2 & _). change (rw_reg ex j') with (rw_reg s j') in E1. change (rw_rfd ex j') with (rw_rfd s j') in E2.
    rewrite E1 in RG. destruct (raw_facts s j' IW RG) as (L & EX & _).
    split; [exact RG|]. split; [exact E2|]. split; [exact L|]. split; [tauto|]. split; [exact EX|].
    rewrite M. unfold upd. destruct (Z.eqb_spec j' j); [contradiction|auto].
Qed.

Ltac nrw := first [intros ?; discriminate | discriminate].

Theorem do_action_R3 : forall s a, InvW s -> R3 s -> wf_action a -> Q3r (do_action s a).
Proof.
  intros s a IW R W. pose proof (InvW_RawFacts s IW) as RF.
  assert (EX : forall a0, (forall j, a0 <> ARwUnreg j) -> (forall j, a0 <> ARwPost j) ->
            R3 (emit s (TAct a0)) /\ RawFacts (emit s (TAct a0))).
  { intros a0 N1 N2. split; [apply R3_act; assumption|exact RF]. }
  destruct a; cbn [do_action];
    try (match goal with |- Q3r (if ?c then _ else _) => destruct c eqn:GD end);
    try (exact R).
  - (* AFdReg *) destruct (k_open (kern s) (fdnum (getfd s i))); [|exact R].
    destruct (EX (AFdReg i)) as [RE RFE]; try nrw. apply (Q3_F3r _ _ RE RFE). apply FFr_F3r. apply fd_register_FF.
  - (* AFdTry *) pose proof (fd_register_try_FF (emit s (TAct (AFdTry i))) i) as F.
    destruct (fd_register_try (emit s (TAct (AFdTry i))) i) as [r failed]. cbn [fst] in F.
    destruct (EX (AFdTry i)) as [RE RFE]; try nrw. apply Q3_bind_res. apply (Q3_F3r _ _ RE RFE). apply FFr_F3r. exact F.
  - (* AFdUnreg *) destruct (EX (AFdUnreg i)) as [RE RFE]; try nrw. apply (Q3_F3r _ _ RE RFE). apply FFr_F3r. apply fd_unregister_FF.
  - (* AFdSetH *) destruct (EX (AFdSetH i band h)) as [RE RFE]; try nrw. apply (Q3_F3r _ _ RE RFE). apply FFr_F3r. apply fd_set_handler_FF.
  - (* AFdCookie *) destruct (EX (AFdCookie i c)) as [RE _]; try nrw. apply (R3_same _ _ RE); reflexivity.
  - (* AFdFresh *) destruct (EX (AFdFresh i)) as [RE _]; try nrw. apply (R3_same _ _ RE); reflexivity.
  - (* AKSet *) destruct (EX (AKSet i c)) as [RE RFE]; try nrw. cbn [Q3r]. apply (R3_F3n _ _ RE RFE).
    apply (F3_kern _ (emit s (TAct (AKSet i c)))). apply CNT_set_cond. apply W.
  - (* AKClose *) destruct (EX (AKClose i)) as [RE RFE]; try nrw. cbn [Q3r]. apply (R3_F3n _ _ RE RFE).
    apply (F3_kern _ (emit s (TAct (AKClose i)))). apply CNT_user_close. exact W.
  - (* AKOpen *) destruct (EX (AKOpen i)) as [RE RFE]; try nrw. cbn [Q3r]. apply (R3_F3n _ _ RE RFE).
    apply (F3_kern _ (emit s (TAct (AKOpen i)))). apply CNT_user_fd. exact W.
  - (* ATmRegAbs *) destruct (EX (ATmRegAbs j e)) as [RE _]; try nrw. apply Q3_lift_heap. exact RE.
  - (* ATmRegRel *) apply Q3_lift_heap. apply R3_emit; [apply R3_validate; exact R|]. rewrite a_rwp_step. reflexivity.
  - (* ATmUnreg *) destruct (EX (ATmUnreg j)) as [RE _]; try nrw. apply Q3_lift_heap. exact RE.
  - (* ATmFresh *) destruct (EX (ATmFresh j)) as [RE _]; try nrw. exact RE.
  - (* ATkReg *) destruct (EX (ATkReg j)) as [RE _]; try nrw. cbn [Q3r]. apply R3_task_register. exact RE.
  - (* ATkUnreg *) destruct (EX (ATkUnreg j)) as [RE _]; try nrw. apply (R3_same _ _ RE); reflexivity.
  - (* ATkFresh *) destruct (EX (ATkFresh j)) as [RE _]; try nrw. apply (R3_same _ _ RE); reflexivity.
  - (* AEvReg *) pose proof (event_register_F3 (emit s (TAct (AEvReg j))) j) as F.
    destruct (event_register (emit s (TAct (AEvReg j))) j) as [r failed]. cbn [fst] in F.
    destruct (EX (AEvReg j)) as [RE RFE]; try nrw. apply Q3_bind_res. apply (Q3_F3r _ _ RE RFE). exact F.
  - (* AEvUnreg *) destruct (EX (AEvUnreg j)) as [RE RFE]; try nrw. apply (Q3_F3r _ _ RE RFE). apply event_unregister_F3.
  - (* AEvPost *) destruct (EX (AEvPost j)) as [RE _]; try nrw. cbn [Q3r]. apply R3_event_post. exact RE.
  - (* AEvFresh *) destruct (EX (AEvFresh j)) as [RE _]; try nrw. exact RE.
  - (* ARwReg *) destruct (raw_register (emit s (TAct (ARwReg j))) j) as [r failed] eqn:E.
    apply Q3_bind_res. apply (act_ARwReg_R3 s j IW R W GD r failed E).
  - (* ARwUnreg *) apply (act_ARwUnreg_R3 s j IW R W GD).
  - (* ARwPost *) cbn [Q3r]. apply (act_ARwPost_R3 s j IW R W GD).
  - (* ARwFresh *) destruct (EX (ARwFresh j)) as [RE _]; try nrw. exact RE.
  - (* AQuit *) destruct (EX AQuit) as [RE _]; try nrw. apply (R3_same _ _ RE); reflexivity.
  - (* AClockAdv *) destruct (EX (AClockAdv d)) as [RE RFE]; try nrw. cbn [Q3r]. apply (R3_F3n _ _ RE RFE).
    apply (F3_kern _ (emit s (TAct (AClockAdv d)))). apply CNT_clock.
  - (* AInvalidate *) destruct (EX AInvalidate) as [RE _]; try nrw. apply (R3_same _ _ RE); reflexivity.
  - (* AValidate *) destruct (EX AValidate) as [RE _]; try nrw. cbn [Q3r]. apply R3_validate. exact RE.
Qed.
