(* CorePhase2AcctWait.v -- the kernel waits and codes 705 708 710: a wait that sleeps
   or hangs was entered without any pending task; then something user-visible is
   registered and no self-posted event is undelivered. *)
From Coq Require Import List ZArith Bool Lia.
From Ivv Require Import Core.Kernel Core.CoreTypes Core.CoreFd Core.CoreModel Core.Monitors Core.CoreSpec
  Core.CoreRel Core.CorePhase2AcctTr Core.CorePhase2AcctTr2 Core.CorePhase2AcctMon Core.CorePhase2AcctMon2 Core.CorePhase2AcctFd
  Core.CorePhase2AcctAct Core.CorePhase2AcctLoop Core.CorePhase2AcctTear Core.CorePhase2AcctEnd
  Core.CorePhase2AcctEv Core.CorePhase2AcctEvLoop.
From Ivv Require Timer.HeapModel Timer.HeapFacts.
Import ListNotations.
Local Open Scope Z_scope.
Ltac Zify.zify_post_hook ::= Z.div_mod_to_equations.

(* ---------- the virtual kernel: when a wait returns at once ---------- *)
Definition nosleep_e (k : kernel) (maxev timeout rot : Z) : Prop :=
  match k_epoll_sleep k maxev timeout rot with WReady k1 _ => clock k1 = clock k | _ => False end.

Definition nosleep_p (k : kernel) (pf : list (Z * Z)) (timeout : Z) : Prop :=
  match k_poll_sleep k pf timeout with PReady k1 _ => clock k1 = clock k | PHang => False end.

Lemma nosleep_e_zero : forall k maxev rot, nosleep_e k maxev 0 rot.
Proof.
  intros k maxev rot. unfold nosleep_e, k_epoll_sleep. cbv zeta.
  destruct (ep_scan k _ _); cbn [Z.eqb]; reflexivity.
Qed.

Lemma nosleep_p_eq0 : forall k pf t, t = 0 -> nosleep_p k pf t.
Proof. intros k pf t ->. unfold nosleep_p, k_poll_sleep. cbv zeta. rewrite orb_true_r. reflexivity. Qed.

Lemma nosleep_e_eq0 : forall k maxev t rot, t = 0 -> nosleep_e k maxev t rot.
Proof. intros k maxev t rot ->. apply nosleep_e_zero. Qed.

Lemma nosleep_p_zero : forall k pf, nosleep_p k pf 0.
Proof. intros k pf. unfold nosleep_p, k_poll_sleep. cbv zeta. rewrite orb_true_r. reflexivity. Qed.

Lemma ep_scan_hit : forall k l m e, In e l -> ep_ready_bits k e <> 0 -> (0 < m)%nat -> ep_scan k l m <> [].
Proof.
  intros k l. induction l as [|a l IH]; intros m e I R M; [destruct I|].
  destruct m as [|m]; [lia|]. cbn [ep_scan]. destruct (Z.eqb_spec (ep_ready_bits k a) 0) as [Z0|NZ]; [|discriminate].
  destruct I as [->|I]; [contradiction|]. apply (IH (S m) e I R). lia.
Qed.

Lemma nosleep_e_ready : forall k maxev timeout rot e, In e (ep k) -> ep_ready_bits k e <> 0 -> 1 <= maxev ->
  nosleep_e k maxev timeout rot.
Proof.
  intros k maxev timeout rot e I R M. unfold nosleep_e, k_epoll_sleep. cbv zeta.
  set (sorted := sort_ents (ep k)). set (order := rotate _ sorted).
  assert (IO : In e order).
  { unfold order, rotate. apply in_or_app. assert (IS : In e sorted) by (apply In_sort_ents; exact I).
    rewrite <- (firstn_skipn (if Z.of_nat (length sorted) =? 0 then 0%nat else Z.to_nat (rot mod Z.of_nat (length sorted))) sorted) in IS.
    apply in_app_or in IS. tauto. }
  pose proof (ep_scan_hit k order (Z.to_nat maxev) e IO R ltac:(lia)) as NE.
  destruct (ep_scan k order (Z.to_nat maxev)); [contradiction|reflexivity].
Qed.

(* ---------- a zero timeout is computed for abs = Some 0 ---------- *)
Lemma to_relative_zero : forall s, (time_valid s = true -> 0 <= time s) -> 0 <= clock (kern s) ->
  snd (to_relative s (Some 0)) = Some 0.
Proof.
  intros s T C. cbn [to_relative snd]. unfold validate_now. destruct (time_valid s) eqn:TV.
  - specialize (T eq_refl). destruct (Z.ltb_spec (time s) 0); [lia|reflexivity].
  - cbn [time set_time]. destruct (Z.ltb_spec (clock (kern s)) 0); [lia|reflexivity].
Qed.

Lemma to_msec_zero : forall s, (time_valid s = true -> 0 <= time s) -> 0 <= clock (kern s) ->
  snd (to_msec s (Some 0)) = 0.
Proof.
  intros s T C. unfold to_msec. pose proof (to_relative_zero s T C) as H.
  destruct (to_relative s (Some 0)) as [s1 r]. cbn [snd] in H. subst r. cbn [snd]. reflexivity.
Qed.

(* ---------- an idle loop: no task pending ---------- *)
Lemma any_obj_pt : forall f i, any_obj f = false -> inr16 i -> f i = false.
Proof.
  intros f i H I. unfold any_obj, objs in H. destruct (f i) eqn:E; [|reflexivity].
  assert (X : existsb f (zseq 0 16) = true) by (apply existsb_exists; exists i; split; [apply In_zseq; unfold inr16 in I; lia|exact E]).
  congruence.
Qed.

Lemma idle_facts : forall s, J true s -> Acc s -> XI s -> cur s = None -> ev_batch s = [] -> numobjs s <> 0 -> tasks s = [] ->
  something_registered (mst s) = true /\ posted (mst s) = false.
Proof.
  intros s Jh A X C B N T.
  assert (NT : forall k, task_registered s k = false).
  { intros k. unfold task_registered. rewrite T, C. reflexivity. }
  split.
  - destruct (something_registered (mst s)) eqn:SR; [reflexivity|exfalso].
    unfold something_registered in SR. do 4 (apply orb_false_iff in SR; destruct SR as [SR ?]).
    pose proof (j_ag _ _ Jh) as AG. pose proof (j_fx _ _ Jh) as FX. pose proof (j_si _ _ Jh) as SIh.
    assert (F1 : forall i, inr16 i -> registered (fdt s i) = false) by (intros i I; rewrite <- (ag_fd _ _ AG i I); apply any_obj_pt; assumption).
    assert (F2 : forall i, inr16 i -> timer_registered s i = false) by (intros i I; rewrite <- (ag_tm _ _ AG i I); apply any_obj_pt; assumption).
    assert (F4 : forall i, inr16 i -> ev_reg s i = false) by (intros i I; rewrite <- (ag_ev _ _ AG i I); apply any_obj_pt; assumption).
    assert (F5 : forall i, inr16 i -> rw_reg s i = false) by (intros i I; rewrite <- (ag_rw _ _ AG i I); apply any_obj_pt; assumption).
    assert (EC : ev_count s = 0) by (rewrite (fx_cnt _ FX); apply cnt_all_false; exact F4).
    assert (NF : numfds s = 0).
    { rewrite (ac_nf _ A). apply cnt33_all_false. intros k K. unfold regf.
      destruct (registered (fdt s k)) eqn:E; [|reflexivity]. exfalso.
      destruct (Z_lt_le_dec k 16) as [L|G].
      - rewrite F1 in E; [discriminate|unfold inr16; lia].
      - pose proof (fx_raw _ FX (k - 16) ltac:(lia)) as HR. replace (16 + (k - 16)) with k in HR by lia. specialize (HR E).
        destruct (Z.eq_dec k 32) as [->|NE].
        + destruct (fx_kick _ FX HR) as [_ HK]. contradiction.
        + rewrite F5 in HR; [discriminate|unfold inr16; lia]. }
    assert (HN : hnum s = 0) by (apply hnum_zero; assumption).
    assert (KK : kick s = 0) by (unfold kick; rewrite EC; reflexivity).
    pose proof (ac_no _ A) as NO. rewrite NF, HN, EC, KK in NO. unfold ntask, curl in NO. rewrite T, C in NO. cbn in NO. lia.
  - unfold posted. apply any_obj_false. intros j I.
    destruct (a_ev (mst s) j && a_evp (mst s) j) eqn:E; [|reflexivity]. exfalso.
    apply andb_true_iff in E. destruct E as [_ E].
    pose proof (xi_conv _ X j I E) as OL. unfold ev_on_list in OL. rewrite B in OL. cbn [mem_z existsb] in OL. rewrite orb_false_r in OL.
    assert (PE : ev_pending s <> []) by (intros Z0; rewrite Z0 in OL; discriminate OL).
    pose proof (xi_task _ X PE) as TR. rewrite NT in TR. discriminate TR.
Qed.

(* ---------- the waits ---------- *)
Lemma ca_q5 : forall e, ca e -> q5 e.
Proof. intros e. destruct e; cbn; tauto. Qed.

Lemma Clean5_q5 : forall s s', TrExt q5 s s' -> Clean S5 (mst s) -> Clean S5 (mst s').
Proof. intros s s' T C. apply (Clean_ext S5 q5 s s' q5_quiet T C). Qed.

Lemma Clean5_ca : forall s s', TrExt ca s s' -> Clean S5 (mst s) -> Clean S5 (mst s').
Proof. intros s s' T C. apply (Clean5_q5 s s'); [|exact C]. eapply TrExt_weaken; [exact ca_q5|exact T]. Qed.

Lemma Clean_emit : forall S s e, Clean S (mon_step (mst s) e) -> Clean S (mst (emit s e)).
Proof. intros S s e H. rewrite mst_emit. exact H. Qed.

Lemma Clean_pa : forall S X keys revs, Clean S (mst X) -> Clean S (mst (poll_activate (invalidate_now X) keys revs)).
Proof. intros S X keys revs H. rewrite (mst_trace X); [exact H|]. rewrite poll_activate_trace. reflexivity. Qed.

Section Wait.
Variable sc : scenario.
Hypothesis WF : wf_scenario sc.

Lemma wait_enter_q5 : forall s, RExt q5 s (wait_enter sc s).
Proof.
  intros s. unfold wait_enter. cbv zeta. dm; [apply RExt_halt; exact Logic.I|].
  eapply RExt_l; [|apply (RExt_weaken ca q5); [exact ca_q5|apply run_acts_ext]]. reflexivity.
Qed.

(* what is known when a wait is entered *)
Record WS (s : core) : Prop := {
  ws_j : J true s; ws_acc : Acc s; ws_xi : XI s; ws_cur : cur s = None; ws_evb : ev_batch s = [];
  ws_no : numobjs s <> 0; ws_quit : quit s = false }.

Lemma WS_step : forall s s', WS s -> J true s' -> AW s s' -> XF s s' -> TrExt lp s s' -> quit s' = quit s -> WS s'.
Proof.
  intros s s' [Jh A X C B N Q] J' W F T Q'. constructor.
  - exact J'.
  - eapply Acc_AW; eassumption.
  - eapply XI_XF; eassumption.
  - rewrite (aw_cur _ _ W). exact C.
  - rewrite (xf_evb _ _ F). exact B.
  - rewrite (aw_no _ _ W). exact N.
  - congruence.
Qed.

Lemma wait_enter_WS : forall s, WS s ->
  match wait_enter sc s with R s1 => WS s1 /\ tasks s1 = tasks s | Halt _ => True end.
Proof.
  intros s W. pose proof (wait_enter_post sc WF true s (ws_j _ W)) as P.
  pose proof (wait_enter_AW sc WF s) as A1. pose proof (wait_enter_XF sc WF s) as X1.
  pose proof (wait_enter_ext sc s) as T1. unfold RExt in T1.
  destruct (wait_enter sc s) as [s1|s1]; cbn [ARes res_state] in *; [|exact Logic.I].
  destruct P as (J1 & _ & Q1). split; [eapply WS_step; eassumption|apply (aw_tasks _ _ A1)].
Qed.

Lemma slept_idle : forall s, WS s -> tasks s = [] -> something_registered (mst s) = true /\ posted (mst s) = false.
Proof. intros s [Jh A X C B N Q] T. apply idle_facts; assumption. Qed.

Lemma WS_emit_wait : forall s n call mx t i g, WS s -> WS (emit s (TWait n call mx t i g)).
Proof.
  intros s n call mx t i g W. apply (WS_step s _ W).
  - apply J_wait_event; [apply (ws_j _ W)|apply (ws_quit _ W)].
  - constructor; reflexivity.
  - apply XF_emit. exact Logic.I.
  - apply TrExt_emit. exact Logic.I.
  - reflexivity.
Qed.

Lemma do_epoll_wait_CE : forall s call maxev timeout, WS s ->
  (forall s1, wait_enter sc s = R s1 -> tasks s1 <> [] ->
              nosleep_e (kern s1) maxev timeout (sc_rot sc (nwait (kern s1)))) ->
  Clean S5 (mst s) -> Clean S5 (mst (wres_state (do_epoll_wait sc s call maxev timeout))).
Proof.
  intros s call maxev timeout W NS C. unfold do_epoll_wait.
  pose proof (wait_enter_WS s W) as P. pose proof (wait_enter_q5 s) as T1. unfold RExt in T1.
  destruct (wait_enter sc s) as [s1|s1] eqn:WE; cbn [wres_state res_state] in *; [|apply (Clean5_q5 _ _ T1 C)].
  destruct P as [W1 TK1]. pose proof (Clean5_q5 _ _ T1 C) as C1. specialize (NS s1 eq_refl). cbv zeta.
  set (n := nwait (kern s1)) in *.
  set (s2 := emit s1 (TWait n call maxev timeout (interest_of (kern s1)) (ground (kern s1)))).
  pose proof (WS_emit_wait s1 n call maxev timeout (interest_of (kern s1)) (ground (kern s1)) W1) as W2. fold s2 in W2.
  assert (C2 : Clean S5 (mst s2)).
  { unfold s2. rewrite mst_emit. apply Clean_step; [apply q5_quiet; exact Logic.I|exact C1]. }
  assert (CK : a_clk (mst s2) = clock (kern s1)) by (apply (ag_clk _ _ (j_ag _ _ (ws_j _ W2)))).
  assert (T2 : tasks s2 = tasks s1) by reflexivity.
  change (kern s2) with (kern s1).
  destruct (mem_z n (eintr_waits (flt (kern s1)))); cbn [wres_state].
  - rewrite mst_emit. apply clean_TRet_none.
    match goal with |- Clean S5 (mst ?X) => replace (mst X) with (mst s2) by (destruct (0 <? timeout); reflexivity) end. exact C2.
  - unfold nosleep_e in NS.
    destruct (k_epoll_sleep (kern s1) maxev timeout (sc_rot sc n)) as [k1 evs|k1| |] eqn:KS; cbn [wres_state res_state halt].
    + rewrite mst_emit. change (mst (set_kern s2 k1)) with (mst s2). apply clean_TRet_some; [exact C2|].
      intros SL. rewrite CK in SL. apply Z.ltb_lt in SL.
      destruct (tasks s1) as [|t0 tl] eqn:TS.
      * apply (slept_idle s2 W2). exact T2.
      * exfalso. assert (E : clock k1 = clock (kern s1)) by (apply NS; discriminate). lia.
    + exact C2.
    + rewrite mst_emit. destruct (tasks s1) as [|t0 tl] eqn:TS.
      * destruct (slept_idle s2 W2) as [H1 H2]; [exact T2|]. apply clean_THang; assumption.
      * exfalso. apply NS. discriminate.
    + rewrite mst_emit. apply Clean_step; [apply q5_quiet; exact Logic.I|exact C2].
Qed.

Lemma do_poll_wait_CE : forall s call timeout, WS s ->
  (forall s1, wait_enter sc s = R s1 -> tasks s1 <> [] -> nosleep_p (kern s1) (pfds s1) timeout) ->
  Clean S5 (mst s) -> Clean S5 (mst (res_state (fst (do_poll_wait sc s call timeout)))).
Proof.
  intros s call timeout W NS C. unfold do_poll_wait.
  pose proof (wait_enter_WS s W) as P. pose proof (wait_enter_q5 s) as T1. unfold RExt in T1.
  destruct (wait_enter sc s) as [s1|s1] eqn:WE; cbn [fst res_state] in *; [|apply (Clean5_q5 _ _ T1 C)].
  destruct P as [W1 TK1]. pose proof (Clean5_q5 _ _ T1 C) as C1. specialize (NS s1 eq_refl). cbv zeta.
  set (n := nwait (kern s1)) in *.
  set (s2 := emit s1 (TWait n call (Z.of_nat (length (pfds s1))) timeout (interest_of_pfds (pfds s1)) (ground (kern s1)))).
  pose proof (WS_emit_wait s1 n call (Z.of_nat (length (pfds s1))) timeout (interest_of_pfds (pfds s1)) (ground (kern s1)) W1) as W2. fold s2 in W2.
  assert (C2 : Clean S5 (mst s2)).
  { unfold s2. rewrite mst_emit. apply Clean_step; [apply q5_quiet; exact Logic.I|exact C1]. }
  assert (CK : a_clk (mst s2) = clock (kern s1)) by (apply (ag_clk _ _ (j_ag _ _ (ws_j _ W2)))).
  assert (T2 : tasks s2 = tasks s1) by reflexivity.
  change (kern s2) with (kern s1). change (pfds s2) with (pfds s1).
  destruct (mem_z n (eintr_waits (flt (kern s1)))); cbn [fst res_state].
  - match goal with |- Clean S5 (mst (invalidate_now ?X)) => change (Clean S5 (mst X)) end.
    apply Clean_emit. apply clean_TRet_none.
    match goal with |- Clean S5 (mst ?X) => replace (mst X) with (mst s2) by (destruct (0 <? timeout); reflexivity) end. exact C2.
  - unfold nosleep_p in NS.
    destruct (k_poll_sleep (kern s1) (pfds s1) timeout) as [k1 revs|] eqn:KS; cbn [fst res_state halt].
    + apply Clean_pa. apply Clean_emit. change (mst (set_kern s2 k1)) with (mst s2). apply clean_TRet_some; [exact C2|].
      intros SL. rewrite CK in SL. apply Z.ltb_lt in SL.
      destruct (tasks s1) as [|t0 tl] eqn:TS.
      * apply (slept_idle s2 W2). exact T2.
      * exfalso. assert (E : clock k1 = clock (kern s1)) by (apply NS; discriminate). lia.
    + apply Clean_emit. destruct (tasks s1) as [|t0 tl] eqn:TS.
      * destruct (slept_idle s2 W2) as [H1 H2]; [exact T2|]. apply clean_THang; assumption.
      * exfalso. apply NS. discriminate.
Qed.

(* the timer descriptor is due: an unbounded wait entered now returns at once *)
Definition Due (s : core) (maxev : Z) : Prop :=
  forall s0, s0 = s \/ s0 = set_epoll s (epfd s) (tfd s) false ->
  forall s1, wait_enter sc s0 = R s1 -> nosleep_e (kern s1) maxev (-1) (sc_rot sc (nwait (kern s1))).

Lemma WS_set_epoll : forall s, WS s -> WS (set_epoll s (epfd s) (tfd s) false).
Proof.
  intros s W. apply (WS_step s _ W); try reflexivity.
  - apply (J_irr true s _ (ws_j _ W)); reflexivity.
  - constructor; reflexivity.
  - apply XF_plain; try reflexivity; lia.
  - apply TrExt_same. reflexivity.
Qed.

Lemma WS_validate : forall s, WS s -> WS (validate_now s).
Proof.
  intros s W. destruct (J_validate true s (ws_j _ W)) as (J1 & _ & _ & _ & Q1). apply (WS_step s _ W).
  - exact J1.
  - apply AW_validate.
  - apply XF_validate.
  - apply TrExt_same. apply validate_trace.
  - exact Q1.
Qed.

Lemma WS_time : forall s, WS s -> (time_valid s = true -> 0 <= time s) /\ 0 <= clock (kern s).
Proof. intros s W. pose proof (xi_time _ (ws_xi _ W)). pose proof (xi_clock _ (ws_xi _ W)). split; [intros H1; specialize (H H1)|]; lia. Qed.

Lemma epoll_wait_m_CE : forall s abs maxev, WS s ->
  (tasks s <> [] -> abs = Some 0 \/ (abs = None /\ Due s maxev)) ->
  Clean S5 (mst s) -> Clean S5 (mst (wres_state (epoll_wait_m sc s abs maxev))).
Proof.
  intros s abs maxev W H C. unfold epoll_wait_m.
  assert (TKS : forall s0, WS s0 -> forall s1, wait_enter sc s0 = R s1 -> tasks s1 = tasks s0).
  { intros s0 W0 s1 E. pose proof (wait_enter_WS s0 W0) as P. rewrite E in P. apply P. }
  destruct (pwait2 s) eqn:PW.
  - (* epoll_pwait2 *)
    destruct abs as [a|].
    + cbn [to_relative]. pose proof (WS_validate s W) as W1. set (s1 := validate_now s) in *.
      assert (T1 : tasks s1 = tasks s) by (apply (aw_tasks _ _ (AW_validate s))).
      assert (C1 : Clean S5 (mst s1)) by (rewrite (mst_trace s s1 (validate_trace s)); exact C).
      destruct (_ || _).
      * (* falls back to epoll_wait *)
        pose proof (WS_set_epoll s1 W1) as W2. set (s2 := set_epoll s1 (epfd s1) (tfd s1) false) in *.
        pose proof (WS_time s2 W2) as [TM CK].
        pose proof (to_msec_zero s2 TM CK) as MZ.
        destruct (to_msec s2 (Some a)) as [s3 ms] eqn:TM3.
        assert (W3 : WS s3).
        { replace s3 with (fst (to_msec s2 (Some a))) by (rewrite TM3; reflexivity). unfold to_msec. cbn [to_relative fst]. apply WS_validate. exact W2. }
        assert (C3 : Clean S5 (mst s3)).
        { replace s3 with (fst (to_msec s2 (Some a))) by (rewrite TM3; reflexivity). rewrite (mst_trace s2 _ (to_msec_trace s2 (Some a))). exact C1. }
        apply do_epoll_wait_CE; [exact W3| |exact C3].
        intros s4 E4 T4. rewrite (TKS s3 W3 s4 E4) in T4.
        assert (T3 : tasks s3 = tasks s).
        { replace s3 with (fst (to_msec s2 (Some a))) by (rewrite TM3; reflexivity). rewrite (aw_tasks _ _ (to_msec_AW s2 (Some a))). exact T1. }
        rewrite T3 in T4. destruct (H T4) as [EA|[EA _]]; [|discriminate EA]. inversion EA; subst a.
        rewrite TM3 in MZ. cbn [snd] in MZ. subst ms. apply nosleep_e_eq0. reflexivity.
      * apply do_epoll_wait_CE; [exact W1| |exact C1].
        intros s4 E4 T4. rewrite (TKS s1 W1 s4 E4), T1 in T4.
        destruct (H T4) as [EA|[EA _]]; [|discriminate EA]. inversion EA; subst a.
        pose proof (WS_time s W) as [TM CK]. pose proof (to_relative_zero s TM CK) as RZ. cbn [to_relative snd] in RZ.
        apply nosleep_e_eq0. fold s1 in RZ. injection RZ as RZ'. exact RZ'.
    + cbn [to_relative]. destruct (_ || _).
      * pose proof (WS_set_epoll s W) as W2. set (s2 := set_epoll s (epfd s) (tfd s) false) in *.
        cbn [to_msec to_relative]. apply do_epoll_wait_CE; [exact W2| |exact C].
        intros s4 E4 T4. rewrite (TKS s2 W2 s4 E4) in T4. change (tasks s2) with (tasks s) in T4.
        destruct (H T4) as [EA|[_ D]]; [discriminate EA|]. cbn. apply (D s2); [right; reflexivity|exact E4].
      * apply do_epoll_wait_CE; [exact W| |exact C].
        intros s4 E4 T4. rewrite (TKS s W s4 E4) in T4.
        destruct (H T4) as [EA|[_ D]]; [discriminate EA|]. apply (D s); [left; reflexivity|exact E4].
  - (* epoll_wait *)
    destruct abs as [a|].
    + pose proof (WS_time s W) as [TM CK]. pose proof (to_msec_zero s TM CK) as MZ.
      destruct (to_msec s (Some a)) as [s3 ms] eqn:TM3.
      assert (W3 : WS s3).
      { replace s3 with (fst (to_msec s (Some a))) by (rewrite TM3; reflexivity). unfold to_msec. cbn [to_relative fst]. apply WS_validate. exact W. }
      assert (C3 : Clean S5 (mst s3)).
      { replace s3 with (fst (to_msec s (Some a))) by (rewrite TM3; reflexivity). rewrite (mst_trace s _ (to_msec_trace s (Some a))). exact C. }
      apply do_epoll_wait_CE; [exact W3| |exact C3].
      intros s4 E4 T4. rewrite (TKS s3 W3 s4 E4) in T4.
      assert (T3 : tasks s3 = tasks s).
      { replace s3 with (fst (to_msec s (Some a))) by (rewrite TM3; reflexivity). apply (aw_tasks _ _ (to_msec_AW s (Some a))). }
      rewrite T3 in T4. destruct (H T4) as [EA|[EA _]]; [|discriminate EA]. inversion EA; subst a.
      rewrite TM3 in MZ. cbn [snd] in MZ. subst ms. apply nosleep_e_eq0. reflexivity.
    + cbn [to_msec to_relative]. apply do_epoll_wait_CE; [exact W| |exact C].
      intros s4 E4 T4. rewrite (TKS s W s4 E4) in T4.
      destruct (H T4) as [EA|[_ D]]; [discriminate EA|]. cbn. apply (D s); [left; reflexivity|exact E4].
Qed.

Lemma ch_q5 : forall e, ch e -> q5 e.
Proof. intros e. destruct e; cbn; tauto. Qed.

Lemma Clean5_ch : forall s s', TrExt ch s s' -> Clean S5 (mst s) -> Clean S5 (mst s').
Proof. intros s s' T C. apply (Clean5_q5 s s'); [|exact C]. eapply TrExt_weaken; [exact ch_q5|exact T]. Qed.

Lemma epoll_poll_CE : forall s abs, WS s -> is_epoll s = true ->
  (tasks s <> [] -> abs = Some 0 \/
     (abs = None /\ forall s1, epoll_flush_pending (S (length (notify s))) s = R s1 -> WS s1 ->
                     Due s1 (if method s =? M_ET then numfds s + 1 else if numfds s =? 0 then 1 else numfds s))) ->
  Clean S5 (mst s) -> Clean S5 (mst (res_state (fst (epoll_poll sc s abs)))).
Proof.
  intros s abs W IE H C. unfold epoll_poll.
  pose proof (J_inner_res s _ _ (ws_j _ W) (flush_pending_res (S (length (notify s))) s (j_fd _ _ (ws_j _ W)) IE)) as P.
  pose proof (flush_pending_AS (S (length (notify s))) s) as AS1.
  pose proof (flush_pending_ext (S (length (notify s))) s) as T1. unfold RExt in T1.
  destruct (epoll_flush_pending (S (length (notify s))) s) as [s1|s1] eqn:FL; cbn [fst res_state] in *; [|apply (Clean5_ca _ _ T1 C)].
  destruct P as (J1 & F1 & E1); [intros s1' (X0 & Y0 & _); split; [apply Inner_W; exact X0|exact Y0]|].
  cbn [ARes] in AS1.
  assert (W1 : WS s1).
  { destruct E1 as (X0 & _). apply (WS_step s s1 W J1).
    - apply AS_AW. exact AS1.
    - apply XF_Same. apply (in_same _ _ X0).
    - eapply TrExt_weaken; [exact ca_lp|exact T1].
    - apply (sm_quit _ _ (in_same _ _ X0)). }
  pose proof (Clean5_ca _ _ T1 C) as C1.
  set (maxev := if method s =? M_ET then numfds s + 1 else if numfds s =? 0 then 1 else numfds s) in *.
  assert (H1 : tasks s1 <> [] -> abs = Some 0 \/ (abs = None /\ Due s1 maxev)).
  { rewrite (as_tasks _ _ AS1). intros T. destruct (H T) as [E|[E D]]; [left; exact E|right; split; [exact E|apply D; [reflexivity|exact W1]]]. }
  pose proof (epoll_wait_m_CE s1 abs maxev W1 H1 C1) as C2.
  destruct (epoll_wait_m sc s1 abs maxev) as [s2 evs|s2|r]; cbn [wres_state fst res_state] in *.
  - pose proof (epoll_process_trace evs (invalidate_now s2) false false) as T4.
    destruct (epoll_process (invalidate_now s2) evs false false) as [[s4 run_events] tmr]. cbn [fst] in *.
    assert (C4 : Clean S5 (mst s4)) by (rewrite (mst_trace (invalidate_now s2) s4 T4); exact C2).
    assert (C5 : Clean S5 (mst (res_state (if tmr then match k_read (kern s4) (tfd s4) 8 with
                                     | (k1, inl _) => R (set_kern s4 k1)
                                     | (k1, inr _) => halt (set_kern s4 k1) TFatal
                                     end else R s4)))).
    { destruct tmr; [|exact C4]. destruct (k_read (kern s4) (tfd s4) 8) as [k1 [x|e]]; cbn [res_state halt]; [exact C4|].
      apply Clean_emit. apply Clean_step; [apply q5_quiet; exact Logic.I|exact C4]. }
    destruct (if tmr then _ else R s4) as [s5|s5]; cbn [bind res_state] in *; [|exact C5].
    destruct run_events; [|exact C5]. apply (Clean5_ch s5); [apply run_pending_events_exth|exact C5].
  - exact C2.
  - exact C2.
Qed.

Lemma poll_poll_CE : forall s abs, WS s -> (tasks s <> [] -> abs = Some 0) ->
  Clean S5 (mst s) -> Clean S5 (mst (res_state (fst (poll_poll sc s abs)))).
Proof.
  intros s abs W H C. unfold poll_poll.
  assert (TKS : forall s0, WS s0 -> forall s1, wait_enter sc s0 = R s1 -> tasks s1 = tasks s0).
  { intros s0 W0 s1 E. pose proof (wait_enter_WS s0 W0) as P. rewrite E in P. apply P. }
  assert (V : forall s0, WS s0 -> tasks s0 = tasks s -> Clean S5 (mst s0) ->
    Clean S5 (mst (res_state (fst (let '(s1, ms) := to_msec s0 abs in do_poll_wait sc s1 2 (if ms <? 0 then -1 else ms * 1000000)))))).
  { intros s0 W0 T0 C0. pose proof (WS_time s0 W0) as [TM CK].
    destruct (to_msec s0 abs) as [s3 ms] eqn:TM3.
    assert (W3 : WS s3).
    { replace s3 with (fst (to_msec s0 abs)) by (rewrite TM3; reflexivity). unfold to_msec.
      destruct abs as [a|]; cbn [to_relative fst]; [apply WS_validate|]; exact W0. }
    assert (C3 : Clean S5 (mst s3)).
    { replace s3 with (fst (to_msec s0 abs)) by (rewrite TM3; reflexivity). rewrite (mst_trace s0 _ (to_msec_trace s0 abs)). exact C0. }
    assert (T3 : tasks s3 = tasks s).
    { replace s3 with (fst (to_msec s0 abs)) by (rewrite TM3; reflexivity). rewrite (aw_tasks _ _ (to_msec_AW s0 abs)). exact T0. }
    apply do_poll_wait_CE; [exact W3| |exact C3].
    intros s4 E4 T4. rewrite (TKS s3 W3 s4 E4), T3 in T4. rewrite (H T4) in TM3.
    pose proof (to_msec_zero s0 TM CK) as MZ. rewrite TM3 in MZ. cbn [snd] in MZ. subst ms. apply nosleep_p_eq0. reflexivity. }
  destruct (Z.eqb_spec (method s) M_PP) as [MP|MP]; [|apply V; [exact W|reflexivity|exact C]].
  assert (WM : forall s0, WS s0 -> method s0 = M_PP -> WS (set_method (invalidate_now s0) M_PO)).
  { intros s0 W0 M0. destruct (J_invalidate true s0 (ws_j _ W0)) as (J2 & _ & _ & Q2).
    assert (IE2 : is_epoll (invalidate_now s0) = false).
    { unfold is_epoll. change (method (invalidate_now s0)) with (method s0). rewrite M0. reflexivity. }
    pose proof (J_set_method_poll true (invalidate_now s0) M_PO J2 IE2 eq_refl) as J3.
    apply (WS_step s0 _ W0 J3).
    - constructor; reflexivity.
    - eapply XF_trans; [apply XF_invalidate|apply XF_plain; try reflexivity; lia].
    - apply TrExt_same. reflexivity.
    - reflexivity. }
  destruct abs as [a|].
  - cbn [to_relative]. pose proof (WS_validate s W) as W1. set (s1 := validate_now s) in *.
    assert (T1 : tasks s1 = tasks s) by (apply (aw_tasks _ _ (AW_validate s))).
    assert (C1 : Clean S5 (mst s1)) by (rewrite (mst_trace s s1 (validate_trace s)); exact C).
    assert (M1 : method s1 = M_PP) by (unfold s1; rewrite method_validate; exact MP).
    destruct (no_ppoll _).
    + apply V; [apply WM; assumption|exact T1|exact C1].
    + apply do_poll_wait_CE; [exact W1| |exact C1].
      intros s4 E4 T4. rewrite (TKS s1 W1 s4 E4), T1 in T4. specialize (H T4). injection H as ->.
      pose proof (WS_time s W) as [TM CK]. pose proof (to_relative_zero s TM CK) as RZ. cbn [to_relative snd] in RZ.
      fold s1 in RZ. injection RZ as RZ'. apply nosleep_p_eq0. exact RZ'.
  - cbn [to_relative]. destruct (no_ppoll _).
    + apply V; [apply WM; assumption|reflexivity|exact C].
    + apply do_poll_wait_CE; [exact W| |exact C].
      intros s4 E4 T4. rewrite (TKS s W s4 E4) in T4. specialize (H T4). discriminate H.
Qed.

Lemma tfd_settime_ext5 : forall s d, TrExt q5 s (tfd_settime s d).
Proof. intros. unfold tfd_settime. eapply TrExt_l; [|apply TrExt_emit; exact Logic.I]. reflexivity. Qed.

Lemma set_poll_timeout_ext5 : forall s a, RExt q5 s (fst (set_poll_timeout s a)).
Proof.
  intros s a. unfold set_poll_timeout.
  destruct (tfd s =? -1).
  - destruct (k_timerfd_create (kern s)) as [k1 [fd|e]].
    + cbv zeta. destruct (ctl_retry _ _ _ _ _) as [s1 e] eqn:C. apply ctl_retry_trace in C.
      destruct e; cbn [fst].
      * eapply RExt_l with (s := s1); [exact C|]. apply RExt_halt. exact Logic.I.
      * eapply TrExt_l with (s := s1); [exact C|]. apply tfd_settime_ext5.
    + cbn [fst]. apply TrExt_same. reflexivity.
  - cbn [fst]. apply tfd_settime_ext5.
Qed.

Lemma timeout_check_ext5 : forall s abs, RExt q5 s (fst (timeout_check s abs)).
Proof.
  intros s abs. unfold timeout_check. cbv zeta.
  destruct (_ && _); [apply TrExt_refl|].
  set (s1 := if last_abs_count s =? 5 then tfd_settime s 0 else s).
  assert (Q1 : TrExt q5 s s1) by (unfold s1; destruct (last_abs_count s =? 5); [apply tfd_settime_ext5|apply TrExt_refl]).
  destruct (abs_cmp abs (last_abs s) =? 0).
  - set (s2 := if last_abs_count s1 <? 5 then _ else s1).
    assert (T2 : trace s2 = trace s1) by (unfold s2; destruct (last_abs_count s1 <? 5); reflexivity).
    destruct (last_abs_count s2 =? 5); [|cbn [fst]; eapply TrExt_trans; [exact Q1|apply TrExt_same; exact T2]].
    destruct abs as [a|]; [|cbn [fst]; eapply TrExt_trans; [exact Q1|apply TrExt_same; exact T2]].
    eapply RExt_tr; [exact Q1|]. eapply RExt_l with (s := s2); [exact T2|]. apply set_poll_timeout_ext5.
  - destruct abs as [a|]; cbn [fst]; (eapply TrExt_trans; [exact Q1|apply TrExt_same; reflexivity]).
Qed.


Lemma set_poll_timeout_method : forall s a s0, set_poll_timeout s a = (R s0, true) -> method s0 = method s.
Proof.
  intros s a s0. unfold set_poll_timeout.
  destruct (tfd s =? -1).
  - destruct (k_timerfd_create (kern s)) as [k1 [fd|e]].
    + cbv zeta. destruct (ctl_retry _ _ _ _ _) as [s1 e] eqn:C. apply ctl_retry_AS in C.
      destruct e; [discriminate|]. intros E. inversion E; subst. cbn [method tfd_settime emit set_trace set_kern]. rewrite (as_method _ _ C). reflexivity.
    + discriminate.
  - intros E. inversion E; subst. reflexivity.
Qed.

Lemma timeout_check_true : forall s abs s0, timeout_check s abs = (R s0, true) ->
  method s0 = method s /\ last_abs_count s0 = 5 /\ 0 <= abs_cmp abs (last_abs s0).
Proof.
  intros s abs s0. unfold timeout_check. cbv zeta.
  destruct ((last_abs_count s =? 5) && (0 <=? abs_cmp abs (last_abs s))) eqn:G.
  { intros E. inversion E; subst. apply andb_true_iff in G. destruct G as [G1 G2].
    apply Z.eqb_eq in G1. apply Z.leb_le in G2. auto. }
  set (s1 := if last_abs_count s =? 5 then tfd_settime s 0 else s).
  assert (M1 : method s1 = method s /\ last_abs s1 = last_abs s /\ last_abs_count s1 = last_abs_count s)
    by (unfold s1; destruct (last_abs_count s =? 5); repeat split).
  destruct M1 as (M1 & L1 & LC1).
  destruct (Z.eqb_spec (abs_cmp abs (last_abs s)) 0) as [CZ|CN].
  - set (s2 := if last_abs_count s1 <? 5 then _ else s1).
    assert (M2 : method s2 = method s /\ last_abs s2 = last_abs s) by (unfold s2; destruct (last_abs_count s1 <? 5); split; assumption).
    destruct (Z.eqb_spec (last_abs_count s2) 5) as [C5|C5]; [|intros E; inversion E].
    destruct abs as [a|]; [|intros E; inversion E].
    intros E. pose proof (set_poll_timeout_method s2 a s0 E) as MM.
    assert (LL : last_abs s0 = last_abs s2 /\ last_abs_count s0 = last_abs_count s2).
    { revert E. unfold set_poll_timeout. destruct (tfd s2 =? -1).
      - destruct (k_timerfd_create (kern s2)) as [k1 [fd|e]]; [|discriminate].
        cbv zeta. destruct (ctl_retry _ _ _ _ _) as [s3 e] eqn:CT. destruct e; [discriminate|].
        intros E. inversion E; subst. unfold ctl_retry in CT.
        destruct (k_epoll_ctl _ _ _ _ _) as [k2 r2]. destruct r2 as [e2|]; [destruct e2|]; try (inversion CT; subst; split; reflexivity).
        destruct (k_epoll_ctl k2 _ _ _ _) as [k3 r3]. inversion CT; subst. split; reflexivity.
      - intros E. inversion E; subst. split; reflexivity. }
    destruct LL as [LA LB], M2 as [M2 L2]. split; [congruence|split; [congruence|]]. rewrite LA, L2, CZ. lia.
  - destruct abs as [a|]; intros E; inversion E.
Qed.

Lemma timeout_check_epoll : forall s abs s0 fl, timeout_check s abs = (R s0, fl) -> method s = M_ET -> is_epoll s0 = true.
Proof.
  intros s abs s0 fl E ME. pose proof (timeout_check_AW s abs) as A. rewrite E in A. cbn [fst ARes] in A.
  revert E. unfold timeout_check. cbv zeta.
  destruct (_ && _); [intros E; inversion E; subst; unfold is_epoll; rewrite ME; reflexivity|].
  set (s1 := if last_abs_count s =? 5 then tfd_settime s 0 else s).
  assert (M1 : method s1 = M_ET) by (unfold s1; destruct (last_abs_count s =? 5); exact ME).
  destruct (abs_cmp abs (last_abs s) =? 0).
  - set (s2 := if last_abs_count s1 <? 5 then _ else s1).
    assert (M2 : method s2 = M_ET) by (unfold s2; destruct (last_abs_count s1 <? 5); exact M1).
    destruct (last_abs_count s2 =? 5); [|intros E; inversion E; subst; unfold is_epoll; rewrite M2; reflexivity].
    destruct abs as [a|]; [|intros E; inversion E; subst; unfold is_epoll; rewrite M2; reflexivity].
    unfold set_poll_timeout. destruct (tfd s2 =? -1).
    + destruct (k_timerfd_create (kern s2)) as [k1 [fd|e]].
      * cbv zeta. destruct (ctl_retry _ _ _ _ _) as [s3 e] eqn:CT. apply ctl_retry_AS in CT.
        destruct e; intros E; inversion E; subst. unfold is_epoll. cbn [method tfd_settime emit set_trace set_kern].
        rewrite (as_method _ _ CT). cbn [method set_epoll set_kern]. rewrite M2. reflexivity.
      * intros E. inversion E; subst. reflexivity.
    + intros E. inversion E; subst. unfold is_epoll. cbn [method tfd_settime emit set_trace set_kern]. rewrite M2. reflexivity.
  - destruct abs as [a|]; intros E; inversion E; subst; unfold is_epoll; cbn [method set_last_abs]; rewrite M1; reflexivity.
Qed.

Lemma m_poll_CE : forall s abs, WS s ->
  (tasks s <> [] -> abs = Some 0 \/
     (is_epoll s = true /\ abs = None /\ forall s1, epoll_flush_pending (S (length (notify s))) s = R s1 -> WS s1 ->
                     Due s1 (if method s =? M_ET then numfds s + 1 else if numfds s =? 0 then 1 else numfds s))) ->
  Clean S5 (mst s) -> Clean S5 (mst (res_state (fst (m_poll sc s abs)))).
Proof.
  intros s abs W H C. unfold m_poll. destruct (is_epoll s) eqn:IE.
  - apply epoll_poll_CE; [exact W|exact IE| |exact C].
    intros T. destruct (H T) as [E|(_ & E & D)]; [left; exact E|right; split; assumption].
  - apply poll_poll_CE; [exact W| |exact C].
    intros T. destruct (H T) as [E|(E & _)]; [exact E|discriminate E].
Qed.

(* iv_fd_poll_and_run; HK is what the kernel-timer invariant provides *)
Lemma poll_and_run_CE : forall s abs, WS s -> (tasks s <> [] -> abs = Some 0) ->
  (method s = M_ET -> tasks s <> [] -> forall s0, timeout_check s abs = (R s0, true) -> WS s0 ->
     forall s1, epoll_flush_pending (S (length (notify s0))) s0 = R s1 -> WS s1 -> Due s1 (numfds s0 + 1)) ->
  Clean S5 (mst s) -> Clean S5 (mst (res_state (fst (poll_and_run sc s abs)))).
Proof.
  intros s abs W TA HK C. unfold poll_and_run.
  assert (G : Clean S5 (mst (res_state (fst (if method s =? M_ET
      then match timeout_check s abs with
           | (Halt s0, _) => (Halt s0, true)
           | (R s0, true) => let '(r, rt) := m_poll sc s0 None in
                             (bind r (fun s1 => R (if rt then set_last_abs s1 (last_abs s1) 0 else s1)), rt)
           | (R s0, false) => m_poll sc s0 abs
           end
      else m_poll sc s abs))))).
  { destruct (Z.eqb_spec (method s) M_ET) as [ME|NE].
    2:{ apply m_poll_CE; [exact W| |exact C]. intros T. left. apply TA. exact T. }
    pose proof (timeout_check_post s abs (ws_j _ W) ME) as P.
    pose proof (timeout_check_AW s abs) as AWt. pose proof (timeout_check_XF s abs) as XFt.
    pose proof (timeout_check_ext s abs) as Tt. pose proof (timeout_check_ext5 s abs) as T5. unfold RExt in Tt, T5.
    destruct (timeout_check s abs) as [[s0|s0] fl] eqn:TC; cbn [fst PostQ ARes res_state] in *; [|apply (Clean5_q5 _ _ T5 C)].
    destruct P as (J0 & F0 & Q0).
    assert (W0 : WS s0) by (apply (WS_step s s0 W J0 AWt XFt Tt Q0)).
    pose proof (Clean5_q5 _ _ T5 C) as C0.
    assert (T0 : tasks s0 = tasks s) by (apply (aw_tasks _ _ AWt)).
    pose proof (timeout_check_epoll s abs s0 fl TC ME) as IE0.
    destruct fl.
    - destruct (timeout_check_true s abs s0 TC) as (M0 & _ & _).
      pose proof (m_poll_CE s0 None W0) as Q.
      destruct (m_poll sc s0 None) as [r rt]. cbn [fst] in *.
      assert (CR : Clean S5 (mst (res_state r))).
      { apply Q; [|exact C0]. rewrite T0. intros T. right. split; [exact IE0|split; [reflexivity|]].
        intros s1 FL W1. rewrite M0, ME. cbn. apply (HK ME T s0 eq_refl W0 s1 FL W1). }
      destruct r as [s1|s1]; cbn [bind res_state] in *; [|exact CR]. destruct rt; exact CR.
    - apply m_poll_CE; [exact W0| |exact C0]. rewrite T0. intros T. left. apply TA. exact T. }
  destruct (if method s =? M_ET then _ else m_poll sc s abs) as [r rt]. cbn [fst] in *.
  destruct r as [s1|s1]; cbn [bind res_state] in *; [|exact G].
  apply (Clean5_ch s1); [apply dispatch_active_exth|exact G].
Qed.

End Wait.
