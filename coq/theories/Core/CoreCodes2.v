(* CoreCodes2.v -- corollaries of the per-code phase-2 lemmas (CorePhase2Acct*.v, CorePhase2K1*.v) in the
   `no_code` form used by the Props files. *)
From Coq Require Import List ZArith Bool.
From Ivv Require Import Core.Kernel Core.CoreTypes Core.CoreFd Core.CoreModel Core.Monitors Core.CoreSpec
  Core.CoreRel Core.CoreCodes Core.CorePhase2Acct.
Import ListNotations.
Local Open Scope Z_scope.

Lemma no_code_cons c cs tr : ~ In c tr -> no_code cs tr -> no_code (c :: cs) tr.
Proof. intros H1 H2 x Hx [E|Hc]; [subst x; exact (H1 Hx) | exact (H2 x Hx Hc)]. Qed.

Lemma no_code_nil tr : no_code [] tr.
Proof. intros x _ []. Qed.

(* iv_main returns with nothing registered unless quit (701/702), never sleeps or hangs with nothing registered (705),
   balanced accounting at tear-down (706), a due timer / pending task forbids a blocking wait (708/710) *)
Lemma codes_acct sc : wf_scenario sc -> no_code [701; 702; 705; 706; 708; 710] (mon_fails (run_scenario sc)).
Proof.
  intros Hwf.
  apply no_code_cons; [exact (core_code_701 sc Hwf)|].
  apply no_code_cons; [exact (core_code_702 sc Hwf)|].
  apply no_code_cons; [exact (core_code_705 sc Hwf)|].
  apply no_code_cons; [exact (core_code_706 sc Hwf)|].
  apply no_code_cons; [exact (core_code_708 sc Hwf)|].
  apply no_code_cons; [exact (core_code_710 sc Hwf)|].
  apply no_code_nil.
Qed.

(* no out-of-model access (1801) and no library abort (1804) on any trace; accounting balance (706) *)
Lemma codes_hygiene sc : wf_scenario sc -> no_code [1801; 1804; 706] (mon_fails (run_scenario sc)).
Proof.
  intros Hwf.
  apply no_code_cons; [exact (core_code_1801 sc Hwf)|].
  apply no_code_cons; [exact (core_code_1804 sc Hwf)|].
  apply no_code_cons; [exact (core_code_706 sc Hwf)|].
  apply no_code_nil.
Qed.
