(* CoreCodes2.v -- corollaries of the per-code phase-2 lemmas (CorePhase2Acct*.v, CorePhase2K1*.v) in the
   `no_code` form used by the Props files. *)
From Coq Require Import List ZArith Bool.
From Ivv Require Import Core.Kernel Core.CoreTypes Core.CoreFd Core.CoreModel Core.Monitors Core.CoreSpec
  Core.CoreRel Core.CoreCodes Core.CorePhase2AcctMon Core.CorePhase2AcctEnd Core.CorePhase2AcctK Core.CorePhase2AcctCrash
  Core.CorePhase2AcctOwnTop Core.CorePhase2AcctNcTop.
Import ListNotations.
Local Open Scope Z_scope.

Lemma no_code_cons c cs tr : ~ In c tr -> no_code cs tr -> no_code (c :: cs) tr.
Proof. intros H1 H2 x Hx [E|Hc]; [subst x; exact (H1 Hx) | exact (H2 x Hx Hc)]. Qed.

Lemma no_code_nil tr : no_code [] tr.
Proof. intros x _ []. Qed.

(* iv_main returns with nothing registered unless quit (701/702), never sleeps or hangs with nothing registered (705),
   balanced accounting at tear-down (706), a wait that reports a user descriptor is followed by a callback (707), a due timer / pending task forbids a blocking
   wait (708/710) *)
Lemma codes_acct sc : wf_scenario sc -> no_code [701; 702; 705; 706; 707; 708; 710] (mon_fails (run_scenario sc)).
Proof.
  intros Hwf.
  apply no_code_cons; [exact (core_code_701 sc Hwf)|].
  apply no_code_cons; [exact (core_code_702 sc Hwf)|].
  apply no_code_cons; [exact (core_code_705 sc Hwf)|].
  apply no_code_cons; [exact (core_code_706 sc Hwf)|].
  apply no_code_cons; [exact (core_code_707 sc Hwf)|].
  apply no_code_cons; [exact (core_code_708 sc Hwf)|].
  apply no_code_cons; [exact (core_code_710 sc Hwf)|].
  apply no_code_nil.
Qed.

(* no out-of-model access (1801) and no library abort (1804) on any trace; accounting balance (706) *)
Lemma codes_hygiene sc : wf_scenario sc -> no_code [1801; 1804; 706] (mon_fails (run_scenario sc)).
Proof.
  intros Hwf.
  apply no_code_cons; [exact (core_code_1801 sc Hwf)|].
  apply no_code_cons; [exact (core_code_1804 sc Hwf)|].
  apply no_code_cons; [exact (core_code_706 sc Hwf)|].
  apply no_code_nil.
Qed.

(* ---------- C18 in full: 1801, 1802, 1804 are the only codes of the 18xx range; none occurs; nor does 706 ---------- *)
Lemma ev_codes_18 : forall e c, In c (ev_codes e) -> in_range 1800 1900 c = true -> c = 1801 \/ c = 1802 \/ c = 1804.
Proof.
  intros e c H R. destruct e; try (destruct n); cbn [ev_codes In] in H;
    repeat (destruct H as [<-|H]; [try (vm_compute in R; discriminate R); tauto|]); contradiction.
Qed.

Theorem core_mon_C18 : forall sc, wf_scenario sc ->
  mon_C18 (run_scenario sc) = true /\ no_code [706] (mon_fails (run_scenario sc)).
Proof.
  intros sc WF. split.
  - unfold mon_C18, none_in. apply negb_true_iff.
    destruct (existsb (in_range 1800 1900) (mon_fails (run_scenario sc))) eqn:E; [|reflexivity].
    apply existsb_exists in E. destruct E as (c & H & R). exfalso.
    destruct (fails_origin _ c H) as (e & _ & C).
    destruct (ev_codes_18 e c C R) as [ -> | [ -> | -> ] ];
      [exact (core_code_1801 sc WF H)|exact (core_code_1802 sc WF H)|exact (core_code_1804 sc WF H)].
  - intros c H [<-|[]]. exact (core_code_706 sc WF H).
Qed.
