(* CorePhase2FdBase.v -- list / virtual-kernel facts used by the descriptor clauses
   of the trace monitors (codes 201-204, 303, 304, 1104): strictly sorted lists,
   the interest log, ep_scan, ground truth vs k_cond, bit arithmetic of bands. *)
From Coq Require Import List ZArith Bool Lia.
From Ivv Require Import Core.Kernel Core.CoreTypes Core.CoreFd Core.CoreModel Core.Monitors Core.CoreRelBase.
Import ListNotations.
Local Open Scope Z_scope.

(* ---------- strictly sorted lists of interest triples ---------- *)
Definition tkey (x : Z * Z * bool) : Z := fst (fst x).

Fixpoint ssorted (l : list (Z * Z * bool)) : Prop :=
  match l with
  | [] => True
  | x :: l' => (forall y, In y l' -> tkey x < tkey y) /\ ssorted l'
  end.

Lemma ssorted_ext : forall a b, ssorted a -> ssorted b -> (forall x, In x a <-> In x b) -> a = b.
Proof.
  induction a as [|x a IH]; intros b SA SB E.
  - destruct b as [|y b]; [reflexivity|]. exfalso. apply (proj2 (E y)). left; reflexivity.
  - destruct b as [|y b]; [exfalso; apply (proj1 (E x)); left; reflexivity|].
    cbn [ssorted] in SA, SB. destruct SA as [A1 A2], SB as [B1 B2].
    assert (XY : x = y).
    { destruct (proj1 (E x) (or_introl eq_refl)) as [H|H]; [congruence|].
      destruct (proj2 (E y) (or_introl eq_refl)) as [K|K]; [congruence|].
      pose proof (A1 y K). pose proof (B1 x H). lia. }
    subst y. f_equal. apply IH; [assumption|assumption|].
    intros z. split; intros H.
    + destruct (proj1 (E z) (or_intror H)) as [K|K]; [|assumption].
      subst z. pose proof (A1 x H). lia.
    + destruct (proj2 (E z) (or_intror H)) as [K|K]; [|assumption].
      subst z. pose proof (B1 x H). lia.
Qed.

Lemma ssorted_filter : forall f l, ssorted l -> ssorted (filter f l).
Proof.
  intros f l. induction l as [|x l IH]; intros S; cbn [filter]; [exact I|].
  destruct S as [S1 S2]. destruct (f x); [|auto].
  split; [|auto]. intros y H. apply filter_In in H. apply S1. tauto.
Qed.

(* entries strictly sorted by descriptor *)
Fixpoint essorted (l : list epent) : Prop :=
  match l with
  | [] => True
  | x :: l' => (forall y, In y l' -> en_fd x < en_fd y) /\ essorted l'
  end.

Lemma ins_ent_essorted : forall e l, essorted l -> ~ In (en_fd e) (map en_fd l) -> essorted (ins_ent e l).
Proof.
  intros e l. induction l as [|x l IH]; intros S N; cbn [ins_ent].
  - split; [intros y []|exact I].
  - destruct S as [S1 S2]. destruct (Z.ltb_spec (en_fd e) (en_fd x)) as [L|G].
    + split; [|split; assumption]. intros y [H|H]; [subst; assumption|]. pose proof (S1 y H). lia.
    + assert (NE : en_fd e <> en_fd x) by (intro Q; apply N; left; symmetry; assumption).
      split.
      * intros y H. apply In_ins_ent in H. destruct H as [H|H]; [subst; lia|auto].
      * apply IH; [assumption|]. intro Q. apply N. right. assumption.
Qed.

Lemma sort_ents_essorted : forall l, NoDup (map en_fd l) -> essorted (sort_ents l).
Proof.
  induction l as [|a l IH]; intros ND; cbn [sort_ents fold_right]; [exact I|].
  fold (sort_ents l). cbn [map] in ND. inversion ND as [|? ? NI ND']; subst.
  apply ins_ent_essorted; [apply IH; assumption|].
  intro H. apply in_map_iff in H. destruct H as (e & E & I0). apply (proj1 (In_sort_ents _ _)) in I0.
  apply NI. apply in_map_iff. exists e. split; assumption.
Qed.

Lemma essorted_map : forall (pr : epent -> Z * Z * bool) l,
  (forall e, tkey (pr e) = en_fd e) -> essorted l -> ssorted (map pr l).
Proof.
  intros pr l K. induction l as [|x l IH]; intros S; cbn [map]; [exact I|].
  destruct S as [S1 S2]. split; [|auto].
  intros y H. apply in_map_iff in H. destruct H as (e & E & I0). subst y. rewrite !K. auto.
Qed.

(* the tracker's expected list is strictly sorted *)
Lemma ssorted_expected : forall (P : Z -> bool) (ev : Z -> Z) n lo,
  ssorted (flat_map (fun i => if P i then [(100 + i, ev i, true)] else []) (zseq lo n)) /\
  (forall x, In x (flat_map (fun i => if P i then [(100 + i, ev i, true)] else []) (zseq lo n)) -> 100 + lo <= tkey x).
Proof.
  intros P ev. induction n as [|n IH]; intros lo; cbn [zseq flat_map].
  - split; [exact I|intros x []].
  - destruct (IH (lo + 1)) as [S B]. destruct (P lo); cbn [app].
    + split.
      * split; [|assumption]. intros y H. apply B in H. cbn [tkey fst]. lia.
      * intros x [H|H]; [subst; cbn [tkey fst]; lia|]. apply B in H. lia.
    + split; [assumption|]. intros x H. apply B in H. lia.
Qed.

Lemma list_eqb3_refl : forall a, list_eqb3 a a = true.
Proof.
  induction a as [|x a IH]; [reflexivity|]. cbn [list_eqb3]. rewrite IH.
  unfold triple_eqb. rewrite !Z.eqb_refl. destruct (snd x); reflexivity.
Qed.

(* the logged interest of the user descriptors equals the list the tracker expects *)
Lemma interest_eq : forall (l : list epent) (P : Z -> bool) (ev : Z -> Z),
  NoDup (map en_fd l) ->
  (forall e, In e l -> 100 <= en_fd e < 116 ->
             P (en_fd e - 100) = true /\ en_events e = ev (en_fd e - 100) /\ en_enabled e = true) ->
  (forall i, 0 <= i < 16 -> P i = true -> exists e, In e l /\ en_fd e = 100 + i) ->
  user_interest (map (fun e => (en_fd e, en_events e, en_enabled e)) (sort_ents l)) =
  flat_map (fun i => if P i then [(100 + i, ev i, true)] else []) objs.
Proof.
  intros l P ev ND A B. apply ssorted_ext.
  - unfold user_interest. apply ssorted_filter. apply essorted_map; [reflexivity|].
    apply sort_ents_essorted. assumption.
  - apply (ssorted_expected P ev 16 0).
  - intros x. unfold user_interest. rewrite filter_In, in_map_iff, in_flat_map. split.
    + intros ((e & E & I0) & R). subst x. cbn [fst] in R. apply (proj1 (In_sort_ents _ _)) in I0.
      apply andb_true_iff in R. destruct R as [R1 R2]. apply Z.leb_le in R1. apply Z.ltb_lt in R2.
      destruct (A e I0 (conj R1 R2)) as (A1 & A2 & A3).
      exists (en_fd e - 100). split; [apply In_zseq; lia|]. rewrite A1, A2, A3. left. f_equal. f_equal. lia.
    + intros (i & I0 & H). apply In_zseq in I0. destruct (P i) eqn:Pi; [|destruct H].
      destruct H as [H|[]]. subst x. destruct (B i ltac:(lia) Pi) as (e & I1 & F).
      assert (R : 100 <= en_fd e < 116) by lia.
      destruct (A e I1 R) as (A1 & A2 & A3). replace (en_fd e - 100) with i in * by lia.
      split.
      * exists e. split; [|apply In_sort_ents; assumption]. rewrite F, A2, A3. reflexivity.
      * cbn [fst]. apply andb_true_iff. split; [apply Z.leb_le|apply Z.ltb_lt]; lia.
Qed.

(* ---------- ep_scan ---------- *)
Lemma In_rotate_iff : forall (A : Type) n (l : list A) x, In x (rotate n l) <-> In x l.
Proof.
  intros A n l x. unfold rotate. rewrite in_app_iff.
  rewrite <- (firstn_skipn n l) at 3. rewrite in_app_iff. tauto.
Qed.

Lemma ep_scan_complete : forall k l m e, In e l -> ep_ready_bits k e <> 0 ->
  In (en_fd e, ep_ready_bits k e, en_data e) (ep_scan k l m) \/ length (ep_scan k l m) = m.
Proof.
  intros k l. induction l as [|a l IH]; intros m e I0 RB; [destruct I0|].
  destruct m as [|m]; [right; reflexivity|]. cbn [ep_scan].
  destruct (Z.eqb_spec (ep_ready_bits k a) 0) as [Z0|NZ].
  - destruct I0 as [->|I0]; [contradiction|]. apply IH; assumption.
  - destruct I0 as [->|I0]; [left; left; reflexivity|].
    destruct (IH m e I0 RB) as [H|H]; [left; right; assumption|right; cbn [length]; congruence].
Qed.

Lemma ep_scan_nonempty : forall k l m e, In e l -> ep_ready_bits k e <> 0 -> (0 < m)%nat -> ep_scan k l m <> [].
Proof.
  intros k l m e I0 RB M E. destruct (ep_scan_complete k l m e I0 RB) as [H|H]; rewrite E in H; [destruct H|].
  cbn in H. lia.
Qed.

Lemma ep_scan_length : forall k l m, (length (ep_scan k l m) <= m)%nat.
Proof.
  intros k l. induction l as [|a l IH]; intros m; [destruct m; cbn; lia|].
  destruct m as [|m]; [cbn; lia|]. cbn [ep_scan]. destruct (ep_ready_bits k a =? 0); [apply IH|].
  cbn [length]. pose proof (IH m). lia.
Qed.

(* ---------- ground truth ---------- *)
Lemma assoc_flat_zseq : forall (g : Z -> list (Z * Z)),
  (forall fd, g fd = [] \/ exists c, g fd = [(fd, c)]) ->
  forall n lo x, assoc (flat_map g (zseq lo n)) x =
    if (lo <=? x) && (x <? lo + Z.of_nat n) then match g x with [] => None | (_, c) :: _ => Some c end else None.
Proof.
  intros g G. induction n as [|n IH]; intros lo x; cbn [zseq flat_map].
  - cbn [assoc]. destruct (Z.leb_spec lo x), (Z.ltb_spec x (lo + Z.of_nat 0)); cbn [andb]; try reflexivity. lia.
  - rewrite Nat2Z.inj_succ.
    assert (T : assoc (g lo ++ flat_map g (zseq (lo + 1) n)) x =
                if x =? lo then match g x with [] => assoc (flat_map g (zseq (lo + 1) n)) x | (_, c) :: _ => Some c end
                else assoc (flat_map g (zseq (lo + 1) n)) x).
    { destruct (G lo) as [E|(c & E)]; rewrite E; cbn [app assoc].
      - destruct (Z.eqb_spec x lo) as [->|N]; [rewrite E|]; reflexivity.
      - destruct (Z.eqb_spec x lo) as [->|N]; [rewrite E|]; reflexivity. }
    rewrite T, IH. clear T.
    destruct (Z.eqb_spec x lo) as [->|N].
    + destruct (Z.leb_spec lo lo); [|lia]. destruct (Z.ltb_spec lo (lo + Z.succ (Z.of_nat n))); [|lia]. cbn [andb].
      destruct (g lo) as [|[a c] t]; [|reflexivity].
      destruct (Z.leb_spec (lo + 1) lo); [lia|]. reflexivity.
    + destruct (Z.leb_spec (lo + 1) x), (Z.ltb_spec x (lo + 1 + Z.of_nat n)), (Z.leb_spec lo x),
        (Z.ltb_spec x (lo + Z.succ (Z.of_nat n))); cbn [andb]; try reflexivity; lia.
Qed.

Definition ground_at (k : kernel) (fd : Z) : list (Z * Z) :=
  match k_open k fd with
  | Some v => if (vkind v =? K_SCRIPTED) && negb (vcond v =? 0) then [(fd, vcond v)] else []
  | None => []
  end.

Lemma ground_unfold : forall k, ground k = flat_map (ground_at k) (zseq 100 16).
Proof. reflexivity. Qed.

Lemma gnd_of_ground : forall k i, 0 <= i < 16 ->
  gnd_of (ground k) i = match ground_at k (100 + i) with [] => 0 | (_, c) :: _ => c end.
Proof.
  intros k i I0. unfold gnd_of. rewrite ground_unfold, (assoc_flat_zseq (ground_at k)).
  - destruct (Z.leb_spec 100 (100 + i)); [|lia]. destruct (Z.ltb_spec (100 + i) (100 + Z.of_nat 16)); [|lia].
    cbn [andb]. destruct (ground_at k (100 + i)) as [|[a c] t]; reflexivity.
  - intros fd. unfold ground_at. destruct (k_open k fd) as [v|]; [|left; reflexivity].
    destruct ((vkind v =? K_SCRIPTED) && negb (vcond v =? 0)); [right; eexists; reflexivity|left; reflexivity].
Qed.

(* an open scripted descriptor: the logged ground truth is the condition the kernel evaluates *)
Lemma gnd_cond : forall k i v, 0 <= i < 16 -> k_open k (100 + i) = Some v -> vkind v = K_SCRIPTED ->
  gnd_of (ground k) i = k_cond k (100 + i).
Proof.
  intros k i v I0 O K. rewrite gnd_of_ground by assumption. unfold ground_at. rewrite O, K.
  unfold k_cond. unfold k_open in O. destruct (k_get k (100 + i)) as [v0|]; [|discriminate].
  destruct (vclosed v0); [discriminate|]. inversion O; subst v0. rewrite K.
  change (K_SCRIPTED =? K_SCRIPTED) with true. cbn [andb].
  destruct (Z.eqb_spec (vcond v) 0) as [E|N]; cbn [negb]; [symmetry; assumption|reflexivity].
Qed.

(* ---------- bit arithmetic ---------- *)
Lemma has_lor : forall x y b, has (Z.lor x y) b = has x b || has y b.
Proof.
  intros x y b. unfold has. rewrite Z.land_lor_distr_l.
  destruct (Z.eqb_spec (Z.land x b) 0) as [A|A], (Z.eqb_spec (Z.land y b) 0) as [B|B]; cbn [negb orb].
  - rewrite A, B. reflexivity.
  - destruct (Z.eqb_spec (Z.lor (Z.land x b) (Z.land y b)) 0) as [C|C]; [|reflexivity].
    apply Z.lor_eq_0_iff in C. tauto.
  - destruct (Z.eqb_spec (Z.lor (Z.land x b) (Z.land y b)) 0) as [C|C]; [|reflexivity].
    apply Z.lor_eq_0_iff in C. tauto.
  - destruct (Z.eqb_spec (Z.lor (Z.land x b) (Z.land y b)) 0) as [C|C]; [|reflexivity].
    apply Z.lor_eq_0_iff in C. tauto.
Qed.

Definition bits4 (a b c d : bool) : Z :=
  (if a then B_IN else 0) + (if b then B_OUT else 0) + (if c then B_HUP else 0) + (if d then B_ERR else 0).

Lemma bits4_has : forall a b c d,
  has (bits4 a b c d) B_IN = a /\ has (bits4 a b c d) B_OUT = b /\ has (bits4 a b c d) B_HUP = c /\
  has (bits4 a b c d) B_ERR = d /\ (bits4 a b c d =? 0) = negb (a || b || c || d).
Proof. intros [|] [|] [|] [|]; repeat split; reflexivity. Qed.

Lemma epoll_mask_has : forall w,
  has (epoll_mask w) B_IN = has w M_IN /\ has (epoll_mask w) B_OUT = has w M_OUT /\
  has (epoll_mask w) E_ONESHOT = false.
Proof. intros w. unfold epoll_mask. destruct (has w M_IN), (has w M_OUT); repeat split; reflexivity. Qed.

Lemma poll_mask_has : forall w,
  has (poll_mask w) B_IN = has w M_IN /\ has (poll_mask w) B_OUT = has w M_OUT.
Proof. intros w. unfold poll_mask. destruct (has w M_IN), (has w M_OUT), (has w M_ERR); split; reflexivity. Qed.

Definition bands3 (a b c : bool) : Z :=
  (if a then M_IN else 0) + (if b then M_OUT else 0) + (if c then M_ERR else 0).

Lemma bands3_has : forall a b c,
  has (bands3 a b c) M_IN = a /\ has (bands3 a b c) M_OUT = b /\ has (bands3 a b c) M_ERR = c /\
  (bands3 a b c =? 0) = negb (a || b || c).
Proof. intros [|] [|] [|]; repeat split; reflexivity. Qed.

Definition is_some (o : option Z) : bool := match o with Some _ => true | None => false end.

(* the band bit of band number b (0 in, 1 out, 2 err) *)
Definition bbit (b : Z) : Z := if b =? 0 then M_IN else if b =? 1 then M_OUT else M_ERR.
Definition hnd (f : fdo) (b : Z) : option Z := if b =? 0 then h_in f else if b =? 1 then h_out f else h_err f.
