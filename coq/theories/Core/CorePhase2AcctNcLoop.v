(* CorePhase2AcctNcLoop.v -- code 707: the tracker invariant H7 through the callback dispatchers.
   A handler script only runs right after its callback event, which clears need_call, so the
   descriptor actions that shrink `expect` never meet a set need_call. *)
From Coq Require Import List ZArith Bool Lia.
From Ivv Require Import Core.Kernel Core.CoreTypes Core.CoreFd Core.CoreModel Core.CoreSpec Core.Monitors.
From Ivv Require Import Core.CoreRelBase Core.CorePhase2AcctTr Core.CorePhase2AcctTr2 Core.CorePhase2AcctMon Core.CorePhase2AcctNc.
Import ListNotations.
Local Open Scope Z_scope.

Definition H7s (s : core) : Prop := H7 (mst s).
Definition HNs (s : core) : Prop := HN (mst s).
Definition Hr (r : res) : Prop := H7s (res_state r).

Lemma HNs_H7s : forall s, HNs s -> H7s s. Proof. intros s [H _]. exact H. Qed.

Lemma H7s_trace : forall s s', trace s' = trace s -> H7s s -> H7s s'.
Proof. intros s s' E H. unfold H7s. rewrite (mst_trace s s' E). exact H. Qed.
Lemma HNs_trace : forall s s', trace s' = trace s -> HNs s -> HNs s'.
Proof. intros s s' E H. unfold HNs. rewrite (mst_trace s s' E). exact H. Qed.

Lemma HNs_ext : forall (P : tev -> Prop) s s', (forall e, P e -> nr e) -> TrExt P s s' -> HNs s -> HNs s'.
Proof.
  intros P s s' Q (l & E & F) C. unfold HNs in *. rewrite (mst_ext s s' l E).
  assert (F' : Forall P (rev l)) by (apply Forall_rev; exact F).
  clear E F. revert C. generalize (mst s). induction (rev l) as [|e r IH]; intros m C; cbn [fold_left]; [exact C|].
  inversion F' as [|? ? Pe Pr]; subst. apply IH; [exact Pr|]. apply HN_step; [exact C|apply Q; exact Pe].
Qed.

Lemma ch_nr : forall e, ch e -> nr e.
Proof. intros e. destruct e; cbn; tauto. Qed.
Lemma ca_nr : forall e, ca e -> nr e.
Proof. intros e. destruct e; cbn; tauto. Qed.

Lemma H7s_emit : forall s e, H7s s -> okev (mst s) e -> H7s (emit s e).
Proof. intros s e H O. unfold H7s. rewrite mst_emit. apply H7_step; assumption. Qed.

Lemma HNs_call : forall s e, H7s s -> is_call e -> HNs (emit s e).
Proof.
  intros s e H C. unfold HNs. rewrite mst_emit. split; [apply H7_step; [exact H|destruct e; try contradiction; exact I]|].
  apply nc_call. exact C.
Qed.

Lemma Hr_bind : forall r f, Hr r -> (forall s1, H7s s1 -> Hr (f s1)) -> Hr (bind r f).
Proof. intros [s1|s1] f H K; cbn [bind]; [apply K; exact H|exact H]. Qed.

Lemma Hr_halt : forall s e, H7s s -> okev (mst s) e -> Hr (halt s e).
Proof. intros s e H O. unfold Hr. cbn [halt res_state]. apply H7s_emit; assumption. Qed.

Section Loop.
Variable sc : scenario.

(* a callback event followed by its script *)
Lemma call_script_H : forall s e key, H7s s -> is_call e -> HNs (res_state (run_script sc (emit s e) key)).
Proof.
  intros s e key H C. apply (HNs_ext ch (emit s e)); [exact ch_nr|apply run_script_exth|apply HNs_call; assumption].
Qed.

Lemma events_loop_H : forall fuel s, H7s s -> Hr (events_loop sc fuel s).
Proof.
  induction fuel as [|f IH]; intros s H; cbn [events_loop]; destruct (ev_batch s) as [|ie rest] eqn:E;
    try exact H; [apply Hr_halt; [exact H|exact I]|].
  cbv zeta. set (s1 := set_evlists s (ev_pending s) rest).
  assert (H1 : H7s s1) by (apply (H7s_trace s); [reflexivity|exact H]).
  apply Hr_bind; [apply HNs_H7s; apply call_script_H; [exact H1|exact I]|].
  intros s2 H2. destruct rest; [exact H2|apply IH; exact H2].
Qed.

Lemma run_pending_events_H : forall s, H7s s -> Hr (run_pending_events sc s).
Proof.
  intros s H. unfold run_pending_events. destruct (ev_pending s) as [|p0 p]; [exact H|].
  apply events_loop_H. apply (H7s_trace s); [reflexivity|exact H].
Qed.

Lemma raw_got_event_H : forall s j, H7s s -> Hr (raw_got_event sc s j).
Proof.
  intros s j H. unfold raw_got_event. cbv zeta.
  destruct (k_read (kern s) (rw_rfd s j) _) as [k1 [n|e]].
  - assert (H1 : H7s (set_kern s k1)) by (apply (H7s_trace s); [reflexivity|exact H]).
    destruct (n =? 0); [apply Hr_halt; [exact H1|exact I]|].
    destruct (j =? KICK_RAW); [apply run_pending_events_H; exact H1|].
    apply HNs_H7s. apply call_script_H; [exact H1|exact I].
  - assert (H1 : H7s (set_kern s k1)) by (apply (H7s_trace s); [reflexivity|exact H]).
    destruct e; try (apply Hr_halt; [exact H1|exact I]). exact H1.
Qed.

Lemma call_fd_H : forall s k band h, H7s s -> Hr (call_fd sc s k band h).
Proof.
  intros s k band h H. unfold call_fd. destruct h as [hid|]; [|exact H].
  destruct (1000 <=? hid); [apply raw_got_event_H; exact H|].
  apply HNs_H7s. apply call_script_H; [exact H|exact I].
Qed.

Lemma dispatch_active_H : forall fuel s, H7s s -> Hr (dispatch_active sc fuel s).
Proof.
  induction fuel as [|f IH]; intros s H; cbn [dispatch_active]; destruct (active s) as [|k rest] eqn:E;
    try exact H; [apply Hr_halt; [exact H|exact I]|].
  cbv zeta. set (s1 := set_handled (set_active s rest) (Some k)).
  assert (H1 : H7s s1) by (apply (H7s_trace s); [reflexivity|exact H]).
  apply Hr_bind; [destruct (has _ M_ERR); [apply call_fd_H; exact H1|exact H1]|]. intros s2 H2.
  apply Hr_bind; [destruct (handled s2); [destruct (has _ M_IN); [apply call_fd_H; exact H2|exact H2]|exact H2]|]. intros s3 H3.
  apply Hr_bind; [destruct (handled s3); [destruct (has _ M_OUT); [apply call_fd_H; exact H3|exact H3]|exact H3]|]. intros s4 H4.
  apply IH. exact H4.
Qed.

End Loop.
