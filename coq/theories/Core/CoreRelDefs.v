(* CoreRelDefs.v -- the relation between a model state and the tracker state
   reconstructed from its trace (Agree / Rel), the small state invariants the
   relation needs (SI, FdI, FdX = "RelInv"), and their extensionality lemmas. *)
From Coq Require Import List ZArith Bool Lia.
From Ivv Require Import Core.Kernel Core.CoreTypes Core.CoreFd Core.CoreModel Core.Monitors
  Core.CoreRelBase Core.CoreRelMon.
From Ivv Require Timer.HeapModel Timer.HeapFacts.
Import ListNotations.
Local Open Scope Z_scope.

Definition inr16 (i : Z) : Prop := 0 <= i < 16.

(* ---------- tracker state vs model state ---------- *)
Record Agree (s : core) (m : mon) : Prop := {
  ag_fd : forall i, inr16 i -> a_fd m i = registered (fdt s i);
  ag_fh0 : forall i, inr16 i -> a_fh m i 0 = h_in (fdt s i);
  ag_fh1 : forall i, inr16 i -> a_fh m i 1 = h_out (fdt s i);
  ag_fh2 : forall i, inr16 i -> a_fh m i 2 = h_err (fdt s i);
  ag_ck : forall i, inr16 i -> a_ck m i = cookie (fdt s i);
  ag_tm : forall j, inr16 j -> a_tm m j = timer_registered s j;
  ag_exp : forall j, inr16 j -> timer_registered s j = true -> a_exp m j = HeapModel.texp (heap s) (tmid j);
  ag_tk : forall k, inr16 k -> a_tk m k = task_registered s k;
  ag_ev : forall j, inr16 j -> a_ev m j = ev_reg s j;
  ag_evp : forall j, inr16 j -> ev_on_list s j = true -> a_evp m j = true;
  ag_rw : forall j, inr16 j -> a_rw m j = rw_reg s j;
  ag_quit : a_quit m = quit s;
  ag_clk : a_clk m = clock (kern s) }.

Definition Rel (s : core) : Prop := Agree s (mst s).

(* ---------- state invariants (the part of the global invariant the relation needs) ---------- *)
Definition curl (s : core) : list Z := match cur s with Some c => c | None => [] end.

Record SI (s : core) : Prop := {
  si_heap : HeapFacts.Inv (heap s);
  si_tmr : forall t, HeapModel.tidx (heap s) t <> -1 -> Zpos t <= 16;
  si_time : time_valid s = true -> time s <= clock (kern s);
  si_tk : forall k, In k (tasks s ++ curl s) -> 0 <= k <= 16;
  si_tknd : NoDup (tasks s ++ curl s);
  si_ev : forall j, In j (ev_pending s ++ ev_batch s) -> inr16 j /\ ev_reg s j = true;
  si_evnd : NoDup (ev_pending s ++ ev_batch s) }.

(* descriptor layer; x is a key that is allowed to be referenced although unregistered
   (the descriptor being unregistered); x = -1: none *)
Definition okk (s : core) (x k : Z) : Prop := 0 <= k <= 32 /\ (k <> x -> registered (fdt s k) = true).

Definition ent_ok (s : core) (x : Z) (e : epent) : Prop :=
  en_data e = -1 \/
  (en_data e = -2 /\ method s = M_ET /\ no_timerfd (flt (kern s)) = false) \/
  (okk s x (en_data e) /\ en_fd e = fdnum (fdt s (en_data e)) /\ regb (fdt s (en_data e)) <> 0).

Record FdI (s : core) (x : Z) : Prop := {
  fi_active : forall k, In k (active s) -> okk s x k;
  fi_handled : forall k, handled s = Some k -> okk s x k;
  fi_notify : forall k, In k (notify s) -> okk s x k;
  fi_nopoll : is_epoll s = false -> notify s = [] /\ ep (kern s) = [];
  fi_noepoll : is_epoll s = true -> pkeys s = [];
  fi_ep : forall e, In e (ep (kern s)) -> ent_ok s x e;
  fi_len : length (pfds s) = length (pkeys s);
  fi_pkeys : forall n k, nth_error (pkeys s) n = Some k -> okk s x k /\ pidx (fdt s k) = Z.of_nat n }.

Definition cnt (f : Z -> bool) : Z := Z.of_nat (length (filter f (zseq 0 16))).

Definition hand_ok (f : fdo) (P : Z -> Prop) : Prop :=
  (forall h, h_in f = Some h -> P h) /\ (forall h, h_out f = Some h -> P h) /\ (forall h, h_err f = Some h -> P h).

Record FdX (s : core) : Prop := {
  fx_raw : forall j, 0 <= j <= 16 -> registered (fdt s (16 + j)) = true -> rw_reg s j = true;
  fx_rawh : forall k, 16 <= k <= 32 -> hand_ok (fdt s k) (fun h => h = 1000 + (k - 16));
  fx_userh : forall k, 0 <= k < 16 -> hand_ok (fdt s k) (fun h => 0 <= h < 16);
  fx_kick : rw_reg s 16 = true -> use_raw s = true /\ ev_count s <> 0;
  fx_cnt : ev_count s = cnt (ev_reg s) }.

(* ---------- frames ---------- *)
(* everything outside the descriptor layer is unchanged *)
Record Same (s s' : core) : Prop := {
  sm_heap : heap s' = heap s;
  sm_time : time s' = time s;
  sm_tv : time_valid s' = time_valid s;
  sm_tasks : tasks s' = tasks s;
  sm_cur : cur s' = cur s;
  sm_evp : ev_pending s' = ev_pending s;
  sm_evb : ev_batch s' = ev_batch s;
  sm_evc : ev_count s' = ev_count s;
  sm_evr : ev_reg s' = ev_reg s;
  sm_ur : use_raw s' = use_raw s;
  sm_rw : rw_reg s' = rw_reg s;
  sm_quit : quit s' = quit s;
  sm_method : method s' = method s;
  sm_clock : clock (kern s') = clock (kern s);
  sm_flt : flt (kern s') = flt (kern s);
  sm_mst : mst s' = mst s }.

Lemma Same_refl : forall s, Same s s.
Proof. intros; constructor; reflexivity. Qed.

Lemma Same_trans : forall a b c, Same a b -> Same b c -> Same a c.
Proof. intros a b c [] []. constructor; congruence. Qed.

(* user-visible part of a descriptor object *)
Definition hsame (f' f : fdo) : Prop :=
  fdnum f' = fdnum f /\ h_in f' = h_in f /\ h_out f' = h_out f /\ h_err f' = h_err f /\ cookie f' = cookie f.
(* ... and registration *)
Definition fkeep (f' f : fdo) : Prop := hsame f' f /\ registered f' = registered f.
(* what FdI reads *)
Definition gsame (f' f : fdo) : Prop :=
  registered f' = registered f /\ fdnum f' = fdnum f /\ regb f' = regb f /\ pidx f' = pidx f.

Lemma hsame_refl : forall f, hsame f f. Proof. intros; repeat split. Qed.
Lemma fkeep_refl : forall f, fkeep f f. Proof. intros; repeat split. Qed.
Lemma gsame_refl : forall f, gsame f f. Proof. intros; repeat split. Qed.
Lemma hsame_trans : forall a b c, hsame a b -> hsame b c -> hsame a c.
Proof. unfold hsame. intros a b c (A1 & A2 & A3 & A4 & A5) (B1 & B2 & B3 & B4 & B5). repeat split; congruence. Qed.
Lemma fkeep_trans : forall a b c, fkeep a b -> fkeep b c -> fkeep a c.
Proof. unfold fkeep. intros a b c [A1 A2] [B1 B2]. split; [eapply hsame_trans; eassumption|congruence]. Qed.

Lemma Agree_ext : forall s s' m m', Agree s m -> mview m' = mview m -> Same s s' ->
  (forall i, inr16 i -> fkeep (fdt s' i) (fdt s i)) -> Agree s' m'.
Proof.
  intros s s' m m' A V S F.
  assert (P1 : a_fd m' = a_fd m) by (change (a_fd (mview m') = a_fd (mview m)); rewrite V; reflexivity).
  assert (P2 : a_fh m' = a_fh m) by (change (a_fh (mview m') = a_fh (mview m)); rewrite V; reflexivity).
  assert (P3 : a_ck m' = a_ck m) by (change (a_ck (mview m') = a_ck (mview m)); rewrite V; reflexivity).
  assert (P4 : a_tm m' = a_tm m) by (change (a_tm (mview m') = a_tm (mview m)); rewrite V; reflexivity).
  assert (P5 : a_exp m' = a_exp m) by (change (a_exp (mview m') = a_exp (mview m)); rewrite V; reflexivity).
  assert (P6 : a_tk m' = a_tk m) by (change (a_tk (mview m') = a_tk (mview m)); rewrite V; reflexivity).
  assert (P7 : a_ev m' = a_ev m) by (change (a_ev (mview m') = a_ev (mview m)); rewrite V; reflexivity).
  assert (P8 : a_evp m' = a_evp m) by (change (a_evp (mview m') = a_evp (mview m)); rewrite V; reflexivity).
  assert (P9 : a_rw m' = a_rw m) by (change (a_rw (mview m') = a_rw (mview m)); rewrite V; reflexivity).
  assert (P10 : a_quit m' = a_quit m) by (change (a_quit (mview m') = a_quit (mview m)); rewrite V; reflexivity).
  assert (P11 : a_clk m' = a_clk m) by (change (a_clk (mview m') = a_clk (mview m)); rewrite V; reflexivity).
  destruct S. destruct A.
  constructor; rewrite ?P1, ?P2, ?P3, ?P4, ?P5, ?P6, ?P7, ?P8, ?P9, ?P10, ?P11.
  - intros i I. destruct (F i I) as [_ R]. rewrite R. auto.
  - intros i I. destruct (F i I) as [(_ & H & _) _]. rewrite H. auto.
  - intros i I. destruct (F i I) as [(_ & _ & H & _) _]. rewrite H. auto.
  - intros i I. destruct (F i I) as [(_ & _ & _ & H & _) _]. rewrite H. auto.
  - intros i I. destruct (F i I) as [(_ & _ & _ & _ & H) _]. rewrite H. auto.
  - intros j I. unfold timer_registered. rewrite sm_heap0. apply ag_tm0; assumption.
  - intros j I. unfold timer_registered. rewrite sm_heap0. apply ag_exp0; assumption.
  - intros k I. unfold task_registered. rewrite sm_tasks0, sm_cur0. apply ag_tk0; assumption.
  - intros j I. rewrite sm_evr0. auto.
  - intros j I. unfold ev_on_list. rewrite sm_evp0, sm_evb0. apply ag_evp0; assumption.
  - intros j I. rewrite sm_rw0. auto.
  - rewrite sm_quit0. assumption.
  - rewrite sm_clock0. assumption.
Qed.

Lemma SI_ext : forall s s', SI s -> Same s s' -> SI s'.
Proof.
  intros s s' [] []. unfold curl in *.
  constructor; unfold curl; rewrite ?sm_heap0, ?sm_time0, ?sm_tv0, ?sm_tasks0, ?sm_cur0, ?sm_evp0, ?sm_evb0, ?sm_evr0, ?sm_clock0;
    assumption.
Qed.

Lemma okk_ext : forall s s' x k, okk s x k -> registered (fdt s' k) = registered (fdt s k) -> okk s' x k.
Proof. intros s s' x k [R H] E. split; [assumption|]. intros N. rewrite E. auto. Qed.

Lemma okk_weaken : forall s x k, okk s (-1) k -> okk s x k.
Proof. intros s x k [R H]. split; [assumption|]. intros _. apply H. lia. Qed.

Lemma FdI_ext_ep : forall s s' x, FdI s x ->
  (forall k, In k (active s') -> In k (active s)) ->
  (handled s' = handled s \/ handled s' = None) ->
  (forall k, In k (notify s') -> In k (notify s)) -> method s' = method s ->
  length (pfds s') = length (pfds s) -> pkeys s' = pkeys s ->
  (forall i, registered (fdt s' i) = registered (fdt s i) /\ pidx (fdt s' i) = pidx (fdt s i)) ->
  (forall e, In e (ep (kern s')) -> ent_ok s' x e) ->
  (is_epoll s = false -> ep (kern s') = []) -> FdI s' x.
Proof.
  intros s s' x [] A H N M L P G E E0.
  assert (OK : forall k, okk s x k -> okk s' x k).
  { intros k K. eapply okk_ext; [eassumption|]. apply (G k). }
  assert (IE : is_epoll s' = is_epoll s) by (unfold is_epoll; rewrite M; reflexivity).
  constructor.
  - intros k I. apply OK. auto.
  - intros k I. destruct H as [H|H]; [|congruence]. apply OK. apply fi_handled0. congruence.
  - intros k I. auto.
  - rewrite IE. intros I. destruct (fi_nopoll0 I) as [N0 _]. split; [|auto].
    destruct (notify s') as [|y l] eqn:Q; [reflexivity|].
    pose proof (N y (or_introl eq_refl)) as I0. rewrite N0 in I0. destruct I0.
  - rewrite IE, P. assumption.
  - assumption.
  - rewrite L, P. assumption.
  - rewrite P. intros n k I. destruct (fi_pkeys0 n k I) as [K1 K2].
    split; [apply OK; assumption|]. destruct (G k) as [_ G4]. congruence.
Qed.

Lemma FdI_ext : forall s s' x, FdI s x ->
  (forall k, In k (active s') -> In k (active s)) ->
  (handled s' = handled s \/ handled s' = None) ->
  (forall k, In k (notify s') -> In k (notify s)) -> method s' = method s ->
  (forall e, In e (ep (kern s')) -> exists e0, In e0 (ep (kern s)) /\ en_fd e = en_fd e0 /\ en_data e = en_data e0) ->
  flt (kern s') = flt (kern s) ->
  length (pfds s') = length (pfds s) -> pkeys s' = pkeys s ->
  (forall i, gsame (fdt s' i) (fdt s i)) -> FdI s' x.
Proof.
  intros s s' x I A H N M E F L P G.
  apply (FdI_ext_ep s s' x I A H N M L P).
  - intros i. destruct (G i) as (G1 & _ & _ & G4). split; assumption.
  - intros e I1. destruct (E e I1) as (e0 & I0 & E1 & E2).
    destruct (fi_ep s x I e0 I0) as [D|[(D & D1 & D2)|(D & D1 & D2)]].
    + left. congruence.
    + right; left. rewrite E2, M, F. auto.
    + right; right. rewrite E2. destruct (G (en_data e0)) as (G1 & G2 & G3 & G4).
      split; [eapply okk_ext; eassumption|]. rewrite G2, G3. split; [congruence|assumption].
  - intros I0. destruct (fi_nopoll s x I I0) as [_ E0].
    destruct (ep (kern s')) as [|e l] eqn:Q; [reflexivity|].
    destruct (E e (or_introl eq_refl)) as (e0 & I1 & _). rewrite E0 in I1. destruct I1.
Qed.

(* all references to k gone *)
Definition noref (s : core) (k : Z) : Prop :=
  ~ In k (active s) /\ handled s <> Some k /\ ~ In k (notify s) /\
  (forall e, In e (ep (kern s)) -> en_data e <> k) /\ ~ In k (pkeys s).

Lemma FdI_weaken : forall s x, FdI s (-1) -> FdI s x.
Proof.
  intros s x []. constructor; auto using okk_weaken.
  - intros e I. destruct (fi_ep0 e I) as [D|[D|(D & D1)]]; [left; assumption|right; left; assumption|].
    right; right. split; [apply okk_weaken; assumption|assumption].
  - intros n k I. destruct (fi_pkeys0 n k I). split; [apply okk_weaken; assumption|assumption].
Qed.

Lemma FdI_close : forall s k, FdI s k -> registered (fdt s k) = true \/ noref s k -> FdI s (-1).
Proof.
  intros s k [] C.
  assert (OK : forall y, okk s k y -> (noref s k -> y <> k) -> okk s (-1) y).
  { intros y [R H] Q. split; [assumption|]. intros _. destruct (Z.eq_dec y k) as [->|N]; [|auto].
    destruct C as [C|C]; [assumption|]. exfalso. apply (Q C). reflexivity. }
  constructor; try assumption.
  - intros y I. apply OK; [auto|]. intros (C1 & _) ->. auto.
  - intros y I. apply OK; [auto|]. intros (_ & C2 & _) ->. auto.
  - intros y I. apply OK; [auto|]. intros (_ & _ & C3 & _) ->. auto.
  - intros e I. destruct (fi_ep0 e I) as [D|[D|(D & D1)]]; [left; assumption|right; left; assumption|].
    right; right. split; [|assumption]. apply OK; [assumption|]. intros (_ & _ & _ & C4 & _) Q. apply (C4 e I Q).
  - intros n y I. destruct (fi_pkeys0 n y I) as [K1 K2]. split; [|assumption].
    apply OK; [assumption|]. intros (_ & _ & _ & _ & C5) ->. apply C5. eapply nth_error_In; eassumption.
Qed.

Lemma FdI_noref : forall s k, FdI s (-1) -> 0 <= k -> registered (fdt s k) = false -> noref s k.
Proof.
  intros s k [] K0 U.
  assert (NO : okk s (-1) k -> False).
  { intros [R H]. destruct (Z.eq_dec k (-1)); [lia|]. rewrite H in U by assumption. discriminate. }
  repeat split.
  - intro I. apply NO. auto.
  - intro I. apply NO. auto.
  - intro I. apply NO. auto.
  - intros e I D. destruct (fi_ep0 e I) as [D0|[(D0 & _)|(D0 & _)]].
    + lia.
    + lia.
    + apply NO. rewrite D in D0. assumption.
  - intro I. apply In_nth_error in I. destruct I as [n I]. apply NO. apply (fi_pkeys0 n k I).
Qed.

(* changing an unreferenced descriptor object *)
Lemma FdI_putfd_noref : forall s x k f, FdI s x -> noref s k -> FdI (putfd s k f) x.
Proof.
  intros s x k f [] (N1 & N2 & N3 & N4 & N5).
  assert (OK : forall y, y <> k -> okk s x y -> okk (putfd s k f) x y).
  { intros y N K. eapply okk_ext; [eassumption|]. unfold putfd, upd. cbn [fdt set_fdt].
    destruct (Z.eqb_spec y k); [contradiction|reflexivity]. }
  constructor; cbn [putfd set_fdt active handled notify kern pfds pkeys]; try assumption.
  - intros y I. apply OK; [intros ->; auto|auto].
  - intros y I. apply OK; [intros ->; auto|auto].
  - intros y I. apply OK; [intros ->; auto|auto].
  - intros e I. destruct (fi_ep0 e I) as [D|[D|(D & D1 & D2)]]; [left; assumption|right; left; assumption|].
    right; right. pose proof (N4 e I) as NE. split; [apply OK; assumption|].
    unfold putfd, upd. cbn [fdt set_fdt]. destruct (Z.eqb_spec (en_data e) k); [contradiction|]. split; assumption.
  - intros n y I. destruct (fi_pkeys0 n y I) as [K1 K2].
    assert (y <> k) by (intros ->; apply N5; eapply nth_error_In; eassumption).
    split; [apply OK; assumption|]. unfold putfd, upd. cbn [fdt set_fdt]. destruct (Z.eqb_spec y k); [contradiction|assumption].
Qed.

Lemma FdI_putfd_gsame : forall s x k f, FdI s x -> gsame f (fdt s k) -> FdI (putfd s k f) x.
Proof.
  intros s x k f I G. eapply FdI_ext; try eassumption; try reflexivity; auto.
  - intros e H. exists e. auto.
  - intros i. unfold putfd, upd. cbn [fdt set_fdt]. destruct (Z.eqb_spec i k); [subst; assumption|apply gsame_refl].
Qed.

(* ---------- results ---------- *)
Definition HaltOf (s s' : core) : Prop := exists e, quiet e /\ mst s' = mon_step (mst s) e.

Lemma HaltOf_halt : forall s s1 e, mst s1 = mst s -> quiet e -> HaltOf s (emit s1 e).
Proof. intros s s1 e M Q. exists e. split; [assumption|]. rewrite mst_emit, M. reflexivity. Qed.

Lemma HaltOf_good : forall s s', HaltOf s s' -> Goodm (mst s) -> Goodm (mst s').
Proof. intros s s' (e & Q & M) G. rewrite M. apply good_quiet; assumption. Qed.

Lemma HaltOf_same : forall s s1 s', mst s1 = mst s -> HaltOf s1 s' -> HaltOf s s'.
Proof. intros s s1 s' M (e & Q & E). exists e. split; [assumption|]. rewrite <- M. assumption. Qed.

(* handled can only be cleared; no run of tasks is started *)
Definition Fr (s s' : core) : Prop :=
  (handled s' = handled s \/ handled s' = None) /\ (cur s = None -> cur s' = None).

Lemma Fr_refl : forall s, Fr s s.
Proof. intros; split; auto. Qed.
Lemma Fr_trans : forall a b c, Fr a b -> Fr b c -> Fr a c.
Proof.
  intros a b c [A1 A2] [B1 B2]. split; [|auto].
  destruct B1 as [B1|B1]; [|auto]. rewrite B1. assumption.
Qed.
