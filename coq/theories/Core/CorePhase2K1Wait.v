(* CorePhase2K1Wait.v -- the kernel-timer invariant (K1 of DESIGN A.4): under the
   epoll-timerfd method, last_abs_count = 5 means that the timer descriptor is armed at
   (max last_abs 1ns) and still has its epoll entry; established by timeout_check,
   kept by everything that can run before the next timeout_check. *)
From Coq Require Import List ZArith Bool Lia.
From Ivv Require Core.CoreRelFd.
From Ivv Require Import Core.Kernel Core.CoreTypes Core.CoreFd Core.CoreModel Core.CoreSpec
  Core.CoreInvBase Core.CoreInvDefs Core.CoreInvFd Core.CoreInvPoll Core.CoreInvReg Core.CoreInvObj
  Core.CoreInvTm Core.CoreInvLoop Core.CoreInvWait
  Core.CoreRelBase Core.CorePhase2K1Base Core.CorePhase2K1Fd
  Core.CorePhase2K1Act Core.CorePhase2K1Inv Core.CorePhase2K1Loop.
Import ListNotations.
Local Open Scope Z_scope.

Definition dd (a : Z) : Z := if a =? 0 then 1 else a.

(* the timer descriptor, once created, is open and has its epoll entry *)
Definition TEnt (s : core) : Prop :=
  tfd s <> -1 -> exists v e, k_open (kern s) (tfd s) = Some v /\ vkind v = K_TIMERFD /\
    In e (ep (kern s)) /\ en_fd e = tfd s /\ en_events e = B_IN /\ en_enabled e = true.

Definition K1 (s : core) : Prop :=
  method s = M_ET -> last_abs_count s = 5 ->
  tfd s <> -1 /\ exists v, k_get (kern s) (tfd s) = Some v /\ vdeadline v = dd (last_abs s).

Definition LK (s : core) : Prop := TEnt s /\ K1 s.

Lemma TEnt_TFs : forall s s', TEnt s -> TFs s s' -> TEnt s'.
Proof.
  intros s s' T [K E1 E2 E3 E4] NT. rewrite E1 in *. destruct (T NT) as (v & e & O & KD & IE & EF & EV & EN).
  apply k_open_get in O. destruct O as [G C].
  destruct (kt_vfd _ _ _ K v G) as (v' & G' & (S1 & S2 & S3 & S4)).
  exists v', e. split; [apply k_get_open; [exact G'|congruence]|]. split; [congruence|].
  split; [apply (kt_ent _ _ _ K e IE EF)|]. auto.
Qed.

Lemma K1_TFs : forall s s', K1 s -> TFs s s' -> K1 s'.
Proof.
  intros s s' K [KT E1 E2 E3 E4] M C. rewrite E1, E2, E3, E4 in *. destruct (K M C) as (NT & v & G & D).
  split; [exact NT|]. destruct (kt_vfd _ _ _ KT v G) as (v' & G' & (S1 & _)). exists v'. split; [exact G'|congruence].
Qed.

Lemma LK_TFs : forall s s', LK s -> TFs s s' -> LK s'.
Proof. intros s s' [A B] T. split; [eapply TEnt_TFs; eassumption|eapply K1_TFs; eassumption]. Qed.

Lemma LK_trivial : forall s, tfd s = -1 -> (method s = M_ET -> last_abs_count s <> 5) -> LK s.
Proof. intros s T C. split; [intros N; contradiction|intros M E; exfalso; apply (C M E)]. Qed.

(* ---------- arming the timer ---------- *)
Lemma settime_spec : forall k fd d v, k_open k fd = Some v ->
  k_timerfd_settime k fd d = k_put k fd (with_timer v d false).
Proof. intros k fd d v O. unfold k_timerfd_settime. rewrite O. reflexivity. Qed.

Lemma tfd_settime_LK : forall s d, TEnt s -> tfd s <> -1 ->
  TEnt (tfd_settime s d) /\ exists v, k_get (kern (tfd_settime s d)) (tfd s) = Some v /\ vdeadline v = d.
Proof.
  intros s d T NT. destruct (T NT) as (v & e & O & KD & IE & EF & EV & EN).
  unfold tfd_settime. cbn [kern tfd emit set_trace set_kern]. rewrite (settime_spec _ _ d v O).
  split.
  - intros _. exists (with_timer v d false), e. cbn [kern tfd emit set_trace set_kern].
    split; [rewrite k_open_put, Z.eqb_refl; cbn [vclosed with_timer]; apply k_open_get in O; destruct O as [_ C]; rewrite C; reflexivity|].
    split; [exact KD|]. auto.
  - exists (with_timer v d false). split; [rewrite k_get_put, Z.eqb_refl; reflexivity|reflexivity].
Qed.

Lemma ctl_vfds : forall k op fd ev d, vfds (fst (k_epoll_ctl k op fd ev d)) = vfds k.
Proof.
  intros k op fd ev d. unfold k_epoll_ctl.
  repeat match goal with |- context [if ?c then _ else _] => destruct c | |- context [match ?c with _ => _ end] => destruct c end; reflexivity.
Qed.

Lemma ctl_retry_vfds : forall s op fd ev d s1 r, ctl_retry s op fd ev d = (s1, r) -> vfds (kern s1) = vfds (kern s).
Proof.
  intros s op fd ev d s1 r. unfold ctl_retry.
  pose proof (ctl_vfds (kern s) op fd ev d) as V1.
  destruct (k_epoll_ctl (kern s) op fd ev d) as [k1 r1]. cbn [fst] in V1.
  destruct r1 as [e|]; [destruct e|]; try (intros E; inversion E; subst; exact V1).
  pose proof (ctl_vfds k1 op fd ev d) as V2. destruct (k_epoll_ctl k1 op fd ev d) as [k2 r2]. cbn [fst] in V2.
  intros E; inversion E; subst. cbn [kern set_kern]. congruence.
Qed.

Lemma abs_cmp_zero : forall a l, abs_cmp (Some a) l = 0 -> a = l.
Proof. intros a l. unfold abs_cmp. destruct (Z.ltb_spec a l); [discriminate|]. destruct (Z.ltb_spec l a); [discriminate|]. lia. Qed.

Lemma set_poll_timeout_LK : forall s a, TEnt s -> 0 <= next_fd (kern s) -> forall s0 fl, set_poll_timeout s a = (R s0, fl) ->
  TEnt s0 /\ last_abs s0 = last_abs s /\ last_abs_count s0 = last_abs_count s /\
  (fl = true -> method s0 = method s /\ tfd s0 <> -1 /\ exists v, k_get (kern s0) (tfd s0) = Some v /\ vdeadline v = dd a) /\
  (fl = false -> tfd s0 = -1 /\ method s0 <> M_ET).
Proof.
  intros s a T NX s0 fl. unfold set_poll_timeout.
  destruct (Z.eqb_spec (tfd s) (-1)) as [E|NE].
  - unfold k_timerfd_create. destruct (no_timerfd _).
    + intros H. inversion H; subst. split; [intros N; contradiction|]. repeat split; try discriminate. exact E.
    + destruct (k_alloc (kern s) K_TIMERFD) as [fd k1] eqn:KA. cbv zeta.
      set (s1 := set_epoll (set_kern s k1) (epfd s) fd (pwait2 s)).
      destruct (ctl_retry s1 CTL_ADD fd B_IN (-2)) as [s2 e] eqn:C.
      destruct e; [discriminate|]. intros H. inversion H; subst. clear H.
      pose proof (ctl_retry_vfds _ _ _ _ _ _ _ C) as V.
      apply CoreRelFd.ctl_retry_spec in C. destruct C as (k' & -> & _ & _ & EP). unfold CTL_ADD in EP. cbn [Z.eqb Pos.eqb] in EP.
      assert (G1 : k_get k1 fd = Some (vfd0 K_TIMERFD)).
      { unfold k_alloc in KA. inversion KA; subst. rewrite k_get_put, Z.eqb_refl. reflexivity. }
      assert (G2 : k_get k' fd = Some (vfd0 K_TIMERFD)).
      { unfold k_get in *. cbn [kern set_kern s1 set_epoll] in V. rewrite V. exact G1. }
      assert (O2 : k_open k' fd = Some (vfd0 K_TIMERFD)) by (apply k_get_open; [exact G2|reflexivity]).
      assert (TE2 : TEnt (set_kern s1 k')).
      { intros _. exists (vfd0 K_TIMERFD), {| en_fd := fd; en_events := B_IN; en_data := -2; en_enabled := true |}.
        cbn [kern tfd set_kern s1 set_epoll]. split; [exact O2|]. split; [reflexivity|].
        split; [rewrite EP; apply in_or_app; right; left; reflexivity|]. auto. }
      assert (NT2 : tfd (set_kern s1 k') <> -1).
      { cbn [tfd set_kern s1 set_epoll]. unfold k_alloc in KA. inversion KA; subst.
        lia. }
      destruct (tfd_settime_LK (set_kern s1 k') (dd a) TE2 NT2) as [TE3 (v & G3 & D3)].
      fold (dd a). split; [exact TE3|]. split; [reflexivity|]. split; [reflexivity|]. split; [|discriminate].
      intros _. split; [reflexivity|]. split; [exact NT2|]. exists v. split; [exact G3|exact D3].
  - intros H. inversion H; subst. clear H. fold (dd a).
    destruct (tfd_settime_LK s (dd a) T NE) as [TE3 (v & G3 & D3)].
    split; [exact TE3|]. split; [reflexivity|]. split; [reflexivity|]. split; [|discriminate].
    intros _. split; [reflexivity|]. split; [exact NE|]. exists v. split; [exact G3|exact D3].
Qed.

Lemma TEnt_plain : forall s s', kern s' = kern s -> tfd s' = tfd s -> TEnt s -> TEnt s'.
Proof. intros s s' K T H. unfold TEnt in *. rewrite K, T. exact H. Qed.

Lemma timeout_check_LK : forall s abs s0 fl, LK s -> 0 <= next_fd (kern s) -> method s = M_ET ->
  timeout_check s abs = (R s0, fl) -> LK s0.
Proof.
  intros s abs s0 fl [TE K] NX ME. unfold timeout_check. cbv zeta.
  destruct ((last_abs_count s =? 5) && (0 <=? abs_cmp abs (last_abs s))) eqn:G.
  { intros E. inversion E; subst. split; assumption. }
  set (s1 := if last_abs_count s =? 5 then tfd_settime s 0 else s).
  assert (F1 : method s1 = M_ET /\ last_abs s1 = last_abs s /\ last_abs_count s1 = last_abs_count s /\ tfd s1 = tfd s /\
               0 <= next_fd (kern s1))
    by (unfold s1; destruct (last_abs_count s =? 5); repeat split; try assumption;
        cbn [kern tfd_settime emit set_trace set_kern]; unfold k_timerfd_settime; destruct (k_open _ _); cbn; lia).
  destruct F1 as (M1 & L1 & C1 & T1 & NX1).
  assert (TE1 : TEnt s1).
  { unfold s1. destruct (Z.eqb_spec (last_abs_count s) 5) as [C5|C5]; [|exact TE].
    destruct (Z.eq_dec (tfd s) (-1)) as [E|NE]; [intros N; exfalso; apply N; exact E|].
    apply (tfd_settime_LK s 0 TE NE). }
  destruct (Z.eqb_spec (abs_cmp abs (last_abs s)) 0) as [CZ|CN].
  - (* the same deadline again *)
    assert (C5 : last_abs_count s <> 5).
    { intros C5. rewrite C5, CZ in G. cbn in G. discriminate G. }
    set (s2 := if last_abs_count s1 <? 5 then set_last_abs s1 (last_abs s1) (last_abs_count s1 + 1) else s1).
    assert (F2 : method s2 = M_ET /\ last_abs s2 = last_abs s /\ tfd s2 = tfd s1 /\ kern s2 = kern s1)
      by (unfold s2; destruct (last_abs_count s1 <? 5); repeat split; assumption).
    destruct F2 as (M2 & L2 & T2 & KK2).
    assert (TE2 : TEnt s2) by (apply (TEnt_plain s1 s2 KK2 T2 TE1)).
    destruct (Z.eqb_spec (last_abs_count s2) 5) as [E5|N5].
    + destruct abs as [a|].
      * intros E. destruct (set_poll_timeout_LK s2 a TE2 ltac:(rewrite KK2; exact NX1) s0 fl E) as (TE0 & LA0 & LC0 & HT & HF).
        split; [exact TE0|]. intros M0 C0. destruct fl.
        -- destruct (HT eq_refl) as (_ & NT0 & v & G0 & D0). split; [exact NT0|]. exists v. split; [exact G0|].
           rewrite D0, LA0, L2. apply abs_cmp_zero in CZ. rewrite CZ. reflexivity.
        -- destruct (HF eq_refl) as (_ & NM). contradiction.
      * intros E. inversion E; subst. split; [exact TE2|]. intros _ _. cbn in CZ. discriminate CZ.
    + intros E. inversion E; subst. split; [exact TE2|]. intros _ C. contradiction.
  - destruct abs as [a|]; intros E; inversion E; subst; (split; [apply (TEnt_plain s1); [reflexivity|reflexivity|exact TE1]|]);
      intros _ C; cbn [last_abs_count set_last_abs] in C; discriminate C.
Qed.

(* ---------- the wait chain keeps the timer descriptor ---------- *)
Lemma live_fdnum : forall s k, InvW s -> live s (-1) k -> fdnum (fdt s k) <> tfd s.
Proof.
  intros s k I L. apply live_none in L. destruct L as [K R]. pose proof (InvW_AL s I) as A.
  destruct (Z_lt_le_dec k 16) as [U|D]; [apply (al_user _ _ A k); lia|].
  pose proof (dy_reg _ (iw_dyn _ I) (k - 16) ltac:(lia)) as RR. replace (16 + (k - 16)) with k in RR by lia. rewrite R in RR.
  destruct (al_raw _ _ A (k - 16) (eq_sym RR)) as (N & _). unfold RAW_KEY in N. replace (16 + (k - 16)) with k in N by lia. exact N.
Qed.

Lemma flush_pending_K : forall s, InvW s -> is_epoll s = true ->
  exists s1, epoll_flush_pending (S (length (notify s))) s = R s1 /\ InvW s1 /\ TFs s s1 /\ numfds s1 = numfds s /\
             nwait (kern s1) = nwait (kern s).
Proof.
  intros s I IE. destruct (flush_pending_ok (S (length (notify s))) s I IE ltac:(lia)) as (s1 & E & I1 & _ & NW & _ & _ & NF & _).
  exists s1. split; [exact E|]. split; [exact I1|]. split; [|split; [exact NF|exact NW]].
  pose proof (flush_pending_KF (tfd s) (S (length (notify s))) s) as Q. rewrite E in Q. cbn [ARes] in Q.
  apply KF_TF. apply Q. intros k K. apply live_fdnum; [exact I|]. apply (fv_notify _ _ (iw_fd _ I)). exact K.
Qed.

Section Wait.
Variable sc : scenario.
Hypothesis WF : wf_scenario sc.
Hypothesis do_action_ok : forall s a, InvW s -> wf_action a -> okr (StepW s) (do_action s a).
Let Hh := wf_handlers sc WF.

Lemma wait_wf : forall a, wf_wait_action a -> wf_action a.
Proof. intros a. destruct a; cbn; tauto. Qed.

Lemma wait_enter_K : forall s, InvW s -> PK s (wait_enter sc s).
Proof.
  intros s I. unfold wait_enter. cbv zeta. destruct (_ <? _); [exact Logic.I|].
  set (s1 := set_kern s _).
  apply (PK_pre s s1); [apply TF_kern; apply KT_nwait|].
  apply (run_acts_K do_action_ok); [apply InvW_nwait; exact I|].
  eapply Forall_impl; [exact wait_wf|apply (wf_waits sc WF)].
Qed.

Definition PKw (s : core) (w : wres) : Prop :=
  match w with WR s' _ => InvW s' /\ TFs s s' | WE s' => InvW s' /\ TFs s s' | WH _ => True end.

Lemma PKw_pre : forall s s0 w, TFs s s0 -> PKw s0 w -> PKw s w.
Proof. intros s s0 w T P. destruct w; cbn [PKw] in *; try exact Logic.I; destruct P as [A B]; (split; [exact A|eapply TFs_trans; eassumption]). Qed.

Lemma do_epoll_wait_K : forall s call maxev timeout, InvW s -> TfdM s -> PKw s (do_epoll_wait sc s call maxev timeout).
Proof.
  intros s call maxev timeout I TM.
  pose proof (do_epoll_wait_ok sc WF do_action_ok s call maxev timeout I TM) as P.
  unfold do_epoll_wait in *.
  pose proof (wait_enter_K s I) as Q.
  destruct (wait_enter sc s) as [s1|s1]; [|exact Logic.I]. unfold PK in Q. cbn [ARes] in Q. destruct Q as [I1 T1]. cbv zeta in *.
  set (s2 := emit s1 (TWait _ _ _ _ _ _)) in *.
  assert (T2 : TFs s s2) by (eapply TFs_trans; [exact T1|apply TFs_plain; reflexivity]).
  destruct (mem_z _ _); cbn [PKw WPost] in *.
  - split; [apply P|]. eapply TFs_trans; [exact T2|].
    destruct (0 <? timeout); [|apply TFs_plain; reflexivity].
    apply (TFs_trans _ (set_kern s2 (k_set_clock (kern s2) (clock (kern s2) + timeout / 2)))); [apply TF_kern; apply KT_clock|apply TFs_plain; reflexivity].
  - pose proof (sleep_spec (kern s2) maxev timeout (sc_rot sc (nwait (kern s2)))) as SP.
    change (kern s2) with (kern s1) in *.
    specialize (SP (fun e H => no_oneshot s1 e (iw_fd _ I1) H)).
    destruct (k_epoll_sleep (kern s1) maxev timeout _) as [k1 evs|k1| |]; cbn [PKw WPost] in *; try exact Logic.I.
    + split; [apply P|]. destruct SP as (kX & KX & -> & _).
      eapply TFs_trans; [exact T2|].
      apply (TFs_trans _ (set_kern s2 (k_set_ep kX (ep (kern s1))))); [|apply TFs_plain; reflexivity].
      apply TF_kern. change (kern s2) with (kern s1). apply KT_fields; cbn [vfds ep next_fd k_set_ep].
      * destruct KX as [->|(w & ->)]; reflexivity.
      * reflexivity.
      * destruct KX as [->|(w & ->)]; cbn; lia.
    + destruct SP.
Qed.

Lemma epoll_wait_m_K : forall s abs maxev, InvW s -> TfdM s -> PKw s (epoll_wait_m sc s abs maxev).
Proof.
  intros s abs maxev I TM. unfold epoll_wait_m.
  assert (V : forall s0, InvW s0 -> TfdM s0 -> TFs s s0 ->
    PKw s (let '(s1, ms) := to_msec s0 abs in do_epoll_wait sc s1 0 maxev (if ms <? 0 then -1 else ms * 1000000))).
  { intros s0 I0 TM0 T0. unfold to_msec. destruct abs as [a|]; cbn [to_relative].
    - apply (PKw_pre s (validate_now s0)).
      + eapply TFs_trans; [exact T0|]. unfold validate_now. destruct (time_valid s0); apply TFs_plain; reflexivity.
      + apply do_epoll_wait_K; [apply InvW_validate; exact I0|].
        unfold TfdM, validate_now in *. destruct (time_valid s0); exact TM0.
    - apply (PKw_pre s s0 _ T0). apply do_epoll_wait_K; assumption. }
  destruct (pwait2 s); [|apply V; [exact I|exact TM|apply TFs_refl]].
  destruct abs as [a|]; cbn [to_relative].
  - set (s1 := validate_now s).
    assert (I1 : InvW s1) by (apply InvW_validate; exact I).
    assert (TM1 : TfdM s1) by (unfold TfdM, s1, validate_now in *; destruct (time_valid s); exact TM).
    assert (T1 : TFs s s1) by (unfold s1, validate_now; destruct (time_valid s); apply TFs_plain; reflexivity).
    destruct (_ || _).
    + apply V; [|exact TM1|eapply TFs_trans; [exact T1|apply TFs_plain; reflexivity]].
      apply (InvW_coresame s1); [constructor; reflexivity|apply (ms_nobad _ (iw_misc _ I1))|exact I1].
    + apply (PKw_pre s s1 _ T1). apply do_epoll_wait_K; assumption.
  - destruct (_ || _).
    + apply V; [|exact TM|apply TFs_plain; reflexivity].
      apply (InvW_coresame s); [constructor; reflexivity|apply (ms_nobad _ (iw_misc _ I))|exact I].
    + apply do_epoll_wait_K; assumption.
Qed.

End Wait.
