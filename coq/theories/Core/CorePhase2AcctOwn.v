(* CorePhase2AcctOwn.v -- code 1802, part 1: the set of open library-created descriptors
   (numbers >= 1000) only grows by allocation; the descriptor layer does not touch it, nor the
   fields that record who owns such a descriptor. *)
From Coq Require Import List ZArith Bool Lia.
From Ivv Require Import Core.Kernel Core.CoreTypes Core.CoreFd Core.CoreModel Core.CoreRelBase
  Core.CorePhase2K1Base.
Import ListNotations.
Local Open Scope Z_scope.

(* ---------- kernel: no new open descriptor >= 1000, except those listed in N ---------- *)
Definition KOn (N : list Z) (k k' : kernel) : Prop :=
  forall fd, 1000 <= fd -> k_open k' fd <> None -> k_open k fd <> None \/ In fd N.
Definition KO (k k' : kernel) : Prop := KOn [] k k'.

Lemma KO_refl : forall k, KO k k. Proof. intros k fd _ H. left. exact H. Qed.

Lemma KOn_trans : forall N1 N2 a b c, KOn N1 a b -> KOn N2 b c -> KOn (N1 ++ N2) a c.
Proof.
  intros N1 N2 a b c A B fd L H. destruct (B fd L H) as [H1|H1]; [|right; apply in_or_app; right; exact H1].
  destruct (A fd L H1) as [H2|H2]; [left; exact H2|right; apply in_or_app; left; exact H2].
Qed.

Lemma KO_trans : forall a b c, KO a b -> KO b c -> KO a c.
Proof. intros a b c A B. apply (KOn_trans [] [] a b c A B). Qed.

Lemma KO_KOn : forall N k k', KO k k' -> KOn N k k'.
Proof. intros N k k' H fd L O. destruct (H fd L O) as [A|[]]. left. exact A. Qed.

Lemma KOn_l : forall N a b c, KO a b -> KOn N b c -> KOn N a c.
Proof. intros N a b c A B. apply (KOn_trans [] N a b c A B). Qed.
Lemma KOn_r : forall N a b c, KOn N a b -> KO b c -> KOn N a c.
Proof. intros N a b c A B. rewrite <- (app_nil_r N). apply (KOn_trans N [] a b c A B). Qed.

Lemma KO_fields : forall k k', vfds k' = vfds k -> KO k k'.
Proof. intros k k' V fd _ H. left. unfold k_open, k_get in *. rewrite V in H. exact H. Qed.

Lemma k_open_put : forall k fd v fd', k_open (k_put k fd v) fd' =
  if fd' =? fd then (if vclosed v then None else Some v) else k_open k fd'.
Proof. intros. unfold k_open. rewrite k_get_put'. destruct (fd' =? fd); reflexivity. Qed.

(* rewriting a descriptor without reopening it *)
Lemma KO_put_keep : forall k fd v v', k_get k fd = Some v -> (vclosed v = true -> vclosed v' = true) -> KO k (k_put k fd v').
Proof.
  intros k fd v v' G C fd' _ H. left. rewrite k_open_put in H. destruct (Z.eqb_spec fd' fd) as [E|N]; [subst fd'|exact H].
  unfold k_open. rewrite G. destruct (vclosed v); [|discriminate]. rewrite (C eq_refl) in H. exact H.
Qed.

Lemma KO_put_user : forall k fd v, fd < 1000 -> KO k (k_put k fd v).
Proof.
  intros k fd v L fd' L' H. left. rewrite k_open_put in H. destruct (Z.eqb_spec fd' fd) as [E|N]; [lia|exact H].
Qed.

Lemma KOn_put : forall k fd v, KOn [fd] k (k_put k fd v).
Proof.
  intros k fd v fd' _ H. rewrite k_open_put in H. destruct (Z.eqb_spec fd' fd) as [E|N]; [right; left; symmetry; exact E|left; exact H].
Qed.

Ltac ko_fields := apply KO_fields; reflexivity.

Lemma KO_ctl : forall k op fd ev d, KO k (fst (k_epoll_ctl k op fd ev d)).
Proof.
  intros. unfold k_epoll_ctl.
  repeat match goal with |- context [match ?x with _ => _ end] => destruct x end; cbn [fst]; ko_fields.
Qed.

Lemma KO_read : forall k fd c, KO k (fst (k_read k fd c)).
Proof.
  intros k fd c. unfold k_read. unfold k_open at 1.
  destruct (k_get k fd) as [v|] eqn:G; [|apply KO_refl]. destruct (vclosed v) eqn:VC; [apply KO_refl|].
  repeat match goal with |- context [match ?x with _ => _ end] => destruct x end;
    cbn [fst]; try apply KO_refl; (eapply KO_put_keep; [exact G|rewrite VC; discriminate]).
Qed.

Lemma KO_write : forall k fd c x, KO k (fst (k_write k fd c x)).
Proof.
  intros k fd c x. unfold k_write. unfold k_open.
  destruct (k_get k fd) as [v|] eqn:G; [|apply KO_refl]. destruct (vclosed v) eqn:VC; [apply KO_refl|].
  destruct (vkind v =? K_EVENTFD).
  { destruct (c <? 8); cbn [fst]; [apply KO_refl|]. eapply KO_put_keep; [exact G|rewrite VC; discriminate]. }
  destruct (vkind v =? K_PIPE_W); [|apply KO_refl].
  destruct (negb (vpeer_open v)); [apply KO_refl|].
  destruct (k_get k (vpeer v)) as [r|] eqn:GR; [|apply KO_refl].
  destruct (_ <=? 0); cbn [fst]; [apply KO_refl|]. eapply KO_put_keep; [exact GR|cbn; tauto].
Qed.

Lemma KO_close : forall k fd, KO k (fst (k_close k fd)).
Proof.
  intros k fd. unfold k_close. unfold k_open.
  destruct (k_get k fd) as [v|] eqn:G; [|apply KO_refl]. destruct (vclosed v) eqn:VC; [apply KO_refl|].
  cbn [fst]. set (k1 := k_put k fd (with_closed v true)).
  assert (K1 : KO k k1) by (eapply KO_put_keep; [exact G|reflexivity]).
  match goal with |- KO k (k_set_ep ?X _) => assert (HK2 : KO k X); [|set (k2 := X) in *] end.
  { destruct (_ || _); [|exact K1].
    destruct (k_get k1 (vpeer v)) as [p|] eqn:GP; [|exact K1].
    eapply KO_trans; [exact K1|]. eapply KO_put_keep; [exact GP|cbn; tauto]. }
  eapply KO_trans; [exact HK2|ko_fields].
Qed.

Lemma k_close_closed : forall k fd, k_open (fst (k_close k fd)) fd = None.
Proof.
  intros k fd. unfold k_close. destruct (k_open k fd) as [v|] eqn:O; [|exact O]. cbn [fst].
  set (k1 := k_put k fd (with_closed v true)).
  assert (C1 : k_open k1 fd = None) by (unfold k1; rewrite k_open_put, Z.eqb_refl; reflexivity).
  match goal with |- k_open (k_set_ep ?X _) fd = None => assert (C2 : k_open X fd = None) end.
  { destruct (_ || _); [|exact C1]. destruct (k_get k1 (vpeer v)) as [p|] eqn:GP; [|exact C1].
    rewrite k_open_put. destruct (Z.eqb_spec fd (vpeer v)) as [E|N]; [|exact C1].
    unfold k_open in C1. rewrite E, GP in C1. cbn [vclosed with_peer]. destruct (vclosed p); [reflexivity|discriminate]. }
  exact C2.
Qed.

(* ---------- the fields that say who owns a library-created descriptor ---------- *)
Definition owners (s : core) :=
  (epfd s, tfd s, method s, rw_reg s, rw_rfd s, rw_wfd s, (active_fd s, active_wr s, active_ref s)).

Record OF (s s' : core) : Prop := { of_k : KO (kern s) (kern s'); of_own : owners s' = owners s }.

Lemma OF_refl : forall s, OF s s. Proof. intros. constructor; [apply KO_refl|reflexivity]. Qed.
Lemma OF_trans : forall a b c, OF a b -> OF b c -> OF a c.
Proof. intros a b c [A1 A2] [B1 B2]. constructor; [eapply KO_trans; eassumption|congruence]. Qed.
Lemma OF_plain : forall s s', kern s' = kern s -> owners s' = owners s -> OF s s'.
Proof. intros s s' K O. constructor; [rewrite K; apply KO_refl|exact O]. Qed.
Lemma OF_kern : forall s k', KO (kern s) k' -> OF s (set_kern s k').
Proof. intros. constructor; [assumption|reflexivity]. Qed.
Lemma OF_putfd : forall s k f, OF s (putfd s k f).
Proof. intros. apply OF_plain; reflexivity. Qed.

Ltac of_plain := apply OF_plain; reflexivity.

(* ---------- epoll back end ---------- *)
Lemma ctl_retry_OF : forall s op fd ev d s1 r, ctl_retry s op fd ev d = (s1, r) -> OF s s1.
Proof.
  intros s op fd ev d s1 r. unfold ctl_retry.
  pose proof (KO_ctl (kern s) op fd ev d) as K1.
  destruct (k_epoll_ctl (kern s) op fd ev d) as [k1 r1]. cbn [fst] in K1.
  assert (D : forall k', KO (kern s) k' -> (set_kern s k', r1) = (s1, r) -> OF s s1).
  { intros k' K E. inversion E; subst. apply OF_kern. exact K. }
  destruct r1 as [e|]; [destruct e|]; try (apply D; exact K1).
  pose proof (KO_ctl k1 op fd ev d) as K2.
  destruct (k_epoll_ctl k1 op fd ev d) as [k2 r2]. cbn [fst] in K2.
  intros E. inversion E; subst. apply OF_kern. eapply KO_trans; eassumption.
Qed.

Lemma flush_one__OF : forall s k s1 b, epoll_flush_one_ s k = (s1, b) -> OF s s1.
Proof.
  intros s k s1 b. unfold epoll_flush_one_.
  set (s0 := set_notify s _). set (f := getfd s0 k).
  assert (A0 : OF s s0) by of_plain.
  destruct (regb f =? wanted f); [intros E; inversion E; subst; exact A0|].
  destruct (ctl_retry s0 _ _ _ k) as [s2 r] eqn:C. apply ctl_retry_OF in C.
  destruct r; intros E; inversion E; subst.
  - eapply OF_trans; eassumption.
  - eapply OF_trans; [exact A0|]. eapply OF_trans; [exact C|]. apply OF_putfd.
Qed.

Lemma flush_one_OF : forall s k, ARes (OF s) (epoll_flush_one s k).
Proof.
  intros s k. unfold epoll_flush_one. destruct (epoll_flush_one_ s k) as [s1 b] eqn:E.
  apply flush_one__OF in E. destruct b; cbn [ARes halt]; [exact I|exact E].
Qed.

Lemma flush_pending_OF : forall fuel s, ARes (OF s) (epoll_flush_pending fuel s).
Proof.
  induction fuel as [|f IH]; intros s; cbn [epoll_flush_pending]; destruct (notify s) as [|k l] eqn:NS;
    cbn [ARes halt]; try apply OF_refl; try exact I.
  eapply ARes_bind; [apply flush_one_OF|]. cbn beta. intros s1 A1.
  eapply ARes_imp; [apply IH|cbn beta; intros s2 A2; eapply OF_trans; eassumption].
Qed.

Lemma epoll_notify_OF : forall s k, OF s (epoll_notify_fd s k).
Proof. intros s k. unfold epoll_notify_fd. dm; of_plain. Qed.

Lemma epoll_unregister_OF : forall s k, ARes (OF s) (epoll_unregister_fd s k).
Proof. intros s k. unfold epoll_unregister_fd. dm; [apply flush_one_OF|apply OF_refl]. Qed.

(* ---------- poll back end: the kernel is not involved ---------- *)
Lemma poll_notify_OF : forall s k, ARes (OF s) (poll_notify_fd s k).
Proof.
  intros s k. unfold poll_notify_fd. cbv zeta.
  destruct ((pidx (getfd s k) =? -1) && negb (wanted (getfd s k) =? 0)).
  { dm; cbn [ARes halt]; [exact I|of_plain]. }
  destruct (negb (pidx (getfd s k) =? -1) && (wanted (getfd s k) =? 0)).
  { dm; cbn [ARes halt]; [exact I|].
    match goal with |- OF s (putfd ?S2 k ?F) => set (s2 := S2) end.
    assert (A2 : OF s s2).
    { unfold s2. match goal with |- OF s (set_poll ?S1 _ _) => set (s1 := S1) end.
      assert (A1 : OF s s1).
      { unfold s1. destruct (negb _); [|apply OF_refl].
        destruct (nth_z (pfds s) _) as [pl|]; [|apply OF_refl].
        destruct (nth_z (pkeys s) _) as [kl|]; [|apply OF_refl]. of_plain. }
      eapply OF_trans; [exact A1|of_plain]. }
    eapply OF_trans; [exact A2|apply OF_putfd]. }
  destruct (negb (pidx (getfd s k) =? -1)); [|apply OF_refl].
  destruct (nth_z (pfds s) _); cbn [ARes halt]; [of_plain|exact I].
Qed.

Lemma poll_notify_sync_OF : forall s k, ARes (OF s) (fst (poll_notify_fd_sync s k)).
Proof. intros s k. unfold poll_notify_fd_sync. dm; cbn [fst]; [apply OF_refl|apply poll_notify_OF]. Qed.

Lemma m_notify_OF : forall s k, ARes (OF s) (m_notify_fd s k).
Proof. intros s k. unfold m_notify_fd. dm; [apply epoll_notify_OF|apply poll_notify_OF]. Qed.

Lemma notify_fd_OF : forall s k, ARes (OF s) (notify_fd s k).
Proof.
  intros s k. unfold notify_fd.
  eapply ARes_imp; [apply m_notify_OF|]. cbn beta. intros s1 A1.
  apply (OF_trans _ (putfd s k (recompute_wanted (getfd s k)))); [apply OF_putfd|exact A1].
Qed.

(* ---------- register / unregister ---------- *)
Lemma prologue_OF : forall s k, OF s (register_prologue s k).
Proof. intros s k. unfold register_prologue. apply OF_putfd. Qed.

Lemma epilogue_OF : forall s, OF s (register_epilogue s).
Proof. intros. of_plain. Qed.

Lemma fd_register_OF : forall s k, ARes (OF s) (fd_register s k).
Proof.
  intros s k. unfold fd_register. eapply ARes_bind; [apply notify_fd_OF|]. cbn beta.
  intros s1 A1. cbn [ARes]. eapply OF_trans; [apply prologue_OF|]. eapply OF_trans; [exact A1|apply epilogue_OF].
Qed.

Lemma fd_unregister_OF : forall s k, ARes (OF s) (fd_unregister s k).
Proof.
  intros s k. unfold fd_unregister. cbv zeta.
  set (s0 := set_active _ _).
  assert (A0 : OF s s0) by (unfold s0; of_plain).
  eapply ARes_bind; [apply notify_fd_OF|]. cbn beta. intros s1 A1.
  eapply ARes_bind with (P := OF s1).
  { destruct (is_epoll s1); [|apply OF_refl]. apply epoll_unregister_OF. }
  cbn beta. intros s2 A2. cbn [ARes].
  eapply OF_trans; [exact A0|]. eapply OF_trans; [exact A1|]. eapply OF_trans; [exact A2|].
  destruct (handled _) as [h|]; [destruct (h =? k)|]; of_plain.
Qed.

Lemma fd_set_handler_OF : forall s k band h, ARes (OF s) (fd_set_handler s k band h).
Proof.
  intros s k band h. unfold fd_set_handler. cbv zeta.
  match goal with |- ARes _ (if _ then notify_fd ?S k else _) => assert (A0 : OF s S) by apply OF_putfd end.
  destruct (registered (getfd s k)); [|exact A0].
  eapply ARes_imp; [apply notify_fd_OF|]. cbn beta. intros s1 A1. eapply OF_trans; eassumption.
Qed.

Lemma fd_register_try_OF : forall s k, ARes (OF s) (fst (fd_register_try s k)).
Proof.
  intros s k. unfold fd_register_try.
  set (s1 := register_prologue s k).
  set (s2 := putfd s1 k (recompute_wanted (getfd s1 k))).
  set (orig := wanted (getfd s2 k)).
  set (s3 := if orig =? 0 then putfd s2 k (fd_with_wanted (getfd s2 k) (M_IN + M_OUT)) else s2).
  assert (A3 : OF s s3).
  { eapply OF_trans; [apply prologue_OF|]. fold s1.
    apply (OF_trans _ s2); [apply OF_putfd|].
    unfold s3. destruct (orig =? 0); [apply OF_putfd|apply OF_refl]. }
  assert (FAIL : forall s4, OF s3 s4 ->
     ARes (OF s)
       ((fun s => let s := putfd s k (fd_with_registered (getfd s k) false) in
                  if is_epoll s then epoll_unregister_fd s k else R s) s4)).
  { intros s4 A4. cbv beta zeta. set (s5 := putfd s4 k _).
    assert (A5 : OF s s5).
    { eapply OF_trans; [exact A3|]. eapply OF_trans; [exact A4|]. apply OF_putfd. }
    destruct (is_epoll s5); [|exact A5].
    eapply ARes_imp; [apply epoll_unregister_OF|].
    cbn beta. intros s6 A6. eapply OF_trans; eassumption. }
  assert (OKC : forall s4, OF s3 s4 ->
     ARes (OF s)
       ((fun s => bind (if orig =? 0 then m_notify_fd (putfd s k (fd_with_wanted (getfd s k) 0)) k else R s)
            (fun s => R (register_epilogue s))) s4)).
  { intros s4 A4. cbv beta. eapply ARes_bind with (P := OF s4).
    - destruct (orig =? 0); [|apply OF_refl].
      eapply ARes_imp; [apply m_notify_OF|]. cbn beta. intros s5 A5.
      apply (OF_trans _ (putfd s4 k (fd_with_wanted (getfd s4 k) 0))); [apply OF_putfd|exact A5].
    - cbn beta. intros s5 A5. cbn [ARes].
      eapply OF_trans; [exact A3|]. eapply OF_trans; [exact A4|]. eapply OF_trans; [exact A5|apply epilogue_OF]. }
  destruct (is_epoll s3).
  - destruct (epoll_flush_one_ s3 k) as [s4 fl] eqn:F. apply flush_one__OF in F.
    destruct fl; cbn [fst bind]; [apply FAIL|apply OKC]; exact F.
  - pose proof (poll_notify_sync_OF s3 k) as Q.
    destruct (poll_notify_fd_sync s3 k) as [r fl]. cbn [fst] in Q.
    destruct fl; cbn [fst]; (eapply ARes_bind; [exact Q|]); [exact FAIL|exact OKC].
Qed.

Lemma make_ready_OF : forall s k b, OF s (make_ready s k b).
Proof.
  intros s k b. unfold make_ready.
  match goal with |- OF s (putfd ?S k _) => assert (A : OF s S) end.
  { dm; [apply OF_refl|of_plain]. }
  eapply OF_trans; [exact A|apply OF_putfd].
Qed.

Lemma activate_OF : forall s k bits, OF s (activate s k bits).
Proof.
  intros s k bits. unfold activate. cbv zeta.
  repeat match goal with |- context [if ?c then _ else _] => destruct c end;
    repeat (eapply OF_trans; [|apply make_ready_OF]); apply OF_refl.
Qed.

Lemma do_close_OF : forall s fd, OF s (do_close s fd) /\ k_open (kern (do_close s fd)) fd = None.
Proof.
  intros s fd. unfold do_close. pose proof (KO_close (kern s) fd) as K. pose proof (k_close_closed (kern s) fd) as C.
  destruct (k_close (kern s) fd) as [k1 ok]. cbn [fst] in K, C.
  destruct ok; (split; [constructor; [exact K|reflexivity]|exact C]).
Qed.
