(* CorePhase2TimeT1W.v -- the invariant T1 through the kernel waits: the wait returns
   within the bounds the loop owes (SReq), hence the tracker clauses 602 604 403 404 405
   (and 901 902, given that a posted raw event is readable) hold at every TRet / THang. *)
From Coq Require Import List ZArith Bool Lia.
From Ivv Require Import Core.Kernel Core.CoreTypes Core.CoreFd Core.CoreModel Core.Monitors Core.CoreSpec
  Core.CoreRel Core.CorePhase2TimeMon Core.CorePhase2TimeFr Core.CorePhase2TimeT1 Core.CorePhase2TimeT1L
  Core.CorePhase2TimeMon2 Core.CorePhase2TimeSl Core.CorePhase2TimeReq.
From Ivv Require Import Core.CoreInvBase Core.CoreInvDefs Core.CoreInvObj Core.CoreInvLoop Core.CoreInvWait Core.CoreInvTop Core.CoreInv.
From Ivv Require Import Core.CorePhase2K1Base Core.CorePhase2K1Fd Core.CorePhase2K1Act Core.CorePhase2K1Inv
  Core.CorePhase2K1Loop Core.CorePhase2K1Wait Core.CorePhase2K1Poll Core.CorePhase2K1.
From Ivv Require Timer.HeapModel.
Import ListNotations.
Local Open Scope Z_scope.

Section RA.
Context `{RAi : RawAssume}.

(* ---------- the armed timer descriptor ---------- *)
Definition ArmedT (s : core) (D : Z) : Prop :=
  exists v e, k_get (kern s) (tfd s) = Some v /\ vkind v = K_TIMERFD /\ vdeadline v = D /\ D <> 0 /\
              In e (ep (kern s)) /\ en_fd e = tfd s /\ en_events e = B_IN /\ en_enabled e = true.

Lemma ArmedT_KArmed : forall s D, ArmedT s D -> KArmed (kern s) D.
Proof.
  intros s D (v & e & G & K & DL & NZ & I & EF & EV & EN). exists e. split; [exact I|].
  exists v. rewrite EF. repeat split; try assumption. rewrite EV. reflexivity.
Qed.

Lemma ArmedT_TFs : forall s s' D, ArmedT s D -> TFs s s' -> ArmedT s' D.
Proof.
  intros s s' D (v & e & G & K & DL & NZ & I & EF & EV & EN) [KT' E1 E2 E3 E4].
  destruct (kt_vfd _ _ _ KT' v G) as (v' & G' & (S1 & S2 & S3 & S4)).
  exists v', e. rewrite E1. split; [exact G'|]. split; [congruence|]. split; [congruence|]. split; [exact NZ|].
  split; [apply (kt_ent _ _ _ KT' e I EF)|]. auto.
Qed.

Lemma dd_nz : forall a, dd a <> 0.
Proof. intros a. unfold dd. destruct (Z.eqb_spec a 0); lia. Qed.

Lemma LK_ArmedT : forall s, LK s -> method s = M_ET -> last_abs_count s = 5 -> ArmedT s (dd (last_abs s)).
Proof.
  intros s [TE K] M C. destruct (K M C) as (NT & v & G & D).
  destruct (TE NT) as (v' & e & O & KD & IE & EF & EV & EN).
  apply k_open_get in O. destruct O as [G' _]. rewrite G in G'. inversion G'; subst v'.
  exists v, e. repeat split; try assumption. apply dd_nz.
Qed.

(* ---------- a posted raw event is readable (supplied by the raw-event invariant) ---------- *)
Definition RawQe (s : core) : Prop := raw_assume -> forall j, inr16 j -> a_rw (mst s) j = true -> a_rwp (mst s) j = true ->
  exists e, In e (ep (kern s)) /\ ep_ready_bits (kern s) e <> 0.
Definition RawQp (s : core) : Prop := raw_assume -> forall j, inr16 j -> a_rw (mst s) j = true -> a_rwp (mst s) j = true ->
  exists p, In p (pfds s) /\ poll_revents (kern s) (fst p) (snd p) <> 0.

Lemma raw_quiet : forall m, (forall j, inr16 j -> a_rw m j = true -> a_rwp m j = true -> False) ->
  any_obj (fun j => a_rw m j && a_rwp m j) = false.
Proof.
  intros m H. apply any_obj_false. intros j JR. destruct (a_rw m j) eqn:A; [|reflexivity].
  destruct (a_rwp m j) eqn:B; [|reflexivity]. exfalso. exact (H j JR A B).
Qed.

(* results of the poll functions: the wait resets the list of tasks that ran *)
Definition Q1W (s : core) (r : res) : Prop :=
  match r with R s' => T1 s' /\ ran (mst s') = [] /\ BatchF s s' | Halt s' => G1 (mst s') end.

Lemma Q1W_l : forall s0 s r, BatchF s0 s -> Q1W s r -> Q1W s0 r.
Proof.
  intros s0 s r F Q. destruct r; cbn [Q1W] in *; [|exact Q]. destruct Q as (A & B & C).
  split; [exact A|split; [exact B|intros H; apply C; apply F; exact H]].
Qed.

Lemma T1_wait : forall s n call mx t i g, T1 s ->
  T1 (emit s (TWait n call mx t i g)) /\ ran (mst (emit s (TWait n call mx t i g))) = [].
Proof.
  intros s n call mx t i g T.
  assert (RN : ran (mst (emit s (TWait n call mx t i g))) = []) by (rewrite mst_emit, ran_step; reflexivity).
  split; [|exact RN]. apply (T1_upd s _ T).
  - left. repeat split.
  - left. rewrite mst_emit, a_stale_step. repeat split.
  - right. intros y Y. rewrite RN in Y. destruct Y.
  - rewrite mst_emit. apply G1_step; [apply (t1_good _ T)|reflexivity].
Qed.

(* the return of a wait, followed by the invalidation of the cached time *)
Lemma T1_ret : forall s k1 n fds, T1 s -> clock (kern s) <= clock k1 ->
  G1 (mon_step (mst s) (TRet n fds (clock k1))) ->
  T1 (invalidate_now (emit (set_kern s k1) (TRet n fds (clock k1)))) /\
  ran (mst (emit (set_kern s k1) (TRet n fds (clock k1)))) = ran (mst s).
Proof.
  intros s k1 n fds T C GR. set (s' := invalidate_now _).
  assert (M : mst s' = mon_step (mst s) (TRet n fds (clock k1))).
  { change (mst s') with (mst (emit (set_kern s k1) (TRet n fds (clock k1)))). rewrite mst_emit. reflexivity. }
  assert (RN : ran (mon_step (mst s) (TRet n fds (clock k1))) = ran (mst s)) by (rewrite ran_step; reflexivity).
  destruct (t1_stale _ T) as (ST1 & ST2 & ST3).
  split; [|rewrite mst_emit; exact RN].
  apply (T1_upd s s' T); rewrite ?M.
  - right. intros t I. destruct (t1_batch _ T t I) as [A _]. cbn [s' invalidate_now time_valid set_time].
    split; [|discriminate]. change (HeapModel.texp (heap s) t <= clock k1). lia.
  - right. split; [intros _ H; discriminate H|]. split; [change (1 <= clock k1); lia|intros H; discriminate H].
  - left. rewrite RN. repeat split.
  - exact GR.
Qed.

Lemma G1_ret_none : forall m fds clk, G1 m -> G1 (mon_step m (TRet None fds clk)).
Proof. intros m fds clk G. apply G1_step; [exact G|reflexivity]. Qed.

Section Wait.
Variable sc : scenario.
Hypothesis WF : wf_scenario sc.
Hypothesis do_action_ok : forall s a, InvW s -> wf_action a -> okr (StepW s) (do_action s a).

Lemma wait_enter_Q1 : forall b s, J b s -> T1 s -> Q1 s (wait_enter sc s).
Proof.
  intros b s Jh T. unfold wait_enter.
  destruct (sc_limit sc <? nwait (kern s) + 1); [apply Q1_halt; [exact T|exact I]|].
  set (s1 := set_kern s _).
  assert (J1 : J b s1) by (apply J_set_kern_plain; [assumption|apply ksame_set_nwait]).
  assert (TS1 : T1 s1) by (apply T1_set_kern; [exact T|apply ksame_set_nwait]).
  eapply Q1_l; [apply (RanF_eq s s1); reflexivity|].
  apply (run_acts_Q1 b); [exact J1|exact TS1|].
  eapply Forall_impl; [|apply (wf_waits sc WF)]. apply wait_action_wf.
Qed.

Definition W1 (s : core) (w : wres) : Prop :=
  match w with
  | WR s' _ => T1 (invalidate_now s') /\ ran (mst s') = [] /\ BatchF s s'
  | WE s' => T1 (invalidate_now s') /\ ran (mst s') = [] /\ BatchF s s'
  | WH r => match r with Halt s' => G1 (mst s') | R _ => False end
  end.

Lemma W1_l : forall s0 s w, BatchF s0 s -> W1 s w -> W1 s0 w.
Proof.
  intros s0 s w F Q. destruct w as [s' evs|s'|r]; cbn [W1] in *; try exact Q;
    destruct Q as (A & B & C); (split; [exact A|split; [exact B|intros H; apply C; apply F; exact H]]).
Qed.

Lemma do_epoll_wait_Q1 : forall s call maxev timeout A, J true s -> T1 s -> quit s = false -> InvW s ->
  1 <= maxev -> SReq s call timeout A -> (forall D, A D -> ArmedT s D) ->
  (forall s1, wait_enter sc s = R s1 -> RawQe s1) ->
  W1 s (do_epoll_wait sc s call maxev timeout).
Proof.
  intros s call maxev timeout A Jh T Q IW MX RQ AR HR. unfold do_epoll_wait.
  pose proof (wait_enter_post sc WF true s Jh) as P. pose proof (wait_enter_Q1 true s Jh T) as QE.
  pose proof (wait_enter_K sc WF do_action_ok s IW) as PKE.
  pose proof (wait_enter_WFr sc s) as WE. specialize (HR).
  destruct (wait_enter sc s) as [s1|s1]; [|exact QE].
  destruct P as (J1 & F1 & Q1'). destruct QE as [TS1 [_ BF1]]. unfold PK in PKE. cbn [ARes] in PKE. destruct PKE as [IW1 TF1].
  specialize (WE s1 WF eq_refl). specialize (HR s1 eq_refl).
  set (n := nwait (kern s1)).
  set (ev := TWait n call maxev timeout (interest_of (kern s1)) (ground (kern s1))).
  set (s2 := emit s1 ev).
  destruct (T1_wait s1 n call maxev timeout (interest_of (kern s1)) (ground (kern s1)) TS1) as [TS2 RN2]. fold ev s2 in TS2, RN2.
  assert (J2 : J true s2) by (apply J_wait_event; [assumption|congruence]).
  assert (BF2 : BatchF s s2) by (intros H; apply BF1; exact H).
  change (kern s2) with (kern s1).
  destruct (mem_z n (eintr_waits (flt (kern s1)))).
  - destruct (Z.ltb_spec 0 timeout).
    + set (k1 := k_set_clock (kern s2) (clock (kern s2) + timeout / 2)).
      destruct (T1_ret s2 k1 None [] TS2) as [X Y]; [cbn [k1 clock k_set_clock]; lia|apply G1_ret_none; apply (t1_good _ TS2)|].
      cbn [W1]. split; [exact X|]. split; [transitivity (ran (mst s2)); [exact Y|exact RN2]|exact BF2].
    + destruct (T1_ret s2 (kern s2) None [] TS2) as [X Y]; [lia|apply G1_ret_none; apply (t1_good _ TS2)|].
      cbn [W1]. split; [exact X|]. split; [transitivity (ran (mst s2)); [exact Y|exact RN2]|exact BF2].
  - (* the requirements at the sleeping point *)
    assert (RQ2 : SReq s2 call timeout A).
    { apply (SReq_keep s1 s2); [apply (SReq_WFr s s1); assumption|reflexivity|reflexivity|change (kern s2) with (kern s1); lia|].
      change (mst s2) with (mst (emit s1 ev)). rewrite mst_emit. unfold ev. rewrite a_stale_step. auto. }
    assert (AR2 : forall D, A D -> KArmed (kern s1) D).
    { intros D H. apply (ArmedT_KArmed s1). eapply ArmedT_TFs; [apply AR; exact H|exact TF1]. }
    assert (WC2 : w_call (mst s2) = call) by (change (mst s2) with (mst (emit s1 ev)); rewrite mst_emit; apply w_call_TWait).
    assert (CP : 0 <= clock (kern s1)) by (destruct (t1_stale _ TS1) as (_ & X & _); lia).
    assert (RW2 : RawQe s2).
    { intros RAh j JR A1 A2. change (mst s2) with (mst (emit s1 ev)) in A1, A2. rewrite mst_emit in A1, A2.
      unfold ev in A2. rewrite a_rwp_step in A2.
      assert (V : mview (mon_step (mst s1) ev) = mview (mst s1)) by apply mview_TWait.
      assert (E : a_rw (mon_step (mst s1) ev) = a_rw (mst s1)) by (change (a_rw (mview (mon_step (mst s1) ev)) = a_rw (mst s1)); rewrite V; reflexivity).
      rewrite E in A1. apply (HR RAh j JR A1 A2). }
    pose proof (epoll_sleep_spec (kern s1) maxev timeout (sc_rot sc n)) as KS.
    assert (KB : forall D, KSBa (kern s1) timeout A D ->
              match k_epoll_sleep (kern s1) maxev timeout (sc_rot sc n) with
              | WReady k1 _ => clock (kern s1) <= clock k1 <= Z.max (clock (kern s1)) D
              | WHang => False | _ => True end).
    { intros D SB. apply epoll_sleep_bound; [exact MX|exact CP|]. apply (KSBa_KSB _ _ A); assumption. }
    assert (KR : (exists e, In e (ep (kern s1)) /\ ep_ready_bits (kern s1) e <> 0) ->
              match k_epoll_sleep (kern s1) maxev timeout (sc_rot sc n) with
              | WReady k1 _ => clock k1 = clock (kern s1) | WHang => False | _ => True end).
    { intros H. apply epoll_sleep_ready; assumption. }
    destruct (k_epoll_sleep (kern s1) maxev timeout (sc_rot sc n)) as [k1 evs|k1| |].
    + destruct KS as (K1 & K2 & K3 & K4).
      assert (GR : G1 (mon_step (mst s2) (TRet (Some (Z.of_nat (length evs))) (map (fun e => fst (fst e)) evs) (clock k1)))).
      { destruct (SReq_ret s2 call timeout A (clock k1) J2 RQ2 WC2) as [C602 C04].
        { intros D SB. specialize (KB D SB). change (kern s2) with (kern s1). lia. }
        apply G1_TRet_some; [apply (t1_good _ TS2)|exact C602| |exact C04].
        intros RAh SL. apply raw_quiet. intros j JR A1 A2. specialize (KR (RW2 RAh j JR A1 A2)).
        rewrite (ag_clk _ _ (j_ag _ _ J2)) in SL. change (kern s2) with (kern s1) in SL. lia. }
      destruct (T1_ret s2 k1 (Some (Z.of_nat (length evs))) (map (fun e => fst (fst e)) evs) TS2 K2 GR) as [X Y].
      cbn [W1]. split; [exact X|]. split; [transitivity (ran (mst s2)); [exact Y|exact RN2]|exact BF2].
    + destruct KS.
    + cbn [W1 halt]. rewrite mst_emit.
      destruct (SReq_hang s2 call timeout A J2 RQ2) as [H1 H2]; [intros D SB; exact (KB D SB)|].
      apply G1_THang; [apply (t1_good _ TS2)|exact H1|exact H2|].
      intros RAh. apply raw_quiet. intros j JR A1 A2. exact (KR (RW2 RAh j JR A1 A2)).
    + destruct KS.
Qed.

Lemma T1_to_relative : forall s abs, T1 s ->
  T1 (fst (to_relative s abs)) /\ ran (mst (fst (to_relative s abs))) = ran (mst s).
Proof.
  intros s abs T. unfold to_relative. destruct abs as [a|]; cbn [fst].
  - split; [apply T1_validate; exact T|apply ran_validate].
  - split; [exact T|reflexivity].
Qed.

Lemma T1_to_msec : forall s abs, T1 s ->
  T1 (fst (to_msec s abs)) /\ ran (mst (fst (to_msec s abs))) = ran (mst s).
Proof.
  intros s abs T. unfold to_msec. pose proof (T1_to_relative s abs T) as P.
  destruct (to_relative s abs) as [s1 [r|]]; exact P.
Qed.

Lemma epoll_process_FF : forall evs s re tm, FF s (fst (fst (epoll_process s evs re tm))).
Proof.
  induction evs as [|[[fd bits] data] evs IH]; intros s re tm; cbn [epoll_process]; [apply FF_refl|].
  destruct (data =? -1); [apply IH|]. destruct ((data =? -2) && (method s =? M_ET)); [apply IH|].
  eapply FF_trans; [apply activate_FF|apply IH].
Qed.

Lemma poll_activate_FF : forall keys revs s, FF s (poll_activate s keys revs).
Proof.
  induction keys as [|k keys IH]; intros revs s; cbn [poll_activate]; [apply FF_refl|].
  destruct revs as [|r revs]; [apply FF_refl|]. eapply FF_trans; [apply activate_FF|apply IH].
Qed.

Lemma tfd_settime_F0 : forall s d, F0 s (tfd_settime s d).
Proof.
  intros s d. unfold tfd_settime. eapply F0_trans; [apply F0_set_kern; apply ksame_settime|].
  split; [reflexivity|apply TrX_emit; exact I].
Qed.

Lemma set_poll_timeout_F0 : forall s a, F0r s (fst (set_poll_timeout s a)).
Proof.
  intros s a. unfold set_poll_timeout.
  destruct (tfd s =? -1); [|cbn [fst]; apply tfd_settime_F0].
  pose proof (ksame_timerfd_create (kern s)) as KS.
  destruct (k_timerfd_create (kern s)) as [k1 [fd|e]]; cbn [fst] in KS.
  - set (s1 := set_epoll (set_kern s k1) (epfd s) fd (pwait2 s)).
    assert (A1 : F0 s s1).
    { eapply F0_trans; [apply F0_set_kern; exact KS|]. apply F0_plain; reflexivity. }
    destruct (ctl_retry s1 CTL_ADD fd B_IN (-2)) as [s2 r] eqn:CT.
    pose proof (ctl_retry_F0 _ _ _ _ _ _ _ CT) as A2.
    destruct r; cbn [fst].
    + eapply F0_trans; [exact A1|]. eapply F0_trans; [exact A2|]. apply (F0_halt s2 TFatal). exact I.
    + eapply F0_trans; [exact A1|]. eapply F0_trans; [exact A2|]. apply tfd_settime_F0.
  - cbn [fst]. eapply F0_trans; [apply F0_set_kern; exact KS|]. apply F0_plain; reflexivity.
Qed.

Lemma timeout_check_F0 : forall s abs, F0r s (fst (timeout_check s abs)).
Proof.
  intros s abs. unfold timeout_check.
  destruct ((last_abs_count s =? 5) && (0 <=? abs_cmp abs (last_abs s))); [apply F0_refl|].
  set (s1 := if last_abs_count s =? 5 then tfd_settime s 0 else s).
  assert (A1 : F0 s s1) by (unfold s1; destruct (last_abs_count s =? 5); [apply tfd_settime_F0|apply F0_refl]).
  destruct (abs_cmp abs (last_abs s) =? 0).
  - set (s2 := if last_abs_count s1 <? 5 then set_last_abs s1 (last_abs s1) (last_abs_count s1 + 1) else s1).
    assert (A2 : F0 s1 s2) by (unfold s2; destruct (last_abs_count s1 <? 5); [apply F0_plain; reflexivity|apply F0_refl]).
    destruct (last_abs_count s2 =? 5); [|cbn [fst]; eapply F0_trans; eassumption].
    destruct abs as [a|]; [|cbn [fst]; eapply F0_trans; eassumption].
    eapply F0_trans; [exact A1|]. eapply F0_trans; [exact A2|]. apply set_poll_timeout_F0.
  - destruct abs as [a|]; cbn [fst]; (eapply F0_trans; [exact A1|apply F0_plain; reflexivity]).
Qed.

(* ---------- plumbing for the raw-event requirement ---------- *)
(* states that differ only in the cached time and in back-end flags *)
Record rawsame (s s0 : core) : Prop := {
  rs_kern : kern s0 = kern s; rs_trace : trace s0 = trace s; rs_fdt : fdt s0 = fdt s;
  rs_pfds : pfds s0 = pfds s; rs_pkeys : pkeys s0 = pkeys s; rs_notify : notify s0 = notify s;
  rs_rw : rw_reg s0 = rw_reg s; rs_rfd : rw_rfd s0 = rw_rfd s; rs_wfd : rw_wfd s0 = rw_wfd s;
  rs_efd : efd_raw s0 = efd_raw s }.
Lemma rawsame_refl : forall s, rawsame s s. Proof. intros; constructor; reflexivity. Qed.
Lemma rawsame_trans : forall a b c, rawsame a b -> rawsame b c -> rawsame a c.
Proof. intros a b c [] []. constructor; congruence. Qed.

Definition RawE (s : core) : Prop := forall s0 s1, rawsame s s0 -> wait_enter sc s0 = R s1 -> RawQe s1.
Definition RawP (s : core) : Prop := forall s0 s1, rawsame s s0 -> wait_enter sc s0 = R s1 -> RawQp s1.
Definition RawEF (s : core) : Prop :=
  forall s1, epoll_flush_pending (S (length (notify s))) s = R s1 -> RawE s1.
Definition RawM (s : core) : Prop := if is_epoll s then RawEF s else RawP s.

Lemma RawE_same : forall s s0, RawE s -> rawsame s s0 -> RawE s0.
Proof. intros s s0 H R s1 s2 R1 E. apply (H s1 s2); [eapply rawsame_trans; eassumption|exact E]. Qed.
Lemma RawP_same : forall s s0, RawP s -> rawsame s s0 -> RawP s0.
Proof. intros s s0 H R s1 s2 R1 E. apply (H s1 s2); [eapply rawsame_trans; eassumption|exact E]. Qed.

Lemma rawsame_validate : forall s, rawsame s (validate_now s).
Proof. intros s. unfold validate_now. destruct (time_valid s); constructor; reflexivity. Qed.
Lemma rawsame_to_relative : forall s abs, rawsame s (fst (to_relative s abs)).
Proof. intros s abs. unfold to_relative. destruct abs; cbn [fst]; [apply rawsame_validate|apply rawsame_refl]. Qed.
Lemma rawsame_to_msec : forall s abs, rawsame s (fst (to_msec s abs)).
Proof.
  intros s abs. unfold to_msec. pose proof (rawsame_to_relative s abs) as P.
  destruct (to_relative s abs) as [s1 [r|]]; exact P.
Qed.

(* ---------- the timeout handed to the kernel ---------- *)
Definition AbsReq (s : core) (abs : option Z) (A : Z -> Prop) : Prop :=
  match abs with
  | Some a => AbsOf s = Some a /\ cur s = None /\ HeapModel.batch (heap s) = []
  | None => forall call, SReq s call (-1) A
  end.

Lemma to_relative_shape : forall s abs,
  fst (to_relative s abs) = (match abs with Some _ => validate_now s | None => s end) /\
  snd (to_relative s abs) = (match abs with Some a => Some (rel_of (validate_now s) a) | None => None end).
Proof. intros s abs. destruct abs; split; reflexivity. Qed.

Lemma AbsOf_validate : forall s, AbsOf (validate_now s) = AbsOf s.
Proof. intros s. unfold validate_now. destruct (time_valid s); reflexivity. Qed.

Lemma validate_valid : forall s, time_valid (validate_now s) = true.
Proof. intros s. unfold validate_now. destruct (time_valid s) eqn:E; [exact E|reflexivity]. Qed.

Lemma SReq_validate : forall s call timeout A, SReq s call timeout A -> SReq (validate_now s) call timeout A.
Proof.
  intros s call timeout A R. unfold validate_now. destruct (time_valid s); [exact R|].
  apply (SReq_keep s _ call timeout A R); try reflexivity. intros H. split; [exact H|reflexivity].
Qed.

(* requirement for the call made by the wait functions, from the loop's abs *)
Lemma AbsReq_SReq : forall s abs A call, J true s -> T1 s -> AbsReq s abs A ->
  let s1 := fst (to_relative s abs) in
  let rel := snd (to_relative s abs) in
  SReq s1 call (match rel with Some r => ns_of call r | None => -1 end) A.
Proof.
  intros s abs A call Jh T RA. destruct abs as [a|]; cbn [to_relative fst snd].
  - destruct RA as (AO & C & B).
    destruct (J_validate true s Jh) as (J1 & _ & _ & _).
    pose proof (T1_validate s T) as TS1.
    pose proof (SReq_of_abs (validate_now s) call J1 TS1) as Q.
    rewrite AbsOf_validate, AO in Q.
    apply (SReq_weaken _ _ _ (fun _ => False)); [intros D []|].
    apply Q; [unfold validate_now; destruct (time_valid s); exact C|unfold validate_now; destruct (time_valid s); exact B|].
    intros _. apply validate_valid.
  - apply RA.
Qed.

Lemma epoll_wait_m_Q1 : forall s abs maxev A, J true s -> T1 s -> quit s = false -> InvW s ->
  1 <= maxev -> AbsReq s abs A -> (forall D, A D -> ArmedT s D) -> RawE s ->
  W1 s (epoll_wait_m sc s abs maxev).
Proof.
  intros s abs maxev A Jh T Q IW MX RA AR HR. unfold epoll_wait_m.
  (* the state after to_relative, shared by all paths *)
  pose proof (to_relative_post true s abs Jh) as P. pose proof (T1_to_relative s abs T) as P1.
  pose proof (rawsame_to_relative s abs) as RS.
  destruct (to_relative_shape s abs) as [SH1 SH2].
  assert (IW1 : InvW (fst (to_relative s abs))).
  { rewrite SH1. destruct abs; [apply InvW_validate; exact IW|exact IW]. }
  assert (TF1 : TFs s (fst (to_relative s abs))).
  { rewrite SH1. destruct abs; [|apply TFs_refl]. unfold validate_now. destruct (time_valid s); apply TFs_plain; reflexivity. }
  assert (BF1 : BatchF s (fst (to_relative s abs))).
  { rewrite SH1. destruct abs; [|intros H; exact H]. unfold validate_now. destruct (time_valid s); intros H; exact H. }
  assert (VIA : forall s0, (s0 = s \/ s0 = set_epoll s (epfd s) (tfd s) false) ->
     W1 s (let '(s1, ms) := to_msec s0 abs in do_epoll_wait sc s1 0 maxev (if ms <? 0 then -1 else ms * 1000000))).
  { intros s0 S0.
    assert (K0 : J true s0 /\ T1 s0 /\ InvW s0 /\ quit s0 = false /\ AbsReq s0 abs A /\ (forall D, A D -> ArmedT s0 D) /\
                 rawsame s s0 /\ BatchF s s0).
    { destruct S0 as [-> | ->]; [split; [exact Jh|split; [exact T|split; [exact IW|split; [exact Q|split; [exact RA|split; [exact AR|split; [apply rawsame_refl|intros H; exact H]]]]]]]|].
      split; [apply (J_irr true s _ Jh); reflexivity|]. split; [apply (T1_setters s _ T); reflexivity|].
      split; [apply (InvW_coresame s); [constructor; reflexivity|apply (ms_nobad _ (iw_misc _ IW))|exact IW]|].
      split; [exact Q|]. split; [|split; [intros D H; exact (AR D H)|split; [constructor; reflexivity|intros H; exact H]]].
      destruct abs; [exact RA|]. intros call. apply (SReq_keep s _ call (-1) A (RA call)); try reflexivity.
      intros H. split; [exact H|reflexivity]. }
    destruct K0 as (J0 & T0 & I0 & Q0 & RA0 & AR0 & RS0 & BF0).
    unfold to_msec.
    pose proof (to_relative_post true s0 abs J0) as P0. pose proof (T1_to_relative s0 abs T0) as P01.
    pose proof (rawsame_to_relative s0 abs) as RS01. pose proof (AbsReq_SReq s0 abs A 0 J0 T0 RA0) as SR0. cbv zeta in SR0.
    destruct (to_relative_shape s0 abs) as [SH01 SH02].
    assert (IW01 : InvW (fst (to_relative s0 abs))).
    { rewrite SH01. destruct abs; [apply InvW_validate; exact I0|exact I0]. }
    assert (TF01 : TFs s0 (fst (to_relative s0 abs))).
    { rewrite SH01. destruct abs; [|apply TFs_refl]. unfold validate_now. destruct (time_valid s0); apply TFs_plain; reflexivity. }
    assert (BF01 : BatchF s0 (fst (to_relative s0 abs))).
    { rewrite SH01. destruct abs; [|intros H; exact H]. unfold validate_now. destruct (time_valid s0); intros H; exact H. }
    destruct (to_relative s0 abs) as [s1 rel]. cbn [fst snd] in *. destruct P0 as (J1 & F1 & Q1').
    apply (W1_l s s1); [intros H; apply BF01; apply BF0; exact H|].
    destruct rel as [r|].
    - assert (MS : msec_of_rel r <? 0 = false).
      { apply Z.ltb_ge. apply msec_nonneg. destruct abs as [a|]; [|discriminate SH02]. inversion SH02.
        unfold rel_of. destruct (Z.ltb_spec (time (validate_now s0)) a); lia. }
      rewrite MS. change (msec_of_rel r * 1000000) with (ns_of 0 r).
      apply (do_epoll_wait_Q1 s1 0 maxev (ns_of 0 r) A); try assumption; [apply P01|congruence| |].
      + intros D H. eapply ArmedT_TFs; [apply AR0; exact H|exact TF01].
      + intros s2 E. apply (HR s1 s2); [eapply rawsame_trans; eassumption|exact E].
    - change (-1 <? 0) with true. cbv iota.
      apply (do_epoll_wait_Q1 s1 0 maxev (-1) A); try assumption; [apply P01|congruence| |].
      + intros D H. eapply ArmedT_TFs; [apply AR0; exact H|exact TF01].
      + intros s2 E. apply (HR s1 s2); [eapply rawsame_trans; eassumption|exact E]. }
  destruct (pwait2 s); [|apply VIA; left; reflexivity].
  pose proof (AbsReq_SReq s abs A 1 Jh T RA) as SR. cbv zeta in SR.
  destruct (to_relative s abs) as [s1 rel]. cbn [fst snd] in *. destruct P as (J1 & F1 & Q1').
  destruct (no_pwait2 (flt (kern s1)) || perm_pwait2 (flt (kern s1))).
  - (* fall back to epoll_wait: to_relative is recomputed from the same abs *)
    assert (E1 : s1 = match abs with Some _ => validate_now s | None => s end) by exact SH1.
    set (s2 := set_epoll s1 (epfd s1) (tfd s1) false).
    (* s2 is s1 with the flag cleared; redo the argument from s1 *)
    assert (K2 : J true s2 /\ T1 s2 /\ InvW s2 /\ quit s2 = false /\ AbsReq s2 abs A /\ (forall D, A D -> ArmedT s2 D) /\
                 rawsame s s2 /\ BatchF s s2).
    { split; [apply (J_irr true s1 s2 J1); reflexivity|]. split; [apply (T1_setters s1 s2 (proj1 P1)); reflexivity|].
      split; [apply (InvW_coresame s1); [constructor; reflexivity|apply (ms_nobad _ (iw_misc _ IW1))|exact IW1]|].
      split; [change (quit s1 = false); congruence|].
      split; [|split; [intros D H; apply (ArmedT_TFs s1 s2 D); [eapply ArmedT_TFs; [apply AR; exact H|exact TF1]|apply TFs_plain; reflexivity]|
               split; [eapply rawsame_trans; [exact RS|constructor; reflexivity]|intros H; apply BF1; exact H]]].
      destruct abs as [a|]; cbn [AbsReq] in *.
      - destruct RA as (AO & C & B). unfold s2. change (AbsOf (set_epoll s1 (epfd s1) (tfd s1) false)) with (AbsOf s1).
        cbn [cur heap set_epoll]. rewrite E1, AbsOf_validate.
        split; [exact AO|]. unfold validate_now. destruct (time_valid s); split; assumption.
      - unfold s2. rewrite E1. intros call. apply (SReq_keep s _ call (-1) A (RA call)); try reflexivity.
        intros H. split; [exact H|reflexivity]. }
    destruct K2 as (J2 & T2 & I2 & Q2 & RA2 & AR2 & RS2 & BF2).
    unfold to_msec.
    pose proof (to_relative_post true s2 abs J2) as P0. pose proof (T1_to_relative s2 abs T2) as P01.
    pose proof (rawsame_to_relative s2 abs) as RS01. pose proof (AbsReq_SReq s2 abs A 0 J2 T2 RA2) as SR0. cbv zeta in SR0.
    destruct (to_relative_shape s2 abs) as [SH01 SH02].
    assert (IW01 : InvW (fst (to_relative s2 abs))).
    { rewrite SH01. destruct abs; [apply InvW_validate; exact I2|exact I2]. }
    assert (TF01 : TFs s2 (fst (to_relative s2 abs))).
    { rewrite SH01. destruct abs; [|apply TFs_refl]. unfold validate_now. destruct (time_valid s2); apply TFs_plain; reflexivity. }
    assert (BF01 : BatchF s2 (fst (to_relative s2 abs))).
    { rewrite SH01. destruct abs; [|intros H; exact H]. unfold validate_now. destruct (time_valid s2); intros H; exact H. }
    destruct (to_relative s2 abs) as [s3 rel3]. cbn [fst snd] in *. destruct P0 as (J3 & F3 & Q3').
    apply (W1_l s s3); [intros H; apply BF01; apply BF2; exact H|].
    destruct rel3 as [r|].
    + assert (MS : msec_of_rel r <? 0 = false).
      { apply Z.ltb_ge. apply msec_nonneg. destruct abs as [a|]; [|discriminate SH02]. inversion SH02.
        unfold rel_of. destruct (Z.ltb_spec (time (validate_now s2)) a); lia. }
      rewrite MS. change (msec_of_rel r * 1000000) with (ns_of 0 r).
      apply (do_epoll_wait_Q1 s3 0 maxev (ns_of 0 r) A); try assumption; [apply P01|congruence| |].
      * intros D H. eapply ArmedT_TFs; [apply AR2; exact H|exact TF01].
      * intros s4 E. apply (HR s3 s4); [eapply rawsame_trans; eassumption|exact E].
    + change (-1 <? 0) with true. cbv iota.
      apply (do_epoll_wait_Q1 s3 0 maxev (-1) A); try assumption; [apply P01|congruence| |].
      * intros D H. eapply ArmedT_TFs; [apply AR2; exact H|exact TF01].
      * intros s4 E. apply (HR s3 s4); [eapply rawsame_trans; eassumption|exact E].
  - apply (W1_l s s1); [exact BF1|].
    assert (TO : match rel with Some r => r | None => -1 end = match rel with Some r => ns_of 1 r | None => -1 end).
    { destruct rel; reflexivity. }
    rewrite TO.
    apply (do_epoll_wait_Q1 s1 1 maxev _ A); try assumption; [apply P1|congruence| |].
    + intros D H. eapply ArmedT_TFs; [apply AR; exact H|exact TF1].
    + intros s2 E. apply (HR s1 s2); [exact RS|exact E].
Qed.

Lemma Q1_Q1W : forall s r, ran (mst s) = [] -> Q1 s r -> Q1W s r.
Proof.
  intros s r RN Q. destruct r; cbn [Q1 Q1W] in *; [|exact Q]. destruct Q as [A [B C]].
  split; [exact A|split; [apply B; exact RN|exact C]].
Qed.

Lemma AbsReq_F0 : forall s s' abs A, AbsReq s abs A -> F0 s s' -> AbsReq s' abs A.
Proof.
  intros s s' abs A RA F. destruct abs as [a|]; cbn [AbsReq] in *.
  - destruct F as [L _]. destruct (lf_fields _ _ L) as (E1 & _ & _ & E4 & E5 & _).
    unfold AbsOf, soonest_timeout in *. rewrite E1, E4, E5. exact RA.
  - intros call. eapply SReq_F0; [apply RA|exact F].
Qed.

Lemma maxev_pos : forall s, InvW s -> 1 <= (if method s =? M_ET then numfds s + 1 else if numfds s =? 0 then 1 else numfds s).
Proof.
  intros s IW. pose proof (ac_numfds _ (iw_acct _ IW)) as N.
  pose proof (cntf_nonneg (fun k => registered (fdt s k)) (zseq 0 33)) as P. rewrite <- N in P.
  destruct (method s =? M_ET); [lia|]. destruct (Z.eqb_spec (numfds s) 0); lia.
Qed.

Lemma epoll_poll_Q1 : forall s abs A, J true s -> T1 s -> quit s = false -> is_epoll s = true -> InvW s ->
  AbsReq s abs A -> (forall D, A D -> ArmedT s D) -> RawEF s ->
  Q1W s (fst (epoll_poll sc s abs)).
Proof.
  intros s abs A Jh T Q IE IW RA AR HR. unfold epoll_poll.
  pose proof (J_inner_res s _ _ Jh (flush_pending_res (S (length (notify s))) s (j_fd _ _ Jh) IE)) as P.
  pose proof (flush_pending_FF (S (length (notify s))) s) as FP.
  destruct (flush_pending_K s IW IE) as (s1 & EF & IW1 & TF1 & NF1 & _).
  specialize (HR s1 EF). rewrite EF in *.
  destruct P as (J1 & F1 & E1); [intros s1' (X & Y & _); split; [apply Inner_W; exact X|exact Y]|].
  unfold FFr in FP. cbn [res_state] in FP.
  assert (TS1 : T1 s1) by (apply (T1_F0 s s1 T); apply FF_F0; exact FP).
  assert (BF1 : BatchF s s1) by (intros H; rewrite (F0_heap _ _ (FF_F0 _ _ FP)); exact H).
  assert (Q1' : quit s1 = false).
  { destruct E1 as (X & _). rewrite (sm_quit _ _ (in_same _ _ X)). exact Q. }
  set (maxev := if method s =? M_ET then numfds s + 1 else if numfds s =? 0 then 1 else numfds s).
  assert (MX : 1 <= maxev) by (apply maxev_pos; exact IW).
  pose proof (epoll_wait_m_post sc WF s1 abs maxev J1 Q1') as W.
  pose proof (epoll_wait_m_Q1 s1 abs maxev A J1 TS1 Q1' IW1 MX (AbsReq_F0 _ _ _ _ RA (FF_F0 _ _ FP))
                (fun D H => ArmedT_TFs _ _ _ (AR D H) TF1) HR) as WQ.
  apply (Q1W_l s s1 _ BF1).
  destruct (epoll_wait_m sc s1 abs maxev) as [s2 evs|s2|r]; cbn [WPost W1] in W, WQ.
  - destruct W as (J2 & F2 & OK2). destruct WQ as (TS3 & RN2 & BF2).
    destruct (J_invalidate true s2 J2) as (J3 & F3 & _).
    set (s3 := invalidate_now s2) in *.
    assert (OK3 : forall ev, In ev evs -> EvOk s3 ev) by (intros ev H; exact (OK2 ev H)).
    destruct (epoll_process_post evs s3 false false J3 OK3) as [J4 F4].
    pose proof (epoll_process_FF evs s3 false false) as FF4.
    destruct (epoll_process s3 evs false false) as [[s4 run_events] tmr]. cbn [fst] in J4, F4, FF4. cbn [fst].
    assert (TS4 : T1 s4) by (apply (T1_F0 s3 s4 TS3); apply FF_F0; exact FF4).
    assert (RN4 : ran (mst s4) = []) by (rewrite (F0_ran s3 s4 (FF_F0 _ _ FF4)); exact RN2).
    assert (BF4 : BatchF s1 s4) by (intros H; rewrite (F0_heap _ _ (FF_F0 _ _ FF4)); apply BF2; exact H).
    assert (PR : Post true s4 (if tmr then match k_read (kern s4) (tfd s4) 8 with
                                           | (k1, inl _) => R (set_kern s4 k1)
                                           | (k1, inr _) => halt (set_kern s4 k1) TFatal
                                           end else R s4)).
    { destruct tmr; [|apply Post_same; assumption].
      pose proof (ksame_read (kern s4) (tfd s4) 8) as KS.
      destruct (k_read (kern s4) (tfd s4) 8) as [k1 [x|e]]; cbn [fst] in KS.
      - cbn [Post]. split; [apply J_set_kern_plain; assumption|apply Fr_plain; reflexivity].
      - cbn [Post halt]. rewrite mst_emit. apply good_quiet; [left; reflexivity|apply (j_good _ _ J4)]. }
    assert (QR : Q1 s4 (if tmr then match k_read (kern s4) (tfd s4) 8 with
                                           | (k1, inl _) => R (set_kern s4 k1)
                                           | (k1, inr _) => halt (set_kern s4 k1) TFatal
                                           end else R s4)).
    { destruct tmr; [|apply Q1_same; assumption].
      pose proof (ksame_read (kern s4) (tfd s4) 8) as KS.
      destruct (k_read (kern s4) (tfd s4) 8) as [k1 [x|e]]; cbn [fst] in KS.
      - cbn [Q1]. split; [apply T1_set_kern; assumption|apply RanF_eq; reflexivity].
      - eapply Q1_l; [apply (RanF_eq s4 (set_kern s4 k1)); reflexivity|]. apply Q1_halt; [apply T1_set_kern; assumption|exact I]. }
    apply (Q1W_l s1 s4 _ BF4). apply (Q1_Q1W s4); [exact RN4|].
    eapply (Q1_bind true); [exact PR|exact QR|].
    intros s5 J5 T5. destruct run_events; [apply run_pending_events_Q1; assumption|apply Q1_same; assumption].
  - cbn [fst Q1W]. destruct WQ as (X & Y & Z). split; [exact X|split; [exact Y|exact Z]].
  - cbn [fst]. destruct r; [contradiction|exact WQ].
Qed.

Lemma do_poll_wait_Q1 : forall s call timeout, J true s -> T1 s -> quit s = false -> InvW s ->
  SReq s call timeout (fun _ => False) -> RawP s ->
  Q1W s (fst (do_poll_wait sc s call timeout)).
Proof.
  intros s call timeout Jh T Q IW RQ HR. unfold do_poll_wait.
  pose proof (wait_enter_post sc WF true s Jh) as P. pose proof (wait_enter_Q1 true s Jh T) as QE.
  pose proof (wait_enter_WFr sc s) as WE. specialize (HR s).
  destruct (wait_enter sc s) as [s1|s1]; [|exact QE].
  destruct P as (J1 & F1 & Q1'). destruct QE as [TS1 [_ BF1]].
  specialize (WE s1 WF eq_refl). specialize (HR s1 (rawsame_refl s) eq_refl).
  set (n := nwait (kern s1)).
  set (ev := TWait n call (Z.of_nat (length (pfds s1))) timeout (interest_of_pfds (pfds s1)) (ground (kern s1))).
  set (s2 := emit s1 ev).
  destruct (T1_wait s1 n call (Z.of_nat (length (pfds s1))) timeout (interest_of_pfds (pfds s1)) (ground (kern s1)) TS1) as [TS2 RN2].
  fold ev s2 in TS2, RN2.
  assert (J2 : J true s2) by (apply J_wait_event; [assumption|congruence]).
  assert (BF2 : BatchF s s2) by (intros H; apply BF1; exact H).
  change (kern s2) with (kern s1). change (pfds s2) with (pfds s1).
  destruct (mem_z n (eintr_waits (flt (kern s1)))).
  - cbn [fst Q1W].
    destruct (Z.ltb_spec 0 timeout).
    + set (k1 := k_set_clock (kern s2) (clock (kern s2) + timeout / 2)).
      destruct (T1_ret s2 k1 None [] TS2) as [X Y]; [cbn [k1 clock k_set_clock]; lia|apply G1_ret_none; apply (t1_good _ TS2)|].
      split; [exact X|]. split; [transitivity (ran (mst s2)); [exact Y|exact RN2]|exact BF2].
    + destruct (T1_ret s2 (kern s2) None [] TS2) as [X Y]; [lia|apply G1_ret_none; apply (t1_good _ TS2)|].
      split; [exact X|]. split; [transitivity (ran (mst s2)); [exact Y|exact RN2]|exact BF2].
  - assert (RQ2 : SReq s2 call timeout (fun _ => False)).
    { apply (SReq_keep s1 s2); [apply (SReq_WFr s s1); assumption|reflexivity|reflexivity|change (kern s2) with (kern s1); lia|].
      change (mst s2) with (mst (emit s1 ev)). rewrite mst_emit. unfold ev. rewrite a_stale_step. auto. }
    assert (WC2 : w_call (mst s2) = call) by (change (mst s2) with (mst (emit s1 ev)); rewrite mst_emit; apply w_call_TWait).
    assert (RW2 : RawQp s2).
    { intros RAh j JR A1 A2. change (mst s2) with (mst (emit s1 ev)) in A1, A2. rewrite mst_emit in A1, A2.
      unfold ev in A2. rewrite a_rwp_step in A2.
      assert (V : mview (mon_step (mst s1) ev) = mview (mst s1)) by apply mview_TWait.
      assert (E : a_rw (mon_step (mst s1) ev) = a_rw (mst s1)) by (change (a_rw (mview (mon_step (mst s1) ev)) = a_rw (mst s1)); rewrite V; reflexivity).
      rewrite E in A1. apply (HR RAh j JR A1 A2). }
    pose proof (poll_sleep_spec (kern s1) (pfds s1) timeout) as KS.
    assert (KB : forall D, KSBa (kern s1) timeout (fun _ => False) D ->
              match k_poll_sleep (kern s1) (pfds s1) timeout with
              | PReady k1 _ => clock (kern s1) <= clock k1 <= Z.max (clock (kern s1)) D
              | PHang => False end).
    { intros D [[TP ->]|[]]. pose proof (poll_sleep_bound (kern s1) (pfds s1) timeout TP) as B.
      destruct (k_poll_sleep (kern s1) (pfds s1) timeout); [lia|exact B]. }
    assert (KR : (exists p, In p (pfds s1) /\ poll_revents (kern s1) (fst p) (snd p) <> 0) ->
              match k_poll_sleep (kern s1) (pfds s1) timeout with
              | PReady k1 _ => clock k1 = clock (kern s1) | PHang => False end).
    { intros H. apply poll_sleep_ready; assumption. }
    destruct (k_poll_sleep (kern s1) (pfds s1) timeout) as [k1 revs|]; cbn [fst Q1W].
    + destruct KS as (K1 & K2 & K3).
      assert (GR : G1 (mon_step (mst s2) (TRet (Some (count_nonzero revs)) (reported_pfds (pfds s1) revs) (clock k1)))).
      { destruct (SReq_ret s2 call timeout (fun _ => False) (clock k1) J2 RQ2 WC2) as [C602 C04].
        { intros D SB. specialize (KB D SB). change (kern s2) with (kern s1). lia. }
        apply G1_TRet_some; [apply (t1_good _ TS2)|exact C602| |exact C04].
        intros RAh SL. apply raw_quiet. intros j JR A1 A2. specialize (KR (RW2 RAh j JR A1 A2)).
        rewrite (ag_clk _ _ (j_ag _ _ J2)) in SL. change (kern s2) with (kern s1) in SL. lia. }
      destruct (T1_ret s2 k1 (Some (count_nonzero revs)) (reported_pfds (pfds s1) revs) TS2 K2 GR) as [X Y].
      set (s3 := emit (set_kern s2 k1) _) in *.
      pose proof (poll_activate_FF (pkeys s3) revs (invalidate_now s3)) as FA.
      split; [apply (T1_F0 _ _ X); apply FF_F0; exact FA|].
      split; [rewrite (F0_ran _ _ (FF_F0 _ _ FA)); transitivity (ran (mst s2)); [exact Y|exact RN2]|].
      intros H. rewrite (F0_heap _ _ (FF_F0 _ _ FA)). apply BF2. exact H.
    + unfold halt. cbn [fst Q1W]. rewrite mst_emit.
      destruct (SReq_hang s2 call timeout (fun _ => False) J2 RQ2) as [H1 H2]; [intros D SB; exact (KB D SB)|].
      apply G1_THang; [apply (t1_good _ TS2)|exact H1|exact H2|].
      intros RAh. apply raw_quiet. intros j JR A1 A2. exact (KR (RW2 RAh j JR A1 A2)).
Qed.

Lemma rawsame_poll_fallback : forall s, rawsame s (set_method (invalidate_now s) M_PO).
Proof. intros; constructor; reflexivity. Qed.

Lemma poll_poll_Q1 : forall s abs, J true s -> T1 s -> quit s = false -> is_epoll s = false -> InvW s ->
  AbsReq s abs (fun _ => False) -> RawP s ->
  Q1W s (fst (poll_poll sc s abs)).
Proof.
  intros s abs Jh T Q IE IW RA HR. unfold poll_poll.
  assert (VIA : forall s0, J true s0 -> T1 s0 -> quit s0 = false -> InvW s0 -> AbsReq s0 abs (fun _ => False) -> RawP s0 ->
     Q1W s0 (fst (let '(s1, ms) := to_msec s0 abs in do_poll_wait sc s1 2 (if ms <? 0 then -1 else ms * 1000000)))).
  { intros s0 J0 T0 Q0 I0 RA0 HR0. unfold to_msec.
    pose proof (to_relative_post true s0 abs J0) as P0. pose proof (T1_to_relative s0 abs T0) as P01.
    pose proof (rawsame_to_relative s0 abs) as RS01. pose proof (AbsReq_SReq s0 abs _ 2 J0 T0 RA0) as SR0. cbv zeta in SR0.
    destruct (to_relative_shape s0 abs) as [SH01 SH02].
    assert (IW01 : InvW (fst (to_relative s0 abs))).
    { rewrite SH01. destruct abs; [apply InvW_validate; exact I0|exact I0]. }
    assert (BF01 : BatchF s0 (fst (to_relative s0 abs))).
    { rewrite SH01. destruct abs; [|intros H; exact H]. unfold validate_now. destruct (time_valid s0); intros H; exact H. }
    destruct (to_relative s0 abs) as [s1 rel]. cbn [fst snd] in *. destruct P0 as (J1 & F1 & Q1').
    apply (Q1W_l s0 s1 _ BF01).
    destruct rel as [r|].
    - assert (MS : msec_of_rel r <? 0 = false).
      { apply Z.ltb_ge. apply msec_nonneg. destruct abs as [a|]; [|discriminate SH02]. inversion SH02.
        unfold rel_of. destruct (Z.ltb_spec (time (validate_now s0)) a); lia. }
      rewrite MS. change (msec_of_rel r * 1000000) with (ns_of 2 r).
      apply do_poll_wait_Q1; try assumption; [apply P01|congruence|eapply RawP_same; eassumption].
    - change (-1 <? 0) with true. cbv iota.
      apply do_poll_wait_Q1; try assumption; [apply P01|congruence|eapply RawP_same; eassumption]. }
  destruct (method s =? M_PP) eqn:MP; [|apply VIA; assumption].
  pose proof (to_relative_post true s abs Jh) as P. pose proof (method_to_relative s abs) as MR.
  pose proof (T1_to_relative s abs T) as P1. pose proof (rawsame_to_relative s abs) as RS.
  pose proof (AbsReq_SReq s abs _ 3 Jh T RA) as SR. cbv zeta in SR.
  destruct (to_relative_shape s abs) as [SH1 SH2].
  assert (IW1 : InvW (fst (to_relative s abs))).
  { rewrite SH1. destruct abs; [apply InvW_validate; exact IW|exact IW]. }
  assert (BF1 : BatchF s (fst (to_relative s abs))).
  { rewrite SH1. destruct abs; [|intros H; exact H]. unfold validate_now. destruct (time_valid s); intros H; exact H. }
  destruct (to_relative s abs) as [s1 rel]. cbn [fst snd] in *. destruct P as (J1 & F1 & Q1').
  apply (Q1W_l s s1 _ BF1).
  destruct (no_ppoll (flt (kern s1))).
  - destruct (J_invalidate true s1 J1) as (J2 & F2 & _ & Q2).
    assert (IE2 : is_epoll (invalidate_now s1) = false).
    { unfold is_epoll in *. change (method (invalidate_now s1)) with (method s1). rewrite MR. exact IE. }
    pose proof (J_set_method_poll true (invalidate_now s1) M_PO J2 IE2 eq_refl) as J3.
    set (s3 := set_method (invalidate_now s1) M_PO) in *.
    assert (TS3 : T1 s3) by (apply (T1_setters (invalidate_now s1) s3); [apply T1_invalidate; apply P1|reflexivity|reflexivity]).
    assert (IW3 : InvW s3).
    { apply InvW_set_method; [apply InvW_invalidate; exact IW1| |unfold M_PO; lia].
      unfold is_epoll. cbn [method set_method invalidate_now set_time].
      apply Z.eqb_eq in MP. rewrite MR, MP. reflexivity. }
    assert (RA3 : AbsReq s3 abs (fun _ => False)).
    { destruct abs as [a|]; cbn [AbsReq] in *.
      - destruct RA as (AO & C & B). unfold s3. change (AbsOf (set_method (invalidate_now s1) M_PO)) with (AbsOf s1).
        cbn [cur heap set_method invalidate_now set_time].
        rewrite SH1, AbsOf_validate. split; [exact AO|]. unfold validate_now. destruct (time_valid s); split; assumption.
      - intros call. unfold s3. rewrite SH1. apply (SReq_keep s _ call (-1) _ (RA call)); try reflexivity.
        intros H. split; [exact H|reflexivity]. }
    apply (Q1W_l s1 s3); [intros H; exact H|].
    apply VIA; try assumption; [change (quit (invalidate_now s1) = false); congruence|].
    eapply RawP_same; [exact HR|]. eapply rawsame_trans; [exact RS|apply rawsame_poll_fallback].
  - assert (TO : match rel with Some r => r | None => -1 end = match rel with Some r => ns_of 3 r | None => -1 end).
    { destruct rel; reflexivity. }
    rewrite TO. apply do_poll_wait_Q1; try assumption; [apply P1|congruence|eapply RawP_same; eassumption].
Qed.

Lemma m_poll_Q1 : forall s abs A, J true s -> T1 s -> quit s = false -> InvW s ->
  AbsReq s abs A -> (forall D, A D -> ArmedT s D) -> (is_epoll s = false -> forall D, ~ A D) -> RawM s ->
  Q1W s (fst (m_poll sc s abs)).
Proof.
  intros s abs A Jh T Q IW RA AR NA HR. unfold m_poll, RawM in *. destruct (is_epoll s) eqn:IE.
  - apply (epoll_poll_Q1 s abs A); assumption.
  - apply poll_poll_Q1; try assumption.
    destruct abs as [a|]; cbn [AbsReq] in *; [exact RA|].
    intros call. apply (SReq_weaken _ _ _ A); [intros D H; exact (NA eq_refl D H)|apply RA].
Qed.

(* ---------- the kernel-timer optimisation ---------- *)
Lemma lk_fields : forall s s', lk s' = lk s ->
  tfd s' = tfd s /\ last_abs s' = last_abs s /\ last_abs_count s' = last_abs_count s /\ method s' = method s.
Proof. intros s s' H. unfold lk in H. inversion H. repeat split; assumption. Qed.

Lemma set_poll_timeout_true : forall s a s0, set_poll_timeout s a = (R s0, true) ->
  method s0 = method s /\ last_abs s0 = last_abs s /\ last_abs_count s0 = last_abs_count s.
Proof.
  intros s a s0. unfold set_poll_timeout.
  destruct (tfd s =? -1).
  - destruct (k_timerfd_create (kern s)) as [k1 [fd|e]].
    + set (s1 := set_epoll (set_kern s k1) (epfd s) fd (pwait2 s)).
      destruct (ctl_retry s1 CTL_ADD fd B_IN (-2)) as [s2 r] eqn:CT.
      destruct (ctl_retry_FF _ _ _ _ _ _ _ CT) as (_ & LK2 & _). destruct (lk_fields _ _ LK2) as (_ & A & B & C).
      destruct r; intros E; inversion E; subst. cbn [method last_abs last_abs_count tfd_settime emit set_trace set_kern].
      rewrite A, B, C. repeat split.
    + intros E; inversion E.
  - intros E; inversion E; subst. repeat split.
Qed.

Lemma timeout_check_true : forall s abs s0, timeout_check s abs = (R s0, true) -> method s = M_ET ->
  method s0 = M_ET /\ last_abs_count s0 = 5 /\ 0 <= abs_cmp abs (last_abs s0).
Proof.
  intros s abs s0. unfold timeout_check.
  destruct ((last_abs_count s =? 5) && (0 <=? abs_cmp abs (last_abs s))) eqn:G.
  { intros E M; inversion E; subst. apply andb_true_iff in G. destruct G as [G1' G2]. apply Z.eqb_eq in G1'. apply Z.leb_le in G2. auto. }
  set (s1 := if last_abs_count s =? 5 then tfd_settime s 0 else s).
  assert (F1 : method s1 = method s /\ last_abs s1 = last_abs s /\ last_abs_count s1 = last_abs_count s)
    by (unfold s1; destruct (last_abs_count s =? 5); repeat split).
  destruct F1 as (M1 & L1 & C1).
  destruct (Z.eqb_spec (abs_cmp abs (last_abs s)) 0) as [CZ|CN].
  - set (s2 := if last_abs_count s1 <? 5 then set_last_abs s1 (last_abs s1) (last_abs_count s1 + 1) else s1).
    assert (F2 : method s2 = method s /\ last_abs s2 = last_abs s)
      by (unfold s2; destruct (last_abs_count s1 <? 5); cbn [method last_abs set_last_abs]; split; congruence).
    destruct F2 as (M2 & L2).
    destruct (Z.eqb_spec (last_abs_count s2) 5) as [C5|C5]; [|intros E; inversion E].
    destruct abs as [a|]; [|intros E; inversion E].
    intros E M. destruct (set_poll_timeout_true _ _ _ E) as (A & B & C).
    rewrite A, B, C, M2, L2, CZ. repeat split; [exact M|exact C5|lia].
  - destruct abs as [a|]; intros E; inversion E.
Qed.

Lemma abs_cmp_ge : forall a l, 0 <= abs_cmp (Some a) l -> l <= a.
Proof. intros a l. unfold abs_cmp. destruct (Z.ltb_spec a l); [lia|]. intros _. lia. Qed.

(* the raw-event requirement for iv_fd_poll_and_run *)
Definition RawPR (s : core) (abs : option Z) : Prop :=
  if method s =? M_ET then (forall s0 fl, timeout_check s abs = (R s0, fl) -> RawM s0) else RawM s.

Lemma AbsReq_plain : forall s, J true s -> T1 s -> cur s = None -> HeapModel.batch (heap s) = [] ->
  AbsReq s (AbsOf s) (fun _ => False).
Proof.
  intros s Jh T C B. destruct (AbsOf s) as [a|] eqn:AO; cbn [AbsReq]; [auto|].
  intros call. pose proof (SReq_of_abs s call Jh T C B) as Q. rewrite AO in Q. apply Q. intros H. congruence.
Qed.

(* the unbounded wait behind an armed kernel timer *)
Lemma AbsReq_armed : forall s, J true s -> T1 s -> cur s = None -> HeapModel.batch (heap s) = [] ->
  0 <= abs_cmp (AbsOf s) (last_abs s) ->
  AbsReq s None (fun D => D = dd (last_abs s)).
Proof.
  intros s Jh T C B CMP. cbn [AbsReq]. intros call. destruct (J_SiTm _ _ Jh) as [HI _].
  destruct (t1_stale _ T) as (_ & CP & _).
  assert (DD0 : last_abs s <= 0 -> dd (last_abs s) <= clock (kern s)).
  { intros H. unfold dd. destruct (Z.eqb_spec (last_abs s) 0); lia. }
  constructor.
  - intros k K R. exists (dd (last_abs s)). split; [right; reflexivity|]. apply DD0.
    pose proof (task_reg_tasks s k C R) as NE. unfold AbsOf in CMP. destruct (tasks s); [contradiction|].
    apply abs_cmp_ge in CMP. exact CMP.
  - intros j JR R. exists (dd (last_abs s)). split; [right; reflexivity|]. intros _.
    destruct (soonest_min s j HI B R) as (a & SO & LE).
    unfold AbsOf in CMP. destruct (tasks s).
    + rewrite SO in CMP. apply abs_cmp_ge in CMP. unfold dd. destruct (Z.eqb_spec (last_abs s) 0) as [Z0|NZ]; [left; lia|].
      right. pose proof (bnd_ge call (clock (kern s)) (HeapModel.texp (heap s) (tmid j))). lia.
    + left. apply DD0. apply abs_cmp_ge in CMP. exact CMP.
Qed.

Lemma poll_and_run_Q1 : forall s, J true s -> T1 s -> quit s = false -> InvW s -> (method s = M_ET -> LK s) ->
  cur s = None -> HeapModel.batch (heap s) = [] -> RawPR s (AbsOf s) ->
  Q1W s (fst (poll_and_run sc s (AbsOf s))).
Proof.
  intros s Jh T Q IW LKs C B HR. unfold poll_and_run. set (abs := AbsOf s) in *.
  assert (DISP : forall r, Post0 true s r -> Q1W s r ->
            Q1W s (bind r (fun s0 => dispatch_active sc (S (length (active s0))) s0))).
  { intros r P QW. destruct r as [s1|s1]; cbn [bind Post0 Q1W] in *; [|exact QW].
    destruct P as [J1 _]. destruct QW as (TS1 & RN1 & BF1). apply (Q1W_l s s1 _ BF1). apply (Q1_Q1W s1); [exact RN1|].
    apply dispatch_active_Q1; assumption. }
  assert (G : Post0 true s (fst (if method s =? M_ET
      then match timeout_check s abs with
           | (Halt s0, _) => (Halt s0, true)
           | (R s0, true) => let '(r, rt) := m_poll sc s0 None in
                             (bind r (fun s1 => R (if rt then set_last_abs s1 (last_abs s1) 0 else s1)), rt)
           | (R s0, false) => m_poll sc s0 abs
           end
      else m_poll sc s abs)) /\ Q1W s (fst (if method s =? M_ET
      then match timeout_check s abs with
           | (Halt s0, _) => (Halt s0, true)
           | (R s0, true) => let '(r, rt) := m_poll sc s0 None in
                             (bind r (fun s1 => R (if rt then set_last_abs s1 (last_abs s1) 0 else s1)), rt)
           | (R s0, false) => m_poll sc s0 abs
           end
      else m_poll sc s abs))).
  { unfold RawPR in HR. pose proof (AbsReq_plain s Jh T C B) as RA0. fold abs in RA0, HR.
    destruct (Z.eqb_spec (method s) M_ET) as [ME|NE].
    2:{ split; [apply m_poll_post; assumption|]. apply (m_poll_Q1 s abs (fun _ => False)); try assumption; [intros D []|intros _ D H; exact H]. }
    pose proof (timeout_check_post s abs Jh ME) as P. pose proof (timeout_check_F0 s abs) as FT.
    pose proof (timeout_check_ok sc WF do_action_ok s abs IW ME) as TC.
    pose proof (timeout_check_LK s abs) as TLK. pose proof (timeout_check_true s abs) as TT.
    destruct (timeout_check s abs) as [[s0|s0] fl]; cbn [fst PostQ okr] in P, FT, TC; unfold F0r in FT; cbn [res_state] in FT.
    2:{ cbn [fst Post0 Q1W]. split; [exact P|]. apply (t1_good s0). apply (T1_F0 s s0 T FT). }
    destruct P as (J0 & F0' & Q0). pose proof (T1_F0 s s0 T FT) as TS0.
    destruct TC as (IW0 & _ & _ & IE0).
    assert (NX : 0 <= next_fd (kern s)) by (pose proof (ki_next _ (ms_kinv _ (iw_misc _ IW))); lia).
    specialize (TLK s0 fl (LKs ME) NX ME eq_refl). specialize (HR s0 fl eq_refl).
    assert (BF0 : BatchF s s0) by (intros H; rewrite (F0_heap _ _ FT); exact H).
    destruct (lf_fields _ _ (proj1 FT)) as (E1 & _ & _ & E4 & E5 & _).
    assert (C0 : cur s0 = None) by congruence. assert (B0 : HeapModel.batch (heap s0) = []) by congruence.
    assert (AO0 : AbsOf s0 = abs) by (unfold abs, AbsOf, soonest_timeout; rewrite E1, E4; reflexivity).
    destruct fl.
    - destruct (TT s0 eq_refl ME) as (M0 & C5 & CMP).
      pose proof (AbsReq_armed s0 J0 TS0 C0 B0 ltac:(rewrite AO0; exact CMP)) as RA1.
      pose proof (m_poll_post sc WF s0 None J0 ltac:(congruence)) as P.
      pose proof (m_poll_Q1 s0 None (fun D => D = dd (last_abs s0)) J0 TS0 ltac:(congruence) IW0 RA1) as QW.
      specialize (QW ltac:(intros D ->; apply LK_ArmedT; assumption)).
      specialize (QW ltac:(intros H; rewrite IE0 in H; discriminate H) HR).
      destruct (m_poll sc s0 None) as [r rt]. cbn [fst] in *. split.
      + apply (Post0_cur true s s0); [apply (proj2 F0')|].
        eapply Post0_bind; [exact P|]. intros s1 J1 _. cbn [Post0].
        split; [|intros CC; destruct rt; exact CC].
        destruct rt; [apply J_set_last_abs; assumption|assumption].
      + apply (Q1W_l s s0 _ BF0). destruct r as [s1|s1]; cbn [bind Q1W] in *; [|exact QW]. destruct QW as (X & Y & Z).
        destruct rt; [|split; [exact X|split; [exact Y|exact Z]]].
        split; [apply (T1_setters s1 _ X); reflexivity|split; [exact Y|exact Z]].
    - split; [apply (Post0_cur true s s0); [apply (proj2 F0')|]; apply m_poll_post; [exact WF|assumption|congruence]|].
      apply (Q1W_l s s0 _ BF0).
      apply (m_poll_Q1 s0 abs (fun _ => False)); try assumption; [congruence|eapply AbsReq_F0; eassumption|intros D []|intros _ D H; exact H]. }
  destruct (if method s =? M_ET
      then match timeout_check s abs with
           | (Halt s0, _) => (Halt s0, true)
           | (R s0, true) => let '(r, rt) := m_poll sc s0 None in
                             (bind r (fun s1 => R (if rt then set_last_abs s1 (last_abs s1) 0 else s1)), rt)
           | (R s0, false) => m_poll sc s0 abs
           end
      else m_poll sc s abs) as [r rt]. cbn [fst] in *. apply DISP; apply G.
Qed.

(* without the raw-event assumption the raw requirement is void *)
Lemma RawPR_off : forall s abs, (raw_assume -> False) -> RawPR s abs.
Proof.
  intros s abs NO. assert (E : forall s0, RawE s0) by (intros s0 a b _ _ H; destruct (NO H)).
  assert (P : forall s0, RawP s0) by (intros s0 a b _ _ H; destruct (NO H)).
  assert (M : forall s0, RawM s0) by (intros s0; unfold RawM; destruct (is_epoll s0); [intros s1 _; apply E|apply P]).
  unfold RawPR. destruct (method s =? M_ET); [intros s0 fl _; apply M|apply M].
Qed.

(* ---------- iv_main ---------- *)
(* the loop-level invariant of the raw events (supplied by the raw-event development) *)
Variable R3 : core -> Prop.
Hypothesis R3_use : forall s, J true s -> InvT s -> R3 s -> RawPR s (AbsOf s).
Hypothesis R3_timers : forall s s', J true s -> InvT s -> R3 s -> run_timers sc s = R s' -> R3 s'.
Hypothesis R3_tasks : forall s s', J true s -> InvT s -> R3 s -> run_tasks sc s = R s' -> R3 s'.
Hypothesis R3_poll : forall s s', J true s -> InvT s -> R3 s -> fst (poll_and_run sc s (AbsOf s)) = R s' -> R3 s'.

Lemma InvT_parts : forall s, InvT s -> InvW s /\ cur s = None /\ HeapModel.batch (heap s) = [] /\ Q3 s.
Proof.
  intros s ((IW & Qt) & _). split; [exact IW|]. split; [apply (q_cur _ Qt)|]. split; [apply (q_batch _ Qt)|].
  split; [apply (q_batch _ Qt)|split; [apply (q_cur _ Qt)|apply (q_evb _ Qt)]].
Qed.

Lemma main_loop_Q1 : forall fuel s rt, J true s -> T1 s -> InvT s -> LKM s -> R3 s ->
  nwait (kern s) <= sc_limit sc -> ran (mst s) = [] -> Q1T s (main_loop sc fuel s rt).
Proof.
  induction fuel as [|fuel IH]; intros s rt Jh T IT LM RR NW RN; cbn [main_loop].
  - cbn [Q1T halt]. apply (t1_good (emit s TCrash)). apply (T1_F0 s _ T). apply (F0_halt s TCrash I).
  - destruct (InvT_parts s IT) as (IW & C & B & Q3s).
    (* timers *)
    assert (P1 : Post true s (if rt then run_timers sc s else R s)).
    { destruct rt; [apply run_timers_post; assumption|apply Post_same; assumption]. }
    assert (QT : Q1 s (if rt then run_timers sc s else R s)).
    { destruct rt; [apply run_timers_Q1; assumption|apply Q1_same; assumption]. }
    assert (K1' : forall s1, (if rt then run_timers sc s else R s) = R s1 -> InvT s1 /\ LKM s1 /\ R3 s1 /\ nwait (kern s1) = nwait (kern s)).
    { intros s1 E. destruct rt; [|inversion E; subst; auto].
      destruct IT as [IV TM]. pose proof (run_timers_ok' sc WF s IW Q3s) as OK. rewrite E in OK. cbn [okr] in OK.
      destruct (Ph_Inv sc WF s s1 IV OK) as (IV1 & N1 & TM1).
      pose proof (run_timers_K sc WF do_action_ok s IW Q3s) as PKK. rewrite E in PKK. unfold PK in PKK. cbn [ARes] in PKK.
      split; [split; [exact IV1|eapply TfdM_tm; eassumption]|]. split; [eapply LKM_TFs; [exact LM|apply PKK]|].
      split; [apply (R3_timers s s1 Jh (conj IV TM) RR E)|exact N1]. }
    destruct (if rt then run_timers sc s else R s) as [s1|s1]; cbn [bind Post Q1 Q1T] in *; [|exact QT].
    destruct P1 as [J1 F1]. destruct QT as [TS1 [R1 BF1]]. destruct (K1' s1 eq_refl) as (IT1 & LM1 & RR1 & NW1).
    destruct (InvT_parts s1 IT1) as (IW1 & C1 & B1 & Q31).
    (* tasks *)
    pose proof (run_tasks_post sc WF s1 J1 C1) as P2.
    pose proof (run_tasks_Q1 sc WF s1 J1 TS1 C1 (R1 RN)) as Q2.
    assert (K2 : forall s2, run_tasks sc s1 = R s2 -> InvT s2 /\ LKM s2 /\ R3 s2 /\ nwait (kern s2) = nwait (kern s1)).
    { intros s2 E. destruct IT1 as [IV TM]. pose proof (run_tasks_ok' sc WF s1 IW1 Q31) as OK. rewrite E in OK. cbn [okr] in OK.
      destruct (Ph_Inv sc WF s1 s2 IV OK) as (IV2 & N2 & TM2).
      pose proof (run_tasks_K sc WF do_action_ok s1 IW1 Q31) as PKK. rewrite E in PKK. unfold PK in PKK. cbn [ARes] in PKK.
      split; [split; [exact IV2|eapply TfdM_tm; eassumption]|]. split; [eapply LKM_TFs; [exact LM1|apply PKK]|].
      split; [apply (R3_tasks s1 s2 J1 (conj IV TM) RR1 E)|exact N2]. }
    destruct (run_tasks sc s1) as [s2|s2]; cbn [bind PostT Q1T] in *; [|exact Q2].
    destruct P2 as [J2 C2]. destruct Q2 as [TS2 BF2]. destruct (K2 s2 eq_refl) as (IT2 & LM2 & RR2 & NW2).
    destruct (InvT_parts s2 IT2) as (IW2 & _ & B2 & Q32).
    destruct (quit s2 || (numobjs s2 =? 0)) eqn:QN.
    { split; [exact TS2|]. intros H. exact B2. }
    apply orb_false_iff in QN. destruct QN as [Q2' _].
    change (match tasks s2 with _ :: _ => Some 0 | [] => soonest_timeout s2 end) with (AbsOf s2).
    pose proof (poll_and_run_post sc WF s2 (AbsOf s2) J2 Q2') as P3.
    pose proof (poll_and_run_Q1 s2 J2 TS2 Q2' IW2 LM2 C2 B2 (R3_use s2 J2 IT2 RR2)) as Q3.
    pose proof (poll_and_run_inv sc WF s2 (AbsOf s2)) as PI.
    pose proof (poll_and_run_LKM sc WF do_action_ok s2 (AbsOf s2)) as PL.
    pose proof (R3_poll s2) as PR.
    destruct (poll_and_run sc s2 (AbsOf s2)) as [r rt']. cbn [fst] in P3, Q3, PI, PL, PR.
    destruct r as [s3|s3]; cbn [bind Post0 Q1W Q1T] in *; [|exact Q3].
    destruct P3 as [J3 C3]. destruct Q3 as (TS3 & RN3 & BF3).
    destruct (PI s3 IT2 eq_refl) as (IT3 & N3 & N3').
    specialize (PL s3 (proj1 (InvT_LoopInv s2) IT2) LM2 eq_refl). specialize (PR s3 J2 IT2 RR2 eq_refl).
    apply (Q1T_l s s3); [intros H; apply (proj2 (proj2 (proj2 (InvT_parts s3 IT3))))|].
    apply IH; assumption.
Qed.

(* ---------- whole runs ---------- *)
Hypothesis R3_0 : R3 (core0 sc).
Hypothesis R3_acts : forall s l s', J false s -> InvW s -> R3 s -> Forall wf_action l -> run_acts s l = R s' -> R3 s'.
Hypothesis R3_main : forall s, R3 s -> R3 (set_quit (emit s TMain) false).

Lemma core0_T1 : T1 (core0 sc) /\ ran (mst (core0 sc)) = [].
Proof.
  unfold core0.
  set (k0 := fold_left k_user_fd (zseq 0 16) (kernel0 (sc_faults sc))).
  assert (K0 : clock k0 = 1000000000).
  { destruct (ksame_fold_user (zseq 0 16) (kernel0 (sc_faults sc))) as (C & _). fold k0 in C. rewrite C. reflexivity. }
  assert (CK : forall efd k, (if (sc_backend sc =? M_ET) || (sc_backend sc =? M_EP) then k_epoll_create k0 else (-1, k0)) = (efd, k) ->
               clock k = 1000000000).
  { intros efd k E. destruct ((sc_backend sc =? M_ET) || (sc_backend sc =? M_EP)).
    - unfold k_epoll_create in E. pose proof (ksame_alloc k0 K_EPOLL) as KA. destruct (k_alloc k0 K_EPOLL) as [a b].
      inversion E; subst. destruct KA as (C & _). cbn [snd] in C. congruence.
    - inversion E; subst. exact K0. }
  destruct (if (sc_backend sc =? M_ET) || (sc_backend sc =? M_EP) then k_epoll_create k0 else (-1, k0)) as [efd k] eqn:E.
  specialize (CK efd k eq_refl).
  split; [|reflexivity]. constructor.
  - intros t H. cbn [heap HeapModel.batch HeapModel.init] in H. destruct H.
  - split; [intros _ H; discriminate H|]. cbn [kern time_valid]. split; [lia|discriminate].
  - intros y H. destruct H.
  - intros c _ H. destruct H.
Qed.

Lemma core0_LKM : LKM (core0 sc).
Proof.
  intros _. apply LK_trivial.
  - unfold core0. destruct (if (sc_backend sc =? M_ET) || (sc_backend sc =? M_EP) then _ else _) as [efd k]. reflexivity.
  - intros _. unfold core0. destruct (if (sc_backend sc =? M_ET) || (sc_backend sc =? M_EP) then _ else _) as [efd k]. cbn. discriminate.
Qed.

Lemma T1_plain_event : forall s e, T1 s ->
  match e with TMain | TTear _ | TDone _ => True | _ => False end ->
  T1 (emit s e) /\ ran (mst (emit s e)) = ran (mst s).
Proof.
  intros s e T C. split.
  - apply T1_emit; [exact T| | |]; destruct e; try contradiction;
      try (rewrite a_stale_step; reflexivity); try (rewrite ran_step; reflexivity); reflexivity.
  - rewrite mst_emit, ran_step. destruct e; try contradiction; reflexivity.
Qed.

Lemma T1_end : forall s q n, T1 s -> T1 (emit s (TEnd q n)).
Proof.
  intros s q n T.
  assert (RN : ran (mst (emit s (TEnd q n))) = []) by (rewrite mst_emit, ran_step; reflexivity).
  apply (T1_upd s _ T).
  - left. repeat split.
  - left. rewrite mst_emit, a_stale_step. repeat split.
  - right. intros y Y. rewrite RN in Y. destruct Y.
  - rewrite mst_emit. apply G1_step; [apply (t1_good _ T)|reflexivity].
Qed.

Lemma teardown_obj_Q1 : forall b s i, J b s -> T1 s -> ok_idx i -> Q1 s (teardown_obj s i).
Proof.
  intros b s i Jh T I. unfold teardown_obj.
  eapply (Q1_bind b); [apply do_action_post; [assumption|exact I]|apply (do_action_Q1 b); [assumption|assumption|exact I]|]. intros s1 J1 T1'.
  eapply (Q1_bind b); [apply do_action_post; [assumption|exact I]|apply (do_action_Q1 b); [assumption|assumption|exact I]|]. intros s2 J2 T2.
  eapply (Q1_bind b); [apply do_action_post; [assumption|exact I]|apply (do_action_Q1 b); [assumption|assumption|exact I]|]. intros s3 J3 T3.
  eapply (Q1_bind b); [apply do_action_post; [assumption|exact I]|apply (do_action_Q1 b); [assumption|assumption|exact I]|]. intros s4 J4 T4.
  apply (do_action_Q1 b); [assumption|assumption|exact I].
Qed.

Lemma teardown_Q1 : forall b l s, J b s -> T1 s -> Forall ok_idx l -> Q1 s (teardown s l).
Proof.
  intros b l. induction l as [|i l IH]; intros s Jh T OK; cbn [teardown]; [apply Q1_same; exact T|].
  inversion OK as [|? ? O1 O2]; subst.
  eapply (Q1_bind b); [apply teardown_obj_post; assumption|apply (teardown_obj_Q1 b); assumption|].
  intros s1 J1 T1'. apply IH; assumption.
Qed.

Lemma T1_deinit : forall s, T1 s -> T1 (deinit sc s).
Proof.
  intros s T. unfold deinit. destruct ((sc_backend sc =? M_ET) || (sc_backend sc =? M_EP)); [|exact T].
  apply (T1_F0 s _ T). eapply F0_trans; [|apply do_close_F0].
  destruct (tfd s =? -1); [apply F0_refl|apply do_close_F0].
Qed.

Theorem core_G1 : G1 (mon_run (run_scenario sc)).
Proof.
  unfold run_scenario.
  match goal with |- G1 (mon_run (rev (trace (res_state ?r)))) => change (G1 (mst (res_state r))) end.
  destruct core0_T1 as [T0 RN0].
  destruct (core0_Inv sc WF) as (I0 & TM0 & N0).
  assert (L0 : LoopInv (core0 sc)) by (apply LoopInv_Inv; split; assumption).
  pose proof (run_acts_post false (sc_setup sc) (core0 sc) (core0_J sc) (wf_setup sc WF)) as P0.
  pose proof (run_acts_Q1 false (sc_setup sc) (core0 sc) (core0_J sc) T0 (wf_setup sc WF)) as Q0.
  pose proof (run_acts_ok do_action_ok (sc_setup sc) (core0 sc) (proj1 I0) (wf_setup sc WF)) as OK0.
  pose proof (run_acts_K do_action_ok (sc_setup sc) (core0 sc) (proj1 I0) (wf_setup sc WF)) as PK0.
  pose proof (R3_acts (core0 sc) (sc_setup sc)) as RA0.
  destruct (run_acts (core0 sc) (sc_setup sc)) as [s1|s1]; cbn [bind Post Q1 res_state okr] in *; [|exact Q0].
  destruct P0 as [J1 F1]. destruct Q0 as [TS1 [R1 _]].
  pose proof (LoopInv_StepT _ _ L0 OK0) as L1.
  assert (N1 : nwait (kern s1) = 0) by (rewrite (fr_nwait _ _ (proj1 (proj2 OK0))); exact N0).
  unfold PK in PK0. cbn [ARes] in PK0. pose proof (LKM_TFs _ _ core0_LKM (proj2 PK0)) as LM1.
  specialize (RA0 s1 (core0_J sc) (proj1 I0) R3_0 (wf_setup sc WF) eq_refl).
  pose proof (J_main_enter s1 J1) as J2.
  destruct (T1_plain_event s1 TMain TS1 I) as [TM RM].
  destruct (main_enter s1 L1) as (L2 & N2).
  set (s2 := set_quit (emit s1 TMain) false) in *.
  assert (TS2 : T1 s2) by (apply (T1_setters (emit s1 TMain) s2 TM); reflexivity).
  assert (RN2 : ran (mst s2) = []) by (change (mst s2) with (mst (emit s1 TMain)); rewrite RM; apply R1; exact RN0).
  assert (LM2 : LKM s2) by (apply (LKM_TFs s1 s2 LM1); apply TFs_plain; reflexivity).
  pose proof (wf_limit sc WF) as LIM.
  assert (C2 : cur s2 = None) by (apply (proj2 F1); apply core0_cur).
  pose proof (main_loop_post sc WF (Z.to_nat (sc_limit sc) + 2) s2 true J2 C2) as P3.
  pose proof (main_loop_Q1 (Z.to_nat (sc_limit sc) + 2) s2 true J2 TS2 (proj2 (InvT_LoopInv s2) L2) LM2 (R3_main s1 RA0)
                ltac:(rewrite N2, N1; lia) RN2) as Q3.
  destruct (main_loop sc (Z.to_nat (sc_limit sc) + 2) s2 true) as [s3|s3]; cbn [bind res_state Q1T] in *; [|exact Q3].
  pose proof (J_main_leave s3 P3) as J4.
  pose proof (T1_end s3 (if quit s3 then 1 else 0) (numobjs s3) (proj1 Q3)) as TS4.
  pose proof (teardown_post false (zseq 0 16) _ J4 zseq_ok) as P5.
  pose proof (teardown_Q1 false (zseq 0 16) _ J4 TS4 zseq_ok) as Q5.
  destruct (teardown (emit s3 (TEnd (if quit s3 then 1 else 0) (numobjs s3))) (zseq 0 16)) as [s5|s5];
    cbn [bind Post Q1 res_state] in *; [|exact Q5].
  destruct Q5 as [TS5 _].
  destruct (T1_plain_event s5 (TTear (numobjs s5)) TS5 I) as [TS6 _].
  pose proof (T1_deinit _ TS6) as TS7.
  destruct (T1_plain_event _ (TDone (open_dyn (kern (deinit sc (emit s5 (TTear (numobjs s5))))))) TS7 I) as [TS8 _].
  apply (t1_good _ TS8).
Qed.
End Wait.
End RA.
