(* CorePhase2TimeT1W.v -- the invariant T1 through the kernel waits, the kernel-timer
   optimisation, iv_fd_poll_and_run, iv_main and whole runs: codes 401 and 603. *)
From Coq Require Import List ZArith Bool Lia.
From Ivv Require Import Core.Kernel Core.CoreTypes Core.CoreFd Core.CoreModel Core.Monitors Core.CoreSpec
  Core.CoreRel Core.CorePhase2TimeMon Core.CorePhase2TimeFr Core.CorePhase2TimeT1 Core.CorePhase2TimeT1L.
From Ivv Require Timer.HeapModel.
Import ListNotations.
Local Open Scope Z_scope.

(* results of the poll functions: the wait resets the list of tasks that ran *)
Definition Q1W (r : res) : Prop :=
  match r with R s' => T1 s' /\ ran (mst s') = [] | Halt s' => G1 (mst s') end.

Lemma T1_wait : forall s n call mx t i g, T1 s ->
  T1 (emit s (TWait n call mx t i g)) /\ ran (mst (emit s (TWait n call mx t i g))) = [].
Proof.
  intros s n call mx t i g T. destruct (t1_good _ T) as [G401 G603].
  assert (RN : ran (mst (emit s (TWait n call mx t i g))) = []) by (rewrite mst_emit, ran_step; reflexivity).
  split; [|exact RN]. apply (T1_upd s _ T).
  - left. repeat split.
  - left. rewrite mst_emit, a_stale_step. repeat split.
  - right. intros y Y. rewrite RN in Y. destruct Y.
  - rewrite mst_emit. split; apply NF_step; try assumption; cbn; intuition discriminate.
Qed.

(* the return of a wait, followed by the invalidation of the cached time *)
Lemma T1_ret : forall s k1 n fds, T1 s -> clock (kern s) <= clock k1 ->
  T1 (invalidate_now (emit (set_kern s k1) (TRet n fds (clock k1)))) /\
  ran (mst (emit (set_kern s k1) (TRet n fds (clock k1)))) = ran (mst s).
Proof.
  intros s k1 n fds T C. set (s' := invalidate_now _).
  assert (M : mst s' = mon_step (mst s) (TRet n fds (clock k1))).
  { change (mst s') with (mst (emit (set_kern s k1) (TRet n fds (clock k1)))). rewrite mst_emit. reflexivity. }
  assert (RN : ran (mon_step (mst s) (TRet n fds (clock k1))) = ran (mst s)) by (rewrite ran_step; reflexivity).
  destruct (t1_good _ T) as [G401 G603].
  split; [|rewrite mst_emit; exact RN].
  apply (T1_upd s s' T); rewrite ?M.
  - right. intros t I. destruct (t1_batch _ T t I) as [A _]. cbn [s' invalidate_now time_valid set_time].
    split; [|discriminate]. change (HeapModel.texp (heap s) t <= clock k1). lia.
  - right. intros _ H. discriminate H.
  - left. rewrite RN. repeat split.
  - split; apply NF_step; try assumption; destruct n; cbn; intuition discriminate.
Qed.

Lemma T1_hang : forall s, T1 s -> G1 (mst (emit s THang)).
Proof.
  intros s T. destruct (t1_good _ T) as [G401 G603]. rewrite mst_emit.
  split; apply NF_step; try assumption; cbn; intuition discriminate.
Qed.

Section Wait.
Variable sc : scenario.
Hypothesis WF : wf_scenario sc.

Lemma wait_enter_Q1 : forall b s, J b s -> T1 s -> Q1 s (wait_enter sc s).
Proof.
  intros b s Jh T. unfold wait_enter.
  destruct (sc_limit sc <? nwait (kern s) + 1); [apply Q1_halt; [exact T|exact I]|].
  set (s1 := set_kern s _).
  assert (J1 : J b s1) by (apply J_set_kern_plain; [assumption|apply ksame_set_nwait]).
  assert (TS1 : T1 s1) by (apply T1_set_kern; [exact T|apply ksame_set_nwait]).
  eapply Q1_l; [apply (RanF_eq s s1); reflexivity|].
  apply (run_acts_Q1 b); [exact J1|exact TS1|].
  eapply Forall_impl; [|apply (wf_waits sc WF)]. apply wait_action_wf.
Qed.

Definition W1 (w : wres) : Prop :=
  match w with
  | WR s' _ => T1 (invalidate_now s') /\ ran (mst s') = []
  | WE s' => T1 (invalidate_now s') /\ ran (mst s') = []
  | WH r => match r with Halt s' => G1 (mst s') | R _ => False end
  end.

Lemma do_epoll_wait_Q1 : forall s call maxev timeout, J true s -> T1 s -> quit s = false ->
  W1 (do_epoll_wait sc s call maxev timeout).
Proof.
  intros s call maxev timeout Jh T Q. unfold do_epoll_wait.
  pose proof (wait_enter_post sc WF true s Jh) as P. pose proof (wait_enter_Q1 true s Jh T) as QE.
  destruct (wait_enter sc s) as [s1|s1]; [|exact QE].
  destruct P as (J1 & F1 & Q1'). destruct QE as [TS1 _].
  set (n := nwait (kern s1)).
  set (s2 := emit s1 (TWait n call maxev timeout (interest_of (kern s1)) (ground (kern s1)))).
  destruct (T1_wait s1 n call maxev timeout (interest_of (kern s1)) (ground (kern s1)) TS1) as [TS2 RN2]. fold s2 in TS2, RN2.
  change (kern s2) with (kern s1).
  destruct (mem_z n (eintr_waits (flt (kern s1)))).
  - destruct (Z.ltb_spec 0 timeout).
    + set (k1 := k_set_clock (kern s2) (clock (kern s2) + timeout / 2)).
      destruct (T1_ret s2 k1 None [] TS2) as [A B]; [cbn [k1 clock k_set_clock]; lia|].
      cbn [W1]. split; [exact A|]. transitivity (ran (mst s2)); [exact B|exact RN2].
    + destruct (T1_ret s2 (kern s2) None [] TS2) as [A B]; [lia|].
      cbn [W1]. split; [exact A|]. transitivity (ran (mst s2)); [exact B|exact RN2].
  - pose proof (epoll_sleep_spec (kern s1) maxev timeout (sc_rot sc n)) as KS.
    destruct (k_epoll_sleep (kern s1) maxev timeout (sc_rot sc n)) as [k1 evs|k1| |].
    + destruct KS as (K1 & K2 & K3 & K4).
      destruct (T1_ret s2 k1 (Some (Z.of_nat (length evs))) (map (fun e => fst (fst e)) evs) TS2 K2) as [A B].
      cbn [W1]. split; [exact A|]. transitivity (ran (mst s2)); [exact B|exact RN2].
    + destruct KS.
    + cbn [W1 halt]. apply T1_hang. exact TS2.
    + destruct KS.
Qed.

Lemma T1_to_relative : forall s abs, T1 s ->
  T1 (fst (to_relative s abs)) /\ ran (mst (fst (to_relative s abs))) = ran (mst s).
Proof.
  intros s abs T. unfold to_relative. destruct abs as [a|]; cbn [fst].
  - split; [apply T1_validate; exact T|apply ran_validate].
  - split; [exact T|reflexivity].
Qed.

Lemma T1_to_msec : forall s abs, T1 s ->
  T1 (fst (to_msec s abs)) /\ ran (mst (fst (to_msec s abs))) = ran (mst s).
Proof.
  intros s abs T. unfold to_msec. pose proof (T1_to_relative s abs T) as P.
  destruct (to_relative s abs) as [s1 [r|]]; exact P.
Qed.

Lemma epoll_wait_m_Q1 : forall s abs maxev, J true s -> T1 s -> quit s = false ->
  W1 (epoll_wait_m sc s abs maxev).
Proof.
  intros s abs maxev Jh T Q. unfold epoll_wait_m.
  assert (VIA : forall s0, J true s0 -> T1 s0 -> quit s0 = false ->
     W1 (let '(s1, ms) := to_msec s0 abs in do_epoll_wait sc s1 0 maxev (if ms <? 0 then -1 else ms * 1000000))).
  { intros s0 J0 T0 Q0. pose proof (to_msec_post true s0 abs J0) as P. pose proof (T1_to_msec s0 abs T0) as P1.
    destruct (to_msec s0 abs) as [s1 ms]. cbn [fst] in P, P1. destruct P as (J1 & F1 & Q1').
    apply do_epoll_wait_Q1; [assumption|apply P1|congruence]. }
  destruct (pwait2 s); [|apply VIA; assumption].
  pose proof (to_relative_post true s abs Jh) as P. pose proof (T1_to_relative s abs T) as P1.
  destruct (to_relative s abs) as [s1 rel]. cbn [fst] in P, P1. destruct P as (J1 & F1 & Q1').
  destruct (no_pwait2 (flt (kern s1)) || perm_pwait2 (flt (kern s1))).
  - set (s2 := set_epoll s1 (epfd s1) (tfd s1) false).
    apply VIA; [apply (J_irr true s1 s2 J1); reflexivity|apply (T1_setters s1 s2 (proj1 P1)); reflexivity|].
    change (quit s1 = false). congruence.
  - apply do_epoll_wait_Q1; [assumption|apply P1|congruence].
Qed.

Lemma epoll_process_FF : forall evs s re tm, FF s (fst (fst (epoll_process s evs re tm))).
Proof.
  induction evs as [|[[fd bits] data] evs IH]; intros s re tm; cbn [epoll_process]; [apply FF_refl|].
  destruct (data =? -1); [apply IH|]. destruct ((data =? -2) && (method s =? M_ET)); [apply IH|].
  eapply FF_trans; [apply activate_FF|apply IH].
Qed.

Lemma poll_activate_FF : forall keys revs s, FF s (poll_activate s keys revs).
Proof.
  induction keys as [|k keys IH]; intros revs s; cbn [poll_activate]; [apply FF_refl|].
  destruct revs as [|r revs]; [apply FF_refl|]. eapply FF_trans; [apply activate_FF|apply IH].
Qed.

Lemma Q1_Q1W : forall s r, ran (mst s) = [] -> Q1 s r -> Q1W r.
Proof. intros s r RN Q. destruct r; cbn [Q1 Q1W] in *; [|exact Q]. destruct Q as [A B]. auto. Qed.

Lemma epoll_poll_Q1 : forall s abs, J true s -> T1 s -> quit s = false -> is_epoll s = true ->
  Q1W (fst (epoll_poll sc s abs)).
Proof.
  intros s abs Jh T Q IE. unfold epoll_poll.
  pose proof (J_inner_res s _ _ Jh (flush_pending_res (S (length (notify s))) s (j_fd _ _ Jh) IE)) as P.
  pose proof (flush_pending_FF (S (length (notify s))) s) as FP.
  destruct (epoll_flush_pending (S (length (notify s))) s) as [s1|s1].
  2:{ cbn [fst Q1W]. apply (t1_good s1). apply (T1_F0 s s1 T). apply FF_F0. exact FP. }
  destruct P as (J1 & F1 & E1); [intros s1' (A & B & _); split; [apply Inner_W; exact A|exact B]|].
  assert (TS1 : T1 s1) by (apply (T1_F0 s s1 T); apply FF_F0; exact FP).
  assert (Q1' : quit s1 = false).
  { destruct E1 as (A & _). rewrite (sm_quit _ _ (in_same _ _ A)). exact Q. }
  set (maxev := if method s =? M_ET then numfds s + 1 else if numfds s =? 0 then 1 else numfds s).
  pose proof (epoll_wait_m_post sc WF s1 abs maxev J1 Q1') as W.
  pose proof (epoll_wait_m_Q1 s1 abs maxev J1 TS1 Q1') as WQ.
  destruct (epoll_wait_m sc s1 abs maxev) as [s2 evs|s2|r]; cbn [WPost W1] in W, WQ.
  - destruct W as (J2 & F2 & OK2). destruct WQ as [TS3 RN2].
    destruct (J_invalidate true s2 J2) as (J3 & F3 & _).
    set (s3 := invalidate_now s2) in *.
    assert (OK3 : forall ev, In ev evs -> EvOk s3 ev) by (intros ev H; exact (OK2 ev H)).
    destruct (epoll_process_post evs s3 false false J3 OK3) as [J4 F4].
    pose proof (epoll_process_FF evs s3 false false) as FF4.
    destruct (epoll_process s3 evs false false) as [[s4 run_events] tmr]. cbn [fst] in J4, F4, FF4. cbn [fst].
    assert (TS4 : T1 s4) by (apply (T1_F0 s3 s4 TS3); apply FF_F0; exact FF4).
    assert (RN4 : ran (mst s4) = []) by (rewrite (F0_ran s3 s4 (FF_F0 _ _ FF4)); exact RN2).
    assert (PR : Post true s4 (if tmr then match k_read (kern s4) (tfd s4) 8 with
                                           | (k1, inl _) => R (set_kern s4 k1)
                                           | (k1, inr _) => halt (set_kern s4 k1) TFatal
                                           end else R s4)).
    { destruct tmr; [|apply Post_same; assumption].
      pose proof (ksame_read (kern s4) (tfd s4) 8) as KS.
      destruct (k_read (kern s4) (tfd s4) 8) as [k1 [x|e]]; cbn [fst] in KS.
      - cbn [Post]. split; [apply J_set_kern_plain; assumption|apply Fr_plain; reflexivity].
      - cbn [Post halt]. rewrite mst_emit. apply good_quiet; [left; reflexivity|apply (j_good _ _ J4)]. }
    assert (QR : Q1 s4 (if tmr then match k_read (kern s4) (tfd s4) 8 with
                                           | (k1, inl _) => R (set_kern s4 k1)
                                           | (k1, inr _) => halt (set_kern s4 k1) TFatal
                                           end else R s4)).
    { destruct tmr; [|apply Q1_same; assumption].
      pose proof (ksame_read (kern s4) (tfd s4) 8) as KS.
      destruct (k_read (kern s4) (tfd s4) 8) as [k1 [x|e]]; cbn [fst] in KS.
      - cbn [Q1]. split; [apply T1_set_kern; assumption|apply RanF_eq; reflexivity].
      - eapply Q1_l; [apply (RanF_eq s4 (set_kern s4 k1)); reflexivity|]. apply Q1_halt; [apply T1_set_kern; assumption|exact I]. }
    apply (Q1_Q1W s4); [exact RN4|].
    eapply (Q1_bind true); [exact PR|exact QR|].
    intros s5 J5 T5. destruct run_events; [apply run_pending_events_Q1; assumption|apply Q1_same; assumption].
  - cbn [fst Q1W]. destruct WQ as [A B]. split; [exact A|exact B].
  - cbn [fst]. destruct r; [contradiction|exact WQ].
Qed.

Lemma do_poll_wait_Q1 : forall s call timeout, J true s -> T1 s -> quit s = false ->
  Q1W (fst (do_poll_wait sc s call timeout)).
Proof.
  intros s call timeout Jh T Q. unfold do_poll_wait.
  pose proof (wait_enter_post sc WF true s Jh) as P. pose proof (wait_enter_Q1 true s Jh T) as QE.
  destruct (wait_enter sc s) as [s1|s1]; [|exact QE].
  destruct P as (J1 & F1 & Q1'). destruct QE as [TS1 _].
  set (n := nwait (kern s1)).
  set (s2 := emit s1 (TWait n call (Z.of_nat (length (pfds s1))) timeout (interest_of_pfds (pfds s1)) (ground (kern s1)))).
  destruct (T1_wait s1 n call (Z.of_nat (length (pfds s1))) timeout (interest_of_pfds (pfds s1)) (ground (kern s1)) TS1) as [TS2 RN2].
  fold s2 in TS2, RN2.
  change (kern s2) with (kern s1). change (pfds s2) with (pfds s1).
  destruct (mem_z n (eintr_waits (flt (kern s1)))).
  - cbn [fst Q1W].
    destruct (Z.ltb_spec 0 timeout).
    + set (k1 := k_set_clock (kern s2) (clock (kern s2) + timeout / 2)).
      destruct (T1_ret s2 k1 None [] TS2) as [A B]; [cbn [k1 clock k_set_clock]; lia|].
      split; [exact A|]. transitivity (ran (mst s2)); [exact B|exact RN2].
    + destruct (T1_ret s2 (kern s2) None [] TS2) as [A B]; [lia|].
      split; [exact A|]. transitivity (ran (mst s2)); [exact B|exact RN2].
  - pose proof (poll_sleep_spec (kern s1) (pfds s1) timeout) as KS.
    destruct (k_poll_sleep (kern s1) (pfds s1) timeout) as [k1 revs|]; cbn [fst Q1W].
    + destruct KS as (K1 & K2 & K3).
      destruct (T1_ret s2 k1 (Some (count_nonzero revs)) (reported_pfds (pfds s1) revs) TS2 K2) as [A B].
      set (s3 := emit (set_kern s2 k1) _) in *.
      pose proof (poll_activate_FF (pkeys s3) revs (invalidate_now s3)) as FA.
      split; [apply (T1_F0 _ _ A); apply FF_F0; exact FA|].
      rewrite (F0_ran _ _ (FF_F0 _ _ FA)). transitivity (ran (mst s2)); [exact B|exact RN2].
    + apply T1_hang. exact TS2.
Qed.

Lemma poll_poll_Q1 : forall s abs, J true s -> T1 s -> quit s = false -> is_epoll s = false ->
  Q1W (fst (poll_poll sc s abs)).
Proof.
  intros s abs Jh T Q IE. unfold poll_poll.
  assert (VIA : forall s0, J true s0 -> T1 s0 -> quit s0 = false ->
     Q1W (fst (let '(s1, ms) := to_msec s0 abs in do_poll_wait sc s1 2 (if ms <? 0 then -1 else ms * 1000000)))).
  { intros s0 J0 T0 Q0. pose proof (to_msec_post true s0 abs J0) as P. pose proof (T1_to_msec s0 abs T0) as P1.
    destruct (to_msec s0 abs) as [s1 ms]. cbn [fst] in P, P1. destruct P as (J1 & F1 & Q1').
    apply do_poll_wait_Q1; [assumption|apply P1|congruence]. }
  destruct (method s =? M_PP); [|apply VIA; assumption].
  pose proof (to_relative_post true s abs Jh) as P. pose proof (method_to_relative s abs) as MR.
  pose proof (T1_to_relative s abs T) as P1.
  destruct (to_relative s abs) as [s1 rel]. cbn [fst] in P, MR, P1. destruct P as (J1 & F1 & Q1').
  destruct (no_ppoll (flt (kern s1))).
  - destruct (J_invalidate true s1 J1) as (J2 & F2 & _ & Q2).
    assert (IE2 : is_epoll (invalidate_now s1) = false).
    { unfold is_epoll in *. change (method (invalidate_now s1)) with (method s1). rewrite MR. exact IE. }
    pose proof (J_set_method_poll true (invalidate_now s1) M_PO J2 IE2 eq_refl) as J3.
    set (s3 := set_method (invalidate_now s1) M_PO) in *.
    apply VIA; [exact J3| |change (quit (invalidate_now s1) = false); congruence].
    apply (T1_setters (invalidate_now s1) s3); [apply T1_invalidate; apply P1|reflexivity|reflexivity].
  - apply do_poll_wait_Q1; [assumption|apply P1|congruence].
Qed.

Lemma m_poll_Q1 : forall s abs, J true s -> T1 s -> quit s = false -> Q1W (fst (m_poll sc s abs)).
Proof.
  intros s abs Jh T Q. unfold m_poll. destruct (is_epoll s) eqn:IE; [apply epoll_poll_Q1|apply poll_poll_Q1]; assumption.
Qed.

(* ---------- the kernel-timer optimisation ---------- *)
Lemma tfd_settime_F0 : forall s d, F0 s (tfd_settime s d).
Proof.
  intros s d. unfold tfd_settime. eapply F0_trans; [apply F0_set_kern; apply ksame_settime|].
  split; [reflexivity|apply TrX_emit; exact I].
Qed.

Lemma set_poll_timeout_F0 : forall s a, F0r s (fst (set_poll_timeout s a)).
Proof.
  intros s a. unfold set_poll_timeout.
  destruct (tfd s =? -1); [|cbn [fst]; apply tfd_settime_F0].
  pose proof (ksame_timerfd_create (kern s)) as KS.
  destruct (k_timerfd_create (kern s)) as [k1 [fd|e]]; cbn [fst] in KS.
  - set (s1 := set_epoll (set_kern s k1) (epfd s) fd (pwait2 s)).
    assert (A1 : F0 s s1).
    { eapply F0_trans; [apply F0_set_kern; exact KS|]. apply F0_plain; reflexivity. }
    destruct (ctl_retry s1 CTL_ADD fd B_IN (-2)) as [s2 r] eqn:CT.
    pose proof (ctl_retry_F0 _ _ _ _ _ _ _ CT) as A2.
    destruct r; cbn [fst].
    + eapply F0_trans; [exact A1|]. eapply F0_trans; [exact A2|]. apply (F0_halt s2 TFatal). exact I.
    + eapply F0_trans; [exact A1|]. eapply F0_trans; [exact A2|]. apply tfd_settime_F0.
  - cbn [fst]. eapply F0_trans; [apply F0_set_kern; exact KS|]. apply F0_plain; reflexivity.
Qed.

Lemma timeout_check_F0 : forall s abs, F0r s (fst (timeout_check s abs)).
Proof.
  intros s abs. unfold timeout_check.
  destruct ((last_abs_count s =? 5) && (0 <=? abs_cmp abs (last_abs s))); [apply F0_refl|].
  set (s1 := if last_abs_count s =? 5 then tfd_settime s 0 else s).
  assert (A1 : F0 s s1) by (unfold s1; destruct (last_abs_count s =? 5); [apply tfd_settime_F0|apply F0_refl]).
  destruct (abs_cmp abs (last_abs s) =? 0).
  - set (s2 := if last_abs_count s1 <? 5 then set_last_abs s1 (last_abs s1) (last_abs_count s1 + 1) else s1).
    assert (A2 : F0 s1 s2) by (unfold s2; destruct (last_abs_count s1 <? 5); [apply F0_plain; reflexivity|apply F0_refl]).
    destruct (last_abs_count s2 =? 5); [|cbn [fst]; eapply F0_trans; eassumption].
    destruct abs as [a|]; [|cbn [fst]; eapply F0_trans; eassumption].
    eapply F0_trans; [exact A1|]. eapply F0_trans; [exact A2|]. apply set_poll_timeout_F0.
  - destruct abs as [a|]; cbn [fst]; (eapply F0_trans; [exact A1|apply F0_plain; reflexivity]).
Qed.

Lemma poll_and_run_Q1 : forall s abs, J true s -> T1 s -> quit s = false ->
  Q1W (fst (poll_and_run sc s abs)).
Proof.
  intros s abs Jh T Q. unfold poll_and_run.
  assert (DISP : forall r, Post0 true s r -> Q1W r ->
            Q1W (bind r (fun s0 => dispatch_active sc (S (length (active s0))) s0))).
  { intros r P QW. destruct r as [s1|s1]; cbn [bind Post0 Q1W] in *; [|exact QW].
    destruct P as [J1 _]. destruct QW as [TS1 RN1]. apply (Q1_Q1W s1); [exact RN1|].
    apply dispatch_active_Q1; assumption. }
  assert (G : Post0 true s (fst (if method s =? M_ET
      then match timeout_check s abs with
           | (Halt s0, _) => (Halt s0, true)
           | (R s0, true) => let '(r, rt) := m_poll sc s0 None in
                             (bind r (fun s1 => R (if rt then set_last_abs s1 (last_abs s1) 0 else s1)), rt)
           | (R s0, false) => m_poll sc s0 abs
           end
      else m_poll sc s abs)) /\ Q1W (fst (if method s =? M_ET
      then match timeout_check s abs with
           | (Halt s0, _) => (Halt s0, true)
           | (R s0, true) => let '(r, rt) := m_poll sc s0 None in
                             (bind r (fun s1 => R (if rt then set_last_abs s1 (last_abs s1) 0 else s1)), rt)
           | (R s0, false) => m_poll sc s0 abs
           end
      else m_poll sc s abs))).
  { destruct (Z.eqb_spec (method s) M_ET) as [ME|NE]; [|split; [apply m_poll_post|apply m_poll_Q1]; assumption].
    pose proof (timeout_check_post s abs Jh ME) as P. pose proof (timeout_check_F0 s abs) as FT.
    destruct (timeout_check s abs) as [[s0|s0] fl]; cbn [fst PostQ] in P, FT.
    2:{ cbn [fst Post0 Q1W]. split; [exact P|]. apply (t1_good s0). apply (T1_F0 s s0 T FT). }
    destruct P as (J0 & F0' & Q0). pose proof (T1_F0 s s0 T FT) as TS0.
    destruct fl.
    - pose proof (m_poll_post sc WF s0 None J0 ltac:(congruence)) as P.
      pose proof (m_poll_Q1 s0 None J0 TS0 ltac:(congruence)) as QW.
      destruct (m_poll sc s0 None) as [r rt]. cbn [fst] in *. split.
      + apply (Post0_cur true s s0); [apply (proj2 F0')|].
        eapply Post0_bind; [exact P|]. intros s1 J1 _. cbn [Post0].
        split; [|intros C; destruct rt; exact C].
        destruct rt; [apply J_set_last_abs; assumption|assumption].
      + destruct r as [s1|s1]; cbn [bind Q1W] in *; [|exact QW]. destruct QW as [A B].
        destruct rt; [|split; assumption]. split; [apply (T1_setters s1 _ A); reflexivity|exact B].
    - split; [apply (Post0_cur true s s0); [apply (proj2 F0')|]; apply m_poll_post; [exact WF|assumption|congruence]|].
      apply m_poll_Q1; [assumption|assumption|congruence]. }
  destruct (if method s =? M_ET
      then match timeout_check s abs with
           | (Halt s0, _) => (Halt s0, true)
           | (R s0, true) => let '(r, rt) := m_poll sc s0 None in
                             (bind r (fun s1 => R (if rt then set_last_abs s1 (last_abs s1) 0 else s1)), rt)
           | (R s0, false) => m_poll sc s0 abs
           end
      else m_poll sc s abs) as [r rt]. cbn [fst] in *. apply DISP; apply G.
Qed.

(* ---------- iv_main ---------- *)
Lemma main_loop_Q1 : forall fuel s rt, J true s -> T1 s -> cur s = None -> ran (mst s) = [] ->
  Q1T (main_loop sc fuel s rt).
Proof.
  induction fuel as [|fuel IH]; intros s rt Jh T C RN; cbn [main_loop].
  - cbn [Q1T halt]. apply (t1_good (emit s TCrash)). apply (T1_F0 s _ T). apply (F0_halt s TCrash I).
  - assert (P1 : Post true s (if rt then run_timers sc s else R s)).
    { destruct rt; [apply run_timers_post; assumption|apply Post_same; assumption]. }
    assert (QT : Q1 s (if rt then run_timers sc s else R s)).
    { destruct rt; [apply run_timers_Q1; assumption|apply Q1_same; assumption]. }
    destruct (if rt then run_timers sc s else R s) as [s1|s1]; cbn [bind Post Q1 Q1T] in *; [|exact QT].
    destruct P1 as [J1 F1]. destruct QT as [TS1 R1].
    pose proof (run_tasks_post sc WF s1 J1 (proj2 F1 C)) as P2.
    pose proof (run_tasks_Q1 sc WF s1 J1 TS1 (proj2 F1 C) (R1 RN)) as Q2.
    destruct (run_tasks sc s1) as [s2|s2]; cbn [bind PostT Q1T] in *; [|exact Q2].
    destruct P2 as [J2 C2].
    destruct (quit s2 || (numobjs s2 =? 0)) eqn:QN; [exact Q2|].
    apply orb_false_iff in QN. destruct QN as [Q2' _].
    set (abs := match tasks s2 with _ :: _ => Some 0 | [] => soonest_timeout s2 end).
    pose proof (poll_and_run_post sc WF s2 abs J2 Q2') as P3.
    pose proof (poll_and_run_Q1 s2 abs J2 Q2 Q2') as Q3.
    destruct (poll_and_run sc s2 abs) as [r rt']. cbn [fst] in P3, Q3.
    destruct r as [s3|s3]; cbn [bind Post0 Q1W Q1T] in *; [|exact Q3].
    destruct P3 as [J3 C3]. destruct Q3 as [TS3 RN3]. apply IH; [exact J3|exact TS3|apply C3; exact C2|exact RN3].
Qed.

(* ---------- whole runs ---------- *)
Lemma core0_T1 : T1 (core0 sc) /\ ran (mst (core0 sc)) = [].
Proof.
  unfold core0.
  destruct (if (sc_backend sc =? M_ET) || (sc_backend sc =? M_EP) then _ else _) as [efd k].
  split; [|reflexivity]. constructor.
  - intros t H. cbn [heap HeapModel.batch HeapModel.init] in H. destruct H.
  - intros _ H. discriminate H.
  - intros y H. destruct H.
  - split; intros H; destruct H.
Qed.

Lemma T1_plain_event : forall s e, T1 s ->
  match e with TMain | TTear _ | TDone _ => True | _ => False end ->
  T1 (emit s e) /\ ran (mst (emit s e)) = ran (mst s).
Proof.
  intros s e T C. split.
  - apply T1_emit; [exact T| | | |]; destruct e; try contradiction;
      try (rewrite a_stale_step; reflexivity); try (rewrite ran_step; reflexivity); cbn; intuition discriminate.
  - rewrite mst_emit, ran_step. destruct e; try contradiction; reflexivity.
Qed.

Lemma T1_end : forall s q n, T1 s -> T1 (emit s (TEnd q n)).
Proof.
  intros s q n T. destruct (t1_good _ T) as [G401 G603].
  assert (RN : ran (mst (emit s (TEnd q n))) = []) by (rewrite mst_emit, ran_step; reflexivity).
  apply (T1_upd s _ T).
  - left. repeat split.
  - left. rewrite mst_emit, a_stale_step. repeat split.
  - right. intros y Y. rewrite RN in Y. destruct Y.
  - rewrite mst_emit. split; apply NF_step; try assumption; cbn; intuition discriminate.
Qed.

Lemma teardown_obj_Q1 : forall b s i, J b s -> T1 s -> ok_idx i -> Q1 s (teardown_obj s i).
Proof.
  intros b s i Jh T I. unfold teardown_obj.
  eapply (Q1_bind b); [apply do_action_post; [assumption|exact I]|apply (do_action_Q1 b); [assumption|assumption|exact I]|]. intros s1 J1 T1'.
  eapply (Q1_bind b); [apply do_action_post; [assumption|exact I]|apply (do_action_Q1 b); [assumption|assumption|exact I]|]. intros s2 J2 T2.
  eapply (Q1_bind b); [apply do_action_post; [assumption|exact I]|apply (do_action_Q1 b); [assumption|assumption|exact I]|]. intros s3 J3 T3.
  eapply (Q1_bind b); [apply do_action_post; [assumption|exact I]|apply (do_action_Q1 b); [assumption|assumption|exact I]|]. intros s4 J4 T4.
  apply (do_action_Q1 b); [assumption|assumption|exact I].
Qed.

Lemma teardown_Q1 : forall b l s, J b s -> T1 s -> Forall ok_idx l -> Q1 s (teardown s l).
Proof.
  intros b l. induction l as [|i l IH]; intros s Jh T OK; cbn [teardown]; [apply Q1_same; exact T|].
  inversion OK as [|? ? O1 O2]; subst.
  eapply (Q1_bind b); [apply teardown_obj_post; assumption|apply (teardown_obj_Q1 b); assumption|].
  intros s1 J1 T1'. apply IH; assumption.
Qed.

Lemma T1_deinit : forall s, T1 s -> T1 (deinit sc s).
Proof.
  intros s T. unfold deinit. destruct ((sc_backend sc =? M_ET) || (sc_backend sc =? M_EP)); [|exact T].
  apply (T1_F0 s _ T). eapply F0_trans; [|apply do_close_F0].
  destruct (tfd s =? -1); [apply F0_refl|apply do_close_F0].
Qed.

Theorem core_G1 : G1 (mon_run (run_scenario sc)).
Proof.
  unfold run_scenario.
  match goal with |- G1 (mon_run (rev (trace (res_state ?r)))) => change (G1 (mst (res_state r))) end.
  destruct core0_T1 as [T0 RN0].
  pose proof (run_acts_post false (sc_setup sc) (core0 sc) (core0_J sc) (wf_setup sc WF)) as P0.
  pose proof (run_acts_Q1 false (sc_setup sc) (core0 sc) (core0_J sc) T0 (wf_setup sc WF)) as Q0.
  destruct (run_acts (core0 sc) (sc_setup sc)) as [s1|s1]; cbn [bind Post Q1 res_state] in *; [|exact Q0].
  destruct P0 as [J1 F1]. destruct Q0 as [TS1 R1].
  pose proof (J_main_enter s1 J1) as J2.
  destruct (T1_plain_event s1 TMain TS1 I) as [TM RM].
  set (s2 := set_quit (emit s1 TMain) false) in *.
  assert (TS2 : T1 s2) by (apply (T1_setters (emit s1 TMain) s2 TM); reflexivity).
  assert (RN2 : ran (mst s2) = []) by (change (mst s2) with (mst (emit s1 TMain)); rewrite RM; apply R1; exact RN0).
  assert (C2 : cur s2 = None) by (apply (proj2 F1); apply core0_cur).
  pose proof (main_loop_post sc WF (Z.to_nat (sc_limit sc) + 2) s2 true J2 C2) as P3.
  pose proof (main_loop_Q1 (Z.to_nat (sc_limit sc) + 2) s2 true J2 TS2 C2 RN2) as Q3.
  destruct (main_loop sc (Z.to_nat (sc_limit sc) + 2) s2 true) as [s3|s3]; cbn [bind res_state Q1T] in *; [|exact Q3].
  pose proof (J_main_leave s3 P3) as J4.
  pose proof (T1_end s3 (if quit s3 then 1 else 0) (numobjs s3) Q3) as TS4.
  pose proof (teardown_post false (zseq 0 16) _ J4 zseq_ok) as P5.
  pose proof (teardown_Q1 false (zseq 0 16) _ J4 TS4 zseq_ok) as Q5.
  destruct (teardown (emit s3 (TEnd (if quit s3 then 1 else 0) (numobjs s3))) (zseq 0 16)) as [s5|s5];
    cbn [bind Post Q1 res_state] in *; [|exact Q5].
  destruct Q5 as [TS5 _].
  destruct (T1_plain_event s5 (TTear (numobjs s5)) TS5 I) as [TS6 _].
  pose proof (T1_deinit _ TS6) as TS7.
  destruct (T1_plain_event _ (TDone (open_dyn (kern (deinit sc (emit s5 (TTear (numobjs s5))))))) TS7 I) as [TS8 _].
  apply (t1_good _ TS8).
Qed.
End Wait.

Theorem core_code_401 : forall sc, wf_scenario sc -> ~ In 401 (mon_fails (run_scenario sc)).
Proof. intros sc WF. apply (proj1 (core_G1 sc WF)). Qed.

Theorem core_code_603 : forall sc, wf_scenario sc -> ~ In 603 (mon_fails (run_scenario sc)).
Proof. intros sc WF. apply (proj2 (core_G1 sc WF)). Qed.

Print Assumptions core_code_401.
Print Assumptions core_code_603.
