(* CorePhase2AcctSpinEnt.v -- code 711, part: what a reported interest entry is.  At a kernel wait
   every ready entry is the timer descriptor's, or belongs to a descriptor object with a ready band
   that has a handler: a user handler, or the handler of a user raw event whose descriptor has
   something to read.  The kick descriptor and the internal raw event are never ready. *)
From Coq Require Import List ZArith Bool Lia.
From Ivv Require Import Core.Kernel Core.CoreTypes Core.CoreFd Core.CoreModel Core.CoreSpec Core.Monitors.
From Ivv Require Import Core.CoreInvBase Core.CoreInvDefs Core.CoreInvFd Core.CoreInvPoll Core.CoreInvReg Core.CoreInvObj
  Core.CoreInvLoop Core.CoreInvWait.
From Ivv Require Import Core.CoreRel Core.CorePhase2FdBase Core.CorePhase2FdMon Core.CorePhase2FdStep Core.CorePhase2FdInv
  Core.CorePhase2FdLoop Core.CorePhase2FdWait.
From Ivv Require Import Core.CorePhase2AcctOwn Core.CorePhase2AcctCq Core.CorePhase2AcctCqAct Core.CorePhase2AcctNcWait
  Core.CorePhase2AcctQuiet.
Import ListNotations.
Local Open Scope Z_scope.

(* ---------- reading a descriptor with a non-zero count ---------- *)
Lemma read_eventfd : forall k fd v c, k_open k fd = Some v -> vkind v = K_EVENTFD -> vcnt v <> 0 -> 8 <= c ->
  snd (k_read k fd c) = inl 8.
Proof.
  intros k fd v c O K N C. unfold k_read. rewrite O, K. change (K_EVENTFD =? K_EVENTFD) with true. cbv iota.
  destruct (Z.ltb_spec c 8); [lia|]. destruct (Z.eqb_spec (vcnt v) 0); [contradiction|reflexivity].
Qed.

Lemma read_pipe : forall k fd v c, k_open k fd = Some v -> vkind v = K_PIPE_R -> 0 < vcnt v -> 0 < c ->
  exists n, snd (k_read k fd c) = inl n /\ n <> 0.
Proof.
  intros k fd v c O K N C. unfold k_read. rewrite O, K. change (K_PIPE_R =? K_EVENTFD) with false.
  change (K_PIPE_R =? K_PIPE_R) with true. cbv iota.
  destruct (Z.eqb_spec (vcnt v) 0); [lia|]. cbn [snd]. exists (Z.min (vcnt v) c). split; [reflexivity|lia].
Qed.

(* a raw event's descriptor has something to read *)
Definition RawRd (k : kernel) (s : core) (j : Z) : Prop :=
  exists v, k_open k (rw_rfd s j) = Some v /\ 0 < vcnt v /\
            ((raw_is_pipe s j = true /\ vkind v = K_PIPE_R) \/ (raw_is_pipe s j = false /\ vkind v = K_EVENTFD)).

Lemma RawRd_not_dry : forall s j, RawRd (kern s) s j -> Dry s j -> False.
Proof.
  intros s j (v & O & N & [[E K]|[E K]]) D; unfold Dry, toread in D.
  - rewrite E in D. destruct (read_pipe _ _ _ 1024 O K N ltac:(lia)) as (n & R & _). rewrite R in D. discriminate D.
  - rewrite E in D. rewrite (read_eventfd _ _ _ 8 O K ltac:(lia) ltac:(lia)) in D. discriminate D.
Qed.

(* ---------- conditions of library-created descriptors ---------- *)
Lemma cond_eventfd : forall kx fd v, k_get kx fd = Some v -> vkind v = K_EVENTFD ->
  k_cond kx fd = (if 0 <? vcnt v then B_IN else 0) + B_OUT.
Proof. intros kx fd v G K. unfold k_cond. rewrite G, K. reflexivity. Qed.

Lemma cond_pipe_r : forall kx fd v, k_get kx fd = Some v -> vkind v = K_PIPE_R -> vpeer_open v = true ->
  k_cond kx fd = (if 0 <? vcnt v then B_IN else 0).
Proof. intros kx fd v G K P. unfold k_cond. rewrite G, K, P. cbn. lia. Qed.

Lemma rbits_in_only : forall c, rbits c B_IN <> 0 -> has c B_IN = true \/ has c B_HUP = true \/ has c B_ERR = true.
Proof.
  intros c R. unfold rbits in R.
  destruct (bits4_has (has c B_IN && has B_IN B_IN) (has c B_OUT && has B_IN B_OUT) (has c B_HUP) (has c B_ERR)) as (_ & _ & _ & _ & Z0).
  apply Z.eqb_neq in R. rewrite R in Z0. symmetry in Z0. apply negb_false_iff in Z0.
  change (has B_IN B_IN) with true in Z0. change (has B_IN B_OUT) with false in Z0. rewrite andb_true_r, andb_false_r, orb_false_r in Z0.
  apply orb_true_iff in Z0. destruct Z0 as [Z0|Z0]; [apply orb_true_iff in Z0; tauto|tauto].
Qed.

Lemma rbits_none : forall c, rbits c 0 <> 0 -> has c B_HUP = true \/ has c B_ERR = true.
Proof.
  intros c R. unfold rbits in R.
  destruct (bits4_has (has c B_IN && has 0 B_IN) (has c B_OUT && has 0 B_OUT) (has c B_HUP) (has c B_ERR)) as (_ & _ & _ & _ & Z0).
  apply Z.eqb_neq in R. rewrite R in Z0. symmetry in Z0. apply negb_false_iff in Z0.
  change (has 0 B_IN) with false in Z0. change (has 0 B_OUT) with false in Z0. rewrite !andb_false_r in Z0. cbn [orb] in Z0.
  apply orb_true_iff in Z0. exact Z0.
Qed.

Lemma has_small : forall b : bool, has ((if b then B_IN else 0) + B_OUT) B_HUP = false /\ has ((if b then B_IN else 0) + B_OUT) B_ERR = false /\
  has ((if b then B_IN else 0) + B_OUT) B_IN = b.
Proof. intros [|]; repeat split; reflexivity. Qed.

Lemma has_small2 : forall b : bool, has (if b then B_IN else 0) B_HUP = false /\ has (if b then B_IN else 0) B_ERR = false /\
  has (if b then B_IN else 0) B_IN = b.
Proof. intros [|]; repeat split; reflexivity. Qed.

Lemma get_same : forall kx k fd, vfds kx = vfds k -> k_get kx fd = k_get k fd.
Proof. intros kx k fd E. unfold k_get. rewrite E. reflexivity. Qed.

(* ---------- raw events ---------- *)
Lemma raw_ready : forall s kx j, InvW s -> rw_reg s j = true -> vfds kx = vfds (kern s) ->
  rbits (k_cond kx (rw_rfd s j)) B_IN <> 0 -> RawRd (kern s) s j /\ has (k_cond kx (rw_rfd s j)) B_IN = true.
Proof.
  intros s kx j I RJ VX NZ. pose proof (dy_kern _ (CoreInvDefs.iw_dyn _ I) j RJ) as DK.
  destruct (raw_is_pipe s j) eqn:E0.
  - destruct DK as (_ & _ & v & vw & O1 & K1 & _ & PO & _).
    pose proof O1 as O1'. apply k_open_get in O1'. destruct O1' as [G _]. rewrite <- (get_same kx _ _ VX) in G.
    rewrite (cond_pipe_r kx _ v G K1 PO) in *. destruct (has_small2 (0 <? vcnt v)) as (H1 & H2 & H3).
    destruct (rbits_in_only _ NZ) as [X|[X|X]]; try congruence. rewrite H3 in X.
    split; [exists v; split; [exact O1|split; [apply Z.ltb_lt; exact X|left; split; [exact E0|assumption]]]|rewrite H3; exact X].
  - destruct DK as (_ & _ & v & O1 & K1).
    pose proof O1 as O1'. apply k_open_get in O1'. destruct O1' as [G _]. rewrite <- (get_same kx _ _ VX) in G.
    rewrite (cond_eventfd kx _ v G K1) in *. destruct (has_small (0 <? vcnt v)) as (H1 & H2 & H3).
    destruct (rbits_in_only _ NZ) as [X|[X|X]]; try congruence. rewrite H3 in X.
    split; [exists v; split; [exact O1|split; [apply Z.ltb_lt; exact X|right; split; [exact E0|assumption]]]|rewrite H3; exact X].
Qed.

(* the internal raw event never has anything to read *)
Lemma kickraw_dry : forall s, InvW s -> CQ s -> rw_reg s KICK_RAW = true -> RawRd (kern s) s KICK_RAW -> False.
Proof.
  intros s I C RK (v & O & N & _). pose proof (CoreInvDefs.iw_fd _ I) as FI. pose proof (CoreInvDefs.iw_dyn _ I) as DI.
  assert (L32 : live s (-1) 32).
  { apply live_none. split; [lia|]. change 32 with (16 + 16). rewrite (dy_reg _ DI 16 ltac:(lia)). exact RK. }
  assert (F32 : fdnum (fdt s 32) = rw_rfd s KICK_RAW) by (apply (dy_obj _ DI KICK_RAW RK)).
  assert (R1000 : 1000 <= rw_rfd s KICK_RAW) by (rewrite <- F32; apply (fv_dyn _ _ FI 32 ltac:(lia) L32)).
  destruct (C _ R1000 ltac:(exists v; split; [exact O|lia])) as [(j & RG & RJ & E)|(AR & E)].
  - assert (Lj : live s (-1) (16 + j)).
    { apply live_none. split; [lia|]. rewrite (dy_reg _ DI j ltac:(lia)). exact RJ. }
    assert (Fj : fdnum (fdt s (16 + j)) = rw_rfd s j) by (apply (dy_obj _ DI j RJ)).
    pose proof (fv_inj _ _ FI 32 (16 + j) L32 Lj ltac:(rewrite F32, Fj; exact E)). unfold KICK_RAW in *. lia.
  - destruct (fv_ref _ _ FI) as [Z0|O1]; [contradiction|]. apply (dy_actraw _ DI O1 KICK_RAW RK). exact E.
Qed.

(* ---------- the kick descriptor is never ready ---------- *)
Lemma kick_not_ready : forall s kx e, InvW s -> vfds kx = vfds (kern s) -> In e (ep (kern s)) -> en_data e = -1 ->
  ep_ready_bits kx e = 0.
Proof.
  intros s kx e I VX I0 D. pose proof (CoreInvDefs.iw_fd _ I) as FI. pose proof (CoreInvDefs.iw_dyn _ I) as DI.
  destruct (fv_ent _ _ FI e I0) as [(L & _)|[(_ & F & AR & EV & _)|(D2 & _)]]; [destruct L as [L _]; lia| |lia].
  rewrite ready_bits_eq. destruct (en_enabled e); [|reflexivity]. cbn [negb]. rewrite EV.
  destruct (Z.eq_dec (rbits (k_cond kx (en_fd e)) 0) 0) as [Z0|NZ]; [exact Z0|exfalso].
  destruct (dy_act _ DI AR) as (_ & (v & O & KD) & PW). rewrite F in *.
  pose proof O as O'. apply k_open_get in O'. destruct O' as [G _]. rewrite <- (get_same kx _ _ VX) in G.
  destruct KD as [[K W]|[K W]].
  - rewrite (cond_eventfd kx _ v G K) in NZ. destruct (has_small (0 <? vcnt v)) as (H1 & H2 & _).
    destruct (rbits_none _ NZ); congruence.
  - destruct PW as [E|PO]; [contradiction|]. destruct PO as (_ & _ & v' & vw & O1 & _ & _ & PP & _).
    rewrite O in O1. inversion O1; subst v'.
    rewrite (cond_pipe_r kx _ v G K PP) in NZ. destruct (has_small2 (0 <? vcnt v)) as (H1 & H2 & _).
    destruct (rbits_none _ NZ); congruence.
Qed.

(* ---------- a ready interest of a registered descriptor object fires a handler ---------- *)
Lemma rbits_ext : forall c ev ev', has ev B_IN = has ev' B_IN -> has ev B_OUT = has ev' B_OUT -> rbits c ev = rbits c ev'.
Proof. intros c ev ev' A B. unfold rbits. rewrite A, B. reflexivity. Qed.

Definition Fires (s : core) (d bits : Z) : Prop :=
  exists b hid, 0 <= b <= 2 /\ band_holds b bits = true /\ hnd (fdt s d) b = Some hid /\
    (hid < 1000 \/ (1000 <= hid /\ rw_reg s (hid - 1000) = true /\ hid - 1000 <> KICK_RAW /\ RawRd (kern s) s (hid - 1000))).

Lemma key_fires : forall s kx d ev, InvW s -> CQ s -> vfds kx = vfds (kern s) ->
  0 <= d <= 32 -> registered (fdt s d) = true -> bands_of (fdt s d) <> 0 ->
  has ev B_IN = has (bands_of (fdt s d)) M_IN -> has ev B_OUT = has (bands_of (fdt s d)) M_OUT ->
  rbits (k_cond kx (fdnum (fdt s d))) ev <> 0 ->
  Fires s d (rbits (k_cond kx (fdnum (fdt s d))) ev).
Proof.
  intros s kx d ev I C VX RD RG BN EI EO NZ. pose proof (CoreInvDefs.iw_dyn _ I) as DI.
  set (c := k_cond kx (fdnum (fdt s d))) in *.
  destruct (Z_lt_le_dec d 16) as [U|R16].
  - (* a user descriptor *)
    destruct (ready_band (fdt s d) c ev BN EI EO NZ) as (b & BB & H & BH).
    destruct (hnd (fdt s d) b) as [hid|] eqn:HH; [|contradiction].
    exists b, hid. split; [exact BB|]. split.
    + pose proof (hnd_bands (fdt s d) b BB ltac:(rewrite HH; discriminate)) as HB.
      apply band_holds_complete; [exact BH| |]; intros ->; [rewrite EI|rewrite EO]; exact HB.
    + split; [exact HH|]. left. destruct (dy_userh _ DI d ltac:(lia)) as (A1 & A2 & A3).
      assert (HB : b = 0 \/ b = 1 \/ b = 2) by lia. unfold hnd in HH.
      destruct HB as [->|[->| ->]]; cbn [Z.eqb Pos.eqb] in HH; [apply A1 in HH|apply A2 in HH|apply A3 in HH]; lia.
  - (* the descriptor of a raw event *)
    set (j := d - 16). assert (DJ : d = 16 + j) by (unfold j; lia). assert (RJ16 : 0 <= j <= 16) by (unfold j; lia).
    assert (RJ : rw_reg s j = true) by (rewrite <- (dy_reg _ DI j RJ16), <- DJ; exact RG).
    destruct (dy_obj _ DI j RJ) as (FN & HI & HO & HE). rewrite <- DJ in FN, HI, HO, HE.
    assert (BO : bands_of (fdt s d) = M_IN) by (unfold bands_of; rewrite HI, HO, HE; reflexivity).
    rewrite BO in EI, EO. change (has M_IN M_IN) with true in EI. change (has M_IN M_OUT) with false in EO.
    assert (RB : rbits c ev = rbits c B_IN) by (apply rbits_ext; [rewrite EI; reflexivity|rewrite EO; reflexivity]).
    rewrite RB in *. unfold c in *. rewrite FN in *.
    destruct (raw_ready s kx j I RJ VX NZ) as [RR CI].
    exists 0, (1000 + j). split; [lia|]. split.
    + unfold band_holds. cbv zeta. cbn [Z.eqb]. unfold rbits.
      destruct (bits4_has (has (k_cond kx (rw_rfd s j)) B_IN && has B_IN B_IN) (has (k_cond kx (rw_rfd s j)) B_OUT && has B_IN B_OUT)
                          (has (k_cond kx (rw_rfd s j)) B_HUP) (has (k_cond kx (rw_rfd s j)) B_ERR)) as (A & _).
      rewrite A, CI. reflexivity.
    + split; [unfold hnd; cbn [Z.eqb]; rewrite HI; reflexivity|]. right.
      replace (1000 + j - 1000) with j by lia. split; [lia|]. split; [exact RJ|]. split; [|exact RR].
      intros EJ. rewrite EJ in *. exact (kickraw_dry s I C RJ RR).
Qed.

(* an epoll entry *)
Lemma entry_fires : forall s kx e, InvW s -> TfdM s -> KX (kern s) -> CQ s -> is_epoll s = true -> notify s = [] ->
  vfds kx = vfds (kern s) -> In e (ep (kern s)) -> ep_ready_bits kx e <> 0 ->
  (en_data e = -2 /\ method s = M_ET) \/ (0 <= en_data e <= 32 /\ Fires s (en_data e) (ep_ready_bits kx e)).
Proof.
  intros s kx e I TM [_ KE0] C IE NT VX I0 NZ. pose proof (CoreInvDefs.iw_fd _ I) as FI.
  destruct (fv_ent _ _ FI e I0) as [(L & F & RN & EV)|[(D & _)|(D & F & _ & GE)]].
  - right. apply live_none in L. destruct L as [L RG]. split; [exact L|].
    pose proof (regb_bands s (en_data e) I IE NT RG) as RB. rewrite RB in RN, EV.
    assert (RBE : ep_ready_bits kx e = rbits (k_cond kx (fdnum (fdt s (en_data e)))) (epoll_mask (bands_of (fdt s (en_data e))))).
    { rewrite ready_bits_eq. assert (EN : en_enabled e = true) by apply (KE0 e I0). rewrite EN. cbn [negb]. rewrite F, EV. reflexivity. }
    rewrite RBE in *.
    destruct (epoll_mask_has (bands_of (fdt s (en_data e)))) as (M1 & M2 & _).
    apply (key_fires s kx (en_data e) _ I C VX L RG RN M1 M2 NZ).
  - exfalso. apply NZ. apply (kick_not_ready s kx e I VX I0 D).
  - left. split; [exact D|]. apply TM. lia.
Qed.

(* a disarmed timer descriptor is not ready *)
Lemma tfd_not_ready : forall s kx e, InvW s -> vfds kx = vfds (kern s) -> en_fd e = tfd s -> tfd s <> -1 ->
  (exists v, k_get (kern s) (tfd s) = Some v /\ vdeadline v = 0 /\ vfired v = false) -> ep_ready_bits kx e = 0.
Proof.
  intros s kx e I VX F NT (v & G & D0 & F0).
  destruct (dy_tfd _ (CoreInvDefs.iw_dyn _ I)) as [T1|(_ & v' & G' & K)]; [contradiction|].
  rewrite G in G'. inversion G'; subst v'.
  rewrite ready_bits_eq. destruct (en_enabled e); [|reflexivity]. cbn [negb]. rewrite F.
  unfold k_cond. rewrite (get_same kx _ _ VX), G, K.
  change (K_TIMERFD =? K_SCRIPTED) with false. change (K_TIMERFD =? K_EVENTFD) with false.
  change (K_TIMERFD =? K_PIPE_R) with false. change (K_TIMERFD =? K_PIPE_W) with false.
  change (K_TIMERFD =? K_TIMERFD) with true. cbv iota. rewrite F0, D0. reflexivity.
Qed.

(* a slot of the pollfd array *)
Lemma slot_fires : forall s kx n d, InvW s -> CQ s -> is_epoll s = false -> vfds kx = vfds (kern s) ->
  nth_error (pkeys s) n = Some d ->
  exists ev, nth_error (pfds s) n = Some (fdnum (fdt s d), ev) /\ 0 <= d <= 32 /\
    (poll_revents kx (fdnum (fdt s d)) ev <> 0 -> Fires s d (poll_revents kx (fdnum (fdt s d)) ev)).
Proof.
  intros s kx n d I C IE VX PK. pose proof (CoreInvDefs.iw_fd _ I) as FI.
  destruct (fv_pkey _ _ FI n d PK) as (L & PI & ev & PF). exists ev. split; [exact PF|].
  pose proof L as L'. apply live_none in L'. destruct L' as [RD RG]. split; [exact RD|].
  destruct (CoreInvDefs.iw_sync _ I d RG) as (W & _ & SP). destruct (SP IE) as [PX PM].
  assert (NP : pidx (fdt s d) <> -1) by (rewrite PI; lia).
  assert (WN : wanted (fdt s d) <> 0) by (apply PX; exact NP).
  assert (EV : ev = poll_mask (wanted (fdt s d))).
  { specialize (PM (fdnum (fdt s d), ev)). rewrite PI, Nat2Z.id in PM. apply (PM PF). lia. }
  rewrite W in WN, EV.
  assert (O : k_open kx (fdnum (fdt s d)) <> None).
  { destruct (vfds_same kx (kern s) VX) as (_ & OO & _). rewrite OO. apply (fv_open _ _ FI d L). }
  rewrite (poll_revents_eq _ _ _ O). intros NZ.
  destruct (poll_mask_has (bands_of (fdt s d))) as (M1 & M2). rewrite EV in *.
  apply (key_fires s kx d _ I C VX RD RG WN M1 M2 NZ).
Qed.
