(* CorePhase2AcctSpinTop.v -- code 711: the loop is never woken with events in two consecutive
   iterations without running a callback; and the whole of property C07.  iv_main and whole runs. *)
From Coq Require Import List ZArith Bool Lia.
From Ivv Require Import Core.Kernel Core.CoreTypes Core.CoreFd Core.CoreModel Core.CoreSpec Core.Monitors.
From Ivv Require Import Core.CoreInvBase Core.CoreInvDefs Core.CoreInvFd Core.CoreInvPoll Core.CoreInvReg Core.CoreInvObj
  Core.CoreInvLoop Core.CoreInvWait.
From Ivv Require Import Core.CoreRel Core.CorePhase2FdBase Core.CorePhase2FdMon Core.CorePhase2FdStep Core.CorePhase2FdInv
  Core.CorePhase2FdLoop Core.CorePhase2FdWait Core.CorePhase2FdTop.
From Ivv Require Import Core.CorePhase2K1.
From Ivv Require Import Core.CorePhase2AcctTr Core.CorePhase2AcctTr2 Core.CorePhase2AcctMon Core.CorePhase2AcctNc
  Core.CorePhase2AcctOwn Core.CorePhase2AcctCq Core.CorePhase2AcctCqAct Core.CorePhase2AcctCqLoop Core.CorePhase2AcctCqWait
  Core.CorePhase2AcctK0 Core.CorePhase2AcctSpin Core.CorePhase2AcctSpinLoop Core.CorePhase2AcctSpinWait Core.CorePhase2AcctSpinPoll.
Import ListNotations.
Local Open Scope Z_scope.

Section Top11.
Variable sc : scenario.
Hypothesis WF : wf_scenario sc.
Hypothesis DA : forall s a, InvW s -> wf_action a -> okr (StepW s) (do_action s a).
Hypothesis C0 : LoopInv (core0 sc).
Let Hh := wf_handlers sc WF.

(* everything that is carried round iv_main *)
Record LI (s : core) : Prop := {
  li_l : LoopInv s; li_y : Y sc true s; li_e : expect (mst s) = [];
  li_c : CQ s; li_k : LKM s; li_0 : K0 s; li_s : SPs s;
  li_cnt : EIs s -> last_abs_count s = 0;
  li_spin : spin (mst s) = 1 -> EIs s -> False }.

Lemma LI_T11 : forall s, LI s -> T11s s.
Proof.
  intros s L. split; [apply (li_s _ L)|]. intros HE. destruct (li_s _ L) as (_ & [Z0|O1] & _); [exact Z0|].
  exfalso. exact (li_spin _ L O1 HE).
Qed.

(* a phase that runs callbacks only *)
Lemma LI_phase : forall s s', LI s -> TrExt ch s s' -> LoopInv s' -> Y sc true s' -> expect (mst s') = [] ->
  CQI s s' -> TFs s s' -> LI s'.
Proof.
  intros s s' L T L' Y' E' C' F'. constructor; try assumption.
  - apply C'. apply (li_c _ L).
  - apply (LKM_TFs s s' (li_k _ L) F').
  - apply (K0_TFs s s' (li_0 _ L) F').
  - apply (SPs_ext ch s s' ch_nr7 T (li_s _ L)).
  - intros HE. rewrite (tf_lac _ _ _ F'). apply (li_cnt _ L). apply (EIs_ext ch s s' ch_nr7 T HE).
  - intros S1 HE. rewrite (spin_ext ch s s' (fun e H => or_introl (ch_nr7 e H)) T) in S1.
    apply (li_spin _ L S1). apply (EIs_ext ch s s' ch_nr7 T HE).
Qed.

Lemma main_loop_S : forall fuel s rt, LI s ->
  match main_loop sc fuel s rt with R s' => T11s s' | Halt s' => SPs s' end.
Proof.
  induction fuel as [|fuel IH]; intros s rt L; cbn [main_loop].
  - cbn [halt]. apply SPs_emit; [apply (li_s _ L)|exact I].
  - pose proof (li_l _ L) as (I0 & Q0 & T0 & A0).
    assert (P1 : match (if rt then run_timers sc s else R s) with R s1 => LI s1 | Halt s1 => SPs s1 end).
    { destruct rt; [|exact L].
      pose proof (run_timers_ok sc Hh DA s I0 Q0) as R1. pose proof (run_timers_Y sc WF s (li_y _ L)) as R2.
      pose proof (run_timers_exth sc s) as T1. unfold RExt in T1.
      pose proof (run_timers_C sc WF DA s I0 Q0) as RC. pose proof (run_timers_K sc WF DA s I0 Q0) as RK.
      destruct (run_timers sc s) as [s1|s1]; unfold PC, PK in *; cbn [okr PostY res_state ARes] in *;
        [|apply (SPs_ext ch s s1 ch_nr7 T1 (li_s _ L))].
      destruct R2 as (Y1 & M1 & _). destruct (LoopInv_Ph sc WF DA s s1 (li_l _ L) R1) as [L1 _].
      apply (LI_phase s s1 L T1 L1 Y1 (proj2 (MF_idle s s1 M1 A0 (li_e _ L))) (proj2 RC) (proj2 RK)). }
    destruct (if rt then run_timers sc s else R s) as [s1|s1]; cbn [bind]; [|exact P1].
    pose proof (li_l _ P1) as (I1 & Q1 & T1 & A1).
    pose proof (run_tasks_ok sc Hh DA s1 I1 Q1) as R1.
    pose proof (run_tasks_Y sc WF s1 (li_y _ P1) (proj1 (proj2 Q1))) as R2.
    pose proof (run_tasks_exth sc s1) as TT. unfold RExt in TT.
    pose proof (run_tasks_C sc WF DA s1 I1 Q1) as RC. pose proof (run_tasks_K sc WF DA s1 I1 Q1) as RK.
    destruct (run_tasks sc s1) as [s2|s2]; unfold PC, PK in *; cbn [okr PostTY bind res_state ARes] in *;
      [|apply (SPs_ext ch s1 s2 ch_nr7 TT (li_s _ P1))].
    destruct R2 as (Y2 & M2 & _). destruct (LoopInv_Ph sc WF DA s1 s2 (li_l _ P1) R1) as [L2 _].
    destruct (MF_idle s1 s2 M2 A1 (li_e _ P1)) as [A2 E2].
    pose proof (LI_phase s1 s2 P1 TT L2 Y2 E2 (proj2 RC) (proj2 RK)) as P2.
    destruct (quit s2 || (numobjs s2 =? 0)) eqn:QN; [apply LI_T11; exact P2|].
    apply orb_false_iff in QN. destruct QN as [Q2 _].
    set (abs := match tasks s2 with _ :: _ => Some 0 | [] => soonest_timeout s2 end).
    assert (W2 : WP sc s2) by (constructor; [apply L2|exact Y2|exact A2|exact E2|exact Q2]).
    pose proof (poll_and_run_W sc WF DA s2 abs W2) as P3.
    pose proof (poll_and_run_ok sc WF DA s2 abs L2) as P4.
    pose proof (poll_and_run_S sc s2 abs (LI_T11 s2 P2)) as P5.
    pose proof (poll_and_run_EI sc WF DA s2 abs) as P6.
    pose proof (poll_and_run_C sc WF DA s2 abs) as P7.
    pose proof (poll_and_run_LKM sc WF DA s2 abs) as P8.
    pose proof (poll_and_run_K0 sc WF DA s2 abs) as P9.
    destruct (poll_and_run sc s2 abs) as [r rt']. cbn [fst] in *.
    destruct r as [s3|s3]; cbn [bind IdleOut okr res_state] in *; [|apply P5].
    destruct P3 as (Y3 & A3 & E3). destruct P4 as (L3 & _). destruct P5 as [S3 SP3].
    apply IH. constructor; try assumption.
    + apply (P7 s3 L2 eq_refl). apply (li_c _ P2).
    + apply (P8 s3 L2 (li_k _ P2) eq_refl).
    + apply (P9 s3 L2 (li_k _ P2) (li_0 _ P2) eq_refl).
    + intros HE. apply (P6 s3 L2 W2 (li_c _ P2) (li_k _ P2) (li_0 _ P2) eq_refl HE).
    + intros S1 HE. destruct (P6 s3 L2 W2 (li_c _ P2) (li_k _ P2) (li_0 _ P2) eq_refl HE) as [_ NZ].
      apply NZ. apply (li_cnt _ P2). apply (SP3 S1 HE).
Qed.

(* ---------- the initial state ---------- *)
Lemma KP_fold_user : forall l k, (forall i, In i l -> i < 900) -> KP k (fold_left k_user_fd l k).
Proof.
  induction l as [|i l IH]; intros k H; cbn [fold_left]; [apply KP_refl|].
  eapply KP_trans; [|apply IH; intros j J; apply H; right; exact J].
  unfold k_user_fd. apply KP_put_user. specialize (H i (or_introl eq_refl)). lia.
Qed.

Lemma core0_711 : CQ (core0 sc) /\ LKM (core0 sc) /\ K0 (core0 sc) /\ SPs (core0 sc) /\ (EIs (core0 sc) -> False).
Proof.
  unfold core0. cbv zeta.
  set (k0 := fold_left k_user_fd (zseq 0 16) (kernel0 (sc_faults sc))).
  assert (K0' : KP (kernel0 (sc_faults sc)) k0).
  { apply KP_fold_user. intros i Hi. apply In_zseq' in Hi. cbn in Hi. lia. }
  assert (KK : forall b : bool, KP (kernel0 (sc_faults sc)) (snd (if b then k_epoll_create k0 else (-1, k0)))).
  { intros b. destruct b; cbn [snd]; [|exact K0']. eapply KP_trans; [exact K0'|apply KP_alloc]. }
  specialize (KK ((sc_backend sc =? M_ET) || (sc_backend sc =? M_EP))).
  destruct (if (sc_backend sc =? M_ET) || (sc_backend sc =? M_EP) then _ else _) as [efd k]. cbn [snd] in KK.
  split; [|split; [|split; [|split]]].
  - intros fd L P. cbn [kern] in P. destruct (KK fd L P) as [(v & O & _)|[]]. unfold k_open, k_get in O. cbn in O. discriminate O.
  - intros M. apply LK_trivial; [reflexivity|]. intros _. cbn. discriminate.
  - intros _ _. left. reflexivity.
  - split; [intros c []|]. split; [left; reflexivity|cbn; lia].
  - intros [HE _]. cbn in HE. discriminate HE.
Qed.

Theorem core_clean11 : Clean S11 (mon_run (run_scenario sc)).
Proof.
  unfold run_scenario.
  match goal with |- Clean S11 (mon_run (rev (trace (res_state ?r)))) => change (Clean S11 (mst (res_state r))) end.
  assert (FIN : forall r, SPs (res_state r) -> Clean S11 (mst (res_state r))) by (intros r (C & _); exact C).
  apply FIN.
  destruct core0_711 as (CQ0 & LK0 & K00 & SP0 & NE0). destruct (core0_Y sc C0) as (Y0 & A0 & E0).
  pose proof (run_acts_Y sc false (sc_setup sc) (core0 sc) Y0 (wf_setup sc WF)) as P0.
  pose proof (run_acts_ok DA (sc_setup sc) (core0 sc) (proj1 C0) (wf_setup sc WF)) as Q0.
  pose proof (run_acts_C DA (sc_setup sc) (core0 sc) (proj1 C0) (wf_setup sc WF)) as RC.
  pose proof (run_acts_K DA (sc_setup sc) (core0 sc) (proj1 C0) (wf_setup sc WF)) as RK.
  pose proof (run_acts_ext (sc_setup sc) (core0 sc)) as T0. unfold RExt in T0.
  pose proof (SPs_ext ca _ _ ca_nr7 T0 SP0) as SP1.
  destruct (run_acts (core0 sc) (sc_setup sc)) as [s1|s1]; unfold PC, PK in *; cbn [bind PostY okr res_state ARes] in *; [|exact SP1].
  destruct P0 as (Y1 & M1 & _). pose proof (LoopInv_StepT2 _ _ C0 Q0) as L1.
  destruct (MF_idle _ _ M1 A0 E0) as [A1 E1].
  assert (NE1 : EIs s1 -> False) by (intros HE; apply NE0; apply (EIs_ext ca _ _ ca_nr7 T0 HE)).
  set (s2 := set_quit (emit s1 TMain) false).
  assert (Y2 : Y sc true s2).
  { destruct Y1 as [J1 K U G]. constructor; [apply J_main_enter; exact J1|exact K|exact U|].
    apply (G2_trace sc (emit s1 TMain)); [reflexivity|apply G2_sil; [exact I|exact G]]. }
  assert (E2 : expect (mst s2) = []).
  { change (mst s2) with (mst (emit s1 TMain)). rewrite mst_emit.
    destruct (tv_fields _ _ (sil_tv (mst s1) TMain I)) as (_ & _ & T). rewrite T. exact E1. }
  assert (TM2 : TrExt nr s1 s2) by (apply (TrExt_trans nr s1 (emit s1 TMain) s2); [apply TrExt_emit; exact I|apply TrExt_same; reflexivity]).
  assert (NE2 : EIs s2 -> False) by (intros HE; apply NE1; apply (EIs_ext nr s1 s2 (fun e H => H) TM2 HE)).
  assert (LI2 : LI s2).
  { constructor; [apply (LoopInv_main_enter s1 L1)|exact Y2|exact E2| | | | | |].
    - intros fd LL P. apply (proj2 RC CQ0 fd LL P).
    - apply (LKM_TFs s1 s2); [apply (LKM_TFs _ _ LK0 (proj2 RK))|apply TFs_plain; reflexivity].
    - apply (K0_TFs s1 s2); [apply (K0_TFs _ _ K00 (proj2 RK))|apply TFs_plain; reflexivity].
    - apply (SPs_ext nr s1 s2 (fun e H => H) TM2 SP1).
    - intros HE. destruct (NE2 HE).
    - intros _ HE. exact (NE2 HE). }
  pose proof (main_loop_S (Z.to_nat (sc_limit sc) + 2) s2 true LI2) as P3.
  destruct (main_loop sc (Z.to_nat (sc_limit sc) + 2) s2 true) as [s3|s3]; cbn [bind res_state] in *; [|exact P3].
  destruct P3 as [SP3 O3].
  set (s4 := emit s3 (TEnd (if quit s3 then 1 else 0) (numobjs s3))).
  assert (SP4 : SPs s4) by (apply SPs_emit; [exact SP3|exact O3]).
  pose proof (teardown_ext (zseq 0 16) s4) as T5. unfold RExt in T5.
  pose proof (SPs_ext ca _ _ ca_nr7 T5 SP4) as SP5.
  destruct (teardown s4 (zseq 0 16)) as [s5|s5]; cbn [bind res_state] in *; [|exact SP5].
  apply SPs_emit; [|exact I].
  apply (SPs_ext ca (emit s5 (TTear (numobjs s5)))); [exact ca_nr7|apply deinit_ext|].
  apply SPs_emit; [exact SP5|exact I].
Qed.

End Top11.

(* ---------- exported statements ---------- *)
From Ivv Require Core.CoreInv Core.CorePhase2Fd.

Theorem core_code_711 : forall sc, wf_scenario sc -> ~ In 711 (mon_fails (run_scenario sc)).
Proof.
  intros sc WF H.
  apply (core_clean11 sc WF CoreInv.do_action_ok (CorePhase2Fd.core0_LoopInv sc WF) 711 H). cbn. tauto.
Qed.

Print Assumptions core_code_711.
