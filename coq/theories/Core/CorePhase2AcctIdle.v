(* CorePhase2AcctIdle.v -- code 1103 of the guard monitor, tracker side: the busy-poll counters
   g_idle_now / g_idle are only touched by callbacks (clear), wait returns (set) and the iteration
   boundaries (count); the invariant GI and the one condition the model has to supply. *)
From Coq Require Import List ZArith Bool Lia.
From Ivv Require Import Core.Kernel Core.CoreTypes Core.CoreFd Core.Monitors Core.GuardMon Core.CorePhase2AcctNc.
Import ListNotations.
Local Open Scope Z_scope.

Definition idle2 (g : gmon) : bool * Z := (g_idle_now g, g_idle g).
Definition f1103 (g : gmon) : Prop := In 1103 (g_fails g).

Lemma f1103_fail : forall g c, f1103 (g_fail g c) -> c = 1103 \/ f1103 g.
Proof.
  intros g c H. unfold f1103, g_fail in *. cbn [g_fails] in H. destruct (mem_z c (g_fails g)); [right; exact H|].
  apply in_app_or in H. destruct H as [H|[H|[]]]; [right; exact H|left; exact H].
Qed.

Lemma boundary_idle : forall g, idle2 (boundary g) = idle2 g /\ (f1103 (boundary g) -> f1103 g) /\ g_done (boundary g) = g_done g.
Proof.
  intros g. unfold boundary. destruct (leftovers g); [|tauto]. split; [reflexivity|]. split; [|reflexivity].
  intros H. apply f1103_fail in H. destruct H as [H|H]; [discriminate H|exact H].
Qed.

Section Idle.
Variable sc : scenario.

Lemma script_of_idle : forall g key, idle2 (fst (script_of sc g key)) = idle2 g /\ g_fails (fst (script_of sc g key)) = g_fails g.
Proof. intros g key. unfold script_of. destruct (sc_handlers sc key); split; reflexivity. Qed.

(* what one event does to the two counters and to code 1103 *)
Definition idle_spec (g g' : gmon) (e : tev) : Prop :=
  match e with
  | TCallFd _ _ _ _ | TCallTimer _ _ | TCallTask _ | TCallEvent _ | TCallRaw _ =>
      idle2 g' = (false, g_idle g) /\ (f1103 g' -> f1103 g)
  | TRet (Some n) _ clk =>
      idle2 g' = ((n =? 0) && (clk =? a_clk (g_m g)), g_idle g) /\ (f1103 g' -> f1103 g)
  | TWait _ _ _ _ _ _ | TEnd _ _ =>
      let n := if g_idle_now g then g_idle g + 1 else 0 in
      idle2 g' = (false, n) /\ (f1103 g' -> f1103 g \/ 2 <= n)
  | _ => idle2 g' = idle2 g /\ (f1103 g' -> f1103 g)
  end.

Lemma call_idle : forall g e key, 
  let g1 := g_set_idle (track (boundary g) e) false (g_idle g) in
  idle2 (let '(g2, l) := script_of sc g1 key in g_with g2 (g_m g2) l) = (false, g_idle g) /\
  (f1103 (let '(g2, l) := script_of sc g1 key in g_with g2 (g_m g2) l) -> f1103 g).
Proof.
  intros g e key g1. destruct (script_of_idle g1 key) as [A B].
  destruct (script_of sc g1 key) as [g2 l]. cbn [fst] in A, B. split.
  - unfold idle2 in *. cbn [g_idle_now g_idle g_with]. exact A.
  - unfold f1103. cbn [g_fails g_with]. rewrite B. unfold g1. cbn [g_fails g_set_idle track g_with].
    apply (proj1 (proj2 (boundary_idle g))).
Qed.

Lemma idle_boundary_spec : forall g,
  let n := if g_idle_now g then g_idle g + 1 else 0 in
  idle2 (idle_boundary g) = (false, n) /\ (f1103 (idle_boundary g) -> f1103 g \/ 2 <= n).
Proof.
  intros g n. unfold idle_boundary. fold n. split; [reflexivity|].
  destruct (Z.leb_spec 2 n) as [L|L]; unfold f1103; cbn [g_fails g_set_idle].
  - intros _. right. exact L.
  - intros H. left. exact H.
Qed.

Lemma gstep_idle : forall g e, g_done g = false -> idle_spec g (gstep sc g e) e.
Proof.
  intros g e D. unfold gstep. rewrite D. destruct e; cbn [idle_spec]; try (split; [reflexivity|tauto]).
  - apply call_idle.
  - apply call_idle.
  - apply call_idle.
  - apply call_idle.
  - apply call_idle.
  - (* TWait *)
    match goal with |- context [idle_boundary ?G] => set (gx := G) end.
    assert (E : idle2 gx = idle2 g /\ (f1103 gx -> f1103 g)).
    { unfold gx. unfold idle2, f1103. cbn [g_idle_now g_idle g_fails g_set_wait g_with track].
      set (g0 := if existsb _ interest then g_fail g 1104 else g).
      assert (E0 : idle2 g0 = idle2 g /\ (f1103 g0 -> f1103 g)).
      { unfold g0. destruct (existsb _ interest); [|tauto]. split; [reflexivity|].
        intros H. apply f1103_fail in H. destruct H as [H|H]; [discriminate H|exact H]. }
      destruct E0 as [E0a E0b]. destruct (g_wloaded g0).
      - destruct (boundary_idle g0) as (A & B & _). unfold idle2, f1103 in *. split; [congruence|tauto].
      - destruct (boundary_idle g0) as (A & B & _).
        destruct (boundary_idle (g_with (boundary g0) (g_m g0) (sc_wait sc (g_nwait g0 + 1)))) as (A2 & B2 & _).
        unfold idle2, f1103 in *. cbn [g_idle_now g_idle g_fails g_with] in *. split; [congruence|tauto]. }
    destruct E as [E1 E2]. clearbody gx. destruct (idle_boundary_spec gx) as [S1 S2]. unfold idle2 in E1. injection E1 as E1a E1b.
    rewrite E1a, E1b in S1, S2. split; [exact S1|]. intros H. destruct (S2 H) as [X|X]; [left; apply E2; exact X|right; exact X].
  - (* TRet *) destruct n as [n|]; cbn [idle_spec]; split; try reflexivity; try tauto.
  - (* TAct *)
    set (g1 := match consume g (g_todo g) a with Some _ => g | None => _ end).
    assert (E1 : idle2 g1 = idle2 g /\ (f1103 g1 -> f1103 g)).
    { unfold g1. destruct (consume g (g_todo g) a); [tauto|]. destruct (a_main (g_m g) && negb (g_wloaded g)); [|tauto].
      destruct (boundary_idle g) as (A & B & _). unfold idle2, f1103 in *. cbn [g_idle_now g_idle g_fails g_set_wait g_with]. tauto. }
    set (g2 := match consume g1 (g_todo g1) a with Some rest => _ | None => _ end).
    assert (E2 : idle2 g2 = idle2 g1 /\ (f1103 g2 -> f1103 g1)).
    { unfold g2. destruct (consume g1 (g_todo g1) a); [split; [reflexivity|tauto]|]. split; [reflexivity|].
      intros H. apply f1103_fail in H. destruct H as [H|H]; [discriminate H|exact H]. }
    set (g3 := match a with AKClose i => _ | AKOpen i => _ | _ => g2 end).
    assert (E3 : idle2 g3 = idle2 g2 /\ (f1103 g3 -> f1103 g2)) by (unfold g3; destruct a; split; try reflexivity; tauto).
    unfold idle2, f1103 in *. cbn [g_idle_now g_idle g_fails track g_with].
    destruct E1 as [A1 B1], E2 as [A2 B2], E3 as [A3 B3]. split; [congruence|tauto].
  - (* TMain *) destruct (boundary_idle g) as (A & B & _). split; [exact A|exact B].
  - (* TEnd *)
    match goal with |- context [idle_boundary ?G] => set (gx := G) end.
    destruct (boundary_idle g) as (A & B & _). destruct (idle_boundary_spec gx) as [S1 S2].
    assert (E1 : g_idle_now gx = g_idle_now g /\ g_idle gx = g_idle g) by (unfold gx, idle2 in *; cbn [g_idle_now g_idle g_with track]; split; congruence).
    assert (FX : f1103 gx -> f1103 (boundary g)) by (unfold gx, f1103; cbn [g_fails g_with track]; tauto).
    destruct E1 as [E1a E1b]. clearbody gx. rewrite E1a, E1b in S1, S2. split; [exact S1|].
    intros H. destruct (S2 H) as [X|X]; [left; apply B; apply FX; exact X|right; exact X].
  - destruct (boundary_idle g) as (A & B & _). split; [exact A|exact B].
Qed.

Lemma gstep_done_id : forall g e, g_done g = true -> gstep sc g e = g.
Proof. intros g e D. unfold gstep. rewrite D. reflexivity. Qed.

(* ---------- the invariant ---------- *)
Definition GI (g : gmon) : Prop :=
  ~ f1103 g /\ (g_idle g = 0 \/ g_idle g = 1) /\ (g_idle_now g = true -> g_idle g = 0).

Definition okg (g : gmon) (e : tev) : Prop :=
  match e with
  | TRet (Some n) _ clk => g_done g = false -> g_idle g = 1 -> (n =? 0) && (clk =? a_clk (g_m g)) = false
  | _ => True
  end.

Lemma GI_step : forall g e, GI g -> okg g e -> GI (gstep sc g e).
Proof.
  intros g e (NF & R & IM) O. destruct (g_done g) eqn:D; [rewrite gstep_done_id by exact D; repeat split; assumption|].
  pose proof (gstep_idle g e D) as S. unfold GI.
  destruct e; cbn [idle_spec okg] in *;
    try (destruct S as [S1 S2]; unfold idle2 in S1; injection S1 as S1a S1b; rewrite S1a, S1b; repeat split; first [tauto|intros; discriminate]).
  - (* TWait *) cbv zeta in S. destruct S as [S1 S2]. unfold idle2 in S1. injection S1 as S1a S1b. rewrite S1a, S1b.
    cbv zeta in S2.
    assert (NN : (if g_idle_now g then g_idle g + 1 else 0) < 2) by (destruct (g_idle_now g) eqn:IN; [rewrite (IM eq_refl); lia|lia]).
    split; [intros H; destruct (S2 H) as [X|X]; [exact (NF X)|lia]|].
    split; [destruct (g_idle_now g) eqn:IN; [right; rewrite (IM eq_refl); reflexivity|left; reflexivity]|discriminate].
  - (* TRet *) destruct n as [n|]; destruct S as [S1 S2]; unfold idle2 in S1; injection S1 as S1a S1b; rewrite S1a, S1b.
    + split; [tauto|]. split; [exact R|]. intros X. destruct R as [Z0|O1]; [exact Z0|]. rewrite (O D O1) in X. discriminate X.
    + repeat split; tauto.
  - (* TEnd *) cbv zeta in S. destruct S as [S1 S2]. unfold idle2 in S1. injection S1 as S1a S1b. rewrite S1a, S1b.
    cbv zeta in S2.
    assert (NN : (if g_idle_now g then g_idle g + 1 else 0) < 2) by (destruct (g_idle_now g) eqn:IN; [rewrite (IM eq_refl); lia|lia]).
    split; [intros H; destruct (S2 H) as [X|X]; [exact (NF X)|lia]|].
    split; [destruct (g_idle_now g) eqn:IN; [right; rewrite (IM eq_refl); reflexivity|left; reflexivity]|discriminate].
Qed.

(* g_idle_now can only be set by a wait return *)
Lemma idle_now_keeps : forall g e, match e with TRet (Some _) _ _ => False | _ => True end ->
  g_idle_now (gstep sc g e) = true -> g_idle_now g = true /\ (g_done g = false -> ~ is_call e).
Proof.
  intros g e Q H. destruct (g_done g) eqn:D; [rewrite gstep_done_id in H by exact D; split; [exact H|discriminate]|].
  pose proof (gstep_idle g e D) as S.
  destruct e; cbn [idle_spec is_call] in *; try contradiction; cbv zeta in S.
  all: try (destruct S as [S1 _]; unfold idle2 in S1; injection S1 as S1a S1b; rewrite S1a in H;
            first [discriminate H | split; [exact H|tauto]]).
  match goal with o : option Z |- _ => destruct o end; [contradiction|].
  destruct S as [S1 _]; unfold idle2 in S1; injection S1 as S1a S1b; rewrite S1a in H. split; [exact H|tauto].
Qed.

(* the boundary turns "idle so far" into the count 1 *)
Lemma idle_after_wait : forall g n c mx t i gd, g_done g = false ->
  g_idle (gstep sc g (TWait n c mx t i gd)) = 1 -> GI g -> g_idle_now g = true.
Proof.
  intros g n c mx t i gd D H (_ & R & IM). pose proof (gstep_idle g (TWait n c mx t i gd) D) as S. cbn [idle_spec] in S.
  destruct S as [S1 _]. unfold idle2 in S1. injection S1 as S1a S1b. rewrite S1b in H.
  destruct (g_idle_now g); [reflexivity|discriminate H].
Qed.

End Idle.
