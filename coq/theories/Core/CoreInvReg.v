(* CoreInvReg.v -- notify_fd, iv_fd_register, iv_fd_register_try, iv_fd_unregister,
   iv_fd_set_handler_*, iv_fd_make_ready preserve FdInv. *)
From Coq Require Import List ZArith Bool Lia.
From Ivv Require Import Core.Kernel Core.CoreTypes Core.CoreFd Core.CoreModel
  Core.CoreInvBase Core.CoreInvDefs Core.CoreInvFd Core.CoreInvPoll.
Import ListNotations.
Local Open Scope Z_scope.

Lemma live_weaken : forall s x k, live s (-1) k -> live s x k.
Proof. unfold live. intros s x k (A&[B|B]); [tauto|lia]. Qed.
Lemma live_reg : forall x s k, FdInv x s -> registered (fdt s k) = true -> forall y, live s y k.
Proof. intros x s k I R y. split; [apply (fv_range _ _ I); assumption|left; assumption]. Qed.
Lemma live_none : forall s k, live s (-1) k <-> 0 <= k <= 32 /\ registered (fdt s k) = true.
Proof. unfold live. intros. split; [intros (A&[B|B]); [tauto|lia]|tauto]. Qed.

(* the first step of iv_fd_unregister: the object stays linked, as the exception key *)
Lemma FdInv_unreg_start : forall s k, FdInv (-1) s -> registered (fdt s k) = true ->
  FdInv k (putfd s k (fd_with_registered (fdt s k) false)).
Proof.
  intros s k I R. pose proof (fv_range _ _ I k R) as RG.
  eapply FdInv_transfer; [exact I| | | | |(repeat split)..].
  - intros k0. unfold live. sp. unfold upd. destruct (Z.eqb_spec k0 k) as [->|N].
    + cbn [fd_with_registered registered]. rewrite R. intuition lia.
    + intuition lia.
  - intros k0. sp. unfold upd. destruct (Z.eqb_spec k0 k) as [->|N]; [discriminate|apply (fv_range _ _ I)].
  - intros k0 H. sp. unfold upd. destruct (Z.eqb_spec k0 k) as [->|N]; apply (fv_user _ _ I); assumption.
  - intros k0 _. sp. unfold upd. destruct (Z.eqb_spec k0 k) as [->|N]; repeat split.
Qed.

(* the last step: nothing refers to the object any more *)
Lemma FdInv_closeout : forall s k, FdInv k s -> registered (fdt s k) = false ->
  ~ In k (active s) -> ~ In k (notify s) -> ~ In k (pkeys s) -> handled s <> Some k ->
  (forall e, In e (ep (kern s)) -> en_data e <> k) -> FdInv (-1) s.
Proof.
  intros s k I R NA NN NP NH NE.
  assert (W : forall k0, live s (-1) k0 -> live s k k0) by (intros; apply live_weaken; assumption).
  assert (S : forall k0, live s k k0 -> k0 <> k -> live s (-1) k0).
  { unfold live. intros k0 (A&[B|B]) N; [tauto|contradiction]. }
  constructor; try fd_auto I.
  - intros k0 A B. apply (fv_dyn _ _ I); auto.
  - intros k0 A. apply (fv_open _ _ I); auto.
  - intros k1 k2 A B. apply (fv_inj _ _ I); auto.
  - intros k0 A. apply S; [apply (fv_active _ _ I); assumption|congruence].
  - intros k0 A. apply S; [apply (fv_handled _ _ I); assumption|congruence].
  - intros k0 A. apply S; [apply (fv_notify _ _ I); assumption|congruence].
  - intros e H. destruct (fv_ent _ _ I e H) as [(A&B)|[A|A]]; [left|right; left; exact A|right; right; exact A].
    split; [|exact B]. apply S; [assumption|]. apply NE. assumption.
  - intros E k0 A. apply (fv_has _ _ I); auto.
  - intros E k0 A. apply (fv_none _ _ I); auto.
  - intros n k0 A. destruct (fv_pkey _ _ I n k0 A) as (B&C). split; [|exact C].
    apply S; [assumption|]. intro; subst. apply NP. eapply nth_error_In; eassumption.
  - intros E k0 A. apply (fv_pidx _ _ I); auto.
Qed.

(* an unlinked object becomes registered (iv_fd_register_prologue) *)
Lemma FdInv_revive : forall s k f', FdInv (-1) s -> registered (fdt s k) = false -> 0 <= k <= 32 ->
  registered f' = true -> regb f' = 0 -> fdnum f' = fdnum (fdt s k) ->
  (is_epoll s = false -> pidx f' = -1) ->
  k_open (kern s) (fdnum f') <> None -> (16 <= k -> 1000 <= fdnum f') ->
  (forall k', registered (fdt s k') = true -> fdnum (fdt s k') <> fdnum f') ->
  ep_find (ep (kern s)) (fdnum f') = false ->
  FdInv (-1) (putfd s k f').
Proof.
  intros s k f' I R RG R' B' N' P' O' D' J' F'.
  assert (NL : ~ live s (-1) k) by (rewrite live_none; intros [_ Q]; congruence).
  assert (UP : forall k0, k0 <> k -> fdt (putfd s k f') k0 = fdt s k0) by (intros; sp; apply upd_other; assumption).
  assert (UK : fdt (putfd s k f') k = f') by (sp; apply upd_same).
  assert (LO : forall k0, live s (-1) k0 -> k0 <> k /\ live (putfd s k f') (-1) k0).
  { intros k0 H. assert (k0 <> k) by (intro; subst; contradiction). split; [assumption|].
    apply live_none in H. apply live_none. rewrite UP by assumption. assumption. }
  assert (LN : forall k0, live (putfd s k f') (-1) k0 -> k0 = k \/ (k0 <> k /\ live s (-1) k0)).
  { intros k0 H. destruct (Z.eq_dec k0 k) as [->|N]; [left; reflexivity|right]. split; [assumption|].
    apply live_none in H. apply live_none. rewrite UP in H by assumption. assumption. }
  constructor; try fd_auto I.
  - intros k0 H. destruct (Z.eq_dec k0 k) as [->|N]; [assumption|]. rewrite UP in H by assumption. apply (fv_range _ _ I); assumption.
  - intros k0 H. destruct (Z.eq_dec k0 k) as [->|N]; [rewrite UK, N'|rewrite UP by assumption]; apply (fv_user _ _ I); assumption.
  - intros k0 A H. destruct (LN k0 H) as [->|[N L0]]; [rewrite UK; auto|rewrite UP by assumption; apply (fv_dyn _ _ I); assumption].
  - intros k0 H. change (kern (putfd s k f')) with (kern s).
    destruct (LN k0 H) as [->|[N L0]]; [rewrite UK; assumption|rewrite UP by assumption; apply (fv_open _ _ I); assumption].
  - intros k1 k2 H1 H2. destruct (LN k1 H1) as [->|[N1 L1]]; destruct (LN k2 H2) as [->|[N2 L2]];
      rewrite ?UK, ?UP by assumption; intros Q.
    + reflexivity.
    + exfalso. apply live_none in L2. apply (J' k2); [tauto|congruence].
    + exfalso. apply live_none in L1. apply (J' k1); [tauto|congruence].
    + apply (fv_inj _ _ I); assumption.
  - intros k0 H. apply LO. apply (fv_active _ _ I). exact H.
  - intros k0 H. apply LO. apply (fv_handled _ _ I). exact H.
  - intros k0 H. apply LO. apply (fv_notify _ _ I). exact H.
  - intros e H. change (kern (putfd s k f')) with (kern s) in H. unfold entry_ok.
    destruct (fv_ent _ _ I e H) as [(A&B)|[A|A]]; [left|right; left; exact A|right; right; exact A].
    destruct (LO _ A) as [N L0]. rewrite UP by assumption. tauto.
  - intros E k0 H Q. change (kern (putfd s k f')) with (kern s).
    destruct (LN k0 H) as [->|[N L0]]; [rewrite UK in Q; contradiction|].
    rewrite UP in * by assumption. apply (fv_has _ _ I); assumption.
  - intros E k0 H Q. change (kern (putfd s k f')) with (kern s).
    destruct (LN k0 H) as [->|[N L0]]; [rewrite UK; assumption|].
    rewrite UP in * by assumption. apply (fv_none _ _ I); assumption.
  - intros n k0 H. change (pkeys (putfd s k f')) with (pkeys s) in H. change (pfds (putfd s k f')) with (pfds s).
    destruct (fv_pkey _ _ I n k0 H) as (A&B). destruct (LO _ A) as [N L0]. rewrite UP by assumption. tauto.
  - intros E k0 H. change (pkeys (putfd s k f')) with (pkeys s).
    destruct (LN k0 H) as [->|[N L0]]; [left; rewrite UK; apply P'; exact E|].
    rewrite UP by assumption. apply (fv_pidx _ _ I); assumption.
Qed.

(* ---------- notify_fd ---------- *)
Record keepN (s s' : core) : Prop := {
  kn_active : active s' = active s; kn_handled : handled s' = handled s;
  kn_numfds : numfds s' = numfds s; kn_numobjs : numobjs s' = numobjs s;
}.
Lemma keepN_refl : forall s, keepN s s. Proof. intros; constructor; reflexivity. Qed.
Lemma keepN_trans : forall a b c, keepN a b -> keepN b c -> keepN a c.
Proof. intros a b c [] []. constructor; congruence. Qed.

Definition sync_core (s : core) (k : Z) : Prop :=
  (is_epoll s = true -> (In k (notify s) <-> regb (fdt s k) <> wanted (fdt s k))) /\
  (is_epoll s = false ->
     (pidx (fdt s k) <> -1 <-> wanted (fdt s k) <> 0) /\
     (forall p, nth_error (pfds s) (Z.to_nat (pidx (fdt s k))) = Some p -> pidx (fdt s k) <> -1 ->
                snd p = poll_mask (wanted (fdt s k)))).

Lemma sync_at_intro : forall s k, (registered (fdt s k) = true -> wanted (fdt s k) = bands_of (fdt s k)) ->
  sync_core s k -> sync_at s k.
Proof. unfold sync_at, sync_core. intros s k A [B C] R. auto. Qed.

Definition NPost (x k : Z) (s s' : core) : Prop :=
  FdInv x s' /\ FdStep k s s' /\ keepN s s' /\ kern s' = kern s /\
  registered (fdt s' k) = registered (fdt s k) /\ wanted (fdt s' k) = wanted (fdt s k) /\
  regb (fdt s' k) = regb (fdt s k) /\ sync_core s' k.

Lemma m_notify_ok : forall x s k, FdInv x s -> live s x k -> okr (NPost x k s) (m_notify_fd s k).
Proof.
  intros x s k I L. unfold m_notify_fd. destruct (is_epoll s) eqn:E.
  - cbn [okr]. destruct (epoll_notify_ok x s k I E L) as (A & B & C & D & K & F). cbv zeta in *.
    set (s' := epoll_notify_fd s k) in *.
    assert (E' : is_epoll s' = true) by (rewrite (restsame_epoll _ _ (fs_rest _ _ _ B)); assumption).
    unfold NPost. split; [assumption|]. split; [assumption|].
    split; [destruct C; constructor; assumption|]. split; [assumption|]. unfold sync_core. rewrite D.
    repeat split; try congruence; try tauto.
  - pose proof (poll_notify_ok x s k I E L) as H. eapply okr_weaken; [exact H|].
    intros s' (A & B & C & D & F & G). 
    assert (E' : is_epoll s' = false) by (rewrite (restsame_epoll _ _ (fs_rest _ _ _ B)); assumption).
    destruct (D k) as (i & Q).
    assert (W : wanted (fdt s' k) = wanted (fdt s k)) by (rewrite Q; reflexivity).
    unfold NPost. split; [assumption|]. split; [assumption|].
    split; [destruct C; constructor; assumption|]. split; [apply (kp_kern _ _ C)|].
    split; [rewrite Q; reflexivity|]. split; [assumption|]. split; [rewrite Q; reflexivity|].
    split; [congruence|]. intros _. rewrite W. split; assumption.
Qed.

Lemma FdStep_putfd : forall s k f', hsame f' (fdt s k) -> FdStep k s (putfd s k f').
Proof.
  intros s k f' H. constructor; sp; try tauto.
  - apply kctl_refl.
  - intros k0. unfold upd. destruct (Z.eqb_spec k0 k) as [->|N]; [assumption|apply hsame_refl].
  - intros k0 N. rewrite upd_other by assumption. reflexivity.
  - intros k0 N. apply sync_at_same; sp; try reflexivity. apply upd_other. assumption.
  - constructor; reflexivity.
Qed.

Definition NotifyPost (x k : Z) (s s' : core) : Prop :=
  FdInv x s' /\ FdStep k s s' /\ keepN s s' /\ kern s' = kern s /\
  registered (fdt s' k) = registered (fdt s k) /\
  wanted (fdt s' k) = (if registered (fdt s k) then bands_of (fdt s k) else 0) /\
  regb (fdt s' k) = regb (fdt s k) /\ sync_core s' k.

Lemma notify_fd_ok : forall x s k, FdInv x s -> live s x k -> okr (NotifyPost x k s) (notify_fd s k).
Proof.
  intros x s k I L. unfold notify_fd, getfd.
  set (s0 := putfd s k (recompute_wanted (fdt s k))).
  assert (I0 : FdInv x s0) by (apply FdInv_putfd_soft; [assumption|reflexivity..]).
  assert (S0 : FdStep k s s0) by (apply FdStep_putfd; repeat split).
  assert (L0 : live s0 x k).
  { unfold live in *. subst s0. sp. rewrite upd_same. exact L. }
  assert (F0 : fdt s0 k = recompute_wanted (fdt s k)) by (subst s0; sp; apply upd_same).
  eapply okr_weaken; [apply (m_notify_ok x s0 k I0 L0)|].
  intros s' (A & B & C & K & D & F & G & H). unfold NotifyPost.
  split; [assumption|]. split; [eapply FdStep_trans; eassumption|].
  split; [eapply keepN_trans; [|exact C]; constructor; reflexivity|].
  split; [rewrite K; reflexivity|].
  rewrite D, F, G, F0. split; [reflexivity|]. split; [reflexivity|]. split; [reflexivity|exact H].
Qed.

(* ---------- iv_fd_unregister ---------- *)
Lemma FdStep_frame : forall k s s', fdt s' = fdt s -> notify s' = notify s -> pfds s' = pfds s ->
  kern s' = kern s -> restsame s s' -> FdStep k s s'.
Proof.
  intros k s s' F N P K R. constructor; try assumption.
  - rewrite K. apply kctl_refl.
  - rewrite K. tauto.
  - intros. rewrite F. apply hsame_refl.
  - intros. rewrite F. reflexivity.
  - intros k0 _. apply sync_at_same; try congruence.
    + apply restsame_epoll. assumption.
    + rewrite N. tauto.
Qed.

Definition UnregMid (k : Z) (s s' : core) : Prop :=
  FdInv k s' /\ FdStep k s s' /\ keepN s s' /\ registered (fdt s' k) = false /\ wanted (fdt s' k) = 0 /\
  ~ In k (notify s') /\ ~ In k (pkeys s') /\ (forall e, In e (ep (kern s')) -> en_data e <> k) /\
  ep_find (ep (kern s')) (fdnum (fdt s' k)) = false.

Lemma no_entry_regb0 : forall x s k, FdInv x s -> regb (fdt s k) = 0 -> 0 <= k ->
  forall e, In e (ep (kern s)) -> en_data e <> k.
Proof.
  intros x s k I R K e H Q. destruct (fv_ent _ _ I e H) as [(A&B&C&D)|[(A&_)|(A&_)]]; [|lia|lia].
  rewrite Q in C. contradiction.
Qed.

Lemma epoll_flush_one_ok : forall x s k, FdInv x s -> is_epoll s = true -> live s x k ->
  exists s', epoll_flush_one s k = R s' /\ FdInv x s' /\ FdStep k s s' /\ keepE s s' /\
    regb (fdt s' k) = wanted (fdt s k) /\ wanted (fdt s' k) = wanted (fdt s k) /\
    registered (fdt s' k) = registered (fdt s k) /\ notify s' = remove_z k (notify s).
Proof.
  intros x s k I E L. destruct (flush_one_ok x s k I E L) as (s' & F & R).
  exists s'. unfold epoll_flush_one. rewrite F. split; [reflexivity|exact R].
Qed.

Lemma unreg_mid : forall s k, FdInv k s -> 0 <= k <= 32 -> registered (fdt s k) = false ->
  wanted (fdt s k) = 0 -> sync_core s k ->
  okr (UnregMid k s) (if is_epoll s then epoll_unregister_fd s k else R s).
Proof.
  intros s k I RG R W [SE SP].
  assert (L : live s k k) by (split; [assumption|right; reflexivity]).
  destruct (is_epoll s) eqn:E.
  - destruct (fv_epoll_excl _ _ I E) as [_ PK].
    unfold epoll_unregister_fd. destruct (mem_z k (notify s)) eqn:M.
    + destruct (epoll_flush_one_ok k s k I E L) as (s' & F & I' & S' & K' & A & B & C & D).
      rewrite F. cbn [okr]. unfold UnregMid.
      assert (E' : is_epoll s' = true) by (rewrite (restsame_epoll _ _ (fs_rest _ _ _ S')); assumption).
      assert (L' : live s' k k) by (split; [assumption|right; reflexivity]).
      assert (R0 : regb (fdt s' k) = 0) by congruence.
      split; [assumption|]. split; [assumption|]. split; [destruct K'; constructor; assumption|].
      split; [congruence|]. split; [congruence|].
      split; [rewrite D; intros H; apply In_remz in H; tauto|].
      split; [rewrite (ke_pkeys _ _ K'), PK; intros []|].
      split; [apply (no_entry_regb0 k s' k I' R0); lia|].
      apply (fv_none _ _ I' E' k L' R0).
    + cbn [okr]. apply memz_nIn in M.
      assert (R0 : regb (fdt s k) = 0).
      { destruct (Z.eq_dec (regb (fdt s k)) (wanted (fdt s k))) as [Q|Q]; [congruence|].
        exfalso. apply M. apply (SE eq_refl). assumption. }
      unfold UnregMid. split; [assumption|]. split; [apply FdStep_refl|]. split; [apply keepN_refl|].
      split; [assumption|]. split; [assumption|]. split; [assumption|].
      split; [rewrite PK; intros []|]. split; [apply (no_entry_regb0 k s k I R0); lia|].
      apply (fv_none _ _ I E k L R0).
  - cbn [okr]. destruct (fv_poll_excl _ _ I E) as [NN EP]. destruct (SP eq_refl) as [P1 _].
    assert (P : pidx (fdt s k) = -1).
    { destruct (Z.eq_dec (pidx (fdt s k)) (-1)); [assumption|]. exfalso. apply (proj1 P1); assumption. }
    unfold UnregMid. split; [assumption|]. split; [apply FdStep_refl|]. split; [apply keepN_refl|].
    split; [assumption|]. split; [assumption|]. split; [rewrite NN; intros []|].
    split; [eapply pidx_none_notin; eassumption|]. rewrite EP. split; [intros e []|reflexivity].
Qed.

Definition UnregPost (k : Z) (s s' : core) : Prop :=
  FdInv (-1) s' /\ FdStep k s s' /\ registered (fdt s' k) = false /\ wanted (fdt s' k) = 0 /\
  ~ In k (active s') /\ ~ In k (notify s') /\ ~ In k (pkeys s') /\ handled s' <> Some k /\
  ep_find (ep (kern s')) (fdnum (fdt s' k)) = false /\
  active s' = remove_z k (active s) /\ (handled s' = handled s \/ handled s' = None) /\
  numfds s' = numfds s - 1 /\ numobjs s' = numobjs s - 1.

Lemma fd_unregister_ok : forall s k, FdInv (-1) s -> registered (fdt s k) = true ->
  okr (UnregPost k s) (fd_unregister s k).
Proof.
  intros s k I R. pose proof (fv_range _ _ I k R) as RG.
  unfold fd_unregister, getfd.
  set (s1 := putfd s k (fd_with_registered (fdt s k) false)).
  assert (I1 : FdInv k s1) by (apply FdInv_unreg_start; assumption).
  assert (S1 : FdStep k s s1) by (apply FdStep_putfd; repeat split).
  set (s2 := set_active s1 (remove_z k (active s1))).
  assert (I2 : FdInv k s2).
  { apply FdInv_set_active; [assumption|]. intros k0 H. apply In_remz in H. apply (fv_active _ _ I1). tauto. }
  assert (S2 : FdStep k s1 s2) by (apply FdStep_frame; try reflexivity; constructor; reflexivity).
  assert (L2 : live s2 k k) by (split; [assumption|right; reflexivity]).
  assert (R2 : registered (fdt s2 k) = false) by (subst s2 s1; sp; rewrite upd_same; reflexivity).
  eapply okr_bind; [apply (notify_fd_ok k s2 k I2 L2)|].
  intros s3 (I3 & S3 & K3 & KK3 & A3 & B3 & C3 & D3). rewrite R2 in A3, B3.
  eapply okr_bind; [apply (unreg_mid s3 k I3 RG A3 B3 D3)|].
  intros s4 (I4 & S4 & K4 & A4 & B4 & NN4 & NP4 & NE4 & EF4). cbv zeta.
  set (s5 := set_numfds (set_numobjs s4 (numobjs s4 - 1)) (numfds s4 - 1)).
  assert (I5 : FdInv k s5) by (apply FdInv_numfds, FdInv_numobjs; assumption).
  assert (ACT : active s4 = remove_z k (active s)).
  { rewrite (kn_active _ _ K4), (kn_active _ _ K3). reflexivity. }
  assert (HND : handled s4 = handled s).
  { rewrite (kn_handled _ _ K4), (kn_handled _ _ K3). reflexivity. }
  assert (NA : ~ In k (active s4)) by (rewrite ACT; intros H; apply In_remz in H; tauto).
  assert (NUM : numfds s4 = numfds s /\ numobjs s4 = numobjs s).
  { rewrite (kn_numfds _ _ K4), (kn_numfds _ _ K3), (kn_numobjs _ _ K4), (kn_numobjs _ _ K3). split; reflexivity. }
  assert (S04 : FdStep k s s4) by (eapply FdStep_trans; [eapply FdStep_trans; [eapply FdStep_trans|]|]; eassumption).
  assert (S5 : FdStep k s4 s5) by (apply FdStep_frame; try reflexivity; constructor; reflexivity).
  set (s6 := match handled s5 with Some h => if h =? k then set_handled s5 None else s5 | None => s5 end).
  assert (H6 : handled s6 <> Some k /\ (handled s6 = handled s \/ handled s6 = None) /\
               FdInv k s6 /\ FdStep k s5 s6 /\
               fdt s6 = fdt s5 /\ active s6 = active s5 /\ notify s6 = notify s5 /\ pkeys s6 = pkeys s5 /\
               kern s6 = kern s5 /\ numfds s6 = numfds s5 /\ numobjs s6 = numobjs s5).
  { subst s6. change (handled s5) with (handled s4). rewrite HND. destruct (handled s) as [h|] eqn:Hh.
    - destruct (Z.eqb_spec h k) as [->|N].
      + sp. split; [discriminate|]. split; [right; reflexivity|].
        split; [apply FdInv_set_handled; [assumption|discriminate]|].
        split; [apply FdStep_frame; try reflexivity; constructor; reflexivity|]. repeat split.
      + change (handled s5) with (handled s4). rewrite HND. split; [congruence|]. split; [left; reflexivity|].
        split; [assumption|]. split; [apply FdStep_refl|]. repeat split.
    - change (handled s5) with (handled s4). rewrite HND. split; [discriminate|]. split; [left; reflexivity|].
      split; [assumption|]. split; [apply FdStep_refl|]. repeat split. }
  destruct H6 as (H6a & H6b & I6 & S6 & F6 & A6 & N6 & P6 & K6 & U6 & V6).
  fold s6. cbn [okr]. unfold UnregPost.
  assert (F65 : fdt s6 = fdt s4) by (rewrite F6; reflexivity).
  split.
  { apply (FdInv_closeout s6 k I6).
    - rewrite F65. assumption.
    - rewrite A6. exact NA.
    - rewrite N6. exact NN4.
    - rewrite P6. exact NP4.
    - assumption.
    - rewrite K6. exact NE4. }
  split; [eapply FdStep_trans; [eapply FdStep_trans|]; eassumption|].
  rewrite F65, A6, N6, P6, K6, U6, V6.
  change (numfds s5) with (numfds s4 - 1). change (numobjs s5) with (numobjs s4 - 1).
  change (active s5) with (active s4). change (notify s5) with (notify s4).
  change (pkeys s5) with (pkeys s4). change (kern s5) with (kern s4).
  destruct NUM as [-> ->].
  repeat split; try assumption.
Qed.

(* ---------- iv_fd_register ---------- *)
Record RegPre (s : core) (k : Z) : Prop := {
  rp_unreg : registered (fdt s k) = false;
  rp_range : 0 <= k <= 32;
  rp_open : k_open (kern s) (fdnum (fdt s k)) <> None;
  rp_dyn : 16 <= k -> 1000 <= fdnum (fdt s k);
  rp_inj : forall k', registered (fdt s k') = true -> fdnum (fdt s k') <> fdnum (fdt s k);
  rp_absent : ep_find (ep (kern s)) (fdnum (fdt s k)) = false;
}.

Lemma RegPre_user : forall s k, FdInv (-1) s -> 0 <= k < 16 -> registered (fdt s k) = false ->
  k_open (kern s) (fdnum (fdt s k)) <> None -> RegPre s k.
Proof.
  intros s k I K R O. pose proof (fv_user _ _ I k K) as FN. constructor; try assumption; try lia.
  - intros k' R' Q. pose proof (live_reg _ _ _ I R' (-1)) as L'.
    destruct (Z_lt_ge_dec k' 16) as [Lt|Ge].
    + assert (0 <= k') by (destruct L'; lia). rewrite (fv_user _ _ I k') in Q by lia.
      assert (k' = k) by lia. subst. congruence.
    + pose proof (fv_dyn _ _ I k' ltac:(lia) L'). lia.
  - apply ep_find_false. intros e H Q.
    destruct (fv_ent _ _ I e H) as [(A&B&_)|[(_&_&_&_&A)|(_&_&_&A)]]; try lia.
    apply live_none in A. destruct A as [A1 A2].
    destruct (Z_lt_ge_dec (en_data e) 16) as [Lt|Ge].
    + rewrite (fv_user _ _ I (en_data e)) in B by lia. assert (en_data e = k) by lia. congruence.
    + pose proof (fv_dyn _ _ I (en_data e) ltac:(lia) ltac:(apply live_none; tauto)). lia.
Qed.

Lemma prologue_ok : forall s k, FdInv (-1) s -> RegPre s k ->
  let s' := register_prologue s k in
  FdInv (-1) s' /\ FdStep k s s' /\ registered (fdt s' k) = true /\ keepN s s' /\ kern s' = kern s.
Proof.
  intros s k I [R RG O D J F]. unfold register_prologue, getfd. cbv zeta.
  set (f1 := fd_with_bands (fd_with_registered (fdt s k) true) (wanted (fdt s k)) 0 0).
  set (f' := if is_epoll s then f1 else fd_with_pidx f1 (-1)).
  assert (Q : registered f' = true /\ regb f' = 0 /\ fdnum f' = fdnum (fdt s k) /\ hsame f' (fdt s k) /\
              (is_epoll s = false -> pidx f' = -1)).
  { subst f' f1. destruct (is_epoll s); repeat split; congruence. }
  destruct Q as (Q1 & Q2 & Q3 & Q4 & Q5).
  split; [apply FdInv_revive; try assumption; rewrite ?Q3; assumption|].
  split; [apply FdStep_putfd; assumption|]. sp. rewrite upd_same.
  split; [assumption|]. split; [constructor; reflexivity|reflexivity].
Qed.

Definition RegPost (k : Z) (s s' : core) : Prop :=
  FdInv (-1) s' /\ FdStep k s s' /\ registered (fdt s' k) = true /\ sync_at s' k /\
  active s' = active s /\ handled s' = handled s /\
  numfds s' = numfds s + 1 /\ numobjs s' = numobjs s + 1.

Lemma FdStep_bands : forall k s s', FdStep k s s' -> bands_of (fdt s' k) = bands_of (fdt s k).
Proof. intros k s s' H. destruct (fs_hsame _ _ _ H k) as (_&A&B&C&_). unfold bands_of. rewrite A, B, C. reflexivity. Qed.

Lemma fd_register_ok : forall s k, FdInv (-1) s -> RegPre s k -> okr (RegPost k s) (fd_register s k).
Proof.
  intros s k I P. unfold fd_register.
  destruct (prologue_ok s k I P) as (I1 & S1 & R1 & K1 & KK1). cbv zeta in *.
  set (s1 := register_prologue s k) in *.
  assert (L1 : live s1 (-1) k) by (apply live_none; split; [apply (rp_range _ _ P)|assumption]).
  eapply okr_bind; [apply (notify_fd_ok (-1) s1 k I1 L1)|].
  intros s2 (I2 & S2 & K2 & KK2 & A2 & B2 & C2 & D2). cbn [okr]. unfold register_epilogue, RegPost.
  rewrite R1 in A2, B2.
  split; [apply FdInv_numfds, FdInv_numobjs; assumption|].
  assert (S02 : FdStep k s s2) by (eapply FdStep_trans; eassumption).
  split; [eapply FdStep_trans; [exact S02|]; apply FdStep_frame; try reflexivity; constructor; reflexivity|].
  sp. split; [assumption|].
  split.
  { apply sync_at_same with (s := s2); try reflexivity. apply sync_at_intro; [|assumption].
    intros _. rewrite B2. symmetry. apply (FdStep_bands _ _ _ S2). }
  rewrite (kn_active _ _ K2), (kn_active _ _ K1), (kn_handled _ _ K2), (kn_handled _ _ K1),
          (kn_numfds _ _ K2), (kn_numfds _ _ K1), (kn_numobjs _ _ K2), (kn_numobjs _ _ K1).
  repeat split.
Qed.

(* ---------- states that differ only in the descriptor table ---------- *)
Record fdtonly (s s' : core) : Prop := {
  fo_rest : restsame s s'; fo_keep : keepN s s';
  fo_notify : notify s' = notify s; fo_pfds : pfds s' = pfds s; fo_pkeys : pkeys s' = pkeys s;
  fo_kern : kern s' = kern s;
}.
Lemma fdtonly_refl : forall s, fdtonly s s.
Proof. intros; constructor; try reflexivity; [apply restsame_refl|apply keepN_refl]. Qed.
Lemma fdtonly_trans : forall a b c, fdtonly a b -> fdtonly b c -> fdtonly a c.
Proof.
  intros a b c [A1 A2 A3 A4 A5 A6] [B1 B2 B3 B4 B5 B6]. constructor; try congruence.
  - eapply restsame_trans; eassumption.
  - eapply keepN_trans; eassumption.
Qed.
Lemma fdtonly_putfd : forall s k f, fdtonly s (putfd s k f).
Proof. intros; constructor; try reflexivity; constructor; reflexivity. Qed.

Lemma FdStep_ptw : forall k s s', fdtonly s s' -> (forall k0, k0 <> k -> fdt s' k0 = fdt s k0) ->
  hsame (fdt s' k) (fdt s k) -> FdStep k s s'.
Proof.
  intros k s s' [R K N P PK KE] U H. constructor; try assumption.
  - rewrite KE. apply kctl_refl.
  - rewrite KE. tauto.
  - intros k0. destruct (Z.eq_dec k0 k) as [->|Q]; [assumption|rewrite U by assumption; apply hsame_refl].
  - intros k0 Q. rewrite U by assumption. reflexivity.
  - intros k0 Q. apply sync_at_same; try congruence.
    + apply U. assumption.
    + apply restsame_epoll. assumption.
    + rewrite N. tauto.
Qed.

Lemma FdInv_revive_gen : forall s s' k, FdInv (-1) s -> fdtonly s s' ->
  (forall k0, k0 <> k -> fdt s' k0 = fdt s k0) ->
  registered (fdt s k) = false -> 0 <= k <= 32 ->
  registered (fdt s' k) = true -> regb (fdt s' k) = 0 -> fdnum (fdt s' k) = fdnum (fdt s k) ->
  (is_epoll s = false -> pidx (fdt s' k) = -1) ->
  k_open (kern s) (fdnum (fdt s k)) <> None -> (16 <= k -> 1000 <= fdnum (fdt s k)) ->
  (forall k', registered (fdt s k') = true -> fdnum (fdt s k') <> fdnum (fdt s k)) ->
  ep_find (ep (kern s)) (fdnum (fdt s k)) = false ->
  FdInv (-1) s'.
Proof.
  intros s s' k I FO UP R RG R' B' N' P' O' D' J' F'.
  set (s1 := putfd s k (fdt s' k)).
  assert (I1 : FdInv (-1) s1) by (apply FdInv_revive; try assumption; rewrite ?N'; assumption).
  destruct FO as [RS KN NO PF PK KE].
  eapply FdInv_eq; [exact I1| |try (destruct KN; assumption); try assumption; try apply RS..].
  intros k0. subst s1. sp. unfold upd. destruct (Z.eqb_spec k0 k) as [->|Q]; [tauto|].
  rewrite UP by assumption. tauto.
Qed.

(* ---------- iv_fd_register_try ---------- *)
Definition try_s2 (s : core) (k : Z) : core :=
  let s1 := register_prologue s k in putfd s1 k (recompute_wanted (getfd s1 k)).
Definition try_orig (s : core) (k : Z) : Z := wanted (getfd (try_s2 s k) k).
Definition try_s3 (s : core) (k : Z) : core :=
  let s2 := try_s2 s k in
  if try_orig s k =? 0 then putfd s2 k (fd_with_wanted (getfd s2 k) (M_IN + M_OUT)) else s2.

Definition try_fail (k : Z) (s : core) : res :=
  let s := putfd s k (fd_with_registered (getfd s k) false) in
  if is_epoll s then epoll_unregister_fd s k else R s.
Definition try_succ (k orig : Z) (s : core) : res :=
  bind (if orig =? 0 then m_notify_fd (putfd s k (fd_with_wanted (getfd s k) 0)) k else R s)
       (fun s => R (register_epilogue s)).

Lemma fd_register_try_unfold : forall s k,
  fd_register_try s k =
  let s3 := try_s3 s k in
  let '(r, failed) :=
    if is_epoll s3 then (let '(s1, fl) := epoll_flush_one_ s3 k in (R s1, fl))
    else poll_notify_fd_sync s3 k in
  if failed then (bind r (try_fail k), true) else (bind r (try_succ k (try_orig s k)), false).
Proof. reflexivity. Qed.

Lemma try_s3_facts : forall s k,
  let s3 := try_s3 s k in
  fdtonly s s3 /\ (forall k0, k0 <> k -> fdt s3 k0 = fdt s k0) /\
  registered (fdt s3 k) = true /\ regb (fdt s3 k) = 0 /\ hsame (fdt s3 k) (fdt s k) /\
  wanted (fdt s3 k) <> 0 /\ (is_epoll s = false -> pidx (fdt s3 k) = -1) /\
  try_orig s k = bands_of (fdt s k) /\
  (try_orig s k <> 0 -> wanted (fdt s3 k) = try_orig s k).
Proof.
  intros s k. cbv zeta.
  assert (O : try_orig s k = bands_of (fdt s k)).
  { unfold try_orig, try_s2, register_prologue, getfd. sp. rewrite !upd_same.
    destruct (is_epoll s); reflexivity. }
  unfold try_s3. rewrite O. unfold try_s2, register_prologue, getfd. sp. rewrite ?upd_same.
  assert (BN : 0 <= bands_of (fdt s k)).
  { unfold bands_of, M_IN, M_OUT, M_ERR. destruct (h_in (fdt s k)), (h_out (fdt s k)), (h_err (fdt s k)); lia. }
  destruct (Z.eqb_spec (bands_of (fdt s k)) 0) as [Z0|NZ]; sp; rewrite ?upd_same.
  - split; [constructor; try reflexivity; constructor; reflexivity|].
    split; [intros k0 N; rewrite !upd_other by assumption; reflexivity|].
    destruct (is_epoll s); cbn; repeat split; try discriminate; try congruence.
  - split; [constructor; try reflexivity; constructor; reflexivity|].
    split; [intros k0 N; rewrite !upd_other by assumption; reflexivity|].
    destruct (is_epoll s); cbn; repeat split; try discriminate; try congruence; exact NZ.
Qed.

Lemma poll_revents_open : forall k fd ev, k_open k fd <> None -> has (poll_revents k fd ev) P_NVAL = false.
Proof.
  intros k fd ev H. unfold poll_revents. destruct (k_open k fd); [|congruence].
  repeat match goal with |- context[if ?b then _ else _] => destruct b end; reflexivity.
Qed.
Lemma poll_revents_closed : forall k fd ev, k_open k fd = None -> has (poll_revents k fd ev) P_NVAL = true.
Proof. intros k fd ev H. unfold poll_revents. rewrite H. reflexivity. Qed.

Definition TryPost (k : Z) (s : core) (failed : bool) (s' : core) : Prop :=
  FdInv (-1) s' /\ FdStep k s s' /\ active s' = active s /\ handled s' = handled s /\
  (if failed then registered (fdt s' k) = false /\ numfds s' = numfds s /\ numobjs s' = numobjs s
   else registered (fdt s' k) = true /\ sync_at s' k /\ numfds s' = numfds s + 1 /\ numobjs s' = numobjs s + 1).

(* the descriptor is closed: the registration fails and everything is rolled back *)
Lemma try_closed : forall s k, FdInv (-1) s -> 0 <= k < 16 -> registered (fdt s k) = false ->
  k_open (kern s) (fdnum (fdt s k)) = None ->
  snd (fd_register_try s k) = true /\ okr (TryPost k s true) (fst (fd_register_try s k)).
Proof.
  intros s k I K R C. rewrite fd_register_try_unfold. cbv zeta.
  destruct (try_s3_facts s k) as (FO & UP & R3 & B3 & H3 & W3 & P3 & O3 & OW3). cbv zeta in *.
  set (s3 := try_s3 s k) in *.
  assert (E3 : is_epoll s3 = is_epoll s) by (apply restsame_epoll; apply (fo_rest _ _ FO)).
  assert (NL : ~ live s (-1) k) by (rewrite live_none; intros [_ Q]; congruence).
  assert (NN : ~ In k (notify s)) by (intros Q; apply NL; apply (fv_notify _ _ I); assumption).
  assert (FN3 : fdnum (fdt s3 k) = fdnum (fdt s k)) by apply H3.
  (* a generic closing argument: a state that differs from s in the object k (unregistered),
     and in the kernel outside the interest list *)
  assert (FIN : forall sf, (forall k0, k0 <> k -> fdt sf k0 = fdt s k0) -> hsame (fdt sf k) (fdt s k) ->
            registered (fdt sf k) = false -> restsame s sf -> keepN s sf -> notify sf = notify s ->
            pfds sf = pfds s -> pkeys sf = pkeys s -> kctl (kern s) (kern sf) -> ep (kern sf) = ep (kern s) ->
            TryPost k s true sf).
  { intros sf U H Rf RS KN NO PF PK KC EP. unfold TryPost.
    split.
    - eapply FdInv_transfer; [exact I| | | | |try (destruct KN; assumption); try assumption; try apply RS..].
      + intros k0. unfold live. destruct (Z.eq_dec k0 k) as [->|Q]; [rewrite Rf, R; tauto|rewrite U by assumption; tauto].
      + intros k0 Q. destruct (Z.eq_dec k0 k) as [->|Q']; [congruence|]. rewrite U in Q by assumption. apply (fv_range _ _ I); assumption.
      + intros k0 Q. destruct (Z.eq_dec k0 k) as [->|Q']; [destruct H as (->&_)|rewrite U by assumption]; apply (fv_user _ _ I); assumption.
      + intros k0 Q. assert (k0 <> k) by (intro; subst; contradiction). rewrite U by assumption. tauto.
      + split; [assumption|]. split; intros fd; [apply kctl_open|apply kctl_get]; assumption.
    - split.
      + constructor; try assumption.
        * rewrite EP. tauto.
        * intros k0. destruct (Z.eq_dec k0 k) as [->|Q]; [assumption|rewrite U by assumption; apply hsame_refl].
        * intros k0 Q. rewrite U by assumption. reflexivity.
        * intros k0 Q. apply sync_at_same; try congruence; [apply U; assumption|apply restsame_epoll; assumption|rewrite NO; tauto].
      + destruct KN. repeat split; assumption. }
  destruct (is_epoll s3) eqn:E.
  - (* epoll: EBADF *)
    assert (NE : regb (fdt s3 k) <> wanted (fdt s3 k)) by congruence.
    destruct (flush_one_ne s3 k NE) as (k' & KC & EP & FL). cbv zeta in *.
    assert (KS : kern s3 = kern s) by apply (fo_kern _ _ FO).
    assert (CP : forall op ev d, ctl_pure (kern s3) op (fdnum (fdt s3 k)) ev d = (ep (kern s3), Some EBADF)).
    { intros. unfold ctl_pure. rewrite KS, FN3, C. reflexivity. }
    rewrite CP in FL, EP. cbn [fst snd] in FL, EP. rewrite FL. cbn [fst snd bind].
    split; [reflexivity|]. unfold try_fail, getfd.
    set (s4 := set_kern (set_notify s3 (remove_z k (notify s3))) k').
    set (s5 := putfd s4 k (fd_with_registered (fdt s4 k) false)).
    assert (E5 : is_epoll s5 = true) by exact E. rewrite E5.
    assert (N5 : notify s5 = notify s).
    { subst s5 s4. sp. rewrite (fo_notify _ _ FO). apply remz_notin. assumption. }
    unfold epoll_unregister_fd.
    assert (M : mem_z k (notify s5) = false) by (apply memz_nIn; rewrite N5; assumption).
    rewrite M. cbn [okr]. apply FIN; subst s5 s4; sp; rewrite ?upd_same; try reflexivity; try assumption.
    all: try (apply (fo_pfds _ _ FO)). all: try (apply (fo_pkeys _ _ FO)).
    all: try (destruct (fo_rest _ _ FO); constructor; assumption).
    all: try (destruct (fo_keep _ _ FO); constructor; assumption).
    all: try (rewrite <- KS; assumption). all: try (rewrite EP, KS; reflexivity).
    all: try (intros k0 Q; rewrite upd_other by assumption; apply UP; assumption).
  - (* poll: POLLNVAL *)
    unfold poll_notify_fd_sync, getfd.
    rewrite (fo_kern _ _ FO), FN3, (poll_revents_closed _ _ _ C). cbn [fst snd bind].
    split; [reflexivity|]. unfold try_fail, getfd.
    set (s5 := putfd s3 k (fd_with_registered (fdt s3 k) false)).
    assert (E5 : is_epoll s5 = false) by exact E. rewrite E5. cbn [okr].
    apply FIN; subst s5; sp; rewrite ?upd_same; try reflexivity; try assumption.
    all: try (apply (fo_pfds _ _ FO)). all: try (apply (fo_pkeys _ _ FO)). all: try (apply (fo_notify _ _ FO)).
    all: try (apply (fo_rest _ _ FO)). all: try (apply (fo_keep _ _ FO)).
    all: try (rewrite (fo_kern _ _ FO); apply kctl_refl). all: try (rewrite (fo_kern _ _ FO); reflexivity).
    all: try (intros k0 Q; rewrite upd_other by assumption; apply UP; assumption).
    all: try (destruct (fo_rest _ _ FO); constructor; assumption).
    all: try (destruct (fo_keep _ _ FO); constructor; assumption).
Qed.

Definition BackPost (k : Z) (s s' : core) : Prop :=
  FdInv (-1) s' /\ FdStep k s s' /\ keepN s s' /\ registered (fdt s' k) = true /\
  wanted (fdt s' k) = wanted (fdt s k) /\ sync_core s' k.

Lemma try_succ_ok : forall s0 s k orig, BackPost k s0 s -> 0 <= k <= 32 ->
  orig = bands_of (fdt s0 k) -> (orig <> 0 -> wanted (fdt s0 k) = orig) ->
  okr (fun s' => FdInv (-1) s' /\ FdStep k s0 s' /\ active s' = active s0 /\ handled s' = handled s0 /\
                 registered (fdt s' k) = true /\ sync_at s' k /\
                 numfds s' = numfds s0 + 1 /\ numobjs s' = numobjs s0 + 1)
      (try_succ k orig s).
Proof.
  intros s0 s k orig (I & S & K & RT & W & SC) RG O OW. unfold try_succ, getfd.
  assert (EPI : forall s1, FdInv (-1) s1 -> FdStep k s0 s1 -> keepN s0 s1 -> registered (fdt s1 k) = true ->
                 wanted (fdt s1 k) = orig -> sync_core s1 k ->
                 okr (fun s' => FdInv (-1) s' /\ FdStep k s0 s' /\ active s' = active s0 /\ handled s' = handled s0 /\
                                registered (fdt s' k) = true /\ sync_at s' k /\
                                numfds s' = numfds s0 + 1 /\ numobjs s' = numobjs s0 + 1)
                     (R (register_epilogue s1))).
  { intros s1 I1 S1 K1 R1 W1 SC1. cbn [okr]. unfold register_epilogue.
    split; [apply FdInv_numfds, FdInv_numobjs; assumption|].
    split; [eapply FdStep_trans; [exact S1|]; apply FdStep_frame; try reflexivity; constructor; reflexivity|].
    sp. destruct K1 as [A B C D]. rewrite A, B, C, D.
    split; [reflexivity|]. split; [reflexivity|]. split; [assumption|].
    split; [|split; reflexivity].
    apply sync_at_same with (s := s1); try reflexivity. apply sync_at_intro; [|assumption].
    intros _. rewrite W1, O. symmetry. apply (FdStep_bands _ _ _ S1). }
  destruct (Z.eqb_spec orig 0) as [Z0|NZ].
  - set (s1 := putfd s k (fd_with_wanted (fdt s k) 0)).
    assert (I1 : FdInv (-1) s1) by (apply FdInv_putfd_soft; [assumption|reflexivity..]).
    assert (S1 : FdStep k s s1) by (apply FdStep_putfd; repeat split).
    assert (L1 : live s1 (-1) k).
    { apply live_none. split; [assumption|]. subst s1. sp. rewrite upd_same. exact RT. }
    eapply okr_bind; [apply (m_notify_ok (-1) s1 k I1 L1)|].
    intros s2 (I2 & S2 & K2 & _ & R2 & W2 & _ & SC2).
    apply EPI; try assumption.
    + eapply FdStep_trans; [exact S|]. eapply FdStep_trans; eassumption.
    + eapply keepN_trans; [exact K|]. eapply keepN_trans; [|exact K2]. constructor; reflexivity.
    + rewrite R2. subst s1. sp. rewrite upd_same. exact RT.
    + rewrite W2. subst s1. sp. rewrite upd_same. cbn. congruence.
  - cbn [bind]. apply EPI; try assumption. rewrite W. apply OW. assumption.
Qed.

Lemma try_open : forall s k, FdInv (-1) s -> 0 <= k < 16 -> registered (fdt s k) = false ->
  k_open (kern s) (fdnum (fdt s k)) <> None ->
  snd (fd_register_try s k) = false /\ okr (TryPost k s false) (fst (fd_register_try s k)).
Proof.
  intros s k I K RU O. rewrite fd_register_try_unfold. cbv zeta.
  destruct (try_s3_facts s k) as (FO & UP & R3 & B3 & H3 & W3 & P3 & O3 & OW3). cbv zeta in *.
  set (s3 := try_s3 s k) in *.
  pose proof (RegPre_user s k I K RU O) as [_ RG _ D J F].
  assert (E3 : is_epoll s3 = is_epoll s) by (apply restsame_epoll; apply (fo_rest _ _ FO)).
  assert (FN3 : fdnum (fdt s3 k) = fdnum (fdt s k)) by apply H3.
  assert (I3 : FdInv (-1) s3) by (eapply FdInv_revive_gen with (s := s) (k := k); eassumption).
  assert (S3 : FdStep k s s3) by (apply FdStep_ptw; assumption).
  assert (L3 : live s3 (-1) k) by (apply live_none; tauto).
  assert (CONT : forall s4, BackPost k s3 s4 ->
            okr (TryPost k s false) (bind (R s4) (try_succ k (try_orig s k)))).
  { intros s4 BP. cbn [bind].
    eapply okr_weaken; [apply (try_succ_ok s3 s4 k (try_orig s k) BP RG)|].
    - rewrite O3. symmetry. destruct H3 as (_&A&B&C&_). unfold bands_of. rewrite A, B, C. reflexivity.
    - intros NZ. apply OW3. assumption.
    - intros s' (A & B & C & D' & E' & F' & G & H). unfold TryPost.
      split; [assumption|]. split; [eapply FdStep_trans; eassumption|].
      rewrite C, D', G, H, (kn_active _ _ (fo_keep _ _ FO)), (kn_handled _ _ (fo_keep _ _ FO)),
              (kn_numfds _ _ (fo_keep _ _ FO)), (kn_numobjs _ _ (fo_keep _ _ FO)).
      split; [reflexivity|]. split; [reflexivity|]. split; [assumption|]. split; [assumption|]. split; reflexivity. }
  destruct (is_epoll s3) eqn:E.
  - destruct (flush_one_ok (-1) s3 k I3 E L3) as (s4 & FL & I4 & S4 & K4 & A4 & B4 & C4 & D4).
    rewrite FL. cbn [fst snd]. split; [reflexivity|]. apply CONT. unfold BackPost.
    split; [assumption|]. split; [assumption|]. split; [destruct K4; constructor; assumption|].
    split; [congruence|]. split; [assumption|].
    assert (E4 : is_epoll s4 = true) by (rewrite (restsame_epoll _ _ (fs_rest _ _ _ S4)); assumption).
    split; [intros _|congruence]. rewrite D4, A4, B4. split; [intros H; apply In_remz in H; tauto|tauto].
  - unfold poll_notify_fd_sync, getfd. rewrite (fo_kern _ _ FO), FN3, (poll_revents_open _ _ _ O).
    cbn [fst snd]. split; [reflexivity|].
    pose proof (poll_notify_ok (-1) s3 k I3 E L3) as PN.
    destruct (poll_notify_fd s3 k) as [s4|s4]; [|exact PN]. cbn [okr] in PN.
    destruct PN as (I4 & S4 & K4 & FD4 & P4 & EV4).
    apply CONT. unfold BackPost. destruct (FD4 k) as (i & Q).
    assert (W4 : wanted (fdt s4 k) = wanted (fdt s3 k)) by (rewrite Q; reflexivity).
    split; [assumption|]. split; [assumption|]. split; [destruct K4; constructor; assumption|].
    split; [rewrite Q; exact R3|]. split; [assumption|].
    assert (E4 : is_epoll s4 = false) by (rewrite (restsame_epoll _ _ (fs_rest _ _ _ S4)); assumption).
    split; [congruence|]. intros _. rewrite W4. split; assumption.
Qed.

Lemma fd_register_try_ok : forall s k, FdInv (-1) s -> 0 <= k < 16 -> registered (fdt s k) = false ->
  okr (TryPost k s (snd (fd_register_try s k))) (fst (fd_register_try s k)).
Proof.
  intros s k I K R. destruct (k_open (kern s) (fdnum (fdt s k))) eqn:O.
  - destruct (try_open s k I K R) as [A B]; [congruence|]. rewrite A. exact B.
  - destruct (try_closed s k I K R O) as [A B]. rewrite A. exact B.
Qed.
