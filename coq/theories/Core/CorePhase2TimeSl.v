(* CorePhase2TimeSl.v -- how long a kernel wait can sleep: a wait with a finite
   timeout, or with an armed timer descriptor in the interest set, returns by
   the deadline and never hangs (virtual-kernel level). *)
From Coq Require Import List ZArith Bool Lia.
From Ivv Require Import Core.Kernel Core.CoreTypes Core.CoreFd Core.CoreModel Core.CoreRelBase.
Import ListNotations.
Local Open Scope Z_scope.

(* entry e is an armed timer descriptor with deadline d that the wait looks at *)
Definition qual (k : kernel) (e : epent) (d : Z) : Prop :=
  exists v, k_get k (en_fd e) = Some v /\ vkind v = K_TIMERFD /\ vdeadline v = d /\ d <> 0 /\
            has (en_events e) B_IN = true /\ en_enabled e = true.
Definition KArmed (k : kernel) (D : Z) : Prop := exists e, In e (ep k) /\ qual k e D.
(* the wait is bounded by D *)
Definition KSB (k : kernel) (timeout D : Z) : Prop := (0 <= timeout /\ D = clock k + timeout) \/ KArmed k D.

Lemma qual_det : forall k e d d', qual k e d -> qual k e d' -> d = d'.
Proof. intros k e d d' (v & G & _ & D & _) (v' & G' & _ & D' & _). congruence. Qed.

Lemma ep_scan_nil : forall k l m, ep_scan k l (S m) = [] -> forall e, In e l -> ep_ready_bits k e = 0.
Proof.
  intros k l m. induction l as [|a l IH]; intros H e I; [destruct I|].
  cbn [ep_scan] in H. destruct (Z.eqb_spec (ep_ready_bits k a) 0) as [E|N]; [|discriminate H].
  destruct I as [<-|I]; [exact E|apply IH; assumption].
Qed.

Lemma qual_ready : forall k e d, qual k e d -> d <= clock k -> ep_ready_bits k e <> 0.
Proof.
  intros k e d (v & G & KD & D & NZ & EV & EN) L. unfold ep_ready_bits. rewrite EN. cbn [negb].
  assert (C : k_cond k (en_fd e) = B_IN).
  { unfold k_cond. rewrite G, KD. cbn [Z.eqb K_TIMERFD K_SCRIPTED K_EVENTFD K_PIPE_R K_PIPE_W Pos.eqb].
    rewrite D. destruct (Z.eqb_spec d 0) as [Z0|_]; [contradiction|]. destruct (Z.leb_spec d (clock k)); [|lia].
    rewrite orb_true_r. reflexivity. }
  rewrite C, EV. cbn. discriminate.
Qed.

Lemma In_rotate_inv : forall (A : Type) n (l : list A) x, In x l -> In x (rotate n l).
Proof.
  intros A n l x H. unfold rotate. rewrite <- (firstn_skipn n l) in H. apply in_app_or in H. apply in_or_app. tauto.
Qed.

(* the earliest armed timer: a fold that only lowers a non-negative wake-up time *)
Lemma ep_wake_spec : forall k l w, (forall e d, In e l -> qual k e d -> 0 < d) ->
  let r := ep_wake k l w in
  (0 <= w -> 0 <= r <= w) /\ (forall e d, In e l -> qual k e d -> 0 <= r <= d).
Proof.
  intros k l. unfold ep_wake. induction l as [|a l IH]; intros w P; cbn [fold_left].
  - split; [lia|intros e d []].
  - set (w1 := match k_get k (en_fd a) with
               | Some v => if (vkind v =? K_TIMERFD) && negb (vdeadline v =? 0) && has (en_events a) B_IN
                              && en_enabled a && ((w <? 0) || (vdeadline v <? w)) then vdeadline v else w
               | None => w end).
    assert (PL : forall e d, In e l -> qual k e d -> 0 < d) by (intros e d I Q; apply (P e d); [right; exact I|exact Q]).
    destruct (IH w1 PL) as [A B]. cbv zeta in A, B.
    assert (W1 : (0 <= w -> 0 <= w1 <= w) /\ (forall d, qual k a d -> 0 <= w1 <= d) /\ (w1 = w \/ 0 < w1)).
    { unfold w1. destruct (k_get k (en_fd a)) as [v|] eqn:G.
      - destruct ((vkind v =? K_TIMERFD) && negb (vdeadline v =? 0) && has (en_events a) B_IN && en_enabled a) eqn:QB.
        + apply andb_true_iff in QB. destruct QB as [QB Q4]. apply andb_true_iff in QB. destruct QB as [QB Q3].
          apply andb_true_iff in QB. destruct QB as [Q1 Q2]. apply Z.eqb_eq in Q1. apply negb_true_iff in Q2. apply Z.eqb_neq in Q2.
          assert (QA : qual k a (vdeadline v)) by (exists v; repeat split; assumption).
          pose proof (P a _ (or_introl eq_refl) QA) as DP.
          cbn [andb]. destruct (Z.ltb_spec w 0) as [WN|WP]; cbn [orb].
          * split; [lia|]. split; [|right; exact DP]. intros d Q. rewrite (qual_det _ _ _ _ Q QA). lia.
          * destruct (Z.ltb_spec (vdeadline v) w) as [L|L].
            -- split; [lia|]. split; [|right; exact DP]. intros d Q. rewrite (qual_det _ _ _ _ Q QA). lia.
            -- split; [lia|]. split; [|left; reflexivity]. intros d Q. rewrite (qual_det _ _ _ _ Q QA). lia.
        + cbn [andb]. split; [lia|]. split; [|left; reflexivity].
          intros d (v' & G' & K1 & K2 & K3 & K4 & K5). rewrite G in G'. inversion G'; subst v'.
          rewrite K1, K4, K5 in QB. cbn in QB. destruct (Z.eqb_spec (vdeadline v) 0); [lia|discriminate QB].
      - split; [lia|]. split; [|left; reflexivity]. intros d (v' & G' & _). congruence. }
    destruct W1 as (W1a & W1b & W1c).
    split.
    + intros W. destruct (W1a W) as [X Y]. destruct (A X). lia.
    + intros e d [<-|I] Q.
      * destruct (W1b d Q) as [X Y]. destruct (A X). lia.
      * apply (B e d I Q).
Qed.

Lemma epoll_sleep_bound : forall k maxev timeout rot D, 1 <= maxev -> 0 <= clock k -> KSB k timeout D ->
  match k_epoll_sleep k maxev timeout rot with
  | WReady k1 _ => clock k <= clock k1 <= Z.max (clock k) D
  | WHang => False
  | _ => True
  end.
Proof.
  intros k maxev timeout rot D MX CP SB. unfold k_epoll_sleep.
  set (sorted := sort_ents (ep k)).
  set (order := rotate _ sorted).
  destruct (Z.to_nat maxev) as [|m] eqn:MN; [lia|].
  destruct (ep_scan k order (S m)) as [|ev0 evs0] eqn:SCAN; [|cbn [clock k_set_ep]; lia].
  destruct (Z.eqb_spec timeout 0) as [T0|TN]; [lia|].
  assert (FUT : forall e d, In e sorted -> qual k e d -> 0 < d).
  { intros e d I Q. destruct (Z_lt_le_dec (clock k) d) as [L|L]; [lia|].
    exfalso. apply (qual_ready k e d Q L). apply (ep_scan_nil k order m SCAN). apply In_rotate_inv. exact I. }
  set (wake0 := if timeout <? 0 then -1 else clock k + timeout).
  destruct (ep_wake_spec k sorted wake0 FUT) as [A B]. cbv zeta in A, B.
  set (wake := ep_wake k sorted wake0) in *.
  assert (WK : 0 <= wake <= D).
  { destruct SB as [[TP ->]|(e & I & Q)].
    - unfold wake0 in A. destruct (Z.ltb_spec timeout 0); [lia|]. apply A. lia.
    - apply (B e D); [apply In_sort_ents; exact I|exact Q]. }
  destruct (Z.ltb_spec wake 0); [lia|].
  destruct (Z.ltb_spec (clock k) wake); cbn [clock k_set_ep k_set_clock]; lia.
Qed.

Lemma poll_sleep_bound : forall k pf timeout, 0 <= timeout ->
  match k_poll_sleep k pf timeout with
  | PReady k1 _ => clock k <= clock k1 <= clock k + timeout
  | PHang => False
  end.
Proof.
  intros k pf timeout TP. unfold k_poll_sleep.
  destruct ((0 <? count_nonzero (poll_eval k pf)) || (timeout =? 0)); [lia|].
  destruct (Z.ltb_spec timeout 0); [lia|]. cbn [clock k_set_clock]. lia.
Qed.

(* an unbounded wait without any armed timer hangs or returns at once *)
Lemma poll_sleep_clock : forall k pf timeout, timeout <= 0 ->
  match k_poll_sleep k pf timeout with PReady k1 _ => clock k1 = clock k | PHang => True end.
Proof.
  intros k pf timeout TP. unfold k_poll_sleep.
  destruct ((0 <? count_nonzero (poll_eval k pf)) || (timeout =? 0)) eqn:E; [reflexivity|].
  destruct (Z.ltb_spec timeout 0); [exact I|]. apply orb_false_iff in E. destruct E as [_ E]. apply Z.eqb_neq in E. lia.
Qed.

(* a ready entry makes the wait return at once *)
Lemma ep_scan_some : forall k l m e, In e l -> ep_ready_bits k e <> 0 -> ep_scan k l (S m) <> [].
Proof. intros k l m e I R H. apply R. apply (ep_scan_nil k l m H e I). Qed.

Lemma epoll_sleep_ready : forall k maxev timeout rot, 1 <= maxev ->
  (exists e, In e (ep k) /\ ep_ready_bits k e <> 0) ->
  match k_epoll_sleep k maxev timeout rot with
  | WReady k1 _ => clock k1 = clock k
  | WHang => False
  | _ => True
  end.
Proof.
  intros k maxev timeout rot MX (e & I & R). unfold k_epoll_sleep.
  set (sorted := sort_ents (ep k)). set (order := rotate _ sorted).
  destruct (Z.to_nat maxev) as [|m] eqn:MN; [lia|].
  destruct (ep_scan k order (S m)) as [|ev0 evs0] eqn:SCAN; [|reflexivity].
  exfalso. apply (ep_scan_some k order m e); [apply In_rotate_inv; apply In_sort_ents; exact I|exact R|exact SCAN].
Qed.

Lemma poll_sleep_ready : forall k pf timeout,
  (exists p, In p pf /\ poll_revents k (fst p) (snd p) <> 0) ->
  match k_poll_sleep k pf timeout with PReady k1 _ => clock k1 = clock k | PHang => False end.
Proof.
  intros k pf timeout (p & I & R). unfold k_poll_sleep.
  assert (C : 0 <? count_nonzero (poll_eval k pf) = true).
  { apply Z.ltb_lt. unfold count_nonzero, poll_eval.
    assert (IN : In (poll_revents k (fst p) (snd p)) (filter (fun x => negb (x =? 0)) (map (fun p => poll_revents k (fst p) (snd p)) pf))).
    { apply filter_In. split; [apply in_map_iff; exists p; auto|]. apply negb_true_iff. apply Z.eqb_neq. exact R. }
    destruct (filter _ _); [destruct IN|cbn [length]; lia]. }
  rewrite C. reflexivity.
Qed.
