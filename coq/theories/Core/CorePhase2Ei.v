(* CorePhase2Ei.v -- code 1501 (no descriptor callback in a loop iteration whose kernel wait returned
   EINTR) and property C15's monitor verdict (codes 1500..1599: 1501 here, 1502 from CoreRel).

   Argument: the flag after_eintr of the tracker is set only by a TRet None event and cleared by the next
   TWait / TRet (Some _) / TEnd.  On the EINTR branch the poll functions return before the returned batch is
   processed, so the dispatch list is still the (empty) one iv_fd_poll_and_run was entered with and
   dispatch_active does nothing; timers, tasks and the prefix of the next wait never log a descriptor callback.

   Build order: CorePhase2EiMon, CorePhase2EiStep, CorePhase2Ei (after CorePhase2Fd*, CorePhase2AcctTr,
   CorePhase2AcctTr2, CoreInv, CoreRel). *)
From Coq Require Import List ZArith Bool Lia.
From Ivv Require Import Core.Kernel Core.CoreTypes Core.CoreFd Core.CoreModel Core.Monitors Core.CoreSpec
  Core.CoreInvLoop Core.CoreInvWait Core.CoreInv.
From Ivv Require Import Core.CoreRel Core.CorePhase2FdMon Core.CorePhase2FdStep Core.CorePhase2FdTop Core.CorePhase2Fd
  Core.CorePhase2AcctTr Core.CorePhase2AcctTr2 Core.CorePhase2EiMon Core.CorePhase2EiStep.
Import ListNotations.
Local Open Scope Z_scope.

Section Ei.
Variable sc : scenario.
Hypothesis WF : wf_scenario sc.
Let Hh := wf_handlers sc WF.

Definition G15 (s : core) : Prop := Good15 (mst s).

Lemma G15_nc : forall s s', TrExt nc s s' -> G15 s -> G15 s'.
Proof. intros s s' T G. exact (TrExt_good15 s s' T G). Qed.

Lemma dispatch_15 : forall s1, G15 s1 -> (after_eintr (mst s1) = false \/ active s1 = []) ->
  G15 (res_state (dispatch_active sc (S (length (active s1))) s1)).
Proof.
  intros s1 G [A|A].
  - pose proof (dispatch_active_exth sc (S (length (active s1))) s1) as D. unfold RExt in D.
    apply (TrExt_weaken ch nr _ _ ch_nr) in D. exact (proj2 (TrExt_Z15 _ _ D (conj A G))).
  - cbn [dispatch_active]. rewrite A. exact G.
Qed.

Lemma poll_and_run_15 : forall s abs, active s = [] -> G15 s -> G15 (res_state (fst (poll_and_run sc s abs))).
Proof.
  intros s abs A G. unfold poll_and_run.
  match goal with |- G15 (res_state (fst (let '(r, rt) := ?X in (bind r _, rt)))) =>
    assert (PX : PSh s (fst X)); [|destruct X as [r rt]; cbn [fst] in *] end.
  - destruct (method s =? M_ET); [|apply m_poll_sh; exact WF].
    pose proof (timeout_check_st0 s abs) as T.
    assert (PRE : forall s1 r, res_state (fst (timeout_check s abs)) = s1 -> PSh s1 r -> PSh s r).
    { intros s1 r E P. subst s1. apply (PSh_pre s (res_state (fst (timeout_check s abs))) r); [apply (TrExt_weaken sil nc _ _ sil_nc); exact (s0_tr _ _ T)|apply (s0_act _ _ T)|exact P]. }
    destruct (timeout_check s abs) as [[s1|s1] b]; cbn [fst res_state] in *.
    + destruct b; [|apply (PRE s1 _ eq_refl); apply m_poll_sh; exact WF].
      pose proof (m_poll_sh sc WF s1 None) as P. destruct (m_poll sc s1 None) as [r rt]. cbn [fst] in *.
      apply (PRE s1 _ eq_refl). destruct r as [s2|s2]; cbn [bind PSh] in *; [|exact P].
      destruct rt; [|exact P]. destruct P as [P1 P2]. split; [eapply TrExt_trans; [exact P1|apply TrExt_same; reflexivity]|].
      destruct P2 as [P2|P2]; [left; exact P2|right; exact P2].
    + cbn [PSh]. apply (TrExt_weaken sil nc _ _ sil_nc). exact (s0_tr _ _ T).
  - destruct r as [s1|s1]; cbn [bind PSh res_state] in *.
    + destruct PX as [P1 P2]. apply dispatch_15; [exact (G15_nc _ _ P1 G)|].
      destruct P2 as [P2|P2]; [left; exact P2|right; congruence].
    + exact (G15_nc _ _ PX G).
Qed.

Lemma main_loop_15 : forall fuel s rt, LoopInv s -> G15 s -> G15 (res_state (main_loop sc fuel s rt)).
Proof.
  induction fuel as [|fuel IH]; intros s rt L G; cbn [main_loop].
  - cbn [halt res_state]. apply (G15_nc s); [apply TrExt_emit; exact I|exact G].
  - pose proof L as (I0 & Q0 & T0 & A0).
    assert (P1 : match (if rt then run_timers sc s else R s) with
                 | R s1 => LoopInv s1 /\ G15 s1 | Halt s1 => G15 s1 end).
    { destruct rt; [|auto].
      pose proof (run_timers_ok sc Hh do_action_ok s I0 Q0) as R1. pose proof (run_timers_cn sc s) as R2. unfold RExt in R2.
      apply (TrExt_weaken cn nc _ _ cn_nc) in R2.
      destruct (run_timers sc s) as [s1|s1]; cbn [okr res_state] in *; [|exact (G15_nc _ _ R2 G)].
      destruct (LoopInv_Ph sc WF do_action_ok s s1 L R1) as [L1 _]. split; [exact L1|exact (G15_nc _ _ R2 G)]. }
    destruct (if rt then run_timers sc s else R s) as [s1|s1]; cbn [bind res_state]; [|exact P1].
    destruct P1 as (L1 & G1). pose proof L1 as (I1 & Q1 & T1 & A1).
    pose proof (run_tasks_ok sc Hh do_action_ok s1 I1 Q1) as R1. pose proof (run_tasks_cn sc s1) as R2. unfold RExt in R2.
    apply (TrExt_weaken cn nc _ _ cn_nc) in R2.
    destruct (run_tasks sc s1) as [s2|s2]; cbn [okr bind res_state] in *; [|exact (G15_nc _ _ R2 G1)].
    destruct (LoopInv_Ph sc WF do_action_ok s1 s2 L1 R1) as [L2 _]. pose proof (G15_nc _ _ R2 G1) as G2.
    destruct (quit s2 || (numobjs s2 =? 0)); [exact G2|].
    set (abs := match tasks s2 with _ :: _ => Some 0 | [] => soonest_timeout s2 end).
    pose proof (poll_and_run_15 s2 abs (proj2 (proj2 (proj2 L2))) G2) as P3.
    pose proof (poll_and_run_ok sc WF do_action_ok s2 abs L2) as P4.
    destruct (poll_and_run sc s2 abs) as [r rt']. cbn [fst] in P3, P4.
    destruct r as [s3|s3]; cbn [bind res_state okr] in *; [|exact P3].
    destruct P4 as (L3 & _). apply IH; assumption.
Qed.

Theorem core_good15 : Good15 (mon_run (run_scenario sc)).
Proof.
  rewrite (run_scenario_final sc). change (G15 (final_state sc)). unfold final_state.
  assert (G0 : G15 (core0 sc)).
  { unfold G15, mst, core0. destruct ((sc_backend sc =? M_ET) || (sc_backend sc =? M_EP));
      [destruct (k_epoll_create _) as [efd k]|]; intros c []. }
  pose proof (core0_LoopInv sc WF) as C0.
  pose proof (run_acts_ext (sc_setup sc) (core0 sc)) as E0. unfold RExt in E0.
  apply (TrExt_weaken ca nc _ _ (fun e H => cn_nc e (ca_cn e H))) in E0.
  pose proof (run_acts_ok do_action_ok (sc_setup sc) (core0 sc) (proj1 C0) (wf_setup sc WF)) as Q0.
  destruct (run_acts (core0 sc) (sc_setup sc)) as [s1|s1]; cbn [bind okr res_state] in *; [|exact (G15_nc _ _ E0 G0)].
  pose proof (G15_nc _ _ E0 G0) as G1. pose proof (LoopInv_StepT2 _ _ C0 Q0) as L1.
  set (s2 := set_quit (emit s1 TMain) false).
  assert (G2 : G15 s2) by (apply (G15_nc s1); [eapply TrExt_cons; [reflexivity|exact I]|exact G1]).
  pose proof (main_loop_15 (Z.to_nat (sc_limit sc) + 2) s2 true (LoopInv_main_enter s1 L1) G2) as G3.
  destruct (main_loop sc (Z.to_nat (sc_limit sc) + 2) s2 true) as [s3|s3]; cbn [bind res_state] in *; [|exact G3].
  set (s4 := emit s3 _).
  assert (G4 : G15 s4) by (apply (G15_nc s3); [apply TrExt_emit; exact I|exact G3]).
  pose proof (teardown_ext (zseq 0 16) s4) as E5. unfold RExt in E5.
  apply (TrExt_weaken ca nc _ _ (fun e H => cn_nc e (ca_cn e H))) in E5.
  destruct (teardown s4 (zseq 0 16)) as [s5|s5]; cbn [bind res_state] in *; [|exact (G15_nc _ _ E5 G4)].
  pose proof (G15_nc _ _ E5 G4) as G5.
  apply (G15_nc (deinit sc (emit s5 (TTear (numobjs s5))))); [apply TrExt_emit; exact I|].
  apply (G15_nc (emit s5 (TTear (numobjs s5)))); [|apply (G15_nc s5); [apply TrExt_emit; exact I|exact G5]].
  apply (TrExt_weaken ca nc _ _ (fun e H => cn_nc e (ca_cn e H))). apply deinit_ext.
Qed.

End Ei.

(* ---------- exported ---------- *)
Theorem core_code_1501 : forall sc, wf_scenario sc -> ~ In 1501 (mon_fails (run_scenario sc)).
Proof. intros sc WF H. pose proof (core_good15 sc WF 1501 H) as K. vm_compute in K. discriminate K. Qed.

Theorem core_mon_C15 : forall sc, wf_scenario sc -> mon_C15 (run_scenario sc) = true.
Proof.
  intros sc WF. unfold mon_C15, none_in. apply negb_true_iff.
  destruct (existsb (in_range 1500 1600) (mon_fails (run_scenario sc))) eqn:E; [|reflexivity].
  apply existsb_exists in E. destruct E as (c & H & R).
  pose proof (core_good15 sc WF c H) as K. unfold okc15, in_range in *.
  destruct (core_mon_handlers sc WF c H) as (_ & _ & _ & _ & _ & _ & _ & _ & N).
  apply andb_true_iff in R. destruct R as [R1 R2]. apply Z.leb_le in R1. apply Z.ltb_lt in R2.
  apply andb_true_iff in K. destruct K as [K1 K2]. apply negb_true_iff in K1, K2. apply andb_false_iff in K1, K2.
  destruct K1 as [K1|K1]; [apply Z.leb_gt in K1|apply Z.ltb_ge in K1];
    (destruct K2 as [K2|K2]; [apply Z.leb_gt in K2|apply Z.ltb_ge in K2]); lia.
Qed.

Print Assumptions core_code_1501.
Print Assumptions core_mon_C15.
