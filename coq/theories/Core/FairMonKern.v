(* FairMonKern.v -- the epoll-timerfd back end asks for numfds + 1 events: every ready entry of the interest list is
   reported (the kick entry is never ready, the other entries belong to distinct registered descriptors or to the
   timer descriptor), in particular the timer descriptor when it is due. *)
From Coq Require Import List ZArith Bool Lia.
From Ivv Require Import Core.Kernel Core.CoreTypes Core.CoreFd Core.CoreModel Core.CoreSpec
  Core.CoreInvBase Core.CoreInvDefs Core.CoreRelBase.
Import ListNotations.
Local Open Scope Z_scope.

Definition rdy (k : kernel) (e : epent) : bool := negb (ep_ready_bits k e =? 0).
Definition nready (k : kernel) (l : list epent) : nat := length (filter (rdy k) l).

Lemma scan_all : forall k l m e, (nready k l <= m)%nat -> In e l -> ep_ready_bits k e <> 0 ->
  In (en_fd e, ep_ready_bits k e, en_data e) (ep_scan k l m).
Proof.
  intros k l. induction l as [|a l IH]; intros m e N I0 RB; [destruct I0|].
  unfold nready in N. cbn [filter] in N. unfold rdy at 1 in N.
  destruct (Z.eqb_spec (ep_ready_bits k a) 0) as [Z0|NZ]; cbn [negb] in N.
  - destruct I0 as [->|I0]; [contradiction|].
    destruct m as [|m]; cbn [ep_scan]; [|apply Z.eqb_eq in Z0; rewrite Z0; apply IH; assumption].
    exfalso. assert (H : In e (filter (rdy k) l)) by (apply filter_In; split; [exact I0|unfold rdy; apply negb_true_iff, Z.eqb_neq; exact RB]).
    destruct (filter (rdy k) l); [destruct H|cbn in N; lia].
  - cbn [length] in N. destruct m as [|m]; [lia|]. cbn [ep_scan]. apply Z.eqb_neq in NZ. rewrite NZ.
    destruct I0 as [->|I0]; [left; reflexivity|right]. apply IH; [unfold nready; lia|assumption|assumption].
Qed.

Lemma nready_app : forall k a b, nready k (a ++ b) = (nready k a + nready k b)%nat.
Proof. intros. unfold nready. rewrite filter_app, app_length. reflexivity. Qed.

Lemma nready_rotate : forall k n l, nready k (rotate n l) = nready k l.
Proof.
  intros k n l. unfold rotate. rewrite nready_app. rewrite <- (firstn_skipn n l) at 3. rewrite nready_app. lia.
Qed.

Lemma nready_ins : forall k e l, nready k (ins_ent e l) = nready k (e :: l).
Proof.
  intros k e l. induction l as [|x l IH]; [reflexivity|]. cbn [ins_ent]. destruct (en_fd e <? en_fd x); [reflexivity|].
  unfold nready in *. cbn [filter] in *. destruct (rdy k x); destruct (rdy k e); cbn [length] in *; lia.
Qed.

Lemma nready_sort : forall k l, nready k (sort_ents l) = nready k l.
Proof.
  intros k l. induction l as [|e l IH]; [reflexivity|]. unfold sort_ents in *. cbn [fold_right].
  rewrite nready_ins. unfold nready in *. cbn [filter]. destruct (rdy k e); cbn [length]; lia.
Qed.

Lemma NoDup_map_filter : forall (A C : Type) (f : A -> C) p l, NoDup (map f l) -> NoDup (map f (filter p l)).
Proof.
  intros A C f p l. induction l as [|a l IH]; intros H; [constructor|]. cbn [map filter] in *.
  inversion H as [|? ? NI ND]; subst. destruct (p a); [|apply IH; exact ND].
  cbn [map]. constructor; [|apply IH; exact ND]. intros X. apply NI. apply in_map_iff in X. destruct X as (y & E & Y).
  apply filter_In in Y. apply in_map_iff. exists y. split; [exact E|apply Y].
Qed.

Lemma NoDup_map_inj : forall (A C D : Type) (f : A -> C) (g : A -> D) l, NoDup (map f l) ->
  (forall x y, In x l -> In y l -> g x = g y -> f x = f y) -> NoDup (map g l).
Proof.
  intros A C D f g l. induction l as [|a l IH]; intros H K; [constructor|]. cbn [map] in *.
  inversion H as [|? ? NI ND]; subst. constructor.
  - intros X. apply NI. apply in_map_iff in X. destruct X as (y & E & Y). apply in_map_iff. exists y. split; [|exact Y].
    apply K; [right; exact Y|left; reflexivity|exact E].
  - apply IH; [exact ND|]. intros x y X Y. apply K; right; assumption.
Qed.

(* the kick descriptor (interest mask 0) is never ready *)
Lemma kick_not_ready : forall s kx e, InvW s -> vfds kx = vfds (kern s) -> In e (ep (kern s)) -> en_data e = -1 ->
  ep_ready_bits kx e = 0.
Proof.
  intros s kx e IW V I0 D. pose proof (fv_ent _ _ (iw_fd _ IW) e I0) as EO.
  destruct EO as [(LV & _)|[(_ & EF & AR & EV & _)|(D2 & _)]]; [destruct LV as [R _]; lia| |lia].
  destruct (dy_act _ (iw_dyn _ IW) AR) as (_ & (v & O & KD) & PW).
  apply k_open_get in O. destruct O as [G _].
  assert (G' : k_get kx (en_fd e) = Some v) by (unfold k_get in *; rewrite V, EF; exact G).
  unfold ep_ready_bits. destruct (en_enabled e); [|reflexivity]. cbn [negb]. rewrite EV.
  unfold k_cond. rewrite G'.
  destruct KD as [[KD _]|[KD NW]]; rewrite KD.
  - change (K_EVENTFD =? K_SCRIPTED) with false. change (K_EVENTFD =? K_EVENTFD) with true. cbv iota.
    destruct (0 <? vcnt v); reflexivity.
  - change (K_PIPE_R =? K_SCRIPTED) with false. change (K_PIPE_R =? K_EVENTFD) with false. change (K_PIPE_R =? K_PIPE_R) with true. cbv iota.
    destruct PW as [PW|PW]; [contradiction|]. destruct PW as (_ & _ & v1 & vw & O1 & _ & _ & PO & _).
    apply k_open_get in O1. destruct O1 as [G1 _]. rewrite G in G1. inversion G1; subst v1. rewrite PO.
    destruct (0 <? vcnt v); reflexivity.
Qed.

Lemma len_bound : forall (L : list epent) (P : Z -> bool) (R : list Z), NoDup (map en_data L) ->
  (forall e, In e L -> en_data e = -2 \/ (In (en_data e) R /\ P (en_data e) = true)) ->
  (length L <= S (length (filter P R)))%nat.
Proof.
  intros L P R ND H.
  assert (IN : incl (map en_data L) (-2 :: filter P R)).
  { intros d X. apply in_map_iff in X. destruct X as (e & <- & I0). destruct (H e I0) as [E|[A B]].
    - left. symmetry. exact E.
    - right. apply filter_In. split; assumption. }
  pose proof (NoDup_incl_length ND IN) as LE. rewrite map_length in LE. exact LE.
Qed.

Lemma nready_bound : forall s kx, InvW s -> vfds kx = vfds (kern s) ->
  (Z.of_nat (nready kx (ep (kern s))) <= numfds s + 1).
Proof.
  intros s kx IW V.
  pose proof (iw_fd _ IW) as FI.
  assert (EO : forall e, In e (filter (rdy kx) (ep (kern s))) ->
     (0 <= en_data e <= 32 /\ registered (fdt s (en_data e)) = true /\ en_fd e = fdnum (fdt s (en_data e))) \/
     (en_data e = -2 /\ en_fd e = tfd s)).
  { intros e H. apply filter_In in H. destruct H as [I0 RD].
    destruct (fv_ent _ _ FI e I0) as [(LV & EF & _)|[(D1 & _)|(D2 & EF & _)]].
    - left. destruct LV as [R [RG|X]]; [|lia]. auto.
    - exfalso. unfold rdy in RD. rewrite (kick_not_ready s kx e IW V I0 D1) in RD. discriminate RD.
    - right. auto. }
  assert (ND : NoDup (map en_data (filter (rdy kx) (ep (kern s))))).
  { apply (NoDup_map_inj _ _ _ en_fd en_data); [apply NoDup_map_filter; apply (fv_nodup _ _ FI)|].
    intros x y X Y E. destruct (EO x X) as [(RX & _ & FX)|(DX & FX)]; destruct (EO y Y) as [(RY & _ & FY)|(DY & FY)]; try lia.
    rewrite FX, FY, E. reflexivity. }
  pose proof (len_bound _ (fun k => registered (fdt s k)) (zseq 0 33) ND) as LB.
  assert (LB' : (length (filter (rdy kx) (ep (kern s))) <= S (length (filter (fun k => registered (fdt s k)) (zseq 0 33))))%nat).
  { apply LB. intros e I0. destruct (EO e I0) as [(R & RG & _)|(D2 & _)]; [right|left; exact D2].
    split; [apply In_zseq'; lia|exact RG]. }
  rewrite (ac_numfds _ (iw_acct _ IW)). unfold cntf, nready. lia.
Qed.

(* the sleeping kernel: the reported batch is a scan of the rotated sorted interest list at the return clock *)
Lemma sleep_fair : forall k maxev timeout rot k1 evs, k_epoll_sleep k maxev timeout rot = WReady k1 evs ->
  exists kx r, vfds kx = vfds k /\ clock kx = clock k1 /\ evs = ep_scan kx (rotate r (sort_ents (ep k))) (Z.to_nat maxev).
Proof.
  intros k maxev timeout rot k1 evs. unfold k_epoll_sleep.
  set (r := if Z.of_nat (length (sort_ents (ep k))) =? 0 then O else Z.to_nat (rot mod Z.of_nat (length (sort_ents (ep k))))).
  set (order := rotate r (sort_ents (ep k))).
  destruct (ep_scan k order (Z.to_nat maxev)) as [|ev0 evs0] eqn:SC.
  - destruct (timeout =? 0).
    + intros H. inversion H; subst. exists k1, r. repeat split. fold order. rewrite SC. reflexivity.
    + set (wake := ep_wake _ _ _). destruct (wake <? 0); [discriminate|].
      set (kx := if clock k <? wake then k_set_clock k wake else k).
      intros H. inversion H; subst. exists kx, r. split; [unfold kx; destruct (clock k <? wake); reflexivity|].
      split; reflexivity.
  - intros H. inversion H; subst. exists k, r. repeat split. fold order. rewrite SC. reflexivity.
Qed.

(* an armed and due timer descriptor is in the reported batch *)
Lemma tfd_reported : forall s maxev timeout rot k1 evs D v e, InvW s -> maxev = numfds s + 1 ->
  k_epoll_sleep (kern s) maxev timeout rot = WReady k1 evs ->
  k_get (kern s) (tfd s) = Some v -> vkind v = K_TIMERFD -> vdeadline v = D -> D <> 0 ->
  In e (ep (kern s)) -> en_fd e = tfd s -> en_events e = B_IN -> en_enabled e = true ->
  D <= clock k1 -> exists fd bits, In (fd, bits, -2) evs.
Proof.
  intros s maxev timeout rot k1 evs D v e IW MX SL G KD DL NZ I0 EF EV EN DC.
  destruct (sleep_fair _ _ _ _ _ _ SL) as (kx & r & V & C & ->).
  assert (RB : ep_ready_bits kx e <> 0).
  { unfold ep_ready_bits. rewrite EN. cbn [negb]. unfold k_cond.
    assert (G' : k_get kx (en_fd e) = Some v) by (unfold k_get in *; rewrite V, EF; exact G). rewrite G', KD.
    change (K_TIMERFD =? K_SCRIPTED) with false. change (K_TIMERFD =? K_EVENTFD) with false.
    change (K_TIMERFD =? K_PIPE_R) with false. change (K_TIMERFD =? K_PIPE_W) with false.
    change (K_TIMERFD =? K_TIMERFD) with true. cbv iota.
    assert (X : (vfired v || (negb (vdeadline v =? 0) && (vdeadline v <=? clock kx))) = true).
    { apply orb_true_iff. right. apply andb_true_iff. split; [apply negb_true_iff, Z.eqb_neq; lia|apply Z.leb_le; lia]. }
    rewrite X, EV. cbn. discriminate. }
  assert (D2 : en_data e = -2).
  { destruct (fv_ent _ _ (iw_fd _ IW) e I0) as [(LV & EF' & _)|[(_ & EF' & AR & _)|(D2 & _)]]; [| |exact D2]; exfalso.
    - destruct LV as [R [RG|X]]; [|lia].
      assert (TR : tfd s = -1 \/ 1000 <= tfd s) by (destruct (dy_tfd _ (iw_dyn _ IW)) as [T|(T & _)]; auto).
      + destruct (Z_lt_le_dec (en_data e) 16) as [U|U].
        * rewrite (fv_user _ _ (iw_fd _ IW) (en_data e)) in EF' by lia. lia.
        * pose proof (fv_dyn _ _ (iw_fd _ IW) (en_data e) U (conj R (or_introl RG))) as DY.
          (* the timer descriptor is not a registered object's descriptor: kinds differ *)
          assert (RW : rw_reg s (en_data e - 16) = true).
          { rewrite <- (dy_reg _ (iw_dyn _ IW) (en_data e - 16)) by lia. replace (16 + (en_data e - 16)) with (en_data e) by lia. exact RG. }
          destruct (dy_obj _ (iw_dyn _ IW) _ RW) as (FN & _). replace (16 + (en_data e - 16)) with (en_data e) in FN by lia.
          pose proof (dy_kern _ (iw_dyn _ IW) _ RW) as DK.
          assert (RF : rw_rfd s (en_data e - 16) = tfd s) by congruence.
          destruct (raw_is_pipe s (en_data e - 16)).
          -- destruct DK as (_ & _ & v1 & vw & O1 & K1 & _). rewrite RF in O1. apply k_open_get in O1. destruct O1 as [G1 _].
             rewrite G in G1. inversion G1; subst v1. rewrite KD in K1. discriminate K1.
          -- destruct DK as (_ & _ & v1 & O1 & K1). rewrite RF in O1. apply k_open_get in O1. destruct O1 as [G1 _].
             rewrite G in G1. inversion G1; subst v1. rewrite KD in K1. discriminate K1.
    - destruct (dy_act _ (iw_dyn _ IW) AR) as (_ & (v1 & O1 & K1) & _). rewrite <- EF', EF in O1.
      apply k_open_get in O1. destruct O1 as [G1 _]. rewrite G in G1. inversion G1; subst v1.
      rewrite KD in K1. destruct K1 as [[K1 _]|[K1 _]]; discriminate K1. }
  exists (en_fd e), (ep_ready_bits kx e). rewrite <- D2. apply scan_all; [| |exact RB].
  - rewrite nready_rotate, nready_sort. pose proof (nready_bound s kx IW V) as NB. subst maxev.
    apply Nat2Z.inj_le. rewrite Z2Nat.id; [exact NB|]. pose proof (cntf_nonneg (fun k => registered (fdt s k)) (zseq 0 33)).
    rewrite (ac_numfds _ (iw_acct _ IW)). lia.
  - unfold rotate. apply in_or_app.
    assert (IS : In e (sort_ents (ep (kern s)))) by (apply In_sort_ents; exact I0).
    rewrite <- (firstn_skipn r (sort_ents (ep (kern s)))) in IS. apply in_app_or in IS. tauto.
Qed.

Lemma sleep_clock : forall k maxev timeout rot k1 evs, k_epoll_sleep k maxev timeout rot = WReady k1 evs -> clock k <= clock k1.
Proof.
  intros k maxev timeout rot k1 evs. unfold k_epoll_sleep.
  destruct (ep_scan k _ (Z.to_nat maxev)) as [|ev0 evs0].
  - destruct (timeout =? 0); [intros H; inversion H; subst; lia|].
    set (wake := ep_wake _ _ _). destruct (wake <? 0); [discriminate|].
    intros H. inversion H; subst. cbn [clock k_set_ep]. destruct (Z.ltb_spec (clock k) wake); cbn [clock k_set_clock]; lia.
  - intros H. inversion H; subst. cbn [clock k_set_ep]. lia.
Qed.
