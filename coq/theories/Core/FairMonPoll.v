(* FairMonPoll.v -- the fairness monitor through iv_fd_epoll_poll / iv_fd_poll_poll. *)
From Coq Require Import List ZArith Bool Lia.
From Ivv Require Import Core.Kernel Core.CoreTypes Core.CoreFd Core.CoreModel Core.Monitors Core.FairMon Core.CoreSpec
  Core.CoreRel Core.CoreInvWait Core.CoreInvLoop Core.CoreInvObj Core.CoreInv Core.CorePhase2K1 Core.CorePhase2AcctTr Core.CorePhase2AcctTr2
  Core.CorePhase2TimeMon Core.CorePhase2TimeFr
  Core.CorePhase2TimeT1 Core.CorePhase2TimeT1L Core.CorePhase2TimeReq Core.CorePhase2TimeT1W
  Core.FairMonBase Core.FairMonAct Core.FairMonLoop Core.FairMonKern Core.FairMonWait.
From Ivv Require Timer.HeapModel.
Import ListNotations.
Local Open Scope Z_scope.

(* what the caller knows about the timers when the epoll-timerfd back end is asked to wait without a timeout *)
Definition KH (s : core) : Prop :=
  (forall j, inr16 j -> timer_registered s j = false) \/
  (exists D, ArmedT s D /\ forall j, inr16 j -> timer_registered s j = true -> D <= Z.max 1 (HeapModel.texp (heap s) (tmid j))).

Lemma epoll_process_tmr : forall evs s re tm, method s = M_ET -> (tm = true \/ exists fd bits, In (fd, bits, -2) evs) ->
  snd (epoll_process s evs re tm) = true.
Proof.
  induction evs as [|[[fd bits] data] evs IH]; intros s re tm M H; cbn [epoll_process].
  - destruct H as [H|(fd & bits & [])]. exact H.
  - destruct (Z.eqb_spec data (-1)) as [D1|D1].
    + apply IH; [exact M|]. destruct H as [H|(fd0 & b0 & [H|H])]; [left; exact H|inversion H; lia|right; exists fd0, b0; exact H].
    + rewrite M. change (M_ET =? M_ET) with true. rewrite andb_true_r.
      destruct (Z.eqb_spec data (-2)) as [D2|D2].
      * apply IH; [exact M|left; reflexivity].
      * apply IH; [rewrite (kf_method _ _ _ (activate_KF 0 s data bits)); exact M|].
        destruct H as [H|(fd0 & b0 & [H|H])]; [left; exact H|inversion H; lia|right; exists fd0, b0; exact H].
Qed.

Lemma TrExt_FF : forall s s', FF s s' -> TrExt qf s s'.
Proof. intros s s' (_ & _ & X). apply TrX_qf. exact X. Qed.

Section Poll.
Variable sc : scenario.
Hypothesis WF : wf_scenario sc.

Lemma FairI_of_FP : forall clk s0 s', f_fail (fst s0) = false -> due_ok clk (fst s0) -> TrExt qf s0 s' -> PendT clk s' -> FairI true s'.
Proof.
  intros clk s0 s' FF0 DK X P. destruct (TrExt_qf _ _ X) as [A _]. split; [congruence|]. right. split; [reflexivity|].
  exists clk. split; [exact P|apply (TrExt_due_ok clk s0 s' X DK)].
Qed.

Lemma FairI_nil : forall rt s0 s', f_fail (fst s0) = false -> f_due (fst s0) = [] -> TrExt qf s0 s' -> FairI rt s'.
Proof.
  intros rt s0 s' FF0 FD X. destruct (TrExt_qf _ _ X) as [A _]. split; [congruence|]. left. apply (TrExt_qf_nil s0 s' X FD).
Qed.

Lemma epoll_poll_fair : forall s abs, J true s -> InvW s -> quit s = false -> is_epoll s = true -> 1 <= clock (kern s) ->
  f_fail (fst s) = false -> f_due (fst s) = [] -> (method s = M_ET -> abs = None -> KH s) ->
  MPF (snd (epoll_poll sc s abs)) (Datatypes.fst (epoll_poll sc s abs)).
Proof.
  intros s abs Jh IW Q IE CK FF0 FD HK. unfold epoll_poll. cbv zeta.
  pose proof (J_inner_res s _ _ Jh (flush_pending_res (S (length (notify s))) s (j_fd _ _ Jh) IE)) as P.
  pose proof (flush_pending_ext (S (length (notify s))) s) as X1.
  pose proof (flush_pending_FF (S (length (notify s))) s) as FL1.
  destruct (flush_pending_K s IW IE) as (s1 & FL & I1 & T1 & NF1 & _). rewrite FL in *.
  destruct P as (J1 & F1 & E1); [intros s1' (A & B & _); split; [apply Inner_W; exact A|exact B]|].
  unfold RExt in X1; cbn [res_state] in X1. unfold FFr in FL1; cbn [res_state] in FL1.
  assert (X1q : TrExt qf s s1) by (eapply TrExt_weaken; [exact ca_qf|exact X1]).
  destruct FL1 as (L1 & LK1 & _). destruct (lf_fields _ _ L1) as (H1 & _ & _ & _ & _ & _ & _ & C1).
  assert (Q1 : quit s1 = false).
  { destruct E1 as (A & _). rewrite (sm_quit _ _ (in_same _ _ A)). exact Q. }
  destruct (TrExt_qf _ _ X1q) as [A1 _].
  assert (FF1 : f_fail (fst s1) = false) by congruence.
  assert (FD1 : f_due (fst s1) = []) by (apply (TrExt_qf_nil s s1 X1q FD)).
  set (maxev := if method s =? M_ET then numfds s + 1 else if numfds s =? 0 then 1 else numfds s).
  pose proof (epoll_wait_m_post sc WF s1 abs maxev J1 Q1) as W.
  pose proof (epoll_wait_m_fair sc WF s1 abs maxev I1 ltac:(lia) FF1 FD1) as WFa.
  pose proof (epoll_wait_m_K sc WF CoreInv.do_action_ok s1 abs maxev I1) as KW.
  destruct (epoll_wait_m sc s1 abs maxev) as [s2 evs|s2|r]; cbn [WPost WFairP PKw Datatypes.fst Datatypes.snd] in *.
  - destruct W as (J2 & F2 & OK2). destruct WFa as (FF2 & DK2 & H2 & CK2 & TR2).
    destruct (J_invalidate true s2 J2) as (J3 & F3 & _).
    set (s3 := invalidate_now s2) in *.
    assert (OK3 : forall ev, In ev evs -> EvOk s3 ev) by (intros ev H; exact (OK2 ev H)).
    destruct (epoll_process_post evs s3 false false J3 OK3) as [J4 F4].
    pose proof (epoll_process_FF evs s3 false false) as FF4.
    pose proof (epoll_process_tmr evs s3 false false) as TMR.
    destruct (epoll_process s3 evs false false) as [[s4 run_events] tmr]. cbn [Datatypes.fst Datatypes.snd] in *.
    set (clk := clock (kern s2)) in *.
    assert (X4 : TrExt qf s2 s4) by (apply TrExt_FF in FF4; eapply TrExt_l; [|exact FF4]; reflexivity).
    destruct FF4 as (L4 & _ & _). destruct (lf_fields _ _ L4) as (_ & _ & TV4 & _ & _ & _ & _ & C4).
    assert (P4 : FP clk false s4).
    { split; [split|discriminate]; [rewrite C4; change (clock (kern s3)) with clk; lia|].
      rewrite TV4. cbn [s3 invalidate_now time_valid set_time]. discriminate. }
    (* reading the timer descriptor, the pending events *)
    assert (REST : forall s5, J true s5 -> FP clk false s5 -> TrExt qf s2 s5 ->
              (if run_events then run_pending_events sc s5 else R s5) = (if run_events then run_pending_events sc s5 else R s5) ->
              match (if run_events then run_pending_events sc s5 else R s5) with
              | R s6 => TrExt qf s2 s6 /\ PendT clk s6
              | Halt s6 => TrExt qf s2 s6 end).
    { intros s5 J5 P5 X5 _. destruct run_events; [|split; [exact X5|apply P5]].
      pose proof (run_pending_events_FP sc WF clk false s5 J5 P5) as QF.
      pose proof (run_pending_events_exth sc s5) as XE.
      destruct (run_pending_events sc s5) as [s6|s6]; unfold RExt in XE; cbn [res_state FQ] in *.
      - split; [eapply TrExt_trans; [exact X5|eapply TrExt_weaken; [exact ch_qf|exact XE]]|apply QF].
      - eapply TrExt_trans; [exact X5|eapply TrExt_weaken; [exact ch_qf|exact XE]]. }
    assert (FIN : forall r, match r with R s6 => TrExt qf s2 s6 /\ PendT clk s6 | Halt s6 => TrExt qf s2 s6 end ->
              (tmr = false -> (if method s =? M_ET then match abs with Some _ => true | None => false end else true) = false -> f_due (fst s2) = []) ->
              MPF ((if method s =? M_ET then match abs with Some _ => true | None => false end else true) || tmr) r).
    { intros r HR NIL. destruct r as [s6|s6]; cbn [MPF].
      - destruct HR as [X6 P6].
        destruct ((if method s =? M_ET then match abs with Some _ => true | None => false end else true) || tmr) eqn:RT.
        + apply (FairI_of_FP clk s2 s6); assumption.
        + apply orb_false_iff in RT. destruct RT as [RT1 RT2]. apply (FairI_nil false s2 s6); [exact FF2|apply NIL; assumption|exact X6].
      - destruct (TrExt_qf _ _ HR) as [A _]. congruence. }
    assert (NIL : tmr = false -> (if method s =? M_ET then match abs with Some _ => true | None => false end else true) = false -> f_due (fst s2) = []).
    { intros TMF RT0. destruct (Z.eqb_spec (method s) M_ET) as [ME|ME]; [|discriminate]. destruct abs as [a|]; [discriminate|].
      destruct (f_due (fst s2)) as [|j l] eqn:L; [reflexivity|]. exfalso.
      destruct (DK2 j ltac:(rewrite L; left; reflexivity)) as (JR & FR & FX).
      destruct (regag_st s2) as [RA XA]. rewrite RA in FR. rewrite XA in FX.
      destruct (J_AgTm _ _ J2 j JR) as [G1 G2]. rewrite G1 in FR. rewrite (G2 FR) in FX.
      assert (M1 : method s1 = M_ET) by (rewrite (tf_method _ _ _ T1); exact ME).
      assert (TM1 : TfdM s1) by (intros _; exact M1). specialize (KW TM1). destruct KW as [_ T2].
      assert (M3 : method s3 = M_ET) by (change (method s3) with (method s2); rewrite (tf_method _ _ _ T2); exact M1).
      assert (TRS : timer_registered s j = true) by (unfold timer_registered in *; rewrite <- H1, <- H2; exact FR).
      destruct (HK ME eq_refl) as [NO|(D & AR & LE)]; [rewrite (NO j JR) in TRS; discriminate|].
      specialize (LE j JR TRS). rewrite <- H1, <- H2 in LE.
      assert (MX : maxev = numfds s1 + 1) by (unfold maxev; try rewrite ME; try (change (M_ET =? M_ET) with true); cbv iota; lia).
      destruct (TR2 MX D (ArmedT_TFs s s1 D AR T1) ltac:(fold clk in FX; lia)) as (fd & bits & IN2).
      rewrite (TMR M3 (or_intror (ex_intro _ fd (ex_intro _ bits IN2)))) in TMF. discriminate. }
    destruct tmr.
    + pose proof (ksame_read (kern s4) (tfd s4) 8) as KS.
      destruct (k_read (kern s4) (tfd s4) 8) as [k1 [x|e]]; cbn [Datatypes.fst bind] in *.
      * apply FIN; [|exact NIL]. apply REST; [apply J_set_kern_plain; assumption|apply FP_set_kern; assumption| |reflexivity].
        eapply TrExt_trans; [exact X4|apply TrExt_same; reflexivity].
      * apply FIN; [|exact NIL]. cbn [halt]. eapply TrExt_trans; [exact X4|]. apply (TrExt_emit qf (set_kern s4 k1) TFatal I).
    + cbn [bind]. apply FIN; [|exact NIL]. apply REST; [exact J4|exact P4|exact X4|reflexivity].
  - destruct WFa as [FF2 FD2]. cbn [MPF]. split; [exact FF2|left; exact FD2].
  - destruct r as [s'|s']; [destruct W|]. cbn [MPF res_state] in *. exact WFa.
Qed.

End Poll.
