(* CoreFd.v -- model of iv_fd.c (registration, handlers, dispatch helpers) and of
   the descriptor side of the four poll back ends (iv_fd_epoll.c, iv_fd_poll.c).
   Written after the C text; executable definitions only. *)

From Coq Require Import List ZArith Bool.
From Ivv Require Import Core.Kernel Core.CoreTypes.
Import ListNotations.
Local Open Scope Z_scope.

Definition M_ET : Z := 0.
Definition M_EP : Z := 1.
Definition M_PP : Z := 2.
Definition M_PO : Z := 3.
Definition is_epoll (s : core) : bool := (method s =? M_ET) || (method s =? M_EP).

Definition getfd (s : core) (k : Z) : fdo := fdt s k.
Definition putfd (s : core) (k : Z) (f : fdo) : core := set_fdt s (upd (fdt s) k f).

Definition fd_with_bands (f : fdo) (w r rd : Z) : fdo :=
  {| fdnum := fdnum f; h_in := h_in f; h_out := h_out f; h_err := h_err f; cookie := cookie f;
     registered := registered f; wanted := w; regb := r; ready := rd; pidx := pidx f |}.
Definition fd_with_wanted f w := fd_with_bands f w (regb f) (ready f).
Definition fd_with_regb f r := fd_with_bands f (wanted f) r (ready f).
Definition fd_with_ready f rd := fd_with_bands f (wanted f) (regb f) rd.
Definition fd_with_registered (f : fdo) (b : bool) : fdo :=
  {| fdnum := fdnum f; h_in := h_in f; h_out := h_out f; h_err := h_err f; cookie := cookie f;
     registered := b; wanted := wanted f; regb := regb f; ready := ready f; pidx := pidx f |}.
Definition fd_with_pidx (f : fdo) (i : Z) : fdo :=
  {| fdnum := fdnum f; h_in := h_in f; h_out := h_out f; h_err := h_err f; cookie := cookie f;
     registered := registered f; wanted := wanted f; regb := regb f; ready := ready f; pidx := i |}.
Definition fd_with_handlers (f : fdo) (a b c : option Z) : fdo :=
  {| fdnum := fdnum f; h_in := a; h_out := b; h_err := c; cookie := cookie f;
     registered := registered f; wanted := wanted f; regb := regb f; ready := ready f; pidx := pidx f |}.
Definition fd_with_cookie (f : fdo) (c : Z) : fdo :=
  {| fdnum := fdnum f; h_in := h_in f; h_out := h_out f; h_err := h_err f; cookie := c;
     registered := registered f; wanted := wanted f; regb := regb f; ready := ready f; pidx := pidx f |}.

(* recompute_wanted_flags *)
Definition recompute_wanted (f : fdo) : fdo :=
  fd_with_wanted f
    (if registered f then
       (match h_in f with Some _ => M_IN | None => 0 end) +
       (match h_out f with Some _ => M_OUT | None => 0 end) +
       (match h_err f with Some _ => M_ERR | None => 0 end)
     else 0).

(* ---- epoll back ends ---- *)
(* bits_to_poll_mask of iv_fd_epoll.c: MASKIN -> EPOLLIN, MASKOUT -> EPOLLOUT *)
Definition epoll_mask (bands : Z) : Z :=
  (if has bands M_IN then B_IN else 0) + (if has bands M_OUT then B_OUT else 0).

(* epoll_ctl retried while it fails with EINTR (the fault oracle interrupts a call at most once) *)
Definition ctl_retry (s : core) (op fd events data : Z) : core * option errno :=
  let '(k1, r1) := k_epoll_ctl (kern s) op fd events data in
  match r1 with
  | Some EINTR => let '(k2, r2) := k_epoll_ctl k1 op fd events data in (set_kern s k2, r2)
  | _ => (set_kern s k1, r1)
  end.

(* __iv_fd_epoll_flush_one: returns the state and whether epoll_ctl failed *)
Definition epoll_flush_one_ (s : core) (k : Z) : core * bool :=
  let s := set_notify s (remove_z k (notify s)) in
  let f := getfd s k in
  if regb f =? wanted f then (s, false) else
  let op := if (regb f =? 0) && negb (wanted f =? 0) then CTL_ADD
            else if negb (regb f =? 0) && (wanted f =? 0) then CTL_DEL else CTL_MOD in
  let '(s1, r) := ctl_retry s op (fdnum f) (epoll_mask (wanted f)) k in
  match r with
  | None => (putfd s1 k (fd_with_regb (getfd s1 k) (wanted f)), false)
  | Some _ => (s1, true)
  end.

(* iv_fd_epoll_flush_one: fatal on error *)
Definition epoll_flush_one (s : core) (k : Z) : res :=
  let '(s1, failed) := epoll_flush_one_ s k in
  if failed then halt s1 TFatal else R s1.

(* iv_fd_epoll_flush_pending *)
Fixpoint epoll_flush_pending (fuel : nat) (s : core) : res :=
  match notify s with
  | [] => R s
  | k :: _ =>
      match fuel with
      | O => halt s TCrash
      | S f => bind (epoll_flush_one s k) (epoll_flush_pending f)
      end
  end.

(* iv_fd_epoll_notify_fd *)
Definition epoll_notify_fd (s : core) (k : Z) : core :=
  let s := set_notify s (remove_z k (notify s)) in
  let f := getfd s k in
  if regb f =? wanted f then s else set_notify s (notify s ++ [k]).

(* iv_fd_epoll_unregister_fd *)
Definition epoll_unregister_fd (s : core) (k : Z) : res :=
  if mem_z k (notify s) then epoll_flush_one s k else R s.

(* ---- poll back ends ---- *)
(* bits_to_poll_mask of iv_fd_poll.c; poll events: IN=1 OUT=2 HUP=4 *)
Definition poll_mask (bands : Z) : Z :=
  let m := (if has bands M_IN then 5 else 0) in
  let m := Z.lor m (if has bands M_OUT then 6 else 0) in
  Z.lor m (if has bands M_ERR then 4 else 0).

Fixpoint set_nth {A} (l : list A) (n : nat) (v : A) : list A :=
  match l, n with
  | [], _ => []
  | _ :: l', O => v :: l'
  | x :: l', S m => x :: set_nth l' m v
  end.

Definition nth_z {A} (l : list A) (i : Z) : option A :=
  if i <? 0 then None else nth_error l (Z.to_nat i).

(* iv_fd_poll_notify_fd.  Out-of-range array accesses are the outcome TCrash. *)
Definition poll_notify_fd (s : core) (k : Z) : res :=
  let f := getfd s k in
  let n := Z.of_nat (length (pfds s)) in
  if (pidx f =? -1) && negb (wanted f =? 0) then
    if 65536 <=? n then halt s TCrash else
    let s1 := putfd s k (fd_with_pidx f n) in
    R (set_poll s1 (pfds s1 ++ [(fdnum f, poll_mask (wanted f))]) (pkeys s1 ++ [k]))
  else if negb (pidx f =? -1) && (wanted f =? 0) then
    let last := n - 1 in
    if (pidx f <? 0) || (last <? pidx f) then halt s TCrash else
    let s1 :=
      if negb (pidx f =? last) then
        match nth_z (pfds s) last, nth_z (pkeys s) last with
        | Some pl, Some kl =>
            let s' := set_poll s (set_nth (pfds s) (Z.to_nat (pidx f)) pl)
                                 (set_nth (pkeys s) (Z.to_nat (pidx f)) kl) in
            putfd s' kl (fd_with_pidx (getfd s' kl) (pidx f))
        | _, _ => s
        end
      else s in
    let s2 := set_poll s1 (firstn (Z.to_nat last) (pfds s1)) (firstn (Z.to_nat last) (pkeys s1)) in
    R (putfd s2 k (fd_with_pidx (getfd s2 k) (-1)))
  else if negb (pidx f =? -1) then
    match nth_z (pfds s) (pidx f) with
    | Some p => R (set_poll s (set_nth (pfds s) (Z.to_nat (pidx f)) (fst p, poll_mask (wanted f))) (pkeys s))
    | None => halt s TCrash
    end
  else R s.

(* iv_fd_poll_notify_fd_sync: probe with poll(&pfd, 1, 0) *)
Definition poll_notify_fd_sync (s : core) (k : Z) : res * bool :=
  let f := getfd s k in
  let rev := poll_revents (kern s) (fdnum f) 7 in
  if has rev P_NVAL then (R s, true) else (poll_notify_fd s k, false).

(* ---- method dispatch ---- *)
Definition m_notify_fd (s : core) (k : Z) : res :=
  if is_epoll s then R (epoll_notify_fd s k) else poll_notify_fd s k.

(* notify_fd() of iv_fd.c *)
Definition notify_fd (s : core) (k : Z) : res :=
  m_notify_fd (putfd s k (recompute_wanted (getfd s k))) k.

(* iv_fd_register_prologue (the fatal checks are the scripts' guards) *)
Definition register_prologue (s : core) (k : Z) : core :=
  let f := getfd s k in
  let f := fd_with_bands (fd_with_registered f true) (wanted f) 0 0 in
  let f := if is_epoll s then f else fd_with_pidx f (-1) in       (* iv_fd_poll_register_fd *)
  putfd s k f.

Definition register_epilogue (s : core) : core :=
  set_numfds (set_numobjs s (numobjs s + 1)) (numfds s + 1).

(* iv_fd_register *)
Definition fd_register (s : core) (k : Z) : res :=
  bind (notify_fd (register_prologue s k) k) (fun s => R (register_epilogue s)).

(* iv_fd_register_try: result true = failure (-1) *)
Definition fd_register_try (s : core) (k : Z) : res * bool :=
  let s := register_prologue s k in
  let s := putfd s k (recompute_wanted (getfd s k)) in
  let orig := wanted (getfd s k) in
  let s := if orig =? 0 then putfd s k (fd_with_wanted (getfd s k) (M_IN + M_OUT)) else s in
  let '(r, failed) :=
    if is_epoll s then (let '(s1, fl) := epoll_flush_one_ s k in (R s1, fl))
    else poll_notify_fd_sync s k in
  if failed then
    (bind r (fun s =>
       let s := putfd s k (fd_with_registered (getfd s k) false) in
       if is_epoll s then epoll_unregister_fd s k else R s), true)
  else
    (bind r (fun s =>
       bind (if orig =? 0 then m_notify_fd (putfd s k (fd_with_wanted (getfd s k) 0)) k else R s)
            (fun s => R (register_epilogue s))), false).

(* iv_fd_unregister *)
Definition fd_unregister (s : core) (k : Z) : res :=
  let s := putfd s k (fd_with_registered (getfd s k) false) in
  let s := set_active s (remove_z k (active s)) in
  bind (notify_fd s k) (fun s =>
  bind (if is_epoll s then epoll_unregister_fd s k else R s) (fun s =>
  let s := set_numfds (set_numobjs s (numobjs s - 1)) (numfds s - 1) in
  R (match handled s with
     | Some h => if h =? k then set_handled s None else s
     | None => s
     end))).

(* iv_fd_set_handler_{in,out,err} on a registered descriptor; plain field write otherwise *)
Definition fd_set_handler (s : core) (k band : Z) (h : option Z) : res :=
  let f := getfd s k in
  let f' := if band =? 0 then fd_with_handlers f h (h_out f) (h_err f)
            else if band =? 1 then fd_with_handlers f (h_in f) h (h_err f)
            else fd_with_handlers f (h_in f) (h_out f) h in
  let s := putfd s k f' in
  if registered f then notify_fd s k else R s.

(* iv_fd_make_ready *)
Definition make_ready (s : core) (k bands : Z) : core :=
  let s := if mem_z k (active s) then s
           else set_active (putfd s k (fd_with_ready (getfd s k) 0)) (active s ++ [k]) in
  putfd s k (fd_with_ready (getfd s k) (Z.lor (ready (getfd s k)) bands)).

(* translation of reported kernel bits (IN=1 OUT=2 HUP=4 ERR=8) into bands, shared by all back ends *)
Definition activate (s : core) (k bits : Z) : core :=
  let he := has bits B_HUP || has bits B_ERR in
  let s := if has bits B_IN || he then make_ready s k M_IN else s in
  let s := if has bits B_OUT || he then make_ready s k M_OUT else s in
  if he then make_ready s k M_ERR else s.
