(* CorePhase2AcctLoop.v -- the accounting invariant through handler scripts and the
   callback dispatchers (events, raw events, descriptors, timers, tasks). *)
From Coq Require Import List ZArith Bool Lia.
From Ivv Require Import Core.Kernel Core.CoreTypes Core.CoreFd Core.CoreModel Core.Monitors Core.CoreSpec
  Core.CoreRel Core.CorePhase2AcctTr Core.CorePhase2AcctMon Core.CorePhase2AcctFd Core.CorePhase2AcctAct.
From Ivv Require Timer.HeapModel Timer.HeapFacts Timer.HeapCollect Timer.HeapBase.
Import ListNotations.
Local Open Scope Z_scope.

Lemma PJA_fr : forall b s0 s r, Fr s0 s -> Bq s0 s -> PJA b s r -> PJA b s0 r.
Proof.
  intros b s0 s r F B P. destruct r as [s'|s']; cbn [PJA] in *; [|exact Logic.I].
  destruct P as (P1 & P2 & P3 & P4). split; [exact P1|split; [exact P2|split; [eapply Fr_trans; eassumption|eapply Bq_trans; eassumption]]].
Qed.

Lemma AW_plain : forall s s', numobjs s' = numobjs s -> numfds s' = numfds s -> fdt s' = fdt s -> heap s' = heap s ->
  tasks s' = tasks s -> cur s' = cur s -> ev_count s' = ev_count s -> use_raw s' = use_raw s -> rw_reg s' = rw_reg s -> AW s s'.
Proof. intros. constructor; try assumption. intros i. congruence. Qed.

Lemma Acc_plain : forall P s s', Acc s -> TrExt P s s' ->
  numobjs s' = numobjs s -> numfds s' = numfds s -> fdt s' = fdt s -> heap s' = heap s ->
  tasks s' = tasks s -> cur s' = cur s -> ev_count s' = ev_count s -> use_raw s' = use_raw s -> rw_reg s' = rw_reg s -> Acc s'.
Proof. intros P s s' A T. intros. apply (Acc_AW P s s' A); [apply AW_plain; assumption|exact T]. Qed.

Section Loop.
Variable sc : scenario.
Hypothesis WF : wf_scenario sc.

Lemma run_script_PJA : forall b s key, J b s -> Acc s -> PJA b s (run_script sc s key).
Proof.
  intros b s key Jh A. unfold run_script.
  pose proof (wf_handlers sc WF key) as WH.
  destruct (sc_handlers sc key) as [|l0 ls] eqn:EH; [apply PJA_same; assumption|].
  set (lists := l0 :: ls) in *.
  set (k := if invoc s key <? Z.of_nat (length lists) then invoc s key else Z.of_nat (length lists) - 1).
  set (s1 := set_invoc s _).
  assert (J1 : J b s1) by (apply (J_irr b s s1 Jh); reflexivity).
  assert (A1 : Acc s1) by (apply (Acc_plain lp s s1 A); try reflexivity; apply TrExt_same; reflexivity).
  eapply PJA_fr; [apply (Fr_plain s s1); reflexivity|apply Bq_heap; reflexivity|].
  apply run_acts_PJA; [assumption|assumption|].
  destruct (nth_in_or_default (Z.to_nat k) lists []) as [H|H].
  - rewrite Forall_forall in WH. apply WH. assumption.
  - rewrite H. constructor.
Qed.

(* ---------- events ---------- *)
Lemma events_loop_PJA : forall fuel s, J true s -> Acc s -> PJA true s (events_loop sc fuel s).
Proof.
  induction fuel as [|fuel IH]; intros s Jh A; cbn [events_loop].
  - destruct (ev_batch s) as [|ie rest]; [apply PJA_same; assumption|exact Logic.I].
  - destruct (ev_batch s) as [|ie rest] eqn:B; [apply PJA_same; assumption|].
    pose proof (J_call_event s ie rest Jh B) as J1.
    set (s1 := emit (set_evlists s (ev_pending s) rest) (TCallEvent ie)) in *.
    assert (A1 : Acc s1).
    { apply (Acc_plain lp s s1 A); try reflexivity.
      eapply TrExt_l with (s := set_evlists s (ev_pending s) rest); [reflexivity|apply TrExt_emit; exact Logic.I]. }
    eapply PJA_fr; [apply (Fr_plain s s1); reflexivity|apply Bq_heap; reflexivity|].
    eapply PJA_bind; [apply run_script_PJA; assumption|].
    intros s2 J2 A2 F2. destruct rest; [apply PJA_same; assumption|apply IH; assumption].
Qed.

Lemma run_pending_events_PJA : forall s, J true s -> Acc s -> PJA true s (run_pending_events sc s).
Proof.
  intros s Jh A. pose proof (run_pending_events_post sc WF s Jh) as P. unfold run_pending_events in *.
  destruct (ev_pending s) as [|p0 pl] eqn:PE; [apply PJA_same; assumption|].
  set (p := p0 :: pl) in *. set (s1 := set_evlists s [] p) in *.
  (* J for the intermediate state, as in CoreRelLoop *)
  destruct (J_SiEv _ _ Jh) as [S1 S2]. pose proof (J_AgEv _ _ Jh) as GE.
  assert (SUB : forall y, In y ([] ++ p) -> In y (ev_pending s ++ ev_batch s)).
  { intros y H. cbn [app] in H. rewrite PE. apply in_or_app. left. exact H. }
  assert (J1 : J true s1).
  { apply (J_upd true s s1 Jh); try reflexivity; try (apply (j_good _ _ Jh));
      try (solve [left; repeat split; first [reflexivity | intros; apply fkeep_refl]]).
    - right. intros y Y. destruct (GE y Y) as [G1 G2]. split; [exact G1|].
      intros H. apply G2. apply ev_on_list_In. apply SUB. apply ev_on_list_In in H. exact H.
    - right. split; cbn [s1 ev_pending ev_batch set_evlists ev_reg].
      + intros y H. apply S1. apply SUB. exact H.
      + cbn [app]. rewrite PE in S2. apply NoDup_app_iff in S2. apply S2.
    - apply (FdI_keep s s1 (-1) (j_fd _ _ Jh)); reflexivity.
    - apply (FdX_keep s s1 (j_fx _ _ Jh)); try reflexivity; intros; repeat split. }
  assert (A1 : Acc s1) by (apply (Acc_plain lp s s1 A); try reflexivity; apply TrExt_same; reflexivity).
  eapply PJA_fr; [apply (Fr_plain s s1); reflexivity|apply Bq_heap; reflexivity|].
  apply events_loop_PJA; assumption.
Qed.

(* ---------- raw events and descriptor callbacks ---------- *)
Lemma raw_got_event_PJA : forall s j, J true s -> Acc s -> (j = KICK_RAW \/ (inr16 j /\ rw_reg s j = true)) ->
  PJA true s (raw_got_event sc s j).
Proof.
  intros s j Jh A JR. unfold raw_got_event.
  pose proof (ksame_read (kern s) (rw_rfd s j) (if raw_is_pipe s j then 1024 else 8)) as KS.
  destruct (k_read (kern s) (rw_rfd s j) (if raw_is_pipe s j then 1024 else 8)) as [k1 [n|e]]; cbn [fst] in KS.
  - destruct (n =? 0); [exact Logic.I|].
    pose proof (J_set_kern_plain true s k1 Jh KS) as J1.
    set (s1 := set_kern s k1) in *.
    assert (A1 : Acc s1) by (apply (Acc_plain lp s s1 A); try reflexivity; apply TrExt_same; reflexivity).
    eapply PJA_fr; [apply (Fr_plain s s1); reflexivity|apply Bq_heap; reflexivity|].
    destruct (Z.eqb_spec j KICK_RAW) as [EK|NK]; [apply run_pending_events_PJA; assumption|].
    destruct JR as [JR|[JR1 JR2]]; [contradiction|].
    assert (J2 : J true (emit s1 (TCallRaw j))).
    { apply J_event_same; [exact J1|apply mview_TCallRaw|].
      apply good_TCallRaw; [apply (j_good _ _ J1)|apply (j_main _ _ J1)|].
      rewrite (J_AgRw _ _ J1 j JR1). exact JR2. }
    assert (A2 : Acc (emit s1 (TCallRaw j))).
    { apply (Acc_plain lp s1 _ A1); try reflexivity. apply TrExt_emit. exact Logic.I. }
    eapply PJA_fr; [apply (Fr_plain s1 (emit s1 (TCallRaw j))); reflexivity|apply Bq_heap; reflexivity|].
    apply run_script_PJA; assumption.
  - destruct e; try exact Logic.I.
    cbn [PJA]. split; [apply J_set_kern_plain; assumption|].
    split; [apply (Acc_plain lp s _ A); try reflexivity; apply TrExt_same; reflexivity|].
    split; [apply Fr_plain; reflexivity|apply Bq_heap; reflexivity].
Qed.

Lemma call_fd_PJA : forall s k band h, J true s -> Acc s -> 0 <= k <= 32 -> registered (fdt s k) = true ->
  ((band = 0 /\ h = h_in (fdt s k)) \/ (band = 1 /\ h = h_out (fdt s k)) \/ (band = 2 /\ h = h_err (fdt s k))) ->
  PJA true s (call_fd sc s k band h).
Proof.
  intros s k band h Jh A K RG HB. unfold call_fd.
  destruct h as [hid|]; [|apply PJA_same; assumption].
  pose proof (j_fx _ _ Jh) as FX.
  destruct (Z_lt_le_dec k 16) as [KU|KR].
  - assert (I : inr16 k) by (unfold inr16; lia).
    destruct (fx_userh _ FX k I) as (U1 & U2 & U3).
    assert (HR : 0 <= hid < 16).
    { destruct HB as [[_ E]|[[_ E]|[_ E]]]; symmetry in E; [apply U1|apply U2|apply U3]; exact E. }
    destruct (Z.leb_spec 1000 hid) as [L|L]; [lia|].
    destruct (J_AgFd _ _ Jh k I) as (A1 & A2 & A3 & A4 & A5).
    assert (J2 : J true (emit s (TCallFd k band hid (cookie (getfd s k))))).
    { apply J_event_same; [exact Jh|apply mview_TCallFd|].
      apply good_TCallFd; [apply (j_good _ _ Jh)|apply (j_main _ _ Jh)|congruence| |exact A5].
      destruct HB as [[-> E]|[[-> E]|[-> E]]]; congruence. }
    assert (AC2 : Acc (emit s (TCallFd k band hid (cookie (getfd s k))))).
    { apply (Acc_plain lp s _ A); try reflexivity. apply TrExt_emit. exact Logic.I. }
    eapply PJA_fr; [apply (Fr_plain s (emit s (TCallFd k band hid (cookie (getfd s k))))); reflexivity|apply Bq_heap; reflexivity|].
    apply run_script_PJA; assumption.
  - destruct (fx_rawh _ FX k ltac:(lia)) as (U1 & U2 & U3).
    assert (HR : hid = 1000 + (k - 16)).
    { destruct HB as [[_ E]|[[_ E]|[_ E]]]; symmetry in E; [apply U1|apply U2|apply U3]; exact E. }
    destruct (Z.leb_spec 1000 hid) as [L|L]; [|lia].
    apply raw_got_event_PJA; [exact Jh|exact A|].
    replace (hid - 1000) with (k - 16) by lia.
    destruct (Z.eq_dec (k - 16) KICK_RAW) as [E|N]; [left; exact E|right].
    unfold KICK_RAW in N. split; [unfold inr16; lia|].
    apply (fx_raw _ FX (k - 16)); [lia|]. replace (16 + (k - 16)) with k by lia. exact RG.
Qed.

(* ---------- the dispatch loop of iv_fd_poll_and_run ---------- *)
Definition PJA0 (b : bool) (s : core) (r : res) : Prop :=
  match r with R s' => J b s' /\ Acc s' /\ (cur s = None -> cur s' = None) /\ Bq s s' | Halt _ => True end.

Lemma PJA_PJA0 : forall b s r, PJA b s r -> PJA0 b s r.
Proof. intros b s r P. destruct r; cbn [PJA PJA0] in *; [|exact Logic.I]. destruct P as (A & B & [_ C] & D). auto. Qed.

Lemma PJA0_bind : forall b s r f, PJA0 b s r ->
  (forall s1, J b s1 -> Acc s1 -> PJA0 b s1 (f s1)) -> PJA0 b s (bind r f).
Proof.
  intros b s r f P K. destruct r as [s1|s1]; cbn [bind PJA0] in *; [|exact Logic.I].
  destruct P as (J1 & A1 & C1 & B1). specialize (K s1 J1 A1).
  destruct (f s1) as [s2|s2]; cbn [PJA0] in *; [|exact Logic.I].
  destruct K as (J2 & A2 & C2 & B2). split; [exact J2|split; [exact A2|split; [auto|eapply Bq_trans; eassumption]]].
Qed.

Lemma PJA0_l : forall b s0 s r, (cur s0 = None -> cur s = None) -> Bq s0 s -> PJA0 b s r -> PJA0 b s0 r.
Proof.
  intros b s0 s r C B P. destruct r; cbn [PJA0] in *; [|exact Logic.I]. destruct P as (P1 & P2 & P3 & P4).
  split; [exact P1|split; [exact P2|split; [auto|eapply Bq_trans; eassumption]]].
Qed.

Lemma guarded_call_PJA : forall s k band (c : bool), J true s -> Acc s -> 0 <= k <= 32 ->
  (handled s = Some k \/ handled s = None) -> (band = 0 \/ band = 1 \/ band = 2) ->
  let h := if band =? 0 then h_in (fdt s k) else if band =? 1 then h_out (fdt s k) else h_err (fdt s k) in
  PJA true s (match handled s with
              | Some _ => if c then call_fd sc s k band h else R s
              | None => R s
              end).
Proof.
  intros s k band c Jh A K H B h.
  destruct (handled s) as [k'|] eqn:HD; [|apply PJA_same; assumption].
  destruct c; [|apply PJA_same; assumption].
  destruct H as [H|H]; [|discriminate]. inversion H; subst k'.
  destruct (fi_handled s (-1) (j_fd _ _ Jh) k HD) as [_ RG]. specialize (RG ltac:(lia)).
  apply call_fd_PJA; try assumption.
  unfold h. destruct B as [->|[->| ->]]; cbn; auto.
Qed.

Lemma dispatch_active_PJA0 : forall fuel s, J true s -> Acc s -> PJA0 true s (dispatch_active sc fuel s).
Proof.
  induction fuel as [|fuel IH]; intros s Jh A; cbn [dispatch_active].
  - destruct (active s) as [|k rest]; [|exact Logic.I]. cbn [PJA0]. split; [exact Jh|split; [exact A|split; [auto|apply Bq_refl]]].
  - destruct (active s) as [|k rest] eqn:AC.
    { cbn [PJA0]. split; [exact Jh|split; [exact A|split; [auto|apply Bq_refl]]]. }
    destruct (J_pop_active s k rest Jh AC) as [J1 K].
    set (s1 := set_handled (set_active s rest) (Some k)) in *.
    assert (A1 : Acc s1) by (apply (Acc_plain lp s s1 A); try reflexivity; apply TrExt_same; reflexivity).
    apply (PJA0_l true s s1); [intros H; exact H|apply Bq_heap; reflexivity|].
    (* error band *)
    assert (PA1 : PJA true s1 (if has (ready (getfd s1 k)) M_ERR then call_fd sc s1 k 2 (h_err (getfd s1 k)) else R s1)).
    { pose proof (guarded_call_PJA s1 k 2 (has (ready (getfd s1 k)) M_ERR) J1 A1 K (or_introl eq_refl) ltac:(auto)) as Q.
      cbv zeta in Q. change (handled s1) with (Some k) in Q. cbn in Q. exact Q. }
    destruct (if has (ready (getfd s1 k)) M_ERR then call_fd sc s1 k 2 (h_err (getfd s1 k)) else R s1) as [s2|s2];
      cbn [bind PJA PJA0] in *; [|exact Logic.I].
    destruct PA1 as (J2 & A2 & F2 & B2).
    (* input band *)
    pose proof (guarded_call_PJA s2 k 0 (has (ready (getfd s2 k)) M_IN) J2 A2 K (proj1 F2) ltac:(auto)) as PB.
    cbv zeta in PB. cbn [Z.eqb] in PB.
    match type of PB with PJA true s2 ?X => change X with
      (match handled s2 with
       | Some _ => if has (ready (getfd s2 k)) M_IN then call_fd sc s2 k 0 (h_in (getfd s2 k)) else R s2
       | None => R s2 end) in PB end.
    destruct (match handled s2 with
       | Some _ => if has (ready (getfd s2 k)) M_IN then call_fd sc s2 k 0 (h_in (getfd s2 k)) else R s2
       | None => R s2 end) as [s3|s3]; cbn [bind PJA PJA0] in *; [|exact Logic.I].
    destruct PB as (J3 & A3 & F3 & B3).
    pose proof (Fr_trans _ _ _ F2 F3) as F13.
    (* output band *)
    pose proof (guarded_call_PJA s3 k 1 (has (ready (getfd s3 k)) M_OUT) J3 A3 K (proj1 F13) ltac:(auto)) as PC.
    cbv zeta in PC. cbn [Z.eqb Pos.eqb] in PC.
    match type of PC with PJA true s3 ?X => change X with
      (match handled s3 with
       | Some _ => if has (ready (getfd s3 k)) M_OUT then call_fd sc s3 k 1 (h_out (getfd s3 k)) else R s3
       | None => R s3 end) in PC end.
    destruct (match handled s3 with
       | Some _ => if has (ready (getfd s3 k)) M_OUT then call_fd sc s3 k 1 (h_out (getfd s3 k)) else R s3
       | None => R s3 end) as [s4|s4]; cbn [bind PJA PJA0] in *; [|exact Logic.I].
    destruct PC as (J4 & A4 & F4 & B4).
    pose proof (Fr_trans _ _ _ F13 F4) as F14.
    apply (PJA0_l true s1 s4); [apply (proj2 F14)|exact (Bq_trans _ _ _ B2 (Bq_trans _ _ _ B3 B4))|].
    apply IH; assumption.
Qed.

(* ---------- iv_run_timers ---------- *)
Lemma timers_dispatch_batch : forall fuel s s', timers_dispatch sc fuel s = R s' -> HeapModel.batch (heap s') = [].
Proof.
  induction fuel as [|fuel IH]; intros s s'; cbn [timers_dispatch].
  - destruct (HeapModel.batch (heap s)) eqn:B; [intros E; inversion E; subst; exact B|discriminate].
  - destruct (HeapModel.batch (heap s)) eqn:B; [intros E; inversion E; subst; exact B|].
    cbv zeta. destruct (run_script sc _ _) as [s1|s1]; cbn [bind]; [apply IH|discriminate].
Qed.

(* inside iv_run_timers the batch is not empty: the post-condition drops Bq *)
Definition PJAt (s : core) (r : res) : Prop :=
  match r with R s' => J true s' /\ Acc s' /\ Fr s s' | Halt _ => True end.

Lemma timers_dispatch_PJA : forall fuel s, J true s -> Acc s -> PJAt s (timers_dispatch sc fuel s).
Proof.
  induction fuel as [|fuel IH]; intros s Jh A; cbn [timers_dispatch].
  - destruct (HeapModel.batch (heap s)) as [|t rest]; [|exact Logic.I]. cbn [PJAt]. split; [exact Jh|split; [exact A|apply Fr_refl]].
  - destruct (HeapModel.batch (heap s)) as [|t rest] eqn:B.
    { cbn [PJAt]. split; [exact Jh|split; [exact A|apply Fr_refl]]. }
    pose proof (J_call_timer s t rest Jh B) as J1. cbv zeta in J1.
    set (h' := HeapModel.set_idx (HeapModel.set_batch (heap s) rest) t (-1)) in *.
    set (s1 := validate_now (set_heap s h')) in *.
    assert (F1 : Fr s (emit s1 (TCallTimer (Z.pos t - 1) (time s1)))).
    { unfold s1, validate_now. cbn [time_valid set_heap]. destruct (time_valid s); apply Fr_plain; reflexivity. }
    assert (A1 : Acc (emit s1 (TCallTimer (Z.pos t - 1) (time s1)))).
    { assert (TS : trace s1 = trace s) by (unfold s1; rewrite validate_trace; reflexivity).
      assert (FS : numobjs s1 = numobjs s /\ numfds s1 = numfds s /\ fdt s1 = fdt s /\ heap s1 = h' /\ tasks s1 = tasks s /\
                   cur s1 = cur s /\ ev_count s1 = ev_count s /\ use_raw s1 = use_raw s /\ rw_reg s1 = rw_reg s).
      { unfold s1, validate_now. cbn [time_valid set_heap]. destruct (time_valid s); repeat split. }
      destruct FS as (E1 & E2 & E3 & E4 & E5 & E6 & E7 & E8 & E9).
      apply (Acc_step lp s _ A); cbn [numfds numobjs fdt heap tasks cur ev_count use_raw rw_reg emit set_trace].
      - eapply TrExt_l with (s := s1); [exact TS|apply TrExt_emit; exact Logic.I].
      - rewrite E2, (ac_nf _ A). unfold regf. cbn [fdt emit set_trace]. rewrite E3. reflexivity.
      - unfold hnum, kick. cbn [numfds numobjs fdt heap tasks cur ev_count use_raw rw_reg emit set_trace].
        rewrite (ntask_same s (emit s1 (TCallTimer (Z.pos t - 1) (time s1))) E5 E6).
        rewrite E1, E2, E4, E7, E8. unfold h'. rewrite HeapBase.num_set_idx. cbn [HeapModel.num HeapModel.set_batch]. lia.
      - intros y Y H. rewrite E3. rewrite E9 in H. apply (ac_raw _ A); assumption.
      - rewrite E8, E7, E9. apply (ac_kick _ A).
      - intros H. left. unfold task_registered in *. cbn [tasks cur emit set_trace] in H. rewrite E5, E6 in H. exact H. }
    pose proof (run_script_PJA true _ (100 + (Z.pos t - 1)) J1 A1) as P.
    unfold HK_T. destruct (run_script sc _ _) as [s2|s2]; cbn [bind PJA PJAt] in *; [|exact Logic.I].
    destruct P as (J2 & A2 & F2 & _).
    pose proof (IH s2 J2 A2) as P2. destruct (timers_dispatch sc fuel s2) as [s3|s3]; cbn [PJAt] in *; [|exact Logic.I].
    destruct P2 as (J3 & A3 & F3). split; [exact J3|split; [exact A3|]].
    exact (Fr_trans _ _ _ F1 (Fr_trans _ _ _ F2 F3)).
Qed.

Lemma run_timers_batch : forall s s', HeapModel.batch (heap s) = [] -> run_timers sc s = R s' -> HeapModel.batch (heap s') = [].
Proof.
  intros s s' B. unfold run_timers. destruct (HeapModel.num (heap s) =? 0); [intros E; inversion E; subst; exact B|].
  cbv zeta. destruct (lift_heap _ _) as [s1|s1]; cbn [bind]; [apply timers_dispatch_batch|discriminate].
Qed.

Lemma run_timers_PJA : forall s, J true s -> Acc s -> PJAt s (run_timers sc s).
Proof.
  intros s Jh A. unfold run_timers.
  destruct (HeapModel.num (heap s) =? 0); [cbn [PJAt]; split; [exact Jh|split; [exact A|apply Fr_refl]]|].
  destruct (J_validate true s Jh) as (J1 & F1 & M1 & _).
  set (s1 := validate_now s) in *.
  assert (A1 : Acc s1) by (apply (Acc_AS lp s s1 A); [apply AS_validate|apply TrExt_same; apply validate_trace]).
  destruct (J_SiTm _ _ J1) as [HI HR]. pose proof (J_AgTm _ _ J1) as GT.
  destruct (heap_collect_spec (heap s1) (time s1) HI) as (h' & C & I' & T).
  cbv zeta. fold s1. rewrite C. unfold lift_heap. cbn [bind].
  set (s2 := set_numobjs (set_heap s1 h') _).
  assert (J2 : J true s2).
  { apply (J_upd true s1 s2 J1); try reflexivity; try (apply (j_good _ _ J1));
      try (solve [left; repeat split; first [reflexivity | intros; apply fkeep_refl]]).
    - right. intros y Y. destruct (GT y Y) as [G1 G2]. unfold timer_registered in *.
      cbn [s2 heap set_numobjs set_heap]. destruct (T (tmid y)) as [T1 T2].
      rewrite (treg_iff _ _ _ _ T1), T2. split; assumption.
    - right. split; cbn [s2 heap set_numobjs set_heap]; [exact I'|].
      intros t H. apply HR. intros E. apply H. apply (proj1 (T t)). exact E.
    - apply (FdI_keep s1 s2 (-1) (j_fd _ _ J1)); reflexivity.
    - apply (FdX_keep s1 s2 (j_fx _ _ J1)); try reflexivity; intros; repeat split. }
  assert (A2 : Acc s2).
  { unfold s2. apply (Acc_lift_heap lp s1 s1 h' A1); [apply AW_refl|apply TrExt_refl|exact HI|exact I']. }
  pose proof (timers_dispatch_PJA (S (length (HeapModel.batch (heap s2)))) s2 J2 A2) as P.
  destruct (timers_dispatch sc _ s2) as [s3|s3]; cbn [PJAt] in *; [|exact Logic.I].
  destruct P as (J3 & A3 & F3). split; [exact J3|split; [exact A3|]].
  eapply Fr_trans; [exact F1|]. eapply Fr_trans; [apply (Fr_plain s1 s2); reflexivity|exact F3].
Qed.

(* ---------- iv_run_tasks ---------- *)
Definition PJAT (s : core) (r : res) : Prop :=
  match r with R s' => J true s' /\ Acc s' /\ cur s' = None /\ Bq s s' | Halt _ => True end.

Lemma tasks_loop_PJAT : forall fuel s, J true s -> Acc s -> PJAT s (tasks_loop sc fuel s).
Proof.
  induction fuel as [|fuel IH]; intros s Jh A; pose proof (tasks_loop_post sc WF 0 s Jh) as P0; cbn [tasks_loop] in *.
  - destruct (cur s) as [[|k rest]|] eqn:C; cbn [PJAT PostT] in *; try exact Logic.I.
    + destruct P0 as [P0 _]. split; [exact P0|split; [|split; [reflexivity|apply Bq_heap; reflexivity]]].
      apply (Acc_step lp s _ A); try (cbn [numfds numobjs fdt heap tasks cur ev_count use_raw rw_reg set_tasks]; first [exact (ac_nf _ A) | exact (ac_raw _ A) | exact (ac_kick _ A)]).
      * apply TrExt_same. reflexivity.
      * unfold hnum, kick, ntask, curl. cbn [numfds numobjs fdt heap tasks cur ev_count use_raw rw_reg set_tasks]. rewrite C. lia.
      * intros H. left. unfold task_registered in *. cbn [tasks cur set_tasks] in H. rewrite C. exact H.
    + split; [exact Jh|split; [exact A|split; [exact C|apply Bq_refl]]].
  - clear P0. destruct (cur s) as [[|k rest]|] eqn:C.
    + pose proof (tasks_loop_post sc WF 0 s Jh) as P0. cbn [tasks_loop] in P0. rewrite C in P0. cbn [PostT] in P0.
      destruct P0 as [P0 _]. cbn [PJAT]. split; [exact P0|split; [|split; [reflexivity|apply Bq_heap; reflexivity]]].
      apply (Acc_step lp s _ A); try (cbn [numfds numobjs fdt heap tasks cur ev_count use_raw rw_reg set_tasks]; first [exact (ac_nf _ A) | exact (ac_raw _ A) | exact (ac_kick _ A)]).
      * apply TrExt_same. reflexivity.
      * unfold hnum, kick, ntask, curl. cbn [numfds numobjs fdt heap tasks cur ev_count use_raw rw_reg set_tasks]. rewrite C. lia.
      * intros H. left. unfold task_registered in *. cbn [tasks cur set_tasks] in H. rewrite C. exact H.
    + destruct (J_pop_task s k rest Jh C) as [JL JN]. cbv zeta in JL, JN.
      set (s3 := set_epoch _ _ _) in *.
      destruct (J_SiTk _ _ Jh) as [S1 S2].
      assert (A3 : Acc s3).
      { apply (Acc_step lp s s3 A); try (cbn [s3 numfds numobjs fdt heap tasks cur ev_count use_raw rw_reg set_tasks set_numobjs set_epoch]; first [exact (ac_nf _ A) | exact (ac_raw _ A) | exact (ac_kick _ A)]).
        - apply TrExt_same. reflexivity.
        - unfold hnum, kick, ntask, curl. cbn [s3 numfds numobjs fdt heap tasks cur ev_count use_raw rw_reg set_tasks set_numobjs set_epoch].
          rewrite C. rewrite !app_length. cbn [length]. lia.
        - intros H. left. unfold task_registered in *. cbn [s3 tasks cur set_tasks set_numobjs set_epoch] in H. rewrite C.
          apply orb_true_iff in H. apply orb_true_iff. destruct H as [H|H]; [left; exact H|right].
          cbn [mem_z existsb]. unfold mem_z in H. rewrite H. apply orb_true_r. }
      assert (K : forall r, (PJA true s3 r \/ (exists s4, Acc s4 /\ heap s4 = heap s3 /\ PJA true s4 r)) -> PJAT s (bind r (tasks_loop sc fuel))).
      { intros r P. assert (P' : match r with R s' => J true s' /\ Acc s' /\ Bq s3 s' | Halt _ => True end).
        { destruct P as [P|(s4 & _ & E4 & P)]; destruct r; cbn [PJA] in P; try exact Logic.I.
          - destruct P as (P1 & P2 & _ & P4). auto.
          - destruct P as (P1 & P2 & _ & P4). split; [exact P1|split; [exact P2|]]. intros H. apply P4. rewrite E4. exact H. }
        destruct r as [s5|s5]; cbn [bind PJAT]; [|exact Logic.I].
        destruct P' as (J5 & A5 & B5). pose proof (IH s5 J5 A5) as Q.
        destruct (tasks_loop sc fuel s5) as [s6|s6]; cbn [PJAT] in *; [|exact Logic.I].
        destruct Q as (Q1 & Q2 & Q3 & Q4). split; [exact Q1|split; [exact Q2|split; [exact Q3|]]].
        intros H. apply Q4. apply B5. exact H. }
      destruct (Z.eqb_spec k LOCAL_TASK) as [EK|NK].
      * apply K. left. apply run_pending_events_PJA; [apply JL; exact EK|exact A3].
      * apply K. right. exists (emit s3 (TCallTask k)). split; [|split; [reflexivity|]].
        -- apply (Acc_plain lp s3 _ A3); try reflexivity. apply TrExt_emit. exact Logic.I.
        -- apply run_script_PJA; [apply JN; exact NK|].
           apply (Acc_plain lp s3 _ A3); try reflexivity. apply TrExt_emit. exact Logic.I.
    + cbn [PJAT]. split; [exact Jh|split; [exact A|split; [exact C|apply Bq_refl]]].
Qed.

Lemma run_tasks_PJAT : forall s, J true s -> Acc s -> cur s = None -> PJAT s (run_tasks sc s).
Proof.
  intros s Jh A C. unfold run_tasks.
  set (s1 := set_epoch (set_tasks s [] (Some (tasks s))) _ _).
  assert (J1 : J true s1).
  { apply (J_upd true s s1 Jh); try reflexivity; try (apply (j_good _ _ Jh));
      try (solve [left; repeat split; first [reflexivity | intros; apply fkeep_refl]]).
    - right. intros y Y. change (a_tk (mst s) y = task_registered s1 y).
      rewrite (J_AgTk _ _ Jh y Y). unfold task_registered. cbn [s1 tasks cur set_tasks set_epoch].
      rewrite C. cbn [mem_z existsb orb]. rewrite orb_false_r. reflexivity.
    - right. destruct (J_SiTk _ _ Jh) as [S1 S2]. unfold SiTk, curl in *. cbn [s1 tasks cur set_tasks set_epoch].
      rewrite C in S1, S2. rewrite app_nil_r in S1, S2. split; assumption.
    - apply (FdI_keep s s1 (-1) (j_fd _ _ Jh)); reflexivity.
    - apply (FdX_keep s s1 (j_fx _ _ Jh)); try reflexivity; intros; repeat split. }
  assert (A1 : Acc s1).
  { apply (Acc_step lp s s1 A); try (cbn [s1 numfds numobjs fdt heap tasks cur ev_count use_raw rw_reg set_tasks set_epoch]; first [exact (ac_nf _ A) | exact (ac_raw _ A) | exact (ac_kick _ A)]).
    - apply TrExt_same. reflexivity.
    - unfold hnum, kick, ntask, curl. cbn [s1 numfds numobjs fdt heap tasks cur ev_count use_raw rw_reg set_tasks set_epoch].
      rewrite C. rewrite app_nil_r. cbn [app]. lia.
    - intros H. left. unfold task_registered in *. cbn [s1 tasks cur set_tasks set_epoch] in H. rewrite C.
      cbn [mem_z existsb orb] in H. rewrite orb_false_r. exact H. }
  pose proof (tasks_loop_PJAT 64 s1 J1 A1) as P. destruct (tasks_loop sc 64 s1); cbn [PJAT] in *; [|exact Logic.I].
  destruct P as (P1 & P2 & P3 & P4). auto.
Qed.

(* ---------- the waits: nothing the equation reads changes ---------- *)
Lemma wait_action_AW : forall s a, wf_wait_action a -> ARes (AW s) (do_action s a).
Proof.
  intros s a W. destruct a; cbn [wf_wait_action] in W; try contradiction; cbn [do_action ARes].
  - constructor; reflexivity.
  - constructor; reflexivity.
  - destruct (rw_reg s j); cbn [ARes]; [|apply AW_refl]. unfold raw_post.
    destruct (if raw_is_pipe _ _ then _ else _) as [k1 x]. constructor; reflexivity.
  - constructor; reflexivity.
Qed.

Lemma wait_acts_AW : forall l s, Forall wf_wait_action l -> ARes (AW s) (run_acts s l).
Proof.
  induction l as [|a l IH]; intros s W; cbn [run_acts]; [apply AW_refl|].
  inversion W as [|? ? W1 W2]; subst.
  eapply ARes_bind; [apply wait_action_AW; exact W1|]. cbn beta. intros s1 A1.
  eapply ARes_imp; [apply IH; exact W2|]. cbn beta. intros s2 A2. eapply AW_trans; eassumption.
Qed.

Lemma wait_enter_AW : forall s, ARes (AW s) (wait_enter sc s).
Proof.
  intros s. unfold wait_enter. cbv zeta. destruct (_ <? _); [exact Logic.I|].
  eapply ARes_imp; [apply wait_acts_AW; apply (wf_waits sc WF)|]. cbn beta. intros s1 A1.
  eapply AW_trans; [|exact A1]. constructor; reflexivity.
Qed.

Definition AWw (s : core) (w : wres) : Prop :=
  match w with WR s' _ => AW s s' | WE s' => AW s s' | WH _ => True end.

Lemma AWw_l : forall s0 s w, AW s0 s -> AWw s w -> AWw s0 w.
Proof. intros s0 s w A P. destruct w; cbn [AWw] in *; try exact Logic.I; eapply AW_trans; eassumption. Qed.

Lemma do_epoll_wait_AW : forall s call maxev timeout, AWw s (do_epoll_wait sc s call maxev timeout).
Proof.
  intros s call maxev timeout. unfold do_epoll_wait. pose proof (wait_enter_AW s) as Q.
  destruct (wait_enter sc s) as [s1|s1]; [|exact Logic.I]. cbn [ARes] in Q. cbv zeta.
  destruct (mem_z _ _); cbn [AWw].
  - eapply AW_trans; [exact Q|]. destruct (0 <? timeout); constructor; reflexivity.
  - destruct (k_epoll_sleep _ _ _ _) as [k1 evs|k1| |]; cbn [AWw]; try exact Logic.I;
      (eapply AW_trans; [exact Q|]); constructor; reflexivity.
Qed.

Lemma AW_validate : forall s, AW s (validate_now s).
Proof. intros. apply AS_AW. apply AS_validate. Qed.

Lemma to_relative_AW : forall s a, AW s (fst (to_relative s a)).
Proof. intros s [a|]; cbn [to_relative fst]; [apply AW_validate|apply AW_refl]. Qed.

Lemma to_msec_AW : forall s a, AW s (fst (to_msec s a)).
Proof.
  intros s a. unfold to_msec. pose proof (to_relative_AW s a) as H.
  destruct (to_relative s a) as [s1 [r|]]; exact H.
Qed.

Lemma epoll_wait_m_AW : forall s abs maxev, AWw s (epoll_wait_m sc s abs maxev).
Proof.
  intros s abs maxev. unfold epoll_wait_m.
  assert (V : forall s0, AW s s0 ->
    AWw s (let '(s1, ms) := to_msec s0 abs in do_epoll_wait sc s1 0 maxev (if ms <? 0 then -1 else ms * 1000000))).
  { intros s0 A0. pose proof (to_msec_AW s0 abs) as A1. destruct (to_msec s0 abs) as [s1 ms]. cbn [fst] in A1.
    eapply AWw_l; [eapply AW_trans; eassumption|]. apply do_epoll_wait_AW. }
  destruct (pwait2 s); [|apply V; apply AW_refl].
  pose proof (to_relative_AW s abs) as A1. destruct (to_relative s abs) as [s1 rel]. cbn [fst] in A1.
  destruct (_ || _).
  - apply V. eapply AW_trans; [exact A1|]. constructor; reflexivity.
  - eapply AWw_l; [exact A1|]. apply do_epoll_wait_AW.
Qed.

Lemma epoll_process_AW : forall evs s re tm, AW s (fst (fst (epoll_process s evs re tm))).
Proof.
  induction evs as [|[[fd bits] data] evs IH]; intros s re tm; cbn [epoll_process]; [apply AW_refl|].
  destruct (data =? -1); [apply IH|]. destruct (_ && _); [apply IH|].
  eapply AW_trans; [apply AS_AW; apply activate_AS|apply IH].
Qed.

Lemma poll_activate_AW : forall keys revs s, AW s (poll_activate s keys revs).
Proof.
  induction keys as [|k keys IH]; intros revs s; cbn [poll_activate]; [apply AW_refl|].
  destruct revs as [|r revs]; [apply AW_refl|]. eapply AW_trans; [apply AS_AW; apply activate_AS|apply IH].
Qed.

Lemma do_poll_wait_AW : forall s call timeout, ARes (AW s) (fst (do_poll_wait sc s call timeout)).
Proof.
  intros s call timeout. unfold do_poll_wait. pose proof (wait_enter_AW s) as Q.
  destruct (wait_enter sc s) as [s1|s1]; [|exact Logic.I]. cbn [ARes] in Q. cbv zeta.
  destruct (mem_z _ _); cbn [fst ARes].
  - eapply AW_trans; [exact Q|]. destruct (0 <? timeout); constructor; reflexivity.
  - destruct (k_poll_sleep _ _ _) as [k1 revs|]; cbn [fst ARes halt]; [|exact Logic.I].
    eapply AW_trans; [exact Q|]. eapply AW_trans; [|apply poll_activate_AW]. constructor; reflexivity.
Qed.

Lemma poll_poll_AW : forall s abs, ARes (AW s) (fst (poll_poll sc s abs)).
Proof.
  intros s abs. unfold poll_poll.
  assert (V : forall s0, AW s s0 ->
    ARes (AW s) (fst (let '(s1, ms) := to_msec s0 abs in do_poll_wait sc s1 2 (if ms <? 0 then -1 else ms * 1000000)))).
  { intros s0 A0. pose proof (to_msec_AW s0 abs) as A1. destruct (to_msec s0 abs) as [s1 ms]. cbn [fst] in A1.
    eapply ARes_imp; [apply do_poll_wait_AW|]. cbn beta. intros s2 A2.
    eapply AW_trans; [exact A0|]. eapply AW_trans; eassumption. }
  destruct (method s =? M_PP); [|apply V; apply AW_refl].
  pose proof (to_relative_AW s abs) as A1. destruct (to_relative s abs) as [s1 rel]. cbn [fst] in A1.
  destruct (no_ppoll _).
  - apply V. eapply AW_trans; [exact A1|]. constructor; reflexivity.
  - eapply ARes_imp; [apply do_poll_wait_AW|]. cbn beta. intros s2 A2. eapply AW_trans; eassumption.
Qed.

Lemma tfd_settime_AW : forall s d, AW s (tfd_settime s d).
Proof. intros. constructor; reflexivity. Qed.

Lemma set_poll_timeout_AW : forall s a, ARes (AW s) (fst (set_poll_timeout s a)).
Proof.
  intros s a. unfold set_poll_timeout.
  destruct (tfd s =? -1).
  - destruct (k_timerfd_create (kern s)) as [k1 [fd|e]].
    + cbv zeta. destruct (ctl_retry _ _ _ _ _) as [s1 e] eqn:C. apply ctl_retry_AS in C.
      destruct e; cbn [fst ARes halt]; [exact Logic.I|].
      eapply AW_trans; [|apply tfd_settime_AW]. eapply AW_trans; [|apply AS_AW; exact C]. constructor; reflexivity.
    + cbn [fst ARes]. constructor; reflexivity.
  - cbn [fst ARes]. apply tfd_settime_AW.
Qed.

Lemma timeout_check_AW : forall s abs, ARes (AW s) (fst (timeout_check s abs)).
Proof.
  intros s abs. unfold timeout_check. cbv zeta.
  destruct (_ && _); [apply AW_refl|].
  set (s1 := if last_abs_count s =? 5 then tfd_settime s 0 else s).
  assert (A1 : AW s s1) by (unfold s1; destruct (last_abs_count s =? 5); [apply tfd_settime_AW|apply AW_refl]).
  destruct (abs_cmp abs (last_abs s) =? 0).
  - set (s2 := if last_abs_count s1 <? 5 then _ else s1).
    assert (A2 : AW s s2).
    { eapply AW_trans; [exact A1|]. unfold s2. destruct (last_abs_count s1 <? 5); [constructor; reflexivity|apply AW_refl]. }
    destruct (last_abs_count s2 =? 5); [|exact A2].
    destruct abs as [a|]; [|exact A2].
    eapply ARes_imp; [apply set_poll_timeout_AW|]. cbn beta. intros s3 A3. eapply AW_trans; eassumption.
  - destruct abs as [a|]; cbn [fst ARes]; (eapply AW_trans; [exact A1|constructor; reflexivity]).
Qed.

(* ---------- the polls ---------- *)
Lemma epoll_poll_PJA0 : forall s abs, J true s -> Acc s -> quit s = false -> is_epoll s = true ->
  PJA0 true s (fst (epoll_poll sc s abs)).
Proof.
  intros s abs Jh A Q IE. unfold epoll_poll.
  pose proof (J_inner_res s _ _ Jh (flush_pending_res (S (length (notify s))) s (j_fd _ _ Jh) IE)) as P.
  pose proof (flush_pending_AS (S (length (notify s))) s) as AS1.
  pose proof (flush_pending_ext (S (length (notify s))) s) as T1. apply (RExt_weaken ca lp _ _ ca_lp) in T1.
  destruct (epoll_flush_pending (S (length (notify s))) s) as [s1|s1]; [|exact Logic.I].
  destruct P as (J1 & F1 & E1); [intros s1' (X & Y & _); split; [apply Inner_W; exact X|exact Y]|].
  cbn [ARes] in AS1. unfold RExt in T1. cbn [res_state] in T1.
  assert (Q1 : quit s1 = false).
  { destruct E1 as (X & _). rewrite (sm_quit _ _ (in_same _ _ X)). exact Q. }
  set (maxev := if method s =? M_ET then numfds s + 1 else if numfds s =? 0 then 1 else numfds s).
  pose proof (epoll_wait_m_post sc WF s1 abs maxev J1 Q1) as W.
  pose proof (epoll_wait_m_AW s1 abs maxev) as AW2.
  pose proof (epoll_wait_m_ext sc s1 abs maxev) as T2. unfold WExt in T2.
  destruct (epoll_wait_m sc s1 abs maxev) as [s2 evs|s2|r]; cbn [WPost AWw wres_state] in *.
  - destruct W as (J2 & F2 & OK2).
    destruct (J_invalidate true s2 J2) as (J3 & F3 & _).
    set (s3 := invalidate_now s2) in *.
    assert (OK3 : forall ev, In ev evs -> EvOk s3 ev) by (intros ev H; exact (OK2 ev H)).
    destruct (epoll_process_post evs s3 false false J3 OK3) as [J4 F4].
    pose proof (epoll_process_AW evs s3 false false) as AW4.
    pose proof (epoll_process_trace evs s3 false false) as T4.
    destruct (epoll_process s3 evs false false) as [[s4 run_events] tmr]. cbn [fst] in *.
    assert (F04 : Fr s s4) by exact (Fr_trans _ _ _ F1 (Fr_trans _ _ _ F2 (Fr_trans _ _ _ F3 F4))).
    assert (AW04 : AW s s4).
    { eapply AW_trans; [apply AS_AW; exact AS1|]. eapply AW_trans; [exact AW2|].
      eapply AW_trans; [|exact AW4]. constructor; reflexivity. }
    assert (T04 : TrExt lp s s4).
    { eapply TrExt_trans; [exact T1|]. eapply TrExt_trans; [exact T2|]. apply TrExt_same. rewrite T4. reflexivity. }
    assert (A4 : Acc s4) by (eapply Acc_AW; eassumption).
    apply (PJA0_l true s s4); [apply (proj2 F04)|apply Bq_heap; apply (aw_heap _ _ AW04)|].
    assert (PR : PJA true s4 (if tmr then match k_read (kern s4) (tfd s4) 8 with
                                           | (k1, inl _) => R (set_kern s4 k1)
                                           | (k1, inr _) => halt (set_kern s4 k1) TFatal
                                           end else R s4)).
    { destruct tmr; [|apply PJA_same; assumption].
      pose proof (ksame_read (kern s4) (tfd s4) 8) as KS.
      destruct (k_read (kern s4) (tfd s4) 8) as [k1 [x|e]]; cbn [fst] in KS; [|exact Logic.I].
      cbn [PJA]. split; [apply J_set_kern_plain; assumption|].
      split; [apply (Acc_plain lp s4 _ A4); try reflexivity; apply TrExt_same; reflexivity|].
      split; [apply Fr_plain; reflexivity|apply Bq_heap; reflexivity]. }
    apply PJA_PJA0. eapply PJA_bind; [exact PR|].
    intros s5 J5 A5 _. destruct run_events; [apply run_pending_events_PJA; assumption|apply PJA_same; assumption].
  - destruct W as (J2 & F2). cbn [fst PJA0].
    destruct (J_invalidate true s2 J2) as (J3 & F3 & _).
    assert (AW03 : AW s (invalidate_now s2)).
    { eapply AW_trans; [apply AS_AW; exact AS1|]. eapply AW_trans; [exact AW2|]. constructor; reflexivity. }
    split; [exact J3|]. split.
    + apply (Acc_AW lp s _ A AW03). eapply TrExt_trans; [exact T1|]. eapply TrExt_trans; [exact T2|]. apply TrExt_same. reflexivity.
    + split; [intros C; apply (proj2 F3); apply (proj2 F2); apply (proj2 F1); exact C|].
      apply Bq_heap. apply (aw_heap _ _ AW03).
  - cbn [fst]. destruct r; [contradiction|exact Logic.I].
Qed.

Lemma poll_poll_PJA0 : forall s abs, J true s -> Acc s -> quit s = false -> is_epoll s = false ->
  PJA0 true s (fst (poll_poll sc s abs)).
Proof.
  intros s abs Jh A Q IE.
  pose proof (poll_poll_post sc WF s abs Jh Q IE) as P.
  pose proof (poll_poll_AW s abs) as AWp.
  pose proof (poll_poll_ext sc s abs) as T. unfold RExt in T.
  destruct (fst (poll_poll sc s abs)) as [s1|s1]; cbn [Post0 PJA0 ARes res_state] in *; [|exact Logic.I].
  destruct P as [P1 P2]. split; [exact P1|split; [eapply Acc_AW; eassumption|split; [exact P2|apply Bq_heap; apply (aw_heap _ _ AWp)]]].
Qed.

Lemma m_poll_PJA0 : forall s abs, J true s -> Acc s -> quit s = false -> PJA0 true s (fst (m_poll sc s abs)).
Proof.
  intros s abs Jh A Q. unfold m_poll. destruct (is_epoll s) eqn:IE; [apply epoll_poll_PJA0|apply poll_poll_PJA0]; assumption.
Qed.

Lemma poll_and_run_PJA0 : forall s abs, J true s -> Acc s -> quit s = false ->
  PJA0 true s (fst (poll_and_run sc s abs)).
Proof.
  intros s abs Jh A Q. unfold poll_and_run.
  assert (DISP : forall r, PJA0 true s r ->
            PJA0 true s (bind r (fun s0 => dispatch_active sc (S (length (active s0))) s0))).
  { intros r P. eapply PJA0_bind; [exact P|]. intros s1 J1 A1. apply dispatch_active_PJA0; assumption. }
  assert (G : PJA0 true s (fst (if method s =? M_ET
      then match timeout_check s abs with
           | (Halt s0, _) => (Halt s0, true)
           | (R s0, true) => let '(r, rt) := m_poll sc s0 None in
                             (bind r (fun s1 => R (if rt then set_last_abs s1 (last_abs s1) 0 else s1)), rt)
           | (R s0, false) => m_poll sc s0 abs
           end
      else m_poll sc s abs))).
  { destruct (Z.eqb_spec (method s) M_ET) as [ME|NE]; [|apply m_poll_PJA0; assumption].
    pose proof (timeout_check_post s abs Jh ME) as P.
    pose proof (timeout_check_AW s abs) as AWt.
    pose proof (timeout_check_ext s abs) as Tt. unfold RExt in Tt.
    destruct (timeout_check s abs) as [[s0|s0] fl]; cbn [fst PostQ ARes res_state] in *; [|exact Logic.I].
    destruct P as (J0 & F0 & Q0).
    assert (A0 : Acc s0) by (eapply Acc_AW; eassumption).
    apply (PJA0_l true s s0); [apply (proj2 F0)|apply Bq_heap; apply (aw_heap _ _ AWt)|].
    destruct fl; [|apply m_poll_PJA0; [assumption|assumption|congruence]].
    pose proof (m_poll_PJA0 s0 None J0 A0 ltac:(congruence)) as P.
    destruct (m_poll sc s0 None) as [r rt]. cbn [fst] in *.
    eapply PJA0_bind; [exact P|]. intros s1 J1 A1. cbn [PJA0].
    destruct rt.
    - split; [apply J_set_last_abs; assumption|].
      split; [apply (Acc_plain lp s1 _ A1); try reflexivity; apply TrExt_same; reflexivity|].
      split; [intros C; exact C|apply Bq_heap; reflexivity].
    - split; [assumption|split; [assumption|split; [auto|apply Bq_refl]]]. }
  destruct (if method s =? M_ET
      then match timeout_check s abs with
           | (Halt s0, _) => (Halt s0, true)
           | (R s0, true) => let '(r, rt) := m_poll sc s0 None in
                             (bind r (fun s1 => R (if rt then set_last_abs s1 (last_abs s1) 0 else s1)), rt)
           | (R s0, false) => m_poll sc s0 abs
           end
      else m_poll sc s abs) as [r rt]. cbn [fst] in *. apply DISP. exact G.
Qed.

(* ---------- iv_main ---------- *)
Record ML (s : core) : Prop := {
  ml_j : J true s; ml_acc : Acc s; ml_cur : cur s = None; ml_batch : HeapModel.batch (heap s) = [] }.

Lemma main_loop_ML : forall fuel s rt, ML s ->
  match main_loop sc fuel s rt with
  | R s' => ML s' /\ quit s' || (numobjs s' =? 0) = true
  | Halt _ => True
  end.
Proof.
  induction fuel as [|fuel IH]; intros s rt [Jh A C B]; cbn [main_loop]; [exact Logic.I|].
  assert (P1 : match (if rt then run_timers sc s else R s) with
               | R s1 => J true s1 /\ Acc s1 /\ cur s1 = None /\ HeapModel.batch (heap s1) = []
               | Halt _ => True end).
  { destruct rt; [|auto].
    pose proof (run_timers_PJA s Jh A) as P. pose proof (run_timers_batch s) as PB.
    destruct (run_timers sc s) as [s1|s1]; cbn [PJAt] in *; [|exact Logic.I].
    destruct P as (P1 & P2 & P3). split; [exact P1|split; [exact P2|split; [apply (proj2 P3); exact C|apply PB; [exact B|reflexivity]]]]. }
  destruct (if rt then run_timers sc s else R s) as [s1|s1]; cbn [bind]; [|exact Logic.I].
  destruct P1 as (J1 & A1 & C1 & B1).
  pose proof (run_tasks_PJAT s1 J1 A1 C1) as P2.
  destruct (run_tasks sc s1) as [s2|s2]; cbn [bind PJAT] in *; [|exact Logic.I].
  destruct P2 as (J2 & A2 & C2 & B2).
  destruct (quit s2 || (numobjs s2 =? 0)) eqn:QN.
  { split; [constructor; auto|exact QN]. }
  apply orb_false_iff in QN. destruct QN as [Q2 _].
  set (abs := match tasks s2 with _ :: _ => Some 0 | [] => soonest_timeout s2 end).
  pose proof (poll_and_run_PJA0 s2 abs J2 A2 Q2) as P3.
  destruct (poll_and_run sc s2 abs) as [r rt']. cbn [fst] in P3.
  destruct r as [s3|s3]; cbn [bind PJA0] in *; [|exact Logic.I].
  destruct P3 as (J3 & A3 & C3 & B3). apply IH. constructor; auto.
Qed.

End Loop.

(* ---------- tear-down: every user-visible object ends up unregistered ---------- *)
Definition Off (s : core) (i : Z) : Prop :=
  registered (fdt s i) = false /\ timer_registered s i = false /\ task_registered s i = false /\
  ev_reg s i = false /\ rw_reg s i = false.

(* registration flags of user objects only go down *)
Definition Down (s s' : core) : Prop := forall k, inr16 k ->
  (registered (fdt s k) = false -> registered (fdt s' k) = false) /\
  (timer_registered s k = false -> timer_registered s' k = false) /\
  (task_registered s k = false -> task_registered s' k = false) /\
  (ev_reg s k = false -> ev_reg s' k = false) /\
  (rw_reg s k = false -> rw_reg s' k = false).

Lemma Down_refl : forall s, Down s s. Proof. intros s k _. auto. Qed.
Lemma Down_trans : forall a b c, Down a b -> Down b c -> Down a c.
Proof.
  intros a b c A B k K. destruct (A k K) as (A1 & A2 & A3 & A4 & A5), (B k K) as (B1 & B2 & B3 & B4 & B5).
  repeat split; auto.
Qed.

Lemma Down_Off : forall s s' i, inr16 i -> Down s s' -> Off s i -> Off s' i.
Proof. intros s s' i I D (O1 & O2 & O3 & O4 & O5). destruct (D i I) as (D1 & D2 & D3 & D4 & D5). repeat split; auto. Qed.

Lemma Down_same : forall s s', (forall k, inr16 k -> registered (fdt s' k) = registered (fdt s k)) -> heap s' = heap s ->
  tasks s' = tasks s -> cur s' = cur s -> ev_reg s' = ev_reg s -> (forall k, inr16 k -> rw_reg s' k = rw_reg s k) -> Down s s'.
Proof.
  intros s s' E1 E2 E3 E4 E5 E6 k K. unfold timer_registered, task_registered.
  rewrite (E1 k K), E2, E3, E4, E5, (E6 k K). auto.
Qed.
