(* CorePhase2TimeFr.v -- frames: what the descriptor layer and the event / raw-event
   operations leave alone (loop-level fields, the clock), and which trace events
   they can append (only TKClose and the final TFatal / TCrash). *)
From Coq Require Import List ZArith Bool Lia.
From Ivv Require Import Core.Kernel Core.CoreTypes Core.CoreFd Core.CoreModel Core.Monitors
  Core.CoreRelBase Core.CorePhase2TimeMon.
From Ivv Require Timer.HeapModel.
Import ListNotations.
Local Open Scope Z_scope.

(* loop-level fields *)
Definition lf (s : core) :=
  (heap s, time s, time_valid s, tasks s, cur s, epoch s, tepoch s, clock (kern s)).

(* ... and what only the event / raw / timer-descriptor code touches *)
Definition lk (s : core) :=
  (vfds (kern s), next_fd (kern s), rw_reg s, rw_rfd s, rw_wfd s, efd_raw s, efd_epoll s,
   (tfd s, last_abs s, last_abs_count s, method s, active_fd s, active_ref s, active_wr s),
   (ev_pending s, ev_batch s, ev_count s, ev_reg s, use_raw s, quit s, nwait (kern s), flt (kern s), invoc s)).

(* silent events *)
Definition cs (e : tev) : Prop := match e with TKClose _ | TKTfd _ | TLimit | TFatal | TCrash => True | _ => False end.

Definition TrX (s s' : core) : Prop := exists l, trace s' = l ++ trace s /\ Forall cs l.

Lemma TrX_refl : forall s, TrX s s.
Proof. intros. exists []. split; [reflexivity|constructor]. Qed.
Lemma TrX_same : forall s s', trace s' = trace s -> TrX s s'.
Proof. intros s s' H. exists []. split; [exact H|constructor]. Qed.
Lemma TrX_trans : forall a b c, TrX a b -> TrX b c -> TrX a c.
Proof.
  intros a b c (l1 & E1 & F1) (l2 & E2 & F2). exists (l2 ++ l1). split.
  - rewrite E2, E1. apply app_assoc.
  - apply Forall_app. split; assumption.
Qed.
Lemma TrX_emit : forall s e, cs e -> TrX s (emit s e).
Proof. intros s e H. exists [e]. split; [reflexivity|constructor; [exact H|constructor]]. Qed.
Lemma TrX_l : forall s0 s s', trace s = trace s0 -> TrX s s' -> TrX s0 s'.
Proof. intros s0 s s' E (l & E1 & F). exists l. rewrite <- E. auto. Qed.

(* frame of the descriptor layer *)
Definition FF (s s' : core) : Prop := lf s' = lf s /\ lk s' = lk s /\ TrX s s'.
(* frame of the event / raw-event layer *)
Definition F0 (s s' : core) : Prop := lf s' = lf s /\ TrX s s'.

Lemma FF_refl : forall s, FF s s.
Proof. intros. split; [reflexivity|split; [reflexivity|apply TrX_refl]]. Qed.
Lemma FF_trans : forall a b c, FF a b -> FF b c -> FF a c.
Proof. intros a b c (A1 & A2 & A3) (B1 & B2 & B3). split; [congruence|split; [congruence|eapply TrX_trans; eassumption]]. Qed.
Lemma F0_refl : forall s, F0 s s.
Proof. intros. split; [reflexivity|apply TrX_refl]. Qed.
Lemma F0_trans : forall a b c, F0 a b -> F0 b c -> F0 a c.
Proof. intros a b c (A1 & A3) (B1 & B3). split; [congruence|eapply TrX_trans; eassumption]. Qed.
Lemma FF_F0 : forall s s', FF s s' -> F0 s s'.
Proof. intros s s' (A & _ & C). split; assumption. Qed.

Definition FFr (s : core) (r : res) : Prop := FF s (res_state r).
Definition F0r (s : core) (r : res) : Prop := F0 s (res_state r).

Lemma FFr_bind : forall s r f, FFr s r -> (forall s1, FF s s1 -> FFr s1 (f s1)) -> FFr s (bind r f).
Proof.
  intros s r f H K. destruct r as [s1|s1]; cbn [bind]; [|exact H].
  eapply FF_trans; [exact H|apply K; exact H].
Qed.
Lemma F0r_bind : forall s r f, F0r s r -> (forall s1, F0 s s1 -> F0r s1 (f s1)) -> F0r s (bind r f).
Proof.
  intros s r f H K. destruct r as [s1|s1]; cbn [bind]; [|exact H].
  eapply F0_trans; [exact H|apply K; exact H].
Qed.
Lemma FFr_F0r : forall s r, FFr s r -> F0r s r.
Proof. intros s r. apply FF_F0. Qed.

Lemma FF_plain : forall s s', lf s' = lf s -> lk s' = lk s -> trace s' = trace s -> FF s s'.
Proof. intros s s' A B C. split; [exact A|split; [exact B|apply TrX_same; exact C]]. Qed.
Lemma F0_plain : forall s s', lf s' = lf s -> trace s' = trace s -> F0 s s'.
Proof. intros s s' A C. split; [exact A|apply TrX_same; exact C]. Qed.

Lemma FF_halt : forall s e, cs e -> FFr s (halt s e).
Proof. intros s e H. split; [reflexivity|split; [reflexivity|apply TrX_emit; exact H]]. Qed.
Lemma F0_halt : forall s e, cs e -> F0r s (halt s e).
Proof. intros s e H. apply FFr_F0r. apply FF_halt. exact H. Qed.

(* ---------- descriptor layer ---------- *)
Lemma ctl_retry_FF : forall s op fd ev d s1 r, ctl_retry s op fd ev d = (s1, r) -> FF s s1.
Proof.
  intros s op fd ev d s1 r. unfold ctl_retry.
  destruct (k_epoll_ctl (kern s) op fd ev d) as [k1 r1] eqn:E1.
  assert (K1 : clock k1 = clock (kern s) /\ vfds k1 = vfds (kern s) /\ next_fd k1 = next_fd (kern s) /\
               nwait k1 = nwait (kern s) /\ flt k1 = flt (kern s)).
  { revert E1. unfold k_epoll_ctl.
    repeat match goal with |- context [if ?c then _ else _] => destruct c | |- context [match ?c with _ => _ end] => destruct c end;
      intros E; inversion E; subst; repeat split. }
  destruct K1 as (C1 & V1 & N1 & W1 & L1).
  assert (G : forall k2 r2, k_epoll_ctl k1 op fd ev d = (k2, r2) ->
              clock k2 = clock (kern s) /\ vfds k2 = vfds (kern s) /\ next_fd k2 = next_fd (kern s) /\
              nwait k2 = nwait (kern s) /\ flt k2 = flt (kern s)).
  { intros k2 r2. rewrite <- C1, <- V1, <- N1, <- W1, <- L1. unfold k_epoll_ctl.
    repeat match goal with |- context [if ?c then _ else _] => destruct c | |- context [match ?c with _ => _ end] => destruct c end;
      intros E; inversion E; subst; repeat split. }
  assert (FIN : forall k2, clock k2 = clock (kern s) /\ vfds k2 = vfds (kern s) /\ next_fd k2 = next_fd (kern s) /\
                nwait k2 = nwait (kern s) /\ flt k2 = flt (kern s) -> FF s (set_kern s k2)).
  { intros k2 (A & B & C & D & E). apply FF_plain; [| |reflexivity].
    - unfold lf. cbn [heap time time_valid tasks cur epoch tepoch kern set_kern]. rewrite A. reflexivity.
    - unfold lk. cbn [kern set_kern rw_reg rw_rfd rw_wfd efd_raw efd_epoll tfd last_abs last_abs_count method
                      active_fd active_ref active_wr ev_pending ev_batch ev_count ev_reg use_raw quit invoc].
      rewrite B, C, D, E. reflexivity. }
  destruct r1 as [e|]; [destruct e|]; try (intros E; inversion E; subst; apply FIN; repeat split; assumption).
  destruct (k_epoll_ctl k1 op fd ev d) as [k2 r2] eqn:E2. intros E; inversion E; subst. apply FIN. eapply G; reflexivity.
Qed.

Ltac ffp := apply FF_plain; reflexivity.
Ltac dmatch := match goal with
  | |- context [if ?c then _ else _] => destruct c
  | |- context [match ?c with _ => _ end] => destruct c
  end.

Lemma putfd_FF : forall s k f, FF s (putfd s k f). Proof. intros; ffp. Qed.

Lemma flush_one__FF : forall s k s1 b, epoll_flush_one_ s k = (s1, b) -> FF s s1.
Proof.
  intros s k s1 b. unfold epoll_flush_one_.
  set (s0 := set_notify s (remove_z k (notify s))).
  assert (F0 : FF s s0) by ffp.
  destruct (regb (getfd s0 k) =? wanted (getfd s0 k)); [intros E; inversion E; subst; exact F0|].
  match goal with |- context [ctl_retry s0 ?op ?fd ?ev ?d] => destruct (ctl_retry s0 op fd ev d) as [s2 r] eqn:C end.
  pose proof (ctl_retry_FF _ _ _ _ _ _ _ C) as F2.
  destruct r; intros E; inversion E; subst.
  - exact (FF_trans _ _ _ F0 F2).
  - eapply FF_trans; [exact F0|]. eapply FF_trans; [exact F2|apply putfd_FF].
Qed.

Lemma flush_one_FF : forall s k, FFr s (epoll_flush_one s k).
Proof.
  intros s k. unfold epoll_flush_one. destruct (epoll_flush_one_ s k) as [s1 b] eqn:E.
  pose proof (flush_one__FF _ _ _ _ E) as F. destruct b.
  - eapply FF_trans; [exact F|apply (FF_halt s1 TFatal); exact I].
  - exact F.
Qed.

Lemma flush_pending_FF : forall fuel s, FFr s (epoll_flush_pending fuel s).
Proof.
  induction fuel as [|fuel IH]; intros s; cbn [epoll_flush_pending]; destruct (notify s) as [|k l].
  - apply FF_refl.
  - apply (FF_halt s TCrash); exact I.
  - apply FF_refl.
  - apply FFr_bind; [apply flush_one_FF|intros s1 _; apply IH].
Qed.

Lemma epoll_notify_FF : forall s k, FF s (epoll_notify_fd s k).
Proof. intros s k. unfold epoll_notify_fd. dmatch; ffp. Qed.

Lemma epoll_unregister_FF : forall s k, FFr s (epoll_unregister_fd s k).
Proof. intros s k. unfold epoll_unregister_fd. destruct (mem_z k (notify s)); [apply flush_one_FF|apply FF_refl]. Qed.

Lemma poll_notify_FF : forall s k, FFr s (poll_notify_fd s k).
Proof.
  intros s k. unfold poll_notify_fd.
  repeat dmatch; try (apply (FF_halt s TCrash); exact I); unfold FFr; cbn [res_state]; ffp.
Qed.

Lemma poll_notify_sync_FF : forall s k, FFr s (fst (poll_notify_fd_sync s k)).
Proof.
  intros s k. unfold poll_notify_fd_sync. dmatch; cbn [fst]; [apply FF_refl|apply poll_notify_FF].
Qed.

Lemma m_notify_FF : forall s k, FFr s (m_notify_fd s k).
Proof. intros s k. unfold m_notify_fd. destruct (is_epoll s); [apply epoll_notify_FF|apply poll_notify_FF]. Qed.

Lemma notify_fd_FF : forall s k, FFr s (notify_fd s k).
Proof.
  intros s k. unfold notify_fd. eapply FF_trans; [apply (putfd_FF s k)|apply m_notify_FF].
Qed.

Lemma prologue_FF : forall s k, FF s (register_prologue s k).
Proof. intros s k. unfold register_prologue. ffp. Qed.
Lemma epilogue_FF : forall s, FF s (register_epilogue s).
Proof. intros s. ffp. Qed.

Lemma fd_register_FF : forall s k, FFr s (fd_register s k).
Proof.
  intros s k. unfold fd_register. apply FFr_bind.
  - eapply FF_trans; [apply prologue_FF|apply notify_fd_FF].
  - intros s1 _. apply epilogue_FF.
Qed.

Lemma fd_unregister_FF : forall s k, FFr s (fd_unregister s k).
Proof.
  intros s k. unfold fd_unregister.
  match goal with |- FFr s (bind (notify_fd ?S k) _) => set (s0 := S) end.
  assert (F0 : FF s s0) by ffp.
  eapply FF_trans; [exact F0|]. apply FFr_bind; [apply notify_fd_FF|]. intros s1 _.
  apply FFr_bind; [destruct (is_epoll s1); [apply epoll_unregister_FF|apply FF_refl]|]. intros s2 _.
  unfold FFr. cbn [res_state]. repeat dmatch; ffp.
Qed.

Lemma fd_set_handler_FF : forall s k band h, FFr s (fd_set_handler s k band h).
Proof.
  intros s k band h. unfold fd_set_handler.
  match goal with |- FFr s (if _ then notify_fd ?S k else R ?S) => set (s0 := S) end.
  assert (F0 : FF s s0) by (unfold s0; ffp).
  destruct (registered (getfd s k)); [eapply FF_trans; [exact F0|apply notify_fd_FF]|exact F0].
Qed.

Lemma make_ready_FF : forall s k b, FF s (make_ready s k b).
Proof. intros s k b. unfold make_ready. dmatch; ffp. Qed.

Lemma activate_FF : forall s k bits, FF s (activate s k bits).
Proof.
  intros s k bits. unfold activate.
  repeat match goal with |- context [if ?c then _ else _] => destruct c end;
    repeat (first [apply FF_refl | eapply FF_trans; [|apply make_ready_FF]]).
Qed.

Lemma fd_register_try_FF : forall s k, FFr s (fst (fd_register_try s k)).
Proof.
  intros s k. unfold fd_register_try.
  set (s1 := register_prologue s k).
  set (s2 := putfd s1 k (recompute_wanted (getfd s1 k))).
  set (orig := wanted (getfd s2 k)).
  set (s3 := if orig =? 0 then putfd s2 k (fd_with_wanted (getfd s2 k) (M_IN + M_OUT)) else s2).
  assert (F3 : FF s s3).
  { eapply FF_trans; [apply prologue_FF|]. eapply FF_trans; [apply (putfd_FF s1 k)|].
    unfold s3. destruct (orig =? 0); [apply putfd_FF|apply FF_refl]. }
  assert (P : exists r failed, (if is_epoll s3 then (let '(s1, fl) := epoll_flush_one_ s3 k in (R s1, fl))
                                else poll_notify_fd_sync s3 k) = (r, failed) /\ FFr s3 r).
  { destruct (is_epoll s3).
    - destruct (epoll_flush_one_ s3 k) as [s4 fl] eqn:E. exists (R s4), fl. split; [reflexivity|].
      apply (flush_one__FF _ _ _ _ E).
    - destruct (poll_notify_fd_sync s3 k) as [r fl] eqn:E. exists r, fl. split; [reflexivity|].
      pose proof (poll_notify_sync_FF s3 k) as Q. rewrite E in Q. exact Q. }
  destruct P as (r & failed & -> & FR).
  destruct failed; cbn [fst].
  - eapply FF_trans; [exact F3|]. apply FFr_bind; [exact FR|]. intros s4 _.
    set (s5 := putfd s4 k _). eapply FF_trans; [apply (putfd_FF s4 k)|].
    fold s5. destruct (is_epoll s5); [apply epoll_unregister_FF|apply FF_refl].
  - eapply FF_trans; [exact F3|]. apply FFr_bind; [exact FR|]. intros s4 _.
    apply FFr_bind.
    + destruct (orig =? 0); [|apply FF_refl]. eapply FF_trans; [apply (putfd_FF s4 k)|apply m_notify_FF].
    + intros s5 _. apply epilogue_FF.
Qed.

(* ---------- kernel steps that keep the clock ---------- *)
Lemma lf_set_kern : forall s k1, clock k1 = clock (kern s) -> lf (set_kern s k1) = lf s.
Proof. intros s k1 C. unfold lf. cbn [heap time time_valid tasks cur epoch tepoch kern set_kern]. rewrite C. reflexivity. Qed.

Lemma F0_set_kern : forall s k1, ksame (kern s) k1 -> F0 s (set_kern s k1).
Proof. intros s k1 (C & _). apply F0_plain; [apply lf_set_kern; exact C|reflexivity]. Qed.

Lemma do_close_F0 : forall s fd, F0 s (do_close s fd).
Proof.
  intros s fd. unfold do_close. destruct (k_close_spec (kern s) fd) as (C & _).
  destruct (k_close (kern s) fd) as [k1 ok]. cbn [fst] in C.
  assert (A : F0 s (set_kern s k1)) by (apply F0_plain; [apply lf_set_kern; exact C|reflexivity]).
  destruct ok; [|exact A]. eapply F0_trans; [exact A|]. split; [reflexivity|apply TrX_emit; exact I].
Qed.

Lemma raw_post_F0 : forall s j, F0 s (raw_post s j).
Proof.
  intros s j. unfold raw_post.
  destruct (raw_is_pipe s j).
  - pose proof (ksame_write (kern s) (rw_wfd s j) 1 0) as K. destruct (k_write (kern s) (rw_wfd s j) 1 0) as [k1 x].
    apply F0_set_kern. exact K.
  - pose proof (ksame_write (kern s) (rw_wfd s j) 8 1) as K. destruct (k_write (kern s) (rw_wfd s j) 8 1) as [k1 x].
    apply F0_set_kern. exact K.
Qed.

Lemma F0_setters : forall s s', lf s' = lf s -> trace s' = trace s -> F0 s s'.
Proof. exact F0_plain. Qed.

Lemma raw_register_F0 : forall s j, F0r s (fst (raw_register s j)).
Proof.
  intros s j. unfold raw_register.
  (* stage 1: eventfd *)
  assert (S1 : exists s1 got failed,
    (if negb (efd_raw s =? 0) then
      match eventfd_grab (kern s) (efd_raw s) with
      | (k1, inl fd, u) => (set_efd (set_kern s k1) (efd_epoll s) u, Some (fd, fd), false)
      | (k1, inr e, u) => (set_efd (set_kern s k1) (efd_epoll s) u, None, negb (is_enosys e))
      end
    else (s, @None (Z * Z), false)) = (s1, got, failed) /\ F0 s s1).
  { destruct (negb (efd_raw s =? 0)); [|exists s, None, false; split; [reflexivity|apply F0_refl]].
    pose proof (ksame_grab (kern s) (efd_raw s)) as K.
    destruct (eventfd_grab (kern s) (efd_raw s)) as [[k1 [fd|e]] u]; cbn [fst] in K; eexists _, _, _; (split; [reflexivity|]);
      (apply F0_plain; [|reflexivity]); destruct K as (C & _);
      unfold lf; cbn [heap time time_valid tasks cur epoch tepoch kern set_kern set_efd]; rewrite C; reflexivity. }
  destruct S1 as (s1 & got & failed & -> & A1).
  destruct failed; cbn [fst]; [exact A1|].
  assert (S2 : exists s2 got2 failed2,
    (match got with
     | Some p => (s1, Some p, false)
     | None =>
        if efd_raw s1 =? 0 then
          match k_pipe (kern s1) with
          | (k1, Some (r, w)) => (set_kern s1 k1, Some (r, w), false)
          | (k1, None) => (set_kern s1 k1, None, true)
          end
        else (s1, None, true)
     end) = (s2, got2, failed2) /\ F0 s1 s2).
  { destruct got as [p|]; [exists s1, (Some p), false; split; [reflexivity|apply F0_refl]|].
    destruct (efd_raw s1 =? 0); [|exists s1, None, true; split; [reflexivity|apply F0_refl]].
    pose proof (ksame_pipe (kern s1)) as K.
    destruct (k_pipe (kern s1)) as [k1 [[r w]|]]; cbn [fst] in K; eexists _, _, _; (split; [reflexivity|apply F0_set_kern; exact K]). }
  destruct S2 as (s2 & got2 & failed2 & -> & A2).
  pose proof (F0_trans _ _ _ A1 A2) as A12.
  destruct got2 as [[rfd wfd]|]; cbn [fst]; [|exact A12].
  eapply F0_trans; [exact A12|]. apply F0r_bind.
  - eapply F0_trans; [apply FF_F0; apply (putfd_FF s2 (RAW_KEY j))|]. apply FFr_F0r. apply fd_register_FF.
  - intros s3 _. apply F0_plain; reflexivity.
Qed.

Lemma raw_unregister_F0 : forall s j, F0r s (raw_unregister s j).
Proof.
  intros s j. unfold raw_unregister. apply F0r_bind; [apply FFr_F0r; apply fd_unregister_FF|].
  intros s1 _. unfold F0r. cbn [res_state].
  set (s2 := do_close s1 (rw_rfd s1 j)).
  assert (A2 : F0 s1 s2) by apply do_close_F0.
  set (s3 := if raw_is_pipe s2 j then do_close s2 (rw_wfd s2 j) else s2).
  assert (A3 : F0 s2 s3) by (unfold s3; destruct (raw_is_pipe s2 j); [apply do_close_F0|apply F0_refl]).
  eapply F0_trans; [exact A2|]. eapply F0_trans; [exact A3|]. apply F0_plain; reflexivity.
Qed.

Lemma ctl_retry_F0 : forall s op fd ev d s1 r, ctl_retry s op fd ev d = (s1, r) -> F0 s s1.
Proof. intros. apply FF_F0. eapply ctl_retry_FF. eassumption. Qed.

Lemma lf_kern_clock : forall s s', heap s' = heap s -> time s' = time s -> time_valid s' = time_valid s ->
  tasks s' = tasks s -> cur s' = cur s -> epoch s' = epoch s -> tepoch s' = tepoch s ->
  clock (kern s') = clock (kern s) -> lf s' = lf s.
Proof. intros s s' A B C D E F G H. unfold lf. rewrite A, B, C, D, E, F, G, H. reflexivity. Qed.

Lemma event_rx_on_F0 : forall s, F0r s (fst (event_rx_on s)).
Proof.
  intros s. unfold event_rx_on.
  assert (P : F0r s (if active_ref s =? 0 then
      match eventfd_grab (kern s) (efd_epoll s) with
      | (k1, inl fd, u) =>
          let '(k2, _) := k_write k1 fd 8 1 in
          R (set_activefd (set_efd (set_kern s k2) u (efd_raw s)) fd (active_ref s))
      | (k1, inr _, u) =>
          let s := set_efd (set_kern s k1) u (efd_raw s) in
          match k_pipe (kern s) with
          | (k2, Some (r, w)) =>
              let '(k3, wr) := k_write k2 w 1 0 in
              match wr with
              | inl _ => R (set_activewr (set_activefd (set_kern s k3) r (active_ref s)) w)
              | inr _ => halt (set_kern s k3) TFatal
              end
          | (k2, None) => halt (set_kern s k2) TFatal
          end
      end
    else R s)).
  { destruct (active_ref s =? 0); [|apply F0_refl].
    pose proof (ksame_grab (kern s) (efd_epoll s)) as K.
    destruct (eventfd_grab (kern s) (efd_epoll s)) as [[k1 [fd|e]] u]; cbn [fst] in K; destruct K as (C1 & _).
    - pose proof (ksame_write k1 fd 8 1) as K2. destruct (k_write k1 fd 8 1) as [k2 x]. cbn [fst] in K2. destruct K2 as (C2 & _).
      apply F0_plain; [|reflexivity]. apply lf_kern_clock; try reflexivity. cbn. congruence.
    - cbv zeta. cbn [kern set_efd set_kern].
      pose proof (ksame_pipe k1) as K2. destruct (k_pipe k1) as [k2 [[r w]|]]; cbn [fst] in K2; destruct K2 as (C2 & _).
      + pose proof (ksame_write k2 w 1 0) as K3. destruct (k_write k2 w 1 0) as [k3 wr]. cbn [fst] in K3. destruct K3 as (C3 & _).
        destruct wr.
        * apply F0_plain; [|reflexivity]. apply lf_kern_clock; try reflexivity. cbn. congruence.
        * match goal with |- F0r s (halt ?X _) => apply (F0_trans s X); [|apply (F0_halt X TFatal); exact I] end.
          apply F0_plain; [|reflexivity]. apply lf_kern_clock; try reflexivity. cbn. congruence.
      + match goal with |- F0r s (halt ?X _) => apply (F0_trans s X); [|apply (F0_halt X TFatal); exact I] end.
        apply F0_plain; [|reflexivity]. apply lf_kern_clock; try reflexivity. cbn. congruence. }
  match goal with |- F0r s (fst (match ?X with R _ => _ | Halt _ => _ end)) => destruct X as [s1|s1] end; cbn [fst].
  - unfold F0r in P. cbn [res_state] in P.
    set (s2 := set_activefd s1 (active_fd s1) (active_ref s1 + 1)).
    destruct (ctl_retry s2 CTL_ADD (active_fd s2) 0 (-1)) as [s3 e] eqn:C.
    pose proof (ctl_retry_F0 _ _ _ _ _ _ _ C) as A3.
    assert (A2 : F0 s1 s2) by (apply F0_plain; reflexivity).
    destruct e; cbn [fst]; unfold F0r; cbn [res_state].
    + eapply F0_trans; [exact P|]. eapply F0_trans; eassumption.
    + eapply F0_trans; [exact P|]. eapply F0_trans; [exact A2|]. eapply F0_trans; [exact A3|]. apply F0_plain; reflexivity.
  - exact P.
Qed.

Lemma event_rx_off_F0 : forall s, F0r s (event_rx_off s).
Proof.
  intros s. unfold event_rx_off.
  destruct (ctl_retry s CTL_DEL (active_fd s) 0 (-1)) as [s1 e] eqn:C.
  pose proof (ctl_retry_F0 _ _ _ _ _ _ _ C) as A1.
  destruct e.
  - eapply F0_trans; [exact A1|]. apply (F0_halt s1 TFatal). exact I.
  - unfold F0r. cbn [res_state]. eapply F0_trans; [exact A1|].
    set (s2 := set_activefd s1 (active_fd s1) (active_ref s1 - 1)).
    assert (A2 : F0 s1 s2) by (apply F0_plain; reflexivity).
    eapply F0_trans; [exact A2|].
    match goal with |- F0 s2 (set_numobjs ?X _) => assert (A3 : F0 s2 X) end.
    { destruct (active_ref s2 =? 0); [|apply F0_refl].
      set (s3 := do_close s2 (active_fd s2)). assert (A3 : F0 s2 s3) by apply do_close_F0.
      eapply F0_trans; [exact A3|]. destruct (active_wr s3 =? -1); [apply F0_refl|].
      eapply F0_trans; [apply do_close_F0|]. apply F0_plain; reflexivity. }
    eapply F0_trans; [exact A3|]. apply F0_plain; reflexivity.
Qed.

Lemma event_register_F0 : forall s j, F0r s (fst (event_register s j)).
Proof.
  intros s j. unfold event_register.
  set (s1 := set_ev (set_numobjs s (numobjs s + 1)) _ _ _).
  assert (A1 : F0 s s1) by (apply F0_plain; reflexivity).
  assert (P : exists r failed,
    (if ev_count (set_numobjs s (numobjs s + 1)) =? 0 then
      let '(r, s_use) :=
        if negb (use_raw s1) then
          if is_epoll s1 then
            match event_rx_on s1 with
            | (R s2, true) => (R (set_ev s2 (ev_count s2) (ev_reg s2) true), true)
            | (R s2, false) => (R s2, false)
            | (Halt s2, _) => (Halt s2, false)
            end
          else (R (set_ev s1 (ev_count s1) (ev_reg s1) true), true)
        else (R s1, true) in
      match r with
      | Halt s2 => (Halt s2, false)
      | R s2 =>
          if use_raw s2 then
            match raw_register s2 KICK_RAW with
            | (R s3, true) =>
                (R (set_numobjs (set_ev s3 (ev_count s3 - 1) (ev_reg s3) (use_raw s3)) (numobjs s3 - 1)), true)
            | (r2, fl) => (r2, fl)
            end
          else (R s2, false)
      end
    else (R s1, false)) = (r, failed) /\ F0r s1 r).
  { destruct (ev_count (set_numobjs s (numobjs s + 1)) =? 0); [|exists (R s1), false; split; [reflexivity|apply F0_refl]].
    assert (Q : exists r0 u0,
      (if negb (use_raw s1) then
          if is_epoll s1 then
            match event_rx_on s1 with
            | (R s2, true) => (R (set_ev s2 (ev_count s2) (ev_reg s2) true), true)
            | (R s2, false) => (R s2, false)
            | (Halt s2, _) => (Halt s2, false)
            end
          else (R (set_ev s1 (ev_count s1) (ev_reg s1) true), true)
        else (R s1, true)) = (r0, u0) /\ F0r s1 r0).
    { destruct (negb (use_raw s1)); [|exists (R s1), true; split; [reflexivity|apply F0_refl]].
      destruct (is_epoll s1); [|eexists _, _; split; [reflexivity|apply F0_plain; reflexivity]].
      pose proof (event_rx_on_F0 s1) as X. destruct (event_rx_on s1) as [[s2|s2] fl]; cbn [fst] in X.
      - destruct fl; eexists _, _; (split; [reflexivity|]); [|exact X].
        eapply F0_trans; [exact X|apply F0_plain; reflexivity].
      - eexists _, _; split; [reflexivity|exact X]. }
    destruct Q as (r0 & u0 & -> & A2).
    destruct r0 as [s2|s2]; [|eexists _, _; split; [reflexivity|exact A2]].
    destruct (use_raw s2); [|eexists _, _; split; [reflexivity|exact A2]].
    pose proof (raw_register_F0 s2 KICK_RAW) as X.
    destruct (raw_register s2 KICK_RAW) as [[s3|s3] fl]; cbn [fst] in X.
    - destruct fl; eexists _, _; (split; [reflexivity|]).
      + eapply F0_trans; [exact A2|]. eapply F0_trans; [exact X|apply F0_plain; reflexivity].
      + eapply F0_trans; [exact A2|exact X].
    - eexists _, _; split; [reflexivity|]. eapply F0_trans; [exact A2|exact X]. }
  destruct P as (r & failed & -> & A2).
  destruct failed; cbn [fst].
  - eapply F0_trans; [exact A1|exact A2].
  - eapply F0_trans; [exact A1|]. apply F0r_bind; [exact A2|]. intros s4 _. apply F0_plain; reflexivity.
Qed.

Lemma event_unregister_F0 : forall s j, F0r s (event_unregister s j).
Proof.
  intros s j. unfold event_unregister.
  match goal with |- F0r s (bind (if ev_count ?S =? 0 then _ else _) _) => set (s1 := S) end.
  assert (A1 : F0 s s1) by (apply F0_plain; reflexivity).
  eapply F0_trans; [exact A1|]. apply F0r_bind.
  - destruct (ev_count s1 =? 0); [|apply F0_refl].
    destruct (use_raw s1); [apply raw_unregister_F0|apply event_rx_off_F0].
  - intros s2 _. apply F0_plain; reflexivity.
Qed.

(* ---------- silent trace extensions and the tracker ---------- *)
Definition with_fails (m : mon) (l : list Z) : mon :=
  {| fails := l;
     a_fd := a_fd m; a_fh := a_fh m; a_ck := a_ck m; a_tm := a_tm m; a_exp := a_exp m; a_tk := a_tk m;
     a_ev := a_ev m; a_evp := a_evp m; a_rw := a_rw m; a_rwp := a_rwp m; a_main := a_main m; a_quit := a_quit m;
     a_clk := a_clk m; a_stale := a_stale m; w_open := w_open m; w_entry := w_entry m; w_call := w_call m;
     w_max := w_max m; w_to := w_to m; w_gnd := w_gnd m; called := called m; expect := expect m; ran := ran m;
     need_call := need_call m; after_eintr := after_eintr m;
     had_ev := had_ev m; ncall := ncall m; spin := spin m; posted_ever := posted_ever m |}.

Definition silent_ext (m m' : mon) : Prop :=
  exists l, m' = with_fails m l /\ forall c, In c l -> In c (fails m) \/ c = 1804 \/ c = 1801.

Lemma silent_refl : forall m, silent_ext m m.
Proof. intros m. exists (fails m). split; [destruct m; reflexivity|auto]. Qed.

Lemma silent_trans : forall a b c, silent_ext a b -> silent_ext b c -> silent_ext a c.
Proof.
  intros a b c (l1 & -> & H1) (l2 & -> & H2). exists l2. split; [reflexivity|].
  intros x X. destruct (H2 x X) as [H|H]; [|auto]. cbn [fails with_fails] in H. auto.
Qed.

Lemma silent_fail : forall m c, c = 1804 \/ c = 1801 -> silent_ext m (m_fail m c).
Proof.
  intros m c C. exists (fails (m_fail m c)). split; [reflexivity|].
  intros x X. apply In_fails_fail in X. destruct X as [X|X]; [auto|subst; auto].
Qed.

Lemma silent_step : forall m e, cs e -> silent_ext m (mon_step m e).
Proof.
  intros m e C. destruct e; try contradiction.
  - apply silent_refl.
  - apply silent_refl.
  - apply silent_refl.
  - apply silent_fail. auto.
  - apply silent_fail. auto.
Qed.

Lemma mst_app : forall s s' l, trace s' = l ++ trace s -> mst s' = fold_left mon_step (rev l) (mst s).
Proof. intros s s' l E. unfold mst, mon_run. rewrite E, rev_app_distr, fold_left_app. reflexivity. Qed.

Lemma silent_fold : forall l m, Forall cs l -> silent_ext m (fold_left mon_step l m).
Proof.
  induction l as [|e l IH]; intros m F; cbn [fold_left]; [apply silent_refl|].
  inversion F; subst. eapply silent_trans; [apply silent_step; eassumption|apply IH; assumption].
Qed.

Lemma TrX_silent : forall s s', TrX s s' -> silent_ext (mst s) (mst s').
Proof.
  intros s s' (l & E & F). rewrite (mst_app _ _ _ E). apply silent_fold.
  apply Forall_rev. exact F.
Qed.

Lemma silent_NF : forall m m' c, silent_ext m m' -> c <> 1804 -> c <> 1801 -> NF c m -> NF c m'.
Proof.
  intros m m' c (l & -> & H) N1 N2 N X. cbn [fails with_fails] in X.
  destruct (H c X) as [Y|[Y|Y]]; [exact (N Y)|exact (N1 Y)|exact (N2 Y)].
Qed.
