(* MethodSel.v -- the poll-method selection of src/iv_fd.c (iv_fd_init_first_thread / consider_poll_method /
   method_is_excluded) on Linux: the methods are considered in the fixed order epoll-timerfd (0), epoll (1),
   ppoll (2), poll (3); a method is skipped iff its exact name is one of the whitespace-separated tokens of
   IV_EXCLUDE_POLL_METHOD (tokens are compared as whole strings; unknown tokens exclude nothing); the first method
   that is not excluded and whose init succeeds is used; if none is left the library aborts.
   Tokens are abstracted to numbers: 0..3 = the four method names, anything else = a string that is not a method name
   (including prefixes / extensions of method names such as "epoll-" or "epoll-timerfd2"). *)
From Coq Require Import List ZArith Bool Lia.
Import ListNotations.
Local Open Scope Z_scope.

Definition mem_z (x : Z) (l : list Z) : bool := existsb (Z.eqb x) l.

(* avail m = the method's init succeeds (epoll_create / timerfd_create work, ...) *)
Definition select (avail : Z -> bool) (excl : list Z) : option Z :=
  find (fun m => negb (mem_z m excl) && avail m) [0; 1; 2; 3].

Lemma mem_z_In : forall x l, mem_z x l = true <-> In x l.
Proof.
  intros x l. unfold mem_z. rewrite existsb_exists. split.
  - intros (y & Hy & E). apply Z.eqb_eq in E. subst. exact Hy.
  - intros H. exists x. split; [exact H|apply Z.eqb_refl].
Qed.

(* the selected method is one of the four, is not excluded and is available *)
Theorem select_sound : forall avail excl m, select avail excl = Some m ->
  In m [0; 1; 2; 3] /\ ~ In m excl /\ avail m = true.
Proof.
  intros avail excl m H. unfold select in H. apply find_some in H. destruct H as (Hin & Hb).
  apply andb_true_iff in Hb. destruct Hb as (Hn & Ha). split; [exact Hin|]. split; [|exact Ha].
  intros Hx. apply mem_z_In in Hx. rewrite Hx in Hn. discriminate.
Qed.

(* it is the FIRST such method in the library's order: every earlier method is excluded or unavailable *)
Theorem select_first : forall avail excl m m', select avail excl = Some m -> 0 <= m' < m ->
  In m' excl \/ avail m' = false.
Proof.
  intros avail excl m m' H R. unfold select in H. cbn [find] in H.
  assert (K : forall k, (negb (mem_z k excl) && avail k) = false -> In k excl \/ avail k = false).
  { intros k E. apply andb_false_iff in E. destruct E as [E|E]; [left|right; exact E].
    apply negb_false_iff in E. apply mem_z_In. exact E. }
  destruct (negb (mem_z 0 excl) && avail 0) eqn:E0; [inversion H; subst; lia|].
  destruct (negb (mem_z 1 excl) && avail 1) eqn:E1.
  { inversion H; subst. assert (m' = 0) by lia. subst. apply K. exact E0. }
  destruct (negb (mem_z 2 excl) && avail 2) eqn:E2.
  { inversion H; subst. assert (C : m' = 0 \/ m' = 1) by lia. destruct C as [->| ->]; apply K; assumption. }
  destruct (negb (mem_z 3 excl) && avail 3) eqn:E3; [|discriminate].
  inversion H; subst. assert (C : m' = 0 \/ m' = 1 \/ m' = 2) by lia.
  destruct C as [->|[->| ->]]; apply K; assumption.
Qed.

(* nothing selected iff every method is excluded or unavailable (the library aborts then) *)
Theorem select_none : forall avail excl, select avail excl = None <->
  forall m, In m [0; 1; 2; 3] -> In m excl \/ avail m = false.
Proof.
  intros avail excl. unfold select. split.
  - intros H m Hm. pose proof (find_none _ _ H m Hm) as E. cbv beta in E.
    apply andb_false_iff in E. destruct E as [E|E]; [left|right; exact E].
    apply negb_false_iff in E. apply mem_z_In. exact E.
  - intros H. destruct (find _ _) eqn:F; [|reflexivity]. exfalso.
    apply find_some in F. destruct F as (Hin & Hb). apply andb_true_iff in Hb. destruct Hb as (Hn & Ha).
    destruct (H z Hin) as [Hx|Hx]; [apply mem_z_In in Hx; rewrite Hx in Hn; discriminate|rewrite Hx in Ha; discriminate].
Qed.

(* tokens that are not method names exclude nothing *)
Theorem select_junk_irrelevant : forall avail excl j, ~ In j [0; 1; 2; 3] ->
  select avail (j :: excl) = select avail excl.
Proof.
  intros avail excl j Hj. unfold select.
  assert (E : forall m, In m [0; 1; 2; 3] -> mem_z m (j :: excl) = mem_z m excl).
  { intros m Hm. unfold mem_z. cbn [existsb].
    replace (m =? j) with false; [reflexivity|]. symmetry. apply Z.eqb_neq. intro X. subst. exact (Hj Hm). }
  cbn [find]. rewrite !E by (cbn; tauto). reflexivity.
Qed.
