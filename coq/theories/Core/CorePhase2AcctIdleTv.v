(* CorePhase2AcctIdleTv.v -- code 1103: when iv_fd_poll_and_run returns and no callback has run
   since the wait, the cached time is still invalid (it was dropped right after the wait). *)
From Coq Require Import List ZArith Bool Lia.
From Ivv Require Import Core.Kernel Core.CoreTypes Core.CoreFd Core.CoreModel Core.CoreSpec Core.Monitors Core.GuardMon.
From Ivv Require Import Core.CoreRelBase Core.CorePhase2FdMon.
From Ivv Require Import Core.CorePhase2AcctTr Core.CorePhase2AcctTr2 Core.CorePhase2AcctMon Core.CorePhase2AcctNc
  Core.CorePhase2AcctIdle Core.CorePhase2AcctIdleLoop.
Import ListNotations.
Local Open Scope Z_scope.

Lemma make_ready_tv : forall s k b, time_valid (make_ready s k b) = time_valid s.
Proof. intros. unfold make_ready. destruct (mem_z k (active s)); reflexivity. Qed.

Lemma activate_tv : forall s k bits, time_valid (activate s k bits) = time_valid s.
Proof.
  intros. unfold activate. cbv zeta.
  repeat match goal with |- context [if ?c then _ else _] => destruct c end; rewrite ?make_ready_tv; reflexivity.
Qed.

Lemma epoll_process_tv : forall evs s re tm, time_valid (fst (fst (epoll_process s evs re tm))) = time_valid s.
Proof.
  induction evs as [|[[fd bits] data] evs IH]; intros s re tm; cbn [epoll_process]; [reflexivity|].
  destruct (data =? -1); [apply IH|]. destruct (_ && _); [apply IH|]. rewrite IH. apply activate_tv.
Qed.

Lemma poll_activate_tv : forall keys revs s, time_valid (poll_activate s keys revs) = time_valid s.
Proof.
  induction keys as [|k keys IH]; intros revs s; cbn [poll_activate]; [reflexivity|].
  destruct revs as [|r revs]; [reflexivity|]. rewrite IH. apply activate_tv.
Qed.

Section Tv.
Variable sc : scenario.

Definition Still (s : core) : Prop := gdn sc s = false /\ idn sc s = true.

Lemma Still_ext : forall (P : tev -> Prop) s s', (forall e, P e -> nrs e) -> TrExt P s s' -> Still s' -> Still s.
Proof. intros P s s' Q T [D H]. exact (idle_ext sc P s s' Q T D H). Qed.

Lemma raw_got_event_tv : forall s j s', raw_got_event sc s j = R s' -> Still s' -> time_valid s' = time_valid s.
Proof.
  intros s j s' E [D H]. unfold raw_got_event in E. cbv zeta in E.
  destruct (k_read (kern s) (rw_rfd s j) _) as [k1 [n|e]].
  - destruct (n =? 0); [unfold halt in E; discriminate E|].
    destruct (j =? KICK_RAW).
    + destruct (run_pending_events_idle sc _ _ E D H) as [_ ->]. reflexivity.
    + exfalso. apply (script_call_idle sc (set_kern s k1) (TCallRaw j) _ s' I E s' ch ch_nrs (TrExt_refl _ _) D H).
  - destruct e; try (unfold halt in E; discriminate E). inversion E; subst. reflexivity.
Qed.

Lemma call_fd_tv : forall s k band h s', call_fd sc s k band h = R s' -> Still s' -> time_valid s' = time_valid s.
Proof.
  intros s k band h s' E S. unfold call_fd in E. destruct h as [hid|]; [|inversion E; reflexivity].
  destruct (1000 <=? hid); [apply (raw_got_event_tv _ _ _ E S)|].
  exfalso. destruct S as [D H].
  apply (script_call_idle sc s (TCallFd k band hid (cookie (getfd s k))) _ s' I E s' ch ch_nrs (TrExt_refl _ _) D H).
Qed.

Lemma dispatch_active_tv : forall fuel s s', dispatch_active sc fuel s = R s' -> Still s' -> time_valid s' = time_valid s.
Proof.
  induction fuel as [|f IH]; intros s s' E S; cbn [dispatch_active] in E; destruct (active s) as [|k rest];
    try (inversion E; reflexivity); try (unfold halt in E; discriminate E).
  cbv zeta in E. set (s1 := set_handled (set_active s rest) (Some k)) in *.
  destruct (if has (ready (getfd s1 k)) M_ERR then call_fd sc s1 k 2 (h_err (getfd s1 k)) else R s1) as [s2|s2] eqn:E1;
    cbn [bind] in E; [|discriminate E].
  destruct (match handled s2 with
            | Some _ => if has (ready (getfd s2 k)) M_IN then call_fd sc s2 k 0 (h_in (getfd s2 k)) else R s2
            | None => R s2 end) as [s3|s3] eqn:E2; cbn [bind] in E; [|discriminate E].
  destruct (match handled s3 with
            | Some _ => if has (ready (getfd s3 k)) M_OUT then call_fd sc s3 k 1 (h_out (getfd s3 k)) else R s3
            | None => R s3 end) as [s4|s4] eqn:E3; cbn [bind] in E; [|discriminate E].
  pose proof (dispatch_active_exth sc f s4) as T4. unfold RExt in T4. rewrite E in T4. cbn [res_state] in T4.
  pose proof (Still_ext ch s4 s' ch_nrs T4 S) as S4.
  assert (T3 : TrExt ch s3 s4).
  { destruct (handled s3); [destruct (has _ M_OUT)|]; try (inversion E3; subst; apply TrExt_refl).
    pose proof (call_fd_exth sc s3 k 1 (h_out (getfd s3 k))) as T. unfold RExt in T. rewrite E3 in T. exact T. }
  pose proof (Still_ext ch s3 s4 ch_nrs T3 S4) as S3.
  assert (T2 : TrExt ch s2 s3).
  { destruct (handled s2); [destruct (has _ M_IN)|]; try (inversion E2; subst; apply TrExt_refl).
    pose proof (call_fd_exth sc s2 k 0 (h_in (getfd s2 k))) as T. unfold RExt in T. rewrite E2 in T. exact T. }
  pose proof (Still_ext ch s2 s3 ch_nrs T2 S3) as S2.
  rewrite (IH s4 s' E S).
  assert (V3 : time_valid s4 = time_valid s3).
  { destruct (handled s3); [destruct (has _ M_OUT)|]; try (inversion E3; subst; reflexivity). apply (call_fd_tv _ _ _ _ _ E3 S4). }
  assert (V2 : time_valid s3 = time_valid s2).
  { destruct (handled s2); [destruct (has _ M_IN)|]; try (inversion E2; subst; reflexivity). apply (call_fd_tv _ _ _ _ _ E2 S3). }
  assert (V1 : time_valid s2 = time_valid s1).
  { destruct (has _ M_ERR); [|inversion E1; subst; reflexivity]. apply (call_fd_tv _ _ _ _ _ E1 S2). }
  rewrite V3, V2, V1. reflexivity.
Qed.

Lemma do_epoll_wait_WH : forall s call mx t r, do_epoll_wait sc s call mx t = WH r -> exists s0, r = Halt s0.
Proof.
  intros s call mx t r. unfold do_epoll_wait. destruct (wait_enter sc s) as [s1|s1]; [|intros E; inversion E; eauto].
  cbv zeta. destruct (mem_z _ _); [discriminate|].
  destruct (k_epoll_sleep _ _ _ _); intros E; inversion E; unfold halt; eauto.
Qed.

Lemma epoll_wait_m_WH : forall s abs mx r, epoll_wait_m sc s abs mx = WH r -> exists s0, r = Halt s0.
Proof.
  intros s abs mx r. unfold epoll_wait_m.
  destruct (pwait2 s).
  - destruct (to_relative s abs) as [s1 rel]. destruct (_ || _); [|apply do_epoll_wait_WH].
    destruct (to_msec _ abs) as [s2 ms]. apply do_epoll_wait_WH.
  - destruct (to_msec s abs) as [s2 ms]. apply do_epoll_wait_WH.
Qed.

Lemma epoll_poll_tv : forall s abs s', fst (epoll_poll sc s abs) = R s' -> Still s' -> time_valid s' = false.
Proof.
  intros s abs s' E S. unfold epoll_poll in E. cbv zeta in E.
  destruct (epoll_flush_pending _ s) as [s1|s1]; [|discriminate E].
  destruct (epoll_wait_m sc s1 abs _) as [s2 evs|s2|r] eqn:EW; cbn [fst] in E.
  - pose proof (epoll_process_tv evs (invalidate_now s2) false false) as V4.
    destruct (epoll_process (invalidate_now s2) evs false false) as [[s4 re] tmr]. cbn [fst] in *.
    assert (V5 : forall s5, (if tmr then match k_read (kern s4) (tfd s4) 8 with
                                    | (k1, inl _) => R (set_kern s4 k1)
                                    | (k1, inr _) => halt (set_kern s4 k1) TFatal
                                    end else R s4) = R s5 -> time_valid s5 = false).
    { intros s5 E5. destruct tmr; [|inversion E5; subst; exact V4].
      destruct (k_read (kern s4) (tfd s4) 8) as [k1 [x|e]]; [inversion E5; subst; exact V4|unfold halt in E5; discriminate E5]. }
    destruct (if tmr then _ else R s4) as [s5|s5]; cbn [bind] in E; [|discriminate E].
    specialize (V5 s5 eq_refl). destruct re; [|inversion E; subst; exact V5].
    destruct S as [D H]. destruct (run_pending_events_idle sc _ _ E D H) as [_ ->]. exact V5.
  - inversion E; subst. reflexivity.
  - destruct (epoll_wait_m_WH _ _ _ _ EW) as [s0 ->]. discriminate E.
Qed.

Lemma do_poll_wait_tv : forall s call t s', fst (do_poll_wait sc s call t) = R s' -> time_valid s' = false.
Proof.
  intros s call t s' E. unfold do_poll_wait in E. destruct (wait_enter sc s) as [s1|s1]; [|discriminate E]. cbv zeta in E.
  destruct (mem_z _ _); cbn [fst] in E; [inversion E; reflexivity|].
  destruct (k_poll_sleep _ _ _) as [k1 revs|]; cbn [fst] in E; [|unfold halt in E; discriminate E].
  inversion E; subst. rewrite poll_activate_tv. reflexivity.
Qed.

Lemma poll_poll_tv : forall s abs s', fst (poll_poll sc s abs) = R s' -> time_valid s' = false.
Proof.
  intros s abs s' E. unfold poll_poll in E. destruct (method s =? M_PP).
  - destruct (to_relative s abs) as [s1 rel]. destruct (no_ppoll _); [|apply (do_poll_wait_tv _ _ _ _ E)].
    destruct (to_msec _ abs) as [s2 ms]. apply (do_poll_wait_tv _ _ _ _ E).
  - destruct (to_msec s abs) as [s2 ms]. apply (do_poll_wait_tv _ _ _ _ E).
Qed.

Lemma m_poll_tv : forall s abs s', fst (m_poll sc s abs) = R s' -> Still s' -> time_valid s' = false.
Proof.
  intros s abs s' E S. unfold m_poll in E. destruct (is_epoll s); [apply (epoll_poll_tv _ _ _ E S)|apply (poll_poll_tv _ _ _ E)].
Qed.

(* iv_fd_poll_and_run *)
Lemma poll_and_run_tv : forall s abs s', fst (poll_and_run sc s abs) = R s' -> Still s' -> time_valid s' = false.
Proof.
  intros s abs s' E ST. unfold poll_and_run in E.
  assert (FIN : forall r, bind r (fun s0 => dispatch_active sc (S (length (active s0))) s0) = R s' ->
            (forall s1, r = R s1 -> Still s1 -> time_valid s1 = false) -> time_valid s' = false).
  { intros r E1 K. destruct r as [s1|s1]; cbn [bind] in E1; [|discriminate E1].
    pose proof (dispatch_active_exth sc (S (length (active s1))) s1) as T. unfold RExt in T. rewrite E1 in T. cbn [res_state] in T.
    pose proof (Still_ext ch s1 s' ch_nrs T ST) as S1.
    rewrite (dispatch_active_tv _ _ _ E1 ST). apply (K s1 eq_refl S1). }
  destruct (method s =? M_ET).
  - destruct (timeout_check s abs) as [[s1|s1] b]; [|cbn [fst bind] in E; discriminate E].
    destruct b.
    + destruct (m_poll sc s1 None) as [r rt] eqn:MP. cbn [fst] in E. apply (FIN _ E).
      intros s2 E2 S2. destruct r as [s3|s3]; cbn [bind] in E2; [|discriminate E2]. inversion E2; subst s2.
      assert (V3 : Still s3 -> time_valid s3 = false) by (intros S3; apply (m_poll_tv s1 None s3); [rewrite MP; reflexivity|exact S3]).
      destruct rt; [|apply V3; exact S2]. cbn [time_valid set_last_abs]. apply V3.
      destruct S2 as [D H]. split; [rewrite <- D|rewrite <- H]; unfold gdn, idn; rewrite (gst_trace sc s3 (set_last_abs s3 (last_abs s3) 0) eq_refl); reflexivity.
    + destruct (m_poll sc s1 abs) as [r rt] eqn:MP. cbn [fst] in E. apply (FIN _ E).
      intros s2 -> S2. apply (m_poll_tv s1 abs s2); [rewrite MP; reflexivity|exact S2].
  - destruct (m_poll sc s abs) as [r rt] eqn:MP. cbn [fst] in E. apply (FIN _ E).
    intros s2 -> S2. apply (m_poll_tv s abs s2); [rewrite MP; reflexivity|exact S2].
Qed.

End Tv.
