(* CorePhase2AcctQuiet.v -- "no callback ran": for any state predicate Q that is refuted by a
   callback event and inherited backwards along callback-free trace extensions, a dispatcher that
   ends in a Q state has done nothing, and every handler it tried was a raw-event handler whose
   descriptor had nothing to read. *)
From Coq Require Import List ZArith Bool Lia.
From Ivv Require Import Core.Kernel Core.CoreTypes Core.CoreFd Core.CoreModel Core.CoreSpec Core.Monitors.
From Ivv Require Import Core.CoreRelBase Core.CorePhase2FdBase.
From Ivv Require Import Core.CorePhase2AcctTr Core.CorePhase2AcctTr2 Core.CorePhase2AcctMon Core.CorePhase2AcctNc.
Import ListNotations.
Local Open Scope Z_scope.

(* what a dispatcher that ran no callback leaves alone *)
Record QF (s s' : core) : Prop := {
  qf_kern : kern s' = kern s; qf_fdt : fdt s' = fdt s; qf_trace : trace s' = trace s;
  qf_tfd : tfd s' = tfd s; qf_method : method s' = method s; qf_la : last_abs s' = last_abs s;
  qf_lac : last_abs_count s' = last_abs_count s;
  qf_rw : rw_reg s' = rw_reg s; qf_rf : rw_rfd s' = rw_rfd s; qf_wf : rw_wfd s' = rw_wfd s; qf_er : efd_raw s' = efd_raw s;
  qf_evp : ev_pending s' = ev_pending s; qf_time : time s' = time s; qf_tv : time_valid s' = time_valid s;
  qf_hd : handled s' = handled s \/ True; qf_ac : active s' = active s \/ True }.

(* the same, the dispatch list and the current descriptor included *)
Definition QFH (s s' : core) : Prop := QF s s' /\ handled s' = handled s /\ active s' = active s.

Lemma QF_refl : forall s, QF s s. Proof. intros; constructor; auto. Qed.
Lemma QF_trans : forall a b c, QF a b -> QF b c -> QF a c.
Proof. intros a b c [] []. constructor; try congruence; auto. Qed.
Lemma QFH_refl : forall s, QFH s s. Proof. intros; split; [apply QF_refl|split; reflexivity]. Qed.
Lemma QFH_trans : forall a b c, QFH a b -> QFH b c -> QFH a c.
Proof. intros a b c (A & A1 & A2) (B & B1 & B2). split; [eapply QF_trans; eassumption|split; congruence]. Qed.

Ltac qf_plain := constructor; auto.

Section Quiet.
Variable sc : scenario.
Variable Q : core -> Prop.
Hypothesis HQ_ext : forall (P : tev -> Prop) s s', (forall e, P e -> nr e) -> TrExt P s s' -> Q s' -> Q s.
Hypothesis HQ_call : forall s e, is_call e -> Q (emit s e) -> False.

Lemma ch_nr' : forall e, ch e -> nr e. Proof. intros e. destruct e; cbn; tauto. Qed.

Lemma script_call_q : forall s e key s', is_call e -> run_script sc (emit s e) key = R s' ->
  forall s'' (P : tev -> Prop), (forall x, P x -> nr x) -> TrExt P s' s'' -> Q s'' -> False.
Proof.
  intros s e key s' C E s'' P QP T H.
  pose proof (run_script_exth sc (emit s e) key) as T1. unfold RExt in T1. rewrite E in T1. cbn [res_state] in T1.
  apply (HQ_call s e C). apply (HQ_ext nr (emit s e) s'' (fun x H => H)); [|exact H].
  eapply TrExt_trans; [eapply TrExt_weaken; [exact ch_nr'|exact T1]|eapply TrExt_weaken; [exact QP|exact T]].
Qed.

Lemma events_loop_q : forall fuel s s', events_loop sc fuel s = R s' -> Q s' -> ev_batch s = [] /\ s' = s.
Proof.
  intros fuel s s' E H. destruct fuel as [|f]; cbn [events_loop] in E; destruct (ev_batch s) as [|ie rest] eqn:B;
    try (inversion E; subst; split; reflexivity); try (unfold halt in E; discriminate E).
  exfalso. cbv zeta in E. set (s1 := set_evlists s (ev_pending s) rest) in *.
  destruct (run_script sc (emit s1 (TCallEvent ie)) (HK_E + ie)) as [s2|s2] eqn:RS; cbn [bind] in E; [|discriminate E].
  assert (T : TrExt ch s2 s').
  { destruct rest; [inversion E; subst; apply TrExt_refl|].
    pose proof (events_loop_exth sc f s2) as T. unfold RExt in T. rewrite E in T. exact T. }
  apply (script_call_q s1 (TCallEvent ie) _ s2 I RS s' ch ch_nr' T H).
Qed.

Lemma run_pending_events_q : forall s s', run_pending_events sc s = R s' -> Q s' -> ev_pending s = [] /\ s' = s.
Proof.
  intros s s' E H. unfold run_pending_events in E. destruct (ev_pending s) as [|p0 p] eqn:B; [inversion E; subst; split; reflexivity|].
  exfalso. destruct (events_loop_q _ _ _ E H) as [X _]. discriminate X.
Qed.

(* a raw-event handler that ran no callback: nothing to read, or the internal event with nothing pending *)
Definition RawQuiet (s : core) (j : Z) : Prop :=
  match k_read (kern s) (rw_rfd s j) (if raw_is_pipe s j then 1024 else 8) with
  | (_, inl n) => n <> 0 /\ j = KICK_RAW /\ ev_pending s = []
  | (k1, inr EAGAIN) => True
  | _ => False
  end.

Lemma raw_got_event_q : forall s j s', raw_got_event sc s j = R s' -> Q s' ->
  RawQuiet s j /\ QFH (set_kern s (fst (k_read (kern s) (rw_rfd s j) (if raw_is_pipe s j then 1024 else 8)))) s'.
Proof.
  intros s j s' E H. unfold raw_got_event in E. cbv zeta in E. unfold RawQuiet.
  destruct (k_read (kern s) (rw_rfd s j) _) as [k1 [n|e]]; cbn [fst].
  - destruct (Z.eqb_spec n 0) as [Z0|NZ]; [unfold halt in E; discriminate E|].
    destruct (Z.eqb_spec j KICK_RAW) as [EJ|NJ].
    + destruct (run_pending_events_q _ _ E H) as [PE ->]. split; [split; [exact NZ|split; [exact EJ|exact PE]]|apply QFH_refl].
    + exfalso. apply (script_call_q (set_kern s k1) (TCallRaw j) _ s' I E s' ch ch_nr' (TrExt_refl _ _) H).
  - destruct e; try (unfold halt in E; discriminate E). inversion E; subst. split; [exact I|apply QFH_refl].
Qed.

Lemma k_read_eagain : forall k fd c k1, k_read k fd c = (k1, inr EAGAIN) -> k1 = k.
Proof.
  intros k fd c k1. unfold k_read.
  repeat match goal with |- context [match ?x with _ => _ end] => destruct x end; intros E; inversion E; reflexivity.
Qed.

Definition toread (s : core) (j : Z) : Z := if raw_is_pipe s j then 1024 else 8.

(* the internal raw event has nothing to read *)
Definition KickDry (s : core) : Prop :=
  rw_reg s KICK_RAW = true -> forall kx n, k_read (kern s) (rw_rfd s KICK_RAW) (toread s KICK_RAW) <> (kx, inl n).

Definition Dry (s : core) (j : Z) : Prop := snd (k_read (kern s) (rw_rfd s j) (toread s j)) = inr EAGAIN.

Lemma KickDry_QF : forall s s', QF s s' -> KickDry s -> KickDry s'.
Proof. intros s s' F K R kx n. unfold toread, raw_is_pipe. rewrite (qf_kern _ _ F), (qf_rf _ _ F), (qf_wf _ _ F). apply K. rewrite <- (qf_rw _ _ F). exact R. Qed.

Lemma raw_got_event_q2 : forall s j s', KickDry s -> rw_reg s j = true -> raw_got_event sc s j = R s' -> Q s' -> Dry s j /\ QFH s s'.
Proof.
  intros s j s' KD RJ E H. destruct (raw_got_event_q s j s' E H) as [RQ F]. unfold RawQuiet, Dry, toread in *.
  destruct (k_read (kern s) (rw_rfd s j) (if raw_is_pipe s j then 1024 else 8)) as [k1 [n|e]] eqn:RD; cbn [fst snd] in *.
  - exfalso. destruct RQ as (_ & EJ & _). subst j. exact (KD RJ k1 n RD).
  - destruct e; try contradiction. split; [reflexivity|]. apply k_read_eagain in RD. subst k1.
    eapply QFH_trans; [|exact F]. split; [constructor; auto|split; reflexivity].
Qed.

Lemma call_fd_q : forall s k band h s', KickDry s -> (forall hid, h = Some hid -> 1000 <= hid -> rw_reg s (hid - 1000) = true) ->
  call_fd sc s k band h = R s' -> Q s' ->
  QFH s s' /\ (forall hid, h = Some hid -> 1000 <= hid /\ Dry s (hid - 1000)).
Proof.
  intros s k band h s' KD HR E H. unfold call_fd in E. destruct h as [hid|]; [|inversion E; subst; split; [apply QFH_refl|discriminate]].
  destruct (Z.leb_spec 1000 hid) as [L|L].
  - destruct (raw_got_event_q2 _ _ _ KD (HR hid eq_refl L) E H) as [D F]. split; [exact F|]. intros h0 E0. inversion E0; subst. split; assumption.
  - exfalso. apply (script_call_q s (TCallFd k band hid (cookie (getfd s k))) _ s' I E s' ch ch_nr' (TrExt_refl _ _) H).
Qed.

(* iv_fd_poll_and_run's dispatch loop *)
Definition NoFire (s : core) (k : Z) : Prop :=
  forall b hid, 0 <= b <= 2 -> has (ready (fdt s k)) (bbit b) = true -> hnd (fdt s k) b = Some hid ->
  1000 <= hid /\ Dry s (hid - 1000).

Lemma Dry_QF : forall s s' j, QF s s' -> Dry s' j -> Dry s j.
Proof. intros s s' j F D. unfold Dry, toread, raw_is_pipe in *. rewrite (qf_kern _ _ F), (qf_rf _ _ F), (qf_wf _ _ F) in D. exact D. Qed.

Lemma NoFire_QF : forall s s' k, QF s s' -> NoFire s' k -> NoFire s k.
Proof.
  intros s s' k F N b hid B R H. rewrite <- (qf_fdt _ _ F) in R, H. destruct (N b hid B R H) as [L D].
  split; [exact L|apply (Dry_QF s s' _ F D)].
Qed.

Definition RawH (s : core) : Prop :=
  forall k, In k (active s) -> forall b hid, 0 <= b <= 2 -> hnd (fdt s k) b = Some hid -> 1000 <= hid -> rw_reg s (hid - 1000) = true.

Lemma dispatch_active_q : forall fuel s s', KickDry s -> RawH s -> dispatch_active sc fuel s = R s' -> Q s' ->
  QF s s' /\ (forall k, In k (active s) -> NoFire s k).
Proof.
  induction fuel as [|f IH]; intros s s' KD HR E H; cbn [dispatch_active] in E; destruct (active s) as [|k rest] eqn:AC;
    try (inversion E; subst; split; [apply QF_refl|intros k0 []]); try (unfold halt in E; discriminate E).
  cbv zeta in E. set (s1 := set_handled (set_active s rest) (Some k)) in *.
  assert (F01 : QF s s1) by (constructor; auto).
  pose proof (KickDry_QF s s1 F01 KD) as KD1.
  assert (HRk : forall s0, QF s s0 -> forall b hid, 0 <= b <= 2 -> hnd (fdt s0 k) b = Some hid -> 1000 <= hid -> rw_reg s0 (hid - 1000) = true).
  { intros s0 F0 b hid B HH L. rewrite (qf_rw _ _ F0). rewrite (qf_fdt _ _ F0) in HH. apply (HR k ltac:(rewrite AC; left; reflexivity) b hid B HH L). }
  destruct (if has (ready (getfd s1 k)) M_ERR then call_fd sc s1 k 2 (h_err (getfd s1 k)) else R s1) as [s2|s2] eqn:E1;
    cbn [bind] in E; [|discriminate E].
  destruct (match handled s2 with
            | Some _ => if has (ready (getfd s2 k)) M_IN then call_fd sc s2 k 0 (h_in (getfd s2 k)) else R s2
            | None => R s2 end) as [s3|s3] eqn:E2; cbn [bind] in E; [|discriminate E].
  destruct (match handled s3 with
            | Some _ => if has (ready (getfd s3 k)) M_OUT then call_fd sc s3 k 1 (h_out (getfd s3 k)) else R s3
            | None => R s3 end) as [s4|s4] eqn:E3; cbn [bind] in E; [|discriminate E].
  pose proof (dispatch_active_exth sc f s4) as T4. unfold RExt in T4. rewrite E in T4. cbn [res_state] in T4.
  pose proof (HQ_ext ch s4 s' ch_nr' T4 H) as Q4.
  assert (T3 : TrExt ch s3 s4).
  { destruct (handled s3); [destruct (has _ M_OUT)|]; try (inversion E3; subst; apply TrExt_refl).
    pose proof (call_fd_exth sc s3 k 1 (h_out (getfd s3 k))) as T. unfold RExt in T. rewrite E3 in T. exact T. }
  pose proof (HQ_ext ch s3 s4 ch_nr' T3 Q4) as Q3.
  assert (T2 : TrExt ch s2 s3).
  { destruct (handled s2); [destruct (has _ M_IN)|]; try (inversion E2; subst; apply TrExt_refl).
    pose proof (call_fd_exth sc s2 k 0 (h_in (getfd s2 k))) as T. unfold RExt in T. rewrite E2 in T. exact T. }
  pose proof (HQ_ext ch s2 s3 ch_nr' T2 Q3) as Q2.
  (* the error band *)
  assert (A1 : QFH s1 s2 /\ (has (ready (fdt s1 k)) M_ERR = true -> forall hid, h_err (fdt s1 k) = Some hid -> 1000 <= hid /\ Dry s1 (hid - 1000))).
  { unfold getfd in E1. destruct (has (ready (fdt s1 k)) M_ERR); [|inversion E1; subst; split; [apply QFH_refl|discriminate]].
    destruct (call_fd_q _ _ _ _ _ KD1 (fun hid HH L => HRk s1 F01 2 hid ltac:(lia) HH L) E1 Q2) as [F D]. split; [exact F|intros _; exact D]. }
  destruct A1 as [(F12 & HD12 & AC12) D1]. pose proof (KickDry_QF s1 s2 F12 KD1) as KD2.
  assert (HD2 : handled s2 = Some k) by (rewrite HD12; reflexivity).
  rewrite HD2 in E2.
  assert (A2 : QFH s2 s3 /\ (has (ready (fdt s2 k)) M_IN = true -> forall hid, h_in (fdt s2 k) = Some hid -> 1000 <= hid /\ Dry s2 (hid - 1000))).
  { unfold getfd in E2. destruct (has (ready (fdt s2 k)) M_IN); [|inversion E2; subst; split; [apply QFH_refl|discriminate]].
    destruct (call_fd_q _ _ _ _ _ KD2 (fun hid HH L => HRk s2 (QF_trans _ _ _ F01 F12) 0 hid ltac:(lia) HH L) E2 Q3) as [F D]. split; [exact F|intros _; exact D]. }
  destruct A2 as [(F23 & HD23 & AC23) D2]. pose proof (KickDry_QF s2 s3 F23 KD2) as KD3.
  assert (HD3 : handled s3 = Some k) by (rewrite HD23; exact HD2).
  rewrite HD3 in E3.
  assert (A3 : QFH s3 s4 /\ (has (ready (fdt s3 k)) M_OUT = true -> forall hid, h_out (fdt s3 k) = Some hid -> 1000 <= hid /\ Dry s3 (hid - 1000))).
  { unfold getfd in E3. destruct (has (ready (fdt s3 k)) M_OUT); [|inversion E3; subst; split; [apply QFH_refl|discriminate]].
    destruct (call_fd_q _ _ _ _ _ KD3 (fun hid HH L => HRk s3 (QF_trans _ _ _ (QF_trans _ _ _ F01 F12) F23) 1 hid ltac:(lia) HH L) E3 Q4) as [F D]. split; [exact F|intros _; exact D]. }
  destruct A3 as [(F34 & HD34 & AC34) D3]. pose proof (KickDry_QF s3 s4 F34 KD3) as KD4.
  assert (F04 : QF s s4) by (apply (QF_trans _ s1); [exact F01|]; apply (QF_trans _ s2); [exact F12|]; apply (QF_trans _ s3); assumption).
  assert (AC4 : active s4 = rest) by (rewrite AC34, AC23, AC12; reflexivity).
  assert (HR4 : RawH s4).
  { intros k0 IN b hid B HH L. rewrite (qf_rw _ _ F04). rewrite (qf_fdt _ _ F04) in HH. rewrite AC4 in IN.
    apply (HR k0 ltac:(rewrite AC; right; exact IN) b hid B HH L). }
  destruct (IH s4 s' KD4 HR4 E H) as [F4 N4].
  split; [apply (QF_trans _ s4); assumption|].
  intros k0 [<-|IN].
  - intros b hid B R HH. assert (HB : b = 0 \/ b = 1 \/ b = 2) by lia.
    assert (F02 : QF s s2) by (apply (QF_trans _ s1); assumption).
    assert (F03 : QF s s3) by (apply (QF_trans _ s2); assumption).
    destruct HB as [->|[->| ->]]; unfold bbit, hnd in R, HH; cbn [Z.eqb Pos.eqb] in R, HH.
    + rewrite <- (qf_fdt _ _ F02) in R, HH. destruct (D2 R hid HH) as [L D]. split; [exact L|apply (Dry_QF s s2 _ F02 D)].
    + rewrite <- (qf_fdt _ _ F03) in R, HH. destruct (D3 R hid HH) as [L D]. split; [exact L|apply (Dry_QF s s3 _ F03 D)].
    + rewrite <- (qf_fdt _ _ F01) in R, HH. destruct (D1 R hid HH) as [L D]. split; [exact L|apply (Dry_QF s s1 _ F01 D)].
  - apply (NoFire_QF s s4 k0 F04). apply N4. rewrite AC4. exact IN.
Qed.

End Quiet.
