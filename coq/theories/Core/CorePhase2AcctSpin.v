(* CorePhase2AcctSpin.v -- code 711, tracker side: had_ev / ncall / spin.  An iteration is
   "eventful-idle" (EI) when its wait reported something and no callback has run since. *)
From Coq Require Import List ZArith Bool Lia.
From Ivv Require Import Core.Kernel Core.CoreTypes Core.CoreFd Core.Monitors Core.CoreRelMon Core.CorePhase2AcctMon Core.CorePhase2AcctNc.
Import ListNotations.
Local Open Scope Z_scope.

Definition S11 : list Z := [711].
Definition sp3 (m : mon) : bool * Z * Z := (had_ev m, ncall m, spin m).

Lemma sp3_chk : forall m b c, sp3 (chk m b c) = sp3 m.
Proof. intros. unfold chk, m_fail. destruct b; reflexivity. Qed.

Lemma sp3_on_call : forall m, sp3 (on_call m) = (had_ev m, ncall m + 1, spin m).
Proof.
  intros. unfold on_call. cbv zeta. unfold sp3. cbn [had_ev ncall spin m_iter m_spin].
  pose proof (sp3_chk m (a_main m) 709) as E. unfold sp3 in E. injection E as E1 E2 E3. rewrite E1, E2, E3. reflexivity.
Qed.

Ltac sp3_strip := repeat first
  [ rewrite sp3_chk
  | match goal with |- sp3 (?f ?X _ _ _ _) = _ => change (sp3 (f X _ _ _ _)) with (sp3 X) end ].

Lemma sp3_m_iter : forall m a b c d, sp3 (m_iter m a b c d) = sp3 m. Proof. reflexivity. Qed.
Lemma sp3_m_tms : forall m a b, sp3 (m_tms m a b) = sp3 m. Proof. reflexivity. Qed.
Lemma sp3_m_tks : forall m a b, sp3 (m_tks m a b) = sp3 m. Proof. reflexivity. Qed.
Lemma sp3_m_evs : forall m a b, sp3 (m_evs m a b) = sp3 m. Proof. reflexivity. Qed.
Lemma sp3_m_rws : forall m a b, sp3 (m_rws m a b) = sp3 m. Proof. reflexivity. Qed.
Lemma sp3_m_fds : forall m a b c, sp3 (m_fds m a b c) = sp3 m. Proof. reflexivity. Qed.
Lemma sp3_m_loop : forall m a b c d, sp3 (m_loop m a b c d) = sp3 m. Proof. reflexivity. Qed.
Lemma sp3_m_wait : forall m a b c d e f, sp3 (m_wait m a b c d e f) = sp3 m. Proof. reflexivity. Qed.

Ltac sp3s := rewrite ?sp3_m_iter, ?sp3_m_tms, ?sp3_m_tks, ?sp3_m_evs, ?sp3_m_rws, ?sp3_m_fds, ?sp3_m_loop, ?sp3_m_wait, ?sp3_chk.

Lemma sp3_call : forall m e, is_call e -> sp3 (mon_step m e) = (had_ev m, ncall m + 1, spin m).
Proof.
  intros m e C. destruct e; try contradiction; unfold mon_step; cbv zeta; repeat sp3s; apply sp3_on_call.
Qed.

Lemma sp3_ret : forall m n fds clk, sp3 (mon_step m (TRet (Some n) fds clk)) = (0 <? n, 0, spin m).
Proof.
  intros. lazy beta iota delta [mon_step]. repeat lift_let.
  assert (S00 : sp3 m = sp3 m) by reflexivity.
  repeat match goal with
  | x := chk ?y _ _ : mon, H : sp3 ?z = sp3 m |- _ =>
      constr_eq y z; assert (sp3 x = sp3 m) by (unfold x; rewrite sp3_chk; exact H); clearbody x
  | x := (if _ then _ else ?y) : mon, H : sp3 ?z = sp3 m |- _ =>
      constr_eq y z;
      assert (sp3 x = sp3 m) by (unfold x;
         match goal with |- sp3 (if ?c then _ else _) = _ => destruct c end; [|exact H];
         match goal with |- sp3 (match ?c with _ => _ end) = _ => destruct c end; [|exact H]; cbv zeta;
         rewrite !sp3_chk; exact H);
      clearbody x
  end.
  repeat match goal with x := _ : mon |- _ => 
    first [ assert (sp3 x = sp3 m) by (unfold x; repeat sp3s; assumption); clearbody x ] end.
  rewrite sp3_m_iter.
  match goal with x := m_spin ?Y _ _ _ _ : mon, HY : sp3 ?Y = sp3 m |- _ =>
    unfold x; unfold sp3 in HY; injection HY as _ _ HSP; unfold sp3; cbn [had_ev ncall spin m_spin]; rewrite HSP end.
  reflexivity.
Qed.

Definition spc (m : mon) : Z := if had_ev m && (ncall m =? 0) then spin m + 1 else 0.

Lemma sp3_close : forall m, sp3 (close_iteration m) = (false, 0, spc m).
Proof.
  intros. unfold close_iteration. cbv zeta. repeat sp3s.
  unfold sp3. cbn [had_ev ncall spin m_spin]. unfold spc.
  pose proof (sp3_chk (chk m (match expect m with [] => true | _ :: _ => false end) 204) (negb (need_call (chk m (match expect m with [] => true | _ :: _ => false end) 204))) 707) as E1.
  pose proof (sp3_chk m (match expect m with [] => true | _ :: _ => false end) 204) as E0.
  unfold sp3 in E0, E1. injection E0 as A1 A2 A3. injection E1 as B1 B2 B3. rewrite B1, B2, B3, A1, A2, A3. reflexivity.
Qed.

Lemma sp3_wait : forall m n c mx t i g, sp3 (mon_step m (TWait n c mx t i g)) = (false, 0, spc m).
Proof. intros. unfold mon_step. cbv zeta. repeat sp3s. apply sp3_close. Qed.
Lemma sp3_end : forall m q n, sp3 (mon_step m (TEnd q n)) = (false, 0, spc m).
Proof. intros. unfold mon_step. cbv zeta. repeat sp3s. apply sp3_close. Qed.

Lemma sp3_action : forall m a, sp3 (mon_action m a) = sp3 m.
Proof. intros m a. destruct a; reflexivity. Qed.

Definition plain11 (e : tev) : Prop :=
  match e with
  | TCallFd _ _ _ _ | TCallTimer _ _ | TCallTask _ | TCallEvent _ | TCallRaw _ => False
  | TWait _ _ _ _ _ _ | TEnd _ _ | TRet (Some _) _ _ => False
  | _ => True
  end.

Lemma sp3_plain : forall m e, plain11 e -> sp3 (mon_step m e) = sp3 m.
Proof.
  intros m e P. destruct e; try contradiction; try reflexivity.
  - destruct n; [contradiction|]. unfold mon_step. cbv zeta. repeat sp3s. reflexivity.
  - cbn [mon_step]. apply sp3_action.
  - unfold mon_step. repeat match goal with |- context [if ?c then _ else _] => destruct c end; reflexivity.
  - unfold mon_step. apply sp3_chk.
  - unfold mon_step. apply sp3_chk.
  - unfold mon_step. cbv zeta. repeat sp3s. reflexivity.
Qed.

(* ---------- code 711 ---------- *)
Lemma Sub_close11 : forall m l, spc m < 2 -> In 204 l -> In 707 l -> Sub (close_iteration m) m l.
Proof.
  intros m l SP I1 I2. unfold close_iteration. cbv zeta.
  repeat strip.
  match goal with |- Sub (chk ?X ?b 711) m l => assert (B : b = true); [|rewrite B; unfold chk at 1] end.
  { apply Z.ltb_lt.
    pose proof (sp3_chk (chk m (match expect m with [] => true | _ :: _ => false end) 204) (negb (need_call (chk m (match expect m with [] => true | _ :: _ => false end) 204))) 707) as E1.
    pose proof (sp3_chk m (match expect m with [] => true | _ :: _ => false end) 204) as E0.
    unfold sp3 in E0, E1. injection E0 as A1 A2 A3. injection E1 as B1 B2 B3. rewrite B1, B2, B3, A1, A2, A3. exact SP. }
  apply Sub_chk_t; [exact I2|]. apply Sub_chk; exact I1.
Qed.

Lemma clean11_wait : forall m n c mx t i g, spc m < 2 -> Clean S11 m -> Clean S11 (mon_step m (TWait n c mx t i g)).
Proof.
  intros m n c mx t i g SP C x H.
  assert (S : Sub (mon_step m (TWait n c mx t i g)) m [204; 707; 201; 704]).
  { unfold mon_step. cbv zeta. repeat strip.
    apply Sub_chk_t; [cbn; tauto|]. apply Sub_chk_t; [cbn; tauto|]. apply Sub_close11; [exact SP|cbn; tauto|cbn; tauto]. }
  destruct (S x H) as [H1|H1]; [apply C; exact H1|]. intros [<-|[]]. cbn in H1. intuition discriminate.
Qed.

Lemma clean11_end : forall m q n, spc m < 2 -> Clean S11 m -> Clean S11 (mon_step m (TEnd q n)).
Proof.
  intros m q n SP C x H.
  assert (S : Sub (mon_step m (TEnd q n)) m [204; 707; 701; 702; 703]).
  { unfold mon_step. cbv zeta. repeat strip.
    apply Sub_chk_t; [cbn; tauto|]. apply Sub_chk_t; [cbn; tauto|]. apply Sub_chk_t; [cbn; tauto|].
    apply Sub_close11; [exact SP|cbn; tauto|cbn; tauto]. }
  destruct (S x H) as [H1|H1]; [apply C; exact H1|]. intros [<-|[]]. cbn in H1. intuition discriminate.
Qed.

Lemma quiet11 : forall e, match e with TWait _ _ _ _ _ _ | TEnd _ _ => False | _ => True end -> quiet_for S11 e.
Proof.
  intros e Q c Hc Hs. destruct e; try contradiction; try destruct n;
    cbn [ev_codes In S11] in *; intuition (subst; discriminate).
Qed.

(* ---------- the invariant ---------- *)
Definition SP (m : mon) : Prop := Clean S11 m /\ (spin m = 0 \/ spin m = 1) /\ 0 <= ncall m.
Definition EI (m : mon) : Prop := had_ev m = true /\ ncall m = 0.

Definition okev11 (m : mon) (e : tev) : Prop :=
  match e with TWait _ _ _ _ _ _ | TEnd _ _ => EI m -> spin m = 0 | _ => True end.

Lemma spc_small : forall m, (spin m = 0 \/ spin m = 1) -> (EI m -> spin m = 0) -> spc m = 0 \/ spc m = 1.
Proof.
  intros m R O. unfold spc. destruct (had_ev m) eqn:HE; [|left; reflexivity]. cbn [andb].
  destruct (Z.eqb_spec (ncall m) 0) as [Z0|NZ]; [|left; reflexivity]. right. rewrite (O (conj HE Z0)). reflexivity.
Qed.

Lemma SP_step : forall m e, SP m -> okev11 m e -> SP (mon_step m e).
Proof.
  intros m e (C & R & N) O. unfold SP.
  assert (G : forall he nc sp, sp3 (mon_step m e) = (he, nc, sp) -> Clean S11 (mon_step m e) -> (sp = 0 \/ sp = 1) -> 0 <= nc ->
              Clean S11 (mon_step m e) /\ (spin (mon_step m e) = 0 \/ spin (mon_step m e) = 1) /\ 0 <= ncall (mon_step m e)).
  { intros he nc sp E CC RR NN. unfold sp3 in E. injection E as _ E2 E3. rewrite E2, E3. auto. }
  destruct e; cbn [okev11] in O;
    try (match goal with |- context [mon_step m ?e] =>
       apply (G _ _ _ (sp3_plain m e I)); [apply Clean_step; [apply quiet11; exact I|exact C]|exact R|exact N] end);
    try (match goal with |- context [mon_step m ?e] =>
       apply (G _ _ _ (sp3_call m e I)); [apply Clean_step; [apply quiet11; exact I|exact C]|exact R|lia] end).
  - pose proof (spc_small m R O) as SS.
    apply (G _ _ _ (sp3_wait m n call maxev timeout interest gnd)); [apply clean11_wait; [lia|exact C]|exact SS|lia].
  - destruct n as [n|].
    + apply (G _ _ _ (sp3_ret m n fds clk)); [apply Clean_step; [apply quiet11; exact I|exact C]|exact R|lia].
    + apply (G _ _ _ (sp3_plain m (TRet None fds clk) I)); [apply Clean_step; [apply quiet11; exact I|exact C]|exact R|exact N].
  - pose proof (spc_small m R O) as SS.
    apply (G _ _ _ (sp3_end m quit numobjs)); [apply clean11_end; [lia|exact C]|exact SS|lia].
Qed.

(* eventful-idle can only be entered by a wait return and is left by any callback *)
Lemma EI_plain : forall m e, plain11 e -> EI (mon_step m e) -> EI m.
Proof.
  intros m e P [H1 H2]. pose proof (sp3_plain m e P) as E. unfold sp3 in E. injection E as E1 E2 _.
  split; [rewrite <- E1; exact H1|rewrite <- E2; exact H2].
Qed.

Lemma EI_call : forall m e, is_call e -> 0 <= ncall m -> EI (mon_step m e) -> False.
Proof.
  intros m e C N [_ H2]. pose proof (sp3_call m e C) as E. unfold sp3 in E. injection E as _ E2 _.
  rewrite E2 in H2. lia.
Qed.

Lemma nr_cases : forall e, nr e -> (plain11 e /\ ~ is_call e) \/ is_call e.
Proof. intros e. destruct e; cbn; try tauto; destruct n; tauto. Qed.

Lemma EI_keeps : forall m e, nr e -> 0 <= ncall m -> EI (mon_step m e) -> EI m /\ ~ is_call e.
Proof.
  intros m e Q N H. destruct (nr_cases e Q) as [[P NC]|C].
  - split; [apply (EI_plain m e P H)|exact NC].
  - exfalso. apply (EI_call m e C N H).
Qed.

Lemma spin_after_wait : forall m n c mx t i g, (EI m -> spin m = 0) ->
  spin (mon_step m (TWait n c mx t i g)) = 1 -> EI m.
Proof.
  intros m n c mx t i g O H.
  assert (E3 : spin (mon_step m (TWait n c mx t i g)) = spc m) by (exact (f_equal snd (sp3_wait m n c mx t i g))).
  rewrite E3 in H. unfold spc in H. destruct (had_ev m) eqn:HE; [|discriminate H]. cbn [andb] in H.
  destruct (Z.eqb_spec (ncall m) 0) as [Z0|NZ]; [split; [exact HE|exact Z0]|discriminate H].
Qed.

(* need_call is not touched while no callback runs *)
Lemma nc_plain11 : forall m e, plain11 e -> need_call (mon_step m e) = need_call m.
Proof.
  intros m e P. destruct e; try contradiction; try reflexivity.
  - destruct n; [contradiction|]. apply (proj1 (plain7_same m (TRet None fds clk) I)).
  - cbn [mon_step]. apply nc_action.
  - apply (proj1 (plain7_same m (TRes kind id rc) I)).
  - apply (proj1 (plain7_same m (TTear numobjs) I)).
  - apply (proj1 (plain7_same m (TDone openfds) I)).
  - apply (proj1 (plain7_same m THang I)).
Qed.

Lemma need_call_keeps : forall m e b, nr e -> 0 <= ncall m -> (ncall m = 0 -> need_call m = b) ->
  ncall (mon_step m e) = 0 -> need_call (mon_step m e) = b.
Proof.
  intros m e b Q N V H. destruct (nr_cases e Q) as [[P _]|C].
  - pose proof (sp3_plain m e P) as E. unfold sp3 in E. injection E as _ E2 _. rewrite E2 in H.
    rewrite (nc_plain11 m e P). apply V. exact H.
  - pose proof (sp3_call m e C) as E. unfold sp3 in E. injection E as _ E2 _. rewrite E2 in H. lia.
Qed.
