(* CorePhase2AcctC07.v -- property C07 of the core-loop monitor: no code 700..799 on any run of a
   well-formed scenario (701 702 705 706 707 708 710 711 from the CorePhase2Acct family,
   703 704 709 from CoreRel). *)
From Coq Require Import List ZArith Bool Lia.
From Ivv Require Import Core.Kernel Core.CoreTypes Core.CoreFd Core.CoreModel Core.Monitors Core.CoreSpec Core.CoreRel.
From Ivv Require Import Core.CorePhase2AcctMon Core.CorePhase2AcctEnd Core.CorePhase2AcctK Core.CorePhase2AcctNcTop
  Core.CorePhase2AcctSpinTop.
Import ListNotations.
Local Open Scope Z_scope.

Lemma ev_codes_07 : forall e c, In c (ev_codes e) -> in_range 700 800 c = true ->
  In c [701; 702; 703; 704; 705; 706; 707; 708; 709; 710; 711].
Proof.
  intros e c H R. destruct e; try (destruct n); cbn [ev_codes In] in H;
    repeat (destruct H as [<-|H]; [try (vm_compute in R; discriminate R); cbn; tauto|]); contradiction.
Qed.

Theorem core_mon_C07 : forall sc, wf_scenario sc -> mon_C07 (run_scenario sc) = true.
Proof.
  intros sc WF. unfold mon_C07, none_in. apply negb_true_iff.
  destruct (existsb (in_range 700 800) (mon_fails (run_scenario sc))) eqn:E; [|reflexivity].
  apply existsb_exists in E. destruct E as (c & H & R). exfalso.
  destruct (fails_origin _ c H) as (e & _ & C).
  destruct (core_mon_handlers sc WF c H) as (_ & _ & N709 & N703 & N704 & _).
  pose proof (ev_codes_07 e c C R) as IN. cbn [In] in IN.
  destruct IN as [<-|[<-|[<-|[<-|[<-|[<-|[<-|[<-|[<-|[<-|[<-|[]]]]]]]]]]]].
  - exact (core_code_701 sc WF H).
  - exact (core_code_702 sc WF H).
  - exact (N703 eq_refl).
  - exact (N704 eq_refl).
  - exact (core_code_705 sc WF H).
  - exact (core_code_706 sc WF H).
  - exact (core_code_707 sc WF H).
  - exact (core_code_708 sc WF H).
  - exact (N709 eq_refl).
  - exact (core_code_710 sc WF H).
  - exact (core_code_711 sc WF H).
Qed.

Print Assumptions core_mon_C07.
