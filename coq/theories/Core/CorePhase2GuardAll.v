(* CorePhase2GuardAll.v -- the guard monitor has exactly four codes, and none of them is reported
   on a run of the model for a well-formed scenario: mon_guard holds. *)
From Coq Require Import List ZArith Bool Lia.
From Ivv Require Import Core.Kernel Core.CoreTypes Core.CoreFd Core.CoreModel Core.Monitors Core.GuardMon Core.CoreSpec
  Core.CorePhase2FdMon Core.CorePhase2Fd Core.CorePhase2AcctIdleTop Core.CorePhase2GuardMon Core.CorePhase2Guard.
Import ListNotations.
Local Open Scope Z_scope.

Definition GCODES : list Z := [1101; 1102; 1103; 1104].

(* every reported code is one of the four *)
Definition CK (g : gmon) : Prop := forall c, In c (g_fails g) -> In c GCODES.

Lemma CK_eq : forall g g', g_fails g' = g_fails g -> CK g -> CK g'.
Proof. intros g g' E H c. rewrite E. apply H. Qed.

Lemma CK_fail : forall g c0, In c0 GCODES -> CK g -> CK (g_fail g c0).
Proof. intros g c0 I0 H c X. apply In_g_fail in X. destruct X as [X| ->]; [apply H; exact X|exact I0]. Qed.

Lemma CK_boundary : forall g, CK g -> CK (boundary g).
Proof. intros g H. unfold boundary. destruct (leftovers g); [apply CK_fail; [cbn; auto|exact H]|exact H]. Qed.

Lemma CK_idle : forall g, CK g -> CK (idle_boundary g).
Proof.
  intros g H. unfold idle_boundary. cbv zeta.
  destruct (2 <=? (if g_idle_now g then g_idle g + 1 else 0)).
  - apply (CK_eq (g_fail g 1103)); [reflexivity|]. apply CK_fail; [cbn; auto|exact H].
  - apply (CK_eq g); [reflexivity|exact H].
Qed.

Lemma CK_script : forall sc g key, CK g -> CK (fst (script_of sc g key)).
Proof. intros sc g key H. apply (CK_eq g); [apply (proj2 (script_of_fst sc g key))|exact H]. Qed.

Lemma CK_call : forall sc g e key, CK g ->
  CK (let g0 := g_set_idle (track (boundary g) e) false (g_idle g) in
      let '(g1, l) := script_of sc g0 key in g_with g1 (g_m g1) l).
Proof.
  intros sc g e key H. cbv zeta.
  pose proof (CK_script sc (g_set_idle (track (boundary g) e) false (g_idle g)) key) as S.
  destruct (script_of sc (g_set_idle (track (boundary g) e) false (g_idle g)) key) as [g1 l]. cbn [fst] in S.
  apply (CK_eq g1); [reflexivity|]. apply S. apply (CK_eq (boundary g)); [reflexivity|]. apply CK_boundary. exact H.
Qed.

Lemma CK_gstep : forall sc g e, CK g -> CK (gstep sc g e).
Proof.
  intros sc g e H. unfold gstep. destruct (g_done g); [exact H|].
  destruct e; try (apply (CK_eq g); [reflexivity|exact H]).
  - apply (CK_call sc g (TCallFd obj band hid cookie) hid H).
  - apply (CK_call sc g (TCallTimer j now) (HK_T + j) H).
  - apply (CK_call sc g (TCallTask j) (HK_K + j) H).
  - apply (CK_call sc g (TCallEvent j) (HK_E + j) H).
  - apply (CK_call sc g (TCallRaw j) (HK_R + j) H).
  - (* TWait *)
    apply CK_idle. cbv zeta.
    set (g0 := if existsb _ interest then g_fail g 1104 else g).
    assert (H0 : CK g0) by (unfold g0; destruct (existsb _ interest); [apply CK_fail; [cbn; auto|exact H]|exact H]).
    clearbody g0.
    set (g1 := if g_wloaded g0 then boundary g0 else boundary (g_with (boundary g0) (g_m g0) (sc_wait sc (g_nwait g0 + 1)))).
    assert (H1 : CK g1).
    { unfold g1. destruct (g_wloaded g0); [apply CK_boundary; exact H0|].
      apply CK_boundary. apply (CK_eq (boundary g0)); [reflexivity|]. apply CK_boundary. exact H0. }
    clearbody g1. apply (CK_eq g1); [reflexivity|exact H1].
  - (* TRet *) destruct n; apply (CK_eq g); try reflexivity; exact H.
  - (* TAct *)
    cbv zeta.
    set (g1 := match consume g (g_todo g) a with
               | Some _ => g
               | None => if a_main (g_m g) && negb (g_wloaded g)
                         then g_set_wait (g_with (boundary g) (g_m (boundary g)) (sc_wait sc (g_nwait g + 1))) (g_nwait g) true
                         else g
               end).
    assert (H1 : CK g1).
    { unfold g1. destruct (consume g (g_todo g) a); [exact H|].
      destruct (a_main (g_m g) && negb (g_wloaded g)); [|exact H].
      apply (CK_eq (boundary g)); [reflexivity|]. apply CK_boundary. exact H. }
    clearbody g1.
    set (g2 := match consume g1 (g_todo g1) a with
               | Some rest => g_with g1 (g_m g1) rest
               | None => g_fail g1 1101
               end).
    assert (H2 : CK g2).
    { unfold g2. destruct (consume g1 (g_todo g1) a); [apply (CK_eq g1); [reflexivity|exact H1]|].
      apply CK_fail; [cbn; auto|exact H1]. }
    clearbody g2. apply (CK_eq g2); [destruct a; reflexivity|exact H2].
  - (* TMain *) apply (CK_eq (boundary g)); [reflexivity|]. apply CK_boundary. exact H.
  - (* TEnd *) apply CK_idle. apply (CK_eq (boundary g)); [reflexivity|]. apply CK_boundary. exact H.
  - (* TTear *) apply (CK_eq (boundary g)); [reflexivity|]. apply CK_boundary. exact H.
Qed.

Lemma CK_run : forall sc tr g, CK g -> CK (fold_left (gstep sc) tr g).
Proof. intros sc tr. induction tr as [|e tr IH]; intros g H; cbn [fold_left]; [exact H|]. apply IH. apply CK_gstep. exact H. Qed.

Theorem gmon_codes : forall sc tr c, In c (gmon_fails sc tr) -> In c [1101; 1102; 1103; 1104].
Proof.
  intros sc tr c H. unfold gmon_fails, gmon_run in H.
  apply (CK_run sc tr (gmon0 sc)); [|exact H]. intros x [].
Qed.

(* ---------- the guard monitor accepts every run of a well-formed scenario ---------- *)
Theorem core_gmon_all : forall sc, wf_scenario sc -> mon_guard sc (run_scenario sc) = true.
Proof.
  intros sc WF. unfold mon_guard.
  destruct (gmon_fails sc (run_scenario sc)) as [|c l] eqn:E; [reflexivity|].
  exfalso.
  assert (H : In c (gmon_fails sc (run_scenario sc))) by (rewrite E; left; reflexivity).
  pose proof (gmon_codes sc _ c H) as C.
  pose proof (core_gmon_guards sc WF c H) as G12.
  pose proof (core_gmon_1103 sc WF c H) as G3.
  pose proof (core_gmon_1104 sc WF c H) as G4.
  cbn [In] in C, G12, G3, G4. intuition.
Qed.

Print Assumptions gmon_codes.
Print Assumptions core_gmon_all.
