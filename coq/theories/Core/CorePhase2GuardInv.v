(* CorePhase2GuardInv.v -- the invariant between a model state and the guard monitor on its trace
   (script position, invocation counters, status of the scripted descriptors), and one action. *)
From Coq Require Import List ZArith Bool Lia.
From Ivv Require Import Core.Kernel Core.CoreTypes Core.CoreFd Core.CoreModel Core.Monitors Core.GuardMon Core.CoreSpec
  Core.CoreRel Core.CoreInvBase Core.CoreInvDefs Core.CoreInv
  Core.CorePhase2K1Base
  Core.CorePhase2TimeMon Core.CorePhase2TimeFr Core.CorePhase2FdBase Core.CorePhase2FdMon Core.CorePhase2GuardMon
  Core.CorePhase2GuardAct.
Import ListNotations.
Local Open Scope Z_scope.

Section GI.
Variable sc : scenario.

Record GB (s : core) (g : gmon) : Prop := {
  gb_inv : g_inv g = invoc s;
  gb_cl : UCf (kern s) (g_closed g) }.

(* position inside a script (set-up, handler, tear-down): the rest l is still to be executed *)
Definition RunS (l : list action) (s : core) (g : gmon) : Prop :=
  g_nwait g = nwait (kern s) /\ g_wloaded g = false /\ exists p, g_todo g = p ++ l /\ Forall (na g) p.

(* position inside the external actions of a kernel wait *)
Definition RunW (l : list action) (s : core) (g : gmon) : Prop :=
  g_nwait g + 1 = nwait (kern s) /\
  ((g_wloaded g = true /\ exists p, g_todo g = p ++ l /\ Forall (na g) p) \/
   (g_wloaded g = false /\ Forall (na g) (g_todo g) /\
    exists q, sc_wait sc (g_nwait g + 1) = q ++ l /\ Forall (na g) q)).

Definition GI (P : core -> gmon -> Prop) (s : core) : Prop :=
  GOK (gst sc s) /\ (g_done (gst sc s) = false -> GB s (gst sc s) /\ P s (gst sc s)).

Definition QG (P : core -> gmon -> Prop) (r : res) : Prop :=
  match r with R s' => GI P s' | Halt s' => GOK (gst sc s') end.

Lemma GI_GOK : forall P s, GI P s -> GOK (gst sc s). Proof. intros P s [A _]. exact A. Qed.

(* a state change that leaves no trace *)
Lemma GI_step : forall (P Q : core -> gmon -> Prop) s s', GI P s -> trace s' = trace s -> invoc s' = invoc s ->
  UC (kern s) (kern s') -> (forall g, P s g -> Q s' g) -> GI Q s'.
Proof.
  intros P Q s s' [A B] T I U PQ. unfold GI. rewrite (gst_trace sc s s' T). split; [exact A|].
  intros D. destruct (B D) as [[B1 B2] B3]. split; [|apply PQ; exact B3].
  constructor; [rewrite I; exact B1|eapply UCf_UC; eassumption].
Qed.

Lemma RunS_nw : forall l s s' g, nwait (kern s') = nwait (kern s) -> RunS l s g -> RunS l s' g.
Proof. intros l s s' g E (A & B). split; [rewrite E; exact A|exact B]. Qed.

Lemma RunW_nw : forall l s s' g, nwait (kern s') = nwait (kern s) -> RunW l s g -> RunW l s' g.
Proof. intros l s s' g E (A & B). split; [rewrite E; exact A|exact B]. Qed.

(* a halting event *)
Lemma GOK_halt : forall P s e, GI P s -> halt_ev e -> GOK (gst sc (emit s e)).
Proof. intros P s e [A _] H. rewrite gst_emit. apply (GOK_eq (gst sc s)); [apply gstep_halt; exact H|exact A]. Qed.

(* a run of tracked events *)
Lemma GOK_ext : forall l s s', trace s' = l ++ trace s -> Forall qs l -> GOK (gst sc s) -> GOK (gst sc s').
Proof. intros l s s' E F A. destruct (ext_qs sc l s s' E F) as [X _]. apply (GOK_eq (gst sc s)); assumption. Qed.

(* ---------- one action ---------- *)
Lemma do_action_G : forall b s a (P Q : core -> gmon -> Prop), J b s -> InvW s -> wf_action a -> GI P s ->
  (forall g, g_done g = false -> P s g -> na g a -> Q s g) ->
  (forall g a', g_done g = false -> g_m g = mst s -> P s g -> allowed g a = true -> same_action a a' = true ->
     let g1 := gstep sc g (TAct a') in
     g_fails g1 = g_fails g /\ g_done g1 = false /\ g_inv g1 = g_inv g /\ g_closed g1 = closed_after (g_closed g) a' /\
     forall s' g', GS g1 g' -> nwait (kern s') = nwait (kern s) -> Q s' g') ->
  QG Q (do_action s a).
Proof.
  intros b s a P Q Jh IW W [OK B] SK FR.
  destruct (fires s a) eqn:F.
  - (* executed *)
    destruct (do_action_shape s a F) as (a' & SA & l0 & E & FQ).
    set (g := gst sc s) in *. set (s1 := emit s (TAct a')).
    assert (E1 : trace (res_state (do_action s a)) = l0 ++ trace s1) by exact E.
    destruct (ext_qs sc l0 s1 _ E1 FQ) as [X1 X2].
    assert (G1 : gst sc s1 = gstep sc g (TAct a')) by apply gst_emit.
    assert (AL : g_done g = false -> allowed g a = true).
    { intros D. destruct (B D) as [[B1 B2] _]. rewrite (allowed_fires b s g a Jh IW (gst_m sc s D) B2 W). exact F. }
    assert (OK1 : GOK (gst sc s1)).
    { rewrite G1. destruct (g_done g) eqn:D; [rewrite gstep_done_id by exact D; exact OK|].
      destruct (B eq_refl) as [_ B3]. destruct (FR g a' D (gst_m sc s D) B3 (AL eq_refl) SA) as (Y1 & _).
      apply (GOK_eq g); assumption. }
    assert (OK' : GOK (gst sc (res_state (do_action s a)))) by (apply (GOK_eq (gst sc s1)); assumption).
    pose proof (CoreInv.do_action_ok s a IW W) as ST.
    destruct (do_action s a) as [s'|s'] eqn:ED; cbn [QG res_state okr] in *; [|exact OK'].
    split; [exact OK'|]. intros D'. destruct (X2 D') as (GS1 & D1 & _). rewrite G1 in D1, GS1.
    pose proof (gstep_done sc g _ D1) as D. destruct (B D) as [[B1 B2] B3].
    destruct (FR g a' D (gst_m sc s D) B3 (AL D) SA) as (Y1 & Y2 & Y3 & Y4 & Y5).
    destruct (do_action_closed s a s' (g_closed g) IW W ED F B2) as [I1 C1].
    destruct ST as [_ FRM]. split.
    + constructor; [rewrite (gs_inv _ _ GS1), Y3, I1; exact B1|].
      rewrite (gs_closed _ _ GS1), Y4, (closed_after_same _ a a' SA). exact C1.
    + apply Y5; [exact GS1|apply (fr_nwait _ _ FRM)].
  - (* guarded out *)
    rewrite (do_action_skip s a F). cbn [QG]. split; [exact OK|]. intros D. destruct (B D) as [[B1 B2] B3].
    split; [constructor; assumption|]. apply SK; [exact D|exact B3|].
    unfold na. rewrite (allowed_fires b s _ a Jh IW (gst_m sc s D) B2 W). exact F.
Qed.

Lemma Forall_na_snoc : forall g p a, Forall (na g) p -> na g a -> Forall (na g) (p ++ [a]).
Proof. intros g p a F N. apply Forall_app. split; [exact F|constructor; [exact N|constructor]]. Qed.

(* ... in a script *)
Lemma do_action_GS : forall b s a l, J b s -> InvW s -> wf_action a -> GI (RunS (a :: l)) s ->
  QG (RunS l) (do_action s a).
Proof.
  intros b s a l Jh IW W G. apply (do_action_G b s a (RunS (a :: l)) (RunS l) Jh IW W G).
  - intros g D (N & WL & p & T & F) NA. split; [exact N|]. split; [exact WL|].
    exists (p ++ [a]). split; [rewrite T, <- app_assoc; reflexivity|apply Forall_na_snoc; assumption].
  - intros g a' D M (N & WL & p & T & F) AL SA. cbv zeta.
    assert (C : consume g (g_todo g) a' = Some l) by (rewrite T; apply consume_hit; assumption).
    destruct (gstep_act_hit sc g a' l D C) as (H1 & H2 & H3 & H4 & H5 & H6 & H7). cbv zeta in H1, H2, H3, H4, H5, H6, H7.
    split; [exact H6|]. split; [exact H7|]. split; [exact H3|]. split; [exact H2|].
    intros s' g' GS1 NW. split; [rewrite (gs_nwait _ _ GS1), H4, NW; exact N|].
    split; [rewrite (gs_wl _ _ GS1), H5; exact WL|]. exists []. split; [rewrite (gs_todo _ _ GS1), H1; reflexivity|constructor].
Qed.

(* ... among the external actions of a wait *)
Lemma do_action_GW : forall s a l, J true s -> InvW s -> wf_action a -> GI (RunW (a :: l)) s ->
  QG (RunW l) (do_action s a).
Proof.
  intros s a l Jh IW W G. apply (do_action_G true s a (RunW (a :: l)) (RunW l) Jh IW W G).
  - intros g D (N & [(WL & p & T & F)|(WL & F0 & q & T & F)]) NA; (split; [exact N|]).
    + left. split; [exact WL|]. exists (p ++ [a]). split; [rewrite T, <- app_assoc; reflexivity|apply Forall_na_snoc; assumption].
    + right. split; [exact WL|]. split; [exact F0|].
      exists (q ++ [a]). split; [rewrite T, <- app_assoc; reflexivity|apply Forall_na_snoc; assumption].
  - intros g a' D M (N & [(WL & p & T & F)|(WL & F0 & q & T & F)]) AL SA; cbv zeta.
    + assert (C : consume g (g_todo g) a' = Some l) by (rewrite T; apply consume_hit; assumption).
      destruct (gstep_act_hit sc g a' l D C) as (H1 & H2 & H3 & H4 & H5 & H6 & H7). cbv zeta in H1, H2, H3, H4, H5, H6, H7.
      split; [exact H6|]. split; [exact H7|]. split; [exact H3|]. split; [exact H2|].
      intros s' g' GS1 NW. split; [rewrite (gs_nwait _ _ GS1), H4, NW; exact N|].
      left. split; [rewrite (gs_wl _ _ GS1), H5; exact WL|]. exists []. split; [rewrite (gs_todo _ _ GS1), H1; reflexivity|constructor].
    + assert (C0 : consume g (g_todo g) a' = None) by (apply consume_none; exact F0).
      assert (C : consume g (sc_wait sc (g_nwait g + 1)) a' = Some l) by (rewrite T; apply consume_hit; assumption).
      assert (MN : a_main (g_m g) = true) by (rewrite M; apply (j_main _ _ Jh)).
      destruct (gstep_act_load sc g a' l D C0 MN WL (leftovers_na g F0) C) as (H1 & H2 & H3 & H4 & H5 & H6 & H7).
      cbv zeta in H1, H2, H3, H4, H5, H6, H7.
      split; [exact H6|]. split; [exact H7|]. split; [exact H3|]. split; [exact H2|].
      intros s' g' GS1 NW. split; [rewrite (gs_nwait _ _ GS1), H4, NW; exact N|].
      left. split; [rewrite (gs_wl _ _ GS1), H5; reflexivity|]. exists []. split; [rewrite (gs_todo _ _ GS1), H1; reflexivity|constructor].
Qed.
End GI.
