(* CorePhase2Guard.v -- the guard monitor never reports 1101 (an action logged that the abstract
   state does not allow) nor 1102 (an allowed scripted action skipped) on a run of the model. *)
From Coq Require Import List ZArith Bool Lia.
From Ivv Require Import Core.Kernel Core.CoreTypes Core.CoreFd Core.CoreModel Core.Monitors Core.GuardMon Core.CoreSpec
  Core.CoreRel Core.CoreInvBase Core.CoreInvDefs Core.CoreInvFd Core.CoreInvPoll Core.CoreInvReg Core.CoreInvObj
  Core.CoreInvTm Core.CoreInvLoop Core.CoreInvWait Core.CoreInvTop Core.CoreInv
  Core.CorePhase2K1Base Core.CorePhase2K1Fd Core.CorePhase2K1Act Core.CorePhase2K1Inv Core.CorePhase2K1Loop
  Core.CorePhase2TimeMon Core.CorePhase2TimeFr Core.CorePhase2FdBase Core.CorePhase2FdMon Core.CorePhase2GuardMon
  Core.CorePhase2GuardAct Core.CorePhase2GuardInv Core.CorePhase2GuardLoop Core.CorePhase2GuardWait.
From Ivv Require Timer.HeapModel.
Import ListNotations.
Local Open Scope Z_scope.

(* ---------- tear-down is a script ---------- *)
Lemma bind_ret : forall r, bind r (fun s => R s) = r.
Proof. intros [s|s]; reflexivity. Qed.

Lemma bind_bind : forall r f g, bind (bind r f) g = bind r (fun s => bind (f s) g).
Proof. intros [s|s] f g; reflexivity. Qed.

Lemma run_acts_app : forall l1 l2 s, run_acts s (l1 ++ l2) = bind (run_acts s l1) (fun s1 => run_acts s1 l2).
Proof.
  induction l1 as [|a l1 IH]; intros l2 s; cbn [app run_acts bind]; [reflexivity|].
  rewrite bind_bind. destruct (do_action s a) as [s1|s1]; cbn [bind]; [apply IH|reflexivity].
Qed.

Lemma teardown_obj_acts : forall s i,
  teardown_obj s i = run_acts s [AFdUnreg i; ATmUnreg i; ATkUnreg i; AEvUnreg i; ARwUnreg i].
Proof.
  intros s i. unfold teardown_obj. cbn [run_acts].
  destruct (do_action s (AFdUnreg i)) as [s1|s1]; cbn [bind]; [|reflexivity].
  destruct (do_action s1 (ATmUnreg i)) as [s2|s2]; cbn [bind]; [|reflexivity].
  destruct (do_action s2 (ATkUnreg i)) as [s3|s3]; cbn [bind]; [|reflexivity].
  destruct (do_action s3 (AEvUnreg i)) as [s4|s4]; cbn [bind]; [|reflexivity].
  symmetry. apply bind_ret.
Qed.

Lemma teardown_acts : forall l s,
  teardown s l = run_acts s (flat_map (fun i => [AFdUnreg i; ATmUnreg i; ATkUnreg i; AEvUnreg i; ARwUnreg i]) l).
Proof.
  induction l as [|i l IH]; intros s; cbn [teardown flat_map]; [reflexivity|].
  rewrite run_acts_app, teardown_obj_acts.
  destruct (run_acts s [AFdUnreg i; ATmUnreg i; ATkUnreg i; AEvUnreg i; ARwUnreg i]) as [s1|s1]; cbn [bind]; [apply IH|reflexivity].
Qed.

Lemma teardown_script_wf : Forall wf_action teardown_script.
Proof.
  unfold teardown_script. apply Forall_forall. intros a H. apply in_flat_map in H. destruct H as (i & I & H).
  apply In_zseq in I. assert (O : ok_idx i) by (unfold ok_idx; lia).
  cbn [In] in H. destruct H as [<-|[<-|[<-|[<-|[<-|[]]]]]]; exact O.
Qed.

(* ---------- the initial state ---------- *)
Lemma fold_user_next : forall l k, next_fd (fold_left k_user_fd l k) = next_fd k.
Proof. induction l as [|a l IH]; intros k; cbn [fold_left]; [reflexivity|]. rewrite IH. reflexivity. Qed.

Lemma fold_user_get : forall l k i,
  (In i l -> exists v, k_get (fold_left k_user_fd l k) (100 + i) = Some v /\ vclosed v = false) /\
  ((exists v, k_get k (100 + i) = Some v /\ vclosed v = false) ->
   exists v, k_get (fold_left k_user_fd l k) (100 + i) = Some v /\ vclosed v = false).
Proof.
  induction l as [|a l IH]; intros k i; cbn [fold_left In].
  - split; [intros []|auto].
  - assert (B : (exists v, k_get k (100 + i) = Some v /\ vclosed v = false) ->
                exists v, k_get (k_user_fd k a) (100 + i) = Some v /\ vclosed v = false).
    { intros (v & G & C). unfold k_user_fd. rewrite k_get_put'.
      destruct (100 + i =? 100 + a); [eexists; split; reflexivity|exists v; auto]. }
    split.
    + intros [->|H]; [|apply (proj1 (IH _ i) H)].
      apply (proj2 (IH _ i)). unfold k_user_fd. rewrite k_get_put', Z.eqb_refl. eexists; split; reflexivity.
    + intros H. apply (proj2 (IH _ i)). apply B. exact H.
Qed.

Lemma core0_user : forall sc, UCf (kern (core0 sc)) (fun _ => false).
Proof.
  intros sc. unfold core0.
  set (k0 := fold_left k_user_fd (zseq 0 16) (kernel0 (sc_faults sc))).
  assert (U0 : UCf k0 (fun _ => false)).
  { intros i I16. apply (proj1 (fold_user_get (zseq 0 16) (kernel0 (sc_faults sc)) i)). apply In_zseq. unfold inr16 in I16. lia. }
  assert (N0 : next_fd k0 = 1000) by (unfold k0; rewrite fold_user_next; reflexivity).
  destruct ((sc_backend sc =? M_ET) || (sc_backend sc =? M_EP)).
  - unfold k_epoll_create. pose proof (fun t => KT_alloc t k0 K_EPOLL) as KA.
    destruct (k_alloc k0 K_EPOLL) as [efd k]. cbn [snd kern] in *.
    apply (UCf_UC k0 k _ U0). apply KT_UC. intros t T. apply KA. unfold ufd in T. lia.
  - exact U0.
Qed.

Section Top.
Variable sc : scenario.
Hypothesis WF : wf_scenario sc.
Let dok := CoreInv.do_action_ok.

Lemma core0_GI : GI sc (RunS (sc_setup sc)) (core0 sc).
Proof.
  pose proof (core0_user sc) as U. destruct (core0_Inv sc WF) as (_ & _ & N0).
  assert (T : trace (core0 sc) = [TInit (sc_backend sc)]).
  { unfold core0. destruct (if (sc_backend sc =? M_ET) || (sc_backend sc =? M_EP) then _ else _) as [efd k]. reflexivity. }
  assert (IV : invoc (core0 sc) = fun _ => 0).
  { unfold core0. destruct (if (sc_backend sc =? M_ET) || (sc_backend sc =? M_EP) then _ else _) as [efd k]. reflexivity. }
  assert (G : gst sc (core0 sc) = track (gmon0 sc) (TInit (sc_backend sc))).
  { unfold gst. rewrite T. reflexivity. }
  unfold GI. rewrite G. split; [split; intros []|]. intros _.
  split; [constructor; [rewrite IV; reflexivity|exact U]|].
  split; [rewrite N0; reflexivity|]. split; [reflexivity|]. exists []. split; [reflexivity|constructor].
Qed.

(* ---------- phase changes ---------- *)
Lemma Idle_left : forall s g, Idle s g -> leftovers g = false.
Proof. intros s g (_ & _ & p & T & F). apply leftovers_na. rewrite T, app_nil_r. exact F. Qed.

Lemma GI_main : forall s, GI sc Idle s -> GI sc Idle (emit s TMain).
Proof.
  intros s [OK B]. unfold GI. rewrite gst_emit. set (g := gst sc s) in *.
  destruct (g_done g) eqn:D.
  - rewrite gstep_done_id by exact D. split; [exact OK|]. intros X. rewrite D in X. discriminate X.
  - destruct (B eq_refl) as [[B1 B2] ID]. pose proof ID as (N & WL & _).
    destruct (gstep_main sc g D (Idle_left s g ID)) as (H1 & H2 & H3 & H4 & H5 & H6 & H7). cbv zeta in H1, H2, H3, H4, H5, H6, H7.
    split; [apply (GOK_eq g); assumption|]. intros _.
    split; [constructor; [rewrite H2; exact B1|rewrite H3; exact B2]|].
    split; [rewrite H4; exact N|]. split; [rewrite H5; exact WL|]. exists []. split; [rewrite H1; reflexivity|constructor].
Qed.

Lemma GI_end : forall s q n, GI sc Idle s -> GI sc (RunS teardown_script) (emit s (TEnd q n)).
Proof.
  intros s q n [OK B]. unfold GI. rewrite gst_emit. set (g := gst sc s) in *.
  destruct (g_done g) eqn:D.
  - rewrite gstep_done_id by exact D. split; [exact OK|]. intros X. rewrite D in X. discriminate X.
  - destruct (B eq_refl) as [[B1 B2] ID]. pose proof ID as (N & WL & _).
    destruct (gstep_end sc g q n D (Idle_left s g ID) OK) as (H1 & H2 & H3 & H4 & H5 & H6 & H7). cbv zeta in H1, H2, H3, H4, H5, H6, H7.
    split; [exact H6|]. intros _.
    split; [constructor; [rewrite H2; exact B1|rewrite H3; exact B2]|].
    split; [rewrite H4; exact N|]. split; [rewrite H5; exact WL|]. exists []. split; [rewrite H1; reflexivity|constructor].
Qed.

Lemma GOK_tear : forall s n, GI sc Idle s -> GOK (gst sc (emit s (TTear n))).
Proof.
  intros s n [OK B]. rewrite gst_emit. set (g := gst sc s) in *.
  destruct (g_done g) eqn:D; [rewrite gstep_done_id by exact D; exact OK|].
  destruct (B eq_refl) as [_ ID].
  destruct (gstep_tear sc g n D (Idle_left s g ID)) as (_ & _ & _ & _ & _ & H6 & _). cbv zeta in H6.
  apply (GOK_eq g); assumption.
Qed.

(* ---------- iv_main ---------- *)
Definition QM (r : res) : Prop :=
  match r with R s' => InvT s' /\ GI sc Idle s' | Halt s' => GOK (gst sc s') end.

Lemma InvT_parts : forall s, InvT s -> InvW s /\ cur s = None /\ Q3 s.
Proof.
  intros s ((IW & Qt) & _). split; [exact IW|]. split; [apply (q_cur _ Qt)|].
  split; [apply (q_batch _ Qt)|split; [apply (q_cur _ Qt)|apply (q_evb _ Qt)]].
Qed.

Lemma main_loop_G : forall fuel s rt, J true s -> InvT s -> GI sc Idle s -> QM (main_loop sc fuel s rt).
Proof.
  induction fuel as [|fuel IH]; intros s rt Jh IT G; cbn [main_loop].
  - cbn [QM halt]. apply (GOK_halt sc Idle); [exact G|exact I].
  - destruct (InvT_parts s IT) as (IW & C & Q3s).
    (* timers *)
    assert (P1 : Post true s (if rt then run_timers sc s else R s)).
    { destruct rt; [apply run_timers_post; assumption|apply Post_same; assumption]. }
    assert (QT : QG sc Idle (if rt then run_timers sc s else R s)).
    { destruct rt; [apply run_timers_G; assumption|exact G]. }
    assert (K1' : forall s1, (if rt then run_timers sc s else R s) = R s1 -> InvT s1).
    { intros s1 E. destruct rt; [|inversion E; subst; auto].
      destruct IT as [IV TM]. pose proof (run_timers_ok' sc WF s IW Q3s) as OK. rewrite E in OK. cbn [okr] in OK.
      destruct (Ph_Inv sc WF s s1 IV OK) as (IV1 & N1 & TM1).
      split; [exact IV1|eapply TfdM_tm; eassumption]. }
    destruct (if rt then run_timers sc s else R s) as [s1|s1]; cbn [bind Post QG QM] in *; [|exact QT].
    destruct P1 as [J1 F1]. pose proof (K1' s1 eq_refl) as IT1.
    destruct (InvT_parts s1 IT1) as (IW1 & C1 & Q31).
    (* tasks *)
    pose proof (run_tasks_post sc WF s1 J1 C1) as P2.
    pose proof (run_tasks_G sc WF s1 J1 IW1 Q31 QT) as Q2.
    assert (K2 : forall s2, run_tasks sc s1 = R s2 -> InvT s2).
    { intros s2 E. destruct IT1 as [IV TM]. pose proof (run_tasks_ok' sc WF s1 IW1 Q31) as OK. rewrite E in OK. cbn [okr] in OK.
      destruct (Ph_Inv sc WF s1 s2 IV OK) as (IV2 & N2 & TM2).
      split; [exact IV2|eapply TfdM_tm; eassumption]. }
    destruct (run_tasks sc s1) as [s2|s2]; cbn [bind PostT QG QM] in *; [|exact Q2].
    destruct P2 as [J2 C2]. pose proof (K2 s2 eq_refl) as IT2.
    destruct (quit s2 || (numobjs s2 =? 0)) eqn:QN.
    { cbn [QM]. split; assumption. }
    apply orb_false_iff in QN. destruct QN as [Q2' _].
    set (abs := match tasks s2 with _ :: _ => Some 0 | [] => soonest_timeout s2 end).
    pose proof (poll_and_run_post sc WF s2 abs J2 Q2') as P3.
    pose proof (poll_and_run_G sc WF s2 abs J2 (proj1 (InvT_LoopInv s2) IT2) Q2' Q2) as Q3.
    pose proof (poll_and_run_inv sc WF s2 abs) as PI.
    destruct (poll_and_run sc s2 abs) as [r rt']. cbn [fst] in P3, Q3, PI.
    destruct r as [s3|s3]; cbn [bind Post0 QG QM] in *; [|exact Q3].
    destruct P3 as [J3 C3]. destruct (PI s3 IT2 eq_refl) as (IT3 & _).
    apply IH; assumption.
Qed.

(* ---------- a whole run ---------- *)
Theorem run_GOK : GOK (gmon_run sc (run_scenario sc)).
Proof.
  unfold run_scenario.
  match goal with |- GOK (gmon_run sc (rev (trace (res_state ?r)))) => change (GOK (gst sc (res_state r))) end.
  destruct (core0_Inv sc WF) as (I0 & TM0 & N0).
  assert (L0 : LoopInv (core0 sc)) by (apply LoopInv_Inv; split; assumption).
  pose proof (run_acts_post false (sc_setup sc) (core0 sc) (core0_J sc) (wf_setup sc WF)) as P0.
  pose proof (run_acts_ok dok (sc_setup sc) (core0 sc) (proj1 I0) (wf_setup sc WF)) as OK0.
  assert (Q0 : QG sc Idle (run_acts (core0 sc) (sc_setup sc))).
  { apply (run_acts_GS sc (sc_setup sc) false (core0 sc) []); [apply core0_J|apply (proj1 I0)|apply (wf_setup sc WF)|].
    rewrite app_nil_r. apply core0_GI. }
  destruct (run_acts (core0 sc) (sc_setup sc)) as [s1|s1]; cbn [bind Post QG res_state okr] in *; [|exact Q0].
  destruct P0 as [J1 F1].
  pose proof (LoopInv_StepT _ _ L0 OK0) as L1.
  pose proof (J_main_enter s1 J1) as J2.
  destruct (main_enter s1 L1) as (L2 & N2).
  assert (G2 : GI sc Idle (set_quit (emit s1 TMain) false)).
  { apply (GI_idle_same sc (emit s1 TMain)); [apply GI_main; exact Q0|reflexivity..]. }
  set (s2 := set_quit (emit s1 TMain) false) in *.
  pose proof (main_loop_post sc WF (Z.to_nat (sc_limit sc) + 2) s2 true J2) as P3.
  assert (C2 : cur s2 = None) by (apply (proj2 F1); apply core0_cur).
  specialize (P3 C2).
  pose proof (main_loop_G (Z.to_nat (sc_limit sc) + 2) s2 true J2 (proj2 (InvT_LoopInv s2) L2) G2) as Q3.
  destruct (main_loop sc (Z.to_nat (sc_limit sc) + 2) s2 true) as [s3|s3]; cbn [bind res_state QM] in *; [|exact Q3].
  destruct Q3 as [IT3 G3]. destruct (InvT_parts s3 IT3) as (IW3 & _).
  pose proof (J_main_leave s3 P3) as J4.
  pose proof (GI_end s3 (if quit s3 then 1 else 0) (numobjs s3) G3) as G4.
  set (s4 := emit s3 (TEnd (if quit s3 then 1 else 0) (numobjs s3))) in *.
  assert (IW4 : InvW s4) by (apply InvW_emit; [exact IW3|discriminate..]).
  assert (Q5 : QG sc Idle (teardown s4 (zseq 0 16))).
  { rewrite teardown_acts. apply (run_acts_GS sc _ false s4 []); [exact J4|exact IW4|apply teardown_script_wf|].
    rewrite app_nil_r. exact G4. }
  destruct (teardown s4 (zseq 0 16)) as [s5|s5]; cbn [bind res_state QG] in *; [|exact Q5].
  pose proof (GOK_tear s5 (numobjs s5) Q5) as G6.
  set (s6 := emit s5 (TTear (numobjs s5))) in *.
  assert (T7 : TrX s6 (deinit sc s6)).
  { unfold deinit. destruct ((sc_backend sc =? M_ET) || (sc_backend sc =? M_EP)); [|apply TrX_refl].
    eapply TrX_trans; [|apply F0_TrX; apply do_close_F0].
    destruct (tfd s6 =? -1); [apply TrX_refl|apply F0_TrX; apply do_close_F0]. }
  pose proof (GOK_TrX sc _ _ G6 T7) as G7.
  apply (GOK_ext sc [TDone (open_dyn (kern (deinit sc s6)))] (deinit sc s6)); [reflexivity| |exact G7].
  constructor; [left; exact I|constructor].
Qed.
End Top.

Theorem core_gmon_guards : forall sc, wf_scenario sc ->
  forall c, In c (gmon_fails sc (run_scenario sc)) -> ~ In c [1101; 1102].
Proof.
  intros sc WF c H. destruct (run_GOK sc WF) as [A B]. unfold gmon_fails in H.
  intros [<-|[<-|[]]]; [exact (A H)|exact (B H)].
Qed.

Print Assumptions core_gmon_guards.
