(* CorePhase2AcctCq.v -- code 711, part: the byte / event counts of library-created descriptors.
   Pos k fd: descriptor fd is open with a non-zero count.  No operation of the descriptor layer makes
   a count non-zero; only writes do (KPn lists the descriptor written).  Same structure as
   CorePhase2AcctOwn.v. *)
From Coq Require Import List ZArith Bool Lia.
From Ivv Require Import Core.Kernel Core.CoreTypes Core.CoreFd Core.CoreModel Core.CoreRelBase
  Core.CorePhase2K1Base Core.CorePhase2AcctOwn.
Import ListNotations.
Local Open Scope Z_scope.

Definition Pos (k : kernel) (fd : Z) : Prop := exists v, k_open k fd = Some v /\ vcnt v <> 0.

Definition KPn (N : list Z) (k k' : kernel) : Prop :=
  forall fd, 1000 <= fd -> Pos k' fd -> Pos k fd \/ In fd N.
Definition KP (k k' : kernel) : Prop := KPn [] k k'.

Lemma KP_refl : forall k, KP k k. Proof. intros k fd _ H. left. exact H. Qed.

Lemma KPn_trans : forall N1 N2 a b c, KPn N1 a b -> KPn N2 b c -> KPn (N1 ++ N2) a c.
Proof.
  intros N1 N2 a b c A B fd L H. destruct (B fd L H) as [H1|H1]; [|right; apply in_or_app; right; exact H1].
  destruct (A fd L H1) as [H2|H2]; [left; exact H2|right; apply in_or_app; left; exact H2].
Qed.

Lemma KP_trans : forall a b c, KP a b -> KP b c -> KP a c.
Proof. intros a b c A B. apply (KPn_trans [] [] a b c A B). Qed.

Lemma KPn_l : forall N a b c, KP a b -> KPn N b c -> KPn N a c.
Proof. intros N a b c A B. apply (KPn_trans [] N a b c A B). Qed.
Lemma KPn_r : forall N a b c, KPn N a b -> KP b c -> KPn N a c.
Proof. intros N a b c A B. rewrite <- (app_nil_r N). apply (KPn_trans N [] a b c A B). Qed.

Lemma KP_fields : forall k k', vfds k' = vfds k -> KP k k'.
Proof. intros k k' V fd _ (v & O & C). left. exists v. unfold k_open, k_get in *. rewrite V in O. auto. Qed.

(* rewriting a descriptor without reopening it and without making its count non-zero *)
Lemma KP_put_keep : forall k fd v v', k_get k fd = Some v -> (vclosed v = true -> vclosed v' = true) ->
  (vcnt v' <> 0 -> vcnt v <> 0) -> KP k (k_put k fd v').
Proof.
  intros k fd v v' G C CN fd' _ (w & O & P). left. rewrite k_open_put in O.
  destruct (Z.eqb_spec fd' fd) as [E|N]; [subst fd'|exists w; auto].
  destruct (vclosed v') eqn:VC; [discriminate O|]. inversion O; subst w.
  exists v. unfold k_open. rewrite G. destruct (vclosed v); [specialize (C eq_refl); congruence|]. auto.
Qed.

Lemma KP_put_user : forall k fd v, fd < 1000 -> KP k (k_put k fd v).
Proof.
  intros k fd v L fd' L' (w & O & P). left. rewrite k_open_put in O. destruct (Z.eqb_spec fd' fd) as [E|N]; [lia|exists w; auto].
Qed.

Lemma KP_put_zero : forall k fd v, vcnt v = 0 -> KP k (k_put k fd v).
Proof.
  intros k fd v Z0 fd' _ (w & O & P). left. rewrite k_open_put in O. destruct (Z.eqb_spec fd' fd) as [E|N]; [|exists w; auto].
  destruct (vclosed v); [discriminate O|]. inversion O; subst w. congruence.
Qed.

Lemma KPn_put : forall k fd v, KPn [fd] k (k_put k fd v).
Proof.
  intros k fd v fd' _ (w & O & P). rewrite k_open_put in O.
  destruct (Z.eqb_spec fd' fd) as [E|N]; [right; left; symmetry; exact E|left; exists w; auto].
Qed.

Ltac kp_fields := apply KP_fields; reflexivity.

Lemma KP_ctl : forall k op fd ev d, KP k (fst (k_epoll_ctl k op fd ev d)).
Proof.
  intros. unfold k_epoll_ctl.
  repeat match goal with |- context [match ?x with _ => _ end] => destruct x end; cbn [fst]; kp_fields.
Qed.

Lemma KP_read : forall k fd c, KP k (fst (k_read k fd c)).
Proof.
  intros k fd c. unfold k_read. unfold k_open at 1.
  destruct (k_get k fd) as [v|] eqn:G; [|apply KP_refl]. destruct (vclosed v) eqn:VC; [apply KP_refl|].
  destruct (vkind v =? K_EVENTFD).
  { destruct (c <? 8); [apply KP_refl|]. destruct (Z.eqb_spec (vcnt v) 0); cbn [fst]; [apply KP_refl|].
    eapply KP_put_keep; [exact G|rewrite VC; discriminate|cbn; tauto]. }
  destruct (vkind v =? K_PIPE_R).
  { destruct (Z.eqb_spec (vcnt v) 0); [destruct (vpeer_open v); apply KP_refl|]. cbn [fst].
    eapply KP_put_keep; [exact G|rewrite VC; discriminate|intros _; assumption]. }
  destruct (vkind v =? K_TIMERFD); [|apply KP_refl].
  destruct (has _ B_IN); cbn [fst]; [|apply KP_refl].
  eapply KP_put_keep; [exact G|rewrite VC; discriminate|cbn; tauto].
Qed.

(* a write changes the count of one descriptor *)
Definition wtarget (k : kernel) (fd : Z) : list Z :=
  match k_open k fd with
  | Some v => if vkind v =? K_EVENTFD then [fd] else if vkind v =? K_PIPE_W then [vpeer v] else []
  | None => []
  end.

Lemma KPn_write : forall k fd c x, KPn (wtarget k fd) k (fst (k_write k fd c x)).
Proof.
  intros k fd c x. unfold k_write, wtarget.
  destruct (k_open k fd) as [v|] eqn:O; [|apply KP_refl].
  destruct (vkind v =? K_EVENTFD).
  { destruct (c <? 8); cbn [fst]; [intros fd' L H; left; exact H|apply KPn_put]. }
  destruct (vkind v =? K_PIPE_W); [|apply KP_refl].
  destruct (negb (vpeer_open v)); [intros fd' L H; left; exact H|].
  destruct (k_get k (vpeer v)) as [r|] eqn:GR; [|intros fd' L H; left; exact H].
  destruct (_ <=? 0); cbn [fst]; [intros fd' L H; left; exact H|apply KPn_put].
Qed.

Lemma KP_close : forall k fd, KP k (fst (k_close k fd)).
Proof.
  intros k fd. unfold k_close. unfold k_open.
  destruct (k_get k fd) as [v|] eqn:G; [|apply KP_refl]. destruct (vclosed v) eqn:VC; [apply KP_refl|].
  cbn [fst]. set (k1 := k_put k fd (with_closed v true)).
  assert (K1 : KP k k1) by (eapply KP_put_keep; [exact G|reflexivity|cbn; tauto]).
  match goal with |- KP k (k_set_ep ?X _) => assert (HK2 : KP k X); [|set (k2 := X) in *] end.
  { destruct (_ || _); [|exact K1].
    destruct (k_get k1 (vpeer v)) as [p|] eqn:GP; [|exact K1].
    eapply KP_trans; [exact K1|]. eapply KP_put_keep; [exact GP|cbn; tauto|cbn; tauto]. }
  eapply KP_trans; [exact HK2|kp_fields].
Qed.

Lemma KP_alloc : forall k kind, KP k (snd (k_alloc k kind)).
Proof.
  intros k kind. unfold k_alloc. cbn [snd]. apply (KP_trans _ (k_set_next k (next_fd k + 1))); [apply KP_fields; reflexivity|].
  apply KP_put_zero. reflexivity.
Qed.

(* ---------- the descriptor layer ---------- *)
Record CF (s s' : core) : Prop := { cf_k : KP (kern s) (kern s'); cf_own : owners s' = owners s }.

Lemma CF_refl : forall s, CF s s. Proof. intros. constructor; [apply KP_refl|reflexivity]. Qed.
Lemma CF_trans : forall a b c, CF a b -> CF b c -> CF a c.
Proof. intros a b c [A1 A2] [B1 B2]. constructor; [eapply KP_trans; eassumption|congruence]. Qed.
Lemma CF_plain : forall s s', kern s' = kern s -> owners s' = owners s -> CF s s'.
Proof. intros s s' K O. constructor; [rewrite K; apply KP_refl|exact O]. Qed.
Lemma CF_kern : forall s k', KP (kern s) k' -> CF s (set_kern s k').
Proof. intros. constructor; [assumption|reflexivity]. Qed.
Lemma CF_putfd : forall s k f, CF s (putfd s k f).
Proof. intros. apply CF_plain; reflexivity. Qed.

Ltac cf_plain := apply CF_plain; reflexivity.

(* ---------- epoll back end ---------- *)
Lemma ctl_retry_CF : forall s op fd ev d s1 r, ctl_retry s op fd ev d = (s1, r) -> CF s s1.
Proof.
  intros s op fd ev d s1 r. unfold ctl_retry.
  pose proof (KP_ctl (kern s) op fd ev d) as K1.
  destruct (k_epoll_ctl (kern s) op fd ev d) as [k1 r1]. cbn [fst] in K1.
  assert (D : forall k', KP (kern s) k' -> (set_kern s k', r1) = (s1, r) -> CF s s1).
  { intros k' K E. inversion E; subst. apply CF_kern. exact K. }
  destruct r1 as [e|]; [destruct e|]; try (apply D; exact K1).
  pose proof (KP_ctl k1 op fd ev d) as K2.
  destruct (k_epoll_ctl k1 op fd ev d) as [k2 r2]. cbn [fst] in K2.
  intros E. inversion E; subst. apply CF_kern. eapply KP_trans; eassumption.
Qed.

Lemma flush_one__CF : forall s k s1 b, epoll_flush_one_ s k = (s1, b) -> CF s s1.
Proof.
  intros s k s1 b. unfold epoll_flush_one_.
  set (s0 := set_notify s _). set (f := getfd s0 k).
  assert (A0 : CF s s0) by cf_plain.
  destruct (regb f =? wanted f); [intros E; inversion E; subst; exact A0|].
  destruct (ctl_retry s0 _ _ _ k) as [s2 r] eqn:C. apply ctl_retry_CF in C.
  destruct r; intros E; inversion E; subst.
  - eapply CF_trans; eassumption.
  - eapply CF_trans; [exact A0|]. eapply CF_trans; [exact C|]. apply CF_putfd.
Qed.

Lemma flush_one_CF : forall s k, ARes (CF s) (epoll_flush_one s k).
Proof.
  intros s k. unfold epoll_flush_one. destruct (epoll_flush_one_ s k) as [s1 b] eqn:E.
  apply flush_one__CF in E. destruct b; cbn [ARes halt]; [exact I|exact E].
Qed.

Lemma flush_pending_CF : forall fuel s, ARes (CF s) (epoll_flush_pending fuel s).
Proof.
  induction fuel as [|f IH]; intros s; cbn [epoll_flush_pending]; destruct (notify s) as [|k l] eqn:NS;
    cbn [ARes halt]; try apply CF_refl; try exact I.
  eapply ARes_bind; [apply flush_one_CF|]. cbn beta. intros s1 A1.
  eapply ARes_imp; [apply IH|cbn beta; intros s2 A2; eapply CF_trans; eassumption].
Qed.

Lemma epoll_notify_CF : forall s k, CF s (epoll_notify_fd s k).
Proof. intros s k. unfold epoll_notify_fd. dm; cf_plain. Qed.

Lemma epoll_unregister_CF : forall s k, ARes (CF s) (epoll_unregister_fd s k).
Proof. intros s k. unfold epoll_unregister_fd. dm; [apply flush_one_CF|apply CF_refl]. Qed.

(* ---------- poll back end: the kernel is not involved ---------- *)
Lemma poll_notify_CF : forall s k, ARes (CF s) (poll_notify_fd s k).
Proof.
  intros s k. unfold poll_notify_fd. cbv zeta.
  destruct ((pidx (getfd s k) =? -1) && negb (wanted (getfd s k) =? 0)).
  { dm; cbn [ARes halt]; [exact I|cf_plain]. }
  destruct (negb (pidx (getfd s k) =? -1) && (wanted (getfd s k) =? 0)).
  { dm; cbn [ARes halt]; [exact I|].
    match goal with |- CF s (putfd ?S2 k ?F) => set (s2 := S2) end.
    assert (A2 : CF s s2).
    { unfold s2. match goal with |- CF s (set_poll ?S1 _ _) => set (s1 := S1) end.
      assert (A1 : CF s s1).
      { unfold s1. destruct (negb _); [|apply CF_refl].
        destruct (nth_z (pfds s) _) as [pl|]; [|apply CF_refl].
        destruct (nth_z (pkeys s) _) as [kl|]; [|apply CF_refl]. cf_plain. }
      eapply CF_trans; [exact A1|cf_plain]. }
    eapply CF_trans; [exact A2|apply CF_putfd]. }
  destruct (negb (pidx (getfd s k) =? -1)); [|apply CF_refl].
  destruct (nth_z (pfds s) _); cbn [ARes halt]; [cf_plain|exact I].
Qed.

Lemma poll_notify_sync_CF : forall s k, ARes (CF s) (fst (poll_notify_fd_sync s k)).
Proof. intros s k. unfold poll_notify_fd_sync. dm; cbn [fst]; [apply CF_refl|apply poll_notify_CF]. Qed.

Lemma m_notify_CF : forall s k, ARes (CF s) (m_notify_fd s k).
Proof. intros s k. unfold m_notify_fd. dm; [apply epoll_notify_CF|apply poll_notify_CF]. Qed.

Lemma notify_fd_CF : forall s k, ARes (CF s) (notify_fd s k).
Proof.
  intros s k. unfold notify_fd.
  eapply ARes_imp; [apply m_notify_CF|]. cbn beta. intros s1 A1.
  apply (CF_trans _ (putfd s k (recompute_wanted (getfd s k)))); [apply CF_putfd|exact A1].
Qed.

(* ---------- register / unregister ---------- *)
Lemma prologue_CF : forall s k, CF s (register_prologue s k).
Proof. intros s k. unfold register_prologue. apply CF_putfd. Qed.

Lemma epilogue_CF : forall s, CF s (register_epilogue s).
Proof. intros. cf_plain. Qed.

Lemma fd_register_CF : forall s k, ARes (CF s) (fd_register s k).
Proof.
  intros s k. unfold fd_register. eapply ARes_bind; [apply notify_fd_CF|]. cbn beta.
  intros s1 A1. cbn [ARes]. eapply CF_trans; [apply prologue_CF|]. eapply CF_trans; [exact A1|apply epilogue_CF].
Qed.

Lemma fd_unregister_CF : forall s k, ARes (CF s) (fd_unregister s k).
Proof.
  intros s k. unfold fd_unregister. cbv zeta.
  set (s0 := set_active _ _).
  assert (A0 : CF s s0) by (unfold s0; cf_plain).
  eapply ARes_bind; [apply notify_fd_CF|]. cbn beta. intros s1 A1.
  eapply ARes_bind with (P := CF s1).
  { destruct (is_epoll s1); [|apply CF_refl]. apply epoll_unregister_CF. }
  cbn beta. intros s2 A2. cbn [ARes].
  eapply CF_trans; [exact A0|]. eapply CF_trans; [exact A1|]. eapply CF_trans; [exact A2|].
  destruct (handled _) as [h|]; [destruct (h =? k)|]; cf_plain.
Qed.

Lemma fd_set_handler_CF : forall s k band h, ARes (CF s) (fd_set_handler s k band h).
Proof.
  intros s k band h. unfold fd_set_handler. cbv zeta.
  match goal with |- ARes _ (if _ then notify_fd ?S k else _) => assert (A0 : CF s S) by apply CF_putfd end.
  destruct (registered (getfd s k)); [|exact A0].
  eapply ARes_imp; [apply notify_fd_CF|]. cbn beta. intros s1 A1. eapply CF_trans; eassumption.
Qed.

Lemma fd_register_try_CF : forall s k, ARes (CF s) (fst (fd_register_try s k)).
Proof.
  intros s k. unfold fd_register_try.
  set (s1 := register_prologue s k).
  set (s2 := putfd s1 k (recompute_wanted (getfd s1 k))).
  set (orig := wanted (getfd s2 k)).
  set (s3 := if orig =? 0 then putfd s2 k (fd_with_wanted (getfd s2 k) (M_IN + M_OUT)) else s2).
  assert (A3 : CF s s3).
  { eapply CF_trans; [apply prologue_CF|]. fold s1.
    apply (CF_trans _ s2); [apply CF_putfd|].
    unfold s3. destruct (orig =? 0); [apply CF_putfd|apply CF_refl]. }
  assert (FAIL : forall s4, CF s3 s4 ->
     ARes (CF s)
       ((fun s => let s := putfd s k (fd_with_registered (getfd s k) false) in
                  if is_epoll s then epoll_unregister_fd s k else R s) s4)).
  { intros s4 A4. cbv beta zeta. set (s5 := putfd s4 k _).
    assert (A5 : CF s s5).
    { eapply CF_trans; [exact A3|]. eapply CF_trans; [exact A4|]. apply CF_putfd. }
    destruct (is_epoll s5); [|exact A5].
    eapply ARes_imp; [apply epoll_unregister_CF|].
    cbn beta. intros s6 A6. eapply CF_trans; eassumption. }
  assert (OKC : forall s4, CF s3 s4 ->
     ARes (CF s)
       ((fun s => bind (if orig =? 0 then m_notify_fd (putfd s k (fd_with_wanted (getfd s k) 0)) k else R s)
            (fun s => R (register_epilogue s))) s4)).
  { intros s4 A4. cbv beta. eapply ARes_bind with (P := CF s4).
    - destruct (orig =? 0); [|apply CF_refl].
      eapply ARes_imp; [apply m_notify_CF|]. cbn beta. intros s5 A5.
      apply (CF_trans _ (putfd s4 k (fd_with_wanted (getfd s4 k) 0))); [apply CF_putfd|exact A5].
    - cbn beta. intros s5 A5. cbn [ARes].
      eapply CF_trans; [exact A3|]. eapply CF_trans; [exact A4|]. eapply CF_trans; [exact A5|apply epilogue_CF]. }
  destruct (is_epoll s3).
  - destruct (epoll_flush_one_ s3 k) as [s4 fl] eqn:F. apply flush_one__CF in F.
    destruct fl; cbn [fst bind]; [apply FAIL|apply OKC]; exact F.
  - pose proof (poll_notify_sync_CF s3 k) as Q.
    destruct (poll_notify_fd_sync s3 k) as [r fl]. cbn [fst] in Q.
    destruct fl; cbn [fst]; (eapply ARes_bind; [exact Q|]); [exact FAIL|exact OKC].
Qed.

Lemma make_ready_CF : forall s k b, CF s (make_ready s k b).
Proof.
  intros s k b. unfold make_ready.
  match goal with |- CF s (putfd ?S k _) => assert (A : CF s S) end.
  { dm; [apply CF_refl|cf_plain]. }
  eapply CF_trans; [exact A|apply CF_putfd].
Qed.

Lemma activate_CF : forall s k bits, CF s (activate s k bits).
Proof.
  intros s k bits. unfold activate. cbv zeta.
  repeat match goal with |- context [if ?c then _ else _] => destruct c end;
    repeat (eapply CF_trans; [|apply make_ready_CF]); apply CF_refl.
Qed.

Lemma do_close_CF : forall s fd, CF s (do_close s fd) /\ k_open (kern (do_close s fd)) fd = None.
Proof.
  intros s fd. unfold do_close. pose proof (KP_close (kern s) fd) as K. pose proof (k_close_closed (kern s) fd) as C.
  destruct (k_close (kern s) fd) as [k1 ok]. cbn [fst] in K, C.
  destruct ok; (split; [constructor; [exact K|reflexivity]|exact C]).
Qed.
