(* CoreRelTm.v -- the timer store (Timer/Heap*.v) in the vocabulary of the
   tracker relation: which timers are registered (index <> -1) and their expiries. *)
From Coq Require Import List ZArith Bool Lia.
From Ivv Require Import Timer.HeapModel Timer.HeapSpec Timer.HeapBase Timer.HeapSift Timer.HeapFacts
  Timer.HeapReg Timer.HeapUnreg Timer.HeapCollect Timer.HeapDispatch.
Import ListNotations.
Local Open Scope Z_scope.

Lemma tsim_unreg : forall s s' t, tsim s s' t -> (tidx s' t = -1 <-> tidx s t = -1).
Proof. intros s s' t [[A B]|E]; [lia|rewrite E; tauto]. Qed.

Lemma heap_reg_spec : forall h t e, Inv h -> tidx h t = -1 ->
  exists h', register (set_exp h t e) t = Ok h' /\ Inv h' /\ tidx h' t <> -1 /\ texp h' t = e /\
    (forall t', t' <> t -> (tidx h' t' = -1 <-> tidx h t' = -1) /\ texp h' t' = texp h t').
Proof.
  intros h t e I TI.
  destruct (register_inv (set_exp h t e) t) as (h' & R & I' & A & TS & X & _).
  - apply set_exp_inv; assumption.
  - apply tget_set_exp_same.
  - rewrite tidx_set_exp. assumption.
  - exists h'. split; [assumption|split; [assumption|]].
    unfold abs in A. destruct (Z.leb_spec 1 (tidx h' t)) as [L|L]; [|discriminate].
    inversion A as [A1]. rewrite texp_set_exp_same in A1.
    split; [lia|split; [assumption|]].
    intros t' N. split.
    + rewrite (tsim_unreg _ _ _ (TS t' N)). rewrite tidx_set_exp. tauto.
    + rewrite X. apply texp_set_exp_other. assumption.
Qed.

Lemma heap_unreg_spec : forall h t, Inv h -> tidx h t <> -1 ->
  exists h', unregister h t = Ok h' /\ Inv h' /\ tidx h' t = -1 /\
    (forall t', t' <> t -> (tidx h' t' = -1 <-> tidx h t' = -1)) /\ (forall t', texp h' t' = texp h t').
Proof.
  intros h t I TI.
  pose proof (proj2 (proj2 (i_batch h I)) t) as LB.
  destruct (Z.eq_dec (tidx h t) 0) as [Z0|NZ].
  - rewrite (unregister_expired_eq h t Z0).
    destruct (pop_inv h t I Z0) as (I' & T & TO & X & _).
    eexists. split; [reflexivity|split; [exact I'|split; [exact T|split; [|exact X]]]].
    intros t' N. rewrite (TO t' N). tauto.
  - destruct (unregister_inv h t I ltac:(lia)) as (h' & U & I' & T & TS & X & _).
    exists h'. split; [assumption|split; [assumption|split; [assumption|split; [|assumption]]]].
    intros t' N. apply tsim_unreg. apply TS. assumption.
Qed.

Lemma heap_collect_spec : forall h c, Inv h ->
  exists h', collect (S (Z.to_nat (num h))) (set_now h c) = Ok h' /\ Inv h' /\
    (forall t, (tidx h' t = -1 <-> tidx h t = -1) /\ texp h' t = texp h t).
Proof.
  intros h c I.
  set (h0 := set_now h c).
  assert (I0 : Inv h0) by (apply (Inv_ext h h0); try reflexivity; assumption).
  destruct (collect_ok (S (Z.to_nat (num h))) h0 I0) as (h' & l & C & I' & B' & X' & _ & _ & IN' & GE').
  { change (num h0) with (num h). pose proof (i_num h I). lia. }
  exists h'. split; [assumption|split; [assumption|]].
  intros t. split; [|rewrite X'; reflexivity].
  change (tidx h0 t) with (tidx h t) in *.
  destruct (i_batch h' I') as (B1 & _ & B3). destruct (i_batch h I) as (C1 & _ & C3).
  specialize (B1 t). specialize (B3 t). specialize (C1 t). specialize (C3 t).
  specialize (IN' t). specialize (GE' t). change (tidx h0 t) with (tidx h t) in *.
  change (batch h0) with (batch h) in B'. rewrite B' in B1.
  split; intros E.
  - destruct (Z.eq_dec (tidx h t) 0) as [Z0|NZ].
    + assert (In t (batch h ++ l)) by (apply in_or_app; left; apply C1; assumption). apply B1 in H. lia.
    + destruct (Z_lt_le_dec (tidx h t) 1) as [L|G]; [lia|].
      destruct (Z_lt_le_dec (now h0) (texp h0 t)) as [L1|G1].
      * assert (1 <= tidx h' t) by (apply GE'; split; assumption). lia.
      * assert (In t (batch h ++ l)) by (apply in_or_app; right; apply IN'; split; assumption). apply B1 in H. lia.
  - destruct (Z.eq_dec (tidx h' t) 0) as [Z0|NZ].
    + apply B1 in Z0. apply in_app_or in Z0. destruct Z0 as [Z0|Z0]; [apply C1 in Z0; lia|apply IN' in Z0; lia].
    + destruct (Z_lt_le_dec (tidx h' t) 1) as [L|G]; [lia|]. apply GE' in G. lia.
Qed.

Lemma heap_pop_spec : forall h t rest, Inv h -> batch h = t :: rest ->
  let h' := set_idx (set_batch h rest) t (-1) in
  Inv h' /\ tidx h t = 0 /\ tidx h' t = -1 /\ (forall t', t' <> t -> tidx h' t' = tidx h t') /\
  (forall t', texp h' t' = texp h t') /\ batch h' = rest.
Proof.
  intros h t rest I B h'.
  assert (Z0 : tidx h t = 0).
  { apply (proj1 (i_batch h I)). rewrite B. left. reflexivity. }
  destruct (pop_inv h t I Z0) as (I' & T & TO & X & BB & _).
  rewrite B in I', T, TO, X, BB. cbn [remove_first] in I', T, TO, X, BB. rewrite Pos.eqb_refl in I', T, TO, X, BB.
  unfold h'. split; [exact I'|]. repeat split; assumption.
Qed.
