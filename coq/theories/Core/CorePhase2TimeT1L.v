(* CorePhase2TimeT1L.v -- the invariant T1 through handler scripts and the callback
   dispatchers (events, raw events, descriptors, timers, tasks); codes 401 and 603. *)
From Coq Require Import List ZArith Bool Lia.
From Ivv Require Import Core.Kernel Core.CoreTypes Core.CoreFd Core.CoreModel Core.Monitors Core.CoreSpec
  Core.CoreRel Core.CorePhase2TimeMon Core.CorePhase2TimeFr Core.CorePhase2TimeT1.
From Ivv Require Timer.HeapModel Timer.HeapBase Timer.HeapFacts Timer.HeapCollect.
Import ListNotations.
Local Open Scope Z_scope.

Section RA.
Context `{RAi : RawAssume}.

Lemma T1_call : forall s e, T1 s ->
  match e with TCallFd _ _ _ _ | TCallEvent _ | TCallRaw _ => True | _ => False end -> T1 (emit s e).
Proof.
  intros s e T C. apply T1_emit; [exact T| | |]; destruct e; try contradiction;
    try (rewrite a_stale_step; reflexivity); try (rewrite ran_step; reflexivity); reflexivity.
Qed.

Lemma ran_call : forall s e,
  match e with TCallFd _ _ _ _ | TCallEvent _ | TCallRaw _ | TCallTimer _ _ => True | _ => False end ->
  ran (mst (emit s e)) = ran (mst s).
Proof. intros s e C. rewrite mst_emit, ran_step. destruct e; try contradiction; reflexivity. Qed.

Lemma NF_TCallTimer_401 : forall m j now, NF 401 m -> a_exp m j <= now -> NF 401 (mon_step m (TCallTimer j now)).
Proof.
  intros m j now N L H. unfold mon_step in H. cbv zeta in H. cbn [fails m_tms] in H.
  apply In_fails_chk in H. destruct H as [H|[_ H]]; [|discriminate H].
  apply In_fails_chk in H. destruct H as [H|[Hb _]].
  - apply In_fails_chk in H. destruct H as [H|[_ H]]; [|discriminate H].
    apply In_fails_on_call in H. destruct H as [H|[H|[]]]; [exact (N H)|discriminate H].
  - autorewrite with monp in Hb. apply Z.leb_gt in Hb. lia.
Qed.

Lemma G1_TCallTimer : forall m j now, G1 m -> a_exp m j <= now -> G1 (mon_step m (TCallTimer j now)).
Proof.
  intros m j now G L c Hc. destruct (Z.eq_dec c 401) as [->|N]; [apply NF_TCallTimer_401; [apply G; exact Hc|exact L]|].
  apply NF_step; [apply G; exact Hc|]. apply Act_all in Hc. cbn in Hc. cbn. intuition (subst; try discriminate; congruence).
Qed.

Lemma NF_TCallTask_603 : forall m k, NF 603 m -> ~ In k (ran m) -> NF 603 (mon_step m (TCallTask k)).
Proof.
  intros m k N L H. unfold mon_step in H. cbv zeta in H. cbn [fails m_tks] in H.
  apply In_fails_chk in H. destruct H as [H|[Hb _]].
  - apply In_fails_chk in H. destruct H as [H|[_ H]]; [|discriminate H].
    apply In_fails_on_call in H. destruct H as [H|[H|[]]]; [exact (N H)|discriminate H].
  - autorewrite with monq in Hb. apply negb_false_iff in Hb. apply mem_z_In in Hb. exact (L Hb).
Qed.

Lemma G1_TCallTask : forall m k, G1 m -> ~ In k (ran m) -> G1 (mon_step m (TCallTask k)).
Proof.
  intros m k G L c Hc. destruct (Z.eq_dec c 603) as [->|N]; [apply NF_TCallTask_603; [apply G; exact Hc|exact L]|].
  apply NF_step; [apply G; exact Hc|]. apply Act_all in Hc. cbn in Hc. cbn. intuition (subst; try discriminate; congruence).
Qed.

Section Loop.
Variable sc : scenario.
Hypothesis WF : wf_scenario sc.

Lemma run_script_Q1 : forall b s key, J b s -> T1 s -> Q1 s (run_script sc s key).
Proof.
  intros b s key Jh T. unfold run_script.
  pose proof (wf_handlers sc WF key) as WH.
  destruct (sc_handlers sc key) as [|l0 ls] eqn:EH; [apply Q1_same; exact T|].
  set (lists := l0 :: ls) in *.
  set (k := if invoc s key <? Z.of_nat (length lists) then invoc s key else Z.of_nat (length lists) - 1).
  set (s1 := set_invoc s _).
  assert (J1 : J b s1) by (apply (J_irr b s s1 Jh); reflexivity).
  assert (T1' : T1 s1) by (apply (T1_setters s s1 T); reflexivity).
  eapply Q1_l; [apply (RanF_eq s s1); reflexivity|].
  apply (run_acts_Q1 b); [assumption|assumption|].
  destruct (nth_in_or_default (Z.to_nat k) lists []) as [H|H].
  - rewrite Forall_forall in WH. apply WH. assumption.
  - rewrite H. constructor.
Qed.

Lemma Q1_halt : forall s e, T1 s -> cs e -> Q1 s (halt s e).
Proof.
  intros s e T C. cbn [Q1 halt]. apply (t1_good (emit s e)). apply (T1_F0 s _ T). apply (F0_halt s e C).
Qed.

Lemma events_loop_Q1 : forall fuel s, J true s -> T1 s -> Q1 s (events_loop sc fuel s).
Proof.
  induction fuel as [|fuel IH]; intros s Jh T; cbn [events_loop].
  - destruct (ev_batch s) as [|ie rest]; [apply Q1_same; exact T|]. apply Q1_halt; [exact T|exact I].
  - destruct (ev_batch s) as [|ie rest] eqn:B; [apply Q1_same; exact T|].
    pose proof (J_call_event s ie rest Jh B) as J1.
    set (s0 := set_evlists s (ev_pending s) rest) in *.
    assert (T0 : T1 s0) by (apply (T1_setters s s0 T); reflexivity).
    set (s1 := emit s0 (TCallEvent ie)) in *.
    assert (T1' : T1 s1) by (apply T1_call; [exact T0|exact I]).
    eapply Q1_l; [apply (RanF_eq s s1); [apply (ran_call s0 (TCallEvent ie)); exact I|reflexivity]|].
    eapply (Q1_bind true); [apply run_script_post; [exact WF|exact J1]|apply (run_script_Q1 true); assumption|].
    intros s2 J2 T2. destruct rest; [apply Q1_same; exact T2|apply IH; assumption].
Qed.

Lemma run_pending_events_Q1 : forall s, J true s -> T1 s -> Q1 s (run_pending_events sc s).
Proof.
  intros s Jh T. unfold run_pending_events.
  destruct (ev_pending s) as [|p0 pl] eqn:P; [apply Q1_same; exact T|].
  set (p := p0 :: pl) in *. set (s1 := set_evlists s [] p).
  (* J of the intermediate state: as in CoreRelLoop.run_pending_events_post *)
  destruct (J_SiEv _ _ Jh) as [S1 S2]. pose proof (J_AgEv _ _ Jh) as GE.
  assert (SUB : forall y, In y ([] ++ p) -> In y (ev_pending s ++ ev_batch s)).
  { intros y H. cbn [app] in H. rewrite P. apply in_or_app. left. exact H. }
  assert (J1 : J true s1).
  { apply (J_upd true s s1 Jh); try reflexivity; try (apply (j_good _ _ Jh));
      try (solve [left; repeat split; first [reflexivity | intros; apply fkeep_refl]]).
    - right. intros y Y. destruct (GE y Y) as [G1' G2]. split; [exact G1'|].
      intros H. apply G2. apply ev_on_list_In. apply SUB. apply ev_on_list_In in H. exact H.
    - right. split; cbn [s1 ev_pending ev_batch set_evlists ev_reg].
      + intros y H. apply S1. apply SUB. exact H.
      + cbn [app]. rewrite P in S2. apply NoDup_app_iff in S2. apply S2.
    - apply (FdI_keep s s1 (-1) (j_fd _ _ Jh)); reflexivity.
    - apply (FdX_keep s s1 (j_fx _ _ Jh)); try reflexivity; intros; repeat split. }
  assert (T1' : T1 s1) by (apply (T1_setters s s1 T); reflexivity).
  eapply Q1_l; [apply (RanF_eq s s1); reflexivity|]. apply events_loop_Q1; assumption.
Qed.

Lemma T1_set_kern : forall s k1, T1 s -> ksame (kern s) k1 -> T1 (set_kern s k1).
Proof. intros s k1 T K. apply (T1_F0 s _ T). apply F0_set_kern. exact K. Qed.

Lemma raw_got_event_Q1 : forall s j, J true s -> T1 s -> (j = KICK_RAW \/ (inr16 j /\ rw_reg s j = true)) ->
  Q1 s (raw_got_event sc s j).
Proof.
  intros s j Jh T JR. unfold raw_got_event.
  pose proof (ksame_read (kern s) (rw_rfd s j) (if raw_is_pipe s j then 1024 else 8)) as KS.
  destruct (k_read (kern s) (rw_rfd s j) (if raw_is_pipe s j then 1024 else 8)) as [k1 [n|e]]; cbn [fst] in KS.
  - pose proof (J_set_kern_plain true s k1 Jh KS) as J1.
    pose proof (T1_set_kern s k1 T KS) as T1'.
    set (s1 := set_kern s k1) in *.
    destruct (n =? 0).
    + eapply Q1_l; [apply (RanF_eq s s1); reflexivity|]. apply Q1_halt; [exact T1'|exact I].
    + eapply Q1_l; [apply (RanF_eq s s1); reflexivity|].
      destruct (Z.eqb_spec j KICK_RAW) as [EK|NK]; [apply run_pending_events_Q1; assumption|].
      destruct JR as [JR|[JR1 JR2]]; [contradiction|].
      assert (J2 : J true (emit s1 (TCallRaw j))).
      { apply J_event_same; [exact J1|apply mview_TCallRaw|].
        apply good_TCallRaw; [apply (j_good _ _ J1)|apply (j_main _ _ J1)|].
        rewrite (J_AgRw _ _ J1 j JR1). exact JR2. }
      eapply Q1_l; [apply (RanF_eq s1 (emit s1 (TCallRaw j))); [apply (ran_call s1 (TCallRaw j)); exact I|reflexivity]|].
      apply (run_script_Q1 true); [exact J2|apply T1_call; [exact T1'|exact I]].
  - pose proof (T1_set_kern s k1 T KS) as T1'.
    destruct e; try (eapply Q1_l; [apply (RanF_eq s (set_kern s k1)); reflexivity|]; apply Q1_halt; [exact T1'|exact I]).
    cbn [Q1]. split; [exact T1'|apply RanF_eq; reflexivity].
Qed.

Lemma call_fd_Q1 : forall s k band h, J true s -> T1 s -> 0 <= k <= 32 -> registered (fdt s k) = true ->
  ((band = 0 /\ h = h_in (fdt s k)) \/ (band = 1 /\ h = h_out (fdt s k)) \/ (band = 2 /\ h = h_err (fdt s k))) ->
  Q1 s (call_fd sc s k band h).
Proof.
  intros s k band h Jh T K RG HB. unfold call_fd.
  destruct h as [hid|]; [|apply Q1_same; exact T].
  pose proof (j_fx _ _ Jh) as FX.
  destruct (Z_lt_le_dec k 16) as [KU|KR].
  - assert (I16 : inr16 k) by (unfold inr16; lia).
    destruct (fx_userh _ FX k I16) as (U1 & U2 & U3).
    assert (HR : 0 <= hid < 16).
    { destruct HB as [[_ E]|[[_ E]|[_ E]]]; symmetry in E; [apply U1|apply U2|apply U3]; exact E. }
    destruct (Z.leb_spec 1000 hid) as [L|L]; [lia|].
    destruct (J_AgFd _ _ Jh k I16) as (A1 & A2 & A3 & A4 & A5).
    set (ev := TCallFd k band hid (cookie (getfd s k))).
    assert (J2 : J true (emit s ev)).
    { apply J_event_same; [exact Jh|apply mview_TCallFd|].
      apply good_TCallFd; [apply (j_good _ _ Jh)|apply (j_main _ _ Jh)|congruence| |exact A5].
      destruct HB as [[-> E]|[[-> E]|[-> E]]]; congruence. }
    eapply Q1_l; [apply (RanF_eq s (emit s ev)); [apply (ran_call s ev); exact I|reflexivity]|].
    apply (run_script_Q1 true); [exact J2|apply T1_call; [exact T|exact I]].
  - destruct (fx_rawh _ FX k ltac:(lia)) as (U1 & U2 & U3).
    assert (HR : hid = 1000 + (k - 16)).
    { destruct HB as [[_ E]|[[_ E]|[_ E]]]; symmetry in E; [apply U1|apply U2|apply U3]; exact E. }
    destruct (Z.leb_spec 1000 hid) as [L|L]; [|lia].
    apply raw_got_event_Q1; [exact Jh|exact T|].
    replace (hid - 1000) with (k - 16) by lia.
    destruct (Z.eq_dec (k - 16) KICK_RAW) as [E|N]; [left; exact E|right].
    unfold KICK_RAW in N. split; [unfold inr16; lia|].
    apply (fx_raw _ FX (k - 16)); [lia|]. replace (16 + (k - 16)) with k by lia. exact RG.
Qed.

Lemma guarded_call_Q1 : forall s k band (c : bool), J true s -> T1 s -> 0 <= k <= 32 ->
  (handled s = Some k \/ handled s = None) -> (band = 0 \/ band = 1 \/ band = 2) ->
  let h := if band =? 0 then h_in (fdt s k) else if band =? 1 then h_out (fdt s k) else h_err (fdt s k) in
  Q1 s (match handled s with
        | Some _ => if c then call_fd sc s k band h else R s
        | None => R s
        end).
Proof.
  intros s k band c Jh T K H B h.
  destruct (handled s) as [k'|] eqn:HD; [|apply Q1_same; exact T].
  destruct c; [|apply Q1_same; exact T].
  destruct H as [H|H]; [|discriminate]. inversion H; subst k'.
  destruct (fi_handled s (-1) (j_fd _ _ Jh) k HD) as [_ RG]. specialize (RG ltac:(lia)).
  apply call_fd_Q1; try assumption.
  unfold h. destruct B as [->|[->| ->]]; cbn; auto.
Qed.

Lemma dispatch_active_Q1 : forall fuel s, J true s -> T1 s -> Q1 s (dispatch_active sc fuel s).
Proof.
  induction fuel as [|fuel IH]; intros s Jh T; cbn [dispatch_active].
  - destruct (active s) as [|k rest]; [apply Q1_same; exact T|]. apply Q1_halt; [exact T|exact I].
  - destruct (active s) as [|k rest] eqn:A; [apply Q1_same; exact T|].
    destruct (J_pop_active s k rest Jh A) as [J1 K].
    set (s1 := set_handled (set_active s rest) (Some k)) in *.
    assert (T1' : T1 s1) by (apply (T1_setters s s1 T); reflexivity).
    eapply Q1_l; [apply (RanF_eq s s1); reflexivity|].
    (* error band *)
    assert (PA : Post true s1 (if has (ready (getfd s1 k)) M_ERR then call_fd sc s1 k 2 (h_err (getfd s1 k)) else R s1)).
    { pose proof (guarded_call sc WF s1 k 2 (has (ready (getfd s1 k)) M_ERR) J1 K (or_introl eq_refl) ltac:(auto)) as Q.
      cbv zeta in Q. change (handled s1) with (Some k) in Q. cbn in Q. exact Q. }
    assert (QA : Q1 s1 (if has (ready (getfd s1 k)) M_ERR then call_fd sc s1 k 2 (h_err (getfd s1 k)) else R s1)).
    { pose proof (guarded_call_Q1 s1 k 2 (has (ready (getfd s1 k)) M_ERR) J1 T1' K (or_introl eq_refl) ltac:(auto)) as Q.
      cbv zeta in Q. change (handled s1) with (Some k) in Q. cbn in Q. exact Q. }
    destruct (if has (ready (getfd s1 k)) M_ERR then call_fd sc s1 k 2 (h_err (getfd s1 k)) else R s1) as [s2|s2];
      cbn [bind Post Q1] in *; [|exact QA].
    destruct PA as [J2 F2]. destruct QA as [T2 R2]. eapply Q1_l; [exact R2|].
    (* input band *)
    pose proof (guarded_call sc WF s2 k 0 (has (ready (getfd s2 k)) M_IN) J2 K (proj1 F2) ltac:(auto)) as PB.
    pose proof (guarded_call_Q1 s2 k 0 (has (ready (getfd s2 k)) M_IN) J2 T2 K (proj1 F2) ltac:(auto)) as QB.
    cbv zeta in PB, QB. cbn [Z.eqb] in PB, QB.
    match type of PB with Post true s2 ?X => change X with
      (match handled s2 with
       | Some _ => if has (ready (getfd s2 k)) M_IN then call_fd sc s2 k 0 (h_in (getfd s2 k)) else R s2
       | None => R s2 end) in PB, QB end.
    destruct (match handled s2 with
       | Some _ => if has (ready (getfd s2 k)) M_IN then call_fd sc s2 k 0 (h_in (getfd s2 k)) else R s2
       | None => R s2 end) as [s3|s3]; cbn [bind Post Q1] in *; [|exact QB].
    destruct PB as [J3 F3]. destruct QB as [T3 R3]. eapply Q1_l; [exact R3|].
    pose proof (Fr_trans _ _ _ F2 F3) as F13.
    (* output band *)
    pose proof (guarded_call sc WF s3 k 1 (has (ready (getfd s3 k)) M_OUT) J3 K (proj1 F13) ltac:(auto)) as PC.
    pose proof (guarded_call_Q1 s3 k 1 (has (ready (getfd s3 k)) M_OUT) J3 T3 K (proj1 F13) ltac:(auto)) as QC.
    cbv zeta in PC, QC. cbn [Z.eqb Pos.eqb] in PC, QC.
    match type of PC with Post true s3 ?X => change X with
      (match handled s3 with
       | Some _ => if has (ready (getfd s3 k)) M_OUT then call_fd sc s3 k 1 (h_out (getfd s3 k)) else R s3
       | None => R s3 end) in PC, QC end.
    destruct (match handled s3 with
       | Some _ => if has (ready (getfd s3 k)) M_OUT then call_fd sc s3 k 1 (h_out (getfd s3 k)) else R s3
       | None => R s3 end) as [s4|s4]; cbn [bind Post Q1] in *; [|exact QC].
    destruct PC as [J4 F4]. destruct QC as [T4 R4]. eapply Q1_l; [exact R4|].
    apply IH; assumption.
Qed.

(* ---------- iv_run_timers ---------- *)
Lemma T1_call_timer : forall s t rest, J true s -> T1 s -> HeapModel.batch (heap s) = t :: rest ->
  let s1 := validate_now (set_heap s (HeapModel.set_idx (HeapModel.set_batch (heap s) rest) t (-1))) in
  T1 (emit s1 (TCallTimer (Zpos t - 1) (time s1))).
Proof.
  intros s t rest Jh T B s1.
  destruct (J_SiTm _ _ Jh) as [HI HR]. pose proof (J_AgTm _ _ Jh) as GT.
  destruct (heap_pop_spec (heap s) t rest HI B) as (I' & T0 & T1' & T2 & T3 & BR).
  set (h' := HeapModel.set_idx (HeapModel.set_batch (heap s) rest) t (-1)) in *.
  set (j := Zpos t - 1).
  assert (TR : Zpos t <= 16) by (apply HR; lia).
  assert (JR : inr16 j) by (unfold inr16, j; lia).
  assert (TJ : tmid j = t) by (unfold tmid, j; replace (Zpos t - 1 + 1) with (Zpos t) by lia; reflexivity).
  set (s0 := set_heap s h').
  assert (TS0 : T1 s0).
  { apply (T1_heap s s0 T); [reflexivity|reflexivity|]. cbn [s0 heap set_heap]. rewrite BR. intros y Y.
    split; [rewrite B; right; exact Y|apply T3]. }
  assert (TS1 : T1 s1) by (apply T1_validate; exact TS0).
  assert (M1 : mst s1 = mst s) by (unfold s1, validate_now; cbn [time_valid set_heap]; destruct (time_valid s); reflexivity).
  (* the batch member is due *)
  assert (DUE : a_exp (mst s) j <= time s1).
  { destruct (GT j JR) as [_ G2]. rewrite G2 by (unfold timer_registered; rewrite TJ, T0; reflexivity). rewrite TJ.
    destruct (t1_batch _ T t) as [D1 D2]; [rewrite B; left; reflexivity|].
    unfold s1, validate_now. cbn [time_valid set_heap]. destruct (time_valid s) eqn:TV; cbn [time set_heap set_time kern]; auto. }
  apply (T1_upd s1 _ TS1); rewrite ?mst_emit.
  - left. repeat split.
  - left. rewrite a_stale_step. repeat split.
  - left. rewrite ran_step. repeat split.
  - apply G1_TCallTimer; [apply (t1_good _ TS1)|rewrite M1; exact DUE].
Qed.

Lemma bind_R_inv : forall r f s', bind r f = R s' -> exists s1, r = R s1 /\ f s1 = R s'.
Proof. intros r f s' H. destruct r as [s1|s1]; cbn [bind] in H; [exists s1; auto|discriminate H]. Qed.

Lemma timers_dispatch_batch : forall fuel s s', timers_dispatch sc fuel s = R s' -> HeapModel.batch (heap s') = [].
Proof.
  induction fuel as [|fuel IH]; intros s s'; cbn [timers_dispatch].
  - destruct (HeapModel.batch (heap s)) eqn:B; [intros E; inversion E; subst; exact B|discriminate].
  - destruct (HeapModel.batch (heap s)) eqn:B; [intros E; inversion E; subst; exact B|].
    intros E. apply bind_R_inv in E. destruct E as (s1 & _ & E). apply (IH _ _ E).
Qed.

Lemma timers_dispatch_Q1 : forall fuel s, J true s -> T1 s -> Q1 s (timers_dispatch sc fuel s).
Proof.
  induction fuel as [|fuel IH]; intros s Jh T; cbn [timers_dispatch].
  - destruct (HeapModel.batch (heap s)) as [|t rest]; [apply Q1_same; exact T|]. apply Q1_halt; [exact T|exact I].
  - destruct (HeapModel.batch (heap s)) as [|t rest] eqn:B; [apply Q1_same; exact T|].
    pose proof (J_call_timer s t rest Jh B) as J1. pose proof (T1_call_timer s t rest Jh T B) as TS. cbv zeta in J1, TS.
    set (s1 := validate_now _) in *.
    assert (R1 : ran (mst (emit s1 (TCallTimer (Z.pos t - 1) (time s1)))) = ran (mst s)).
    { rewrite (ran_call s1 (TCallTimer (Z.pos t - 1) (time s1)) I). unfold s1. rewrite ran_validate. reflexivity. }
    eapply Q1_l; [apply RanF_mk; [exact R1|intros HB; rewrite B in HB; discriminate HB]|].
    eapply (Q1_bind true); [apply run_script_post; [exact WF|exact J1]|apply (run_script_Q1 true); assumption|].
    intros s2 J2 T2. apply IH; assumption.
Qed.

Lemma run_timers_Q1 : forall s, J true s -> T1 s -> Q1 s (run_timers sc s).
Proof.
  intros s Jh T. unfold run_timers.
  destruct (HeapModel.num (heap s) =? 0); [apply Q1_same; exact T|].
  destruct (J_validate true s Jh) as (J1 & F1 & M1 & _).
  pose proof (T1_validate s T) as TS1.
  set (s1 := validate_now s) in *.
  assert (TV1 : time_valid s1 = true) by (unfold s1, validate_now; destruct (time_valid s) eqn:E; [exact E|reflexivity]).
  eapply Q1_l; [apply (RanF_eq s (validate_now s)); [apply ran_validate|unfold validate_now; destruct (time_valid s); reflexivity]|]. fold s1.
  destruct (J_SiTm _ _ J1) as [HI HR]. pose proof (J_AgTm _ _ J1) as GT.
  set (h0 := HeapModel.set_now (heap s1) (time s1)).
  assert (I0 : HeapFacts.Inv h0) by (apply (HeapCollect.Inv_ext (heap s1) h0); try reflexivity; assumption).
  destruct (HeapCollect.collect_ok (S (Z.to_nat (HeapModel.num (heap s1)))) h0 I0) as (h' & l & C & I' & B' & X' & _ & _ & IN' & GE').
  { change (HeapModel.num h0) with (HeapModel.num (heap s1)). pose proof (HeapFacts.i_num _ HI). lia. }
  destruct (heap_collect_spec (heap s1) (time s1) HI) as (h'' & C2 & _ & TT).
  fold h0 in C2. rewrite C in C2. inversion C2; subst h''. clear C2.
  rewrite C. unfold lift_heap. cbn [bind].
  set (s2 := set_numobjs (set_heap s1 h') _).
  assert (J2 : J true s2).
  { apply (J_upd true s1 s2 J1); try reflexivity; try (apply (j_good _ _ J1));
      try (solve [left; repeat split; first [reflexivity | intros; apply fkeep_refl]]).
    - right. intros y Y. destruct (GT y Y) as [G1' G2]. unfold timer_registered in *.
      cbn [s2 heap set_numobjs set_heap]. destruct (TT (tmid y)) as [T1' T2].
      rewrite (treg_iff _ _ _ _ T1'), T2. split; assumption.
    - right. split; cbn [s2 heap set_numobjs set_heap]; [exact I'|].
      intros t H. apply HR. intros E. apply H. apply (proj1 (TT t)). exact E.
    - apply (FdI_keep s1 s2 (-1) (j_fd _ _ J1)); reflexivity.
    - apply (FdX_keep s1 s2 (j_fx _ _ J1)); try reflexivity; intros; repeat split. }
  assert (TS2 : T1 s2).
  { apply (T1_upd s1 s2 TS1).
    - right. intros t H. cbn [s2 heap set_numobjs set_heap time time_valid kern] in *.
      rewrite B' in H. change (HeapModel.batch h0) with (HeapModel.batch (heap s1)) in H.
      rewrite X'. change (HeapModel.texp h0 t) with (HeapModel.texp (heap s1) t).
      apply in_app_or in H. destruct H as [H|H]; [apply (t1_batch _ TS1 t H)|].
      apply IN' in H. destruct H as [_ H]. change (HeapModel.texp h0 t) with (HeapModel.texp (heap s1) t) in H.
      change (HeapModel.now h0) with (time s1) in H.
      pose proof (si_time _ (j_si _ _ J1) TV1) as TC. split; [lia|intros _; exact H].
    - left. repeat split.
    - left. repeat split.
    - apply (t1_good _ TS1). }
  pose proof (timers_dispatch_Q1 (S (length (HeapModel.batch (heap s2)))) s2 J2 TS2) as QD.
  pose proof (timers_dispatch_batch (S (length (HeapModel.batch (heap s2)))) s2) as BD.
  destruct (timers_dispatch sc (S (length (HeapModel.batch (heap s2)))) s2) as [s3|s3]; cbn [Q1] in *; [|exact QD].
  destruct QD as [T3 [R3 _]]. split; [exact T3|]. split; [intros H; apply R3; exact H|intros _; apply (BD s3 eq_refl)].
Qed.

(* ---------- iv_run_tasks ---------- *)
Definition BatchF (s s' : core) : Prop := HeapModel.batch (heap s) = [] -> HeapModel.batch (heap s') = [].
Definition Q1T (s : core) (r : res) : Prop := match r with R s' => T1 s' /\ BatchF s s' | Halt s' => G1 (mst s') end.

Lemma Q1T_l : forall s0 s r, BatchF s0 s -> Q1T s r -> Q1T s0 r.
Proof. intros s0 s r F Q. destruct r; cbn [Q1T] in *; [|exact Q]. destruct Q as [A B]. split; [exact A|intros H; apply B; apply F; exact H]. Qed.

Lemma T1_pop_task : forall s k rest, J true s -> T1 s -> cur s = Some (k :: rest) ->
  let s3 := set_epoch (set_numobjs (set_tasks s (tasks s) (Some rest)) (numobjs s - 1)) (epoch s) (upd (tepoch s) k (epoch s)) in
  T1 s3 /\ (k <> LOCAL_TASK -> T1 (emit s3 (TCallTask k))).
Proof.
  intros s k rest Jh T C s3.
  destruct (J_SiTk _ _ Jh) as [S1 S2].
  assert (CL : tasks s ++ curl s = tasks s ++ k :: rest) by (unfold curl; rewrite C; reflexivity).
  rewrite CL in S2.
  assert (NI : ~ In k rest).
  { apply NoDup_remove in S2. destruct S2 as [_ S2]. intros H. apply S2. apply in_or_app. right. exact H. }
  assert (RO : forall y, In y (ran (mst s)) -> tepoch s3 y = epoch s3 /\ ~ In y rest /\ y <> k).
  { intros y Y. destruct (t1_ran _ T y Y) as [E N]. unfold curl in N. rewrite C in N.
    cbn [s3 tepoch epoch set_epoch]. unfold upd. split; [destruct (y =? k); [reflexivity|exact E]|].
    split; [intros H; apply N; right; exact H|intros ->; apply N; left; reflexivity]. }
  assert (T3 : T1 s3).
  { apply (T1_tasks s s3 T); try reflexivity. intros y Y. change (mst s3) with (mst s) in Y.
    destruct (RO y Y) as (A & B & _). split; [exact A|exact B]. }
  split; [exact T3|]. intros NK.
  apply (T1_upd s3 _ T3); rewrite ?mst_emit.
  - left. repeat split.
  - left. rewrite a_stale_step. repeat split.
  - right. intros y Y. rewrite mst_emit, ran_step in Y. change (mst s3) with (mst s) in Y.
    change (curl (emit s3 (TCallTask k))) with rest.
    destruct Y as [<-|Y].
    + split; [|exact NI]. cbn [s3 tepoch epoch set_epoch emit set_trace]. unfold upd. rewrite Z.eqb_refl. reflexivity.
    + destruct (RO y Y) as (A & B & _). split; [exact A|exact B].
  - apply G1_TCallTask; [apply (t1_good _ T3)|]. change (mst s3) with (mst s). intros Y. destruct (RO k Y) as (_ & _ & N). congruence.
Qed.

Lemma tasks_loop_Q1 : forall fuel s, J true s -> T1 s -> Q1T s (tasks_loop sc fuel s).
Proof.
  induction fuel as [|fuel IH]; intros s Jh T; cbn [tasks_loop].
  - destruct (cur s) as [[|k rest]|] eqn:C.
    + cbn [Q1T]. split; [|intros H; exact H]. apply (T1_tasks s _ T); try reflexivity. intros y Y. change (mst (set_tasks s (tasks s) None)) with (mst s) in Y.
      split; [apply (t1_ran _ T y Y)|intros []].
    + cbn [Q1T halt]. apply (t1_good (emit s TCrash)). apply (T1_F0 s _ T). apply (F0_halt s TCrash I).
    + split; [exact T|intros H; exact H].
  - destruct (cur s) as [[|k rest]|] eqn:C.
    + cbn [Q1T]. split; [|intros H; exact H]. apply (T1_tasks s _ T); try reflexivity. intros y Y. change (mst (set_tasks s (tasks s) None)) with (mst s) in Y.
      split; [apply (t1_ran _ T y Y)|intros []].
    + destruct (J_pop_task s k rest Jh C) as [JL JN]. destruct (T1_pop_task s k rest Jh T C) as [TL TN]. cbv zeta in JL, JN, TL, TN.
      set (s3 := set_epoch _ _ _) in *.
      destruct (Z.eqb_spec k LOCAL_TASK) as [EK|NK].
      * pose proof (run_pending_events_post sc WF s3 (JL EK)) as P.
        pose proof (run_pending_events_Q1 s3 (JL EK) TL) as Q.
        destruct (run_pending_events sc s3) as [s5|s5]; cbn [bind Post Q1 Q1T] in *; [|exact Q].
        apply (Q1T_l s s5); [intros H; apply (proj2 (proj2 Q)); exact H|]. apply IH; [apply P|apply Q].
      * pose proof (run_script_post sc WF true (emit s3 (TCallTask k)) (HK_K + k) (JN NK)) as P.
        pose proof (run_script_Q1 true (emit s3 (TCallTask k)) (HK_K + k) (JN NK) (TN NK)) as Q.
        destruct (run_script sc (emit s3 (TCallTask k)) (HK_K + k)) as [s5|s5]; cbn [bind Post Q1 Q1T] in *; [|exact Q].
        apply (Q1T_l s s5); [intros H; apply (proj2 (proj2 Q)); exact H|]. apply IH; [apply P|apply Q].
    + split; [exact T|intros H; exact H].
Qed.

Lemma run_tasks_Q1 : forall s, J true s -> T1 s -> cur s = None -> ran (mst s) = [] -> Q1T s (run_tasks sc s).
Proof.
  intros s Jh T C RN. unfold run_tasks.
  set (s1 := set_epoch (set_tasks s [] (Some (tasks s))) _ _).
  assert (J1 : J true s1).
  { apply (J_upd true s s1 Jh); try reflexivity; try (apply (j_good _ _ Jh));
      try (solve [left; repeat split; first [reflexivity | intros; apply fkeep_refl]]).
    - right. intros y Y. change (a_tk (mst s) y = task_registered s1 y).
      rewrite (J_AgTk _ _ Jh y Y). unfold task_registered. cbn [s1 tasks cur set_tasks set_epoch].
      rewrite C. cbn [mem_z existsb orb]. rewrite orb_false_r. reflexivity.
    - right. destruct (J_SiTk _ _ Jh) as [S1 S2]. unfold SiTk, curl in *. cbn [s1 tasks cur set_tasks set_epoch].
      rewrite C in S1, S2. rewrite app_nil_r in S1, S2. split; assumption.
    - apply (FdI_keep s s1 (-1) (j_fd _ _ Jh)); reflexivity.
    - apply (FdX_keep s s1 (j_fx _ _ Jh)); try reflexivity; intros; repeat split. }
  assert (TS1 : T1 s1).
  { apply (T1_tasks s s1 T); try reflexivity. intros y Y. change (mst s1) with (mst s) in Y. rewrite RN in Y. destruct Y. }
  apply (Q1T_l s s1); [intros H; exact H|]. apply tasks_loop_Q1; assumption.
Qed.
End Loop.
End RA.
