(* CorePhase2AcctOwnTop.v -- code 1802: when the run ends every descriptor the library created is
   closed.  iv_main, tear-down and iv_deinit for the ownership invariant of CorePhase2AcctOwnAct. *)
From Coq Require Import List ZArith Bool Lia.
From Ivv Require Import Core.Kernel Core.CoreTypes Core.CoreFd Core.CoreModel Core.CoreSpec Core.Monitors.
From Ivv Require Import Core.CoreRel Core.CorePhase2AcctTr Core.CorePhase2AcctMon
  Core.CorePhase2AcctAct Core.CorePhase2AcctLoop Core.CorePhase2AcctTear Core.CorePhase2AcctEnd.
From Ivv Require Import Core.CoreInvBase Core.CoreInvDefs Core.CoreInvFd Core.CoreInvPoll Core.CoreInvReg Core.CoreInvObj
  Core.CoreInvTm Core.CoreInvLoop Core.CoreInvWait Core.CoreInvTop.
From Ivv Require Import Core.CorePhase2K1Base Core.CorePhase2AcctOwn Core.CorePhase2AcctOwnAct Core.CorePhase2AcctOwnLoop
  Core.CorePhase2AcctOwnWait.
From Ivv Require Timer.HeapModel.
Import ListNotations.
Local Open Scope Z_scope.

Section Top.
Variable sc : scenario.
Hypothesis WF : wf_scenario sc.
Hypothesis do_action_ok : forall s a, InvW s -> wf_action a -> okr (StepW s) (do_action s a).
Let Hh := wf_handlers sc WF.

(* ---------- iv_main ---------- *)
Lemma main_loop_O : forall fuel s rt s', LoopInv s -> main_loop sc fuel s rt = R s' -> LoopInv s' /\ ODI s s'.
Proof.
  induction fuel as [|fuel IH]; intros s rt s' L; cbn [main_loop]; [discriminate|].
  assert (P1 : match (if rt then run_timers sc s else R s) with
               | R s1 => LoopInv s1 /\ ODI s s1 | Halt _ => True end).
  { destruct rt; [|split; [exact L|apply ODI_refl]].
    pose proof (run_timers_ok sc Hh do_action_ok s (proj1 L) (proj1 (proj2 L))) as PL.
    pose proof (run_timers_O sc WF do_action_ok s (proj1 L) (proj1 (proj2 L))) as PO1.
    destruct (run_timers sc s) as [s1|s1]; unfold PO in *; cbn [okr ARes] in *; [|exact I].
    split; [apply (LoopInv_Ph sc WF do_action_ok s s1 L PL)|apply PO1]. }
  destruct (if rt then run_timers sc s else R s) as [s1|s1]; cbn [bind]; [|discriminate].
  destruct P1 as [L1 T1].
  pose proof (run_tasks_ok sc Hh do_action_ok s1 (proj1 L1) (proj1 (proj2 L1))) as PL.
  pose proof (run_tasks_O sc WF do_action_ok s1 (proj1 L1) (proj1 (proj2 L1))) as PO2.
  destruct (run_tasks sc s1) as [s2|s2]; unfold PO in *; cbn [bind okr ARes] in *; [|discriminate].
  pose proof (proj1 (LoopInv_Ph sc WF do_action_ok s1 s2 L1 PL)) as L2.
  assert (T2 : ODI s s2) by (eapply ODI_trans; [exact T1|apply PO2]).
  destruct (quit s2 || (numobjs s2 =? 0)); [intros E; inversion E; subst; split; assumption|].
  cbv zeta.
  match goal with |- context [poll_and_run sc s2 ?a] =>
    pose proof (poll_and_run_ok sc WF do_action_ok s2 a L2) as PR;
    pose proof (poll_and_run_O sc WF do_action_ok s2 a) as PO3;
    destruct (poll_and_run sc s2 a) as [r rt'] end. cbn [fst] in PR, PO3.
  destruct r as [s3|s3]; cbn [bind okr] in *; [|discriminate].
  intros E. destruct (IH s3 rt' s' (proj1 PR) E) as [L' T']. split; [exact L'|].
  eapply ODI_trans; [exact T2|]. eapply ODI_trans; [apply (PO3 s3 L2 eq_refl)|exact T'].
Qed.

(* ---------- tear-down ---------- *)
Lemma teardown_obj_O : forall s i, InvW s -> ok_idx i -> PO s (teardown_obj s i).
Proof.
  intros s i I OK. unfold teardown_obj.
  eapply PO_bind; [apply (do_action_O' do_action_ok s (AFdUnreg i) I OK)|]. intros s1 I1 _.
  eapply PO_bind; [apply (do_action_O' do_action_ok s1 (ATmUnreg i) I1 OK)|]. intros s2 I2 _.
  eapply PO_bind; [apply (do_action_O' do_action_ok s2 (ATkUnreg i) I2 OK)|]. intros s3 I3 _.
  eapply PO_bind; [apply (do_action_O' do_action_ok s3 (AEvUnreg i) I3 OK)|]. intros s4 I4 _.
  apply (do_action_O' do_action_ok s4 (ARwUnreg i) I4 OK).
Qed.

Lemma teardown_O : forall l s, InvW s -> (forall i, In i l -> ok_idx i) -> PO s (teardown s l).
Proof.
  induction l as [|i l IH]; intros s I OK; cbn [teardown]; [apply PO_same; exact I|].
  eapply PO_bind; [apply (teardown_obj_O s i I); apply OK; left; reflexivity|]. intros s1 I1 _.
  apply IH; [exact I1|]. intros j J. apply OK. right. exact J.
Qed.

(* ---------- the initial state ---------- *)
Definition ep0 : bool := (sc_backend sc =? M_ET) || (sc_backend sc =? M_EP).

Lemma core0_OD : OD (core0 sc) /\ (ep0 = false -> epfd (core0 sc) = -1) /\ is_epoll (core0 sc) = ep0.
Proof.
  unfold core0, ep0. cbv zeta. fold (kern0 (sc_faults sc)).
  destruct (kern0_spec (sc_faults sc)) as (K & _ & _ & _ & NX).
  assert (LOW : forall fd, 1000 <= fd -> k_open (kern0 (sc_faults sc)) fd = None).
  { intros fd L. unfold k_open. destruct (k_get (kern0 (sc_faults sc)) fd) eqn:G; [|reflexivity].
    pose proof (ki_alloc _ K fd ltac:(rewrite G; discriminate)). lia. }
  destruct ((sc_backend sc =? M_ET) || (sc_backend sc =? M_EP)) eqn:B.
  - pose proof (alloc_KOn (kern0 (sc_faults sc)) K_EPOLL) as KA. unfold k_epoll_create.
    destruct (k_alloc (kern0 (sc_faults sc)) K_EPOLL) as [efd k]. cbn [fst snd] in KA.
    split; [|split; [discriminate|unfold is_epoll; cbn [method]; exact B]].
    intros fd L O. cbn [kern] in O. destruct (KA fd L O) as [H|[<-|[]]]; [rewrite (LOW fd L) in H; contradiction|].
    left. reflexivity.
  - split; [|split; [reflexivity|unfold is_epoll; cbn [method]; exact B]].
    intros fd L O. cbn [kern] in O. rewrite (LOW fd L) in O. contradiction.
Qed.

(* ---------- iv_deinit closes what is left ---------- *)
Lemma cntf_all_false : forall f l, (forall x, In x l -> f x = false) -> cntf f l = 0.
Proof. intros f l H. rewrite (cntf_ext f (fun _ => false) l H). apply cntf_false. Qed.

Lemma final_closed : forall s e, InvW s -> TfdM s -> OD s -> (forall i, inr16 i -> Off s i) ->
  (ep0 = false -> epfd s = -1) -> is_epoll s = ep0 ->
  forall fd, 1000 <= fd -> k_open (kern (deinit sc (emit s e))) fd = None.
Proof.
  intros s e I TM D OFF EP IE fd L.
  assert (EC : ev_count s = 0).
  { rewrite (ev_cnt _ (iw_ev _ I)). apply cntf_all_false. intros x X. apply In_zseq' in X.
    destruct (OFF x ltac:(unfold inr16; lia)) as (_ & _ & _ & E & _). exact E. }
  assert (OW : forall x, Own s x -> x = epfd s \/ x = tfd s).
  { intros x [H|[H|[(j & RJ & _)|(AR & _)]]]; [left; exact H|right; exact H| |]; exfalso.
    - pose proof (dy_range _ (iw_dyn _ I) j RJ) as RG.
      destruct (Z.eq_dec j 16) as [->|NJ].
      + destruct (proj1 (ev_kick _ (iw_ev _ I)) RJ) as [_ P]. lia.
      + destruct (OFF j ltac:(unfold inr16; lia)) as (_ & _ & _ & _ & E). congruence.
    - destruct (fv_ref _ _ (iw_fd _ I)) as [Z0|O1]; [contradiction|].
      destruct (proj1 (ev_ref _ (iw_ev _ I)) O1) as [_ P]. lia. }
  assert (D' : k_open (kern s) fd <> None -> fd = epfd s \/ fd = tfd s) by (intros O; apply OW; apply D; assumption).
  unfold deinit. fold ep0. destruct ep0 eqn:B.
  - set (s' := emit s e).
    set (s1 := if tfd s' =? -1 then s' else do_close s' (tfd s')).
    assert (A1 : OF s' s1 /\ (tfd s <> -1 -> k_open (kern s1) (tfd s) = None)).
    { unfold s1. change (tfd s') with (tfd s). destruct (Z.eqb_spec (tfd s) (-1)) as [E1|N1]; [split; [apply OF_refl|contradiction]|].
      destruct (do_close_OF s' (tfd s)) as [A C]. split; [exact A|intros _; exact C]. }
    destruct A1 as [A1 C1]. destruct (do_close_OF s1 (epfd s1)) as [A2 C2].
    assert (E1 : epfd s1 = epfd s) by (destruct A1 as [_ E]; unfold owners in E; change (epfd s) with (epfd s'); congruence).
    destruct (k_open (kern (do_close s1 (epfd s1))) fd) eqn:O; [exfalso|reflexivity].
    assert (O1 : k_open (kern s1) fd <> None).
    { destruct (of_k _ _ A2 fd L ltac:(rewrite O; discriminate)) as [H|[]]. exact H. }
    assert (O0 : k_open (kern s) fd <> None).
    { destruct (of_k _ _ A1 fd L O1) as [H|[]]. exact H. }
    destruct (D' O0) as [H|H].
    + rewrite E1, <- H in C2. congruence.
    + apply O1. rewrite H. apply C1. lia.
  - destruct (k_open (kern (emit s e)) fd) eqn:O; [exfalso|reflexivity].
    destruct (D' ltac:(cbn [kern emit set_trace] in O; rewrite O; discriminate)) as [H|H].
    + rewrite (EP eq_refl) in H. lia.
    + assert (NT : tfd s <> -1) by lia. pose proof (TM NT) as ME. unfold is_epoll in IE. rewrite ME in IE. discriminate IE.
Qed.

Lemma open_dyn_zero : forall k, (forall fd, 1000 <= fd -> k_open k fd = None) -> open_dyn k = 0.
Proof.
  intros k H. unfold open_dyn. rewrite filter_none; [reflexivity|].
  intros x X. apply In_zseq' in X. rewrite (H x); [reflexivity|lia].
Qed.

(* ---------- whole runs ---------- *)
Definition S18 : list Z := [1802].

Lemma lp_quiet18 : forall e, lp e -> quiet_for S18 e.
Proof.
  intros e L c Hc Hs. destruct e; cbn [lp] in L; try contradiction; try destruct n;
    cbn [ev_codes In S18] in *; intuition (subst; discriminate).
Qed.

Lemma q18 : forall e, match e with TDone _ => False | _ => True end -> quiet_for S18 e.
Proof.
  intros e L c Hc Hs. destruct e; try contradiction; try destruct n;
    cbn [ev_codes In S18] in *; intuition (subst; discriminate).
Qed.

Theorem core_clean18 : Clean S18 (mon_run (run_scenario sc)).
Proof.
  unfold run_scenario.
  match goal with |- Clean S18 (mon_run (rev (trace (res_state ?r)))) => change (Clean S18 (mst (res_state r))) end.
  destruct (core0_Acc sc) as (A0 & B0 & _). destruct core0_OD as (D0 & EP0 & IE0).
  assert (C0 : Clean S18 (mst (core0 sc))).
  { unfold core0. destruct (if (sc_backend sc =? M_ET) || (sc_backend sc =? M_EP) then _ else _) as [efd k]. intros c []. }
  destruct (core0_Inv sc WF) as (I0 & TM0 & N0).
  assert (L0 : LoopInv (core0 sc)) by (apply LoopInv_Inv; split; assumption).
  pose proof (run_acts_PJA false (sc_setup sc) (core0 sc) (core0_J sc) A0 (wf_setup sc WF)) as P0.
  pose proof (run_acts_ok do_action_ok (sc_setup sc) (core0 sc) (proj1 I0) (wf_setup sc WF)) as PL0.
  pose proof (run_acts_O do_action_ok (sc_setup sc) (core0 sc) (proj1 I0) (wf_setup sc WF)) as PO0.
  pose proof (run_acts_ext (sc_setup sc) (core0 sc)) as T0. unfold RExt in T0.
  destruct (run_acts (core0 sc) (sc_setup sc)) as [s1|s1]; unfold PO in *; cbn [bind PJA ARes okr res_state] in *;
    [|apply (Clean_ext S18 lp _ _ lp_quiet18 (TrExt_weaken _ _ _ _ ca_lp T0) C0)].
  destruct P0 as (J1 & A1 & F1 & B1).
  pose proof (Clean_ext S18 lp _ _ lp_quiet18 (TrExt_weaken _ _ _ _ ca_lp T0) C0) as C1.
  pose proof (LoopInv_StepT _ _ L0 PL0) as L1. destruct PO0 as [_ O1].
  (* iv_main *)
  set (s2 := set_quit (emit s1 TMain) false).
  pose proof (J_main_enter s1 J1) as J2. fold s2 in J2.
  assert (C2 : Clean S18 (mst s2)).
  { change (mst s2) with (mst (emit s1 TMain)). rewrite mst_emit. apply Clean_step; [apply q18; exact I|exact C1]. }
  assert (A2 : Acc s2).
  { apply (Acc_plain (fun _ => True) s1 s2 A1); try reflexivity.
    exists [TMain]. split; [reflexivity|constructor; [exact I|constructor]]. }
  assert (ML2 : ML s2).
  { constructor; [exact J2|exact A2| |].
    - change (cur s1 = None). apply (proj2 F1). apply core0_cur.
    - change (HeapModel.batch (heap s1) = []). apply B1. exact B0. }
  pose proof (proj1 (main_enter s1 L1)) as L2. fold s2 in L2.
  assert (O2 : ODI (core0 sc) s2) by (eapply ODI_trans; [exact O1|apply ODI_plain; reflexivity]).
  pose proof (main_loop_ML sc WF (Z.to_nat (sc_limit sc) + 2) s2 true ML2) as P3.
  pose proof (main_loop_ext sc (Z.to_nat (sc_limit sc) + 2) s2 true) as T3. unfold RExt in T3.
  pose proof (main_loop_O (Z.to_nat (sc_limit sc) + 2) s2 true) as PO3.
  destruct (main_loop sc (Z.to_nat (sc_limit sc) + 2) s2 true) as [s3|s3]; cbn [bind res_state] in *;
    [|apply (Clean_ext S18 lp _ _ lp_quiet18 T3 C2)].
  destruct P3 as [[J3 A3 CU3 B3] _]. destruct (PO3 s3 L2 eq_refl) as [L3 O3].
  pose proof (Clean_ext S18 lp _ _ lp_quiet18 T3 C2) as C3.
  (* iv_main returns *)
  set (s4 := emit s3 (TEnd (if quit s3 then 1 else 0) (numobjs s3))).
  pose proof (J_main_leave s3 J3) as J4. fold s4 in J4.
  assert (C4 : Clean S18 (mst s4)) by (unfold s4; rewrite mst_emit; apply Clean_step; [apply q18; exact I|exact C3]).
  assert (A4 : Acc s4) by (apply (Acc_plain (fun _ => True) s3 s4 A3); try reflexivity; apply TrExt_emit; exact I).
  assert (I4 : InvW s4) by (apply InvW_emit; [apply L3|discriminate..]).
  assert (TM4 : TfdM s4) by (apply L3).
  (* tear-down *)
  pose proof (teardown_all_off false s4 J4 A4) as P5.
  pose proof (teardown_ext (zseq 0 16) s4) as T5. unfold RExt in T5.
  assert (OKI : forall i, In i (zseq 0 16) -> ok_idx i) by (intros i Hi; apply In_zseq' in Hi; unfold ok_idx; cbn in Hi; lia).
  pose proof (teardown_ok do_action_ok (zseq 0 16) s4 I4 OKI) as PL5.
  pose proof (teardown_O (zseq 0 16) s4 I4 OKI) as PO5.
  pose proof (Clean_ext S18 lp _ _ lp_quiet18 (TrExt_weaken _ _ _ _ ca_lp T5) C4) as C5.
  destruct (teardown s4 (zseq 0 16)) as [s5|s5]; unfold PO in *; cbn [bind res_state okr ARes] in *; [|exact C5].
  destruct P5 as (_ & _ & _ & OFF5). destruct PL5 as (I5 & _ & TMM5). destruct PO5 as [_ O5].
  assert (O05 : ODI (core0 sc) s5).
  { eapply ODI_trans; [exact O2|]. eapply ODI_trans; [exact O3|]. apply (ODI_trans _ s4); [apply ODI_plain; reflexivity|exact O5]. }
  destruct O05 as [OD5 EPF5 IEP5].
  rewrite mst_emit. cbn [mon_step].
  rewrite open_dyn_zero.
  - cbn [Z.eqb]. unfold chk. cbn [negb]. 
    apply (Clean_ext S18 lp (emit s5 (TTear (numobjs s5)))); [exact lp_quiet18|eapply TrExt_weaken; [exact ca_lp|apply deinit_ext]|].
    rewrite mst_emit. apply Clean_step; [apply q18; exact I|exact C5].
  - apply final_closed; [exact I5|eapply TfdM_tm; eassumption|apply OD5; exact D0|exact OFF5| |].
    + intros B. rewrite EPF5. apply EP0. exact B.
    + rewrite IEP5. exact IE0.
Qed.

End Top.

(* ---------- exported statement ---------- *)
From Ivv Require Core.CoreInv.

Theorem core_code_1802 : forall sc, wf_scenario sc -> ~ In 1802 (mon_fails (run_scenario sc)).
Proof. intros sc WF H. apply (core_clean18 sc WF CoreInv.do_action_ok 1802 H). cbn. tauto. Qed.

Print Assumptions core_code_1802.
